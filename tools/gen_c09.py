"""Generators for C09: the constants of `pl/dag.py` the task-graph model depends on.

Extracted from the source on every run (Generated/DagConsts.lean):
  buildOrder   the factory kinds in the order `Construct.__init__` builds their trees
  depMethod    per kind, the dependency method handed to `_build_tree` (root test `getattr(alg, dep)()`)
  subReads     per kind, the method the matching `_sub_*` expands with `as_vref`
  atLevel / svtLevel / ttLevel   the arguments of `_trim_trees` for `_at`, `_svt`, `_tt`
  crossLevel   the trim length `_parents` uses to tell another algorithm's node
  famLevel     the `length == N` at which `Node.trim` copies ancestry and parents
  nameArity    number of components joined into a node name by `_build_tree`
Anything that does not have the expected shape raises `Untranslatable`."""
import ast

from tools.translate import Untranslatable, _tree, find_def

DAG = 'pl/dag.py'


def _attr_chain(n):
    out = []
    while isinstance(n, ast.Attribute):
        out.append(n.attr)
        n = n.value
    if isinstance(n, ast.Name):
        out.append(n.id)
    return '.'.join(reversed(out))


def _build_calls(init):
    calls = []
    for n in ast.walk(init):
        if isinstance(n, ast.Call) and _attr_chain(n.func) == 'self._build_tree':
            calls.append(n)
    calls.sort(key=lambda c: (c.lineno, c.col_offset))
    out = []
    for c in calls:
        if len(c.args) != 4:
            raise Untranslatable('Construct.__init__: _build_tree call with %d arguments' % len(c.args))
        fac, _shape, sub, dep = c.args
        if not (isinstance(fac, ast.Subscript) and _attr_chain(fac.value) == 'factories'
                and _attr_chain(fac.slice).startswith('dawgie.Factories.')):
            raise Untranslatable('Construct.__init__: unexpected factory expression in _build_tree call')
        if not (isinstance(dep, ast.Constant) and isinstance(dep.value, str)):
            raise Untranslatable('Construct.__init__: dependency method is not a string literal')
        subname = _attr_chain(sub)
        if not subname.startswith('self._sub_'):
            raise Untranslatable('Construct.__init__: unexpected sub-tree callback ' + subname)
        out.append((_attr_chain(fac.slice).split('.')[-1], dep.value, subname.split('.')[-1]))
    if not out:
        raise Untranslatable('Construct.__init__: no _build_tree call found')
    return out


def _trim_levels(init):
    lv = {}
    for n in ast.walk(init):
        if (isinstance(n, ast.Assign) and len(n.targets) == 1 and isinstance(n.value, ast.Call)
                and _attr_chain(n.value.func) == 'self._trim_trees'):
            a = n.value.args
            if len(a) != 1 or not isinstance(a[0], ast.Constant) or not isinstance(a[0].value, int):
                raise Untranslatable('Construct.__init__: _trim_trees argument is not an integer literal')
            lv[_attr_chain(n.targets[0])] = a[0].value
    for k in ('self._at', 'self._svt', 'self._tt'):
        if k not in lv:
            raise Untranslatable('Construct.__init__: %s is not assigned from _trim_trees' % k)
    vt = [n for n in ast.walk(init) if isinstance(n, ast.Assign) and _attr_chain(n.targets[0]) == 'self._vt']
    if len(vt) != 1 or _attr_chain(vt[0].value) != 'self._roots':
        raise Untranslatable('Construct.__init__: _vt is not the root set')
    return lv


def _sub_reads(tree, subname):
    fn = find_def(tree, 'Construct.' + subname)
    reads = []
    for n in ast.walk(fn):
        if isinstance(n, ast.Call) and _attr_chain(n.func) == 'dawgie.util.as_vref':
            if (len(n.args) != 1 or not isinstance(n.args[0], ast.Call) or n.args[0].args
                    or not isinstance(n.args[0].func, ast.Attribute)
                    or not isinstance(n.args[0].func.value, ast.Name)
                    or n.args[0].func.value.id != fn.args.args[1].arg):
                raise Untranslatable('%s: as_vref is not applied to a method of the algorithm' % subname)
            reads.append(n.args[0].func.attr)
    if len(reads) != 1:
        raise Untranslatable('%s: expected exactly one as_vref expansion' % subname)
    return reads[0]


def _cross_level(tree):
    fn = find_def(tree, 'Construct._parents')
    found = set()
    for n in ast.walk(fn):
        if isinstance(n, ast.Compare) and len(n.ops) == 1 and isinstance(n.ops[0], ast.NotEq):
            sides = [n.left, n.comparators[0]]
            if all(isinstance(s, ast.Call) and _attr_chain(s.func) == 'self.trim' and len(s.args) == 2
                   and isinstance(s.args[1], ast.Constant) for s in sides):
                found.update(s.args[1].value for s in sides)
    if len(found) != 1:
        raise Untranslatable('Construct._parents: cross-algorithm test not found or inconsistent: %r' % (found,))
    return found.pop()


def _fam_level(tree):
    fn = find_def(tree, 'Node.trim')
    found = set()
    for n in ast.walk(fn):
        if (isinstance(n, ast.Compare) and len(n.ops) == 1 and isinstance(n.ops[0], ast.Eq)
                and isinstance(n.left, ast.Name) and n.left.id == 'length'
                and isinstance(n.comparators[0], ast.Constant)):
            found.add(n.comparators[0].value)
    if len(found) != 1:
        raise Untranslatable('Node.trim: `length == N` tests not found or inconsistent: %r' % (found,))
    return found.pop()


def _check_trim(tree):
    fn = find_def(tree, 'Construct.trim')
    want = "Return(value=Call(func=Attribute(value=Constant(value='.'), attr='join', ctx=Load()), args=[Subscript(value=Call(func=Attribute(value=Name(id='tag', ctx=Load()), attr='split', ctx=Load()), args=[Constant(value='.')]), slice=Slice(upper=Name(id='length', ctx=Load())), ctx=Load())]))"
    body = [b for b in fn.body if not (isinstance(b, ast.Expr) and isinstance(b.value, ast.Constant))]
    got = ast.dump(body[0]) if len(body) == 1 else ''
    if got.replace(', keywords=[]', '') != want:
        raise Untranslatable("Construct.trim is not '.'.join(tag.split('.')[:length])")


def _name_arity(tree):
    fn = find_def(tree, 'Construct._build_tree')
    for n in ast.walk(fn):
        if (isinstance(n, ast.Assign) and _attr_chain(n.targets[0]) == 'fn' and isinstance(n.value, ast.Call)
                and isinstance(n.value.func, ast.Attribute) and n.value.func.attr == 'join'
                and isinstance(n.value.func.value, ast.Constant) and n.value.func.value.value == '.'
                and len(n.value.args) == 1 and isinstance(n.value.args[0], ast.List)):
            return len(n.value.args[0].elts)
    raise Untranslatable("Construct._build_tree: node name is not '.'.join([...])")


def _lean_strs(xs):
    return '[' + ', '.join('"%s"' % x for x in xs) + ']'


def _lean_pairs(xs):
    return '[' + ', '.join('("%s", "%s")' % x for x in xs) + ']'


def gen_dag_consts(repo):
    tree = _tree(repo, DAG)
    init = find_def(tree, 'Construct.__init__')
    builds = _build_calls(init)
    levels = _trim_levels(init)
    _check_trim(tree)
    for kind, _dep, _sub in builds:
        if kind not in ('analysis', 'regress', 'task'):
            raise Untranslatable('Construct.__init__: unknown factory kind ' + kind)
    text = (
        'namespace DawgieVerif.Generated.Dag\n'
        '/-- factory kinds in the order `Construct.__init__` builds their trees -/\n'
        f'def buildOrder : List String := {_lean_strs(k for k, _, _ in builds)}\n'
        '/-- kind ↦ dependency method used for the root test in `_build_tree` -/\n'
        f'def depMethod : List (String × String) := {_lean_pairs((k, d) for k, d, _ in builds)}\n'
        '/-- kind ↦ method whose references the matching `_sub_*` turns into edges -/\n'
        f'def subReads : List (String × String) := {_lean_pairs((k, _sub_reads(tree, s)) for k, _, s in builds)}\n'
        f'def atLevel : Nat := {levels["self._at"]}\n'
        f'def svtLevel : Nat := {levels["self._svt"]}\n'
        f'def ttLevel : Nat := {levels["self._tt"]}\n'
        '/-- `_parents`: a child is another algorithm\'s node when the names trimmed to this length differ -/\n'
        f'def crossLevel : Nat := {_cross_level(tree)}\n'
        '/-- `Node.trim`: ancestry and parents are copied when trimming to this length -/\n'
        f'def famLevel : Nat := {_fam_level(tree)}\n'
        '/-- components of a value node\'s name -/\n'
        f'def nameArity : Nat := {_name_arity(tree)}\n'
        'end DawgieVerif.Generated.Dag\n'
    )
    return 'DagConsts', text


GENERATORS = [gen_dag_consts]

# Python definitions mirrored by the hand-written model Model/Dag.lean (G8)
MIRRORED = [
    ('pl/dag.py', 'Construct.__init__'),
    ('pl/dag.py', 'Construct._ancestry'),
    ('pl/dag.py', 'Construct._build_tree'),
    ('pl/dag.py', 'Construct._feedback'),
    ('pl/dag.py', 'Construct._parents'),
    ('pl/dag.py', 'Construct._sub_analysis'),
    ('pl/dag.py', 'Construct._sub_regression'),
    ('pl/dag.py', 'Construct._sub_task'),
    ('pl/dag.py', 'Construct._trim_trees'),
    ('pl/dag.py', 'Construct.trim'),
    ('pl/dag.py', 'Node.add'),
    ('pl/dag.py', 'Node.trim'),
    ('pl/dag.py', 'Node.__hash__'),
    ('util/refs.py', 'as_vref'),
    ('util/refs.py', 'algref2svref'),
    ('util/refs.py', 'svref2vref'),
    ('util/refs.py', 'vref_as_name'),
    ('util/names.py', 'task_name'),
    ('pl/scan.py', 'for_factories'),
    ('pl/scan.py', 'advanced_factories'),
    ('pl/scan.py', 'deprecated_factories'),
    ('pl/scan.py', '_register'),
]
