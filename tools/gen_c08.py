"""Generators for C08 / C06: the mechanically extractable parts of the shelve catalogue.

`Generated/Store.lean` is rebuilt from the source on every run:
  * the two reserved tokens of `util.construct` (and `util.dissect` must use the same ones),
  * the two filter lambdas of `util.subset` as boolean functions on character lists,
  * the id expression of `util.append`,
  * the `next` formula and the key column it reads,
  * the call table of `Interface.__to_key` (result, name, parent, table, version of each
    `_update_cmd`) and the returned tuple,
  * the three constants of the `_load` fall-back (`k[a:] == K[a:]`, sort column, picked end).
Anything outside the small shapes understood here raises `Untranslatable`."""
import ast

from tools.translate import Untranslatable, _tree, find_def

UTIL = 'db/shelve/util.py'
INIT = 'db/shelve/__init__.py'
MODEL = 'db/shelve/model.py'


def chars(s):
    if not s:
        return '([] : List Char)'
    out = []
    for c in s:
        if c == "'":
            out.append("'\\''")
        elif c == '\\':
            out.append("'\\\\'")
        elif 32 <= ord(c) < 127:
            out.append(f"'{c}'")
        else:
            out.append(f'(Char.ofNat {ord(c)})')
    return '[' + ', '.join(out) + ']'


def _const_str(n):
    return isinstance(n, ast.Constant) and isinstance(n.value, str)


# ------------------------------------------------------------------ tokens
def _tokens(repo):
    tree = _tree(repo, UTIL)
    con = find_def(tree, 'construct')
    params = [a.arg for a in con.args.args]
    if len(params) != 3:
        raise Untranslatable('util.construct: signature changed')
    _pname, pparent, pver = params
    consts = {st.targets[0].id: st.value for st in tree.body
              if isinstance(st, ast.Assign) and len(st.targets) == 1 and isinstance(st.targets[0], ast.Name)
              and _const_str(st.value)}

    def tok(n):
        if _const_str(n):
            return n.value
        if isinstance(n, ast.Name) and n.id in consts:
            return consts[n.id].value
        return None
    toks = {}
    for st in ast.walk(con):
        if isinstance(st, ast.Assign) and isinstance(st.value, ast.BinOp):
            v = st.value
            # (A + 'tok') + B   with A = str(parent), B a local name  /  A a local name, B = ver.asstring()
            if (isinstance(v.op, ast.Add) and isinstance(v.left, ast.BinOp) and isinstance(v.left.op, ast.Add)
                    and tok(v.left.right) is not None):
                left, right = ast.unparse(v.left.left), ast.unparse(v.right)
                if left == f'str({pparent})' and isinstance(v.right, ast.Name):
                    toks['parent'] = tok(v.left.right)
                elif isinstance(v.left.left, ast.Name) and right == f'{pver}.asstring()':
                    toks['version'] = tok(v.left.right)
                else:
                    raise Untranslatable(f'util.construct: unexpected concatenation {ast.unparse(v)}')
    if set(toks) != {'parent', 'version'}:
        raise Untranslatable('util.construct: the two token concatenations were not found')
    dis = find_def(tree, 'dissect')
    used = sorted({n.value for n in ast.walk(dis) if _const_str(n)}
                  | {consts[n.id].value for n in ast.walk(dis) if isinstance(n, ast.Name) and n.id in consts})
    if used != sorted(toks.values()):
        raise Untranslatable(f'util.dissect uses {used}, util.construct writes {sorted(toks.values())}')
    for t in toks.values():
        if not t or any(ord(c) > 126 or ord(c) < 32 for c in t):
            raise Untranslatable(f'token {t!r} outside printable ASCII')
    return toks


# ------------------------------------------------------------------ boolean string expressions
def _sexpr(n, env):
    """string-valued expression -> Lean `List Char`"""
    if _const_str(n):
        return chars(n.value)
    src = ast.unparse(n)
    if src in env:
        return env[src]
    if isinstance(n, ast.BinOp) and isinstance(n.op, ast.Add):
        return f'({_sexpr(n.left, env)} ++ {_sexpr(n.right, env)})'
    raise Untranslatable(f'string expression not understood: {src}')


def _bexpr(n, env):
    """boolean expression over strings -> Lean `Bool`"""
    if isinstance(n, ast.BoolOp):
        op = ' || ' if isinstance(n.op, ast.Or) else ' && '
        return '(' + op.join(_bexpr(v, env) for v in n.values) + ')'
    if isinstance(n, ast.UnaryOp) and isinstance(n.op, ast.Not):
        return f'(!{_bexpr(n.operand, env)})'
    if isinstance(n, ast.Compare) and len(n.ops) == 1:
        a, b = _sexpr(n.left, env), _sexpr(n.comparators[0], env)
        if isinstance(n.ops[0], ast.Eq):
            return f'({a} == {b})'
        if isinstance(n.ops[0], ast.NotEq):
            return f'({a} != {b})'
    if (isinstance(n, ast.Call) and isinstance(n.func, ast.Attribute) and len(n.args) == 1 and not n.keywords
            and n.func.attr in ('startswith', 'endswith')):
        recv, arg = _sexpr(n.func.value, env), _sexpr(n.args[0], env)
        return f'{arg}.{"isPrefixOf" if n.func.attr == "startswith" else "isSuffixOf"} {recv}'
    if isinstance(n, ast.Constant) and isinstance(n.value, bool):
        return 'true' if n.value else 'false'
    raise Untranslatable(f'boolean expression not understood: {ast.unparse(n)}')


def _subset(repo):
    fn = find_def(_tree(repo, UTIL), 'subset')
    top = [s for s in fn.body if isinstance(s, ast.If)]
    if len(top) != 1 or ast.unparse(top[0].test) != 'parents':
        raise Untranslatable('util.subset: expected a single `if parents:`')
    branch = {'p': top[0].body, 'n': top[0].orelse}
    out = {}
    for key, body in branch.items():
        want_default = 'surname' if key == 'p' else 'name'
        lams = [n for st in body for n in ast.walk(st)
                if isinstance(n, ast.Call) and ast.unparse(n.func) == 'filter']
        comps = [n for st in body for n in ast.walk(st) if isinstance(n, ast.DictComp)]
        if len(comps) == 1 and not lams:
            # {k: v for k, v in from_table.items() if <cond>}: the same selection
            dc = comps[0]
            g = dc.generators[0]
            if (len(dc.generators) != 1 or g.is_async or ast.unparse(g.iter) != 'from_table.items()'
                    or not isinstance(g.target, ast.Tuple) or len(g.target.elts) != 2
                    or not all(isinstance(e, ast.Name) for e in g.target.elts)
                    or ast.unparse(dc.key) != g.target.elts[0].id or ast.unparse(dc.value) != g.target.elts[1].id):
                raise Untranslatable(f'util.subset: dict comprehension outside the subset in the {key} branch')
            if not g.ifs:
                raise Untranslatable(f'util.subset: unconditional comprehension in the {key} branch')
            env = {g.target.elts[0].id: 't', want_default: 'sn'}
            conds = [_bexpr(c, env) for c in g.ifs]
            out[key] = conds[0] if len(conds) == 1 else '(' + ' && '.join(conds) + ')'
            continue
        if len(lams) != 1 or not isinstance(lams[0].args[0], ast.Lambda):
            raise Untranslatable(f'util.subset: expected one filter(lambda ...) in the {key} branch')
        call = lams[0]
        lam = call.args[0]
        if ast.unparse(call.args[1]) != 'from_table.items()':
            raise Untranslatable('util.subset: filter does not range over from_table.items()')
        names = [a.arg for a in lam.args.args]
        defaults = [ast.unparse(d) for d in lam.args.defaults]
        if names != ['t', 'sn'] or defaults != [want_default]:
            raise Untranslatable(f'util.subset: lambda signature {names} {defaults}')
        out[key] = _bexpr(lam.body, {'t[0]': 't', 'sn': 'sn'})
    # the surname of the parents branch
    sur = [s for s in ast.walk(top[0]) if isinstance(s, ast.Assign) and ast.unparse(s.targets[0]) == 'surname']
    if len(sur) != 1 or ast.unparse(sur[0].value) != 'construct(name, parent)':
        raise Untranslatable('util.subset: surname is not construct(name, parent)')
    loops = [s for s in top[0].body if isinstance(s, ast.For)]
    if len(loops) != 1 or ast.unparse(loops[0].iter) != 'parents' or ast.unparse(loops[0].target) != 'parent':
        raise Untranslatable('util.subset: expected `for parent in parents`')
    return out


# ------------------------------------------------------------------ small arithmetic over a list
def _nexpr(n, env):
    if isinstance(n, ast.Constant) and isinstance(n.value, int) and not isinstance(n.value, bool) and n.value >= 0:
        return str(n.value)
    src = ast.unparse(n)
    if src in env:
        return env[src]
    if isinstance(n, ast.BinOp) and isinstance(n.op, ast.Add):
        return f'({_nexpr(n.left, env)} + {_nexpr(n.right, env)})'
    if isinstance(n, ast.BinOp) and isinstance(n.op, ast.Mult):
        return f'({_nexpr(n.left, env)} * {_nexpr(n.right, env)})'
    raise Untranslatable(f'arithmetic not understood: {src}')


def _append_id(repo):
    tree = _tree(repo, UTIL)
    fn = find_def(tree, 'append')
    params = [a.arg for a in fn.args.args]
    if len(params) < 3:
        raise Untranslatable('util.append: signature changed')
    ptable, pindex = params[1], params[2]
    where = fn
    # the registration may live in a module-level helper called with (key, table, index) in some order
    calls = [c for c in ast.walk(fn) if isinstance(c, ast.Call) and isinstance(c.func, ast.Name)
             and c.func.id not in ('construct', 'len', 'str', 'int')]
    for c in calls:
        hs = [d for d in tree.body if isinstance(d, ast.FunctionDef) and d.name == c.func.id]
        if len(hs) == 1 and not c.keywords and len(c.args) == len(hs[0].args.args) \
                and all(isinstance(a, ast.Name) for a in c.args):
            bind = {a.id: p.arg for a, p in zip(c.args, hs[0].args.args)}
            if ptable in bind and pindex in bind:
                where, ptable, pindex = hs[0], bind[ptable], bind[pindex]
    sets = [s for s in ast.walk(where) if isinstance(s, ast.Assign) and len(s.targets) == 1
            and isinstance(s.targets[0], ast.Subscript) and ast.unparse(s.targets[0].value) == ptable
            and isinstance(s.targets[0].slice, ast.Name)]
    if len(sets) != 1:
        raise Untranslatable('util.append: expected one assignment to table[<key>]')
    key = sets[0].targets[0].slice.id
    guard = [s for s in where.body if isinstance(s, ast.If)]
    # `key not in table` / `key not in index`: the same test on a bijective table
    if len(guard) != 1 or ast.unparse(guard[0].test) not in (f'{key} not in {ptable}', f'{key} not in {pindex}') \
            or guard[0].orelse:
        raise Untranslatable('util.append: expected `if <key> not in table:`')
    body = [ast.unparse(s) for s in guard[0].body if not isinstance(s, ast.Pass)]
    if body != [ast.unparse(sets[0]), f'{pindex}.append({key})']:
        raise Untranslatable(f'util.append: unexpected body {body}')
    return _nexpr(sets[0].value, {f'len({pindex})': 'lenIndex', f'len({ptable})': 'lenTable'})


def _next(repo):
    fn = find_def(_tree(repo, INIT), 'next')
    comp = [s for s in fn.body if isinstance(s, ast.Assign) and len(s.targets) == 1
            and isinstance(s.targets[0], ast.Name) and isinstance(s.value, ast.ListComp)]
    ret = [s for s in ast.walk(fn) if isinstance(s, ast.Return)]
    if len(comp) != 1 or not ret:
        raise Untranslatable('shelve.next: expected one `<ids> = [...]` and a return')
    known = comp[0].targets[0].id
    lc = comp[0].value
    if not (len(lc.generators) == 1 and not lc.generators[0].ifs
            and ast.unparse(lc.generators[0].iter) == 'util.prime_keys(DBI().tables.prime)'
            and isinstance(lc.generators[0].target, ast.Name)):
        raise Untranslatable(f'shelve.next: comprehension {ast.unparse(lc)}')
    key = lc.generators[0].target.id
    elt = lc.elt
    if not (isinstance(elt, ast.Call) and ast.unparse(elt.func) == 'int' and len(elt.args) == 1
            and isinstance(elt.args[0], ast.Subscript) and ast.unparse(elt.args[0].value) == key
            and isinstance(elt.args[0].slice, ast.Constant) and elt.args[0].slice.value in range(6)):
        raise Untranslatable(f'shelve.next: element {ast.unparse(elt)}')
    col = elt.args[0].slice.value
    env = {f'max({known})': 'listMax known', f'min({known})': 'listMin known', f'len({known})': 'known.length'}
    after = fn.body[fn.body.index(comp[0]) + 1:]
    after = [s for s in after if not isinstance(s, ast.Pass)]
    # `if <test on ids>: return A` followed by `return B`  ==  `return A if <test> else B`
    if (len(after) == 2 and isinstance(after[0], ast.If) and not after[0].orelse and len(after[0].body) == 1
            and isinstance(after[0].body[0], ast.Return) and isinstance(after[1], ast.Return)):
        v = ast.IfExp(test=after[0].test, body=after[0].body[0].value, orelse=after[1].value)
    else:
        rets = [s for s in fn.body if isinstance(s, ast.Return)]
        if len(rets) != 1 or len(ret) != 1:
            raise Untranslatable('shelve.next: expected one return')
        v = rets[0].value
    if isinstance(v, ast.Name):  # `result = <expr>; return result`
        defs = [s for s in fn.body if isinstance(s, ast.Assign) and ast.unparse(s.targets[0]) == v.id]
        if len(defs) != 1:
            raise Untranslatable(f'shelve.next: {v.id} is not assigned exactly once')
        v = defs[0].value
    if isinstance(v, ast.IfExp):
        test = ast.unparse(v.test)
        if test == known:
            cond = '!known.isEmpty'
        elif test == f'not {known}':
            cond = 'known.isEmpty'
        else:
            raise Untranslatable(f'shelve.next: condition {test}')
        a, b = _nexpr(v.body, env), _nexpr(v.orelse, env)
        if cond == 'known.isEmpty':     # one canonical text for both polarities
            cond, a, b = '!known.isEmpty', b, a
        return col, f'if {cond} then {a} else {b}'
    return col, _nexpr(v, env)


# ------------------------------------------------------------------ __to_key
NAME_SRC = {'tn': 'tn', 'task': 'task', 'alg.name()': 'algName', 'sv.name()': 'svName', 'vn': 'vn'}
VER_SRC = {'None': 'none', 'alg._get_ver()': 'alg', 'sv._get_ver()': 'sv', 'sv[vn]._get_ver()': 'value'}
VARS = ['runid', 'trgtid', 'tid', 'aid', 'sid', 'vid']
TABS = ['target', 'task', 'alg', 'state', 'value']


def _to_key(repo):
    fn = find_def(_tree(repo, MODEL), 'Interface.__to_key')
    rows, ret = [], None
    for st in fn.body:
        if isinstance(st, ast.If) and all(isinstance(b, ast.Raise) for b in st.body) and not st.orelse:
            continue  # the `cannot be None` guard
        if isinstance(st, ast.Assign) and len(st.targets) == 1 and isinstance(st.targets[0], ast.Name):
            var = st.targets[0].id
            v = st.value
            if not (isinstance(v, ast.Subscript) and isinstance(v.slice, ast.Constant) and v.slice.value == 1
                    and isinstance(v.value, ast.Call) and ast.unparse(v.value.func) == 'self._update_cmd'
                    and len(v.value.args) == 5 and not v.value.keywords):
                raise Untranslatable(f'__to_key: statement {ast.unparse(st)}')
            name, parent, table, value, ver = [ast.unparse(a) for a in v.value.args]
            if var not in VARS or name not in NAME_SRC or ver not in VER_SRC or value != 'None':
                raise Untranslatable(f'__to_key: call {ast.unparse(v)}')
            if not table.startswith('Table.') or table[6:] not in TABS:
                raise Untranslatable(f'__to_key: table {table}')
            if parent != 'None' and parent not in VARS:
                raise Untranslatable(f'__to_key: parent {parent}')
            rows.append((var, NAME_SRC[name], parent, table[6:], VER_SRC[ver]))
            continue
        if isinstance(st, ast.Return) and isinstance(st.value, ast.Tuple):
            ret = [ast.unparse(e) for e in st.value.elts]
            if any(e not in VARS for e in ret):
                raise Untranslatable(f'__to_key: return {ret}')
            continue
        raise Untranslatable(f'__to_key: statement {ast.unparse(st)}')
    if ret is None or not rows:
        raise Untranslatable('__to_key: no calls / no return')
    return rows, ret


# ------------------------------------------------------------------ _load fall-back
def _load(repo):
    fn = find_def(_tree(repo, MODEL), 'Interface._load')
    guard = [n for n in ast.walk(fn) if isinstance(n, ast.If) and ast.unparse(n.test) == 'pk not in pks']
    if len(guard) != 1:
        raise Untranslatable('_load: expected one `if pk not in pks:`')
    g = guard[0]
    tail = sort = pick = None
    for n in ast.walk(g):
        if isinstance(n, ast.Lambda) and [a.arg for a in n.args.args] == ['k', 'K']:
            b = n.body
            if not (isinstance(b, ast.Compare) and len(b.ops) == 1 and isinstance(b.ops[0], ast.Eq)):
                raise Untranslatable(f'_load: filter {ast.unparse(b)}')
            sl = []
            for side, nm in ((b.left, 'k'), (b.comparators[0], 'K')):
                if not (isinstance(side, ast.Subscript) and ast.unparse(side.value) == nm
                        and isinstance(side.slice, ast.Slice) and side.slice.upper is None and side.slice.step is None
                        and isinstance(side.slice.lower, ast.Constant) and side.slice.lower.value in range(7)):
                    raise Untranslatable(f'_load: filter {ast.unparse(b)}')
                sl.append(side.slice.lower.value)
            if sl[0] != sl[1]:
                raise Untranslatable(f'_load: filter {ast.unparse(b)}')
            if [ast.unparse(d) for d in n.args.defaults] != ['pk']:
                raise Untranslatable('_load: K is not bound to pk')
            tail = sl[0]
        if (isinstance(n, ast.Call) and ast.unparse(n.func) == 'spks.sort' and len(n.keywords) == 1
                and n.keywords[0].arg == 'key' and not n.args):
            lam = n.keywords[0].value
            if not (isinstance(lam, ast.Lambda) and isinstance(lam.body, ast.Subscript)
                    and ast.unparse(lam.body.value) == lam.args.args[0].arg
                    and isinstance(lam.body.slice, ast.Constant) and lam.body.slice.value in range(6)):
                raise Untranslatable(f'_load: sort {ast.unparse(n)}')
            sort = lam.body.slice.value
        if isinstance(n, ast.Assign) and ast.unparse(n.targets[0]) == 'pk' and isinstance(n.value, ast.Subscript) \
                and ast.unparse(n.value.value) == 'spks':
            idx = ast.unparse(n.value.slice)
            if idx not in ('-1', '0'):
                raise Untranslatable(f'_load: pick {ast.unparse(n)}')
            pick = idx == '-1'
    if tail is None or sort is None or pick is None:
        raise Untranslatable('_load: fall-back filter / sort / pick not found')
    return tail, sort, pick


def gen_store(repo):
    toks = _tokens(repo)
    sub = _subset(repo)
    aid = _append_id(repo)
    col, nxt = _next(repo)
    rows, ret = _to_key(repo)
    tail, sort, pick = _load(repo)
    calls = ',\n   '.join(
        f'(.{v}, .{n}, {"none" if p == "None" else "some ." + p}, .{t}, .{ver})' for v, n, p, t, ver in rows)
    text = f'''set_option linter.unusedVariables false
namespace DawgieVerif.Generated.Store

/-- reserved token of `shelve.util.construct` / `dissect` (parent part) -/
def tokParent : List Char := {chars(toks['parent'])}
/-- reserved token of `shelve.util.construct` / `dissect` (version part) -/
def tokVersion : List Char := {chars(toks['version'])}

/-- `shelve.util.subset`, parents branch: the filter applied to every table key `t` for surname `sn` -/
def subsetParents (t sn : List Char) : Bool :=
  {sub['p']}
/-- `shelve.util.subset`, branch without parents -/
def subsetPlain (t sn : List Char) : Bool :=
  {sub['n']}

/-- `shelve.util.append`: the id given to a new name -/
def appendId (lenIndex lenTable : Nat) : Nat :=
  {aid}

def listMax (l : List Nat) : Nat := l.foldl max 0
def listMin (l : List Nat) : Nat := match l with | [] => 0 | x :: xs => xs.foldl min x

/-- `shelve.next`: the key column that is read, and the next run id from the stored ones -/
def nextRunColumn : Nat := {col}
def nextRun (known : List Nat) : Nat :=
  {nxt}

inductive Tab | target | task | alg | state | value
deriving DecidableEq, Repr
inductive Var | runid | trgtid | tid | aid | sid | vid
deriving DecidableEq, Repr
inductive NameSrc | tn | task | algName | svName | vn
deriving DecidableEq, Repr
inductive VerSrc | none | alg | sv | value
deriving DecidableEq, Repr

/-- `Interface.__to_key`: one row per `_update_cmd` call (result, name, parent, table, version) -/
def toKeyCalls : List (Var × NameSrc × Option Var × Tab × VerSrc) :=
  [{calls}]
/-- `Interface.__to_key`: the returned tuple -/
def toKeyResult : List Var := [{', '.join('.' + v for v in ret)}]

/-- `Interface._load` fall-back: `k[a:] == K[a:]`, `sort(key=t[i])`, `spks[-1]` (last) or `spks[0]` -/
def loadTailFrom : Nat := {tail}
def loadSortKey : Nat := {sort}
def loadPickLast : Bool := {'true' if pick else 'false'}

end DawgieVerif.Generated.Store
'''
    return 'Store', text


GENERATORS = [gen_store]

# Python definitions mirrored by the hand-written model (G8)
MIRRORED = [
    (UTIL, 'LocalVersion'),
    (UTIL, 'append'),
    (UTIL, 'construct'),
    (UTIL, 'dissect'),
    (UTIL, 'indexed'),
    (UTIL, 'prime_keys'),
    (UTIL, 'subset'),
    ('db/shelve/state.py', 'DBI.open'),
    ('db/shelve/state.py', 'DBI.close'),
    ('db/shelve/state.py', 'DBI.is_open'),
    (INIT, '_prime_keys'),
    (INIT, 'add'),
    (INIT, 'next'),
    (INIT, 'remove'),
    (INIT, 'reset'),
    (INIT, 'targets'),
    (INIT, 'trace'),
    (INIT, 'update'),
    (INIT, 'versions'),
    ('db/__init__.py', 'targets'),
    ('db/shelve/comms.py', 'Worker.do'),
    (MODEL, 'Interface.__to_key'),
    ('db/tools/worm.py', 'consume'),
    ('__init__.py', 'Version.__lt__'),
    ('__init__.py', 'Version.__le__'),
    ('__init__.py', 'Version.__ne__'),
    ('__init__.py', 'Version.asstring'),
]
