"""Generators for C12: `tools.submit.Priority` (members, values) and `Priority.max` (G4).

`Priority.max` is translated from its AST.  Subset understood:

    result = Priority.<M>
    for a in filter(lambda a: a is not None, largs):
        if <cond>: result = a          (any number of these, in order; `pass` allowed)
    return result

with <cond> a conjunction (`and`) of comparisons `a|result ==|!= Priority.<M>`.
Anything else raises Untranslatable."""
import ast

from tools.translate import Untranslatable, _tree, find_def

USES = ['C10']


def _members(cls):
    out = []
    for n in cls.body:
        if isinstance(n, ast.Assign) and len(n.targets) == 1 and isinstance(n.targets[0], ast.Name):
            if not isinstance(n.value, ast.Constant) or not isinstance(n.value.value, str):
                raise Untranslatable(f'Priority.{n.targets[0].id}: value is not a string literal')
            out.append((n.targets[0].id, n.value.value))
    if not out:
        raise Untranslatable('Priority has no members')
    if len({v for _, v in out}) != len(out):
        raise Untranslatable('Priority values are not unique')
    return out


def _member(node, names):
    if (isinstance(node, ast.Attribute) and isinstance(node.value, ast.Name) and node.value.id == 'Priority'
            and node.attr in names):
        return '.' + node.attr
    raise Untranslatable(f'Priority.max: expected Priority.<member>, got {ast.unparse(node)}')


def _cond(node, names):
    if isinstance(node, ast.BoolOp) and isinstance(node.op, ast.And):
        return ' ∧ '.join(_cond(v, names) for v in node.values)
    if (isinstance(node, ast.Compare) and len(node.ops) == 1 and isinstance(node.left, ast.Name)
            and node.left.id in ('a', 'result')):
        op = {ast.Eq: '=', ast.NotEq: '≠', ast.Is: '=', ast.IsNot: '≠'}.get(type(node.ops[0]))
        if op is None:
            raise Untranslatable(f'Priority.max: comparison {ast.unparse(node)}')
        return f'{node.left.id} {op} {_member(node.comparators[0], names)}'
    raise Untranslatable(f'Priority.max: condition {ast.unparse(node)} outside the subset')


def gen_priority(repo):
    tree = _tree(repo, 'tools/submit.py')
    cls = find_def(tree, 'Priority')
    members = _members(cls)
    names = [m for m, _ in members]
    fn = find_def(tree, 'Priority.max')
    if not any(isinstance(d, ast.Name) and d.id == 'staticmethod' for d in fn.decorator_list):
        raise Untranslatable('Priority.max is not a staticmethod')
    if fn.args.args or fn.args.vararg is None or fn.args.kwonlyargs or fn.args.kwarg:
        raise Untranslatable('Priority.max: signature is not (*largs)')
    largs = fn.args.vararg.arg
    body = [s for s in fn.body if not (isinstance(s, ast.Expr) and isinstance(s.value, ast.Constant))]
    if len(body) != 3:
        raise Untranslatable('Priority.max: body is not init / for / return')
    init, loop, ret = body
    if not (isinstance(init, ast.Assign) and getattr(init.targets[0], 'id', '') == 'result'):
        raise Untranslatable('Priority.max: first statement is not `result = ...`')
    init_m = _member(init.value, names)
    if not (isinstance(ret, ast.Return) and getattr(ret.value, 'id', '') == 'result'):
        raise Untranslatable('Priority.max: does not end in `return result`')
    ok_iter = (
        isinstance(loop, ast.For) and getattr(loop.target, 'id', '') == 'a' and not loop.orelse
        and isinstance(loop.iter, ast.Call) and getattr(loop.iter.func, 'id', '') == 'filter'
        and len(loop.iter.args) == 2 and getattr(loop.iter.args[1], 'id', '') == largs
        and isinstance(loop.iter.args[0], ast.Lambda)
        and ast.unparse(loop.iter.args[0].body) in ('a is not None', 'a != None')
        and [x.arg for x in loop.iter.args[0].args.args] == ['a']
    )
    if not ok_iter:
        raise Untranslatable('Priority.max: loop is not `for a in filter(lambda a: a is not None, largs)`')
    steps = []
    for st in loop.body:
        if isinstance(st, ast.Pass):
            continue
        if not (isinstance(st, ast.If) and not st.orelse and len(st.body) == 1
                and isinstance(st.body[0], ast.Assign) and getattr(st.body[0].targets[0], 'id', '') == 'result'
                and getattr(st.body[0].value, 'id', '') == 'a'):
            raise Untranslatable(f'Priority.max: statement `{ast.unparse(st)[:60]}` outside the subset')
        steps.append(_cond(st.test, names))
    L = ['namespace DawgieVerif.Generated.Prio', '']
    L.append('/-- `dawgie.tools.submit.Priority` -/')
    L.append('inductive Priority where')
    L += [f'  | {m}' for m in names]
    L.append('deriving DecidableEq, Repr, Inhabited')
    L.append('')
    L.append('def Priority.all : List Priority := [' + ', '.join('.' + m for m in names) + ']')
    L.append('def Priority.name : Priority → String')
    L += [f'  | .{m} => "{m}"' for m in names]
    L.append('/-- the enum values: what `Priority(<str>)` accepts -/')
    L.append('def Priority.value : Priority → String')
    L += [f'  | .{m} => "{v}"' for m, v in members]
    L.append('')
    L.append('/-- one iteration of the loop of `Priority.max` -/')
    L.append('def maxStep (result a : Priority) : Priority :=')
    for c in steps:
        L.append(f'  let result := if {c} then a else result')
    L.append('  result')
    L.append('')
    L.append(f'def maxInit : Priority := {init_m}')
    L.append('')
    L.append('/-- `Priority.max(*largs)`: `None` entries are skipped -/')
    L.append('def max (largs : List (Option Priority)) : Priority :=')
    L.append('  (largs.filterMap id).foldl maxStep maxInit')
    L.append('')
    L.append('end DawgieVerif.Generated.Prio')
    return 'Priority', '\n'.join(L) + '\n'


GENERATORS = [gen_priority]

MIRRORED = [
    ('pl/state.py', 'FSM'),
    ('tools/submit.py', 'Priority'),
    ('fe/submit.py', 'Process.step_3'),
    ('fe/api/submit.py', 'Process.step_3'),
    ('fe/api/__init__.py', 'cmd_reset'),
]
