"""Generator for C07: the micro-step program of one prime update, read off the source.

`Generated/Blob.lean : program` lists, in source order, the effects of
  Connector._set_prime  ->  db.util.encode  (mkstemp, dump, digest)
  Worker.do, branch Func.set  ->  db.util.move (probe, then every file-system statement with the branch of
                                  `if exists` it belongs to: unlink / mkdirs / move <incoming|store> / replace),
                                  record, reply
  Interface._update / _update_msv  ->  flag
in the vocabulary of `Model/Blob.lean`.  Statements without an effect on the staged file, the store,
the prime table or the reply are skipped; an effectful call this reader does not know is an error."""
import ast

from tools.translate import Untranslatable, _tree, find_def

UTIL = 'db/util/__init__.py'
COMMS = 'db/shelve/comms.py'
MODEL = 'db/shelve/model.py'

# module-qualified calls that are allowed and have no effect the model tracks
HARMLESS = {
    ('os', 'close'), ('os', 'chmod'), ('os', 'fsync'), ('os', 'getpid'),
    ('os.path', 'join'), ('os.path', 'basename'), ('os.path', 'dirname'), ('os.path', 'abspath'),
    ('os.path', 'getsize'),
}
WATCHED = ('os', 'os.path', 'shutil', 'subprocess', 'pickle', 'tempfile')
UNLINK = {('os', 'unlink'), ('os', 'remove')}
RENAME = {('shutil', 'move'), ('os', 'rename'), ('os', 'replace')}
EXISTS = {('os.path', 'exists'), ('os.path', 'isfile'), ('os.path', 'lexists')}


def dotted(node):
    if isinstance(node, ast.Name):
        return node.id
    if isinstance(node, ast.Attribute):
        b = dotted(node.value)
        return None if b is None else b + '.' + node.attr
    return None


def qual(call):
    """(module path, function) of `mod.sub.fn(...)`; (None, name) for a plain name; None otherwise"""
    d = dotted(call.func)
    if d is None:
        return None
    if '.' not in d:
        return (None, d)
    m, f = d.rsplit('.', 1)
    return (m, f)


def calls_in_order(node):
    """every ast.Call below `node` in evaluation order (arguments before the call itself)"""
    out = []

    def visit(n):
        for c in ast.iter_child_nodes(n):
            visit(c)
        if isinstance(n, ast.Call):
            out.append(n)

    visit(node)
    return out


def stmts(body):
    """statements in source order, `with`/`try` blocks flattened (their bodies run in place)"""
    for s in body:
        if isinstance(s, ast.With):
            yield s  # the context expression itself (open(...))
            yield from stmts(s.body)
        elif isinstance(s, ast.Try):
            yield from stmts(s.body)
            yield from stmts(s.finalbody)
        else:
            yield s


def own_nodes(s):
    """the part of a statement that is evaluated at the statement itself (not nested blocks)"""
    if isinstance(s, ast.With):
        return [i.context_expr for i in s.items]
    if isinstance(s, ast.If):
        return [s.test]
    return [s]


def check_known(call, where, extra=()):
    q = qual(call)
    if q is None or q[0] is None:
        return q
    if q[0] in WATCHED and q not in HARMLESS and q not in extra:
        raise Untranslatable(f'{where}: effectful call {q[0]}.{q[1]} is outside the translated subset')
    return q


# ------------------------------------------------------------------ encode
def read_encode(fn):
    instrs, tools = [], []
    fn_var = None
    digest_vars = {}
    sep, result_var, parts = None, None, None
    for s in stmts(fn.body):
        for node in own_nodes(s):
            for c in calls_in_order(node):
                q = qual(c)
                if q == ('tempfile', 'mkstemp'):
                    instrs.append('mkstemp')
                elif q == ('pickle', 'dump'):
                    instrs.append('dump')
                elif q is not None and q[0] == 'subprocess':
                    if q[1] not in ('check_output', 'run'):
                        raise Untranslatable(f'encode: subprocess.{q[1]} is outside the translated subset')
                    tool = None
                    if c.args and isinstance(c.args[0], ast.List) and c.args[0].elts \
                            and isinstance(c.args[0].elts[0], ast.Constant):
                        tool = c.args[0].elts[0].value
                    if not isinstance(tool, str) or not tool.endswith('sum'):
                        raise Untranslatable('encode: subprocess call is not a <digest>sum of the staged file')
                    tools.append(tool)
                    if not instrs or instrs[-1] != 'digest':
                        instrs.append('digest')
                else:
                    check_known(c, 'encode', {('tempfile', 'mkstemp'), ('pickle', 'dump')})
        if isinstance(s, ast.Assign) and len(s.targets) == 1:
            t, v = s.targets[0], s.value
            if isinstance(t, ast.Tuple) and isinstance(v, ast.Call) and qual(v) == ('tempfile', 'mkstemp') \
                    and len(t.elts) == 2 and isinstance(t.elts[1], ast.Name):
                fn_var = t.elts[1].id
            if isinstance(t, ast.Name) and any(qual(c) and qual(c)[0] == 'subprocess' for c in calls_in_order(v)):
                cs = [c for c in calls_in_order(v) if qual(c) and qual(c)[0] == 'subprocess']
                digest_vars[t.id] = cs[0].args[0].elts[0].value
            if isinstance(t, ast.Name) and isinstance(v, ast.Call) and isinstance(v.func, ast.Attribute) \
                    and v.func.attr == 'join' and isinstance(v.func.value, ast.Constant) and v.args \
                    and isinstance(v.args[0], (ast.List, ast.Tuple)):
                sep, result_var = v.func.value.value, t.id
                parts = [e.id if isinstance(e, ast.Name) else None for e in v.args[0].elts]
        if isinstance(s, ast.Return):
            v = s.value
            if not (isinstance(v, ast.Tuple) and len(v.elts) == 2 and all(isinstance(e, ast.Name) for e in v.elts)):
                raise Untranslatable('encode: does not return (staged file name, digest name)')
            if fn_var is None or v.elts[0].id != fn_var:
                raise Untranslatable('encode: first component returned is not the mkstemp file name')
            if result_var is None or v.elts[1].id != result_var or not parts \
                    or any(p not in digest_vars for p in parts):
                raise Untranslatable('encode: second component returned is not a join of the digests of the staged file')
            tools = [digest_vars[p] for p in parts]
    if instrs.count('mkstemp') != 1 or instrs.count('dump') != 1 or 'digest' not in instrs or sep is None:
        raise Untranslatable(f'encode: unexpected effect sequence {instrs}')
    return instrs, tools, sep


# ------------------------------------------------------------------ move
MKDIRS = {('os', 'makedirs'), ('os', 'mkdir')}


class MoveReader:
    """statements of `move(fn, result)` -> ['probe', ('act', branch, lean act), ...] in source order.
    Paths are classified by data flow: built from `result` = the digest name inside the store; built from a
    constant sub-directory of data_dbs (and possibly the staged file's basename) = inside `incoming`."""

    def __init__(self, fn):
        params = [a.arg for a in fn.args.args]
        if len(params) != 2:
            raise Untranslatable('move: expected (fn, result)')
        self.fn_var, self.res_var = params
        self.params = params
        self.store = {self.res_var}   # names holding the path of the digest name in the store
        self.incoming = set()         # names holding <data_dbs>/<constant>[/<basename of fn>]
        self.ex_var = None
        self.instrs = []
        self.neg = None
        self.read(fn.body)
        kinds = [i if isinstance(i, str) else i[0] for i in self.instrs]
        if kinds.count('probe') != 1 or 'act' not in kinds or self.neg is None:
            raise Untranslatable(f'move: unexpected shape {kinds}')

    def names(self, node):
        return {x.id for x in ast.walk(node) if isinstance(x, ast.Name)}

    def classify(self, node):
        ns = self.names(node)
        if ns & self.store:
            return '.store'
        if ns & self.incoming:
            return '.incoming'
        return None

    def track(self, s):
        """data flow of path variables"""
        if not (isinstance(s, ast.Assign) and len(s.targets) == 1 and isinstance(s.targets[0], ast.Name)):
            return
        t, v = s.targets[0].id, s.value
        if t in self.params:
            raise Untranslatable(f'move: parameter {t} is reassigned')
        ns = self.names(v)
        if ns & self.store and self.fn_var not in ns:
            self.store.add(t)
        elif ns & self.incoming:
            self.incoming.add(t)
        elif isinstance(v, ast.Call) and qual(v) == ('os.path', 'join') and len(v.args) >= 2 \
                and dotted(v.args[0]) == 'dawgie.context.data_dbs' \
                and all(isinstance(x, ast.Constant) and isinstance(x.value, str) for x in v.args[1:]):
            self.incoming.add(t)

    def effect(self, c):
        q = check_known(c, 'move', UNLINK | RENAME | MKDIRS | EXISTS)
        if q in UNLINK:
            if not (c.args and isinstance(c.args[0], ast.Name) and c.args[0].id == self.fn_var):
                raise Untranslatable('move: unlink of something other than the staged file')
            return '.unlink'
        if q in MKDIRS:
            if not (c.args and self.classify(c.args[0]) == '.incoming'):
                raise Untranslatable('move: makedirs of something other than the incoming directory of the store')
            return '.mkdirs'
        if q in RENAME:
            if len(c.args) < 2:
                raise Untranslatable('move: rename without two paths')
            src, dst = c.args[0], self.classify(c.args[1])
            if isinstance(src, ast.Name) and src.id == self.fn_var:
                if dst is None:
                    raise Untranslatable('move: the staged file is moved to a place this reader cannot classify')
                # shutil.move / os.rename / os.replace of the staged file: a move that may cross file systems
                return f'(.move {dst})'
            if self.classify(src) == '.incoming' and dst == '.store' and q != ('shutil', 'move'):
                return '.replace'
            raise Untranslatable('move: rename between places this reader cannot classify')
        return None

    def effects(self, s):
        out = []
        for node in own_nodes(s):
            for c in calls_in_order(node):
                a = self.effect(c)
                if a:
                    out.append(a)
        return out

    def branch(self, body, b):
        for s in stmts(body):
            if isinstance(s, (ast.If, ast.For, ast.While)):
                raise Untranslatable('move: nested control flow in a branch')
            self.track(s)
            for a in self.effects(s):
                self.instrs.append(('act', b, a))

    def probe(self, call):
        if not (call.args and self.classify(call.args[0]) == '.store'):
            raise Untranslatable('move: the existence test is not about the path of the digest name in the store')
        self.instrs.append('probe')

    def read(self, body):
        for s in body:
            self.track(s)
            if isinstance(s, ast.Assign) and len(s.targets) == 1 and isinstance(s.targets[0], ast.Name) \
                    and isinstance(s.value, ast.Call) and qual(s.value) in EXISTS:
                self.probe(s.value)
                self.ex_var = s.targets[0].id
                continue
            if isinstance(s, ast.If):
                t, swap = s.test, False
                if isinstance(t, ast.UnaryOp) and isinstance(t.op, ast.Not):
                    t, swap = t.operand, True
                if isinstance(t, ast.Call) and qual(t) in EXISTS and self.ex_var is None:
                    self.probe(t)
                    self.ex_var = '<inline>'
                elif not (isinstance(t, ast.Name) and t.id == self.ex_var):
                    raise Untranslatable('move: branch condition is not the result of os.path.exists')
                self.branch(s.body, not swap)
                self.branch(s.orelse, swap)
                continue
            if isinstance(s, ast.Return):
                v = s.value
                if not (isinstance(v, ast.Tuple) and len(v.elts) == 2):
                    raise Untranslatable('move: does not return (name, exists)')
                if not (isinstance(v.elts[0], ast.Name) and v.elts[0].id == self.res_var):
                    raise Untranslatable('move: first component returned is not the digest name it was given')
                e = v.elts[1]
                if isinstance(e, ast.Name) and e.id == self.ex_var:
                    self.neg = False
                elif isinstance(e, ast.UnaryOp) and isinstance(e.op, ast.Not) and isinstance(e.operand, ast.Name) \
                        and e.operand.id == self.ex_var:
                    self.neg = True
                else:
                    raise Untranslatable('move: second component returned is not the exists flag')
                continue
            if isinstance(s, (ast.For, ast.While, ast.Try, ast.With)):
                raise Untranslatable('move: control flow outside the translated subset')
            for a in self.effects(s):  # an effect outside the branches
                self.instrs.append(('act', None, a))


def read_move(fn):
    """-> (instrs, reply_negated_by_move)"""
    r = MoveReader(fn)
    return r.instrs, r.neg


# ------------------------------------------------------------------ Worker.do, branch Func.set
def set_branch(do):
    def is_set(test):
        return (isinstance(test, ast.Compare) and len(test.ops) == 1 and isinstance(test.ops[0], ast.Eq)
                and dotted(test.left) == 'request.func' and dotted(test.comparators[0]) == 'Func.set')

    for n in ast.walk(do):
        if isinstance(n, ast.If) and is_set(n.test):
            return n.body
    raise Untranslatable('Worker.do: no branch for Func.set')


def read_set(do, move_instrs, move_neg):
    instrs = []
    val_var = ex_var = None
    for s in set_branch(do):
        if isinstance(s, ast.If):  # the `request.table != Table.prime` guard
            if any(isinstance(x, ast.Call) and qual(x) and qual(x)[1] in ('move', '_send') for x in ast.walk(s)):
                raise Untranslatable('Worker.do(set): move/_send inside a nested branch')
            continue
        if isinstance(s, ast.Assign) and isinstance(s.value, ast.Call) and qual(s.value) \
                and qual(s.value)[1] == 'move':
            t = s.targets[0]
            if not (isinstance(t, ast.Tuple) and len(t.elts) == 2 and all(isinstance(e, ast.Name) for e in t.elts)):
                raise Untranslatable('Worker.do(set): result of move is not unpacked into (value, exists)')
            val_var, ex_var = t.elts[0].id, t.elts[1].id
            instrs.extend(move_instrs)
            continue
        if isinstance(s, ast.Assign) and isinstance(s.targets[0], ast.Subscript) \
                and 'tables' in ast.dump(s.targets[0]):
            v = s.value
            if isinstance(v, ast.Name) and v.id == val_var and val_var is not None:
                instrs.append(('record', '.moved'))
            elif isinstance(v, ast.Subscript) and dotted(v.value) == 'request.value' \
                    and isinstance(v.slice, ast.Constant) and v.slice.value == 1:
                instrs.append(('record', '.requested'))
            else:
                raise Untranslatable('Worker.do(set): the catalogue value is neither what move returned nor request.value[1]')
            continue
        sends = [c for c in calls_in_order(s) if qual(c) and qual(c)[1] == '_send']
        if sends:
            a = sends[0].args[0] if sends[0].args else None
            if isinstance(a, ast.Name) and a.id == ex_var and ex_var is not None:
                instrs.append(('reply', move_neg))
            elif isinstance(a, ast.UnaryOp) and isinstance(a.op, ast.Not) and isinstance(a.operand, ast.Name) \
                    and a.operand.id == ex_var and ex_var is not None:
                instrs.append(('reply', not move_neg))
            else:
                raise Untranslatable('Worker.do(set): the reply is not the exists flag returned by move')
            continue
        for c in calls_in_order(s):
            q = qual(c)
            if q and q[1] in ('unlink', 'remove', 'rename', 'replace', 'move'):
                raise Untranslatable(f'Worker.do(set): unexpected effectful call {q[1]}')
    kinds = [i if isinstance(i, str) else i[0] for i in instrs]
    if kinds.count('record') != 1 or kinds.count('reply') != 1 or kinds.count('act') < 1:
        raise Untranslatable(f'Worker.do(set): unexpected effect sequence {kinds}')
    return instrs


def read_set_prime(fn):
    order = []
    for c in calls_in_order(fn):
        q = qual(c)
        if q and q[1] == 'encode':
            order.append('encode')
        elif isinstance(c.func, ast.Attribute) and c.func.attr.endswith('__do'):
            order.append('do')
    if order != ['encode', 'do']:
        raise Untranslatable(f'Connector._set_prime: expected encode then __do, found {order}')


def read_flag(fn, name):
    """`isnew = not self._set_prime(..)` followed by new_values((.., isnew)) -> flag negated?"""
    neg = var = None
    for n in ast.walk(fn):
        if isinstance(n, ast.Assign) and isinstance(n.targets[0], ast.Name):
            v, ng = n.value, False
            if isinstance(v, ast.UnaryOp) and isinstance(v.op, ast.Not):
                v, ng = v.operand, True
            if isinstance(v, ast.Call) and isinstance(v.func, ast.Attribute) and v.func.attr == '_set_prime':
                var, neg = n.targets[0].id, ng
    if var is None:
        raise Untranslatable(f'{name}: the reply of _set_prime is not assigned to a flag')
    for n in ast.walk(fn):
        if isinstance(n, ast.Call) and isinstance(n.func, ast.Attribute) and n.func.attr == 'new_values':
            if not (n.args and isinstance(n.args[0], ast.Tuple) and len(n.args[0].elts) == 2):
                raise Untranslatable(f'{name}: new_values is not given a (name, flag) pair')
            e = n.args[0].elts[1]
            if isinstance(e, ast.Name) and e.id == var:
                return neg
            if isinstance(e, ast.UnaryOp) and isinstance(e.op, ast.Not) and isinstance(e.operand, ast.Name) \
                    and e.operand.id == var:
                return not neg
            raise Untranslatable(f'{name}: the flag handed to new_values is not the one derived from _set_prime')
    raise Untranslatable(f'{name}: new_values is never called')


def lean_instr(i):
    if isinstance(i, str):
        return '.' + i
    if i[0] == 'act':
        g = 'none' if i[1] is None else ('(some true)' if i[1] else '(some false)')
        return f'.act {g} {i[2]}'
    if i[0] == 'record':
        return f'.record {i[1]}'
    return f'.{i[0]} {"true" if i[1] else "false"}'


def _else_of_early_return(fn):
    """`if c: A; return r` followed by `B; return r` (the same expression) is read as `if c: A else: B; return r`"""
    import copy
    fn = copy.deepcopy(fn)
    body = fn.body
    for i, st in enumerate(body[:-1]):
        last = body[-1]
        if (isinstance(st, ast.If) and not st.orelse and st.body and isinstance(st.body[-1], ast.Return)
                and isinstance(last, ast.Return) and ast.dump(st.body[-1].value or ast.Constant(None)) ==
                ast.dump(last.value or ast.Constant(None))
                and not any(isinstance(x, ast.Return) for s in st.body[:-1] for x in ast.walk(s))
                and not any(isinstance(x, ast.Return) for s in body[i + 1:-1] for x in ast.walk(s))
                and all(isinstance(n, (ast.Name, ast.Tuple, ast.Load, ast.Constant))
                        for n in ast.walk(last.value or ast.Constant(None)))):
            st.body = st.body[:-1] or [ast.Pass()]
            st.orelse = body[i + 1:-1] or [ast.Pass()]
            fn.body = body[:i + 1] + [last]
            return ast.fix_missing_locations(fn)
    return fn


def _inline_helpers(fn, module, cls=None):
    """a copy of `fn` in which (a) `x = helper(args)` with a module-level helper that is a single `return <expr>`
    becomes `x = <expr>` with the parameters substituted, (b) a statement `self.helper(args)` / `helper(args)` whose
    helper is a plain method of the same class / module-level function is replaced by the helper's statements
    (a trailing bare `return` dropped), (c) a module-level `NAME = <literal>` used in `fn` is replaced by the literal,
    (d) `return (a, <expr>)` becomes `_result = <expr>; return (a, _result)`"""
    import copy
    fn = copy.deepcopy(fn)
    funcs = {d.name: d for d in module.body if isinstance(d, ast.FunctionDef)}
    methods = {d.name: d for d in (cls.body if cls is not None else []) if isinstance(d, ast.FunctionDef)}
    consts = {st.targets[0].id: st.value for st in module.body
              if isinstance(st, ast.Assign) and len(st.targets) == 1 and isinstance(st.targets[0], ast.Name)
              and isinstance(st.value, ast.Constant) and st.targets[0].id.isupper() or
              (isinstance(st, ast.Assign) and len(st.targets) == 1 and isinstance(st.targets[0], ast.Name)
               and isinstance(st.value, ast.Constant) and st.targets[0].id.startswith('_')
               and st.targets[0].id[1:].isupper())}

    def simple(h, drop_self):
        a = h.args
        params = [p.arg for p in a.args][1 if drop_self else 0:]
        if a.vararg or a.kwarg or a.kwonlyargs or a.posonlyargs or a.defaults:
            return None
        return params

    def subst(node, bind):
        class Sub(ast.NodeTransformer):
            def visit_Name(self, n):   # pylint: disable=invalid-name
                return copy.deepcopy(bind[n.id]) if n.id in bind else n
        return ast.fix_missing_locations(Sub().visit(copy.deepcopy(node)))

    def body_of(h):
        return [x for x in h.body if not (isinstance(x, ast.Expr) and isinstance(x.value, ast.Constant))]

    class Expr(ast.NodeTransformer):
        def visit_Name(self, n):   # pylint: disable=invalid-name
            if isinstance(n.ctx, ast.Load) and n.id in consts:
                return copy.deepcopy(consts[n.id])
            return n

        def visit_Call(self, c):   # pylint: disable=invalid-name
            c = self.generic_visit(c)
            if isinstance(c.func, ast.Name) and c.func.id in funcs and not c.keywords:
                h = funcs[c.func.id]
                params = simple(h, False)
                b = body_of(h)
                if params is not None and len(params) == len(c.args) and len(b) == 1 and isinstance(b[0], ast.Return) \
                        and all(isinstance(x, (ast.Name, ast.Constant)) for x in c.args) \
                        and b[0].value is not None and h.name.startswith('_') and h.name not in ('_extract',):
                    return subst(b[0].value, dict(zip(params, c.args)))
            return c

    def block(stmts):
        out = []
        for st in stmts:
            c = st.value if isinstance(st, ast.Expr) and isinstance(st.value, ast.Call) else None
            h = None
            if c is not None and not c.keywords:
                if isinstance(c.func, ast.Attribute) and getattr(c.func.value, 'id', '') == 'self' \
                        and c.func.attr in methods and c.func.attr.startswith('_') and c.func.attr != '_send':
                    h, params = methods[c.func.attr], simple(methods[c.func.attr], True)
                elif isinstance(c.func, ast.Name) and c.func.id in funcs and c.func.id.startswith('_'):
                    h, params = funcs[c.func.id], simple(funcs[c.func.id], False)
            if h is not None and params is not None and len(params) == len(c.args) and h is not fn \
                    and all(isinstance(x, (ast.Name, ast.Constant)) for x in c.args):
                b = body_of(h)
                if b and isinstance(b[-1], ast.Return) and b[-1].value is None:
                    b = b[:-1]
                if not any(isinstance(x, ast.Return) and x.value is not None for y in b for x in ast.walk(y)):
                    out.extend(block([subst(x, dict(zip(params, c.args))) for x in b]))
                    continue
            for field in ('body', 'orelse', 'finalbody'):
                if isinstance(getattr(st, field, None), list) and getattr(st, field) and isinstance(
                        getattr(st, field)[0], ast.stmt):
                    setattr(st, field, block(getattr(st, field)))
            if isinstance(st, ast.Return) and isinstance(st.value, ast.Tuple) and len(st.value.elts) == 2 \
                    and not isinstance(st.value.elts[1], ast.Name):
                out.append(ast.Assign(targets=[ast.Name(id='_result', ctx=ast.Store())], value=st.value.elts[1]))
                st.value.elts[1] = ast.Name(id='_result', ctx=ast.Load())
            out.append(st)
        return out
    fn.body = [Expr().visit(x) for x in block(fn.body)]
    return ast.fix_missing_locations(fn)


def _try(reader, fn, module, cls=None):
    """read `fn` as written; when that is outside the subset, read it with its private helpers inlined"""
    try:
        return reader(fn)
    except Untranslatable:
        return reader(_inline_helpers(fn, module, cls))


def gen_blob(repo):
    util, comms, model = _tree(repo, UTIL), _tree(repo, COMMS), _tree(repo, MODEL)
    enc, tools, sep = _try(read_encode, find_def(util, 'encode'), util)
    mv, mneg = read_move(_else_of_early_return(find_def(util, 'move')))
    srv = _try(lambda f: read_set(f, mv, mneg), find_def(comms, 'Worker.do'), comms, find_def(comms, 'Worker'))
    read_set_prime(find_def(comms, 'Connector._set_prime'))
    f1 = read_flag(find_def(model, 'Interface._update'), 'Interface._update')
    f2 = read_flag(find_def(model, 'Interface._update_msv'), 'Interface._update_msv')
    if f1 != f2:
        raise Untranslatable('Interface._update and _update_msv derive the novelty flag differently')
    prog = enc + srv + [('flag', f1)]
    text = (
        'import DawgieVerif.Model.Blob\n'
        'namespace DawgieVerif.Generated.Blob\n'
        'open DawgieVerif.Blob\n'
        '/-- statements of one prime update in source order:\n'
        '    Connector._set_prime/encode ++ Worker.do(Func.set)/move ++ Interface._update -/\n'
        'def program : List Instr :=\n  [' + ', '.join(lean_instr(i) for i in prog) + ']\n'
        'def digestTools : List String := [' + ', '.join(f'"{t}"' for t in tools) + ']\n'
        f'def nameSeparator : String := "{sep}"\n'
        'end DawgieVerif.Generated.Blob\n'
    )
    return 'Blob', text


GENERATORS = [gen_blob]

# Python definitions mirrored by the hand-written model (G8)
MIRRORED = [
    (UTIL, 'encode'),
    (UTIL, 'move'),
    (UTIL, '_extract'),
    (UTIL, 'decode'),
    (COMMS, 'Worker.do'),
    (COMMS, 'Connector._set_prime'),
    (MODEL, 'Interface._update'),
    (MODEL, 'Interface._update_msv'),
    ('db/shelve/__init__.py', 'remove'),
    ('db/shelve/__init__.py', '_prime_values'),
    ('db/shelve/util.py', 'append'),
    ('__init__.py', 'Task.new_values'),
]
