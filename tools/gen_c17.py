"""Generators for C17 (search): what the Lean model of the shelve search takes verbatim from the source.

* `db.basis.Range.__contains__`  -> `rangeContains` (boolean body translated expression by expression)
* `db.shelve.search._align`      -> `alignOrder` (the column order of a prime key)
* `db.shelve.search._table_index` + `db.shelve.enums.Table` -> `tableOf` (Params field -> DBI table name)
* default `keylen` of `SearchImplementation._prime_keys` -> `keyLen`

Anything outside the small subset below raises `Untranslatable`."""
import ast

from tools.translate import Untranslatable, _tree, find_def

CMP = {ast.Lt: '<', ast.LtE: '≤', ast.Gt: '>', ast.GtE: '≥', ast.Eq: '=', ast.NotEq: '≠'}


def _term(n, env):
    """integer term"""
    if isinstance(n, ast.Name) and n.id in env:
        return env[n.id]
    if (
        isinstance(n, ast.Attribute)
        and isinstance(n.value, ast.Name)
        and n.value.id == 'self'
        and 'self.' + n.attr in env
    ):
        return env['self.' + n.attr]
    if isinstance(n, ast.Constant) and isinstance(n.value, int) and not isinstance(n.value, bool):
        return f'({n.value} : Int)'
    if isinstance(n, ast.UnaryOp) and isinstance(n.op, ast.USub):
        return f'(- {_term(n.operand, env)})'
    if isinstance(n, ast.BinOp) and isinstance(n.op, (ast.Add, ast.Sub)):
        op = '+' if isinstance(n.op, ast.Add) else '-'
        return f'({_term(n.left, env)} {op} {_term(n.right, env)})'
    raise Untranslatable(f'Range.__contains__: integer term {ast.dump(n)}')


def _bool(n, env):
    if isinstance(n, ast.Compare):
        terms = [n.left] + list(n.comparators)
        parts = []
        for a, op, b in zip(terms, n.ops, terms[1:]):
            if type(op) not in CMP:
                raise Untranslatable(f'Range.__contains__: comparison {ast.dump(op)}')
            parts.append(f'decide ({_term(a, env)} {CMP[type(op)]} {_term(b, env)})')
        return '(' + ' && '.join(parts) + ')'
    if isinstance(n, ast.BoolOp):
        op = ' && ' if isinstance(n.op, ast.And) else ' || '
        return '(' + op.join(_bool(v, env) for v in n.values) + ')'
    if isinstance(n, ast.UnaryOp) and isinstance(n.op, ast.Not):
        return f'(!{_bool(n.operand, env)})'
    if isinstance(n, ast.Constant) and isinstance(n.value, bool):
        return 'true' if n.value else 'false'
    raise Untranslatable(f'Range.__contains__: boolean expression {ast.dump(n)}')


def _is_none_test(t, attr):
    """`self.<attr> is None` -> True, `self.<attr> is not None` -> False, else None"""
    if (
        isinstance(t, ast.Compare)
        and len(t.ops) == 1
        and isinstance(t.left, ast.Attribute)
        and isinstance(t.left.value, ast.Name)
        and t.left.value.id == 'self'
        and t.left.attr == attr
        and isinstance(t.comparators[0], ast.Constant)
        and t.comparators[0].value is None
    ):
        if isinstance(t.ops[0], ast.Is):
            return True
        if isinstance(t.ops[0], ast.IsNot):
            return False
    return None


def _strip_doc(body):
    if body and isinstance(body[0], ast.Expr) and isinstance(body[0].value, ast.Constant) \
            and isinstance(body[0].value.value, str):
        return body[1:]
    return body


def _range_contains(repo):
    tree = _tree(repo, 'db/basis.py')
    cls = find_def(tree, 'Range')
    fields = []
    for n in cls.body:
        if isinstance(n, ast.AnnAssign) and isinstance(n.target, ast.Name):
            fields.append(n.target.id)
    if fields != ['start', 'stop']:
        raise Untranslatable(f'db.basis.Range fields are {fields}, expected start, stop')
    fn = find_def(tree, 'Range.__contains__')
    args = [a.arg for a in fn.args.args]
    if len(args) != 2 or args[0] != 'self':
        raise Untranslatable('Range.__contains__: unexpected signature')
    member = args[1]
    body = _strip_doc(fn.body)
    # shape:  if self.stop is [not] None: return A      return B
    if (
        len(body) == 2
        and isinstance(body[0], ast.If)
        and not body[0].orelse
        and len(body[0].body) == 1
        and isinstance(body[0].body[0], ast.Return)
        and isinstance(body[1], ast.Return)
    ):
        isnone = _is_none_test(body[0].test, 'stop')
        if isnone is None:
            raise Untranslatable('Range.__contains__: guard is not `self.stop is None`')
        first, second = body[0].body[0].value, body[1].value
        none_e, some_e = (first, second) if isnone else (second, first)
    elif len(body) == 1 and isinstance(body[0], ast.Return) and isinstance(body[0].value, ast.IfExp):
        ife = body[0].value
        isnone = _is_none_test(ife.test, 'stop')
        if isnone is None:
            raise Untranslatable('Range.__contains__: guard is not `self.stop is None`')
        none_e, some_e = (ife.body, ife.orelse) if isnone else (ife.orelse, ife.body)
    else:
        raise Untranslatable('Range.__contains__: body is outside the translated subset')
    env_none = {member: 'member', 'self.start': 'start'}  # self.stop is None here: not an integer
    env_some = {member: 'member', 'self.start': 'start', 'self.stop': 'stop'}
    return (
        '/-- `db.basis.Range.__contains__` (start, stop-or-None, member) -/\n'
        'def rangeContains (start : Int) (stop : Option Int) (member : Int) : Bool :=\n'
        '  match stop with\n'
        f'  | none => {_bool(none_e, env_none)}\n'
        f'  | some stop => {_bool(some_e, env_some)}\n'
    )


def _align(repo):
    fn = find_def(_tree(repo, 'db/shelve/search.py'), '_align')
    body = _strip_doc(fn.body)
    param = fn.args.args[0].arg
    ok = (
        len(body) == 1
        and isinstance(body[0], ast.Return)
        and isinstance(body[0].value, ast.Subscript)
        and isinstance(body[0].value.slice, ast.Name)
        and body[0].value.slice.id == param
        and isinstance(body[0].value.value, ast.DictComp)
    )
    if not ok:
        raise Untranslatable('_align: not `return {k: i for i, k in enumerate([...])}[param]`')
    dc = body[0].value.value
    g = dc.generators[0]
    ok = (
        len(dc.generators) == 1
        and not g.ifs
        and isinstance(g.target, ast.Tuple)
        and [getattr(e, 'id', None) for e in g.target.elts] == [getattr(dc.value, 'id', 0), getattr(dc.key, 'id', 1)]
        and isinstance(g.iter, ast.Call)
        and getattr(g.iter.func, 'id', None) == 'enumerate'
        and len(g.iter.args) == 1
        and not g.iter.keywords
        and isinstance(g.iter.args[0], ast.List)
        and all(isinstance(e, ast.Constant) and isinstance(e.value, str) for e in g.iter.args[0].elts)
    )
    if not ok:
        raise Untranslatable('_align: comprehension is outside the translated subset')
    names = [e.value for e in g.iter.args[0].elts]
    if len(set(names)) != len(names):
        raise Untranslatable('_align: duplicate names')
    return names


def _table_members(repo):
    cls = find_def(_tree(repo, 'db/shelve/enums.py'), 'Table')
    members = {}
    for n in cls.body:
        if isinstance(n, ast.Assign) and len(n.targets) == 1 and isinstance(n.targets[0], ast.Name):
            if not (isinstance(n.value, ast.Constant) and isinstance(n.value.value, int)):
                raise Untranslatable('enums.Table: non-literal member value')
            members[n.targets[0].id] = n.value.value
    if len(set(members.values())) != len(members):
        raise Untranslatable('enums.Table: aliased members')
    return members


def _table_index(repo):
    """Params field -> name of the DBI group member `DBI().tables[_table_index(field)]` selects"""
    fn = find_def(_tree(repo, 'db/shelve/search.py'), '_table_index')
    body = _strip_doc(fn.body)
    param = fn.args.args[0].arg
    r = body[0].value if len(body) == 1 and isinstance(body[0], ast.Return) else None
    ok = (
        isinstance(r, ast.Attribute)
        and r.attr == 'value'
        and isinstance(r.value, ast.Subscript)
        and getattr(r.value.slice, 'id', None) == param
        and isinstance(r.value.value, ast.Dict)
    )
    if not ok:
        raise Untranslatable('_table_index: not `return {...}[param].value`')
    members = _table_members(repo)
    group = [k for k, _ in sorted(members.items(), key=lambda t: t[1])]  # DBI.__names
    out = []
    for k, v in zip(r.value.value.keys, r.value.value.values):
        if not (isinstance(k, ast.Constant) and isinstance(k.value, str)):
            raise Untranslatable('_table_index: non-literal key')
        if not (isinstance(v, ast.Attribute) and getattr(v.value, 'id', None) == 'Table' and v.attr in members):
            raise Untranslatable('_table_index: value is not Table.<member>')
        pos = members[v.attr]
        if not 0 <= pos < len(group):
            raise Untranslatable('_table_index: Table value is not a position of the DBI group')
        out.append((k.value, group[pos]))
    return out


def _keylen(repo):
    fn = find_def(_tree(repo, 'db/shelve/search.py'), 'SearchImplementation._prime_keys')
    names = [a.arg for a in fn.args.args]
    if 'keylen' not in names or not fn.args.defaults:
        raise Untranslatable('_prime_keys: no keylen default')
    d = fn.args.defaults[names.index('keylen') - (len(names) - len(fn.args.defaults))]
    if not (isinstance(d, ast.Constant) and isinstance(d.value, int)):
        raise Untranslatable('_prime_keys: keylen default is not a literal')
    for n in ast.walk(fn):
        if isinstance(n, ast.Call) and isinstance(n.func, ast.Attribute) and n.func.attr == '_prime_keys':
            raise Untranslatable('_prime_keys: recursive call')
    return d.value


def _lean_str_list(xs):
    return '[' + ', '.join('"%s"' % x for x in xs) + ']'


def gen_search(repo):
    tree = _tree(repo, 'db/shelve/search.py')
    # callers of _prime_keys must rely on the default keylen (the model collapses to that width)
    for q in ('SearchImplementation._find', 'SearchImplementation._facet'):
        for n in ast.walk(find_def(tree, q)):
            if (
                isinstance(n, ast.Call)
                and isinstance(n.func, ast.Attribute)
                and n.func.attr == '_prime_keys'
                and (len(n.args) != 1 or n.keywords)
            ):
                raise Untranslatable(f'{q}: _prime_keys is called with an explicit keylen')
    text = (
        'namespace DawgieVerif.Generated.Search\n\n'
        + _range_contains(repo)
        + '\n/-- column order of a prime key: `db.shelve.search._align` -/\n'
        + f'def alignOrder : List String := {_lean_str_list(_align(repo))}\n'
        + '\n/-- Params field ↦ DBI table selected by `DBI().tables[_table_index(field)]` -/\n'
        + 'def tableOf : List (String × String) := ['
        + ', '.join('("%s", "%s")' % t for t in _table_index(repo))
        + ']\n'
        + '\n/-- default `keylen` of `SearchImplementation._prime_keys` -/\n'
        + f'def keyLen : Nat := {_keylen(repo)}\n'
        + '\nend DawgieVerif.Generated.Search\n'
    )
    return 'Search', text


GENERATORS = [gen_search]

# Python definitions mirrored by the hand-written model Model/Search.lean (G8)
MIRRORED = [
    ('db/basis.py', 'SearchFacade._divide'),
    ('db/basis.py', 'SearchFacade._scrub'),
    ('db/basis.py', 'SearchFacade._isempty'),
    ('db/basis.py', 'SearchFacade.facet'),
    ('db/basis.py', 'SearchFacade.find'),
    ('db/basis.py', 'Params'),
    ('db/shelve/search.py', 'SearchImplementation._prime_keys'),
    ('db/shelve/search.py', 'SearchImplementation._find'),
    ('db/shelve/search.py', 'SearchImplementation._facet'),
    ('db/shelve/search.py', '_subset'),
    ('db/shelve/util.py', 'dissect'),
    ('db/shelve/util.py', 'prime_keys'),
    ('fe/api/database.py', 'search'),
    ('fe/basis.py', 'db_param_convert'),
]
