"""Generators for C15.

G3: the six comparison operators of `dawgie.Version` and `Version.newer` are translated from
the Python AST into Lean functions over `Int × Int × Int` (`Generated/Version.lean`).
The component accessors are read from the source as well (`Version.design/implementation/
bugfix` must be `return self._get_ver().<field>` and `<field>` is looked up in the field list
of the `VERSION` named tuple), so that the triple `(a.1, a.2.1, a.2.2)` is *by construction*
`VERSION(design, impl, bugfix)` of the object.

Subset understood (anything else raises Untranslatable):
  expressions  comparisons (== != < <= > >=, chains) between integer terms; one comparison between
               whole version tuples (`p._get_ver()`, a VERSION parameter, a literal 3-tuple), which
               Python evaluates lexicographically; `and`/`or`/`not`;
               `all([...])`, `any([...])` over a literal list/tuple; `True`/`False`;
               `x if c else y`; `self.__op__(other)` calls to another translated operator;
               integer terms: `p.design()`, `p.implementation()`, `p.bugfix()` for a parameter
               that is a dawgie.Version (self / un-annotated), `p.design`, `p.impl`, `p.bugfix`
               for a parameter annotated `VERSION`; integer literals
  statements   `return e`; `if c: ... [else: ...]` (fall-through allowed); `pass`; docstring

Build table (`Generated/BuildTable.lean`): from `schedule.build` the pairs of table indices
handed to `_diff`, the length of the owner prefix (`split('.')[:n]`), the all-targets marker and
from `schedule._is_asp` the factory kind that receives the marker."""
import ast

from tools.translate import Untranslatable, _tree, find_def

OPS = {
    '__eq__': 'veq',
    '__ge__': 'vge',
    '__gt__': 'vgt',
    '__le__': 'vle',
    '__lt__': 'vlt',
    '__ne__': 'vne',
    'newer': 'newer',
}
CMP = {
    ast.Eq: '=',
    ast.NotEq: '≠',
    ast.Lt: '<',
    ast.LtE: '≤',
    ast.Gt: '>',
    ast.GtE: '≥',
}
PROJ = ['.1', '.2.1', '.2.2']


def _fail(where, node, why):
    raise Untranslatable(
        f'{where}: line {getattr(node, "lineno", "?")}: {why}: '
        f'{ast.unparse(node) if isinstance(node, ast.AST) else node}'
    )


# ------------------------------------------------------------------ accessors
def version_fields(tree):
    """field list of `VERSION = collections.namedtuple('VERSION', [...])`"""
    for n in tree.body:
        if (
            isinstance(n, ast.Assign)
            and len(n.targets) == 1
            and isinstance(n.targets[0], ast.Name)
            and n.targets[0].id == 'VERSION'
            and isinstance(n.value, ast.Call)
            and ast.unparse(n.value.func) in ('collections.namedtuple', 'namedtuple')
            and len(n.value.args) == 2
            and isinstance(n.value.args[1], (ast.List, ast.Tuple))
            and all(isinstance(e, ast.Constant) and isinstance(e.value, str) for e in n.value.args[1].elts)
        ):
            fields = [e.value for e in n.value.args[1].elts]
            if len(fields) != 3 or len(set(fields)) != 3:
                _fail('VERSION', n, 'expected three distinct fields')
            return fields
    raise Untranslatable('dawgie.VERSION named tuple not found')


def _body(fn):
    """statements without docstring / pass"""
    out = []
    for s in fn.body:
        if isinstance(s, ast.Pass):
            continue
        if isinstance(s, ast.Expr) and isinstance(s.value, ast.Constant) and isinstance(s.value.value, str):
            continue
        out.append(s)
    return out


def accessor_map(tree, fields):
    """method name -> component index, e.g. {'design':0,'implementation':1,'bugfix':2}"""
    cls = find_def(tree, 'Version')
    getter = find_def(tree, 'Version._get_ver')
    b = _body(getter)
    if not (
        len(b) == 1
        and isinstance(b[0], ast.Return)
        and ast.unparse(b[0].value) == 'self._version_'
    ):
        _fail('Version._get_ver', getter, 'expected `return self._version_`')
    out = {}
    for n in cls.body:
        if not isinstance(n, ast.FunctionDef) or n.name in OPS or n.name.startswith('_'):
            continue
        b = _body(n)
        if (
            len(b) == 1
            and isinstance(b[0], ast.Return)
            and isinstance(b[0].value, ast.Attribute)
            and ast.unparse(b[0].value.value) == 'self._get_ver()'
            and len(n.args.args) == 1
        ):
            f = b[0].value.attr
            if f not in fields:
                _fail('Version.' + n.name, n, 'unknown VERSION field')
            out[n.name] = fields.index(f)
    if sorted(out.values()) != [0, 1, 2]:
        raise Untranslatable(
            f'Version accessors do not cover the three VERSION fields exactly once: {out}'
        )
    return out


# ------------------------------------------------------------------ expressions
class Ctx:
    def __init__(self, where, params, accessors, fields):
        self.where = where
        self.params = params  # python name -> ('a'|'b', 'object'|'tuple')
        self.accessors = accessors
        self.fields = fields
        self.calls = set()


def int_term(cx, e):
    if isinstance(e, ast.Constant) and type(e.value) is int:  # pylint: disable=unidiomatic-typecheck
        return f'({e.value} : Int)'
    if isinstance(e, ast.UnaryOp) and isinstance(e.op, ast.USub) and isinstance(e.operand, ast.Constant) \
            and type(e.operand.value) is int:  # pylint: disable=unidiomatic-typecheck
        return f'(-{e.operand.value} : Int)'
    # p.design()
    if (
        isinstance(e, ast.Call)
        and not e.args
        and not e.keywords
        and isinstance(e.func, ast.Attribute)
        and isinstance(e.func.value, ast.Name)
        and e.func.value.id in cx.params
    ):
        var, kind = cx.params[e.func.value.id]
        if kind != 'object':
            _fail(cx.where, e, 'method call on a VERSION tuple (an int is not callable)')
        if e.func.attr not in cx.accessors:
            _fail(cx.where, e, 'not a component accessor')
        return var + PROJ[cx.accessors[e.func.attr]]
    # than.design
    if isinstance(e, ast.Attribute) and isinstance(e.value, ast.Name) and e.value.id in cx.params:
        var, kind = cx.params[e.value.id]
        if kind != 'tuple':
            _fail(cx.where, e, 'attribute of a Version object used as a number (it is a bound method)')
        if e.attr not in cx.fields:
            _fail(cx.where, e, 'not a VERSION field')
        return var + PROJ[cx.fields.index(e.attr)]
    _fail(cx.where, e, 'not an integer term of the subset')
    return None


def tuple_term(cx, e):
    """the whole VERSION tuple of a parameter: `p._get_ver()` for a Version object, the bare name
    for a parameter annotated VERSION, or a literal 3-tuple of integer terms -> three Lean terms"""
    if (
        isinstance(e, ast.Call)
        and not e.args
        and not e.keywords
        and isinstance(e.func, ast.Attribute)
        and e.func.attr == '_get_ver'
        and isinstance(e.func.value, ast.Name)
        and cx.params.get(e.func.value.id, (None, None))[1] == 'object'
    ):
        return [cx.params[e.func.value.id][0] + p for p in PROJ]
    if isinstance(e, ast.Name) and cx.params.get(e.id, (None, None))[1] == 'tuple':
        return [cx.params[e.id][0] + p for p in PROJ]
    if isinstance(e, ast.Tuple) and len(e.elts) == 3 and not any(isinstance(x, ast.Starred) for x in e.elts):
        return [int_term(cx, x) for x in e.elts]
    return None


def tuple_compare(op, x, y):
    """Python compares (named) tuples lexicographically"""
    eq = ' && '.join(f'decide ({a} = {b})' for a, b in zip(x, y))

    def lex(strict, last):
        return (f'(decide ({x[0]} {strict} {y[0]}) || (decide ({x[0]} = {y[0]}) && '
                f'(decide ({x[1]} {strict} {y[1]}) || (decide ({x[1]} = {y[1]}) && decide ({x[2]} {last} {y[2]})))))')

    return {ast.Eq: f'({eq})', ast.NotEq: f'(!({eq}))', ast.Lt: lex('<', '<'), ast.LtE: lex('<', '≤'),
            ast.Gt: lex('>', '>'), ast.GtE: lex('>', '≥')}[op]


def bool_expr(cx, e):
    if isinstance(e, ast.Constant) and isinstance(e.value, bool):
        return 'true' if e.value else 'false'
    if isinstance(e, ast.Compare) and len(e.ops) == 1 and type(e.ops[0]) in CMP:
        x, y = tuple_term(cx, e.left), tuple_term(cx, e.comparators[0])
        if x is not None and y is not None:
            return tuple_compare(type(e.ops[0]), x, y)
    if isinstance(e, ast.Compare):
        terms = [int_term(cx, x) for x in [e.left] + list(e.comparators)]
        parts = []
        for i, op in enumerate(e.ops):
            if type(op) not in CMP:
                _fail(cx.where, e, 'comparison operator outside the subset')
            parts.append(f'decide ({terms[i]} {CMP[type(op)]} {terms[i + 1]})')
        return parts[0] if len(parts) == 1 else '(' + ' && '.join(parts) + ')'
    if isinstance(e, ast.BoolOp):
        op = ' && ' if isinstance(e.op, ast.And) else ' || '
        parts = [bool_expr(cx, v) for v in e.values]
        # right-nested like Python's short-circuit evaluation (operands are pure booleans)
        out = parts[-1]
        for p in reversed(parts[:-1]):
            out = f'({p}{op}{out})'
        return out
    if isinstance(e, ast.UnaryOp) and isinstance(e.op, ast.Not):
        return f'(!{bool_expr(cx, e.operand)})'
    if isinstance(e, ast.IfExp):
        return f'(if {bool_expr(cx, e.test)} then {bool_expr(cx, e.body)} else {bool_expr(cx, e.orelse)})'
    if isinstance(e, ast.Call) and isinstance(e.func, ast.Name) and e.func.id in ('all', 'any'):
        if len(e.args) != 1 or e.keywords or not isinstance(e.args[0], (ast.List, ast.Tuple)):
            _fail(cx.where, e, 'all/any over something that is not a literal list')
        unit, op = ('true', ' && ') if e.func.id == 'all' else ('false', ' || ')
        out = unit
        for x in reversed(e.args[0].elts):
            if isinstance(x, ast.Starred):
                _fail(cx.where, e, 'starred element')
            out = f'({bool_expr(cx, x)}{op}{out})'
        return out
    # self.__ge__(other)
    if (
        isinstance(e, ast.Call)
        and isinstance(e.func, ast.Attribute)
        and isinstance(e.func.value, ast.Name)
        and e.func.value.id in cx.params
        and e.func.attr in OPS
        and len(e.args) == 1
        and not e.keywords
        and isinstance(e.args[0], ast.Name)
        and e.args[0].id in cx.params
    ):
        recv, rk = cx.params[e.func.value.id]
        arg, ak = cx.params[e.args[0].id]
        want = 'tuple' if e.func.attr == 'newer' else 'object'
        if rk != 'object' or ak != want:
            _fail(cx.where, e, 'operator applied to the wrong kind of argument')
        cx.calls.add(OPS[e.func.attr])
        return f'{OPS[e.func.attr]} {recv} {arg}'
    _fail(cx.where, e, 'not a boolean expression of the subset')
    return None


def block(cx, stmts, cont):
    """Lean Bool expression for a statement list; `cont` is the expression evaluated when the
    list falls through (None: the function would return None -> untranslatable)."""
    if not stmts:
        if cont is None:
            raise Untranslatable(f'{cx.where}: a path falls off the end without `return`')
        return cont
    s, rest = stmts[0], stmts[1:]
    if isinstance(s, ast.Pass) or (
        isinstance(s, ast.Expr) and isinstance(s.value, ast.Constant) and isinstance(s.value.value, str)
    ):
        return block(cx, rest, cont)
    if isinstance(s, ast.Return):
        if s.value is None:
            _fail(cx.where, s, 'bare return')
        return bool_expr(cx, s.value)  # statements after a return are dead code
    if isinstance(s, ast.If):
        k = block(cx, rest, cont) if (rest or cont is not None) else None
        return (
            f'(if {bool_expr(cx, s.test)} then {block(cx, s.body, k)} '
            f'else {block(cx, s.orelse, k)})'
        )
    _fail(cx.where, s, 'statement outside the subset')
    return None


def translate_op(tree, pyname, accessors, fields):
    fn = find_def(tree, 'Version.' + pyname)
    where = 'Version.' + pyname
    a = fn.args
    if a.vararg or a.kwarg or a.kwonlyargs or a.posonlyargs or a.defaults or len(a.args) != 2:
        _fail(where, fn, 'expected exactly (self, other)')
    if fn.decorator_list:
        _fail(where, fn, 'decorated operator')
    me, other = a.args
    okind = 'object'
    if other.annotation is not None:
        ann = ast.unparse(other.annotation)
        if ann in ('VERSION', 'dawgie.VERSION'):
            okind = 'tuple'
        elif ann not in ('Version', 'dawgie.Version', "'Version'"):
            _fail(where, other, 'parameter annotation outside the subset')
    cx = Ctx(where, {me.arg: ('a', 'object'), other.arg: ('b', okind)}, accessors, fields)
    cx.okind = okind  # the Lean signature is the same; calls between operators are kind-checked
    return block(cx, list(fn.body), None), cx


def gen_version(repo):
    tree = _tree(repo, '__init__.py')
    fields = version_fields(tree)
    accessors = accessor_map(tree, fields)
    defs, deps, kinds = {}, {}, {}
    for py, lean in OPS.items():
        text, cx = translate_op(tree, py, accessors, fields)
        defs[lean], deps[lean], kinds[lean] = text, cx.calls, cx.okind
    # a call `self.__ge__(other)` passes `other` on unchanged: kinds must agree
    for lean, ds in deps.items():
        for d in ds:
            if kinds[d] != kinds[lean]:
                raise Untranslatable(
                    f'Version: {lean} hands its {kinds[lean]} argument to {d} which expects a {kinds[d]}'
                )
    order, seen = [], set()

    def visit(n, stack=()):
        if n in stack:
            raise Untranslatable('Version operators call each other recursively: ' + ' -> '.join(stack + (n,)))
        if n in seen:
            return
        for d in sorted(deps[n]):
            visit(d, stack + (n,))
        seen.add(n)
        order.append(n)

    for n in sorted(defs):
        visit(n)
    acc = ', '.join(f'{k}()->{fields[v]}' for k, v in sorted(accessors.items(), key=lambda kv: kv[1]))
    out = [
        '/- dawgie.Version comparison operators; a version is the triple',
        f'   VERSION({", ".join(fields)}) = (x.1, x.2.1, x.2.2); accessors: {acc}.',
        '   `newer a b`: `a` is the Version object, `b` the VERSION tuple handed in as `than`. -/',
        'namespace DawgieVerif.Generated.Version',
        'abbrev V := Int × Int × Int',
    ]
    for n in order:
        out.append(f'def {n} (a b : V) : Bool :=\n  {defs[n]}')
    out.append('end DawgieVerif.Generated.Version\n')
    return 'Version', '\n'.join(out)


# ------------------------------------------------------------------ build table
def gen_build_table(repo):
    tree = _tree(repo, 'pl/schedule.py')
    fn = find_def(tree, 'build')
    params = [a.arg for a in fn.args.args]
    if len(params) != 3:
        _fail('schedule.build', fn, 'expected (factories, latest, previous)')
    _fac, latest, previous = params
    def diff_pair(call):
        idx = []
        ok = len(call.args) == 2 and not call.keywords
        for arg, nm in zip(call.args, (latest, previous)):
            if not (
                ok
                and isinstance(arg, ast.Subscript)
                and isinstance(arg.value, ast.Name)
                and arg.value.id == nm
                and isinstance(arg.slice, ast.Constant)
                and type(arg.slice.value) is int  # pylint: disable=unidiomatic-typecheck
                and arg.slice.value >= 0
            ):
                _fail('schedule.build', call, f'expected _diff({latest}[i], {previous}[j])')
            idx.append(arg.slice.value)
        return tuple(idx)

    def is_diff(n):
        return isinstance(n, ast.Call) and isinstance(n.func, ast.Name) and n.func.id == '_diff'

    # locals assigned (once) from a _diff call
    assigned, calls = {}, 0
    for n in ast.walk(fn):
        if is_diff(n):
            calls += 1
        if isinstance(n, ast.Assign) and is_diff(n.value):
            if len(n.targets) != 1 or not isinstance(n.targets[0], ast.Name) or n.targets[0].id in assigned:
                _fail('schedule.build', n, 'expected a single assignment <name> = _diff(...)')
            assigned[n.targets[0].id] = diff_pair(n.value)
    for n in ast.walk(fn):
        if isinstance(n, (ast.Assign, ast.AugAssign, ast.For, ast.NamedExpr)):
            tg = n.targets if isinstance(n, ast.Assign) else [n.target]
            for t in tg:
                for x in ast.walk(t):
                    if isinstance(x, ast.Name) and x.id in assigned and not (isinstance(n, ast.Assign) and is_diff(n.value)):
                        _fail('schedule.build', n, 'a _diff result is reassigned')
    # the one comprehension that turns the differences into owner names: its iterable is a
    # `+` chain of those locals (or of direct _diff calls); the order of the operands and of the
    # assignments is irrelevant (the result is a set), so the pairs are emitted sorted
    chains = [n for n in ast.walk(fn) if isinstance(n, (ast.SetComp, ast.ListComp, ast.GeneratorExp))
              and any(isinstance(x, ast.Attribute) and x.attr == 'split' for x in ast.walk(n.elt))]
    if len(chains) != 1 or len(chains[0].generators) != 1 or chains[0].generators[0].ifs:
        raise Untranslatable('schedule.build: expected exactly one unconditional comprehension over the differences')

    def operands(e):
        if isinstance(e, ast.BinOp) and isinstance(e.op, ast.Add):
            return operands(e.left) + operands(e.right)
        return [e]

    pairs = []
    for e in operands(chains[0].generators[0].iter):
        if isinstance(e, ast.Name) and e.id in assigned:
            pairs.append(assigned[e.id])
        elif is_diff(e):
            pairs.append(diff_pair(e))
        else:
            _fail('schedule.build', e, 'operand of the difference chain is not a _diff result')
    if not pairs:
        raise Untranslatable('schedule.build: no _diff call found')
    pairs = sorted(set(pairs))
    # owner prefix: '.'.join(item.split('.')[:n])
    lens = set()
    for n in ast.walk(fn):
        if (
            isinstance(n, ast.Subscript)
            and isinstance(n.slice, ast.Slice)
            and isinstance(n.value, ast.Call)
            and isinstance(n.value.func, ast.Attribute)
            and n.value.func.attr == 'split'
        ):
            sl = n.slice
            if not (
                sl.lower is None
                and sl.step is None
                and isinstance(sl.upper, ast.Constant)
                and type(sl.upper.value) is int  # pylint: disable=unidiomatic-typecheck
                and sl.upper.value >= 0
                and len(n.value.args) == 1
                and isinstance(n.value.args[0], ast.Constant)
                and n.value.args[0].value == '.'
            ):
                _fail('schedule.build', n, "expected <name>.split('.')[:n]")
            lens.add(sl.upper.value)
    if len(lens) != 1:
        raise Untranslatable(f'schedule.build: owner prefix lengths found: {sorted(lens)}')
    # marker: [<const>] if _is_asp(n) else <targets>
    markers = set()
    for n in ast.walk(fn):
        if isinstance(n, ast.IfExp) and isinstance(n.test, ast.Call) and ast.unparse(n.test.func) == '_is_asp':
            if not (
                isinstance(n.body, ast.List)
                and len(n.body.elts) == 1
                and isinstance(n.body.elts[0], ast.Constant)
                and isinstance(n.body.elts[0].value, str)
            ):
                _fail('schedule.build', n, 'expected [<marker>] if _is_asp(n) else <targets>')
            markers.add(n.body.elts[0].value)
    if len(markers) != 1:
        raise Untranslatable(f'schedule.build: all-targets markers found: {sorted(markers)}')
    marker = markers.pop()
    # _is_asp: n.get('factory').__name__ == dawgie.Factories.<kind>.name
    asp = find_def(tree, '_is_asp')
    b = _body(asp)
    kind = None
    if len(b) == 1 and isinstance(b[0], ast.Return) and isinstance(b[0].value, ast.Compare):
        c = b[0].value
        if len(c.ops) == 1 and isinstance(c.ops[0], ast.Eq):
            sides = [ast.unparse(c.left), ast.unparse(c.comparators[0])]
            for s in sides:
                if s.startswith('dawgie.Factories.') and s.endswith('.name'):
                    kind = s[len('dawgie.Factories.'):-len('.name')]
            if not any(s.endswith(".get('factory').__name__") for s in sides):
                kind = None
    if kind not in ('analysis', 'regress', 'task'):
        _fail('schedule._is_asp', asp, "expected n.get('factory').__name__ == dawgie.Factories.<kind>.name")
    esc = marker.replace('\\', '\\\\').replace('"', '\\"')
    text = (
        '/- constants of schedule.build / schedule._is_asp -/\n'
        'namespace DawgieVerif.Generated.BuildTable\n'
        '/-- the `_diff(latest[i], previous[j])` results that `build` turns into owner names (sorted) -/\n'
        f'def diffTables : List (Nat × Nat) := [{", ".join(f"({c}, {p})" for c, p in pairs)}]\n'
        "/-- `'.'.join(item.split('.')[:ownerLen])` -/\n"
        f'def ownerLen : Nat := {lens.pop()}\n'
        f'def allMarker : String := "{esc}"\n'
        '/-- the factory kind for which `_is_asp` holds -/\n'
        f'def aspKind : String := "{kind}"\n'
        'end DawgieVerif.Generated.BuildTable\n'
    )
    return 'BuildTable', text


GENERATORS = [gen_version, gen_build_table]

# Python definitions mirrored by hand-written models or relied on by the harness (G8)
MIRRORED = [
    ('pl/schedule.py', '_diff'),
    ('pl/schedule.py', 'build'),
    ('pl/schedule.py', '_is_asp'),
    ('pl/schedule.py', 'organize'),
    ('pl/schedule.py', '_prune'),
    ('pl/version.py', 'current'),
    ('pl/version.py', 'persistent'),
    ('db/shelve/__init__.py', 'versions'),
    ('db/shelve/__init__.py', 'update'),
    ('db/__init__.py', 'targets'),
    ('util/fifo.py', 'Unique'),
    ('__init__.py', 'Version.asstring'),
]
