"""Writes /verif/MANIFEST.json from the table below (kept next to the checks so that it is
always in step with what ./check can decide)."""
import json
import os

HERE = os.path.dirname(os.path.dirname(os.path.abspath(__file__)))

CHECKS = {
    'C14': dict(
        text='Lean theorems over an executable model of the shared frame-reassembly loop '
             '(feed_append, any_chunking, frames_roundtrip, chunked_frames, recv1_agrees: for every byte '
             'stream, every chunking, every message list, by induction, no size bound) and of the legacy '
             'handshake; the model is tied to the three real dataReceived loops, message.send/receive and '
             'TwistedWrapper.process by a correspondence run on every check, and the prefix width is '
             'regenerated from the struct formats in the source.',
        note='Trusted: Lean kernel; axioms propext/Classical.choice/Quot.sound only; tools/translate.py; '
             'harness fakes (transport, identity pickle shim, table-driven PGP fake). Assumed: Twisted delivers '
             'nothing after loseConnection; PGP verify rejects the empty message. Real sockets and kernel '
             'chunking are not exercised (the theorem proves independence from chunking).',
        technique='Lean 4 proof by functional induction on the frame loop + differential correspondence',
        design='7/C14',
    ),
}

PENDING_REASON = 'check not built yet in this round of work; see DESIGN.md section 7 for the planned model and theorems'


def main():
    props = [json.loads(l) for l in open(os.path.join(HERE, 'properties.jsonl'))]
    checks, na = [], []
    for p in props:
        pid = p['id']
        c = CHECKS.get(pid)
        if c is None:
            na.append({'property_id': pid, 'reason': PENDING_REASON})
            continue
        checks.append({
            'property_id': pid,
            'quick_cmd': f'./check {pid} --tier quick',
            'thorough_cmd': f'./check {pid} --tier thorough',
            'evidence_file': f'/verif/evidence/{pid}.json',
            'replay_cmd_template': f'./check {pid} --replay {{path}}',
            'engine': 'lean-proof+correspondence',
            'level_claimed': {'category': 'proof', 'text': c['text'], 'design_ref': c['design']},
            'level_note': c['note'],
            'technique': c['technique'],
        })
    m = {
        'version': 1,
        'setup_cmd': 'cd lean && lake build DawgieVerif DawgieVerif.Model.All',
        'hooks': {
            'guard': 'AL_NIESSNER_DAWGIE_VERIF',
            'enable': 'no hooks are needed: the harness replaces module attributes of /repo/Python in-process (PYTHONPATH=/repo/Python)',
            'baseline_off_cmd': 'cd /repo && /venv/bin/python -m pytest -ra -q -p no:cacheprovider --timeout=900 --continue-on-collection-errors',
            'source_commits': [],
            'add_only': True,
        },
        'engines': [{
            'name': 'lean-proof+correspondence',
            'path': 'check',
            'serves_properties': sorted(CHECKS),
            'kind_free_text': 'Lean 4 theorems over executable models (lean/DawgieVerif), regenerated definitions from tools/translate.py, differential correspondence and property monitors on the real Python (harness/)',
        }],
        'checks': checks,
        'notes': 'Every check runs with /repo/Python first on sys.path and asserts that dawgie is imported from there (the pinned test suite imports an installed release instead).',
        'not_applicable': na,
    }
    json.dump(m, open(os.path.join(HERE, 'MANIFEST.json'), 'w'), indent=1)
    print(len(checks), 'checks;', len(na), 'not claimed')


if __name__ == '__main__':
    main()
