"""Writes /verif/MANIFEST.json from the table below (kept next to the checks so that it is
always in step with what ./check can decide)."""
import json
import os

HERE = os.path.dirname(os.path.dirname(os.path.abspath(__file__)))

import importlib
import sys

sys.path.insert(0, HERE)


def load_checks():
    out = {}
    for f in sorted(os.listdir(os.path.join(HERE, 'harness'))):
        if len(f) == 6 and f.startswith('c') and f.endswith('.py') and f[1:3].isdigit():
            src = open(os.path.join(HERE, 'harness', f)).read()
            # evaluate only the MANIFEST literal, without importing the harness (it imports dawgie)
            import ast
            for n in ast.parse(src).body:
                if isinstance(n, ast.Assign) and getattr(n.targets[0], 'id', '') == 'MANIFEST':
                    out[f[:3].upper()] = eval(compile(ast.Expression(n.value), f, 'eval'))  # noqa: S307
    return out


CLAIMED = set(open(os.path.join(HERE, 'tools', 'claimed.txt')).read().split())
CHECKS = {k: v for k, v in load_checks().items() if k in CLAIMED}

PENDING_REASON = 'check not built yet in this round of work; see DESIGN.md section 7 for the planned model and theorems'


def main():
    props = [json.loads(l) for l in open(os.path.join(HERE, 'properties.jsonl'))]
    checks, na = [], []
    for p in props:
        pid = p['id']
        c = CHECKS.get(pid)
        if c is None:
            na.append({'property_id': pid, 'reason': PENDING_REASON})
            continue
        checks.append({
            'property_id': pid,
            'quick_cmd': f'./check {pid} --tier quick',
            'thorough_cmd': f'./check {pid} --tier thorough',
            'evidence_file': f'/verif/evidence/{pid}.json',
            'replay_cmd_template': f'./check {pid} --replay {{path}}',
            'engine': 'lean-proof+correspondence',
            'level_claimed': {'category': 'proof', 'text': c['text'], 'design_ref': c['design']},
            'level_note': c['note'],
            'technique': c['technique'],
        })
    m = {
        'version': 1,
        'setup_cmd': './setup.sh',
        'hooks': {
            'guard': 'AL_NIESSNER_DAWGIE_VERIF',
            'enable': 'no hooks are needed: the harness replaces module attributes of /repo/Python in-process (PYTHONPATH=/repo/Python)',
            'baseline_off_cmd': 'cd /repo && /venv/bin/python -m pytest -ra -q -p no:cacheprovider --timeout=900 --continue-on-collection-errors',
            'source_commits': [],
            'add_only': True,
        },
        'engines': [{
            'name': 'lean-proof+correspondence',
            'path': 'check',
            'serves_properties': sorted(CHECKS),
            'kind_free_text': 'Lean 4 theorems over executable models (lean/DawgieVerif), regenerated definitions from tools/translate.py, differential correspondence and property monitors on the real Python (harness/)',
        }],
        'checks': checks,
        'notes': 'Every check runs with /repo/Python first on sys.path and asserts that dawgie is imported from there (the pinned test suite imports an installed release instead).',
        'not_applicable': na,
    }
    json.dump(m, open(os.path.join(HERE, 'MANIFEST.json'), 'w'), indent=1)
    print(len(checks), 'checks;', len(na), 'not claimed')


if __name__ == '__main__':
    main()
