"""Scheduler group: nothing is regenerated (the model is hand written and tied by correspondence);
the fingerprints of the mirrored Python definitions escalate the correspondence budget when
they change."""
from tools.gen_schednodes import gen_schednodes

GENERATORS = [gen_schednodes]

MIRRORED = [
    ('pl/schedule.py', 'organize'),
    ('pl/schedule.py', 'next_job_batch'),
    ('pl/schedule.py', 'complete'),
    ('pl/schedule.py', 'purge'),
    ('pl/schedule.py', '_purge'),
    ('pl/schedule.py', '_prune'),
    ('pl/schedule.py', 'update'),
    ('pl/schedule.py', 'defer'),
    ('pl/schedule.py', 'find'),
    ('pl/schedule.py', 'view_todo'),
    ('pl/schedule.py', 'view_doing'),
    ('pl/farm.py', 'dispatch'),
    ('pl/farm.py', 'rerunid'),
    ('pl/farm.py', '_put'),
    ('pl/farm.py', 'Hand._res'),
]
