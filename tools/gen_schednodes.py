"""Scheduler group: the NODE-LOCAL parts of `schedule._prune`, `schedule.complete` and `schedule._purge` are
regenerated from their AST into `Generated/SchedGen.lean`; `Props/C04Gen.lean` / `Props/C05Gen.lean` prove that
they are the definitions of the hand-written `Model/Sched.lean` (`Node.live`, `completeNode`, `purgeNode`) which
every scheduler theorem is about.

Subset understood (a little imperative language over one node `n` and one target `t`):
  statements   `n.get('F').remove(t)`  (only under a test that contains `t in n.get('F')`),
               `n.get('F').clear()`, `n.set('status', State.S)`, `if/elif/else`, `pass`, `return`,
               and, only where stated below, `_prune()`, the history appends and the recursion over children;
  expressions  `and/or/not`, `t in n.get('F'[, []])`, `t == '__all__'`, truthiness of `n.get('F')`,
               `n.get('status') is [not] State.S`.
Anything else raises Untranslatable."""
import ast

from tools.translate import Untranslatable, _tree, find_def

FIELDS = {'todo': 'todo', 'doing': 'doing', 'do': 'do_'}
STATUS = ('initial', 'delayed', 'waiting', 'running')


def _field(node, n):
    """`n.get('F')` / `n.get('F', [])` -> Lean field name"""
    if (isinstance(node, ast.Call) and isinstance(node.func, ast.Attribute) and node.func.attr == 'get'
            and getattr(node.func.value, 'id', '') == n and node.args and isinstance(node.args[0], ast.Constant)
            and node.args[0].value in FIELDS):
        if len(node.args) == 2 and ast.unparse(node.args[1]) not in ('[]', 'set()', '()'):
            return None
        return FIELDS[node.args[0].value]
    return None


def _status(node, where):
    s = ast.unparse(node)
    name = s.split('.')[-1]
    if not s.endswith('State.' + name) or name not in STATUS:
        raise Untranslatable(f'{where}: not a node status: {s}')
    return '.' + name


def _expr(e, n, t, where):
    if isinstance(e, ast.BoolOp):
        op = ' && ' if isinstance(e.op, ast.And) else ' || '
        return '(' + op.join(_expr(v, n, t, where) for v in e.values) + ')'
    if isinstance(e, ast.UnaryOp) and isinstance(e.op, ast.Not):
        return '(!' + _expr(e.operand, n, t, where) + ')'
    f = _field(e, n)
    if f:
        return f'(!nd.{f}.isEmpty)'
    if isinstance(e, ast.Compare) and len(e.ops) == 1:
        op, left, right = e.ops[0], e.left, e.comparators[0]
        if isinstance(op, (ast.In, ast.NotIn)) and t and getattr(left, 'id', '') == t and _field(right, n):
            r = f'decide (t ∈ nd.{_field(right, n)})'
            return f'({r})' if isinstance(op, ast.In) else f'(!{r})'
        if (isinstance(op, (ast.Eq, ast.NotEq)) and t and getattr(left, 'id', '') == t
                and isinstance(right, ast.Constant) and right.value == '__all__'):
            return '(t == ALL)' if isinstance(op, ast.Eq) else '(t != ALL)'
        if (isinstance(op, (ast.Is, ast.IsNot, ast.Eq, ast.NotEq)) and isinstance(left, ast.Call)
                and ast.unparse(left) == f"{n}.get('status')"):
            s = _status(right, where)
            return f'(nd.status == {s})' if isinstance(op, (ast.Is, ast.Eq)) else f'(nd.status != {s})'
    raise Untranslatable(f'{where}: expression outside the subset: {ast.unparse(e)}')


def _members(e, n, t):
    """fields F for which the test `e` being true implies `t in n.get('F')`"""
    if isinstance(e, ast.BoolOp) and isinstance(e.op, ast.And):
        return set().union(*[_members(v, n, t) for v in e.values])
    if (isinstance(e, ast.Compare) and len(e.ops) == 1 and isinstance(e.ops[0], ast.In)
            and getattr(e.left, 'id', '') == t and _field(e.comparators[0], n)):
        return {_field(e.comparators[0], n)}
    return set()


_MODULE = [None]     # the module being translated (for helper inlining)


def _inline(st):
    """`helper(a, 'const', b)` with a module-level helper of plain positional parameters -> the helper's body with
    the parameters substituted (None when `st` is not such a call)"""
    import copy
    c = st.value if isinstance(st, ast.Expr) and isinstance(st.value, ast.Call) else None
    if c is None or not isinstance(c.func, ast.Name) or _MODULE[0] is None or c.func.id in ('_prune', '_purge'):
        return None
    hs = [d for d in _MODULE[0].body if isinstance(d, ast.FunctionDef) and d.name == c.func.id]
    if len(hs) != 1:
        return None
    h = hs[0]
    a = h.args
    if (a.vararg or a.kwarg or a.kwonlyargs or a.posonlyargs or a.defaults or c.keywords or len(a.args) != len(c.args)
            or not all(isinstance(x, (ast.Name, ast.Constant)) for x in c.args)):
        raise Untranslatable(f'schedule: helper {h.name} called in a way outside the subset')
    bind = {p.arg: x for p, x in zip(a.args, c.args)}
    stmts = [x for x in h.body if not (isinstance(x, ast.Expr) and isinstance(x.value, ast.Constant))]
    if stmts and isinstance(stmts[-1], ast.Return) and stmts[-1].value is None:
        stmts = stmts[:-1]
    if any(isinstance(x, (ast.Return, ast.Assign, ast.AugAssign, ast.For, ast.While)) for y in stmts for x in ast.walk(y)):
        raise Untranslatable(f'schedule: helper {h.name} is outside the subset')

    class Sub(ast.NodeTransformer):
        def visit_Name(self, node):   # pylint: disable=invalid-name
            return copy.deepcopy(bind[node.id]) if node.id in bind else node
    return [ast.fix_missing_locations(Sub().visit(copy.deepcopy(x))) for x in stmts]


def _block(stmts, n, t, where, known, skip):
    """Lean expression of type Node (over the variable `nd`) for a statement list; `known`: fields `t` is known to
    be a member of; `skip(stmt)` -> True for statements handled elsewhere"""
    out = []
    known = set(known)
    for st in stmts:
        if isinstance(st, ast.Pass) or (isinstance(st, ast.Return) and st.value is None and st is stmts[-1]):
            continue
        if isinstance(st, ast.Expr) and isinstance(st.value, ast.Constant):
            continue
        if skip(st):
            continue
        inl = _inline(st)
        if inl is not None:
            out.append('(' + _block(inl, n, t, where, known, skip) + ')')
            known = set()
            continue
        if isinstance(st, ast.If):
            c = _expr(st.test, n, t, where)
            a = _block(st.body, n, t, where, known | (_members(st.test, n, t) if t else set()), skip)
            b = _block(st.orelse, n, t, where, known, skip)
            out.append(f'if {c} then ({a}) else ({b})')
            known = set()      # the branches may have removed the target
            continue
        if isinstance(st, ast.Expr) and isinstance(st.value, ast.Call) and isinstance(st.value.func, ast.Attribute):
            call = st.value
            f = _field(call.func.value, n)
            if f and call.func.attr in ('remove', 'discard') and len(call.args) == 1 and getattr(call.args[0], 'id', '') == t:
                if call.func.attr == 'remove' and f not in known:
                    raise Untranslatable(f'{where}: {ast.unparse(st)} is not guarded by a membership test')
                out.append(f'{{ nd with {f} := nd.{f}.filter (fun u => u != t) }}')
                known.discard(f)
                continue
            if f and call.func.attr == 'clear' and not call.args:
                out.append(f'{{ nd with {f} := [] }}')
                known.discard(f)
                continue
            if (call.func.attr == 'set' and getattr(call.func.value, 'id', '') == n and len(call.args) == 2
                    and isinstance(call.args[0], ast.Constant) and call.args[0].value == 'status'):
                out.append(f'{{ nd with status := {_status(call.args[1], where)} }}')
                continue
        raise Untranslatable(f'{where}: statement outside the subset: {ast.unparse(st)[:70]}')
    text = 'nd'
    for e in reversed(out):
        text = f'let nd := {e}\n    {text}'
    return text


def _prune_loop(fn):
    """the loop form of `_prune`: `acc = []; for j in que: if c1: acc.append(j) elif c2: ..; que = acc` -> the keep
    condition (None when `_prune` is not written that way)"""
    body = [st for st in fn.body if not isinstance(st, (ast.Return, ast.Pass, ast.Global))
            and not (isinstance(st, ast.Expr) and isinstance(st.value, ast.Constant))]
    if len(body) != 3 or not isinstance(body[1], ast.For):
        return None
    init, loop, fin = body
    if not (isinstance(init, ast.Assign) and len(init.targets) == 1 and isinstance(init.targets[0], ast.Name)
            and ast.unparse(init.value) in ('[]', 'list()')):
        return None
    acc = init.targets[0].id
    if not (isinstance(fin, ast.Assign) and ast.unparse(fin.targets[0]) in ('dawgie.pl.schedule.que', 'que')
            and ast.unparse(fin.value) == acc):
        raise Untranslatable('schedule._prune: the accumulated list is not assigned to the queue')
    if ast.unparse(fin.targets[0]) == 'que' and not any(isinstance(x, ast.Global) and 'que' in x.names for x in fn.body):
        raise Untranslatable('schedule._prune: assigns a local `que`')
    if (not isinstance(loop.target, ast.Name) or ast.unparse(loop.iter) not in ('que', 'dawgie.pl.schedule.que')
            or loop.orelse):
        raise Untranslatable('schedule._prune: loop is not `for j in que`')
    j = loop.target.id

    def appends(stmts):
        real = [x for x in stmts if not isinstance(x, ast.Pass)]
        if not real:
            return False
        if len(real) == 1 and ast.unparse(real[0]) == f'{acc}.append({j})':
            return True
        raise Untranslatable(f'schedule._prune: loop body outside the subset: {ast.unparse(real[0])[:60]}')

    def chain(stmts):
        real = [x for x in stmts if not isinstance(x, ast.Pass)]
        if not real:
            return 'false'
        if len(real) == 1 and isinstance(real[0], ast.If):
            c = _expr(real[0].test, j, None, 'schedule._prune')
            a = 'true' if appends(real[0].body) else 'false'
            return f'(if {c} then {a} else {chain(real[0].orelse)})'
        return 'true' if appends(real) else 'false'
    return chain(loop.body)


def _rest(tree, keep):
    # ---- _purge(node, target): node-local part, then the recursion over the children
    fn = find_def(tree, '_purge')
    n, t = [a.arg for a in fn.args.args][:2]
    rec = [st for st in fn.body if isinstance(st, ast.For)]
    if (len(rec) != 1 or rec[0] is not [s for s in fn.body if not isinstance(s, (ast.Return, ast.Pass))][-1]
            or ast.unparse(rec[0].iter) != n or rec[0].orelse or len(rec[0].body) != 1
            or ast.unparse(rec[0].body[0]) != f'_purge({ast.unparse(rec[0].target)}, {t})'):
        raise Untranslatable('schedule._purge: does not end with `for child in node: _purge(child, target)`')
    purge = _block(fn.body, n, t, 'schedule._purge', set(), lambda st: st is rec[0])
    fn = find_def(tree, 'purge')
    pn, pt = [a.arg for a in fn.args.args][:2]
    body = [ast.unparse(st) for st in fn.body if not isinstance(st, (ast.Return, ast.Pass))
            and not (isinstance(st, ast.Expr) and isinstance(st.value, ast.Constant))]
    if body != [f'_purge({pn}, {pt})', '_prune()']:
        raise Untranslatable(f'schedule.purge: not `_purge(node, target); _prune()`: {body}')

    # ---- complete(job, runid, target, timing, status): node part up to `_prune()`, then the history appends
    fn = find_def(tree, 'complete')
    args = [a.arg for a in fn.args.args]
    if len(args) != 5:
        raise Untranslatable('schedule.complete: signature changed')
    n, t = args[0], args[2]
    idx = [i for i, st in enumerate(fn.body) if ast.unparse(st) == '_prune()']
    if len(idx) != 1:
        raise Untranslatable('schedule.complete: expected exactly one `_prune()` call')

    def bookkeeping(st):
        """assignments to locals / entries of local containers (history, time stamps): they do not touch the node"""
        if isinstance(st, (ast.Assign, ast.AnnAssign, ast.AugAssign)):
            tgts = st.targets if isinstance(st, ast.Assign) else [st.target]
            for tg in tgts:
                base = tg
                while isinstance(base, ast.Subscript):
                    base = base.value
                if not isinstance(base, ast.Name) or base.id == n:
                    return False
            src = ast.unparse(st)
            return not any(x in src for x in (f'{n}.set', '.remove(', '.clear(', '.discard(', '.add(', '.pop(',
                                              '.update(', '_prune(', '_purge('))
        # a branch / a loop over something other than the node whose statements are all of that kind
        if isinstance(st, ast.If) and f'{n}.' not in ast.unparse(st.test) and not any(
                isinstance(x, ast.Call) for x in ast.walk(st.test)):
            return all(bookkeeping(x) or isinstance(x, ast.Pass) for x in st.body + st.orelse)
        if isinstance(st, ast.For) and not st.orelse and f'{n}' not in {x.id for x in ast.walk(st.iter)
                                                                         if isinstance(x, ast.Name)}:
            return all(bookkeeping(x) or isinstance(x, ast.Pass) for x in st.body)
        return False
    node_part = [st for st in fn.body[:idx[0]] if not bookkeeping(st)]
    complete = _block(node_part, n, t, 'schedule.complete', set(), lambda st: False)
    appends = 0
    for st in fn.body[idx[0] + 1:]:
        s = ast.unparse(st)
        if isinstance(st, (ast.Return, ast.Pass)) or bookkeeping(st):
            continue
        if isinstance(st, ast.Expr) and isinstance(st.value, ast.Call) and (
                s.startswith('history.append(') or s.startswith('dawgie.pl.logger.chronicle.append(')):
            if f'{n}.set' in s or '.remove(' in s or '.clear(' in s:
                raise Untranslatable('schedule.complete: node mutation inside a history append')
            appends += s.startswith('dawgie.pl.logger.chronicle.append(')
            continue
        raise Untranslatable(f'schedule.complete: statement after `_prune()` outside the subset: {s[:70]}')
    if appends != 1:
        raise Untranslatable(f'schedule.complete: {appends} chronicle appends (expected one)')

    L = ['import DawgieVerif.Model.Sched', '', 'namespace DawgieVerif.Generated.SchedGen',
         'open DawgieVerif.Sched', '',
         '/-- the filter condition of `schedule._prune` -/',
         f'def keep (nd : Node) : Bool :=\n  {keep}', '',
         '/-- what `schedule.complete` does to the node before it prunes the queue -/',
         f'def completeNode (t : Target) (nd : Node) : Node :=\n    {complete}', '',
         '/-- what `schedule._purge` does to one node before it visits the children -/',
         f'def purgeNode (t : Target) (nd : Node) : Node :=\n    {purge}', '',
         'end DawgieVerif.Generated.SchedGen', '']
    return 'SchedGen', '\n'.join(L)


def gen_schednodes(repo):
    tree = _tree(repo, 'pl/schedule.py')
    # ---- _prune: que = [j for j in que if <keep>]
    fn = find_def(tree, '_prune')
    _MODULE[0] = tree
    keep = _prune_loop(fn)
    comps = [] if keep else [x for x in ast.walk(fn) if isinstance(x, ast.ListComp)]
    assigns = [x for x in fn.body if isinstance(x, ast.Assign)]
    if keep:
        pass
    elif len(comps) != 1 or len(assigns) != 1 or assigns[0].value is not comps[0]:
        raise Untranslatable('schedule._prune: not a single assignment of one list comprehension')
    if keep:
        return _rest(tree, keep)
    if ast.unparse(assigns[0].targets[0]) not in ('dawgie.pl.schedule.que', 'que'):
        raise Untranslatable('schedule._prune: the comprehension is not assigned to the queue')
    if ast.unparse(assigns[0].targets[0]) == 'que' and not any(isinstance(x, ast.Global) and 'que' in x.names
                                                             for x in fn.body):
        raise Untranslatable('schedule._prune: assigns a local `que`')
    comp = comps[0]
    gen = comp.generators[0]
    if (len(comp.generators) != 1 or not isinstance(gen.target, ast.Name) or ast.unparse(comp.elt) != gen.target.id
            or ast.unparse(gen.iter) not in ('que', 'dawgie.pl.schedule.que') or gen.is_async):
        raise Untranslatable('schedule._prune: comprehension is not `[j for j in que if ..]`')
    j = gen.target.id
    keep = ' && '.join(_expr(c, j, None, 'schedule._prune') for c in gen.ifs) or 'true'
    for st in fn.body:
        if st is not assigns[0] and not isinstance(st, (ast.Return, ast.Pass, ast.Global)) and not (
                isinstance(st, ast.Expr) and isinstance(st.value, ast.Constant)):
            raise Untranslatable(f'schedule._prune: statement outside the subset: {ast.unparse(st)[:70]}')
    return _rest(tree, keep)


