#!/bin/sh
# usage: tools/seedtest.sh <seed-dir with patch.diff demo.py> <Cxx> [<Cyy> ...]
# Confirms a seeded change on a scratch copy of /repo (never /repo itself) and runs the checks on it.
d=$1; shift
w=/tmp/mut_repo_$$
rm -rf $w && cp -r /repo $w && rm -rf $w/.git
echo "== demo on clean copy"; PYTHONPATH=$w/Python timeout 300 /venv/bin/python $d/demo.py >/dev/null 2>&1; echo "   exit=$?"
( cd $w && patch -p1 -s < $d/patch.diff ) || { echo "patch failed"; rm -rf $w; exit 2; }
echo "== demo on changed copy"; PYTHONPATH=$w/Python timeout 300 /venv/bin/python $d/demo.py > /tmp/seedtest_demo_$$.out 2>&1; rc=$?; tail -3 /tmp/seedtest_demo_$$.out; rm -f /tmp/seedtest_demo_$$.out; echo "   exit=$rc"
for p in "$@"; do
  echo "== check $p on changed copy"
  VERIF_REPO=$w /verif/check $p 2>&1 | grep -v conda | grep "VIOLATION\|^  \|quick:\|Error" | cut -c1-400 | head -8
done
rm -rf $w
