"""Generators for C14: the length-prefix width used by every channel (G7)."""
import ast
import struct

from tools.translate import Untranslatable, _tree, find_def

# ------------------------------------------------------------------ G7 constants
def _module_consts(module):
    """module-level `NAME = '<str>'` assignments"""
    out = {}
    for st in module.body:
        if (isinstance(st, ast.Assign) and len(st.targets) == 1 and isinstance(st.targets[0], ast.Name)
                and isinstance(st.value, ast.Constant) and isinstance(st.value.value, str)):
            out[st.targets[0].id] = st.value.value
    return out


def _struct_formats(node, module=None, depth=2):
    """formats of the struct.pack/unpack/calcsize calls in `node`; a format may be a literal or a module-level
    string constant; module-level helper functions (and methods of the same class) that `node` calls are followed"""
    consts = _module_consts(module) if module is not None else {}
    out = []
    for n in ast.walk(node):
        if not isinstance(n, ast.Call):
            continue
        if (
            isinstance(n.func, ast.Attribute)
            and isinstance(n.func.value, ast.Name)
            and n.func.value.id == 'struct'
            and n.func.attr in ('pack', 'unpack', 'calcsize')
            and n.args
        ):
            a = n.args[0]
            if isinstance(a, ast.Constant):
                out.append(a.value)
            elif isinstance(a, ast.Name) and a.id in consts:
                out.append(consts[a.id])
            else:
                raise Untranslatable(f'struct format that is not a literal or a module constant: {ast.unparse(a)}')
        elif module is not None and depth > 0:
            name = n.func.id if isinstance(n.func, ast.Name) else (
                n.func.attr if isinstance(n.func, ast.Attribute) and getattr(n.func.value, 'id', '') in ('self', 'cls')
                else None)
            if name:
                for d in ast.walk(module):
                    if isinstance(d, ast.FunctionDef) and d.name == name and d is not node:
                        out.extend(_struct_formats(d, module, depth - 1))
    return out


def gen_consts(repo):
    widths = set()
    sites = [
    ('pl/farm.py', 'Hand.__init__'),
    ('pl/farm.py', 'Hand.dataReceived'),
    ('pl/logger/__init__.py', 'LogSink.__init__'),
    ('pl/logger/__init__.py', 'LogSink.dataReceived'),
    ('db/shelve/comms.py', 'Worker.__init__'),
    ('db/shelve/comms.py', 'Worker.dataReceived'),
    ('db/shelve/comms.py', 'Worker._send'),
    ('pl/message.py', 'send'),
    ('pl/message.py', 'receive'),
    ]
    for rel, q in sites:
        module = _tree(repo, rel)
        fmts = _struct_formats(find_def(module, q), module)
        if not fmts:
            raise Untranslatable(f'{rel}:{q}: no struct format found')
        for f in fmts:
            if not f.startswith('>'):
                raise Untranslatable(f'{rel}:{q}: format {f!r} is not big-endian')
            widths.add(struct.calcsize(f))
    if len(widths) != 1:
        raise Untranslatable(f'length-prefix widths differ between channels: {widths}')
    return 'Consts', (
        'namespace DawgieVerif.Generated\n'
        f'def prefixWidth : Nat := {widths.pop()}\n'
        'end DawgieVerif.Generated\n'
    )


GENERATORS = [gen_consts]

# Python definitions mirrored by hand-written models (G8)
MIRRORED = [
    ('pl/farm.py', 'Hand.dataReceived'),
    ('pl/logger/__init__.py', 'LogSink.dataReceived'),
    ('db/shelve/comms.py', 'Worker.dataReceived'),
    ('pl/message.py', 'receive'),
    ('pl/message.py', 'send'),
    ('security.py', 'TwistedWrapper'),
]
