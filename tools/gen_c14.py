"""Generators for C14: the length-prefix width used by every channel (G7)."""
import ast
import struct

from tools.translate import Untranslatable, _tree, find_def

# ------------------------------------------------------------------ G7 constants
def _struct_formats(node):
    out = []
    for n in ast.walk(node):
        if (
            isinstance(n, ast.Call)
            and isinstance(n.func, ast.Attribute)
            and isinstance(n.func.value, ast.Name)
            and n.func.value.id == 'struct'
            and n.func.attr in ('pack', 'unpack')
            and n.args
            and isinstance(n.args[0], ast.Constant)
        ):
            out.append(n.args[0].value)
    return out


def gen_consts(repo):
    widths = set()
    sites = [
    ('pl/farm.py', 'Hand.__init__'),
    ('pl/farm.py', 'Hand.dataReceived'),
    ('pl/logger/__init__.py', 'LogSink.__init__'),
    ('pl/logger/__init__.py', 'LogSink.dataReceived'),
    ('db/shelve/comms.py', 'Worker.__init__'),
    ('db/shelve/comms.py', 'Worker.dataReceived'),
    ('db/shelve/comms.py', 'Worker._send'),
    ('pl/message.py', 'send'),
    ('pl/message.py', 'receive'),
    ]
    for rel, q in sites:
        fmts = _struct_formats(find_def(_tree(repo, rel), q))
        if not fmts:
            raise Untranslatable(f'{rel}:{q}: no struct format found')
        for f in fmts:
            if not f.startswith('>'):
                raise Untranslatable(f'{rel}:{q}: format {f!r} is not big-endian')
            widths.add(struct.calcsize(f))
    if len(widths) != 1:
        raise Untranslatable(f'length-prefix widths differ between channels: {widths}')
    return 'Consts', (
        'namespace DawgieVerif.Generated\n'
        f'def prefixWidth : Nat := {widths.pop()}\n'
        'end DawgieVerif.Generated\n'
    )


GENERATORS = [gen_consts]

# Python definitions mirrored by hand-written models (G8)
MIRRORED = [
    ('pl/farm.py', 'Hand.dataReceived'),
    ('pl/logger/__init__.py', 'LogSink.dataReceived'),
    ('db/shelve/comms.py', 'Worker.dataReceived'),
    ('pl/message.py', 'receive'),
    ('pl/message.py', 'send'),
    ('security.py', 'TwistedWrapper'),
]
