"""Generators for C13 (database lock): everything about the lock protocol that can be read off
the source mechanically — the `Mutex` and `Func` enums, the status function
`Worker._get_db_lock_status`, the status value on which `_do_acquire` grants, the status value
the blocking client `comms.acquire` waits for, the request kinds after which `dataReceived`
keeps the connection open, the replies of `_do_release`, the poll interval and the delay of the
deferred `LoopingCall.stop`.

The extraction is by shape, not by text: locals may be renamed and independent statements may be
reordered without changing the output.  Anything outside the understood shapes raises
`Untranslatable`."""
import ast

from tools.translate import Untranslatable, _tree, find_def

COMMS = 'db/shelve/comms.py'
ENUMS = 'db/shelve/enums.py'


# ------------------------------------------------------------------ enums (G5)
def _enum_members(tree, cls):
    node = find_def(tree, cls)
    out = []
    for n in node.body:
        if isinstance(n, ast.Assign) and len(n.targets) == 1 and isinstance(n.targets[0], ast.Name):
            if not (isinstance(n.value, ast.Constant) and isinstance(n.value.value, int)):
                raise Untranslatable(f'{ENUMS}:{cls}.{n.targets[0].id}: value is not an int literal')
            out.append((n.targets[0].id, n.value.value))
    if not out:
        raise Untranslatable(f'{ENUMS}:{cls}: no members')
    if len({v for _, v in out}) != len(out):
        raise Untranslatable(f'{ENUMS}:{cls}: aliased members')
    return sorted(out, key=lambda kv: kv[1])


def _lean_enum(name, members):
    ctor = ' '.join('| ' + _id(m) for m, _ in members)
    val = '\n'.join(f'  | .{_id(m)} => {v}' for m, v in members)
    nam = '\n'.join(f'  | .{_id(m)} => "{m}"' for m, v in members)
    return (
        f'inductive {name} where {ctor}\nderiving DecidableEq, Repr\n\n'
        f'def {name}.val : {name} → Nat\n{val}\n\n'
        f'def {name}.name : {name} → String\n{nam}\n\n'
        f'def {name}.all : List {name} := [{", ".join("." + _id(m) for m, _ in members)}]\n'
    )


LEAN_KEYWORDS = {'set', 'open', 'end', 'from', 'at', 'do', 'fun', 'let', 'in', 'if', 'then', 'else',
                 'where', 'with', 'local', 'instance', 'by', 'have', 'show', 'match'}


def _id(m):
    return m + '_' if m in LEAN_KEYWORDS else m


def _enum_attr(node, cls):
    """`Mutex.unlock` -> 'unlock' (None when `node` is not a member reference of `cls`)"""
    if (isinstance(node, ast.Attribute) and isinstance(node.value, ast.Name)
            and node.value.id == cls):
        return node.attr
    return None


# ------------------------------------------------------------------ small boolean-function subset
def _is_db_lock(node):
    return isinstance(node, ast.Attribute) and node.attr == 'db_lock'


def _bool_expr(node, env):
    """expression over the single input `dbLock` -> Lean Bool term"""
    if _is_db_lock(node):
        return 'dbLock'
    if isinstance(node, ast.Name) and node.id in env:
        return env[node.id]
    if isinstance(node, ast.UnaryOp) and isinstance(node.op, ast.Not):
        return f'(!{_bool_expr(node.operand, env)})'
    if isinstance(node, ast.Call) and isinstance(node.func, ast.Name) and node.func.id == 'bool' \
            and len(node.args) == 1 and not node.keywords:
        return _bool_expr(node.args[0], env)
    if isinstance(node, ast.Constant) and isinstance(node.value, bool):
        return 'true' if node.value else 'false'
    if isinstance(node, ast.BoolOp):
        op = ' && ' if isinstance(node.op, ast.And) else ' || '
        return '(' + op.join(_bool_expr(v, env) for v in node.values) + ')'
    if isinstance(node, ast.Compare) and len(node.ops) == 1 and isinstance(node.ops[0], (ast.Is, ast.Eq, ast.IsNot, ast.NotEq)) \
            and isinstance(node.comparators[0], ast.Constant) and isinstance(node.comparators[0].value, bool):
        e = _bool_expr(node.left, env)
        same = isinstance(node.ops[0], (ast.Is, ast.Eq)) == node.comparators[0].value
        return e if same else f'(!{e})'
    raise Untranslatable(f'{COMMS}:_get_db_lock_status: unsupported test {ast.dump(node)[:80]}')


def _status_body(stmts, env, members):
    """statement list ending in `return Mutex.x` on every path -> Lean term of type Mutex"""
    env = dict(env)
    for i, st in enumerate(stmts):
        if isinstance(st, ast.Expr) and isinstance(st.value, ast.Constant):
            continue  # docstring
        if isinstance(st, ast.Pass):
            continue
        if isinstance(st, ast.Assign) and len(st.targets) == 1 and isinstance(st.targets[0], ast.Name):
            env[st.targets[0].id] = _bool_expr(st.value, env)
            continue
        if isinstance(st, ast.Return):
            if isinstance(st.value, ast.IfExp):
                a, b = _enum_attr(st.value.body, 'Mutex'), _enum_attr(st.value.orelse, 'Mutex')
                if a in members and b in members:
                    return f'if {_bool_expr(st.value.test, env)} then .{_id(a)} else .{_id(b)}'
            m = _enum_attr(st.value, 'Mutex')
            if m not in members:
                raise Untranslatable(f'{COMMS}:_get_db_lock_status: returns something that is not a Mutex member')
            return '.' + _id(m)
        if isinstance(st, ast.If):
            rest = stmts[i + 1:]
            then = _status_body(st.body + rest, env, members)
            other = _status_body((st.orelse or []) + rest, env, members)
            return f'if {_bool_expr(st.test, env)} then {then} else {other}'
        raise Untranslatable(f'{COMMS}:_get_db_lock_status: unsupported statement {type(st).__name__}')
    raise Untranslatable(f'{COMMS}:_get_db_lock_status: a path does not return')


# ------------------------------------------------------------------ shapes inside the lock protocol
def _one(items, what):
    items = list(items)
    if len(items) != 1:
        raise Untranslatable(f'{COMMS}: expected exactly one {what}, found {len(items)}')
    return items[0]


def _mutex_compares(node, ops):
    for n in ast.walk(node):
        if isinstance(n, ast.Compare) and len(n.ops) == 1 and isinstance(n.ops[0], ops):
            for side in (n.left, n.comparators[0]):
                m = _enum_attr(side, 'Mutex')
                if m is not None:
                    yield m


def _calls(node, attr):
    for n in ast.walk(node):
        if isinstance(n, ast.Call) and isinstance(n.func, ast.Attribute) and n.func.attr == attr:
            yield n


def _int_arg(call, what):
    if not call.args or not (isinstance(call.args[0], ast.Constant) and isinstance(call.args[0].value, int)
                             and not isinstance(call.args[0].value, bool)):
        raise Untranslatable(f'{COMMS}: {what}: first argument is not an int literal')
    return call.args[0].value


def _sent_bools(stmts):
    out = []
    for st in stmts:
        for c in _calls(st, '_send'):
            if c.args and isinstance(c.args[0], ast.Constant) and isinstance(c.args[0].value, bool):
                out.append(c.args[0].value)
            else:
                raise Untranslatable(f'{COMMS}:_do_release: reply is not a bool literal')
    return out


def gen_lock(repo):
    etree, ctree = _tree(repo, ENUMS), _tree(repo, COMMS)
    mutex = _enum_members(etree, 'Mutex')
    func = _enum_members(etree, 'Func')
    mnames = [m for m, _ in mutex]
    fnames = [m for m, _ in func]
    for need in ('acquire', 'release'):
        if need not in fnames:
            raise Untranslatable(f'{ENUMS}:Func has no member {need}')

    status = find_def(ctree, 'Worker._get_db_lock_status')
    status_term = _status_body(status.body, {}, mnames)

    grant_on = _one(set(_mutex_compares(find_def(ctree, 'Worker._do_acquire'), (ast.Eq, ast.Is))),
                    'status comparison in Worker._do_acquire')
    waits = [n for n in ast.walk(find_def(ctree, 'acquire')) if isinstance(n, ast.While)]
    waits_for = _one({m for w in waits for m in _mutex_compares(w.test, (ast.NotEq, ast.IsNot))},
                     'status the client loop of comms.acquire waits for')

    # `if request.func not in [Func.a, Func.b]: try: do() ... finally: loseConnection()`
    keep = None
    for n in ast.walk(find_def(ctree, 'Worker.dataReceived')):
        if isinstance(n, ast.Compare) and len(n.ops) == 1 and isinstance(n.ops[0], (ast.NotIn, ast.In)) \
                and isinstance(n.comparators[0], (ast.List, ast.Tuple, ast.Set)):
            ms = [_enum_attr(e, 'Func') for e in n.comparators[0].elts]
            if ms and all(m in fnames for m in ms):
                if keep is not None:
                    raise Untranslatable(f'{COMMS}:Worker.dataReceived: more than one request-kind test')
                keep = (ms, isinstance(n.ops[0], ast.NotIn), n)
    if keep is None:
        raise Untranslatable(f'{COMMS}:Worker.dataReceived: request-kind test not found')
    ms, negated, cmpnode = keep
    # find the If that owns the test and decide which arm closes unconditionally (try/finally)
    owner = _one([n for n in ast.walk(find_def(ctree, 'Worker.dataReceived'))
                  if isinstance(n, ast.If) and n.test is cmpnode], 'if on the request kind')

    def closes_always(stmts):
        for st in stmts:
            for t in ast.walk(st):
                if isinstance(t, ast.Try) and any(True for f in t.finalbody for _ in _calls(f, 'loseConnection')):
                    return True
            if isinstance(st, ast.Expr) and any(True for _ in _calls(st, 'loseConnection')):
                return True
        return False

    body_closes, else_closes = closes_always(owner.body), closes_always(owner.orelse)
    if body_closes == else_closes:
        raise Untranslatable(f'{COMMS}:Worker.dataReceived: cannot tell which request kinds close the connection')
    # members for which the closing arm is taken
    in_list_closes = (body_closes and not negated) or (else_closes and negated)
    closing = [f for f in fnames if (f in ms) == in_list_closes]

    rel = find_def(ctree, 'Worker._do_release')
    rif = _one([n for n in rel.body if isinstance(n, ast.If)], 'if in Worker._do_release')
    neg = isinstance(rif.test, ast.UnaryOp) and isinstance(rif.test.op, ast.Not)
    tst = rif.test.operand if neg else rif.test
    if not (isinstance(tst, ast.Attribute) and tst.attr.endswith('has_lock')):
        raise Untranslatable(f'{COMMS}:Worker._do_release: the branch is not on has_lock')
    a, b = _sent_bools(rif.body), _sent_bools(rif.orelse)
    if len(a) != 1 or len(b) != 1 or _sent_bools([s for s in rel.body if s is not rif]):
        raise Untranslatable(f'{COMMS}:Worker._do_release: expected one boolean reply per branch')
    held_reply, free_reply = (b[0], a[0]) if neg else (a[0], b[0])

    interval = _int_arg(_one(_calls(find_def(ctree, 'Worker.do'), 'start'), 'LoopingCall.start in Worker.do'),
                        'LoopingCall.start')
    d_grant = _int_arg(_one(_calls(find_def(ctree, 'Worker._do_acquire'), 'callLater'),
                            'callLater in Worker._do_acquire'), 'callLater')
    d_lost = _int_arg(_one(_calls(find_def(ctree, 'Worker.connectionLost'), 'callLater'),
                           'callLater in Worker.connectionLost'), 'callLater')

    b2l = {True: 'true', False: 'false'}
    text = (
        '/- Lock protocol facts read off db/shelve/enums.py and db/shelve/comms.py -/\n'
        'namespace DawgieVerif.Generated.Lock\n\n'
        + _lean_enum('Mutex', mutex) + '\n'
        + _lean_enum('Func', func) + '\n'
        '/-- `Worker._get_db_lock_status` as a function of `dawgie.context.db_lock` -/\n'
        f'def statusOf (dbLock : Bool) : Mutex := {status_term}\n\n'
        '/-- the status on which `Worker._do_acquire` takes the lock -/\n'
        f'def grantOn : Mutex := .{_id(grant_on)}\n\n'
        '/-- the status the blocking client `comms.acquire` waits for ("the lock is yours") -/\n'
        f'def clientWaitsFor : Mutex := .{_id(waits_for)}\n\n'
        '/-- request kinds after which `Worker.dataReceived` closes the connection unconditionally -/\n'
        f'def closing : List Func := [{", ".join("." + _id(f) for f in closing)}]\n'
        'def closesAfter (f : Func) : Bool := closing.contains f\n\n'
        '/-- the reply of `Worker._do_release`, by whether the connection owned the lock -/\n'
        f'def releaseReply (hadLock : Bool) : Bool := if hadLock then {b2l[held_reply]} else {b2l[free_reply]}\n\n'
        f'def pollInterval : Nat := {interval}\n'
        f'def stopDelayGrant : Nat := {d_grant}\n'
        f'def stopDelayLost : Nat := {d_lost}\n\n'
        'end DawgieVerif.Generated.Lock\n'
    )
    return 'Lock', text


GENERATORS = [gen_lock]

# Python definitions mirrored by the hand-written model Model/Lock.lean (G8)
MIRRORED = [
    ('db/shelve/comms.py', 'Worker.__init__'),
    ('db/shelve/comms.py', 'Worker.connectionLost'),
    ('db/shelve/comms.py', 'Worker.dataReceived'),
    ('db/shelve/comms.py', 'Worker.do'),
    ('db/shelve/comms.py', 'Worker._do_acquire'),
    ('db/shelve/comms.py', 'Worker._do_release'),
    ('db/shelve/comms.py', 'Worker._get_db_lock_status'),
    ('db/shelve/comms.py', 'Worker._lock_db'),
    ('db/shelve/comms.py', 'Worker._unlock_db'),
    ('db/shelve/comms.py', 'Worker._send'),
    ('db/shelve/comms.py', 'acquire'),
    ('db/shelve/comms.py', 'release'),
    ('context.py', 'lock_db'),
    ('context.py', 'unlock_db'),
    ('db/shelve/enums.py', 'Mutex'),
    ('db/shelve/enums.py', 'Func'),
]
