"""C06 shares the catalogue model and its generated definitions with C08
(`Generated/Store.lean`: tokens, `__to_key` call table, `_load` fall-back constants ...).
Listed here: the Python definitions the C06 part of the model mirrors (G8 fingerprints)."""
USES = ['C08']

GENERATORS = []

MIRRORED = [
    ('db/shelve/model.py', 'Interface.__to_key'),
    ('db/shelve/model.py', 'Interface._load'),
    ('db/shelve/model.py', 'Interface._update'),
    ('db/shelve/comms.py', 'Connector._get_prime'),
    ('db/shelve/comms.py', 'Connector._set_prime'),
    ('db/shelve/comms.py', 'Connector._prime_keys'),
    ('db/shelve/comms.py', 'Connector._table'),
    ('db/shelve/comms.py', 'Connector._update_cmd'),
    ('db/shelve/comms.py', 'Worker.do'),
    ('db/shelve/__init__.py', 'connect'),
    ('db/shelve/__init__.py', 'remove'),
    ('db/util/__init__.py', 'decode'),
    ('db/util/__init__.py', 'encode'),
    ('db/util/__init__.py', 'move'),
    ('__init__.py', 'Value.__getstate__'),
    ('__init__.py', 'Value.__setstate__'),
    ('__init__.py', 'Dataset.load'),
    ('__init__.py', 'Dataset.update'),
]
