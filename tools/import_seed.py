#!/venv/bin/python
"""usage: tools/import_seed.py <seed-out-dir>/<k> <Cxx> <k> <detected text>

Copies a confirmed seeded change (patch.diff, demo.py, notes.md written by an independent
sub-agent) into /verif/seeded/<Cxx>-<k>/ and writes meta.json.  The seeded changes are never
applied to /repo; tools/seedtest.sh applies them to a scratch copy."""
import json
import os
import re
import shutil
import sys

src, pid, k, detected = sys.argv[1:5]
dst = os.path.join(os.path.dirname(os.path.dirname(os.path.abspath(__file__))), 'seeded', f'{pid}-{k}')
os.makedirs(dst, exist_ok=True)
for fn in ('patch.diff', 'demo.py', 'notes.md'):
    shutil.copy(os.path.join(src, fn), os.path.join(dst, fn))
notes = open(os.path.join(dst, 'notes.md')).read()
title = re.sub(r'^#+\s*', '', notes.strip().splitlines()[0]).strip()
m = re.search(r'^##[^\n]*(?:needed|manifest|trigger|see it)[^\n]*\n(.*?)(?=^##|\Z)', notes, re.S | re.M | re.I)
needs = ' '.join(m.group(1).split())[:600] if m else 'see notes.md'
json.dump({
    'property': pid,
    'change': title,
    'needs_to_manifest': needs,
    'written_by': 'independent sub-agent given only the property text and a scratch worktree',
    'confirmed': 'tools/seedtest.sh: demo.py exits 0 on a clean copy of /repo and non-zero on the patched copy; existing tests unchanged (see notes.md)',
    'ran': f'tools/seedtest.sh seeded/{pid}-{k} {pid}  (copy of /repo, patch applied, VERIF_REPO=<copy> ./check {pid})',
    'detected': detected,
}, open(os.path.join(dst, 'meta.json'), 'w'), indent=1)
print(dst)
