#!/bin/sh
# usage: tools/refactest.sh <dir with patch.diff> <Cxx> [<Cyy> ...]
# Applies a behaviour-preserving refactoring to a scratch copy of /repo and runs the quick checks on it:
# every check should exit 0 (or, for translator-tied definitions rewritten outside the translated subset,
# report `no-failing-input-found`, never a concrete failing input).
d=$1; shift
w=/tmp/refac_repo_$$
rm -rf $w && cp -r /repo $w && rm -rf $w/.git
( cd $w && patch -p1 -s < $d/patch.diff ) || { echo "patch failed"; rm -rf $w; exit 2; }
for p in "$@"; do
  VERIF_REPO=$w VERIF_SEED=1 VERIF_TIER=quick /verif/check $p 2>&1 | grep "VIOLATION\|quick:\|Error" | cut -c1-300 | head -4
done
rm -rf $w
