"""Generators for C10 (and C12, C11): the life-cycle transition table (G1).

`pl/state.dot` is read with pydot exactly as `FSM.__init__` does (`graph.get_edges()`, then the
edge attributes after `FSM.construct_attributes`), `FSM.states` and the default initial state come
from the AST of `pl/state.py`.  Every `*_trigger` call site of the code base is collected with its
enclosing function; a call site the event alphabet of `Model/Fsm.lean` does not cover is an error
(the model would be incomplete), never a silent default."""
import ast
import os
import re

from tools.translate import Untranslatable, _tree, find_def

IDENT = re.compile(r'^[a-z][a-z_0-9]*$')
# callbacks whose bodies are hand-modelled in Model/Fsm.lean
KNOWN_CB = ['archive', 'load', 'navel_gaze', 'reload', 'reset', 'save_prior_state', 'start']

# (file, enclosing function, trigger) -> event of Model/Fsm.lean that stands for the call
COVERED = {
    ('pl/__main__.py', 'Start.run', 'starting_trigger'): 'Event.boot',
    ('fe/submit.py', 'Process.step_1', 'gitting_trigger'): 'Event.submitBegin',
    ('fe/submit.py', 'Process.step_3', 'running_trigger'): 'Event.submitEnd',
    ('fe/submit.py', 'Process.failure', 'running_trigger'): 'Event.submitEnd',
    ('fe/api/submit.py', 'Process.step_1', 'gitting_trigger'): 'Event.submitBegin',
    ('fe/api/submit.py', 'Process.step_3', 'running_trigger'): 'Event.submitEnd',
    ('fe/api/submit.py', 'Process.failure', 'running_trigger'): 'Event.submitEnd',
    ('pl/farm.py', 'dispatch', 'archiving_trigger'): 'Event.dispatchArchive',
    ('pl/state.py', 'FSM.wait_for_nothing', 'update_trigger'): 'Event.update',
    ('pl/state.py', 'FSM.wait_for_crew.done', 'update_trigger'): 'Event.update',
    ('pl/state.py', 'FSM.wait_for_doing.done', 'update_trigger'): 'Event.update',
    ('pl/state.py', 'FSM.wait_for_todo.done', 'update_trigger'): 'Event.update',
    ('pl/state.py', 'FSM.load.done', 'contemplation_trigger'): 'complete load',
    ('pl/state.py', 'FSM.reload.done', 'archiving_trigger'): 'complete reload',
    ('pl/state.py', 'FSM._navel_gaze', 'running_trigger'): 'complete navelGaze',
    ('pl/state.py', 'FSM._archive_done', '<prior>_trigger'): 'archiveDone',
}


def dot_edges(repo):
    """[(trigger, source, dest, before|None, after|None)] in file order, as the machine gets them"""
    try:
        import pydot
    except ImportError as e:  # pragma: no cover
        raise Untranslatable(f'pydot not importable: {e}') from e
    path = os.path.join(repo, 'Python', 'dawgie', 'pl', 'state.dot')
    try:
        graphs = pydot.graph_from_dot_file(path)
    except Exception as e:  # pylint: disable=broad-except
        raise Untranslatable(f'pl/state.dot: {e}') from e
    if not graphs:
        raise Untranslatable('pl/state.dot: not parseable')
    out = []
    for edge in graphs[0].get_edges():
        d = dict(edge.get_attributes())
        d.pop('label', None)  # FSM.construct_attributes
        if 'conditions' in d:
            raise Untranslatable('pl/state.dot: edge with `conditions` (not in the modelled subset)')
        extra = set(d) - {'trigger', 'source', 'dest', 'before', 'after'}
        if extra:
            raise Untranslatable(f'pl/state.dot: edge attributes {sorted(extra)} not in the modelled subset')
        for k in ('trigger', 'source', 'dest'):
            if k not in d:
                raise Untranslatable(f'pl/state.dot: edge {edge.get_source()}->{edge.get_destination()} lacks {k}')
        for k, v in d.items():
            if not isinstance(v, str) or not IDENT.match(v):
                raise Untranslatable(f'pl/state.dot: attribute {k}={v!r} is not a plain identifier')
        out.append((d['trigger'], d['source'], d['dest'], d.get('before'), d.get('after')))
    if not out:
        raise Untranslatable('pl/state.dot: no edges')
    return out


def fsm_states(repo):
    cls = find_def(_tree(repo, 'pl/state.py'), 'FSM')
    states = None
    for n in cls.body:
        if isinstance(n, ast.Assign) and getattr(n.targets[0], 'id', '') == 'states':
            try:
                states = ast.literal_eval(n.value)
            except ValueError as e:
                raise Untranslatable(f'FSM.states is not a literal: {e}') from e
    if not isinstance(states, list) or not all(isinstance(s, str) and IDENT.match(s) for s in states):
        raise Untranslatable(f'FSM.states not a list of identifiers: {states!r}')
    if len(set(states)) != len(states):
        raise Untranslatable('FSM.states has duplicates')
    init = None
    for n in cls.body:
        if isinstance(n, ast.FunctionDef) and n.name == '__init__':
            init = n
    if init is None:
        raise Untranslatable('FSM.__init__ not found')
    names = [a.arg for a in init.args.args]
    if 'initial_state' not in names:
        raise Untranslatable('FSM.__init__ has no initial_state parameter')
    dflt = init.args.defaults[names.index('initial_state') - (len(names) - len(init.args.defaults))]
    if not isinstance(dflt, ast.Constant) or dflt.value not in states:
        raise Untranslatable('FSM.__init__ default initial_state is not one of FSM.states')
    return states, dflt.value


class _Sites(ast.NodeVisitor):
    """collects `<expr>.<x>_trigger(...)` calls and `getattr(self, <..> + '_trigger')()` with the
    enclosing function and the `if` tests that dominate the call inside that function"""

    def __init__(self, rel):
        self.rel, self.stack, self.guards, self.sites = rel, [], [], []

    def _scope(self, node):
        saved = self.guards
        self.stack.append(node.name)
        self.guards = []
        self.generic_visit(node)
        self.stack.pop()
        self.guards = saved

    visit_FunctionDef = visit_AsyncFunctionDef = visit_ClassDef = _scope

    def visit_If(self, node):
        g = ast.unparse(node.test)
        self.visit(node.test)
        self.guards.append(g)
        for b in node.body:
            self.visit(b)
        self.guards[-1] = 'not (' + g + ')'
        for b in node.orelse:
            self.visit(b)
        self.guards.pop()

    def visit_Call(self, node):
        fn = node.func
        if isinstance(fn, ast.Attribute) and fn.attr.endswith('_trigger'):
            self.sites.append((self.rel, '.'.join(self.stack), fn.attr, ' and '.join(self.guards), node.lineno))
        elif (isinstance(fn, ast.Call) and getattr(fn.func, 'id', '') == 'getattr'
              and len(fn.args) == 2 and '_trigger' in ast.unparse(fn.args[1])):
            self.sites.append((self.rel, '.'.join(self.stack), '<prior>_trigger', ' and '.join(self.guards),
                               node.lineno))
        self.generic_visit(node)


def call_sites(repo):
    base = os.path.join(repo, 'Python', 'dawgie')
    sites = []
    for root, dirs, files in os.walk(base):
        dirs.sort()
        for f in sorted(files):
            if not f.endswith('.py'):
                continue
            rel = os.path.relpath(os.path.join(root, f), base)
            try:
                tree = ast.parse(open(os.path.join(root, f)).read())
            except SyntaxError as e:
                raise Untranslatable(f'{rel}: {e}') from e
            v = _Sites(rel)
            v.visit(tree)
            sites += v.sites
    return sites


def lean_str(s):
    return '"' + s.replace('\\', '\\\\').replace('"', '\\"') + '"'


def gen_edges(repo):
    edges = dot_edges(repo)
    states, initial = fsm_states(repo)
    triggers = []
    for t, s, d, b, a in edges:
        if not t.endswith('_trigger'):
            raise Untranslatable(f'trigger name {t!r} does not end in _trigger')
        if t[:-8] not in triggers:
            triggers.append(t[:-8])
        for x in (s, d):
            if x not in states:
                raise Untranslatable(f'edge {t}: state {x!r} not in FSM.states')
    triggers = sorted(triggers)
    tset = {t + '_trigger' for t in triggers}

    def cb(x):
        if x is None:
            return 'none'
        if x in tset:
            return f'(some (.fire .{x[:-8]}))'
        if x in KNOWN_CB:
            return f'(some .{x})'
        raise Untranslatable(f'callback {x!r} of pl/state.dot has no hand-written model')

    sites = call_sites(repo)
    for rel, q, trig, _g, line in sites:
        if (rel, q, trig) not in COVERED:
            raise Untranslatable(
                f'trigger call site {rel}:{line} {q} -> {trig} is not covered by the event alphabet of Model/Fsm.lean')
    L = ['namespace DawgieVerif.Generated.Fsm', '']
    L.append('/-- `FSM.states` of pl/state.py -/')
    L.append('inductive State where')
    L += [f'  | {s}' for s in states]
    L.append('deriving DecidableEq, Repr, Inhabited')
    L.append('')
    L.append('/-- trigger names of pl/state.dot without the `_trigger` suffix -/')
    L.append('inductive Trigger where')
    L += [f'  | {t}' for t in triggers]
    L.append('deriving DecidableEq, Repr, Inhabited')
    L.append('')
    L.append('/-- callbacks a transition may name: methods of FSM, or another trigger -/')
    L.append('inductive Cb where')
    L += [f'  | {c}' for c in KNOWN_CB]
    L.append('  | fire (t : Trigger)')
    L.append('deriving DecidableEq, Repr')
    L.append('')
    L.append('structure Edge where')
    L.append('  trigger : Trigger')
    L.append('  source : State')
    L.append('  dest : State')
    L.append('  before : Option Cb')
    L.append('  after : Option Cb')
    L.append('deriving DecidableEq, Repr')
    L.append('')
    L.append('def State.all : List State := [' + ', '.join('.' + s for s in states) + ']')
    L.append('def Trigger.all : List Trigger := [' + ', '.join('.' + t for t in triggers) + ']')
    L.append('')
    L.append('def State.name : State → String')
    L += [f'  | .{s} => "{s}"' for s in states]
    L.append('def Trigger.name : Trigger → String')
    L += [f'  | .{t} => "{t}"' for t in triggers]
    L.append('')
    L.append('/-- `getattr(self, <state name> + "_trigger")`: none where no such trigger exists -/')
    L.append('def trigOfState : State → Option Trigger')
    L += [f'  | .{s} => ' + (f'some .{s}' if s in triggers else 'none') for s in states]
    L.append('')
    L.append(f'/-- default `initial_state` of `FSM.__init__` -/')
    L.append(f'def initial : State := .{initial}')
    L.append('')
    L.append('/-- pl/state.dot, edge by edge, in file order (the order `add_transition` sees) -/')
    L.append('def edges : List Edge := [')
    rows = [f'  ⟨.{t[:-8]}, .{s}, .{d}, {cb(b)}, {cb(a)}⟩' for t, s, d, b, a in edges]
    L.append(',\n'.join(rows))
    L.append(']')
    L.append('')
    L.append('/-- every `*_trigger` call site of the code base: (file, function, trigger, guards at the site) -/')
    L.append('def callSites : List (String × String × String × String) := [')
    L.append(',\n'.join(
        f'  ({lean_str(rel)}, {lean_str(q)}, {lean_str(trig)}, {lean_str(g)})' for rel, q, trig, g, _l in sites))
    L.append(']')
    L.append('')
    L.append('end DawgieVerif.Generated.Fsm')
    return 'FsmEdges', '\n'.join(L) + '\n'


GENERATORS = [gen_edges]

MIRRORED = [
    ('pl/state.py', 'FSM'),
    ('pl/state.py', 'Status'),
    ('pl/farm.py', 'dispatch'),
    ('pl/farm.py', 'something_to_do'),
    ('fe/submit.py', 'Process.step_1'),
    ('fe/submit.py', 'Process.step_3'),
    ('fe/submit.py', 'Process.failure'),
    ('fe/api/submit.py', 'Process.step_1'),
    ('fe/api/submit.py', 'Process.step_3'),
    ('fe/api/submit.py', 'Process.failure'),
    ('pl/__main__.py', 'Start.run'),
]
