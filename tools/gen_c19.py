"""Generators for C19 (G2): everything about anonymous access that can be read off the source.

Generated/Endpoints.lean contains

* `allAccess`      the literal `all_access` list of `security.is_sanctioned`
* `isSanctioned`   the decision ladder of `security.is_sanctioned`, statement by statement
                   (`if`/`return` over: clients configured?, certificate present?,
                   endpoint in all_access?)
* `wrapperOnRaise` what `security.sanctioned` returns when the hook (or its lookup) raises,
                   read from the statement that follows the `try`
* `renderSteps`    the order of the top-level statements of `DynamicContent.__render` that
                   matter: the sanction guard and the statements that can call the handler
* `registered`     every `DynamicContent(<fn>, '<uri>', [methods])` call under `fe/`, with the
                   handler's defining module/symbol and the *mutators* reachable from the handler
                   in the front end's own call graph (what makes an endpoint a command)

Anything outside the small subset understood here raises `Untranslatable`."""
import ast
import os
import re

from tools.translate import Untranslatable, _tree, find_def

# --------------------------------------------------------------------------- helpers


def lstr(s):
    """Lean string literal"""
    out = []
    for c in s:
        if c == '\\':
            out.append('\\\\')
        elif c == '"':
            out.append('\\"')
        elif c == '\n':
            out.append('\\n')
        elif 32 <= ord(c) < 127:
            out.append(c)
        else:
            raise Untranslatable(f'non-printable character in string literal {s!r}')
    return '"' + ''.join(out) + '"'


def llist(items, indent='  '):
    if not items:
        return '[]'
    return '[\n' + ',\n'.join(indent + i for i in items) + ']'


def dotted(node):
    """`a.b.c` for Name/Attribute chains, else None"""
    parts = []
    while isinstance(node, ast.Attribute):
        parts.append(node.attr)
        node = node.value
    if isinstance(node, ast.Name):
        parts.append(node.id)
        return '.'.join(reversed(parts))
    return None


def _is_doc(stmt):
    return (
        isinstance(stmt, ast.Expr)
        and isinstance(stmt.value, ast.Constant)
        and isinstance(stmt.value.value, str)
    )


# --------------------------------------------------------------------------- is_sanctioned


class Ladder:
    """`security.is_sanctioned` -> Lean Bool expression over
    (clientsConfigured certPresent : Bool) (endpoint : String)"""

    def __init__(self, fn):
        self.fn = fn
        args = [a.arg for a in fn.args.args]
        if len(args) != 2 or fn.args.vararg or fn.args.kwarg or fn.args.kwonlyargs:
            raise Untranslatable(f'is_sanctioned: unexpected signature {args}')
        self.endpoint, self.cert = args
        self.all_access = None

    def strings(self, node):
        if not isinstance(node, ast.List):
            raise Untranslatable('is_sanctioned: all_access is not a list literal')
        out = []
        for e in node.elts:
            if not (isinstance(e, ast.Constant) and isinstance(e.value, str)):
                raise Untranslatable('is_sanctioned: non-literal entry in all_access')
            out.append(e.value)
        return out

    def test(self, e):
        if isinstance(e, ast.BoolOp):
            op = ' && ' if isinstance(e.op, ast.And) else ' || '
            return '(' + op.join(self.test(v) for v in e.values) + ')'
        if isinstance(e, ast.UnaryOp) and isinstance(e.op, ast.Not):
            return '(!' + self.test(e.operand) + ')'
        if isinstance(e, ast.Constant) and isinstance(e.value, bool):
            return 'true' if e.value else 'false'
        if isinstance(e, ast.Call) and dotted(e.func) == 'clients' and not e.args and not e.keywords:
            return 'clientsConfigured'  # truthiness of the list of client certificates
        if isinstance(e, ast.Call) and dotted(e.func) == 'use_client_verification' and not e.args:
            return 'clientsConfigured'  # bool(_certs)
        if isinstance(e, ast.Name) and e.id == self.cert:
            return 'certPresent'  # truthiness of a certificate object
        if isinstance(e, ast.Compare) and len(e.ops) == 1:
            left, op, right = e.left, e.ops[0], e.comparators[0]
            if (
                isinstance(left, ast.Name)
                and left.id == self.cert
                and isinstance(right, ast.Constant)
                and right.value is None
            ):
                if isinstance(op, (ast.Is, ast.Eq)):
                    return '(!certPresent)'
                if isinstance(op, (ast.IsNot, ast.NotEq)):
                    return 'certPresent'
            if isinstance(left, ast.Name) and left.id == self.endpoint and isinstance(
                op, (ast.In, ast.NotIn)
            ):
                if isinstance(right, ast.Name) and right.id == 'all_access':
                    if self.all_access is None:
                        raise Untranslatable('is_sanctioned: all_access used before assignment')
                    r = 'allAccess.contains endpoint'
                elif isinstance(right, (ast.List, ast.Tuple, ast.Set)):
                    r = '[' + ', '.join(lstr(s) for s in self.strings(ast.List(elts=right.elts))) + '].contains endpoint'
                else:
                    raise Untranslatable('is_sanctioned: membership in a non-literal')
                return '(' + r + ')' if isinstance(op, ast.In) else '(!(' + r + '))'
        raise Untranslatable('is_sanctioned: condition outside the subset: ' + ast.unparse(e))

    def block(self, stmts, ind):
        """statement list with fall-through to the statements that follow"""
        pad = '  ' * ind
        if not stmts:
            # falling off the end returns None, which every caller tests for truth
            return pad + 'false'
        s, rest = stmts[0], stmts[1:]
        if _is_doc(s) or isinstance(s, ast.Pass):
            return self.block(rest, ind)
        if isinstance(s, ast.Return):
            v = s.value
            if v is None or (isinstance(v, ast.Constant) and v.value is None):
                return pad + 'false'
            if isinstance(v, ast.Constant) and isinstance(v.value, bool):
                return pad + ('true' if v.value else 'false')
            return pad + self.test(v)
        if isinstance(s, ast.Assign):
            if (
                len(s.targets) == 1
                and isinstance(s.targets[0], ast.Name)
                and s.targets[0].id == 'all_access'
            ):
                if self.all_access is not None:
                    raise Untranslatable('is_sanctioned: all_access assigned twice')
                self.all_access = self.strings(s.value)
                return self.block(rest, ind)
            raise Untranslatable('is_sanctioned: assignment outside the subset: ' + ast.unparse(s)[:80])
        if isinstance(s, ast.If):
            return (
                f'{pad}if {self.test(s.test)} then\n'
                + self.block(s.body + rest, ind + 1)
                + f'\n{pad}else\n'
                + self.block(s.orelse + rest, ind + 1)
            )
        raise Untranslatable('is_sanctioned: statement outside the subset: ' + ast.unparse(s)[:80])

    def lean(self):
        body = self.block(self.fn.body, 1)
        if self.all_access is None:
            self.all_access = []
        return body


# --------------------------------------------------------------------------- sanctioned wrapper


def wrapper_on_raise(fn):
    """`security.sanctioned`: try: return <hook>(endpoint, cert) / except: <log> ; return <const>.
    Returns the constant delivered when the hook or its lookup raises."""
    body = [s for s in fn.body if not _is_doc(s) and not isinstance(s, (ast.Import, ast.ImportFrom))]
    if not body or not isinstance(body[0], ast.Try):
        raise Untranslatable('sanctioned: body does not start with try')
    t = body[0]
    if t.orelse or t.finalbody:
        raise Untranslatable('sanctioned: try has else/finally')
    if len(t.body) != 1 or not isinstance(t.body[0], ast.Return) or not isinstance(
        t.body[0].value, ast.Call
    ):
        raise Untranslatable('sanctioned: try body is not `return hook(endpoint, cert)`')
    call = t.body[0].value
    args = [a.arg for a in fn.args.args]
    if [dotted(a) for a in call.args] != args or call.keywords:
        raise Untranslatable('sanctioned: hook is not called with (endpoint, cert)')
    if not (isinstance(call.func, ast.Call) and dotted(call.func.func) == '_lookup'):
        raise Untranslatable('sanctioned: hook is not found through _lookup')
    if len(t.handlers) != 1 or t.handlers[0].type is not None:
        raise Untranslatable('sanctioned: handler is not a single bare except')
    result = None
    hbody = t.handlers[0].body
    for n in ast.walk(ast.Module(body=hbody, type_ignores=[])):
        if isinstance(n, ast.Raise):
            raise Untranslatable('sanctioned: handler re-raises')
    tail = list(hbody) + body[1:]
    for s in tail:
        if isinstance(s, ast.Return):
            if isinstance(s.value, ast.Constant) and isinstance(s.value.value, bool):
                result = s.value.value
            elif s.value is None or (isinstance(s.value, ast.Constant) and s.value.value is None):
                result = False
            else:
                raise Untranslatable('sanctioned: fallback result is not a constant')
            break
        if not (isinstance(s, ast.Expr) and isinstance(s.value, ast.Call)) and not isinstance(s, ast.Pass):
            raise Untranslatable('sanctioned: statement outside the subset: ' + ast.unparse(s)[:80])
    if result is None:
        result = False  # falls off the end: None
    return result


# --------------------------------------------------------------------------- __render


def _mentions(node, name):
    for n in ast.walk(node):
        d = dotted(n) if isinstance(n, (ast.Attribute, ast.Name)) else None
        if d == name:
            return True
    return False


def _calls(node, name):
    for n in ast.walk(node):
        if isinstance(n, ast.Call) and dotted(n.func) == name:
            return True
    return False


def _always_returns(stmts):
    if not stmts:
        return False
    last = stmts[-1]
    if isinstance(last, (ast.Return, ast.Raise)):
        return True
    if isinstance(last, ast.If):
        return _always_returns(last.body) and _always_returns(last.orelse)
    return False


def render_steps(fn):
    """Top-level statements of DynamicContent.__render as a list of steps:
    guard  = `if not dawgie.security.sanctioned(self.__uri, cert): ... return`
    call   = a statement that can invoke the handler `self.__fnc(...)`
    other  = anything else (may not mention sanctioned, may not return)"""
    steps = []
    for s in fn.body:
        if _is_doc(s):
            continue
        is_call = _calls(s, 'self.__fnc') or _calls(s, 'self._DynamicContent__fnc')
        is_san = _calls(s, 'dawgie.security.sanctioned')
        if is_san:
            ok = (
                isinstance(s, ast.If)
                and isinstance(s.test, ast.UnaryOp)
                and isinstance(s.test.op, ast.Not)
                and isinstance(s.test.operand, ast.Call)
                and dotted(s.test.operand.func) == 'dawgie.security.sanctioned'
                and len(s.test.operand.args) == 2
                and dotted(s.test.operand.args[0]) in ('self.__uri', 'self._DynamicContent__uri')
                and dotted(s.test.operand.args[1]) == 'cert'
                and not s.test.operand.keywords
                and not s.orelse
                and _always_returns(s.body)
                and not is_call
            )
            if not ok:
                raise Untranslatable('__render: the sanction check is not the guard '
                                     '`if not dawgie.security.sanctioned(self.__uri, cert): ... return`')
            steps.append('guard')
            continue
        if is_call:
            # conditional on the method list or not: both are "may call"
            steps.append('call')
            continue
        if isinstance(s, ast.Return):
            steps.append('ret')
            continue
        for n in ast.walk(s):
            if isinstance(n, ast.Return):
                raise Untranslatable('__render: early return outside the guard: ' + ast.unparse(s)[:60])
        steps.append('other')
    return steps


def cert_source(fn):
    """the certificate handed to the check must come from the transport of the request
    (`cert = request.transport.getPeerCertificate()` / `cert = None`)"""
    for n in ast.walk(fn):
        if isinstance(n, ast.Assign) and any(dotted(t) == 'cert' for t in n.targets):
            v = n.value
            if isinstance(v, ast.Constant) and v.value is None:
                continue
            if isinstance(v, ast.Call) and dotted(v.func) == 'request.transport.getPeerCertificate' and not v.args:
                continue
            raise Untranslatable('__render: cert is assigned from ' + ast.unparse(v)[:60])


# --------------------------------------------------------------------------- registrations and call graph

MUTATORS = [
    # scheduling / running work
    r'^dawgie\.pl\.schedule\.(organize|build|update|complete|purge|defer|periodics|pause|unpause|next_job_batch)$',
    # pipeline life cycle: triggers, waiters (reset), submission
    r'^dawgie\.context\.fsm\.(\w+_trigger|wait_for_\w+|submit_crossroads|set_submit_info|reset|load|reload|archive|start|navel_gaze|save_prior_state)$',
    r'^dawgie\.pl\.snapshot\.\w+$',
    r'^dawgie\.pl\.farm\.(clear|dispatch|plow|notify_all|rerunid|_put|_move)$',
    r'^dawgie\.db\.(add|archive|close|copy|open|promote|remove|reopen|reset|update|connect|gather|retreat)$',
    r'^dawgie\.tools\.submit\.(?!already_applied$|State\b|Priority\b)\w+$',
    r'^twisted\.internet\.reactor\.spawnProcess$',
    # assignment to an attribute of a dawgie module (farm.ARCHIVE |= ..., tools.submit.mail_list = ...)
    r'^store:dawgie\.',
]
_MUT = [re.compile(p) for p in MUTATORS]


def is_mutator(effect):
    return any(p.search(effect) for p in _MUT)


class Modules:
    """the front end's own modules (`dawgie.fe.*`), parsed on demand"""

    def __init__(self, repo):
        self.repo = repo
        self.cache = {}

    def rel_of(self, modname):
        if not (modname == 'dawgie.fe' or modname.startswith('dawgie.fe.')):
            return None
        base = os.path.join(self.repo, 'Python', *modname.split('.'))
        if os.path.isfile(base + '.py'):
            return os.path.relpath(base + '.py', os.path.join(self.repo, 'Python', 'dawgie'))
        if os.path.isfile(os.path.join(base, '__init__.py')):
            return os.path.relpath(os.path.join(base, '__init__.py'),
                                   os.path.join(self.repo, 'Python', 'dawgie'))
        return None

    def get(self, modname):
        if modname in self.cache:
            return self.cache[modname]
        rel = self.rel_of(modname)
        info = None
        if rel is not None:
            tree = _tree(self.repo, rel)
            pkg = modname if rel.endswith('__init__.py') else modname.rsplit('.', 1)[0]
            info = {'name': modname, 'rel': rel, 'tree': tree, 'pkg': pkg,
                    'defs': {}, 'vars': {}, 'mods': {}, 'syms': {}}
            for n in tree.body:
                if isinstance(n, (ast.FunctionDef, ast.AsyncFunctionDef, ast.ClassDef)):
                    info['defs'][n.name] = n
                elif isinstance(n, ast.Assign):
                    for t in n.targets:
                        if isinstance(t, ast.Name):
                            info['vars'][t.id] = n.value
                elif isinstance(n, ast.Import):
                    for a in n.names:
                        if a.asname:
                            info['mods'][a.asname] = a.name
                        # `import dawgie.x.y` binds `dawgie`; dotted uses are resolved textually
                elif isinstance(n, ast.ImportFrom):
                    if n.level:
                        parts = pkg.split('.')
                        base = '.'.join(parts[: len(parts) - (n.level - 1)])
                        src = base + ('.' + n.module if n.module else '')
                    else:
                        src = n.module
                    for a in n.names:
                        local = a.asname or a.name
                        full = src + '.' + a.name
                        if self.rel_of(full) is not None or (n.level and not n.module):
                            info['mods'][local] = full
                        else:
                            info['syms'][local] = (src, a.name)
        self.cache[modname] = info
        return info


class Reach:
    def __init__(self, mods):
        self.mods = mods
        self.memo = {}

    def symbol(self, modname, sym, stack=()):
        """effects reachable from module-level symbol `sym` of `modname`"""
        key = (modname, sym)
        if key in self.memo:
            return self.memo[key]
        if key in stack:
            return set()
        m = self.mods.get(modname)
        if m is None:
            return {modname + '.' + sym}
        out = set()
        stack = stack + (key,)
        if sym in m['defs']:
            out |= self.node(m, m['defs'][sym], stack)
        elif sym in m['vars']:
            out |= self.node(m, m['vars'][sym], stack)
        elif sym in m['syms']:
            src, name = m['syms'][sym]
            out |= self.symbol(src, name, stack)
        elif sym in m['mods']:
            pass
        else:
            out.add(modname + '.' + sym + '?')
        if len(stack) == 1:
            self.memo[key] = out
        return out

    def ref(self, m, d, stack):
        """a dotted reference (called or merely mentioned) seen inside module m"""
        parts = d.split('.')
        root = parts[0]
        if root in ('self', 'cls'):
            return set()  # whole class is walked anyway
        if root in m['mods']:
            target = m['mods'][root]
            rest = parts[1:]
            # longest module prefix
            while rest and self.mods.rel_of(target + '.' + rest[0]) is not None:
                target, rest = target + '.' + rest[0], rest[1:]
            if not rest:
                return set()
            if self.mods.get(target) is None:
                return {target + '.' + '.'.join(rest)}
            return self.symbol(target, rest[0], stack)
        if root in m['defs'] or root in m['vars']:
            return self.symbol(m['name'], root, stack)
        if root in m['syms']:
            src, name = m['syms'][root]
            if self.mods.get(src) is None:
                return {src + '.' + '.'.join([name] + parts[1:])}
            return self.symbol(src, name, stack)
        if root == 'dawgie' and len(parts) > 1:
            # fully qualified: inside the front end -> follow, otherwise a leaf effect
            target, rest = 'dawgie', parts[1:]
            while rest and self.mods.rel_of(target + '.' + rest[0]) is not None:
                target, rest = target + '.' + rest[0], rest[1:]
            if target != 'dawgie' and rest and self.mods.get(target) is not None:
                return self.symbol(target, rest[0], stack)
            return {d}
        return {d}

    def node(self, m, node, stack):
        out = set()
        seen = set()
        for n in ast.walk(node):
            if isinstance(n, (ast.Assign, ast.AugAssign, ast.AnnAssign)):
                targets = n.targets if isinstance(n, ast.Assign) else [n.target]
                for t in targets:
                    for tt in (t.elts if isinstance(t, (ast.Tuple, ast.List)) else [t]):
                        d = dotted(tt) if isinstance(tt, ast.Attribute) else None
                        if d and d.split('.')[0] not in ('self', 'cls'):
                            root = d.split('.')[0]
                            if root == 'dawgie' or root in m['mods']:
                                full = d if root == 'dawgie' else m['mods'][root] + d[len(root):]
                                out.add('store:' + full)
            if isinstance(n, (ast.Delete,)):
                for t in n.targets:
                    d = dotted(t) if isinstance(t, ast.Attribute) else None
                    if d and d.split('.')[0] == 'dawgie':
                        out.add('store:' + d)
            if isinstance(n, ast.Attribute) or isinstance(n, ast.Name):
                d = dotted(n)
                if d is None or d in seen:
                    continue
                seen.add(d)
                out |= self.ref(m, d, stack)
        return out


def _methods(node, where):
    if node is None:
        return ['GET']
    if not isinstance(node, (ast.List, ast.Tuple)):
        raise Untranslatable(f'{where}: method list is not a literal')
    out = []
    for e in node.elts:
        d = dotted(e)
        if not d or not d.startswith('HttpMethod.'):
            raise Untranslatable(f'{where}: method {ast.unparse(e)} is not HttpMethod.X')
        out.append(d.split('.', 1)[1])
    return out or ['GET']  # `methods if methods else [GET]`


def registrations(repo):
    mods = Modules(repo)
    reach = Reach(mods)
    fe = os.path.join(repo, 'Python', 'dawgie', 'fe')
    out = []
    files = []
    for root, _dirs, names in os.walk(fe):
        for f in sorted(names):
            if f.endswith('.py'):
                files.append(os.path.join(root, f))
    for path in sorted(files):
        rel = os.path.relpath(path, os.path.join(repo, 'Python'))
        modname = rel[:-3].replace(os.sep, '.')
        if modname.endswith('.__init__'):
            modname = modname[: -len('.__init__')]
        m = mods.get(modname)
        if m is None:
            continue
        for n in ast.walk(m['tree']):
            if not (isinstance(n, ast.Call) and dotted(n.func) in (
                    'DynamicContent', 'dawgie.fe.basis.DynamicContent', 'basis.DynamicContent')):
                continue
            where = f'{m["rel"]}:{n.lineno}'
            args = list(n.args)
            kw = {k.arg: k.value for k in n.keywords}
            if None in kw:
                raise Untranslatable(f'{where}: **kwargs in DynamicContent()')
            fnc = args[0] if args else kw.get('fnc')
            uri = args[1] if len(args) > 1 else kw.get('uri')
            meth = args[2] if len(args) > 2 else kw.get('methods')
            if fnc is None or uri is None:
                raise Untranslatable(f'{where}: DynamicContent() without handler/uri')
            if not (isinstance(uri, ast.Constant) and isinstance(uri.value, str)):
                raise Untranslatable(f'{where}: uri is not a string literal')
            hd = dotted(fnc)
            if hd is None:
                raise Untranslatable(f'{where}: handler is not a name')
            effects = reach.ref(m, hd, ((modname, '<registration>'),))
            out.append({
                'uri': uri.value,
                'methods': _methods(meth, where),
                'handler': hd,
                'module': modname,
                'effects': sorted(effects),
                'mutators': sorted(e for e in effects if is_mutator(e)),
            })
    if not out:
        raise Untranslatable('no DynamicContent registration found under fe/')
    return out


# --------------------------------------------------------------------------- the generated file


def facts(repo):
    sec = _tree(repo, 'security.py')
    lad = Ladder(find_def(sec, 'is_sanctioned'))
    ladder = lad.lean()
    return {
        'all_access': lad.all_access,
        'ladder': ladder,
        'wrapper_on_raise': wrapper_on_raise(find_def(sec, 'sanctioned')),
        'render_steps': render_steps(find_def(_tree(repo, 'fe/basis.py'), 'DynamicContent.__render')),
        'registered': registrations(repo),
    }


def gen_endpoints(repo):
    f = facts(repo)
    cert_source(find_def(_tree(repo, 'fe/basis.py'), 'DynamicContent.__render'))
    regs = []
    for r in f['registered']:
        regs.append(
            '{ uri := %s, methods := [%s], handler := %s, mutators := [%s] }'
            % (
                lstr(r['uri']),
                ', '.join(lstr(x) for x in r['methods']),
                lstr(r['module'] + ':' + r['handler']),
                ', '.join(lstr(x) for x in r['mutators']),
            )
        )
    text = (
        'namespace DawgieVerif.Generated.Endpoints\n\n'
        'structure Endpoint where\n'
        '  uri : String\n'
        '  methods : List String\n'
        '  handler : String\n'
        '  mutators : List String\n'
        'deriving DecidableEq, Repr\n\n'
        '/-- `all_access` of `security.is_sanctioned` -/\n'
        'def allAccess : List String := ' + llist([lstr(s) for s in f['all_access']]) + '\n\n'
        '/-- `security.is_sanctioned(endpoint, cert)`; `clientsConfigured` = client certificates are\n'
        '    configured (what `clients()` must be true for: the harness loads real key directories\n'
        '    with valid, mixed and all-expired certificates and compares), `certPresent` =\n'
        '    `cert is not None` -/\n'
        'def isSanctioned (clientsConfigured certPresent : Bool) (endpoint : String) : Bool :=\n'
        + f['ladder'] + '\n\n'
        '/-- what `security.sanctioned` returns when the hook or its lookup raises -/\n'
        'def wrapperOnRaise : Bool := ' + ('true' if f['wrapper_on_raise'] else 'false') + '\n\n'
        'inductive RStep where\n'
        '  | other | guard | call | ret\n'
        'deriving DecidableEq, Repr\n\n'
        '/-- top-level statements of `DynamicContent.__render`, in source order -/\n'
        'def renderSteps : List RStep := [' + ', '.join('.' + s for s in f['render_steps']) + ']\n\n'
        '/-- every `DynamicContent(fn, uri, methods)` under `fe/` -/\n'
        'def registered : List Endpoint := ' + llist(regs) + '\n\n'
        'end DawgieVerif.Generated.Endpoints\n'
    )
    return 'Endpoints', text


GENERATORS = [gen_endpoints]

MIRRORED = [
    ('fe/__init__.py', '_static'),
    ('fe/__init__.py', 'StaticContent'),
    ('fe/basis.py', 'DynamicContent'),
    ('security.py', 'is_sanctioned'),
    ('security.py', 'sanctioned'),
    ('security.py', '_lookup'),
    ('security.py', 'clients'),
]

if __name__ == '__main__':
    import json
    import sys

    repo = sys.argv[1] if len(sys.argv) > 1 else '/repo'
    fx = facts(repo)
    for r in fx['registered']:
        print(r['uri'], r['methods'], r['module'] + ':' + r['handler'])
        print('    mut:', r['mutators'])
        print('    eff:', [e for e in r['effects'] if e not in r['mutators']])
    print(json.dumps({k: v for k, v in fx.items() if k != 'registered'}, indent=1))
