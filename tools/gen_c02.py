"""C02: the scheduler model is hand written and tied by correspondence (see gen_c01); the world model
Model/Reprocess.lean mirrors, in addition, the worker side of one execution.  The fingerprints of the
mirrored Python definitions escalate the correspondence budget when they change."""
from .gen_c01 import MIRRORED as _SCHED

GENERATORS = []

MIRRORED = list(_SCHED) + [
    ('pl/worker/__init__.py', 'Context.run'),
    ('base.py', 'Task.do'),
    ('base.py', 'Task.new_values'),
    ('db/shelve/model.py', 'Interface._load'),
    ('db/shelve/model.py', 'Interface._update'),
    ('db/shelve/__init__.py', 'next'),
    ('db/util/__init__.py', 'move'),
]
