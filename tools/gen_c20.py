"""Generators for C20 (timer events): what `pl/schedule.py defer`, `tools/compliant.py rule_10` and
`dawgie.schedule` say literally, regenerated into `Generated/TimerGen.lean` on every run (G7).

* the firing window test of `defer` (`ts <= 300.0`), the retry delay while paused, the statuses
  `defer` skips / sets, the event text and the all-targets marker
* the shape of an accepted moment: the mutually exclusive fields and the count test of
  `rule_10` and of `dawgie.schedule`, and the field whose absence makes `rule_10` insist on a time
"""
import ast
from fractions import Fraction

from tools.translate import Untranslatable, _tree, find_def

SCHED = 'pl/schedule.py'
RULES = 'tools/compliant.py'
INIT = '__init__.py'

_CMP = {ast.Lt: '<', ast.LtE: '≤', ast.Gt: '>', ast.GtE: '≥'}


def _lean_str(s):
    if not isinstance(s, str) or any(c in s for c in '"\\\n'):
        raise Untranslatable(f'string constant {s!r} not representable')
    return '"' + s + '"'


def _state_names(node, where):
    """[State.a, State.b] -> ['a', 'b']"""
    out = []
    if not isinstance(node, (ast.List, ast.Tuple)):
        raise Untranslatable(f'{where}: expected a literal list of State members')
    for e in node.elts:
        if not (isinstance(e, ast.Attribute) and getattr(e.value, 'id', None) == 'State'):
            raise Untranslatable(f'{where}: {ast.unparse(e)} is not a State member')
        out.append(e.attr)
    return out


def _seconds_to_us(value, where):
    f = Fraction(str(value)) * 10 ** 6
    if f.denominator != 1:
        raise Untranslatable(f'{where}: {value!r} is not a whole number of micro-seconds')
    return int(f)


def _not_defined(fn, where):
    """fields of `not_defined = [<x>.boot is None, ...]` and the count test around it"""
    fields = None
    for n in ast.walk(fn):
        if (isinstance(n, ast.Assign) and getattr(n.targets[0], 'id', None) == 'not_defined'
                and isinstance(n.value, ast.List)):
            fields = []
            for e in n.value.elts:
                if not (isinstance(e, ast.Compare) and len(e.ops) == 1 and isinstance(e.ops[0], ast.Is)
                        and isinstance(e.comparators[0], ast.Constant) and e.comparators[0].value is None):
                    raise Untranslatable(f'{where}: not_defined element {ast.unparse(e)}')
                left = e.left
                fields.append(left.attr if isinstance(left, ast.Attribute) else getattr(left, 'id', None))
    if not fields or None in fields:
        raise Untranslatable(f'{where}: not_defined list not found')
    test = None
    for n in ast.walk(fn):
        if (isinstance(n, ast.Compare) and len(n.ops) == 1 and isinstance(n.ops[0], (ast.Eq, ast.NotEq))
                and ast.unparse(n.left) == 'sum(not_defined)'):
            test = n
    if test is None:
        raise Untranslatable(f'{where}: no comparison of sum(not_defined)')
    rhs = test.comparators[0]
    if not (isinstance(rhs, ast.BinOp) and isinstance(rhs.op, ast.Sub)
            and ast.unparse(rhs.left) == 'len(not_defined)' and isinstance(rhs.right, ast.Constant)
            and isinstance(rhs.right.value, int) and rhs.right.value >= 0):
        raise Untranslatable(f'{where}: count test {ast.unparse(test)} outside the subset')
    return fields, isinstance(test.ops[0], ast.Eq), rhs.right.value


def gen_timer(repo):
    tree = _tree(repo, SCHED)
    defer = find_def(tree, 'defer')
    # --- firing window
    due = None
    for n in ast.walk(defer):
        if (isinstance(n, ast.If) and isinstance(n.test, ast.Compare) and len(n.test.ops) == 1
                and getattr(n.test.left, 'id', None) == 'ts' and type(n.test.ops[0]) in _CMP
                and isinstance(n.test.comparators[0], ast.Constant)):
            due = n
    if due is None:
        raise Untranslatable(f'{SCHED}:defer: no `if ts <cmp> <constant>`')
    window = _seconds_to_us(due.test.comparators[0].value, f'{SCHED}:defer firing window')
    op = _CMP[type(due.test.ops[0])]
    # what the due branch does
    sets, marker, event = [], None, None
    for n in ast.walk(ast.Module(body=due.body, type_ignores=[])):
        if isinstance(n, ast.Call) and getattr(n.func, 'attr', None) == 'set' and len(n.args) == 2:
            k = n.args[0].value if isinstance(n.args[0], ast.Constant) else None
            if k == 'status' and isinstance(n.args[1], ast.Attribute):
                sets.append(n.args[1].attr)
            if k == 'event' and isinstance(n.args[1], ast.Constant):
                event = n.args[1].value
        if (isinstance(n, ast.Call) and getattr(n.func, 'attr', None) == 'add' and len(n.args) == 1
                and isinstance(n.args[0], ast.Constant) and isinstance(n.args[0].value, str)):
            marker = n.args[0].value
    if len(sets) != 1 or marker is None or event is None:
        raise Untranslatable(f'{SCHED}:defer: due branch outside the subset (status {sets}, marker {marker}, event {event})')
    # the status given to every examined node, and the statuses skipped
    armed, skips = None, None
    for n in ast.walk(defer):
        if isinstance(n, ast.For):
            for c in n.body:
                if (isinstance(c, ast.Expr) and isinstance(c.value, ast.Call)
                        and getattr(c.value.func, 'attr', None) == 'set' and len(c.value.args) == 2
                        and getattr(c.value.args[0], 'value', None) == 'status'
                        and isinstance(c.value.args[1], ast.Attribute)):
                    armed = c.value.args[1].attr
        if (isinstance(n, ast.Lambda) and isinstance(n.body, ast.Compare) and len(n.body.ops) == 1
                and isinstance(n.body.ops[0], ast.NotIn)):
            skips = _state_names(n.body.comparators[0], f'{SCHED}:defer filter')
        # the same skip written as a guard at the top of the loop: `if t.get('status') in [..]: continue`
        if (isinstance(n, ast.For) and n.body and isinstance(n.body[0], ast.If) and not n.body[0].orelse
                and len(n.body[0].body) == 1 and isinstance(n.body[0].body[0], ast.Continue)
                and isinstance(n.body[0].test, ast.Compare) and len(n.body[0].test.ops) == 1
                and isinstance(n.body[0].test.ops[0], ast.In) and isinstance(n.target, ast.Name)
                and ast.unparse(n.body[0].test.left) == f"{n.target.id}.get('status')"):
            skips = _state_names(n.body[0].test.comparators[0], f'{SCHED}:defer guard')
    if armed is None or skips is None:
        raise Untranslatable(f'{SCHED}:defer: filter / armed status not found')
    # paused retry
    retry = None
    for n in defer.body:
        if isinstance(n, ast.If) and 'is_paused' in ast.unparse(n.test):
            for c in ast.walk(n):
                if (isinstance(c, ast.Call) and getattr(c.func, 'attr', None) == 'callLater' and c.args
                        and isinstance(c.args[0], ast.Constant)):
                    retry = c.args[0].value
                # ... or a module-level helper that arms the timer with its parameter: helper(<int>, ..)
                if (retry is None and isinstance(c, ast.Call) and isinstance(c.func, ast.Name) and c.args
                        and isinstance(c.args[0], ast.Constant)):
                    for h in tree.body:
                        if isinstance(h, ast.FunctionDef) and h.name == c.func.id and h.args.args:
                            first = h.args.args[0].arg
                            if any(isinstance(x, ast.Call) and getattr(x.func, 'attr', None) == 'callLater' and x.args
                                   and getattr(x.args[0], 'id', None) == first for x in ast.walk(h)):
                                retry = c.args[0].value
    if not isinstance(retry, int):
        raise Untranslatable(f'{SCHED}:defer: paused retry delay not found')
    # --- accepted shapes
    r10 = find_def(_tree(repo, RULES), 'rule_10')
    f10, eq10, off10 = _not_defined(r10, f'{RULES}:rule_10')
    if not eq10:
        raise Untranslatable(f'{RULES}:rule_10: count test is not an equality')
    guard = None
    for n in ast.walk(r10):
        if (isinstance(n, ast.If) and isinstance(n.test, ast.Compare) and isinstance(n.test.ops[0], ast.Is)
                and isinstance(n.test.left, ast.Attribute) and 'isinstance' in ast.unparse(n.body[0])
                and 'time' in ast.unparse(n.body[0])):
            guard = n.test.left.attr
    if guard is None:
        raise Untranslatable(f'{RULES}:rule_10: time check not found')
    fs, eqs, offs = _not_defined(find_def(_tree(repo, INIT), 'schedule'), f'{INIT}:schedule')
    if eqs:
        raise Untranslatable(f'{INIT}:schedule: count test is not `!=` guarding a raise')

    def strs(xs):
        return '[' + ', '.join(_lean_str(x) for x in xs) + ']'

    text = (
        'namespace DawgieVerif.Generated.Timer\n'
        '/-- `if ts <= 300.0` of `defer`, in micro-seconds -/\n'
        f'def due (us : Int) : Bool := decide (us {op} {window})\n'
        '/-- `callLater(<n>, defer)` while the pipeline is paused -/\n'
        f'def pausedRetry : Int := {retry}\n'
        '/-- statuses `defer` leaves alone, the status it gives an examined node, and what a due node gets -/\n'
        f'def deferSkips : List String := {strs(skips)}\n'
        f'def armedStatus : String := {_lean_str(armed)}\n'
        f'def queuedStatus : String := {_lean_str(sets[0])}\n'
        f'def queuedEvent : String := {_lean_str(event)}\n'
        f'def allMarker : String := {_lean_str(marker)}\n'
        '/-- `tools.compliant.rule_10`: `sum(not_defined) == len(not_defined) - k` over these fields; a time\n'
        '    is demanded when the guard field is None -/\n'
        f'def rule10Fields : List String := {strs(f10)}\n'
        f'def rule10Count (noneCount total : Nat) : Bool := noneCount == total - {off10}\n'
        f'def rule10TimeGuard : String := {_lean_str(guard)}\n'
        '/-- `dawgie.schedule` raises unless the same count holds -/\n'
        f'def scheduleFields : List String := {strs(fs)}\n'
        f'def scheduleCount (noneCount total : Nat) : Bool := noneCount == total - {offs}\n'
        'end DawgieVerif.Generated.Timer\n'
    )
    return 'TimerGen', text


GENERATORS = [gen_timer]

MIRRORED = [
    (SCHED, '_delay'),
    (SCHED, 'defer'),
    (SCHED, 'periodics'),
    (SCHED, 'complete'),
    (SCHED, '_prune'),
    (RULES, 'rule_10'),
    (INIT, 'schedule'),
]
