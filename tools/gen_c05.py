"""C05: the scheduler model is hand written (see gen_c01); in addition the outcome table of the worker --
which answer `pl.worker.cluster.execute` sends for which ending of the algorithm -- is regenerated from
the AST of `execute`.

Subset understood: inside `execute`, one `try` statement whose body ends with an assignment
`m = dawgie.pl.message.make(..., suc=<True|False|None>, ...)`, `except` handlers that are bare, or name
exception classes (a name / attribute or a tuple of them), each assigning `m = ...make(..., suc=<const>)`,
and a `finally` block that sends `m`.  Anything else raises Untranslatable."""
import ast

from tools.gen_c01 import MIRRORED as _SCHED
from tools.translate import Untranslatable, _tree, find_def

MIRRORED = list(_SCHED) + [('pl/worker/cluster.py', 'execute')]


def _suc(stmts, where):
    """the `suc=` constant of the last `m = ...make(...)` assignment among stmts"""
    for st in reversed(stmts):
        if (isinstance(st, ast.Assign) and len(st.targets) == 1 and getattr(st.targets[0], 'id', '') == 'm'
                and isinstance(st.value, ast.Call) and ast.unparse(st.value.func).endswith('message.make')):
            for kw in st.value.keywords:
                if kw.arg == 'suc':
                    if not isinstance(kw.value, ast.Constant) or kw.value.value not in (True, False, None):
                        raise Untranslatable(f'cluster.execute: suc= of the {where} is not True/False/None')
                    return {True: '.success', False: '.failure', None: '.invalid'}[kw.value.value]
            raise Untranslatable(f'cluster.execute: the answer of the {where} has no suc=')
    return None


def _classes(node):
    if node is None:
        return '.bare'
    items = node.elts if isinstance(node, ast.Tuple) else [node]
    out = []
    for it in items:
        name = ast.unparse(it).split('.')[-1]
        known = {'NoValidInputDataError': '.invalidIn', 'NoValidOutputDataError': '.invalidOut',
                 'Exception': None, 'BaseException': None}
        if name not in known:
            raise Untranslatable(f'cluster.execute: handler for an exception class outside the subset: {name}')
        if name == 'Exception':
            return '.exceptions'
        if name == 'BaseException':
            return '.bare'
        out.append(known[name])
    return '.classes [' + ', '.join(out) + ']'


def gen_worker(repo):
    fn = find_def(_tree(repo, 'pl/worker/cluster.py'), 'execute')
    tries = [n for n in ast.walk(fn) if isinstance(n, ast.Try)]
    if len(tries) != 1:
        raise Untranslatable(f'cluster.execute: {len(tries)} try statements (expected one)')
    tr = tries[0]
    body = _suc(tr.body, 'try body')
    if body is None:
        raise Untranslatable('cluster.execute: the try body does not build an answer')
    hs = []
    for h in tr.handlers:
        s = _suc(h.body, 'handler')
        if s is None:
            raise Untranslatable('cluster.execute: a handler does not build an answer')
        hs.append(f'({_classes(h.type)}, {s})')
    sends = any(isinstance(n, ast.Call) and ast.unparse(n.func).endswith('message.send')
                and n.args and getattr(n.args[0], 'id', '') == 'm' for st in tr.finalbody for n in ast.walk(st))
    if not sends:
        raise Untranslatable('cluster.execute: the finally block does not send the answer')
    L = ['import DawgieVerif.Model.Worker', '', 'namespace DawgieVerif.Generated.WorkerGen',
         'open DawgieVerif.Worker', '',
         '/-- the answer built when the algorithm returns normally -/',
         f'def bodyAnswer : Outcome := {body}', '',
         '/-- the `except` clauses of `pl.worker.cluster.execute`, in order: what they catch, what they answer -/',
         'def handlers : List (Catch × Outcome) := [' + ', '.join(hs) + ']', '',
         'end DawgieVerif.Generated.WorkerGen', '']
    return 'WorkerGen', '\n'.join(L)


GENERATORS = [gen_worker]
