"""C05: the scheduler model is hand written (see gen_c01); in addition the outcome table of the worker --
which answer `pl.worker.cluster.execute` sends for which ending of the algorithm -- is regenerated from
the AST of `execute`.

Subset understood: inside `execute`, one `try` statement whose body ends with an assignment
`m = dawgie.pl.message.make(..., suc=<True|False|None>, ...)`, `except` handlers that are bare, or name
exception classes (a name / attribute or a tuple of them), each assigning `m = ...make(..., suc=<const>)`,
and a `finally` block that sends `m`.  Anything else raises Untranslatable."""
import ast

from tools.gen_c01 import MIRRORED as _SCHED
from tools.translate import Untranslatable, _tree, find_def

MIRRORED = list(_SCHED) + [('pl/worker/cluster.py', 'execute'), ('pl/farm.py', 'Hand._translate')]


def _const(node, where):
    if not isinstance(node, ast.Constant) or node.value not in (True, False, None):
        raise Untranslatable(f'cluster.execute: suc= of the {where} is not True/False/None')
    return {True: '.success', False: '.failure', None: '.invalid'}[node.value]


def _suc(stmts, where, module=None):
    """the `suc=` constant of the last `m = ...make(...)` assignment among stmts; the message may also be built by
    a module-level helper that returns `...make(..., suc=<parameter>, ...)`"""
    for st in reversed(stmts):
        if not (isinstance(st, ast.Assign) and len(st.targets) == 1 and getattr(st.targets[0], 'id', '') == 'm'
                and isinstance(st.value, ast.Call)):
            continue
        call = st.value
        if ast.unparse(call.func).endswith('message.make'):
            for kw in call.keywords:
                if kw.arg == 'suc':
                    return _const(kw.value, where)
            raise Untranslatable(f'cluster.execute: the answer of the {where} has no suc=')
        if isinstance(call.func, ast.Name) and module is not None:
            helper = [d for d in module.body if isinstance(d, ast.FunctionDef) and d.name == call.func.id]
            rets = [r for d in helper for r in ast.walk(d) if isinstance(r, ast.Return)]
            if (len(helper) == 1 and len(rets) == 1 and isinstance(rets[0].value, ast.Call)
                    and ast.unparse(rets[0].value.func).endswith('message.make') and rets[0] is helper[0].body[-1]
                    and all(isinstance(x, ast.Expr) and isinstance(x.value, ast.Constant) for x in helper[0].body[:-1])):
                h = helper[0]
                if h.args.vararg or h.args.kwarg or h.args.kwonlyargs or h.args.posonlyargs:
                    raise Untranslatable(f'cluster.execute: helper {h.name} has a signature outside the subset')
                params = [a.arg for a in h.args.args]
                bound = dict(zip(params, call.args))
                bound.update({kw.arg: kw.value for kw in call.keywords})
                defaults = dict(zip(params[len(params) - len(h.args.defaults):], h.args.defaults))
                for kw in rets[0].value.keywords:
                    if kw.arg == 'suc':
                        v = kw.value
                        if isinstance(v, ast.Name) and v.id in params:
                            v = bound.get(v.id, defaults.get(v.id))
                            if v is None:
                                raise Untranslatable(f'cluster.execute: {h.name} called without its success argument')
                        return _const(v, where)
                raise Untranslatable(f'cluster.execute: the answer built by {h.name} has no suc=')
    return None


def _classes(node):
    if node is None:
        return '.bare'
    items = node.elts if isinstance(node, ast.Tuple) else [node]
    out = []
    for it in items:
        name = ast.unparse(it).split('.')[-1]
        known = {'NoValidInputDataError': '.invalidIn', 'NoValidOutputDataError': '.invalidOut',
                 'Exception': None, 'BaseException': None}
        if name not in known:
            raise Untranslatable(f'cluster.execute: handler for an exception class outside the subset: {name}')
        if name == 'Exception':
            return '.exceptions'
        if name == 'BaseException':
            return '.bare'
        out.append(known[name])
    return '.classes [' + ', '.join(out) + ']'


def gen_worker(repo):
    module = _tree(repo, 'pl/worker/cluster.py')
    fn = find_def(module, 'execute')
    tries = [n for n in ast.walk(fn) if isinstance(n, ast.Try)]
    if len(tries) != 1:
        raise Untranslatable(f'cluster.execute: {len(tries)} try statements (expected one)')
    tr = tries[0]
    body = _suc(tr.body, 'try body', module)
    if body is None:
        raise Untranslatable('cluster.execute: the try body does not build an answer')
    hs = []
    for h in tr.handlers:
        s = _suc(h.body, 'handler', module)
        if s is None:
            raise Untranslatable('cluster.execute: a handler does not build an answer')
        hs.append(f'({_classes(h.type)}, {s})')
    sends = any(isinstance(n, ast.Call) and ast.unparse(n.func).endswith('message.send')
                and n.args and getattr(n.args[0], 'id', '') == 'm' for st in tr.finalbody for n in ast.walk(st))
    if not sends:
        raise Untranslatable('cluster.execute: the finally block does not send the answer')
    L = ['import DawgieVerif.Model.Worker', '', 'namespace DawgieVerif.Generated.WorkerGen',
         'open DawgieVerif.Worker', '',
         '/-- the answer built when the algorithm returns normally -/',
         f'def bodyAnswer : Outcome := {body}', '',
         '/-- the `except` clauses of `pl.worker.cluster.execute`, in order: what they catch, what they answer -/',
         'def handlers : List (Catch × Outcome) := [' + ', '.join(hs) + ']', '',
         'end DawgieVerif.Generated.WorkerGen', '']
    return 'WorkerGen', '\n'.join(L)


_STATE = {'success': '.success', 'failure': '.failure', 'invalid': '.invalid'}


def _state(node, where):
    name = ast.unparse(node).split('.')[-1]
    if not ast.unparse(node).endswith('State.' + name) or name not in _STATE:
        raise Untranslatable(f'farm.Hand.{where}: not a schedule.State constant: {ast.unparse(node)}')
    return _STATE[name]


def _test(node, arg):
    if isinstance(node, ast.Name) and node.id == arg:
        return '.truthy'
    if isinstance(node, ast.UnaryOp) and isinstance(node.op, ast.Not) and getattr(node.operand, 'id', '') == arg:
        return '.falsy'
    if (isinstance(node, ast.Compare) and getattr(node.left, 'id', '') == arg and len(node.ops) == 1
            and isinstance(node.comparators[0], ast.Constant) and node.comparators[0].value is None):
        if isinstance(node.ops[0], ast.Is):
            return '.isNone'
        if isinstance(node.ops[0], ast.IsNot):
            return '.isNotNone'
    raise Untranslatable(f'farm.Hand._translate: test outside the subset: {ast.unparse(node)}')


_FIND = 'dawgie.pl.schedule.find(msg.jobid)'
_INC = "msg.incarnation if msg.incarnation else '__all__'"
_STATEX = 'Hand._translate(msg.success)'
_ARGS = {'complete': [_FIND, 'msg.runid', _INC, 'msg.timing', _STATEX],
         'update': ['msg.values', _FIND, 'msg.runid'], 'purge': [_FIND, _INC]}


def _resolve(node, env):
    """source text of an expression with local names replaced by what they were assigned"""
    class Sub(ast.NodeTransformer):
        def visit_Name(self, n):   # pylint: disable=invalid-name
            return env.get(n.id, n)
    import copy
    return ast.unparse(Sub().visit(copy.deepcopy(node)))


def _sched_calls(stmts, where, env):
    """the schedule.complete/update/purge calls among stmts, in order; stmts may only be expression statements,
    (aug)assignments and `pass`; simple local assignments are recorded in env"""
    acts = []
    for st in stmts:
        if isinstance(st, (ast.Pass, ast.Assign, ast.AugAssign, ast.AnnAssign)):
            if any(isinstance(n, ast.Call) and 'schedule.' in ast.unparse(n.func)
                   and ast.unparse(n.func).split('.')[-1] in ('complete', 'update', 'purge') for n in ast.walk(st)):
                raise Untranslatable(f'farm.Hand._res: scheduler call inside an assignment ({where})')
            if isinstance(st, ast.Assign) and len(st.targets) == 1 and isinstance(st.targets[0], ast.Name):
                env[st.targets[0].id] = ast.parse(_resolve(st.value, env), mode='eval').body
            continue
        if isinstance(st, ast.Expr) and isinstance(st.value, ast.Call):
            fn = ast.unparse(st.value.func)
            name = fn.split('.')[-1]
            if fn.endswith('schedule.' + name) and name in ('complete', 'update', 'purge'):
                args = [_resolve(a, env) for a in st.value.args]
                if args != _ARGS[name] or st.value.keywords:
                    raise Untranslatable(f'farm.Hand._res: {name}({", ".join(args)}) -- arguments outside the subset')
                acts.append('.' + name)
            continue   # logging and the like
        if isinstance(st, ast.Expr) and isinstance(st.value, ast.Constant):
            continue
        raise Untranslatable(f'farm.Hand._res: statement outside the subset ({where}): {ast.unparse(st)[:60]}')
    return acts


def gen_hand(repo):
    tree = _tree(repo, 'pl/farm.py')
    tr_fn = find_def(tree, 'Hand._translate')
    arg = tr_fn.args.args[0].arg
    clauses, dflt = [], None
    body = [st for st in tr_fn.body if not (isinstance(st, ast.Expr) and isinstance(st.value, ast.Constant))]
    # `if a: r = X elif b: r = Y else: r = Z; return r` is the same ladder as the early returns
    if (len(body) == 2 and isinstance(body[0], ast.If) and isinstance(body[1], ast.Return)
            and isinstance(body[1].value, ast.Name)):
        var, node, flat = body[1].value.id, body[0], []
        while True:
            if not (len(node.body) == 1 and isinstance(node.body[0], ast.Assign) and len(node.body[0].targets) == 1
                    and getattr(node.body[0].targets[0], 'id', '') == var):
                raise Untranslatable('farm.Hand._translate: a branch does more than assign the result')
            flat.append(ast.If(test=node.test, body=[ast.Return(value=node.body[0].value)], orelse=[]))
            if len(node.orelse) == 1 and isinstance(node.orelse[0], ast.If):
                node = node.orelse[0]
                continue
            if not (len(node.orelse) == 1 and isinstance(node.orelse[0], ast.Assign)
                    and getattr(node.orelse[0].targets[0], 'id', '') == var):
                raise Untranslatable('farm.Hand._translate: the final else does not assign the result')
            flat.append(ast.Return(value=node.orelse[0].value))
            break
        body = flat
    for st in body:
        if dflt is not None:
            raise Untranslatable('farm.Hand._translate: statements after the final return')
        if isinstance(st, ast.If) and not st.orelse and len(st.body) == 1 and isinstance(st.body[0], ast.Return):
            clauses.append(f'({_test(st.test, arg)}, {_state(st.body[0].value, "_translate")})')
        elif isinstance(st, ast.Return) and st.value is not None:
            dflt = _state(st.value, '_translate')
        else:
            raise Untranslatable(f'farm.Hand._translate: statement outside the subset: {ast.unparse(st)[:60]}')
    if dflt is None:
        raise Untranslatable('farm.Hand._translate: no final return')
    fn = find_def(tree, 'Hand._res')
    tries = [n for n in ast.walk(fn) if isinstance(n, ast.Try)]
    if len(tries) != 1:
        raise Untranslatable(f'farm.Hand._res: {len(tries)} try statements (expected one)')
    tr = tries[0]
    env = {}
    for st in fn.body:     # simple assignments before the try (e.g. the incarnation computed once)
        if st is tr:
            break
        if isinstance(st, ast.Assign) and len(st.targets) == 1 and isinstance(st.targets[0], ast.Name):
            env[st.targets[0].id] = ast.parse(_resolve(st.value, env), mode='eval').body
    for h in tr.handlers:
        if h.type is None or ast.unparse(h.type) != 'IndexError':
            raise Untranslatable('farm.Hand._res: a handler other than `except IndexError`')
        if _sched_calls([s for s in h.body if not isinstance(s, ast.Return)], 'handler', dict(env)):
            raise Untranslatable('farm.Hand._res: scheduler calls inside the IndexError handler')
    if tr.finalbody or tr.orelse:
        raise Untranslatable('farm.Hand._res: finally/else on the try')
    pre, branch = [], None
    for st in tr.body:
        if isinstance(st, ast.If):
            if branch is not None:
                raise Untranslatable('farm.Hand._res: more than one branch on the state')
            t = st.test
            if not (isinstance(t, ast.Compare) and _resolve(t.left, env) == _STATEX and len(t.ops) == 1
                    and isinstance(t.ops[0], ast.Eq)):
                raise Untranslatable(f'farm.Hand._res: branch test outside the subset: {ast.unparse(t)}')
            branch = (_state(t.comparators[0], '_res'), _sched_calls(st.body, 'then', dict(env)),
                      _sched_calls(st.orelse, 'else', dict(env)))
        else:
            acts = _sched_calls([st], 'try body', env)
            if acts and branch is not None:
                raise Untranslatable('farm.Hand._res: unconditional scheduler call after the branch')
            pre += acts
    if branch is None:
        branch = ('.success', [], [])
    lst = lambda xs: '[' + ', '.join(xs) + ']'   # noqa: E731
    L = ['import DawgieVerif.Model.Hand', '', 'namespace DawgieVerif.Generated.HandGen',
         'open DawgieVerif.Sched DawgieVerif.Hand', '',
         '/-- the `if .. return` clauses of `farm.Hand._translate`, in order -/',
         'def clauses : List (Test × Outcome) := ' + lst(clauses), '',
         '/-- its final `return` -/', f'def dflt : Outcome := {dflt}', '',
         '/-- scheduler calls `farm.Hand._res` makes for every state, in order -/',
         'def pre : List Act := ' + lst(pre), '',
         '/-- the state its `if state == ..:` compares with, the calls under it, the calls under `else:` -/',
         f'def cmp : Outcome := {branch[0]}', 'def thenA : List Act := ' + lst(branch[1]),
         'def elseA : List Act := ' + lst(branch[2]), '', 'end DawgieVerif.Generated.HandGen', '']
    return 'HandGen', '\n'.join(L)


from tools.gen_schednodes import gen_schednodes  # noqa: E402  pylint: disable=wrong-import-position

GENERATORS = [gen_worker, gen_hand, gen_schednodes]
