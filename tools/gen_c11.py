"""C11: hand written farm model tied by correspondence; fingerprints of the mirrored definitions."""
GENERATORS = []

MIRRORED = [
    ('pl/farm.py', 'Hand._reg'),
    ('pl/farm.py', 'Hand._process'),
    ('pl/farm.py', 'Hand.connectionLost'),
    ('pl/farm.py', 'Hand.do'),
    ('pl/farm.py', 'Hand.notify'),
    ('pl/farm.py', 'Hand._res'),
    ('pl/farm.py', 'dispatch'),
    ('pl/farm.py', 'notify_all'),
    ('pl/farm.py', 'clear'),
    ('pl/farm.py', 'crew'),
    ('pl/farm.py', 'something_to_do'),
    ('pl/farm.py', '_cluster_sort'),
    ('pl/farm.py', '_workers_sort'),
    ('pl/farm.py', 'rerunid'),
    ('pl/farm.py', '_put'),
]
