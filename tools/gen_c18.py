"""Generators for C18 (execution history): what `pl/logger/chronicle.py` and the two API handlers
say literally, regenerated into `Generated/ChronicleGen.lean` on every run (G7).

* the key list `append` insists on, the two status words of `_load`
* the keep-predicate of `_load` (`after < completed < before and entry['status'] == status`),
  translated expression by expression, so that `<` vs `<=` or a dropped status test changes the
  definition the theorems are checked against
* the 1980 floor of `find`, the two `timedelta` steps of its day walk
* the tuple of `_most_recent_first`
* which of their own arguments `fe.api.schedule.failed/succeeded` hand on to `chronicle.find`
"""
import ast

from tools.translate import Untranslatable, _tree, find_def

CHRON = 'pl/logger/chronicle.py'
API = 'fe/api/schedule.py'

_CMP = {ast.Lt: '<', ast.LtE: '≤', ast.Gt: '>', ast.GtE: '≥'}


def _lean_str(s):
    if not isinstance(s, str) or any(c in s for c in '"\\\n'):
        raise Untranslatable(f'string constant {s!r} not representable')
    return '"' + s + '"'


def _keep_expr(node, names):
    """boolean expression of `_load` -> Lean Bool term.  `names` maps Python sub-expressions
    (by `ast.dump`) to (Lean variable, kind) with kind in {'int', 'str'}."""

    def atom(n):
        k = ast.dump(n)
        if k not in names:
            raise Untranslatable(f'{CHRON}:_load: operand {ast.unparse(n)!r} outside the subset')
        return names[k]

    if isinstance(node, ast.BoolOp):
        op = ' && ' if isinstance(node.op, ast.And) else ' || '
        return '(' + op.join(_keep_expr(v, names) for v in node.values) + ')'
    if isinstance(node, ast.UnaryOp) and isinstance(node.op, ast.Not):
        return '(!' + _keep_expr(node.operand, names) + ')'
    if isinstance(node, ast.Compare):
        parts, left = [], node.left
        for op, right in zip(node.ops, node.comparators):
            (lv, lk), (rv, rk) = atom(left), atom(right)
            if lk != rk:
                raise Untranslatable(f'{CHRON}:_load: comparison of {lk} with {rk}')
            if type(op) in _CMP and lk == 'int':
                parts.append(f'decide ({lv} {_CMP[type(op)]} {rv})')
            elif isinstance(op, ast.Eq):
                parts.append(f'({lv} == {rv})')
            elif isinstance(op, ast.NotEq):
                parts.append(f'({lv} != {rv})')
            else:
                raise Untranslatable(f'{CHRON}:_load: operator {type(op).__name__} on {lk}')
            left = right
        return '(' + ' && '.join(parts) + ')'
    raise Untranslatable(f'{CHRON}:_load: expression {ast.unparse(node)!r} outside the subset')


def _sub(name, *keys):
    n = ast.Name(id=name, ctx=ast.Load())
    for k in keys:
        n = ast.Subscript(value=n, slice=ast.Constant(value=k), ctx=ast.Load())
    return ast.dump(n)


def _timedelta_us(call, where):
    if not (isinstance(call, ast.Call) and getattr(call.func, 'id', None) == 'timedelta'
            and not call.args and len(call.keywords) == 1
            and isinstance(call.keywords[0].value, ast.Constant)
            and isinstance(call.keywords[0].value.value, int)):
        raise Untranslatable(f'{CHRON}:find: {where} is not timedelta(<unit>=<int>)')
    unit = {'days': 86400000000, 'seconds': 1000000, 'hours': 3600000000, 'minutes': 60000000,
            'microseconds': 1, 'milliseconds': 1000, 'weeks': 604800000000}
    kw = call.keywords[0]
    if kw.arg not in unit:
        raise Untranslatable(f'{CHRON}:find: timedelta unit {kw.arg}')
    return kw.value.value * unit[kw.arg]


def gen_chronicle(repo):
    tree = _tree(repo, CHRON)
    # --- append: required keys
    app = find_def(tree, 'append')
    keys = None

    def _strs(n):
        if isinstance(n, (ast.List, ast.Tuple)) and n.elts and all(
            isinstance(e, ast.Constant) and isinstance(e.value, str) for e in n.elts
        ):
            return [e.value for e in n.elts]
        return None
    consts = {st.targets[0].id: _strs(st.value) for st in tree.body
              if isinstance(st, ast.Assign) and len(st.targets) == 1 and isinstance(st.targets[0], ast.Name)
              and _strs(st.value)}
    for n in ast.walk(app):
        # the sequence the `all(key in entry for key in <seq>)` test ranges over: a literal, or a module constant
        if isinstance(n, ast.comprehension):
            keys = _strs(n.iter) or (consts.get(n.iter.id) if isinstance(n.iter, ast.Name) else None)
            if keys:
                break
    if keys is None:
        for n in ast.walk(app):
            if _strs(n):
                keys = _strs(n)
                break
    if keys is None:
        raise Untranslatable(f'{CHRON}:append: no literal key list')
    # --- _load: status words and the keep predicate
    load = find_def(tree, '_load')
    status = None
    keep = None
    for n in ast.walk(load):
        if (isinstance(n, ast.Assign) and getattr(n.targets[0], 'id', None) == 'status'
                and isinstance(n.value, ast.IfExp) and getattr(n.value.test, 'id', None) == 'succeeded'
                and isinstance(n.value.body, ast.Constant) and isinstance(n.value.orelse, ast.Constant)):
            status = (n.value.body.value, n.value.orelse.value)
        if isinstance(n, ast.If) and any(
            isinstance(c, ast.Expr) and isinstance(c.value, ast.Call)
            and getattr(c.value.func, 'attr', None) == 'append' for c in n.body
        ):
            keep = n.test
    # the keep test may live in a module-level predicate: `if pred(entry, after, before, status):` with
    # `completed = datetime.fromisoformat(..); return <test>` inside; read its return expression instead
    if isinstance(keep, ast.Call) and isinstance(keep.func, ast.Name) and not keep.keywords \
            and all(isinstance(a, ast.Name) for a in keep.args):
        hs = [d for d in tree.body if isinstance(d, ast.FunctionDef) and d.name == keep.func.id]
        if len(hs) == 1 and len(hs[0].args.args) == len(keep.args):
            import copy
            bind = {p.arg: a.id for p, a in zip(hs[0].args.args, keep.args)}
            body = [x for x in hs[0].body if not (isinstance(x, ast.Expr) and isinstance(x.value, ast.Constant))]
            if not (body and isinstance(body[-1], ast.Return) and all(
                    isinstance(x, ast.Assign) and len(x.targets) == 1 and isinstance(x.targets[0], ast.Name)
                    and 'fromisoformat' in ast.unparse(x.value) for x in body[:-1])):
                raise Untranslatable(f'{CHRON}:_load: predicate {keep.func.id} outside the subset')
            for x in body[:-1]:
                bind[x.targets[0].id] = 'completed'

            class Sub(ast.NodeTransformer):
                def visit_Name(self, n):   # pylint: disable=invalid-name
                    return ast.Name(id=bind.get(n.id, n.id), ctx=n.ctx)
            keep = Sub().visit(copy.deepcopy(body[-1].value))
    if status is None:
        raise Untranslatable(f"{CHRON}:_load: `status = <word> if succeeded else <word>` not found")
    if keep is None:
        raise Untranslatable(f'{CHRON}:_load: no `if <keep>: entries.append(entry)`')
    args = [a.arg for a in load.args.args]
    if args[:2] != ['after', 'before']:
        raise Untranslatable(f'{CHRON}:_load: parameters {args}')
    names = {
        ast.dump(ast.Name(id='after', ctx=ast.Load())): ('after', 'int'),
        ast.dump(ast.Name(id='before', ctx=ast.Load())): ('before', 'int'),
        ast.dump(ast.Name(id='completed', ctx=ast.Load())): ('completed', 'int'),
        ast.dump(ast.Name(id='status', ctx=ast.Load())): ('status', 'str'),
        _sub('entry', 'status'): ('entryStatus', 'str'),
    }
    keep_lean = _keep_expr(keep, names)
    # --- _most_recent_first
    mrf = find_def(tree, '_most_recent_first')
    ret = [n for n in ast.walk(mrf) if isinstance(n, ast.Return)]
    if len(ret) != 1 or not isinstance(ret[0].value, ast.Tuple):
        raise Untranslatable(f'{CHRON}:_most_recent_first: not a single tuple')
    fields = []
    for e in ret[0].value.elts:
        while isinstance(e, ast.Call) and getattr(e.func, 'id', None) == 'int' and len(e.args) == 1:
            e = e.args[0]
        path = []
        while isinstance(e, ast.Subscript) and isinstance(e.slice, ast.Constant):
            path.append(e.slice.value)
            e = e.value
        if not (isinstance(e, ast.Name) and path):
            raise Untranslatable(f'{CHRON}:_most_recent_first: element outside the subset')
        fields.append(path[0])
    # --- find: floor, steps
    fnd = find_def(tree, 'find')
    floors = set()
    for n in ast.walk(fnd):
        if (isinstance(n, ast.Call) and getattr(n.func, 'id', None) == 'datetime'
                and len(n.args) == 3 and all(isinstance(a, ast.Constant) for a in n.args)):
            floors.add(tuple(a.value for a in n.args))
    if len(floors) != 1:
        raise Untranslatable(f'{CHRON}:find: floor constants {sorted(floors)}')
    fy, fm, fd = floors.pop()
    # the two steps of the day walk, whatever the locals are called: `before - <day step>` and
    # `datetime(...) - <skip step>`
    tds = {n.targets[0].id: n.value for n in ast.walk(fnd)
           if isinstance(n, ast.Assign) and isinstance(n.targets[0], ast.Name)
           and isinstance(n.value, ast.Call) and getattr(n.value.func, 'id', None) == 'timedelta'}
    day_names, skip_names = set(), set()
    for n in ast.walk(fnd):
        if isinstance(n, ast.BinOp) and isinstance(n.op, ast.Sub) and isinstance(n.right, ast.Name) \
                and n.right.id in tds:
            if isinstance(n.left, ast.Name):
                day_names.add(n.right.id)
            elif isinstance(n.left, ast.Call) and getattr(n.left.func, 'id', None) == 'datetime':
                skip_names.add(n.right.id)
            else:
                raise Untranslatable(f'{CHRON}:find: step expression {ast.unparse(n)} outside the subset')
    if len(day_names) != 1 or len(skip_names) != 1:
        raise Untranslatable(f'{CHRON}:find: day step {sorted(day_names)} / skip step {sorted(skip_names)} not unique')
    steps = {'oneday': _timedelta_us(tds[day_names.pop()], 'day step'),
             'one': _timedelta_us(tds[skip_names.pop()], 'skip step')}
    # does `find` convert aware bounds to UTC before reading their calendar date?
    norm = {}
    for name in ('after', 'before'):
        norm[name] = any(
            isinstance(n, ast.Assign) and getattr(n.targets[0], 'id', None) == name
            and isinstance(n.value, ast.Call) and isinstance(n.value.func, ast.Attribute)
            and n.value.func.attr == 'astimezone' and getattr(n.value.func.value, 'id', None) == name
            and len(n.value.args) == 1 and ast.unparse(n.value.args[0]) == 'UTC'
            for n in ast.walk(fnd))
    # --- API handlers
    api = _tree(repo, API)
    calls = {}
    for fn, want in (('failed', False), ('succeeded', True)):
        node = find_def(api, fn)
        found = [n for n in ast.walk(node) if isinstance(n, ast.Call)
                 and ast.unparse(n.func) == 'dawgie.pl.logger.chronicle.find']
        if len(found) != 1 or found[0].args:
            raise Untranslatable(f'{API}:{fn}: expected one keyword call of chronicle.find')
        kw = {k.arg: k.value for k in found[0].keywords}
        passes = []
        for a in ('after', 'before', 'limit'):
            passes.append(a in kw and isinstance(kw[a], ast.Name) and kw[a].id == a)
        succ = kw.get('succeeded')
        if not (isinstance(succ, ast.Constant) and isinstance(succ.value, bool)):
            raise Untranslatable(f'{API}:{fn}: succeeded= is not a literal')
        calls[fn] = passes + [succ.value]

    def b(x):
        return 'true' if x else 'false'

    def call(c):
        return '⟨' + ', '.join(b(x) for x in c) + '⟩'

    text = (
        'namespace DawgieVerif.Generated.Chronicle\n'
        '/-- keys `chronicle.append` insists on -/\n'
        f'def requiredKeys : List String := [{", ".join(_lean_str(k) for k in keys)}]\n'
        '/-- `status = <a> if succeeded else <b>` of `_load` -/\n'
        f'def statusWord (succeeded : Bool) : String := if succeeded then {_lean_str(status[0])} else {_lean_str(status[1])}\n'
        '/-- the test under which `_load` keeps an entry -/\n'
        'def keep (after completed before : Int) (entryStatus status : String) : Bool :=\n'
        f'  {keep_lean}\n'
        '/-- tuple of `_most_recent_first` -/\n'
        f'def sortKey : List String := [{", ".join(_lean_str(k) for k in fields)}]\n'
        '/-- `datetime(Y, M, D, tzinfo=UTC)` floor of `find` -/\n'
        f'def floorYear : Int := {fy}\n'
        f'def floorMonth : Int := {fm}\n'
        f'def floorDay : Int := {fd}\n'
        '/-- `one`, `oneday` of `find` in micro-seconds -/\n'
        f'def oneUs : Int := {steps["one"]}\n'
        f'def onedayUs : Int := {steps["oneday"]}\n'
        '/-- `after = after.astimezone(UTC)` / `before = before.astimezone(UTC)` present in `find` -/\n'
        f'def normalisesAfter : Bool := {b(norm["after"])}\n'
        f'def normalisesBefore : Bool := {b(norm["before"])}\n'
        '/-- which of its own arguments an API handler hands to `chronicle.find` -/\n'
        'structure ApiCall where\n'
        '  after : Bool\n  before : Bool\n  limit : Bool\n  succeeded : Bool\n'
        'deriving DecidableEq, Repr\n'
        f'def apiFailed : ApiCall := {call(calls["failed"])}\n'
        f'def apiSucceeded : ApiCall := {call(calls["succeeded"])}\n'
        'end DawgieVerif.Generated.Chronicle\n'
    )
    return 'ChronicleGen', text


GENERATORS = [gen_chronicle]

MIRRORED = [
    (CHRON, 'append'),
    (CHRON, 'find'),
    (CHRON, '_load'),
    (CHRON, '_most_recent_first'),
    ('pl/schedule.py', 'complete'),
    (API, 'failed'),
    (API, 'succeeded'),
]
