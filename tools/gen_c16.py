"""Generators for C16 (G6, G5): what `tools/compliant.py` says, as Lean tables.

  ruleNames    module-level `rule_*` functions in the order `_get_rules` yields them (sorted)
  factoryOrder members of `dawgie.Factories` in declaration order (`_walk` iterates the enum)
  walkArity    number of positional arguments `_walk` passes to each factory (`fargs`)
  walk         per factory branch of `_walk`: every callback call with the chain of enclosing
               `for` loops and, for each call `x.meth()`, which binder `x` is (bound depth or free)
  ruleCbs      the callbacks each rule hands to `_walk`
  sigTable     `rule_01`'s `fargs`: expected parameter count, defaults, annotations
  rule06Arity / rule10Arity   positional arguments of the direct factory calls in rule_06 / rule_10

Firings are emitted in a canonical order and binders by depth, so renaming a local or reordering
independent statements of `_walk` does not change the text; using another variable does."""
import ast

from tools.translate import Untranslatable, _tree, find_def

REL = 'tools/compliant.py'
FACTORIES = ('analysis', 'events', 'regress', 'task')
CBS = ('ifbot', 'ifalg', 'ifsv', 'ifv', 'ifanl', 'ifanz', 'ifret', 'ifrec', 'ifref', 'ifmom')
METHS = {'routines': 'routines', 'feedback': 'feedback', 'traits': 'traits', 'previous': 'previous',
         'variables': 'variables', 'state_vectors': 'stateVectors', 'items': 'items'}


def _fac_of(node, what):
    """`dawgie.Factories.<name>` -> name"""
    if (isinstance(node, ast.Attribute) and isinstance(node.value, ast.Attribute)
            and node.value.attr == 'Factories' and isinstance(node.value.value, ast.Name)
            and node.value.value.id == 'dawgie' and node.attr in FACTORIES):
        return node.attr
    raise Untranslatable(f'{what}: expected dawgie.Factories.<member>, got {ast.dump(node)[:80]}')


def enum_order(repo):
    cls = find_def(_tree(repo, '__init__.py'), 'Factories')
    names = []
    for n in cls.body:
        if isinstance(n, ast.Assign) and len(n.targets) == 1 and isinstance(n.targets[0], ast.Name):
            names.append(n.targets[0].id)
    if sorted(names) != sorted(FACTORIES):
        raise Untranslatable(f'dawgie.Factories members {names} differ from the modelled {FACTORIES}')
    return names


def rule_names(tree):
    names = sorted(n.name for n in tree.body
                   if isinstance(n, (ast.FunctionDef, ast.AsyncFunctionDef)) and n.name.startswith('rule_'))
    other = [t.id for n in tree.body if isinstance(n, ast.Assign) for t in n.targets
             if isinstance(t, ast.Name) and t.id.startswith('rule_')]
    if other:
        raise Untranslatable(f'module-level names {other} would be picked up by _get_rules')
    return names


def _dict_assign(fn, name):
    for n in fn.body:
        if (isinstance(n, ast.Assign) and len(n.targets) == 1 and isinstance(n.targets[0], ast.Name)
                and n.targets[0].id == name and isinstance(n.value, ast.Dict)):
            return n.value
    raise Untranslatable(f'{fn.name}: no dict literal `{name} = {{...}}`')


def walk_arity(walk):
    d = _dict_assign(walk, 'fargs')
    out = {}
    for k, v in zip(d.keys, d.values):
        if not isinstance(v, ast.Tuple):
            raise Untranslatable('_walk.fargs: value is not a tuple literal')
        out[_fac_of(k, '_walk.fargs')] = len(v.elts)
    if sorted(out) != sorted(FACTORIES):
        raise Untranslatable(f'_walk.fargs keys {sorted(out)}')
    return out


def _branches(walk):
    """the if/elif chain on `e == dawgie.Factories.X` inside the `for e in filter(..., dawgie.Factories)`"""
    loops = [n for n in walk.body if isinstance(n, ast.For)]
    if len(loops) != 1:
        raise Untranslatable('_walk: expected exactly one top-level for loop')
    loop = loops[0]
    it = loop.iter
    ok = (isinstance(loop.target, ast.Name) and isinstance(it, ast.Call) and isinstance(it.func, ast.Name)
          and it.func.id == 'filter' and len(it.args) == 2
          and isinstance(it.args[1], ast.Attribute) and it.args[1].attr == 'Factories')
    if not ok:
        raise Untranslatable('_walk: the loop does not iterate filter(..., dawgie.Factories)')
    lam = it.args[0]
    if not (isinstance(lam, ast.Lambda) and isinstance(lam.body, ast.Call)
            and isinstance(lam.body.func, ast.Name) and lam.body.func.id == 'hasattr'):
        raise Untranslatable('_walk: factories are not selected by hasattr(mod, e.name)')
    ev = loop.target.id
    botvar, chain = None, None
    for st in loop.body:
        if isinstance(st, ast.Assign) and isinstance(st.value, ast.Call):
            c = st.value
            if (isinstance(c.func, ast.Name) and c.func.id == 'getattr'):
                fvar = st.targets[0].id
                continue
            if (isinstance(c.func, ast.Name) and c.args and isinstance(c.args[0], ast.Starred)
                    and isinstance(c.args[0].value, ast.Subscript)
                    and isinstance(c.args[0].value.value, ast.Name)
                    and c.args[0].value.value.id == 'fargs'):
                botvar = st.targets[0].id
                continue
            raise Untranslatable('_walk: unexpected assignment in the factory loop')
        if isinstance(st, ast.If):
            chain = st
            continue
        if isinstance(st, ast.Pass):
            continue
        raise Untranslatable(f'_walk: unexpected statement {type(st).__name__} in the factory loop')
    if botvar is None or chain is None:
        raise Untranslatable('_walk: `bot = f(*fargs[e])` or the if-chain not found')
    out = {}
    node = chain
    while True:
        t = node.test
        if not (isinstance(t, ast.Compare) and len(t.ops) == 1 and isinstance(t.ops[0], ast.Eq)
                and isinstance(t.left, ast.Name) and t.left.id == ev):
            raise Untranslatable('_walk: branch test is not `e == dawgie.Factories.X`')
        fac = _fac_of(t.comparators[0], '_walk branch')
        if fac in out:
            raise Untranslatable(f'_walk: two branches for {fac}')
        out[fac] = node.body
        if len(node.orelse) == 1 and isinstance(node.orelse[0], ast.If):
            node = node.orelse[0]
            continue
        for st in node.orelse:
            if not (isinstance(st, ast.Expr) and isinstance(st.value, ast.Call)
                    and isinstance(st.value.func, ast.Name) and st.value.func.id == 'print'):
                raise Untranslatable('_walk: the final else does more than print')
        break
    if sorted(out) != sorted(FACTORIES):
        raise Untranslatable(f'_walk branches {sorted(out)}')
    return botvar, out


def _firings(body, scope, path, cbs, out):
    """scope: list of binder names, index = depth"""
    def recv(name):
        for d in range(len(scope) - 1, -1, -1):
            if scope[d] == name:
                return ('bound', d)
        return ('free', name)

    n_before = len(out)
    for st in body:
        if isinstance(st, ast.Pass):
            continue
        if isinstance(st, ast.Expr) and isinstance(st.value, ast.Call):
            c = st.value
            if not (isinstance(c.func, ast.Name) and c.func.id in cbs and len(c.args) == 1
                    and not c.keywords and isinstance(c.args[0], ast.Name)):
                raise Untranslatable(f'_walk: unsupported call {ast.unparse(c)}')
            out.append((c.func.id, recv(c.args[0].id), tuple(path)))
            continue
        if isinstance(st, ast.For) and isinstance(st.target, ast.Name) and not st.orelse:
            it = st.iter
            if isinstance(it, ast.Name):
                step = ('iter', recv(it.id))
            elif (isinstance(it, ast.Call) and not it.args and not it.keywords
                  and isinstance(it.func, ast.Attribute) and isinstance(it.func.value, ast.Name)
                  and it.func.attr in METHS):
                step = (METHS[it.func.attr], recv(it.func.value.id))
            else:
                raise Untranslatable(f'_walk: unsupported loop `for ... in {ast.unparse(it)}`')
            k = len(out)
            _firings(st.body, scope + [st.target.id], path + [step], cbs, out)
            if len(out) == k:
                raise Untranslatable('_walk: a loop without any callback call is outside the modelled subset')
            continue
        raise Untranslatable(f'_walk: unsupported statement {type(st).__name__}')
    return len(out) - n_before


def _inline_helpers(body, tree, cbs, depth=2):
    """statements `helper(arg, ..)` where `helper` is a module-level function are replaced by the helper's body
    with its parameters substituted (names for names; a string constant bound to a parameter that is only used
    as `getattr(x, <param>)()` turns that into the method call `x.<const>()`)"""
    import copy
    helpers = {d.name: d for d in tree.body if isinstance(d, ast.FunctionDef)}
    out = []
    for st in body:
        c = st.value if isinstance(st, ast.Expr) and isinstance(st.value, ast.Call) else None
        if (c is None or not isinstance(c.func, ast.Name) or c.func.id in cbs or c.func.id not in helpers
                or c.func.id == 'print' or depth == 0):
            out.append(st)
            continue
        h = helpers[c.func.id]
        a = h.args
        if a.vararg or a.kwarg or a.kwonlyargs or a.posonlyargs or a.defaults or c.keywords \
                or len(a.args) != len(c.args):
            raise Untranslatable(f'_walk: helper {h.name} called in a way outside the subset')
        bind = {}
        for prm, arg in zip(a.args, c.args):
            if isinstance(arg, ast.Name) or (isinstance(arg, ast.Constant) and isinstance(arg.value, str)):
                bind[prm.arg] = arg
            else:
                raise Untranslatable(f'_walk: argument {ast.unparse(arg)} of helper {h.name} outside the subset')

        class Sub(ast.NodeTransformer):
            def visit_Call(self, n):   # pylint: disable=invalid-name
                # getattr(x, <param bound to 'name'>)()  ->  x.name()
                if (isinstance(n.func, ast.Call) and getattr(n.func.func, 'id', '') == 'getattr'
                        and len(n.func.args) == 2 and isinstance(n.func.args[1], ast.Name)
                        and isinstance(bind.get(n.func.args[1].id), ast.Constant) and not n.args and not n.keywords):
                    recv = self.visit(n.func.args[0])
                    return ast.Call(func=ast.Attribute(value=recv, attr=bind[n.func.args[1].id].value,
                                                       ctx=ast.Load()), args=[], keywords=[])
                return self.generic_visit(n)

            def visit_Name(self, n):   # pylint: disable=invalid-name
                b = bind.get(n.id)
                if b is None:
                    return n
                if isinstance(b, ast.Constant):
                    raise Untranslatable(f'_walk: helper {h.name} uses its string parameter {n.id} other than in '
                                         'getattr(x, ..)()')
                return ast.Name(id=b.id, ctx=n.ctx)
        stmts = [s for s in h.body if not (isinstance(s, ast.Expr) and isinstance(s.value, ast.Constant))]
        if stmts and isinstance(stmts[-1], ast.Return) and stmts[-1].value is None:
            stmts = stmts[:-1]
        if any(isinstance(x, ast.Return) for s in stmts for x in ast.walk(s)):
            raise Untranslatable(f'_walk: helper {h.name} returns from the middle')
        locals_ = {x.id for s in stmts for x in ast.walk(s) if isinstance(x, ast.Name) and isinstance(x.ctx, ast.Store)}
        if locals_ & set(bind):
            raise Untranslatable(f'_walk: helper {h.name} rebinds a parameter')
        if locals_ & {b.id for b in bind.values() if isinstance(b, ast.Name)}:
            raise Untranslatable(f'_walk: a local of helper {h.name} would capture an argument name')
        new = [ast.fix_missing_locations(Sub().visit(copy.deepcopy(s))) for s in stmts]
        out.extend(_inline_helpers(new, tree, cbs, depth - 1))
    return out


def walk_tables(tree):
    walk = find_def(tree, '_walk')
    params = [a.arg for a in walk.args.args]
    cbs = [p for p in params[1:]]
    if sorted(cbs) != sorted(CBS):
        raise Untranslatable(f'_walk callback parameters {cbs} differ from the modelled {CBS}')
    for d in walk.args.defaults:
        if not (isinstance(d, ast.Name) and d.id == '_t'):
            raise Untranslatable('_walk: a callback default is not _t')
    t = find_def(tree, '_t')
    if not (len(t.body) == 1 and isinstance(t.body[0], ast.Return)
            and isinstance(t.body[0].value, ast.Constant) and t.body[0].value.value is True):
        raise Untranslatable('_t is no longer `return True`')
    botvar, branches = _branches(walk)
    table = {}
    for fac, body in branches.items():
        out = []
        body = _inline_helpers(body, tree, set(cbs))
        _firings(body, [botvar], [], set(cbs), out)
        table[fac] = sorted(set(out))
    return walk_arity(walk), table


def rule_cbs(tree, names):
    out = {}
    for r in names:
        fn = find_def(tree, r)
        kws = []
        for n in ast.walk(fn):
            if isinstance(n, ast.Call) and isinstance(n.func, ast.Name) and n.func.id == '_walk':
                if len(n.args) != 1 or any(k.arg is None for k in n.keywords):
                    raise Untranslatable(f'{r}: unsupported _walk call')
                for k in n.keywords:
                    if k.arg not in CBS:
                        raise Untranslatable(f'{r}: unknown callback {k.arg}')
                    if isinstance(k.value, ast.Name) and k.value.id == '_t':
                        continue
                    kws.append(k.arg)
        out[r] = sorted(set(kws), key=CBS.index)
    return out


def _const(node):
    if isinstance(node, ast.Constant) and isinstance(node.value, bool):
        raise Untranslatable('rule_01.fargs: bool default')
    if isinstance(node, ast.Constant) and isinstance(node.value, int):
        return f'.int {node.value}' if node.value >= 0 else f'.int ({node.value})'
    if (isinstance(node, ast.UnaryOp) and isinstance(node.op, ast.USub)
            and isinstance(node.operand, ast.Constant) and isinstance(node.operand.value, int)):
        return f'.int (-{node.operand.value})'
    if isinstance(node, ast.Constant) and isinstance(node.value, str):
        if '"' in node.value or '\\' in node.value:
            raise Untranslatable('rule_01.fargs: string default with quote')
        return f'.str "{node.value}"'
    if isinstance(node, ast.Attribute) and node.attr == 'empty':
        return '.empty'
    raise Untranslatable(f'rule_01.fargs: default {ast.unparse(node)}')


def sig_table(tree):
    d = _dict_assign(find_def(tree, 'rule_01'), 'fargs')
    out = {}
    for k, v in zip(d.keys, d.values):
        fac = _fac_of(k, 'rule_01.fargs')
        if not (isinstance(v, ast.Tuple) and len(v.elts) == 3 and isinstance(v.elts[0], ast.Constant)
                and isinstance(v.elts[1], ast.List) and isinstance(v.elts[2], ast.List)):
            raise Untranslatable('rule_01.fargs: row is not (count, [defaults], [annotations])')
        anns = []
        for a in v.elts[2].elts:
            if isinstance(a, ast.Name) and a.id in ('str', 'int'):
                anns.append('.' + a.id)
            else:
                raise Untranslatable(f'rule_01.fargs: annotation {ast.unparse(a)}')
        out[fac] = (v.elts[0].value, [_const(x) for x in v.elts[1].elts], anns)
    if sorted(out) != sorted(FACTORIES):
        raise Untranslatable(f'rule_01.fargs keys {sorted(out)}')
    return out


def direct_arity(tree, rule, pred, what):
    fn = find_def(tree, rule)
    found = [len(n.args) for n in ast.walk(fn) if isinstance(n, ast.Call) and pred(n) and not n.keywords
             and not any(isinstance(a, ast.Starred) for a in n.args)]
    if len(found) != 1:
        raise Untranslatable(f'{rule}: expected one {what} call, found {len(found)}')
    return found[0]


def _recv(r):
    return f'.bound {r[1]}' if r[0] == 'bound' else '.free'


def _firing(f):
    cb, arg, path = f
    steps = ', '.join('⟨.%s, %s⟩' % (m, _recv(r)) for m, r in path)
    return '⟨.%s, %s, [%s]⟩' % (cb, _recv(arg), steps)


def gen_rules(repo):
    tree = _tree(repo, REL)
    names = rule_names(tree)
    order = enum_order(repo)
    arity, table = walk_tables(tree)
    cbs = rule_cbs(tree, names)
    sig = sig_table(tree)
    a06 = direct_arity(tree, 'rule_06', lambda n: isinstance(n.func, ast.Name) and n.func.id == 'f',
                       'f(...)')
    a10 = direct_arity(tree, 'rule_10', lambda n: isinstance(n.func, ast.Attribute)
                       and n.func.attr == 'events', 'mod.events(...)')
    L = ['import DawgieVerif.Model.CompliantTypes', '',
         'namespace DawgieVerif.Generated.Rules', 'open DawgieVerif.Compliant', '',
         '/-- `_get_rules()`: the `rule_*` functions of tools/compliant.py, sorted -/',
         'def ruleNames : List String := [%s]' % ', '.join('"%s"' % n for n in names), '',
         '/-- `dawgie.Factories` in declaration order (the order `_walk` visits the factories) -/',
         'def factoryOrder : List Factory := [%s]' % ', '.join('.' + n for n in order), '',
         '/-- positional arguments `_walk` passes to each factory (`fargs`) -/',
         'def walkArity : Factory → Nat']
    for f in FACTORIES:
        L.append(f'  | .{f} => {arity[f]}')
    L += ['', '/-- the callback calls of each branch of `_walk` -/', 'def walk : Factory → List Firing']
    for f in FACTORIES:
        L.append(f'  | .{f} => [')
        L.append(',\n'.join('      ' + _firing(x) for x in table[f]) + ']')
    L += ['', '/-- the callbacks each rule hands to `_walk` (none: the rule does not walk) -/',
          'def ruleCbs : String → List Cb']
    for n in names:
        L.append('  | "%s" => [%s]' % (n, ', '.join('.' + c for c in cbs[n])))
    L.append('  | _ => []')
    L += ['', "/-- `rule_01`'s table of documented factory signatures -/",
          'def sigTable : Factory → SigRow']
    for f in FACTORIES:
        c, ds, an = sig[f]
        L.append('  | .%s => ⟨%d, [%s], [%s]⟩' % (f, c, ', '.join(ds), ', '.join(an)))
    L += ['', '/-- positional arguments of the direct factory calls in rule_06 and rule_10 -/',
          f'def rule06Arity : Nat := {a06}', f'def rule10Arity : Nat := {a10}', '',
          'end DawgieVerif.Generated.Rules', '']
    return 'Rules', '\n'.join(L)


GENERATORS = [gen_rules]

# Python definitions mirrored by the hand-written model (fingerprints, G8)
MIRRORED = [(REL, q) for q in (
    '_verify', '_walk', '_get_rules', '_t', '_scan',
    'rule_01', 'rule_02', 'rule_03', 'rule_04', 'rule_05', 'rule_06', 'rule_07', 'rule_08',
    'rule_09', 'rule_10', 'rule_11')] + [
    ('util/refs.py', 'as_vref'), ('util/names.py', 'task_name'), ('util/names.py', 'task_module'),
    ('__init__.py', 'schedule'), ('__init__.py', 'Factories'),
]
