/-
Exact addressing: on every reachable catalogue over colon-free names, `remove`, `trace` and
`reset` select by the exact dissected names, never by a prefix.
-/
import DawgieVerif.Proofs.StoreInv

namespace DawgieVerif.Store
open DawgieVerif.Generated.Store

/-! ### the chain over colon-free names -/

def KeyIsOK (s : St) (k : Key) : Prop :=
  ∃ tn task alg sv v, KeyIs s k tn task alg sv v ∧ NameOK tn ∧ NameOK task ∧ NameOK alg.1 ∧
    NameOK sv.1 ∧ NameOK v.1

def ChainOK (s : St) : Prop := ∀ e ∈ s.prime, KeyIsOK s e.1

theorem KeyIsOK.of_names {s s' : St} (h : ∀ t, (s'.tbl t).names = (s.tbl t).names) {k}
    (hk : KeyIsOK s k) : KeyIsOK s' k := by
  obtain ⟨a, b, c, d, e, hk, r⟩ := hk; exact ⟨a, b, c, d, e, hk.of_names h, r⟩

theorem KeyIsOK.mono {s s' : St} (h : Ext s s') {k} (hk : KeyIsOK s k) : KeyIsOK s' k := by
  obtain ⟨a, b, c, d, e, hk, r⟩ := hk; exact ⟨a, b, c, d, e, hk.mono h, r⟩

theorem chainok_ext {s s' : St} (h : Ext s s') (hc : ChainOK s) : ChainOK s' := by
  intro e he; rw [h.prime] at he; exact (hc e he).mono h

theorem chainok_step {s : St} (h : Inv s) (hc : ChainOK s) (op : Op) (hop : op.OK) :
    ChainOK (step s op) := by
  cases op with
  | openDb =>
    cases ho : s.opened with
    | true => have : openDb s = s := by simp [openDb, ho]
              simp only [Store.step, this]; exact hc
    | false =>
      intro e he
      have hp : (openDb s).prime = s.prime := by simp [openDb, ho]
      simp only [Store.step, hp] at he
      exact (hc e he).of_names (fun t => by simp only [Store.step]; rw [openDb_tbl s ho]; rfl)
  | closeDb =>
    intro e he
    have hp : (closeDb s).prime = s.prime := by simp [closeDb]
    simp only [Store.step, hp] at he
    exact (hc e he).of_names (fun t => by simp only [Store.step]; rw [closeDb_tbl]; rfl)
  | add tn =>
    simp only [Store.step, add]
    cases ho : s.opened with
    | false => simpa using hc
    | true => simpa using chainok_ext (upd_spec h ho .target tn none none).2.1 hc
  | register task alg sv t v =>
    simp only [Store.step]
    cases ho : s.opened with
    | false => simp [Store.register, ho]; exact hc
    | true =>
      obtain ⟨r, hr, _, he⟩ := inv_register h ho task alg sv t v
      rw [hr]; exact chainok_ext he hc
  | store run tn task alg sv v blob c =>
    simp only [Store.step]
    cases ho : s.opened with
    | false => simp [Store.store, ho]; exact hc
    | true =>
      rw [store_eq s ho]
      obtain ⟨_, hext, hk, _⟩ := toKey_spec h ho run tn task alg sv v
      have hn : ∀ t, ((setPrime (toKey s run tn task alg sv v).1 (toKey s run tn task alg sv v).2
          blob c).1.tbl t).names = ((toKey s run tn task alg sv v).1.tbl t).names := by
        intro t; rw [setPrime_tbl]
      intro e he
      rcases setPrime_prime_keys _ _ blob c e he with rfl | ⟨he, _⟩
      · exact KeyIsOK.of_names hn ⟨tn, task, alg, sv, v, hk, hop.1, hop.2.1, hop.2.2.1, hop.2.2.2.1,
          hop.2.2.2.2⟩
      · rw [hext.prime] at he
        exact ((hc e he).mono hext).of_names hn
  | load run tn task alg sv v =>
    simp only [Store.step]
    cases hl : load s run tn task alg sv v with
    | error e => exact hc
    | ok r =>
      simp only
      rw [load_state s run tn task alg sv v hl]
      have ho : s.opened = true := by
        cases ho : s.opened with
        | true => rfl
        | false => simp [Store.load, ho] at hl
      exact chainok_ext (toKey_spec h ho run tn task alg sv v).2.1 hc
  | remove run tn task alg sv v =>
    simp only [Store.step]
    cases hr : remove s run tn task alg sv v with
    | error e => exact hc
    | ok s' =>
      obtain ⟨ht, _, _, p, hp⟩ := remove_ok_prime hr
      intro e he
      simp only at he
      rw [hp] at he
      exact (hc e (List.mem_filter.mp he).1).of_names (fun t => by rw [ht])

theorem chainok_run {s : St} (h : Inv s) (hc : ChainOK s) (ops : List Op) (hops : ∀ op ∈ ops, op.OK) :
    ChainOK (run s ops) := by
  induction ops generalizing s with
  | nil => exact hc
  | cons op ops ih =>
    exact ih (inv_step h op) (chainok_step h hc op (hops op (by simp))) (fun o ho => hops o (by simp [ho]))

theorem reach_chainok (ops : List Op) (hops : ∀ op ∈ ops, op.OK) : ChainOK (run init ops) :=
  chainok_run inv_init (by intro e he; cases he) ops hops

/-! ### ids and names -/

theorem nodup_idx_iff {l : List Name} (h : l.Nodup) {i j : Nat} {a b : Name} (hi : l[i]? = some a)
    (hj : l[j]? = some b) : i = j ↔ a = b := by
  constructor
  · intro e; subst e; rw [hi] at hj; exact Option.some.inj hj
  · intro e; subst e
    have hlt : i < l.length := by
      rcases Nat.lt_or_ge i l.length with h | h
      · exact h
      · rw [List.getElem?_eq_none h] at hi; cases hi
    exact (List.getElem?_inj hlt h).mp (hi.trans hj.symm)

theorem index_eq_names {s : St} (h : Inv s) (ho : s.opened = true) (t : Tab) :
    (s.tbl t).index = (s.tbl t).names := by
  have := (h.tbls t).idx; rw [ho] at this; simpa using this

theorem nameAt_of {idx : List Name} {i : Nat} {n : Name} (hn : NameOK n) (p : Option Nat) (v : Option Ver)
    (h : idx[i]? = some (construct n p v)) : nameAt idx i = .ok n := by
  unfold nameAt; rw [h]; simp [dissect_construct hn]

/-- on an open, well-formed catalogue the dissected names of a chained key are the author names -/
theorem keyNames_of_keyIs {s : St} (h : Inv s) (ho : s.opened = true) {k : Key} {tn task : Name}
    {alg sv v : Name × Ver} (hk : KeyIs s k tn task alg sv v) (h1 : NameOK tn) (h2 : NameOK task)
    (h3 : NameOK alg.1) (h4 : NameOK sv.1) (h5 : NameOK v.1) :
    keyNames s k = .ok (k.run, tn, task, alg.1, sv.1, v.1) := by
  have i1 := index_eq_names h ho .target; have i2 := index_eq_names h ho .task
  have i3 := index_eq_names h ho .alg; have i4 := index_eq_names h ho .state
  have i5 := index_eq_names h ho .value
  simp only [St.tbl] at i1 i2 i3 i4 i5
  obtain ⟨k1, k2, k3, k4, k5⟩ := hk
  unfold keyNames
  rw [i1, i2, i3, i4, i5,
    nameAt_of h1 none none (by simpa [construct] using k1),
    nameAt_of h2 none none (by simpa [construct] using k2),
    nameAt_of h3 _ _ k3, nameAt_of h4 _ _ k4, nameAt_of h5 _ _ k5]
  rfl

/-! ### `util.subset` on a well-formed table -/

theorem mem_subset_parents {d : List (Name × Nat)} {name : Name} {parents : List Nat}
    (hp : parents ≠ []) (i : Nat) :
    i ∈ (subset d name parents).map (·.2) ↔
      ∃ f, (f, i) ∈ d ∧ ∃ p ∈ parents, subsetParents f (construct name (some p) none) = true := by
  have : parents.isEmpty = false := by cases parents <;> simp_all
  simp only [subset, this, Bool.false_eq_true, if_false, List.mem_map, List.mem_flatMap, List.mem_filter]
  constructor
  · rintro ⟨x, ⟨p, hp, hx, hm⟩, rfl⟩
    exact ⟨x.1, hx, p, hp, hm⟩
  · rintro ⟨f, hf, p, hp, hm⟩
    exact ⟨(f, i), ⟨p, hp, hf, hm⟩, rfl⟩

/-- ids selected by the parents branch of `subset` in a table whose keys are `construct`s of
    colon-free names: exactly the entries with that name under one of the parents -/
theorem mem_subset_ids {o : Bool} {t : Tbl} (ht : TblOK o t) {name : Name} (hname : NameOK name)
    {parents : List Nat} (hp : parents ≠ []) {i : Nat} {n : Name} {q : Nat} {v : Option Ver}
    (hn : NameOK n) (hi : t.names[i]? = some (construct n (some q) v)) :
    i ∈ (subset t.dict name parents).map (·.2) ↔ q ∈ parents ∧ n = name := by
  rw [mem_subset_parents hp]
  constructor
  · rintro ⟨f, hf, p, hpm, hm⟩
    rw [ht.zip, List.mem_zipIdx_iff_getElem?] at hf
    simp only at hf
    rw [hi] at hf
    have hf := Option.some.inj hf
    subst hf
    have := (subsetParents_iff hname hn p q v).mp hm
    exact ⟨this.1 ▸ hpm, this.2⟩
  · rintro ⟨hq, rfl⟩
    refine ⟨construct n (some q) v, ?_, q, hq, (subsetParents_iff hname hn q q v).mpr ⟨rfl, rfl⟩⟩
    rw [ht.zip, List.mem_zipIdx_iff_getElem?]; exact hi

/-! ### `remove` -/

theorem remove_cond_iff {s : St} (h : Inv s) (ho : s.opened = true) {k : Key}
    (hk : KeyIsOK s k) {run tnid tskid : Nat} {tn taskn algn svn vn : Name}
    (htn : s.target.names[tnid]? = some tn) (htk : s.task.names[tskid]? = some taskn)
    (h3 : NameOK algn) (h4 : NameOK svn) (h5 : NameOK vn) :
    (k.run == run && k.tg == tnid && k.task == tskid &&
      ((subset s.alg.dict algn [tskid]).map (·.2)).contains k.alg &&
      ((subset s.state.dict svn ((subset s.alg.dict algn [tskid]).map (·.2))).map (·.2)).contains k.sv &&
      ((subset s.value.dict vn ((subset s.state.dict svn
        ((subset s.alg.dict algn [tskid]).map (·.2))).map (·.2))).map (·.2)).contains k.v) =
    keyNamed s k (run, tn, taskn, algn, svn, vn) := by
  obtain ⟨tn', task', alg', sv', v', hki, o1, o2, o3, o4, o5⟩ := hk
  have hkn := keyNames_of_keyIs h ho hki o1 o2 o3 o4 o5
  obtain ⟨k1, k2, k3, k4, k5⟩ := hki
  have tT := h.tbls .target; have tK := h.tbls .task; have tA := h.tbls .alg
  have tS := h.tbls .state; have tV := h.tbls .value
  simp only [St.tbl] at tT tK tA tS tV
  have e1 : k.tg = tnid ↔ tn' = tn := nodup_idx_iff tT.nodup k1 htn
  have e2 : k.task = tskid ↔ task' = taskn := nodup_idx_iff tK.nodup k2 htk
  have eA : k.alg ∈ (subset s.alg.dict algn [tskid]).map (·.2) ↔ k.task = tskid ∧ alg'.1 = algn := by
    rw [mem_subset_ids tA h3 (by simp) o3 k3]; simp
  -- Bool equality through Prop equivalence
  unfold keyNamed
  rw [hkn]
  simp only
  rw [Bool.eq_iff_iff]
  simp only [Bool.and_eq_true, beq_iff_eq, List.contains_iff_mem, Prod.mk.injEq]
  constructor
  · rintro ⟨⟨⟨⟨⟨r1, r2⟩, r3⟩, r4⟩, r5⟩, r6⟩
    have a := eA.mp r4
    have hne : (subset s.alg.dict algn [tskid]).map (·.2) ≠ [] := List.ne_nil_of_mem r4
    have eS := (mem_subset_ids tS h4 hne o4 k4).mp r5
    have hne2 : (subset s.state.dict svn ((subset s.alg.dict algn [tskid]).map (·.2))).map (·.2) ≠ [] :=
      List.ne_nil_of_mem r5
    have eV := (mem_subset_ids tV h5 hne2 o5 k5).mp r6
    exact ⟨r1, e1.mp r2, e2.mp r3, a.2, eS.2, eV.2⟩
  · rintro ⟨r1, r2, r3, r4, r5, r6⟩
    have a : k.alg ∈ (subset s.alg.dict algn [tskid]).map (·.2) := eA.mpr ⟨e2.mpr r3, r4⟩
    have hne : (subset s.alg.dict algn [tskid]).map (·.2) ≠ [] := List.ne_nil_of_mem a
    have b := (mem_subset_ids tS h4 hne o4 k4).mpr ⟨a, r5⟩
    have hne2 : (subset s.state.dict svn ((subset s.alg.dict algn [tskid]).map (·.2))).map (·.2) ≠ [] :=
      List.ne_nil_of_mem b
    have c := (mem_subset_ids tV h5 hne2 o5 k5).mpr ⟨b, r6⟩
    exact ⟨⟨⟨⟨⟨r1, e1.mpr r2⟩, e2.mpr r3⟩, a⟩, b⟩, c⟩

/-- `remove` on an open, well-formed catalogue over colon-free names -/
theorem remove_spec {s : St} (h : Inv s) (ho : s.opened = true) (hc : ChainOK s) (run : Nat)
    {tn taskn algn svn vn : Name} (h3 : NameOK algn) (h4 : NameOK svn) (h5 : NameOK vn) :
    (∀ s', remove s run tn taskn algn svn vn = .ok s' →
      s'.prime = s.prime.filter (fun e => !keyNamed s e.1 (run, tn, taskn, algn, svn, vn)) ∧
      (∀ t, s'.tbl t = s.tbl t) ∧ s'.blobs = s.blobs ∧ s'.opened = s.opened) ∧
    (∀ er, remove s run tn taskn algn svn vn = .error er →
      ∀ e ∈ s.prime, keyNamed s e.1 (run, tn, taskn, algn, svn, vn) = false) := by
  have tT := h.tbls .target; have tK := h.tbls .task
  simp only [St.tbl] at tT tK
  constructor
  · intro s' hr
    obtain ⟨ht, hop, hb, _⟩ := remove_ok_prime hr
    refine ⟨?_, ht, hb, hop⟩
    unfold remove at hr
    simp only [ho, Bool.not_true, Bool.false_eq_true, if_false] at hr
    cases hl1 : s.target.dict.lookup tn with
    | none => rw [hl1] at hr; cases hr
    | some tnid =>
      cases hl2 : s.task.dict.lookup taskn with
      | none => rw [hl1, hl2] at hr; cases hr
      | some tskid =>
        rw [hl1, hl2] at hr
        simp only at hr
        cases hr
        simp only
        apply List.filter_congr
        intro e he
        rw [remove_cond_iff h ho (hc e he) ((tT.lookup_iff tn tnid).mp hl1)
          ((tK.lookup_iff taskn tskid).mp hl2) h3 h4 h5]
  · intro er hr e he
    obtain ⟨tn', task', alg', sv', v', hki, o1, o2, o3, o4, o5⟩ := hc e he
    unfold keyNamed
    rw [keyNames_of_keyIs h ho hki o1 o2 o3 o4 o5]
    simp only [beq_eq_false_iff_ne, ne_eq, Prod.mk.injEq, not_and]
    intro _ e1 e2
    exfalso
    subst e1; subst e2
    unfold remove at hr
    simp only [ho, Bool.not_true, Bool.false_eq_true, if_false] at hr
    rw [(tT.lookup_iff _ _).mpr hki.1, (tK.lookup_iff _ _).mpr hki.2.1] at hr
    cases hr

/-! ### small list facts -/

theorem foldl_max_ge (l : List Nat) (a : Nat) : a ≤ l.foldl max a ∧ ∀ x ∈ l, x ≤ l.foldl max a := by
  induction l generalizing a with
  | nil => simp
  | cons y ys ih =>
    simp only [List.foldl_cons, List.mem_cons]
    obtain ⟨h1, h2⟩ := ih (max a y)
    refine ⟨by omega, ?_⟩
    rintro x (rfl | hx)
    · omega
    · exact h2 x hx

theorem foldl_max_mem (l : List Nat) (a : Nat) : l.foldl max a = a ∨ l.foldl max a ∈ l := by
  induction l generalizing a with
  | nil => simp
  | cons y ys ih =>
    simp only [List.foldl_cons, List.mem_cons]
    rcases ih (max a y) with h | h
    · rw [h]
      rcases Nat.le_total a y with h' | h'
      · right; left; omega
      · left; omega
    · right; right; exact h

theorem le_listMax {l : List Nat} {x : Nat} (hx : x ∈ l) : x ≤ listMax l := (foldl_max_ge l 0).2 x hx

theorem listMax_mem {l : List Nat} (hl : l ≠ []) : listMax l ∈ l := by
  rcases foldl_max_mem l 0 with h | h
  · cases l with
    | nil => exact absurd rfl hl
    | cons y ys =>
      have : y ≤ listMax (y :: ys) := le_listMax (by simp)
      unfold listMax at this ⊢
      rw [h] at this ⊢
      have : y = 0 := by omega
      simp [this]
  · exact h

theorem mapM_except_mem {α β ε : Type} (f : α → Except ε β) :
    ∀ (l : List α) (l' : List β), l.mapM f = .ok l' → ∀ y ∈ l', ∃ x ∈ l, f x = .ok y := by
  intro l
  induction l with
  | nil => intro l' h y hy; simp [List.mapM_nil, pure, Except.pure] at h; subst h; cases hy
  | cons a as ih =>
    intro l' h y hy
    rw [List.mapM_cons] at h
    cases hf : f a with
    | error e => rw [hf] at h; cases h
    | ok b =>
      rw [hf] at h
      cases hr : as.mapM f with
      | error e => rw [hr] at h; cases h
      | ok bs =>
        rw [hr] at h
        cases h
        rcases List.mem_cons.mp hy with rfl | hy
        · exact ⟨a, by simp, hf⟩
        · obtain ⟨x, hx, hxy⟩ := ih bs hr y hy
          exact ⟨x, List.mem_cons_of_mem _ hx, hxy⟩

theorem mapM_option_snd {α β γ : Type} (g : α × γ → Option β) :
    ∀ (l : List (α × γ)) (l' : List (β × γ)),
      l.mapM (fun x => (g x).map (fun y => (y, x.2))) = some l' → l'.map (·.2) = l.map (·.2) := by
  intro l
  induction l with
  | nil => intro l' h; simp at h; subst h; rfl
  | cons a as ih =>
    intro l' h
    rw [List.mapM_cons] at h
    cases hg : g a with
    | none => rw [hg] at h; cases h
    | some b =>
      rw [hg] at h
      cases hr : as.mapM (fun x => (g x).map (fun y => (y, x.2))) with
      | none => rw [hr] at h; cases h
      | some bs =>
        rw [hr] at h
        cases h
        simp [ih bs hr]

theorem foldl_pick_mem {β : Type} (p : β → β → Bool) (l : List β) (c : β) :
    l.foldl (fun b x => if p x b then b else x) c ∈ c :: l := by
  induction l generalizing c with
  | nil => simp
  | cons y ys ih =>
    simp only [List.foldl_cons]
    have := ih (if p y c then c else y)
    rcases List.mem_cons.mp this with h | h
    · rw [h]; split <;> simp
    · exact List.mem_cons_of_mem _ (List.mem_cons_of_mem _ h)

/-! ### `next` -/

theorem next_spec {s : St} {n : Nat} (h : next s = .ok n) : ∀ e ∈ s.prime, e.1.run < n := by
  unfold next at h
  split at h
  · cases h
  · cases h
    intro e he
    have hm : e.1.run ∈ s.prime.map (fun e => e.1.col nextRunColumn) :=
      List.mem_map.mpr ⟨e, he, by simp [Key.col, Key.toList, nextRunColumn]⟩
    have hne : (s.prime.map (fun e => e.1.col nextRunColumn)).isEmpty = false := by
      cases hl : s.prime.map (fun e => e.1.col nextRunColumn) with
      | nil => rw [hl] at hm; cases hm
      | cons _ _ => rfl
    have := le_listMax hm
    simp only [nextRun, hne]
    simp; omega

/-! ### `trace` -/

theorem subprimeMax_spec {s : St} {a b c r : Nat} (h : subprimeMax s a b c = some r) :
    (∃ e ∈ s.prime, e.1.run = r ∧ e.1.tg = a ∧ e.1.task = b ∧ e.1.alg = c) ∧
    (∀ e ∈ s.prime, e.1.tg = a → e.1.task = b → e.1.alg = c → e.1.run ≤ r) := by
  unfold subprimeMax at h
  simp only at h
  split at h
  · cases h
  · rename_i hne
    cases h
    have hne' : (s.prime.filter (fun e => e.1.tg == a && e.1.task == b && e.1.alg == c)).map (·.1.run) ≠ [] := by
      intro e; rw [e] at hne; simp at hne
    constructor
    · have := listMax_mem hne'
      rcases List.mem_map.mp this with ⟨e, he, hr⟩
      rw [List.mem_filter] at he
      simp only [Bool.and_eq_true, beq_iff_eq] at he
      exact ⟨e, he.1, hr, he.2.1.1, he.2.1.2, he.2.2⟩
    · intro e he h1 h2 h3
      apply le_listMax
      exact List.mem_map.mpr ⟨e, List.mem_filter.mpr ⟨he, by simp [h1, h2, h3]⟩, rfl⟩

theorem subprimeMax_none {s : St} {a b c : Nat} (h : subprimeMax s a b c = none) :
    ∀ e ∈ s.prime, ¬ (e.1.tg = a ∧ e.1.task = b ∧ e.1.alg = c) := by
  unfold subprimeMax at h
  simp only at h
  split at h
  · rename_i hem
    intro e he ⟨h1, h2, h3⟩
    have : e.1.run ∈ (s.prime.filter (fun e => e.1.tg == a && e.1.task == b && e.1.alg == c)).map (·.1.run) :=
      List.mem_map.mpr ⟨e, List.mem_filter.mpr ⟨he, by simp [h1, h2, h3]⟩, rfl⟩
    cases hl : (s.prime.filter (fun e => e.1.tg == a && e.1.task == b && e.1.alg == c)).map (·.1.run) with
    | nil => rw [hl] at this; cases this
    | cons _ _ => rw [hl] at hem; simp at hem
  · cases h

/-- the algorithm entry `trace` settles on is one selected by `subset` -/
theorem latestAlg_mem {s : St} {algn : Name} {tskid algid : Nat} (h : latestAlg s algn tskid = .ok algid) :
    algid ∈ (subset s.alg.dict algn [tskid]).map (·.2) := by
  unfold latestAlg at h
  simp only at h
  split at h
  · cases h
  · cases h
  · rename_i c cs hm
    have h1 := mapM_option_snd (fun t : Name × Nat => (dissect t.1).map (fun d => d.2.2)) _ _
      (by simpa [Option.map_map, Function.comp_def] using hm)
    split at h
    · split at h
      · cases h
        rw [← h1]; simp
      · cases h
    · cases h
    · rename_i c' cs' hm2
      cases h
      have h2 := mapM_option_snd (fun x : Option Ver × Nat => x.1) _ _ hm2
      have := foldl_pick_mem (fun (x b : Ver × Nat) => x.1.lt b.1) cs' c'
      have hmem := List.mem_map_of_mem (f := fun x : Ver × Nat => x.2) this
      rw [h2, h1] at hmem
      exact hmem

/-- one cell of `trace`: the reported run is the highest run stored under an algorithm entry with
    exactly the requested name under exactly the requested task, for the target or for `__all__` -/
theorem traceCell_spec {s : St} (h : Inv s) (ho : s.opened = true) (hc : ChainOK s)
    {tid : Nat} {tn taskn algn : Name} (htid : s.target.names[tid]? = some tn) (h3 : NameOK algn)
    {r : Nat} (hr : traceCell s tid (taskn, algn) = .ok (some r)) :
    ∃ e ∈ s.prime, e.1.run = r ∧
      (∃ tn' sv v, keyNames s e.1 = .ok (r, tn', taskn, algn, sv, v) ∧ (tn' = tn ∨ tn' = allName)) ∧
      (∀ e' ∈ s.prime, e'.1.tg = e.1.tg → e'.1.task = e.1.task → e'.1.alg = e.1.alg → e'.1.run ≤ r) := by
  have tT := h.tbls .target; have tK := h.tbls .task; have tA := h.tbls .alg
  simp only [St.tbl] at tT tK tA
  unfold traceCell at hr
  simp only at hr
  cases hl : s.task.dict.lookup taskn with
  | none => rw [hl] at hr; cases hr
  | some tskid =>
    rw [hl] at hr
    simp only at hr
    cases hla : latestAlg s algn tskid with
    | error e => rw [hla] at hr; cases hr
    | ok algid =>
      rw [hla] at hr
      simp only at hr
      have hmem := latestAlg_mem hla
      have htk : s.task.names[tskid]? = some taskn := (tK.lookup_iff _ _).mp hl
      -- the common part: an entry under (tid', tskid, algid) has the exact names
      have key : ∀ tid' tn', s.target.names[tid']? = some tn' → ∀ e ∈ s.prime, e.1.tg = tid' →
          e.1.task = tskid → e.1.alg = algid →
          ∃ sv v, keyNames s e.1 = .ok (e.1.run, tn', taskn, algn, sv, v) := by
        intro tid' tn' htid' e he e1 e2 e3
        obtain ⟨tn2, task2, alg2, sv2, v2, hki, o1, o2, o3, o4, o5⟩ := hc e he
        have hkn := keyNames_of_keyIs h ho hki o1 o2 o3 o4 o5
        have a1 : tn2 = tn' := (nodup_idx_iff tT.nodup hki.1 htid').mp e1
        have a2 : task2 = taskn := (nodup_idx_iff tK.nodup hki.2.1 htk).mp e2
        have a3 : alg2.1 = algn := by
          have := (mem_subset_ids tA h3 (by simp) o3 hki.2.2.1).mp (e3 ▸ hmem)
          exact this.2
        exact ⟨sv2.1, v2.1, by rw [hkn, a1, a2, a3]⟩
      cases hs : subprimeMax s tid tskid algid with
      | some r' =>
        rw [hs] at hr
        cases hr
        obtain ⟨⟨e, he, e0, e1, e2, e3⟩, hmax⟩ := subprimeMax_spec hs
        obtain ⟨sv, v, hk⟩ := key tid tn htid e he e1 e2 e3
        refine ⟨e, he, e0, ⟨tn, sv, v, by rw [← e0]; exact hk, Or.inl rfl⟩, ?_⟩
        intro e' he' f1 f2 f3
        exact hmax e' he' (f1.trans e1) (f2.trans e2) (f3.trans e3)
      | none =>
        rw [hs] at hr
        simp only at hr
        cases hall : s.target.dict.lookup allName with
        | none => rw [hall] at hr; cases hr
        | some allid =>
          rw [hall] at hr
          simp only at hr
          have hs2 : subprimeMax s allid tskid algid = some r := by
            cases hh : subprimeMax s allid tskid algid with
            | none => rw [hh] at hr; cases hr
            | some r2 => rw [hh] at hr; cases hr; rfl
          obtain ⟨⟨e, he, e0, e1, e2, e3⟩, hmax⟩ := subprimeMax_spec hs2
          have hall' : s.target.names[allid]? = some allName := (tT.lookup_iff _ _).mp hall
          obtain ⟨sv, v, hk⟩ := key allid allName hall' e he e1 e2 e3
          refine ⟨e, he, e0, ⟨allName, sv, v, by rw [← e0]; exact hk, Or.inr rfl⟩, ?_⟩
          intro e' he' f1 f2 f3
          exact hmax e' he' (f1.trans e1) (f2.trans e2) (f3.trans e3)

/-- and nothing is reported only when nothing is stored under that entry (for the target or `__all__`) -/
theorem traceCell_none {s : St} {tid : Nat} {taskn algn : Name}
    (hr : traceCell s tid (taskn, algn) = .ok none) :
    ∃ tskid algid, s.task.dict.lookup taskn = some tskid ∧ latestAlg s algn tskid = .ok algid ∧
      (∀ e ∈ s.prime, ¬ (e.1.tg = tid ∧ e.1.task = tskid ∧ e.1.alg = algid)) ∧
      (∀ allid, s.target.dict.lookup allName = some allid →
        ∀ e ∈ s.prime, ¬ (e.1.tg = allid ∧ e.1.task = tskid ∧ e.1.alg = algid)) := by
  unfold traceCell at hr
  simp only at hr
  cases hl : s.task.dict.lookup taskn with
  | none => rw [hl] at hr; cases hr
  | some tskid =>
    rw [hl] at hr
    simp only at hr
    cases hla : latestAlg s algn tskid with
    | error e => rw [hla] at hr; cases hr
    | ok algid =>
      rw [hla] at hr
      simp only at hr
      cases hs : subprimeMax s tid tskid algid with
      | some r' => rw [hs] at hr; cases hr
      | none =>
        rw [hs] at hr
        simp only at hr
        refine ⟨tskid, algid, rfl, hla, subprimeMax_none hs, ?_⟩
        intro allid hall
        rw [hall] at hr
        simp only at hr
        have : subprimeMax s allid tskid algid = none := by
          cases hh : subprimeMax s allid tskid algid with
          | none => rfl
          | some r2 => rw [hh] at hr; cases hr
        exact subprimeMax_none this

theorem trace_rows {s : St} {tans : List (Name × Name)} {res} (h : trace s tans = .ok res) :
    s.opened = true ∧ ∀ row ∈ res, ∃ t ∈ s.target.dict, row.1 = t.1 ∧
      ∀ cell ∈ row.2, traceCell s t.2 (cell.1, cell.2.1) = .ok (some cell.2.2) ∧ (cell.1, cell.2.1) ∈ tans := by
  unfold trace at h
  cases ho : s.opened with
  | false => simp [ho] at h
  | true =>
    refine ⟨rfl, ?_⟩
    simp only [ho, Bool.not_true, Bool.false_eq_true, if_false] at h
    intro row hrow
    obtain ⟨t, ht, hrow'⟩ := mapM_except_mem _ _ _ h row hrow
    refine ⟨t, (List.mem_filter.mp ht).1, ?_⟩
    cases hm : tans.mapM (fun tan => (traceCell s t.2 tan).map (fun r => (tan, r))) with
    | error e => rw [hm] at hrow'; cases hrow'
    | ok cells =>
      rw [hm] at hrow'
      cases hrow'
      refine ⟨rfl, ?_⟩
      intro cell hcell
      simp only [List.mem_filterMap] at hcell
      obtain ⟨c, hc, hce⟩ := hcell
      obtain ⟨tan, htan, hx⟩ := mapM_except_mem _ _ _ hm c hc
      cases hcr : c.2 with
      | none => rw [hcr] at hce; cases hce
      | some r =>
        rw [hcr] at hce
        simp only [Option.map_some, Option.some.injEq] at hce
        subst hce
        simp only
        cases htc : traceCell s t.2 tan with
        | error e => rw [htc] at hx; cases hx
        | ok rr =>
          rw [htc] at hx
          cases hx
          simp only at hcr
          subst hcr
          exact ⟨htc, htan⟩

/-! ### `reset` -/

theorem mem_primeSubset {s : St} {pk : List Nat} (hpk : pk ≠ []) (e : Key × Name) :
    e ∈ primeSubset s pk ↔ e ∈ s.prime ∧ pk <+: e.1.toList ∧ pk.length < 6 := by
  unfold primeSubset
  rw [List.mem_filter, tuple_prefix_iff _ _ hpk]
  simp [Key.toList]

theorem resetStep_of_keyIs {s : St} (h : Inv s) (ho : s.opened = true) (svNames : List Name) {k : Key}
    {tn task : Name} {alg sv v : Name × Ver} (hk : KeyIs s k tn task alg sv v) (h3 : NameOK alg.1)
    (h4 : NameOK sv.1) :
    resetStep s svNames k = .ok ⟨k, alg.2, sv.1, if svNames.contains sv.1 then some sv.2 else none⟩ := by
  have i3 := index_eq_names h ho .alg; have i4 := index_eq_names h ho .state
  simp only [St.tbl] at i3 i4
  unfold resetStep
  rw [i3, i4, hk.2.2.1, hk.2.2.2.1]
  simp only [dissect_construct h3, dissect_construct h4]
  split <;> rfl

/-- the primary keys `reset` consults -/
theorem resetTab_spec (s : St) (run tnid tskid : Nat) (algn : Name) :
    (∀ e ∈ resetTab s run tnid tskid algn,
      e ∈ s.prime ∧ e.1.run = run ∧ e.1.tg = tnid ∧ e.1.task = tskid) ∧
    ((∃ e0 ∈ s.prime, e0.1.run = run ∧ e0.1.tg = tnid ∧ e0.1.task = tskid ∧
        e0.1.alg ∈ (subset s.alg.dict algn [tskid]).map (·.2)) →
      ∀ e ∈ resetTab s run tnid tskid algn, e.1.alg ∈ (subset s.alg.dict algn [tskid]).map (·.2)) := by
  have p4 : ∀ algi e, e ∈ primeSubset s [run, tnid, tskid, algi] ↔
      e ∈ s.prime ∧ e.1.run = run ∧ e.1.tg = tnid ∧ e.1.task = tskid ∧ e.1.alg = algi := by
    intro algi e
    rw [mem_primeSubset (by simp)]
    simp only [Key.toList, List.cons_prefix_cons, List.length_cons, List.length_nil]
    constructor
    · rintro ⟨he, ⟨a, b, c, d, _⟩, _⟩; exact ⟨he, a.symm, b.symm, c.symm, d.symm⟩
    · rintro ⟨he, a, b, c, d⟩; exact ⟨he, ⟨a.symm, b.symm, c.symm, d.symm, List.nil_prefix⟩, by omega⟩
  have p3 : ∀ e, e ∈ primeSubset s [run, tnid, tskid] ↔
      e ∈ s.prime ∧ e.1.run = run ∧ e.1.tg = tnid ∧ e.1.task = tskid := by
    intro e
    rw [mem_primeSubset (by simp)]
    simp only [Key.toList, List.cons_prefix_cons, List.length_cons, List.length_nil]
    constructor
    · rintro ⟨he, ⟨a, b, c, _⟩, _⟩; exact ⟨he, a.symm, b.symm, c.symm⟩
    · rintro ⟨he, a, b, c⟩; exact ⟨he, ⟨a.symm, b.symm, c.symm, List.nil_prefix⟩, by omega⟩
  unfold resetTab
  simp only
  cases hf : ((subset s.alg.dict algn [tskid]).map (·.2)).find?
      (fun algi => !(primeSubset s [run, tnid, tskid, algi]).isEmpty) with
  | some algi =>
    simp only
    have hmem := List.mem_of_find?_eq_some hf
    constructor
    · intro e he
      have := (p4 algi e).mp he
      exact ⟨this.1, this.2.1, this.2.2.1, this.2.2.2.1⟩
    · intro _ e he
      rw [((p4 algi e).mp he).2.2.2.2]; exact hmem
  | none =>
    simp only
    constructor
    · intro e he; exact (p3 e).mp he
    · rintro ⟨e0, he0, a, b, c, d⟩
      exfalso
      have := List.find?_eq_none.mp hf e0.1.alg d
      apply this
      have : e0 ∈ primeSubset s [run, tnid, tskid, e0.1.alg] := (p4 _ e0).mpr ⟨he0, a, b, c, rfl⟩
      cases hl : primeSubset s [run, tnid, tskid, e0.1.alg] with
      | nil => rw [hl] at this; cases this
      | cons _ _ => rfl

theorem reset_spec {s : St} (h : Inv s) (ho : s.opened = true) (hc : ChainOK s) {rid : Nat}
    {tn taskn algn : Name} {svNames : List Name} {steps : List ResetStep} (h3 : NameOK algn)
    (hr : reset s rid tn taskn algn svNames = .ok steps) :
    (∀ st ∈ steps, (∃ e ∈ s.prime, e.1 = st.key) ∧ ∃ alg sv v, KeyIs s st.key tn taskn alg sv v ∧
      NameOK tn ∧ NameOK taskn ∧ NameOK alg.1 ∧ NameOK sv.1 ∧ NameOK v.1 ∧ st.key.run = rid ∧
      st.algVer = alg.2 ∧ st.svName = sv.1 ∧
      st.svVer = (if svNames.contains sv.1 then some sv.2 else none)) ∧
    ((∃ e0 ∈ s.prime, ∃ sv v, keyNames s e0.1 = .ok (rid, tn, taskn, algn, sv, v)) →
      ∀ st ∈ steps, ∃ alg sv v, KeyIs s st.key tn taskn alg sv v ∧ alg.1 = algn) := by
  have tT := h.tbls .target; have tK := h.tbls .task; have tA := h.tbls .alg
  simp only [St.tbl] at tT tK tA
  unfold reset at hr
  simp only [ho, Bool.not_true, Bool.false_eq_true, if_false] at hr
  cases hl1 : s.target.dict.lookup tn with
  | none => rw [hl1] at hr; cases hr
  | some tnid =>
    cases hl2 : s.task.dict.lookup taskn with
    | none => rw [hl1, hl2] at hr; cases hr
    | some tskid =>
      rw [hl1, hl2] at hr
      simp only at hr
      have htn := (tT.lookup_iff _ _).mp hl1
      have htk := (tK.lookup_iff _ _).mp hl2
      obtain ⟨tab1, tab2⟩ := resetTab_spec s rid tnid tskid algn
      have step : ∀ st ∈ steps, ∃ e ∈ resetTab s rid tnid tskid algn, ∃ alg sv v,
          KeyIs s e.1 tn taskn alg sv v ∧ NameOK tn ∧ NameOK taskn ∧ NameOK alg.1 ∧ NameOK sv.1 ∧
          NameOK v.1 ∧
          st = ⟨e.1, alg.2, sv.1, if svNames.contains sv.1 then some sv.2 else none⟩ := by
        intro st hst
        obtain ⟨e, he, hse⟩ := mapM_except_mem _ _ _ hr st hst
        obtain ⟨hep, e1, e2, e3⟩ := tab1 e he
        obtain ⟨tn', task', alg', sv', v', hki, o1, o2, o3, o4, o5⟩ := hc e hep
        have a1 : tn' = tn := (nodup_idx_iff tT.nodup hki.1 htn).mp e2
        have a2 : task' = taskn := (nodup_idx_iff tK.nodup hki.2.1 htk).mp e3
        subst a1; subst a2
        rw [resetStep_of_keyIs h ho svNames hki o3 o4] at hse
        exact ⟨e, he, alg', sv', v', hki, o1, o2, o3, o4, o5, (Except.ok.inj hse).symm⟩
      constructor
      · intro st hst
        obtain ⟨e, he, alg, sv, v, hki, o1, o2, o3, o4, o5, rfl⟩ := step st hst
        obtain ⟨hep, e1, _, _⟩ := tab1 e he
        exact ⟨⟨e, hep, rfl⟩, alg, sv, v, hki, o1, o2, o3, o4, o5, e1, rfl, rfl, rfl⟩
      · rintro ⟨e0, he0, sv0, v0, hk0⟩ st hst
        obtain ⟨tn', task', alg', sv', v', hki, o1, o2, o3, o4, o5⟩ := hc e0 he0
        rw [keyNames_of_keyIs h ho hki o1 o2 o3 o4 o5] at hk0
        have hk0 := Except.ok.inj hk0
        simp only [Prod.mk.injEq] at hk0
        obtain ⟨b0, b1, b2, b3, _, _⟩ := hk0
        subst b1; subst b2
        have c1 : e0.1.tg = tnid := (nodup_idx_iff tT.nodup hki.1 htn).mpr rfl
        have c2 : e0.1.task = tskid := (nodup_idx_iff tK.nodup hki.2.1 htk).mpr rfl
        have c3 : e0.1.alg ∈ (subset s.alg.dict algn [tskid]).map (·.2) :=
          (mem_subset_ids tA h3 (by simp) o3 hki.2.2.1).mpr ⟨by simp [c2], b3⟩
        obtain ⟨e, he, alg, sv, v, hki', _, _, p3, _, _, rfl⟩ := step st hst
        have := tab2 ⟨e0, he0, b0, c1, c2, c3⟩ e he
        exact ⟨alg, sv, v, hki', ((mem_subset_ids tA h3 (by simp) p3 hki'.2.2.1).mp this).2⟩

end DawgieVerif.Store
