import DawgieVerif.Proofs.SchedMsgs

namespace DawgieVerif.Sched

/-! ### quiescence: always-answering workers, no further external events -/

/-- what a worker answers for a unit: outcome, the values it reports new, whether the report
    carries values at all, and the run id -/
structure Answer where
  outcome : Outcome
  news : List Val
  nonempty : Bool
  rid : Nat

def answer (g : Graph) (ans : Name → Target → Answer) (s : St) (p : Name × Target) : St :=
  (reply g s p.1 p.2 (ans p.1 p.2).outcome (ans p.1 p.2).rid (ans p.1 p.2).news
    (ans p.1 p.2).nonempty).1

/-- every unit of `l` is answered, in order -/
def answerAll (g : Graph) (ans : Name → Target → Answer) (s : St) (l : List (Name × Target)) : St :=
  l.foldl (answer g ans) s

/-- one round: a dispatch tick, then every unit in flight is answered -/
def round (g : Graph) (ans : Name → Target → Answer) (s : St) : St :=
  answerAll g ans (dispatch g s).1 (dispatch g s).1.inflight

def rounds (g : Graph) (ans : Name → Target → Answer) : Nat → St → St
  | 0, s => s
  | k + 1, s => rounds g ans k (round g ans s)

theorem reply_inflight (g : Graph) (s : St) (x : Name) (t : Target) (o : Outcome) (rid : Nat)
    (news : List Val) (ne : Bool) :
    (reply g s x t o rid news ne).1.inflight = s.inflight.erase (x, t) := by
  unfold reply
  dsimp only
  split
  · cases o
    · rw [update_inflight]; rfl
    · rfl
    · rfl
  · rfl

theorem update_paused (g : Graph) (s : St) (x : Name) (t : Target) (rid : Nat) (news : List Val)
    (ne : Bool) : (update g s x t rid news ne).paused = s.paused := by
  unfold update
  split
  · rfl
  · dsimp only; split <;> rfl

theorem reply_paused (g : Graph) (s : St) (x : Name) (t : Target) (o : Outcome) (rid : Nat)
    (news : List Val) (ne : Bool) : (reply g s x t o rid news ne).1.paused = s.paused := by
  unfold reply
  dsimp only
  split
  · cases o
    · dsimp only; rw [update_paused]; rfl
    · rfl
    · rfl
  · rfl

/-- answering a duplicate-free list of units that are in flight keeps both invariants and
    removes exactly those units from flight -/
theorem answerAll_inv (g : Graph) (ans : Name → Target → Answer) (l : List (Name × Target)) (s : St)
    (hi : Inv s) (h2 : Inv2 g s) (hl : ∀ p ∈ l, p ∈ s.inflight) (hnd : l.Nodup) :
    Inv (answerAll g ans s l) ∧ Inv2 g (answerAll g ans s l) ∧
    (∀ p, p ∈ (answerAll g ans s l).inflight ↔ p ∈ s.inflight ∧ p ∉ l) ∧
    (answerAll g ans s l).paused = s.paused := by
  induction l generalizing s with
  | nil => exact ⟨hi, h2, by simp [answerAll], rfl⟩
  | cons p ps ih =>
    rw [List.nodup_cons] at hnd
    have hp : p ∈ s.inflight := hl p (by simp)
    have hi' : Inv (answer g ans s p) := reply_inv g s p.1 p.2 _ _ _ _ hi
    have h2' : Inv2 g (answer g ans s p) := reply_inv2 g s p.1 p.2 _ _ _ _ hi h2 hp
    have hfl : (answer g ans s p).inflight = s.inflight.erase p := reply_inflight g s p.1 p.2 _ _ _ _
    have hl' : ∀ q ∈ ps, q ∈ (answer g ans s p).inflight := by
      intro q hq
      rw [hfl, List.Nodup.mem_erase_iff h2.nd]
      exact ⟨fun c => hnd.1 (c ▸ hq), hl q (by simp [hq])⟩
    obtain ⟨a, b, c, d⟩ := ih (answer g ans s p) hi' h2' hl' hnd.2
    refine ⟨a, b, ?_, ?_⟩
    · intro q
      simp only [answerAll, List.foldl_cons] at c ⊢
      rw [c q, hfl, List.Nodup.mem_erase_iff h2.nd]
      simp only [List.mem_cons, not_or]
      constructor
      · rintro ⟨⟨h1, h3⟩, h4⟩; exact ⟨h3, h1, h4⟩
      · rintro ⟨h3, h1, h4⟩; exact ⟨⟨h1, h3⟩, h4⟩
    · simp only [answerAll, List.foldl_cons] at d ⊢
      rw [d]; exact reply_paused g s p.1 p.2 _ _ _ _

theorem dispatch_paused (g : Graph) (s : St) : (dispatch g s).1.paused = s.paused := by
  unfold dispatch
  split
  · rfl
  · dsimp only
    have : ∀ (js : List Name) (s : St), (js.foldl (putJob g) s).paused = s.paused := by
      intro js
      induction js with
      | nil => intro s; rfl
      | cons x xs ih => intro s; simp only [List.foldl_cons]; rw [ih]; rfl
    rw [this]
    have : ∀ (q : List Name) (s : St), (releaseAll g s q).1.paused = s.paused := by
      intro q
      induction q with
      | nil => intro s; rfl
      | cons x xs ih => intro s; simp only [releaseAll]; rw [ih]; rfl
    rw [this]

/-- after a round both invariants hold again and nothing is in flight -/
theorem round_inv (g : Graph) (ans : Name → Target → Answer) (s : St) (hi : Inv s) (h2 : Inv2 g s) :
    Inv (round g ans s) ∧ Inv2 g (round g ans s) ∧ (round g ans s).inflight = [] ∧
    (round g ans s).paused = s.paused := by
  have hi' := dispatch_inv g s hi
  have h2' := dispatch_inv2 g s h2
  obtain ⟨a, b, c, d⟩ := answerAll_inv g ans (dispatch g s).1.inflight (dispatch g s).1 hi' h2'
    (fun p hp => hp) h2'.nd
  refine ⟨a, b, ?_, by rw [← dispatch_paused g s]; exact d⟩
  rw [List.eq_nil_iff_forall_not_mem]
  intro p hp
  have := (c p).1 hp
  exact this.2 this.1

end DawgieVerif.Sched
