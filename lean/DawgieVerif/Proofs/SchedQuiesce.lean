import DawgieVerif.Proofs.SchedMsgs

namespace DawgieVerif.Sched

/-! ### quiescence: always-answering workers, no further external events -/

/-- what a worker answers for a unit: outcome, the values it reports new, whether the report
    carries values at all, and the run id -/
structure Answer where
  outcome : Outcome
  news : List Val
  nonempty : Bool
  rid : Nat

def answer (g : Graph) (ans : Name → Target → Answer) (s : St) (p : Name × Target) : St :=
  (reply g s p.1 p.2 (ans p.1 p.2).outcome (ans p.1 p.2).rid (ans p.1 p.2).news
    (ans p.1 p.2).nonempty).1

/-- every unit of `l` is answered, in order -/
def answerAll (g : Graph) (ans : Name → Target → Answer) (s : St) (l : List (Name × Target)) : St :=
  l.foldl (answer g ans) s

/-- one round: a dispatch tick, then every unit in flight is answered -/
def round (g : Graph) (ans : Name → Target → Answer) (s : St) : St :=
  answerAll g ans (dispatch g s).1 (dispatch g s).1.inflight

def rounds (g : Graph) (ans : Name → Target → Answer) : Nat → St → St
  | 0, s => s
  | k + 1, s => rounds g ans k (round g ans s)

theorem reply_inflight (g : Graph) (s : St) (x : Name) (t : Target) (o : Outcome) (rid : Nat)
    (news : List Val) (ne : Bool) :
    (reply g s x t o rid news ne).1.inflight = s.inflight.erase (x, t) := by
  unfold reply
  dsimp only
  split
  · cases o
    · rw [update_inflight]; rfl
    · rfl
    · rfl
  · rfl

theorem update_paused (g : Graph) (s : St) (x : Name) (t : Target) (rid : Nat) (news : List Val)
    (ne : Bool) : (update g s x t rid news ne).paused = s.paused := by
  unfold update
  split
  · rfl
  · dsimp only; split <;> rfl

theorem reply_paused (g : Graph) (s : St) (x : Name) (t : Target) (o : Outcome) (rid : Nat)
    (news : List Val) (ne : Bool) : (reply g s x t o rid news ne).1.paused = s.paused := by
  unfold reply
  dsimp only
  split
  · cases o
    · dsimp only; rw [update_paused]; rfl
    · rfl
    · rfl
  · rfl

/-- answering a duplicate-free list of units that are in flight keeps both invariants and
    removes exactly those units from flight -/
theorem answerAll_inv (g : Graph) (ans : Name → Target → Answer) (l : List (Name × Target)) (s : St)
    (hi : Inv s) (h2 : Inv2 g s) (hl : ∀ p ∈ l, p ∈ s.inflight) (hnd : l.Nodup) :
    Inv (answerAll g ans s l) ∧ Inv2 g (answerAll g ans s l) ∧
    (∀ p, p ∈ (answerAll g ans s l).inflight ↔ p ∈ s.inflight ∧ p ∉ l) ∧
    (answerAll g ans s l).paused = s.paused := by
  induction l generalizing s with
  | nil => exact ⟨hi, h2, by simp [answerAll], rfl⟩
  | cons p ps ih =>
    rw [List.nodup_cons] at hnd
    have hp : p ∈ s.inflight := hl p (by simp)
    have hi' : Inv (answer g ans s p) := reply_inv g s p.1 p.2 _ _ _ _ hi
    have h2' : Inv2 g (answer g ans s p) := reply_inv2 g s p.1 p.2 _ _ _ _ hi h2 hp
    have hfl : (answer g ans s p).inflight = s.inflight.erase p := reply_inflight g s p.1 p.2 _ _ _ _
    have hl' : ∀ q ∈ ps, q ∈ (answer g ans s p).inflight := by
      intro q hq
      rw [hfl, List.Nodup.mem_erase_iff h2.nd]
      exact ⟨fun c => hnd.1 (c ▸ hq), hl q (by simp [hq])⟩
    obtain ⟨a, b, c, d⟩ := ih (answer g ans s p) hi' h2' hl' hnd.2
    refine ⟨a, b, ?_, ?_⟩
    · intro q
      simp only [answerAll, List.foldl_cons] at c ⊢
      rw [c q, hfl, List.Nodup.mem_erase_iff h2.nd]
      simp only [List.mem_cons, not_or]
      constructor
      · rintro ⟨⟨h1, h3⟩, h4⟩; exact ⟨h3, h1, h4⟩
      · rintro ⟨h3, h1, h4⟩; exact ⟨⟨h1, h3⟩, h4⟩
    · simp only [answerAll, List.foldl_cons] at d ⊢
      rw [d]; exact reply_paused g s p.1 p.2 _ _ _ _

theorem dispatch_paused (g : Graph) (s : St) : (dispatch g s).1.paused = s.paused := by
  unfold dispatch
  split
  · rfl
  · dsimp only
    have : ∀ (js : List Name) (s : St), (js.foldl (putJob g) s).paused = s.paused := by
      intro js
      induction js with
      | nil => intro s; rfl
      | cons x xs ih => intro s; simp only [List.foldl_cons]; rw [ih]; rfl
    rw [this]
    have : ∀ (q : List Name) (s : St), (releaseAll g s q).1.paused = s.paused := by
      intro q
      induction q with
      | nil => intro s; rfl
      | cons x xs ih => intro s; simp only [releaseAll]; rw [ih]; rfl
    rw [this]

/-- after a round both invariants hold again and nothing is in flight -/
theorem round_inv (g : Graph) (ans : Name → Target → Answer) (s : St) (hi : Inv s) (h2 : Inv2 g s) :
    Inv (round g ans s) ∧ Inv2 g (round g ans s) ∧ (round g ans s).inflight = [] ∧
    (round g ans s).paused = s.paused := by
  have hi' := dispatch_inv g s hi
  have h2' := dispatch_inv2 g s h2
  obtain ⟨a, b, c, d⟩ := answerAll_inv g ans (dispatch g s).1.inflight (dispatch g s).1 hi' h2'
    (fun p hp => hp) h2'.nd
  refine ⟨a, b, ?_, by rw [← dispatch_paused g s]; exact d⟩
  rw [List.eq_nil_iff_forall_not_mem]
  intro p hp
  have := (c p).1 hp
  exact this.2 this.1


/-! ### progress by rank -/

/-- an acyclic, feedback-free graph: `rank` grows along dependencies and is bounded -/
structure Ranked (g : Graph) (rank : Name → Nat) (R : Nat) : Prop where
  anc : ∀ x a, a ∈ g.ancestry x → rank a < rank x
  kid : ∀ x c, c ∈ g.children x → rank x < rank c
  bound : ∀ n, rank n ≤ R
  nofb : ∀ v, g.feedbackTo v = none

/-- nothing pending or executing at any node of rank below `k` -/
def CleanBelow (rank : Name → Nat) (k : Nat) (s : St) : Prop :=
  ∀ n, rank n < k → (s.node n).todo = [] ∧ (s.node n).doing = []

theorem fedBack_nil (g : Graph) (news : List Val) (h : ∀ v, g.feedbackTo v = none) :
    fedBack g news = [] := by
  unfold fedBack
  induction news with
  | nil => rfl
  | cons v vs ih => simp [List.filterMap_cons, h v, ih]

theorem mem_dependents (g : Graph) (x : Name) (news : List Val) (c : Name)
    (h : c ∈ dependents g x news) : c ∈ g.children x := by
  unfold dependents at h
  exact (List.mem_filter.1 h).1

/-- an answer for `(x, t)` can only shrink the pending and executing sets of nodes whose rank
    is not above that of `x` -/
theorem reply_low (g : Graph) (rank : Name → Nat) (R : Nat) (hr : Ranked g rank R)
    (s : St) (hi : Inv s) (x : Name) (t : Target) (o : Outcome) (rid : Nat) (news : List Val)
    (ne : Bool) (n : Name) (hn : rank n ≤ rank x) :
    (∀ u, u ∈ ((reply g s x t o rid news ne).1.node n).todo → u ∈ (s.node n).todo) ∧
    (∀ u, u ∈ ((reply g s x t o rid news ne).1.node n).doing → u ∈ (s.node n).doing) := by
  unfold reply
  dsimp only
  split
  · -- the job was found: complete, then update / purge
    have hc1 : ∀ u, u ∈ ((complete { s with inflight := s.inflight.erase (x, t) } x t o rid).node n).todo →
        u ∈ (s.node n).todo := by
      intro u hu; rw [complete_todo] at hu; exact hu
    have hc2 : ∀ u, u ∈ ((complete { s with inflight := s.inflight.erase (x, t) } x t o rid).node n).doing →
        u ∈ (s.node n).doing := by
      intro u hu
      unfold complete at hu
      dsimp only [prune_node] at hu
      by_cases hx : n = x
      · subst hx; simp only [setNode_same] at hu; exact (mem_completeNode_doing hu).1
      · rw [setNode_other _ _ _ _ hx] at hu; exact hu
    cases o
    · -- success: only dependents (children of x, of larger rank) are organised
      dsimp only
      unfold update
      split
      · exact ⟨hc1, hc2⟩
      · dsimp only
        rw [fedBack_nil g news hr.nofb]
        have hnot : n ∉ updNames g x news := by
          intro hmem
          rcases mem_updNames.1 hmem with hmem | hmem
          · rw [fedBack_nil g news hr.nofb] at hmem; simp at hmem
          · have := hr.kid x n (mem_dependents g x news n hmem)
            omega
        split
        · rw [organize_node]
          have hsp := orgFold_spec g (complete { s with inflight := s.inflight.erase (x, t) } x t .success rid).targets
            [] (if ([] : List Name).isEmpty then some rid else none) []
            (complete { s with inflight := s.inflight.erase (x, t) } x t .success rid).node n
          rw [hsp.2.2.2.2 (by simp)]
          exact ⟨hc1, hc2⟩
        · rw [organize_node]
          have hsp := orgFold_spec g (complete { s with inflight := s.inflight.erase (x, t) } x t .success rid).targets
            [t] (if ([] : List Name).isEmpty then some rid else none) (updNames g x news)
            (complete { s with inflight := s.inflight.erase (x, t) } x t .success rid).node n
          rw [hsp.2.2.2.2 hnot]
          exact ⟨hc1, hc2⟩
    · dsimp only
      have hci := complete_pre s x t .failure rid hi
      refine ⟨fun u hu => hc1 u (purge_todo_sub g _ x t n u hu), ?_⟩
      intro u hu
      unfold purge at hu
      dsimp only [prune_node] at hu
      split at hu
      · rw [purgeNode_doing t _ (hci.dr n)] at hu; exact hc2 u hu
      · exact hc2 u hu
    · dsimp only
      have hci := complete_pre s x t .invalid rid hi
      refine ⟨fun u hu => hc1 u (purge_todo_sub g _ x t n u hu), ?_⟩
      intro u hu
      unfold purge at hu
      dsimp only [prune_node] at hu
      split at hu
      · rw [purgeNode_doing t _ (hci.dr n)] at hu; exact hc2 u hu
      · exact hc2 u hu
  · exact ⟨fun u hu => hu, fun u hu => hu⟩


/-- answering units whose algorithms all have rank `≥ k` can only shrink what nodes of rank
    `≤ k` have pending or executing -/
theorem answerAll_low (g : Graph) (rank : Name → Nat) (R : Nat) (hr : Ranked g rank R)
    (ans : Name → Target → Answer) (k : Nat) (l : List (Name × Target)) (s : St)
    (hi : Inv s) (h2 : Inv2 g s) (hl : ∀ p ∈ l, p ∈ s.inflight) (hnd : l.Nodup)
    (hk : ∀ p ∈ l, k ≤ rank p.1) (n : Name) (hn : rank n ≤ k) :
    (∀ u, u ∈ ((answerAll g ans s l).node n).todo → u ∈ (s.node n).todo) ∧
    (∀ u, u ∈ ((answerAll g ans s l).node n).doing → u ∈ (s.node n).doing) := by
  induction l generalizing s with
  | nil => exact ⟨fun u hu => hu, fun u hu => hu⟩
  | cons p ps ih =>
    rw [List.nodup_cons] at hnd
    have hp : p ∈ s.inflight := hl p (by simp)
    have hi' : Inv (answer g ans s p) := reply_inv g s p.1 p.2 _ _ _ _ hi
    have h2' : Inv2 g (answer g ans s p) := reply_inv2 g s p.1 p.2 _ _ _ _ hi h2 hp
    have hfl : (answer g ans s p).inflight = s.inflight.erase p := reply_inflight g s p.1 p.2 _ _ _ _
    have hl' : ∀ q ∈ ps, q ∈ (answer g ans s p).inflight := by
      intro q hq
      rw [hfl, List.Nodup.mem_erase_iff h2.nd]
      exact ⟨fun c => hnd.1 (c ▸ hq), hl q (by simp [hq])⟩
    obtain ⟨a, b⟩ := ih (answer g ans s p) hi' h2' hl' hnd.2 (fun q hq => hk q (by simp [hq]))
    have hlow := reply_low g rank R hr s hi p.1 p.2 (ans p.1 p.2).outcome (ans p.1 p.2).rid
      (ans p.1 p.2).news (ans p.1 p.2).nonempty n (Nat.le_trans hn (hk p (by simp)))
    simp only [answerAll, List.foldl_cons] at a b ⊢
    exact ⟨fun u hu => hlow.1 u (a u hu), fun u hu => hlow.2 u (b u hu)⟩

/-- One round makes progress by one rank: with nothing in flight and everything of rank below
    `k` clean, a round leaves everything of rank below `k + 1` clean (and again nothing in flight). -/
theorem round_progress (g : Graph) (rank : Name → Nat) (R : Nat) (hr : Ranked g rank R)
    (ans : Name → Target → Answer) (k : Nat) (s : St) (hi : Inv s) (h2 : Inv2 g s)
    (hp : s.paused = false) (hfl : s.inflight = []) (hc : CleanBelow rank k s) :
    CleanBelow rank (k + 1) (round g ans s) := by
  have hdoing : ∀ m, (s.node m).doing = [] := by
    intro m
    rw [List.eq_nil_iff_forall_not_mem]
    intro t ht
    have := hi.di m t ht
    rw [hfl] at this; simp at this
  have hnotrun : ∀ m, (s.node m).running = false := by
    intro m
    cases hrn : (s.node m).running
    · rfl
    · obtain ⟨t, ht⟩ := hi.ri m hrn
      rw [hfl] at ht; simp at ht
  -- after the dispatch tick: nothing pending at ranks ≤ k
  have hs1 : ∀ n, rank n ≤ k → ((dispatch g s).1.node n).todo = [] := by
    intro n hn
    rw [List.eq_nil_iff_forall_not_mem]
    intro u hu
    have hsame := dispatch_same g s
    unfold dispatch at hu hsame
    simp only [hp, Bool.false_eq_true, if_false] at hu hsame
    have hrel := releaseAll_rel g s s.que
    have hu1 : u ∈ ((releaseAll g s s.que).1.node n).todo := by
      rw [← ((foldl_putJob_spec g _ _).2.2 n).1]; exact hu
    have hu0 : u ∈ (s.node n).todo := hrel.todo n u hu1
    by_cases hlt : rank n < k
    · rw [(hc n hlt).1] at hu0; simp at hu0
    · -- rank n = k: the unit is runnable, hence released, hence gone from todo
      have hrun : Runnable g s n u := by
        refine ⟨hu0, by rw [hdoing n]; simp, ?_, ?_⟩
        · intro hne hall
          by_cases hka : g.kind n = .analysis
          · exact hne ((h2.ka n hka).1 u hu0)
          · exact (h2.kt n hka).1 hall
        · intro a ha
          have hlt' : rank a < k := by have := hr.anc n a ha; omega
          obtain ⟨c1, c2⟩ := hc a hlt'
          refine ⟨by simp [busy, c1, c2], by simp [busy, c1, c2], ?_⟩
          intro _ haq
          have hl := hi.ql a haq
          rw [live_iff, c1, c2, hnotrun a] at hl
          simp at hl
      have hxq : n ∈ s.que := hi.lq n (live_of_work (Or.inl (List.ne_nil_of_mem hu0)))
      have hreleased := runnable_released_aux g s n u hrun s.que hxq s (Same.refl s) rfl
      exact hrel.gone n u hreleased hu1
  have hi1 := dispatch_inv g s hi
  have h21 := dispatch_inv2 g s h2
  -- every unit in flight after the tick sits at rank ≥ k
  have hsame := dispatch_same g s
  have hk : ∀ p ∈ (dispatch g s).1.inflight, k ≤ rank p.1 := by
    intro p hp'
    have hd := h21.fd p.1 p.2 hp'
    have hb : busy s p.1 p.2 := (hsame.2 p.1 p.2).1 (Or.inr hd)
    by_cases hlt : rank p.1 < k
    · obtain ⟨c1, c2⟩ := hc p.1 hlt
      unfold busy at hb; rw [c1, c2] at hb; simp at hb
    · omega
  intro n hn
  have hn' : rank n ≤ k := by omega
  obtain ⟨a, b⟩ := answerAll_low g rank R hr ans k (dispatch g s).1.inflight (dispatch g s).1
    hi1 h21 (fun p hp' => hp') h21.nd hk n hn'
  obtain ⟨hir, _, hflr, _⟩ := round_inv g ans s hi h2
  refine ⟨?_, ?_⟩
  · rw [List.eq_nil_iff_forall_not_mem]
    intro u hu
    have := a u hu
    rw [hs1 n hn'] at this; simp at this
  · rw [List.eq_nil_iff_forall_not_mem]
    intro u hu
    have := hir.di n u hu
    rw [hflr] at this; simp at this

theorem rounds_clean (g : Graph) (rank : Name → Nat) (R : Nat) (hr : Ranked g rank R)
    (ans : Name → Target → Answer) (j : Nat) (k : Nat) (s : St) (hi : Inv s) (h2 : Inv2 g s)
    (hp : s.paused = false) (hfl : s.inflight = []) (hc : CleanBelow rank k s) :
    CleanBelow rank (k + j) (rounds g ans j s) ∧ Inv (rounds g ans j s) ∧
    (rounds g ans j s).inflight = [] := by
  induction j generalizing k s with
  | zero => exact ⟨hc, hi, hfl⟩
  | succ j ih =>
    obtain ⟨a, b, c, d⟩ := round_inv g ans s hi h2
    have hprog := round_progress g rank R hr ans k s hi h2 hp hfl hc
    have := ih (k + 1) (round g ans s) a b (by rw [d]; exact hp) c hprog
    simp only [rounds]
    have e : k + 1 + j = k + (j + 1) := by omega
    rw [e] at this
    exact this

end DawgieVerif.Sched
