import DawgieVerif.Model.Farm

namespace DawgieVerif.Farm
open DawgieVerif.Sched

structure FInv (s : FSt) : Prop where
  alive : ∀ w ∈ s.workers, s.conn w = true
  idle : ∀ w ∈ s.workers, s.holds w = none
  nodup : s.workers.Nodup
  rev : ∀ w ∈ s.workers, ∃ r, s.regRev w = some r ∧ (s.stale = false → r = s.gitRev)
  act : s.active = true → s.stale = false

theorem finv_init (r : Nat) : FInv (FSt.init r) := by
  constructor <;> simp [FSt.init]

@[simp] theorem setF_same {β : Type} (f : Nat → β) (w : Nat) (v : β) : setF f w v w = v := by
  simp [setF]

theorem setF_other {β : Type} (f : Nat → β) (w u : Nat) (v : β) (h : u ≠ w) : setF f w v u = f u := by
  simp [setF, h]

/-- what `assign` does: pairs the first `min` workers with the first `min` messages -/
theorem assign_spec (ws : List Nat) (ms : List Msg) (s : FSt) (hnd : ws.Nodup) :
    (assign ws ms s).log = s.log ++ (ws.zip ms).map (fun p => (p.1, Wire.task p.2)) ∧
    (assign ws ms s).workers = (if (ws.zip ms) = [] then s.workers else ws.drop ms.length) ∧
    (assign ws ms s).cluster = (if (ws.zip ms) = [] then s.cluster else ms.drop ws.length) ∧
    (assign ws ms s).busy = s.busy ++ (ws.zip ms).map (fun p => (p.2.job, p.2.target)) ∧
    (assign ws ms s).active = s.active ∧ (assign ws ms s).gitRev = s.gitRev ∧
    (assign ws ms s).stale = s.stale ∧ (assign ws ms s).regRev = s.regRev ∧
    (assign ws ms s).enq = s.enq ∧
    (∀ u, u ∉ ws.take ms.length → (assign ws ms s).conn u = s.conn u ∧ (assign ws ms s).holds u = s.holds u) ∧
    (∀ u, (assign ws ms s).conn u = s.conn u) := by
  induction ws generalizing ms s with
  | nil => simp [assign]
  | cons w ws ih =>
    cases ms with
    | nil => simp [assign]
    | cons m ms =>
      rw [List.nodup_cons] at hnd
      simp only [assign]
      obtain ⟨h1, h2, h3, h4, h5, h6, h7, h8, h9, h10, h11⟩ := ih ms
        { s with workers := ws, cluster := ms, busy := s.busy ++ [(m.job, m.target)],
                 holds := setF s.holds w (some m), log := s.log ++ [(w, .task m)] } hnd.2
      refine ⟨?_, ?_, ?_, ?_, h5, h6, h7, h8, h9, ?_, h11⟩
      · rw [h1]; simp
      · rw [h2]; simp
        intro hz
        cases ws <;> cases ms <;> simp_all
      · rw [h3]; simp
        intro hz
        cases ws <;> cases ms <;> simp_all
      · rw [h4]; simp
      · intro u hu
        simp only [List.length_cons, List.take_succ_cons, List.mem_cons, not_or] at hu
        obtain ⟨c1, c2⟩ := h10 u hu.2
        exact ⟨c1, by rw [c2]; exact setF_other _ _ _ _ hu.1⟩


theorem assign_workers (ws : List Nat) (ms : List Msg) (s : FSt) (hnd : ws.Nodup)
    (hs : s.workers = ws) : (assign ws ms s).workers = ws.drop ms.length := by
  rw [(assign_spec ws ms s hnd).2.1]
  split
  · rename_i hz
    rw [hs]
    cases ws <;> cases ms <;> simp_all
  · rfl

theorem assign_cluster (ws : List Nat) (ms : List Msg) (s : FSt) (hnd : ws.Nodup)
    (hs : s.cluster = ms) : (assign ws ms s).cluster = ms.drop ws.length := by
  rw [(assign_spec ws ms s hnd).2.2.1]
  split
  · rename_i hz
    rw [hs]
    cases ws <;> cases ms <;> simp_all
  · rfl

theorem mem_zip_fst {α β : Type} {l : List α} {m : List β} {p : α × β} (h : p ∈ l.zip m) :
    p.1 ∈ l.take m.length := by
  induction l generalizing m with
  | nil => simp at h
  | cons a as ih =>
    cases m with
    | nil => simp at h
    | cons b bs =>
      simp only [List.zip_cons_cons, List.mem_cons] at h
      simp only [List.length_cons, List.take_succ_cons, List.mem_cons]
      rcases h with h | h
      · left; rw [h]
      · right; exact ih h

theorem notifyAll_inv (s : FSt) (h : FInv s) : FInv (notifyAll s) := by
  unfold notifyAll
  split
  · exact ⟨h.alive, h.idle, h.nodup, h.rev, h.act⟩
  · constructor <;> simp
    exact h.act

theorem dispatchCore_inv (s : FSt) (new : List Msg) (h : FInv s) : FInv (dispatchCore s new) := by
  unfold dispatchCore
  apply notifyAll_inv
  generalize hc : sortCluster (s.cluster ++ new) = c
  have hsp := assign_spec s.workers c { s with cluster := c, enq := s.enq ++ new } h.nodup
  have hw := assign_workers s.workers c { s with cluster := c, enq := s.enq ++ new } h.nodup rfl
  obtain ⟨_, _, _, _, h5, h6, h7, h8, _, h10, h11⟩ := hsp
  have hsub : ∀ w, w ∈ s.workers.drop c.length → w ∈ s.workers ∧ w ∉ s.workers.take c.length := by
    intro w hw'
    refine ⟨List.mem_of_mem_drop hw', ?_⟩
    intro ht
    have hnd := h.nodup
    rw [← List.take_append_drop c.length s.workers, List.nodup_append] at hnd
    exact hnd.2.2 w ht w hw' rfl
  constructor
  · intro w hw'; rw [hw] at hw'; rw [h11]; exact h.alive w (hsub w hw').1
  · intro w hw'; rw [hw] at hw'
    rw [(h10 w (hsub w hw').2).2]; exact h.idle w (hsub w hw').1
  · rw [hw]; exact List.Nodup.sublist (List.drop_sublist _ _) h.nodup
  · intro w hw'; rw [hw] at hw'
    rw [h8, h7, h6]; exact h.rev w (hsub w hw').1
  · rw [h5, h7]; exact h.act

theorem preArchive_inv (s : FSt) (new : List Msg) (h : FInv s) : FInv (preArchive s new) := by
  unfold preArchive
  split
  · exact ⟨h.alive, h.idle, h.nodup, h.rev, fun c => by simp at c⟩
  · exact h

theorem dispatch_inv (s : FSt) (new : List Msg) (h : FInv s) : FInv (dispatch s new) := by
  unfold dispatch
  split
  · exact h
  · exact dispatchCore_inv _ new (preArchive_inv s new h)

theorem step_inv (s : FSt) (op : FOp) (h : FInv s) (hok : OpOk s op) : FInv (step s op) := by
  cases op with
  | register w rev =>
    simp only [step, register]
    obtain ⟨c1, c2, c3, c4⟩ := hok
    split
    · constructor
      · intro u hu
        dsimp only at hu ⊢
        rw [setF_other _ _ _ _ (fun c : u = w => c2 (by rw [← c]; exact hu))]; exact h.alive u hu
      · exact h.idle
      · exact h.nodup
      · exact h.rev
      · exact h.act
    · rename_i hr
      have hr' : rev = s.gitRev := by
        by_cases c : rev = s.gitRev
        · exact c
        · exact absurd c hr
      constructor
      · intro u hu
        dsimp only at hu ⊢
        rw [List.mem_append] at hu
        rcases hu with c | c
        · exact h.alive u c
        · simp at c; rw [c]; exact c1
      · intro u hu
        dsimp only at hu ⊢
        rw [List.mem_append] at hu
        rcases hu with c | c
        · exact h.idle u c
        · simp at c; rw [c]; exact c3
      · dsimp only
        rw [List.nodup_append]
        refine ⟨h.nodup, by simp, ?_⟩
        intro a ha b hb; simp at hb; subst hb; intro c; subst c; exact c2 ha
      · intro u hu
        dsimp only at hu ⊢
        rw [List.mem_append] at hu
        rcases hu with c | c
        · rw [setF_other _ _ _ _ (fun e : u = w => c2 (by rw [← e]; exact c))]; exact h.rev u c
        · simp at c; subst c; exact ⟨rev, by simp, fun _ => hr'⟩
      · exact h.act
  | disconnect w =>
    simp only [step, disconnect]
    constructor
    · intro u hu
      dsimp only at hu ⊢
      simp only [List.mem_filter, bne_iff_ne, ne_eq] at hu
      rw [setF_other _ _ _ _ hu.2]; exact h.alive u hu.1
    · intro u hu
      simp only [List.mem_filter] at hu; exact h.idle u hu.1
    · exact List.Nodup.sublist List.filter_sublist h.nodup
    · intro u hu
      simp only [List.mem_filter] at hu; exact h.rev u hu.1
    · exact h.act
  | status w rev =>
    simp only [step, status]
    constructor
    · intro u hu
      dsimp only at hu ⊢
      rw [setF_other _ _ _ _ (fun c : u = w => hok (by rw [← c]; exact hu))]; exact h.alive u hu
    · exact h.idle
    · exact h.nodup
    · exact h.rev
    · exact h.act
  | dispatch new => exact dispatch_inv s new h
  | notifyAll => exact notifyAll_inv s h
  | reply x t => exact ⟨h.alive, h.idle, h.nodup, h.rev, h.act⟩
  | setRev r =>
    simp only [step]
    constructor
    · exact h.alive
    · exact h.idle
    · exact h.nodup
    · intro u hu
      obtain ⟨r', hr, _⟩ := h.rev u hu
      exact ⟨r', hr, fun c => by simp at c⟩
    · intro c; dsimp only at c; rw [hok] at c; simp at c
  | clear =>
    simp only [step, clear]
    constructor <;> simp
  | setActive b =>
    simp only [step]
    exact ⟨h.alive, h.idle, h.nodup, h.rev, fun c => hok c⟩
  | setArchive b => exact ⟨h.alive, h.idle, h.nodup, h.rev, h.act⟩

theorem run_inv (s : FSt) (ops : List FOp) (h : FInv s) (hv : ValidRun s ops) : FInv (run s ops) := by
  unfold run
  induction ops generalizing s with
  | nil => exact h
  | cons op ops ih => simp only [List.foldl_cons]; exact ih _ (step_inv s op h hv.1) hv.2


theorem insRun_perm (m : Msg) (l : List Msg) : List.Perm (insRun m l) (m :: l) := by
  induction l with
  | nil => exact List.Perm.refl _
  | cons y ys ih =>
    unfold insRun
    split
    · exact (List.Perm.cons y ih).trans (List.Perm.swap m y ys)
    · exact List.Perm.refl _

theorem foldl_insRun_perm (l acc : List Msg) :
    List.Perm (l.foldl (fun acc m => insRun m acc) acc) (acc ++ l) := by
  induction l generalizing acc with
  | nil => simp
  | cons y ys ih =>
    simp only [List.foldl_cons]
    refine (ih (insRun y acc)).trans ?_
    refine (List.Perm.append_right ys (insRun_perm y acc)).trans ?_
    simp only [List.cons_append]
    exact List.perm_middle.symm

theorem sortCluster_perm (l : List Msg) : List.Perm (sortCluster l) l := by
  unfold sortCluster
  simpa using foldl_insRun_perm l []

theorem map_snd_zip_take {α β : Type} (l : List α) (m : List β) :
    (l.zip m).map (·.2) = m.take l.length := by
  induction l generalizing m with
  | nil => simp
  | cons a as ih =>
    cases m with
    | nil => simp
    | cons b bs => simp [ih]

theorem map_fst_zip_sub {α β : Type} (l : List α) (m : List β) :
    List.Sublist ((l.zip m).map (·.1)) l := by
  induction l generalizing m with
  | nil => simp
  | cons a as ih =>
    cases m with
    | nil => simp
    | cons b bs => simp only [List.zip_cons_cons, List.map_cons]; exact List.Sublist.cons₂ a (ih bs)


theorem dispatch_eq (s : FSt) (new : List Msg) (ha : s.active = true) :
    dispatch s new = dispatchCore (preArchive s new) new := by
  unfold dispatch
  rw [if_neg (by simp [ha])]

theorem notifyAll_active (s : FSt) (ha : s.active = true) :
    notifyAll s = { s with log := s.log ++ s.workers.map (fun w => (w, Wire.wait)) } := by
  unfold notifyAll
  rw [if_pos ha]


theorem notifyAll_inactive (s : FSt) (ha : s.active = false) :
    notifyAll s = { s with log := s.log ++ s.workers.map (fun w => (w, Wire.abort))
                           conn := fun u => if u ∈ s.workers then false else s.conn u
                           workers := [] } := by
  unfold notifyAll
  rw [if_neg (by simp [ha])]

/-- the log after the core of a tick: a task to each of the first `min` idle workers, then a
    "wait" (pipeline active) or an "abort" (not active) to every worker still idle -/
theorem dispatchCore_log (s : FSt) (new : List Msg) (h : FInv s) :
    (dispatchCore s new).log =
      s.log ++ (s.workers.zip (sortCluster (s.cluster ++ new))).map (fun p => (p.1, Wire.task p.2))
        ++ (s.workers.drop (sortCluster (s.cluster ++ new)).length).map
            (fun w => (w, if s.active then Wire.wait else Wire.abort)) := by
  unfold dispatchCore
  generalize sortCluster (s.cluster ++ new) = c
  have hsp := assign_spec s.workers c { s with cluster := c, enq := s.enq ++ new } h.nodup
  have hw := assign_workers s.workers c { s with cluster := c, enq := s.enq ++ new } h.nodup rfl
  have hact := hsp.2.2.2.2.1
  have hlog := hsp.1
  by_cases ha : s.active = true
  · rw [notifyAll_active _ (by rw [hact]; exact ha)]
    dsimp only
    rw [hlog, hw]; simp [ha]
  · have ha' : s.active = false := by cases hs : s.active <;> simp_all
    rw [notifyAll_inactive _ (by rw [hact]; exact ha')]
    dsimp only
    rw [hlog, hw]; simp [ha']

theorem sortCluster_nil : sortCluster [] = [] := rfl

theorem assign_nil (ws : List Nat) (s : FSt) : assign ws [] s = s := by
  cases ws <;> rfl


theorem dispatchCore_cluster (s : FSt) (new : List Msg) (h : FInv s) :
    (dispatchCore s new).cluster = (sortCluster (s.cluster ++ new)).drop s.workers.length := by
  unfold dispatchCore
  generalize sortCluster (s.cluster ++ new) = c
  have hcl := assign_cluster s.workers c { s with cluster := c, enq := s.enq ++ new } h.nodup rfl
  unfold notifyAll
  split <;> exact hcl

end DawgieVerif.Farm
