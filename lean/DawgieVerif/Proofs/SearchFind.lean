/-
C17 — `_prime_keys`, `_find`, `_facet`: the constraint filter selects exactly the satisfying keys,
paging, rendering.
-/
import DawgieVerif.Proofs.SearchScrub

namespace DawgieVerif.Search
open DawgieVerif.Generated.Search

/-! ## constraints -/

/-- the regenerated `Range.__contains__` is half-open membership -/
theorem rangeContains_iff (r : Range) (m : Int) :
    rangeContains r.start r.stop m = true ↔ r.Has m := by
  obtain ⟨a, b⟩ := r
  cases b with
  | none => simp [rangeContains, Range.Has]
  | some s => simp [rangeContains, Range.Has]

theorem matches_iff (it : Item) (e : Int) : it.matches e = true ↔ it.Has e := by
  cases it with
  | idx i => simp [Item.matches, Item.Has]
  | rng r => simp only [Item.matches, Item.Has]; exact rangeContains_iff r e

theorem cOk_iff (c : Constraint) (e : Int) :
    cOk c e = true ↔ c = [] ∨ ∃ it, it ∈ c ∧ it.Has e := by
  simp [cOk, List.any_eq_true, matches_iff, List.isEmpty_iff]

theorem filter_latest_eq_nil (e : Expr) :
    e.filter (fun it => it != Item.idx (-1)) = [] ↔ Unconstrained e := by
  simp [List.filter_eq_nil_iff, Unconstrained]

/-- the run-ID column: the constraint test of `_prime_keys` decides membership in the denoted set -/
theorem cOk_run (e : Expr) (i : Int) (hi : i ≠ -1) : cOk (runC (some e)) i = true ↔ denote e i := by
  have hrc : runC (some e) = if e.isEmpty = true then [] else e.filter (fun it => it != Item.idx (-1)) := rfl
  rw [hrc]
  by_cases he : e.isEmpty = true
  · rw [if_pos he]
    have : e = [] := by simpa [List.isEmpty_iff] using he
    subst this
    simp [cOk, denote, Unconstrained]
  · rw [if_neg he, cOk_iff, filter_latest_eq_nil]
    unfold denote
    have : (∃ it, it ∈ e.filter (fun it => it != Item.idx (-1)) ∧ it.Has i) ↔ ∃ it, it ∈ e ∧ it.Has i := by
      constructor
      · rintro ⟨it, hit, h⟩
        exact ⟨it, (List.mem_filter.1 hit).1, h⟩
      · rintro ⟨it, hit, h⟩
        refine ⟨it, List.mem_filter.2 ⟨hit, ?_⟩, h⟩
        cases it with
        | idx j =>
          have hij : i = j := h
          subst hij
          simp only [bne_iff_ne, ne_eq, Item.idx.injEq]
          exact hi
        | rng r => simp
    rw [this]

theorem mem_subsetIds (table : List (String × Int)) (n : String) (id : Int) :
    id ∈ subsetIds table n ↔ (n, id) ∈ table := by
  unfold subsetIds
  simp only [List.mem_map, List.mem_filter, beq_iff_eq]
  constructor
  · rintro ⟨⟨n', id'⟩, ⟨hm, hn⟩, hid⟩
    simp only at hn hid
    subst hn; subst hid; exact hm
  · intro h
    exact ⟨(n, id), ⟨h, rfl⟩, rfl⟩

theorem mem_nameItems (table : List (String × Int)) (n : String) (id : Int) (hid : 0 ≤ id) :
    (∃ it, it ∈ (if (subsetIds table n).isEmpty then [Item.idx (-1)]
        else (subsetIds table n).map Item.idx) ∧ it.Has id) ↔ (n, id) ∈ table := by
  rw [← mem_subsetIds]
  by_cases h : (subsetIds table n).isEmpty = true
  · rw [if_pos h]
    have h' : subsetIds table n = [] := by simpa [List.isEmpty_iff] using h
    rw [h']
    constructor
    · rintro ⟨it, hit, hh⟩
      have : it = Item.idx (-1) := by simpa using hit
      subst this
      have : id = -1 := hh
      omega
    · intro h; simp at h
  · rw [if_neg h]
    constructor
    · rintro ⟨it, hit, hh⟩
      obtain ⟨j, hj, rfl⟩ := List.mem_map.1 hit
      have : id = j := hh
      subst this; exact hj
    · intro hj
      exact ⟨Item.idx id, List.mem_map.2 ⟨id, hj, rfl⟩, rfl⟩

/-- a name column: under non-negative ids the `-1` of an unknown name matches nothing -/
theorem cOk_name (c : Cat) (names : Option (List String)) (id : Int) (hid : 0 ≤ id) :
    cOk (nameC c.table names) id = true ↔ NameSat c names id := by
  cases names with
  | none => simp [nameC, cOk, NameSat]
  | some ns =>
    cases ns with
    | nil => simp [nameC, cOk, NameSat]
    | cons n ns =>
      rw [cOk_iff]
      have hne : nameC c.table (some (n :: ns)) ≠ [] := by
        unfold nameC
        simp only [List.flatMap_cons]
        by_cases h : (subsetIds c.table n).isEmpty = true
        · rw [if_pos h]; simp
        · rw [if_neg h]
          have : subsetIds c.table n ≠ [] := by simpa [List.isEmpty_iff] using h
          simp [this]
      simp only [hne, false_or]
      unfold NameSat nameC
      simp only [List.mem_flatMap]
      constructor
      · rintro ⟨it, ⟨m, hm, hit⟩, hh⟩
        exact ⟨m, hm, (mem_nameItems c.table m id hid).1 ⟨it, hit, hh⟩⟩
      · rintro ⟨m, hm, ht⟩
        obtain ⟨it, hit, hh⟩ := (mem_nameItems c.table m id hid).2 ht
        exact ⟨it, ⟨m, hm, hit⟩, hh⟩

/-- with the regenerated `_align` order and `_table_index` table every column gets the constraint
    of its own parameter -/
theorem constraints_eq (db : DB) (p : Params) : constraints db p =
    some [runC p.runids, nameC db.target.table p.targets, nameC db.task.table p.tasks,
          nameC db.alg.table p.algs, nameC db.state.table p.svs, nameC db.value.table p.vals] := rfl

theorem keyOk_eq (db : DB) (p : Params) (k : Key) :
    keyOk [runC p.runids, nameC db.target.table p.targets, nameC db.task.table p.tasks,
          nameC db.alg.table p.algs, nameC db.state.table p.svs, nameC db.value.table p.vals] k
    = (cOk (runC p.runids) k.run && (cOk (nameC db.target.table p.targets) k.tgt &&
      (cOk (nameC db.task.table p.tasks) k.task && (cOk (nameC db.alg.table p.algs) k.alg &&
      (cOk (nameC db.state.table p.svs) k.sv && cOk (nameC db.value.table p.vals) k.val))))) := by
  simp [keyOk, Key.toList]

theorem mapOpt_eq_map {α β : Type} (f : α → Option β) (g : α → β) (l : List α)
    (h : ∀ x, x ∈ l → f x = some (g x)) : mapOpt f l = some (l.map g) := by
  induction l with
  | nil => rfl
  | cons x xs ih =>
    unfold mapOpt
    rw [h x (by simp), ih (fun y hy => h y (List.mem_cons_of_mem _ hy))]
    rfl

theorem collapse_take (k : Key) : Key5.ofList? (k.toList.take keyLen) = some k.collapse := rfl

/-- the keys that pass the filter of `_prime_keys` for the scrubbed parameters -/
def hitsOf (db : DB) (p : Params) : List Key :=
  db.prime.filter (keyOk [runC (p.runids.map scrub), nameC db.target.table p.targets,
    nameC db.task.table p.tasks, nameC db.alg.table p.algs, nameC db.state.table p.svs,
    nameC db.value.table p.vals])

theorem primeKeys_scrub_eq (db : DB) (p : Params) :
    primeKeys db (scrubParams p) = some (sortDedup Key5.lt ((hitsOf db p).map Key.collapse)) := by
  unfold primeKeys
  rw [constraints_eq]
  simp only [scrubParams]
  rw [mapOpt_eq_map _ Key.collapse _ (fun k _ => collapse_take k)]
  rfl

theorem mem_hitsOf (db : DB) (hnn : db.NonNeg) (p : Params) (k : Key) :
    k ∈ hitsOf db p ↔ k ∈ db.prime ∧ Sat db p k := by
  unfold hitsOf
  rw [List.mem_filter]
  constructor
  · rintro ⟨hk, hok⟩
    refine ⟨hk, ?_⟩
    obtain ⟨h0, h1, h2, h3, h4, h5⟩ := hnn k hk
    rw [keyOk_eq db ⟨p.runids.map scrub, p.targets, p.tasks, p.algs, p.svs, p.vals⟩ k] at hok
    simp only [Bool.and_eq_true] at hok
    obtain ⟨r0, r1, r2, r3, r4, r5⟩ := hok
    refine ⟨?_, (cOk_name _ _ _ h1).1 r1, (cOk_name _ _ _ h2).1 r2, (cOk_name _ _ _ h3).1 r3,
      (cOk_name _ _ _ h4).1 r4, (cOk_name _ _ _ h5).1 r5⟩
    intro e he
    rw [he] at r0
    exact (scrub_denote e k.run).1 ((cOk_run (scrub e) k.run (by omega)).1 r0)
  · rintro ⟨hk, hr, s1, s2, s3, s4, s5⟩
    refine ⟨hk, ?_⟩
    obtain ⟨h0, h1, h2, h3, h4, h5⟩ := hnn k hk
    rw [keyOk_eq db ⟨p.runids.map scrub, p.targets, p.tasks, p.algs, p.svs, p.vals⟩ k]
    simp only [Bool.and_eq_true]
    refine ⟨?_, (cOk_name _ _ _ h1).2 s1, (cOk_name _ _ _ h2).2 s2, (cOk_name _ _ _ h3).2 s3,
      (cOk_name _ _ _ h4).2 s4, (cOk_name _ _ _ h5).2 s5⟩
    cases hrun : p.runids with
    | none => simp [runC, cOk]
    | some e =>
      exact (cOk_run (scrub e) k.run (by omega)).2 ((scrub_denote e k.run).2 (hr e hrun))

end DawgieVerif.Search

namespace DawgieVerif.Search
open DawgieVerif.Generated.Search

/-! ## `mapOpt` -/

theorem mapOpt_cons_some {α β : Type} (f : α → Option β) (x : α) (xs : List α) (r : List β)
    (h : mapOpt f (x :: xs) = some r) :
    ∃ y ys, f x = some y ∧ mapOpt f xs = some ys ∧ r = y :: ys := by
  unfold mapOpt at h
  cases hx : f x with
  | none => rw [hx] at h; simp at h
  | some y =>
    cases hxs : mapOpt f xs with
    | none => rw [hx, hxs] at h; simp at h
    | some ys =>
      rw [hx, hxs] at h
      simp only [Option.some.injEq] at h
      exact ⟨y, ys, rfl, rfl, h.symm⟩

theorem mapOpt_cons_of {α β : Type} (f : α → Option β) (x : α) (xs : List α) (y : β) (ys : List β)
    (hx : f x = some y) (hxs : mapOpt f xs = some ys) : mapOpt f (x :: xs) = some (y :: ys) := by
  unfold mapOpt; rw [hx, hxs]

theorem mapOpt_pointwise {α β : Type} (f : α → Option β) : ∀ (l : List α) (r : List β),
    mapOpt f l = some r → Pointwise (fun a b => f a = some b) l r
  | [], r, h => by
    have : r = [] := by simpa [mapOpt] using h.symm
    subst this; exact True.intro
  | x :: xs, r, h => by
    obtain ⟨y, ys, hx, hxs, rfl⟩ := mapOpt_cons_some f x xs r h
    exact ⟨hx, mapOpt_pointwise f xs ys hxs⟩

theorem Pointwise.imp {α β : Type} {R S : α → β → Prop} : ∀ (l : List α) (r : List β),
    (∀ a b, a ∈ l → R a b → S a b) → Pointwise R l r → Pointwise S l r
  | [], [], _, _ => True.intro
  | [], _ :: _, _, h => h.elim
  | _ :: _, [], _, h => h.elim
  | a :: as, b :: bs, himp, h =>
    ⟨himp a b (by simp) h.1,
     Pointwise.imp as bs (fun x y hx => himp x y (List.mem_cons_of_mem _ hx)) h.2⟩

theorem mapOpt_exists {α β : Type} (f : α → Option β) : ∀ (l : List α),
    (∀ x, x ∈ l → ∃ y, f x = some y) → ∃ r, mapOpt f l = some r
  | [], _ => ⟨[], rfl⟩
  | x :: xs, h => by
    obtain ⟨y, hy⟩ := h x (by simp)
    obtain ⟨ys, hys⟩ := mapOpt_exists f xs (fun z hz => h z (List.mem_cons_of_mem _ hz))
    exact ⟨y :: ys, mapOpt_cons_of f x xs y ys hy hys⟩

theorem mapOpt_length {α β : Type} (f : α → Option β) : ∀ (l : List α) (r : List β),
    mapOpt f l = some r → r.length = l.length
  | [], r, h => by
    have : r = [] := by simpa [mapOpt] using h.symm
    subst this; rfl
  | x :: xs, r, h => by
    obtain ⟨y, ys, _, hxs, rfl⟩ := mapOpt_cons_some f x xs r h
    simp [mapOpt_length f xs ys hxs]

theorem mapOpt_drop {α β : Type} (f : α → Option β) : ∀ (n : Nat) (l : List α) (r : List β),
    mapOpt f l = some r → mapOpt f (l.drop n) = some (r.drop n)
  | 0, l, r, h => by simpa using h
  | n + 1, [], r, h => by
    have : r = [] := by simpa [mapOpt] using h.symm
    subst this; rfl
  | n + 1, x :: xs, r, h => by
    obtain ⟨y, ys, _, hxs, rfl⟩ := mapOpt_cons_some f x xs r h
    simpa using mapOpt_drop f n xs ys hxs

theorem mapOpt_take {α β : Type} (f : α → Option β) : ∀ (n : Nat) (l : List α) (r : List β),
    mapOpt f l = some r → mapOpt f (l.take n) = some (r.take n)
  | 0, l, r, _ => by simp [mapOpt]
  | n + 1, [], r, h => by
    have : r = [] := by simpa [mapOpt] using h.symm
    subst this; rfl
  | n + 1, x :: xs, r, h => by
    obtain ⟨y, ys, hx, hxs, rfl⟩ := mapOpt_cons_some f x xs r h
    simp only [List.take_succ_cons]
    exact mapOpt_cons_of f x _ y _ hx (mapOpt_take f n xs ys hxs)

theorem mapOpt_pySlice {α β : Type} (f : α → Option β) (l : List α) (r : List β)
    (index : Nat) (limit : Option Nat) (h : mapOpt f l = some r) :
    mapOpt f (pySlice l index limit) = some (pySlice r index limit) := by
  cases limit with
  | none => exact mapOpt_drop f index l r h
  | some n => exact mapOpt_take f n _ _ (mapOpt_drop f index l r h)

theorem pySlice_subset {α : Type} (l : List α) (index : Nat) (limit : Option Nat) (x : α)
    (h : x ∈ pySlice l index limit) : x ∈ l := by
  cases limit with
  | none => exact List.mem_of_mem_drop h
  | some n => exact List.mem_of_mem_drop (List.mem_of_mem_take h)

theorem pySlice_sublist {α : Type} (l : List α) (index : Nat) (limit : Option Nat) :
    (pySlice l index limit).Sublist l := by
  cases limit with
  | none => exact List.drop_sublist _ _
  | some n => exact (List.take_sublist _ _).trans (List.drop_sublist _ _)

/-! ## pages -/

/-- consecutive pages of size `L > 0` concatenate to the whole list -/
theorem pages_flatMap {α : Type} (L : Nat) (hL : 0 < L) : ∀ (n : Nat) (xs : List α),
    xs.length ≤ n * L → (List.range n).flatMap (fun j => pySlice xs (j * L) (some L)) = xs
  | 0, xs, h => by
    have : xs = [] := by
      cases xs with
      | nil => rfl
      | cons a as => simp at h
    subst this; simp
  | n + 1, xs, h => by
    rw [List.range_succ_eq_map, List.flatMap_cons, List.flatMap_map]
    have ih := pages_flatMap L hL n (xs.drop L) (by
      rw [List.length_drop]
      have : (n + 1) * L = n * L + L := Nat.succ_mul n L
      omega)
    have hfun : (fun j => pySlice xs ((j + 1) * L) (some L)) =
        (fun j => pySlice (xs.drop L) (j * L) (some L)) := by
      funext j
      simp only [pySlice, List.drop_drop]
      have : (j + 1) * L = L + j * L := by rw [Nat.succ_mul]; omega
      rw [this]
    have h0 : pySlice xs (0 * L) (some L) = xs.take L := by simp [pySlice]
    rw [h0]
    show xs.take L ++ (List.range n).flatMap (fun j => pySlice xs ((j + 1) * L) (some L)) = xs
    rw [hfun, ih, List.take_append_drop]

/-! ## rendering -/

theorem pyIndex_nonneg {α : Type} (xs : List α) (i : Int) (h : 0 ≤ i) :
    pyIndex xs i = xs[i.toNat]? := by
  unfold pyIndex; rw [if_pos h]

theorem render_some_iff (db : DB) (k : Key5) (row : Row)
    (h1 : 0 ≤ k.tgt) (h2 : 0 ≤ k.task) (h3 : 0 ≤ k.alg) (h4 : 0 ≤ k.sv) :
    render db k = some row ↔ RendersTo db k row := by
  unfold render RendersTo
  rw [pyIndex_nonneg _ _ h1, pyIndex_nonneg _ _ h2, pyIndex_nonneg _ _ h3, pyIndex_nonneg _ _ h4]
  obtain ⟨r, t, tk, a, s⟩ := row
  cases e1 : db.target.index[k.tgt.toNat]? <;> cases e2 : db.task.index[k.task.toNat]? <;>
    cases e3 : db.alg.index[k.alg.toNat]? <;> cases e4 : db.state.index[k.sv.toNat]? <;>
    simp [h1, h2, h3, h4] <;> (try intros) <;> (try constructor) <;> (try intros) <;> simp_all

theorem render_exists (db : DB) (k : Key5)
    (h1 : 0 ≤ k.tgt ∧ k.tgt < db.target.index.length)
    (h2 : 0 ≤ k.task ∧ k.task < db.task.index.length)
    (h3 : 0 ≤ k.alg ∧ k.alg < db.alg.index.length)
    (h4 : 0 ≤ k.sv ∧ k.sv < db.state.index.length) : ∃ row, render db k = some row := by
  unfold render
  rw [pyIndex_nonneg _ _ h1.1, pyIndex_nonneg _ _ h2.1, pyIndex_nonneg _ _ h3.1,
    pyIndex_nonneg _ _ h4.1]
  have e1 : k.tgt.toNat < db.target.index.length := by omega
  have e2 : k.task.toNat < db.task.index.length := by omega
  have e3 : k.alg.toNat < db.alg.index.length := by omega
  have e4 : k.sv.toNat < db.state.index.length := by omega
  rw [List.getElem?_eq_getElem e1, List.getElem?_eq_getElem e2, List.getElem?_eq_getElem e3,
    List.getElem?_eq_getElem e4]
  exact ⟨_, rfl⟩

theorem render_run (db : DB) (k : Key5) (row : Row) (h : render db k = some row) :
    row.run = k.run := by
  unfold render at h
  split at h
  · simp only [Option.some.injEq] at h; rw [← h]
  · cases h

theorem mapOpt_render_run (db : DB) : ∀ (l : List Key5) (rows : List Row),
    mapOpt (render db) l = some rows → rows.map Row.run = l.map Key5.run
  | [], r, h => by
    have : r = [] := by simpa [mapOpt] using h.symm
    subst this; rfl
  | x :: xs, r, h => by
    obtain ⟨y, ys, hx, hxs, rfl⟩ := mapOpt_cons_some _ x xs r h
    simp [render_run db x y hx, mapOpt_render_run db xs ys hxs]

/-! ## `find` -/

/-- the whole ordered result at key level -/
def matching (db : DB) (p : Params) : List Key5 :=
  sortDedup Key5.lt ((hitsOf db p).map Key.collapse)

theorem find_eq (db : DB) (p : Params) (index : Nat) (limit : Option Nat) :
    find db p index limit =
      match mapOpt (render db) (pySlice (matching db p) index limit) with
      | none => none
      | some rows => some (rows, (matching db p).length) := by
  unfold find
  rw [primeKeys_scrub_eq]
  rfl

theorem mem_matching (db : DB) (hnn : db.NonNeg) (p : Params) (k5 : Key5) :
    k5 ∈ matching db p ↔ ∃ k, k ∈ db.prime ∧ Sat db p k ∧ k.collapse = k5 := by
  unfold matching
  rw [mem_sortDedup key5_strict, List.mem_map]
  constructor
  · rintro ⟨k, hk, rfl⟩
    have := (mem_hitsOf db hnn p k).1 hk
    exact ⟨k, this.1, this.2, rfl⟩
  · rintro ⟨k, hk, hs, rfl⟩
    exact ⟨k, (mem_hitsOf db hnn p k).2 ⟨hk, hs⟩, rfl⟩

theorem asc_matching (db : DB) (p : Params) : Asc Key5.lt (matching db p) :=
  asc_sortDedup key5_strict _

theorem find_slice (db : DB) (p : Params) (all : List Row) (total : Nat)
    (h : find db p 0 none = some (all, total)) (index : Nat) (limit : Option Nat) :
    find db p index limit = some (pySlice all index limit, total) := by
  rw [find_eq] at h ⊢
  have h0 : pySlice (matching db p) 0 none = matching db p := by simp [pySlice]
  rw [h0] at h
  cases hm : mapOpt (render db) (matching db p) with
  | none => rw [hm] at h; cases h
  | some rows =>
    rw [hm] at h
    simp only [Option.some.injEq, Prod.mk.injEq] at h
    rw [mapOpt_pySlice _ _ _ index limit hm, h.1, h.2]

theorem find_total (db : DB) (p : Params) (all : List Row) (total : Nat)
    (h : find db p 0 none = some (all, total)) : total = all.length := by
  rw [find_eq] at h
  have h0 : pySlice (matching db p) 0 none = matching db p := by simp [pySlice]
  rw [h0] at h
  cases hm : mapOpt (render db) (matching db p) with
  | none => rw [hm] at h; cases h
  | some rows =>
    rw [hm] at h
    simp only [Option.some.injEq, Prod.mk.injEq] at h
    rw [← h.1, ← h.2, mapOpt_length _ _ _ hm]

end DawgieVerif.Search

namespace DawgieVerif.Search
open DawgieVerif.Generated.Search

/-! ## `facet` -/

theorem mem_mapOpt {α β : Type} (f : α → Option β) : ∀ (l : List α) (r : List β),
    mapOpt f l = some r → ∀ y, y ∈ r ↔ ∃ x, x ∈ l ∧ f x = some y
  | [], r, h, y => by
    have : r = [] := by simpa [mapOpt] using h.symm
    subst this; simp
  | x :: xs, r, h, y => by
    obtain ⟨z, zs, hx, hxs, rfl⟩ := mapOpt_cons_some f x xs r h
    have ih := mem_mapOpt f xs zs hxs y
    simp only [List.mem_cons, ih]
    constructor
    · rintro (rfl | ⟨w, hw, hfw⟩)
      · exact ⟨x, Or.inl rfl, hx⟩
      · exact ⟨w, Or.inr hw, hfw⟩
    · rintro ⟨w, (rfl | hw), hfw⟩
      · rw [hx] at hfw; injection hfw with e; exact Or.inl e.symm
      · exact Or.inr ⟨w, hw, hfw⟩

/-- the names listed for one column of the matching keys -/
theorem facet_core (db : DB) (hnn : db.NonNeg) (p : Params) (g : Key5 → Int) (gk : Key → Int)
    (hg : ∀ k, g k.collapse = gk k) (hpos : ∀ k, k ∈ db.prime → 0 ≤ gk k) (c : Cat)
    (names0 : List String)
    (hm : mapOpt (fun pk => pyIndex c.index (g pk)) (matching db p) = some names0) :
    Asc strLt (sortDedup strLt names0) ∧
    ∀ n, n ∈ sortDedup strLt names0 ↔
      ∃ k, k ∈ db.prime ∧ Sat db p k ∧ c.index[(gk k).toNat]? = some n := by
  refine ⟨asc_sortDedup strLt_strict _, ?_⟩
  intro n
  rw [mem_sortDedup strLt_strict, mem_mapOpt _ _ _ hm]
  constructor
  · rintro ⟨pk, hpk, hn⟩
    obtain ⟨k, hk, hs, rfl⟩ := (mem_matching db hnn p pk).1 hpk
    rw [hg, pyIndex_nonneg _ _ (hpos k hk)] at hn
    exact ⟨k, hk, hs, hn⟩
  · rintro ⟨k, hk, hs, hn⟩
    refine ⟨k.collapse, (mem_matching db hnn p _).2 ⟨k, hk, hs, rfl⟩, ?_⟩
    rw [hg, pyIndex_nonneg _ _ (hpos k hk)]
    exact hn

theorem facetNames_eq (db : DB) (p : Params) (f t : String) (c : Cat) (g : Key5 → Int)
    (ht : tableOf.lookup f = some t) (hc : db.cat? t = some c)
    (hgf : ∀ pk : Key5, pk.toList[alignOrder.idxOf f]? = some (g pk)) :
    facetNames db (scrubParams p) f =
      match mapOpt (fun pk => pyIndex c.index (g pk)) (matching db p) with
      | none => .error .indexError
      | some names => .ok (sortDedup strLt names) := by
  unfold facetNames
  rw [primeKeys_scrub_eq, ht]
  simp only [hc]
  simp only [hgf]
  rfl

/-- which column `facetField` picks -/
theorem facetField_cases (p : Params) (f : String) (h : facetField p = .ok f) :
    (f = "targets" ∧ isEmptyList p.targets = true) ∨
    (f = "tasks" ∧ isEmptyList p.targets = false ∧ isEmptyList p.tasks = true) ∨
    (f = "algs" ∧ isEmptyList p.targets = false ∧ isEmptyList p.tasks = false ∧
      isEmptyList p.algs = true) ∨
    (f = "svs" ∧ isEmptyList p.targets = false ∧ isEmptyList p.tasks = false ∧
      isEmptyList p.algs = false ∧ isEmptyList p.svs = true) := by
  unfold facetField at h
  simp only at h
  split at h
  · cases h
  · rename_i hr
    split at h
    · cases h
    · unfold emptyField at h
      simp only [hr] at h
      have e1 : (scrubParams p).targets = p.targets := rfl
      have e2 : (scrubParams p).tasks = p.tasks := rfl
      have e3 : (scrubParams p).algs = p.algs := rfl
      have e4 : (scrubParams p).svs = p.svs := rfl
      have e5 : (scrubParams p).vals = p.vals := rfl
      rw [e1, e2, e3, e4, e5] at h
      cases h1 : isEmptyList p.targets <;> cases h2 : isEmptyList p.tasks <;>
        cases h3 : isEmptyList p.algs <;> cases h4 : isEmptyList p.svs <;>
        cases h5 : isEmptyList p.vals <;>
        simp [h1, h2, h3, h4, h5] at h <;> simp [← h]

end DawgieVerif.Search
