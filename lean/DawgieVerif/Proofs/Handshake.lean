import DawgieVerif.Model.Handshake
import DawgieVerif.Proofs.Frame

namespace DawgieVerif.Handshake
open DawgieVerif.Frame

/-- invariant of every state reachable from `init` -/
structure Inv (e : Env) (s : St) : Prop where
  gate : s.restored = false → s.delivered = [] ∧ s.inner = Frame.init
  auth : s.restored = true → ∃ reply, e.verify reply = true ∧ e.decrypt reply = e.challenge
  chal : s.restored = true → 1 ≤ s.sent
  sent3 : (s.phase = .p4 ∨ s.phase = .p5) → 1 ≤ s.sent
  lens : s.closed = false → ((s.phase = .p1 ∨ s.phase = .p2) → s.len = 4) ∧ (s.phase = .p4 → s.len = 8)
  noexc : s.structErr = false
  rphase : s.restored = true → s.phase = .p6

theorem inv_init (e : Env) : Inv e init := by
  constructor <;> simp [init]

theorem inv_buf (e : Env) (s : St) (b : Bytes) (h : Inv e s) : Inv e { s with buf := b } := by
  obtain ⟨a, b', c, d, f, g, i⟩ := h
  exact ⟨a, b', c, d, f, g, i⟩

theorem run_inv (e : Env) (s : St) (h : Inv e s) (hc : s.closed = false) : Inv e (run e s) := by
  induction s using run.induct e with
  | case1 s hle s2 hph ih =>
    rw [run]; simp only [hle, dite_true]; split
    next s2' heq =>
      rw [hph] at heq; simp only [Prod.mk.injEq, and_true] at heq; subst heq
      have hinv := inv_buf e s (s.buf.drop s.len) h
      obtain ⟨g1, g2, g3, g4, g5, g6, g7⟩ := hinv
      unfold phaseFn at hph
      simp only at hph g1 g2 g3 g4 g5 g6 g7
      have hc' : s2.closed = false ∧ Inv e s2 := by
        cases hp : s.phase <;> simp only [hp] at hph <;> (repeat' split at hph) <;>
          simp only [Prod.mk.injEq, reduceCtorEq, and_false, and_true] at hph
        all_goals first
          | (subst hph; refine ⟨hc, ?_⟩; constructor <;> simp_all <;> exact ⟨_, ‹_ ∧ _›⟩)
          | (subst hph; refine ⟨hc, ?_⟩; constructor <;> simp_all)
          | (obtain ⟨h1, _⟩ := hph; subst h1; refine ⟨hc, ?_⟩; constructor <;> simp_all)
      exact ih hc'.2 hc'.1
    next s2' heq => rw [hph] at heq; simp at heq
    next s2' heq => rw [hph] at heq; simp at heq
  | case2 s hle s2 hph =>
    rw [run]; simp only [hle, dite_true]; split
    next s2' heq => rw [hph] at heq; simp at heq
    next s2' heq =>
      rw [hph] at heq; simp only [Prod.mk.injEq, and_true] at heq; subst heq
      have hinv := inv_buf e s (s.buf.drop s.len) h
      obtain ⟨g1, g2, g3, g4, g5, g6, g7⟩ := hinv
      unfold phaseFn at hph
      simp only at hph g1 g2 g3 g4 g5 g6 g7
      cases hp : s.phase <;> simp only [hp] at hph <;> (repeat' split at hph) <;>
        simp only [Prod.mk.injEq, reduceCtorEq, and_false, and_true] at hph
      all_goals first
        | (subst hph; constructor <;> simp_all)
        | (obtain ⟨h1, _⟩ := hph; subst h1; constructor <;> simp_all)
    next s2' heq => rw [hph] at heq; simp at heq
  | case3 s hle s2 hph =>
    -- a struct.error would need a slice of the wrong size: impossible under the invariant
    exfalso
    have hinv := inv_buf e s (s.buf.drop s.len) h
    obtain ⟨g1, g2, g3, g4, g5, g6, g7⟩ := hinv
    unfold phaseFn at hph
    have hl : (s.buf.take s.len).length = s.len := by simp [List.length_take]; omega
    simp only at hph g5
    have g5' := g5 hc
    cases hp : s.phase <;> simp only [hp] at hph <;> (repeat' split at hph) <;>
      simp only [Prod.mk.injEq, reduceCtorEq, and_false, and_true] at hph
    all_goals simp_all
  | case4 s hle =>
    rw [run]; simp only [hle, dite_false]; exact h

theorem feedT_inv (e : Env) (s : St) (d : Bytes) (h : Inv e s) : Inv e (feedT e s d) := by
  unfold feedT
  split
  · exact h
  next hc =>
    split
    next hr =>
      obtain ⟨g1, g2, g3, g4, g5, g6, g7⟩ := h
      constructor <;> simp_all
    next hr =>
      apply run_inv
      · exact inv_buf e s _ h
      · simpa using hc

theorem feedAllT_inv (e : Env) (s : St) (cs : List Bytes) (h : Inv e s) :
    Inv e (feedAllT e s cs) := by
  induction cs generalizing s with
  | nil => exact h
  | cons c cs ih => exact ih _ (feedT_inv e s c h)

theorem feedAllT_closed (e : Env) (s : St) (cs : List Bytes) (hc : s.closed = true) :
    feedAllT e s cs = s := by
  induction cs with
  | nil => rfl
  | cons c cs ih => simp [feedAllT, feedT, hc, ih]

end DawgieVerif.Handshake
