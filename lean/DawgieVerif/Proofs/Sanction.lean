/-
Helper lemmas for C19 (access decision): the interpreter of `__render` never reaches a
handler call without passing a successful guard first — for ANY statement order in which a
guard precedes the first call.
-/
import DawgieVerif.Model.Sanction

namespace DawgieVerif.Sanction
open DawgieVerif.Generated.Endpoints

/-- The whole decision ladder of `security.is_sanctioned`, for every endpoint string. -/
theorem ladder (clients cert : Bool) (e : String) :
    isSanctioned clients cert e = (!clients || cert || allAccess.contains e) := by
  unfold isSanctioned
  generalize allAccess.contains e = b
  cases clients <;> cases cert <;> cases b <;> rfl

/-- a guard stands before the first statement that may call the handler -/
def GuardFirst : List RStep → Bool
  | [] => true
  | .guard :: _ => true
  | .call :: _ => false
  | .ret :: _ => true
  | .other :: rest => GuardFirst rest

/-- with a failed check nothing after a leading guard runs -/
theorem run_denied_no_handler (steps : List RStep) (m : Bool) (hg : GuardFirst steps = true) :
    Ev.handler ∉ run steps false m := by
  induction steps with
  | nil => simp [run]
  | cons s rest ih =>
    cases s with
    | other => simpa [run] using ih (by simpa [GuardFirst] using hg)
    | guard => simp [run]
    | call => simp [GuardFirst] at hg
    | ret => simp [run]

/-- with a guard first, every handler call is preceded by a successful check -/
theorem run_handler_after_check (steps : List RStep) (ok m : Bool)
    (hg : GuardFirst steps = true) (hh : Ev.handler ∈ run steps ok m) :
    ∃ pre post, run steps ok m = pre ++ Ev.handler :: post ∧ Ev.checked true ∈ pre := by
  induction steps with
  | nil => simp [run] at hh
  | cons s rest ih =>
    cases s with
    | other =>
      simp only [run] at hh ⊢
      exact ih (by simpa [GuardFirst] using hg) hh
    | guard =>
      cases ok with
      | false => simp [run] at hh
      | true =>
        simp only [run, if_true] at hh ⊢
        have hh' : Ev.handler ∈ run rest true m := by
          simpa using hh
        obtain ⟨pre, post, hsplit⟩ := List.append_of_mem hh'
        exact ⟨Ev.checked true :: pre, post, by simp [hsplit], by simp⟩
    | call => simp [GuardFirst] at hg
    | ret => simp [run] at hh

theorem guardFirst_renderSteps : GuardFirst renderSteps = true := by
  decide

theorem sanctioned_raised : sanctioned Hook.raised = false := by
  decide

end DawgieVerif.Sanction
