/-
Lemmas about `Model/Cal.lean` (core Lean only, so that models may import them for their
termination proofs): the two conversions are inverse to each other for ALL integers, day
numbers are strictly monotone in the lexicographic order of valid civil dates, years and
months are contiguous intervals of day numbers.
-/
import DawgieVerif.Model.Cal
namespace DawgieVerif.Cal

theorem validDate_iff {y m d : Int} :
    validDate y m d = true ↔ 1 ≤ m ∧ m ≤ 12 ∧ 1 ≤ d ∧ d ≤ daysInMonth y m := by
  simp [validDate, and_assoc]

theorem yearLen_pos (y : Int) : 365 ≤ yearLen y ∧ yearLen y ≤ 366 := by
  unfold yearLen; split <;> omega

theorem daysBeforeYear_succ (y : Int) : daysBeforeYear (y + 1) = daysBeforeYear y + yearLen y := by
  unfold daysBeforeYear yearLen isLeap
  by_cases h4 : y % 4 = 0 <;> by_cases h100 : y % 100 = 0 <;> by_cases h400 : y % 400 = 0 <;>
    simp [h4, h100, h400] <;> omega

theorem daysBeforeYear_lt {y y' : Int} (h : y < y') : daysBeforeYear y < daysBeforeYear y' := by
  unfold daysBeforeYear; omega

theorem daysBeforeYear_le {y y' : Int} (h : y ≤ y') : daysBeforeYear y ≤ daysBeforeYear y' := by
  unfold daysBeforeYear; omega

theorem yearOf_spec (z : Int) :
    daysBeforeYear (yearOf z) ≤ z ∧ z < daysBeforeYear (yearOf z + 1) := by
  unfold yearOf
  simp only
  split
  · constructor
    · unfold daysBeforeYear; omega
    · simpa using ‹_›
  · split
    · constructor
      · assumption
      · unfold daysBeforeYear; omega
    · constructor <;> omega

theorem yearOf_unique {z y : Int} (h1 : daysBeforeYear y ≤ z) (h2 : z < daysBeforeYear (y + 1)) :
    yearOf z = y := by
  have ⟨a, b⟩ := yearOf_spec z
  by_cases hlt : yearOf z < y
  · have := daysBeforeYear_le (y := yearOf z + 1) (y' := y) (by omega); omega
  · by_cases hgt : y < yearOf z
    · have := daysBeforeYear_le (y := y + 1) (y' := yearOf z) (by omega); omega
    · omega

theorem month_cases {m : Int} (h1 : 1 ≤ m) (h2 : m ≤ 12) :
    m = 1 ∨ m = 2 ∨ m = 3 ∨ m = 4 ∨ m = 5 ∨ m = 6 ∨ m = 7 ∨ m = 8 ∨ m = 9 ∨ m = 10 ∨ m = 11 ∨ m = 12 := by
  omega

theorem daysBeforeMonth_succ (y : Int) {m : Int} (h1 : 1 ≤ m) (h2 : m ≤ 12) :
    daysBeforeMonth y (m + 1) = daysBeforeMonth y m + daysInMonth y m := by
  rcases month_cases h1 h2 with h | h | h | h | h | h | h | h | h | h | h | h <;> subst h <;>
    cases hl : isLeap y <;> simp [daysBeforeMonth, daysInMonth, hl]

theorem daysBeforeMonth_one (y : Int) : daysBeforeMonth y 1 = 0 := by simp [daysBeforeMonth]

theorem daysBeforeMonth_13 (y : Int) : daysBeforeMonth y 13 = yearLen y := by
  cases hl : isLeap y <;> simp [daysBeforeMonth, yearLen, hl]

theorem daysInMonth_pos (y : Int) {m : Int} (h1 : 1 ≤ m) (h2 : m ≤ 12) :
    28 ≤ daysInMonth y m ∧ daysInMonth y m ≤ 31 := by
  rcases month_cases h1 h2 with h | h | h | h | h | h | h | h | h | h | h | h <;> subst h <;>
    cases hl : isLeap y <;> simp [daysInMonth, hl]

theorem daysBeforeMonth_le_add (y : Int) {m : Int} (h1 : 1 ≤ m) (k : Nat) (h2 : m + k ≤ 13) :
    daysBeforeMonth y m ≤ daysBeforeMonth y (m + k) := by
  induction k with
  | zero => simp
  | succ k ih =>
    have := ih (by omega)
    have h3 := daysBeforeMonth_succ y (m := m + k) (by omega) (by omega)
    have h4 := daysInMonth_pos y (m := m + k) (by omega) (by omega)
    have : m + ((k + 1 : Nat) : Int) = m + k + 1 := by omega
    rw [this]; omega

theorem daysBeforeMonth_mono (y : Int) {m m' : Int} (h1 : 1 ≤ m) (h : m < m') (h2 : m' ≤ 13) :
    daysBeforeMonth y m + daysInMonth y m ≤ daysBeforeMonth y m' := by
  have h3 := daysBeforeMonth_succ y (m := m) h1 (by omega)
  have := daysBeforeMonth_le_add y (m := m + 1) (by omega) (m' - (m + 1)).toNat (by omega)
  have e : m + 1 + ((m' - (m + 1)).toNat : Int) = m' := by omega
  rw [e] at this; omega

theorem monthOfDoy_spec (y : Int) {doy : Int} (h0 : 0 ≤ doy) (h1 : doy < yearLen y) :
    1 ≤ monthOfDoy y doy ∧ monthOfDoy y doy ≤ 12 ∧
    daysBeforeMonth y (monthOfDoy y doy) ≤ doy ∧
    doy < daysBeforeMonth y (monthOfDoy y doy + 1) := by
  unfold monthOfDoy
  have e13 := daysBeforeMonth_13 y
  have e1 := daysBeforeMonth_one y
  repeat' split
  all_goals (refine ⟨by omega, by omega, ?_, ?_⟩ <;> (try simp only [Int.reduceAdd]) <;> omega)

theorem monthOfDoy_unique (y : Int) {doy m : Int} (h1 : 1 ≤ m) (h2 : m ≤ 12)
    (h3 : daysBeforeMonth y m ≤ doy) (h4 : doy < daysBeforeMonth y (m + 1)) :
    monthOfDoy y doy = m := by
  have hy := yearLen_pos y
  have hm13 := daysBeforeMonth_13 y
  have hle : daysBeforeMonth y (m + 1) ≤ daysBeforeMonth y 13 := by
    have := daysBeforeMonth_le_add y (m := m + 1) (by omega) (12 - m).toNat (by omega)
    have e : m + 1 + ((12 - m).toNat : Int) = 13 := by omega
    rwa [e] at this
  have h0 : 0 ≤ doy := by
    have := daysBeforeMonth_le_add y (m := 1) (by omega) (m - 1).toNat (by omega)
    have e : 1 + ((m - 1).toNat : Int) = m := by omega
    rw [e, daysBeforeMonth_one] at this; omega
  have ⟨a, b, c, d⟩ := monthOfDoy_spec y h0 (by omega : doy < yearLen y)
  by_cases hlt : monthOfDoy y doy < m
  · have := daysBeforeMonth_mono y a hlt (by omega)
    have := daysBeforeMonth_succ y a b
    omega
  · by_cases hgt : m < monthOfDoy y doy
    · have := daysBeforeMonth_mono y h1 hgt (by omega)
      have := daysBeforeMonth_succ y h1 h2
      omega
    · omega

theorem civil_valid (z : Int) :
    validDate (civilFromDays z).year (civilFromDays z).month (civilFromDays z).day = true := by
  have ⟨a, b⟩ := yearOf_spec z
  rw [daysBeforeYear_succ] at b
  have ⟨c, d, e, f⟩ := monthOfDoy_spec (yearOf z) (doy := z - daysBeforeYear (yearOf z)) (by omega) (by omega)
  have := daysBeforeMonth_succ (yearOf z) c d
  rw [validDate_iff]
  simp only [civilFromDays]
  omega

theorem daysFromCivil_civil (z : Int) :
    daysFromCivil (civilFromDays z).year (civilFromDays z).month (civilFromDays z).day = z := by
  simp only [daysFromCivil, civilFromDays]; omega

theorem civil_daysFromCivil {y m d : Int} (h : validDate y m d = true) :
    civilFromDays (daysFromCivil y m d) = ⟨y, m, d⟩ := by
  rw [validDate_iff] at h
  obtain ⟨h1, h2, h3, h4⟩ := h
  have hs := daysBeforeMonth_succ y h1 h2
  have hle : daysBeforeMonth y (m + 1) ≤ daysBeforeMonth y 13 := by
    have := daysBeforeMonth_le_add y (m := m + 1) (by omega) (12 - m).toNat (by omega)
    have e : m + 1 + ((12 - m).toNat : Int) = 13 := by omega
    rwa [e] at this
  have h0 : 0 ≤ daysBeforeMonth y m := by
    have := daysBeforeMonth_le_add y (m := 1) (by omega) (m - 1).toNat (by omega)
    have e : 1 + ((m - 1).toNat : Int) = m := by omega
    rw [e, daysBeforeMonth_one] at this; omega
  have hm13 := daysBeforeMonth_13 y
  have hy : yearOf (daysFromCivil y m d) = y := by
    apply yearOf_unique
    · unfold daysFromCivil; omega
    · rw [daysBeforeYear_succ]; unfold daysFromCivil; omega
  have hm : monthOfDoy y (daysBeforeMonth y m + (d - 1)) = m :=
    monthOfDoy_unique y h1 h2 (by omega) (by omega)
  simp only [civilFromDays, hy]
  have e : daysFromCivil y m d - daysBeforeYear y = daysBeforeMonth y m + (d - 1) := by
    unfold daysFromCivil; omega
  rw [e, hm]
  congr 1; omega

/-- first day of a year / month, in terms of the civil date of any of its days -/
theorem civil_bounds (z : Int) :
    daysFromCivil (civilFromDays z).year 1 1 ≤ z ∧
    z < daysFromCivil ((civilFromDays z).year + 1) 1 1 ∧
    daysFromCivil (civilFromDays z).year (civilFromDays z).month 1 ≤ z ∧
    z < daysFromCivil (civilFromDays z).year (civilFromDays z).month 1 +
          daysInMonth (civilFromDays z).year (civilFromDays z).month := by
  have hv := civil_valid z
  rw [validDate_iff] at hv
  have hz := daysFromCivil_civil z
  have ⟨a, b⟩ := yearOf_spec z
  have hy : yearOf z = (civilFromDays z).year := rfl
  rw [hy] at a b
  generalize civilFromDays z = c at *
  simp only [daysFromCivil, daysBeforeMonth_one] at *
  omega

theorem civil_year_of_between {z y : Int} (h1 : daysFromCivil y 1 1 ≤ z)
    (h2 : z < daysFromCivil (y + 1) 1 1) : (civilFromDays z).year = y := by
  simp only [daysFromCivil, daysBeforeMonth_one] at h1 h2
  exact yearOf_unique (by omega) (by omega)

theorem civil_month_of_between {z y m : Int} (hm1 : 1 ≤ m) (hm2 : m ≤ 12)
    (h1 : daysFromCivil y m 1 ≤ z) (h2 : z < daysFromCivil y m 1 + daysInMonth y m) :
    (civilFromDays z).year = y ∧ (civilFromDays z).month = m := by
  have hd := daysInMonth_pos y hm1 hm2
  have hv : validDate y m (z - daysFromCivil y m 1 + 1) = true := by
    rw [validDate_iff]; omega
  have := civil_daysFromCivil hv
  have e : daysFromCivil y m (z - daysFromCivil y m 1 + 1) = z := by
    simp only [daysFromCivil]; omega
  rw [e] at this
  rw [this]; exact ⟨rfl, rfl⟩

/-- lexicographic order on valid civil dates is the order of day numbers -/
theorem daysFromCivil_lt {y m d y' m' d' : Int} (hv : validDate y m d = true)
    (hv' : validDate y' m' d' = true)
    (h : y < y' ∨ (y = y' ∧ (m < m' ∨ (m = m' ∧ d < d')))) :
    daysFromCivil y m d < daysFromCivil y' m' d' := by
  rw [validDate_iff] at hv hv'
  obtain ⟨h1, h2, h3, h4⟩ := hv
  obtain ⟨h1', h2', h3', h4'⟩ := hv'
  have hle13 : daysBeforeMonth y m + daysInMonth y m ≤ daysBeforeMonth y 13 :=
    daysBeforeMonth_mono y h1 (by omega) (by omega)
  have h0' : 0 ≤ daysBeforeMonth y' m' := by
    have := daysBeforeMonth_le_add y' (m := 1) (by omega) (m' - 1).toNat (by omega)
    have e : 1 + ((m' - 1).toNat : Int) = m' := by omega
    rw [e, daysBeforeMonth_one] at this; omega
  rw [daysBeforeMonth_13] at hle13
  simp only [daysFromCivil]
  rcases h with h | ⟨rfl, h | ⟨rfl, h⟩⟩
  · have := daysBeforeYear_le (y := y + 1) (y' := y') (by omega)
    rw [daysBeforeYear_succ] at this
    omega
  · have := daysBeforeMonth_mono y h1 h (by omega)
    omega
  · omega

theorem daysFromCivil_inj {y m d y' m' d' : Int} (hv : validDate y m d = true)
    (hv' : validDate y' m' d' = true) (h : daysFromCivil y m d = daysFromCivil y' m' d') :
    y = y' ∧ m = m' ∧ d = d' := by
  have a := civil_daysFromCivil hv
  have b := civil_daysFromCivil hv'
  rw [h, b] at a
  injection a with a1 a2 a3
  exact ⟨a1.symm, a2.symm, a3.symm⟩

theorem civilFromDays_inj {z z' : Int} (h : civilFromDays z = civilFromDays z') : z = z' := by
  have a := daysFromCivil_civil z
  rw [h, daysFromCivil_civil] at a
  exact a.symm

/-- the day number grows by one per civil day: next day of a non-final day of a month -/
theorem daysFromCivil_succ_day (y m d : Int) : daysFromCivil y m (d + 1) = daysFromCivil y m d + 1 := by
  simp only [daysFromCivil]; omega

/-! ### weekday -/

theorem weekday_range (z : Int) : 0 ≤ weekday z ∧ weekday z ≤ 6 := by
  unfold weekday; omega

theorem weekday_add (z k : Int) : weekday (z + k) = (weekday z + k) % 7 := by
  unfold weekday; omega

/-- 1970-01-01 was a Thursday, 2024-01-01 a Monday -/
example : weekday (daysFromCivil 1970 1 1) = 3 ∧ weekday (daysFromCivil 2024 1 1) = 0 := by decide

/-! ### instants -/

theorem dayOf_sub_day (t : Int) : dayOf (t - usPerDay) = dayOf t - 1 := by
  unfold dayOf usPerDay; omega

theorem dayOf_instant_start (z : Int) : dayOf (z * usPerDay - usPerSecond) = z - 1 := by
  unfold dayOf usPerDay usPerSecond; omega

theorem dayOf_mono {s t : Int} (h : s ≤ t) : dayOf s ≤ dayOf t := by
  unfold dayOf usPerDay; omega

theorem lt_of_dayOf_lt {s t : Int} (h : dayOf s < dayOf t) : s < t := by
  unfold dayOf usPerDay at h; omega

theorem dayOf_instant {y m d hh mm ss : Int} (h0 : 0 ≤ hh * 3600 + mm * 60 + ss)
    (h1 : hh * 3600 + mm * 60 + ss < 86400) :
    dayOf (instant y m d hh mm ss) = daysFromCivil y m d := by
  unfold dayOf instant usPerDay usPerSecond; omega

end DawgieVerif.Cal
