/-
Acyclic finite graphs: a rank that decreases along edges (no paths, no pigeonhole), every
node is reached from the roots, and the round-based closure loop of `_ancestry` terminates
within `|nodes|` rounds and computes the transitive closure.
-/
import Mathlib.Logic.Relation
import DawgieVerif.Proofs.DagFlat

namespace DawgieVerif.Dag
open Relation

section Rank
variable {κ : Type}

open Classical in
/-- number of nodes of `univ` strictly above `q` -/
noncomputable def upRank (univ : List κ) (R : κ → κ → Prop) (q : κ) : Nat :=
  (univ.filter (fun x => decide (TransGen R x q))).length

theorem upRank_le (univ : List κ) (R : κ → κ → Prop) (q : κ) : upRank univ R q ≤ univ.length := by
  unfold upRank
  exact List.length_filter_le _ _

theorem upRank_lt (univ : List κ) (R : κ → κ → Prop) (hacyc : ∀ a, ¬ TransGen R a a)
    (hdom : ∀ p q, R p q → p ∈ univ) {p q : κ} (h : R p q) :
    upRank univ R p < upRank univ R q := by
  unfold upRank
  apply filter_length_lt (a := p)
  · intro x hx
    simp only [decide_eq_true_eq] at hx ⊢
    exact TransGen.tail hx h
  · exact hdom p q h
  · simp only [decide_eq_true_eq]
    exact TransGen.single h
  · simp only [decide_eq_true_eq]
    exact hacyc p

end Rank

section Walk
variable {α : Type} [DecidableEq α]

/-- in an acyclic graph whose non-root nodes all have a predecessor, the walk from the roots
    visits every node -/
theorem all_reached (succ : Name α → List (Name α)) (univ roots : List (Name α))
    (E : Name α → Name α → Prop) (hacyc : ∀ a, ¬ TransGen E a a)
    (hdom : ∀ a b, E a b → a ∈ univ) (hsucc : ∀ a b, E a b → b ∈ succ a)
    (hroot : ∀ x, x ∈ univ → x ∈ roots ∨ ∃ a, E a x) :
    ∀ x, x ∈ univ → x ∈ dfs succ univ roots [] := by
  obtain ⟨hstart, _, hclosed⟩ := dfs_start succ univ roots
  have key : ∀ n x, upRank univ E x < n → x ∈ univ → x ∈ dfs succ univ roots [] := by
    intro n
    induction n with
    | zero => intro x h; omega
    | succ n ih =>
      intro x hx hxu
      rcases hroot x hxu with hr | ⟨a, ha⟩
      · exact hstart x hr hxu
      · have hlt := upRank_lt univ E hacyc hdom ha
        have hau := hdom a x ha
        exact hclosed a (ih a (by omega) hau) x (hsucc a x ha) hxu
  intro x hx
  exact key _ x (Nat.lt_succ_self _) hx

/-- the loop of `_ancestry`: with a measure that grows towards the parents and is bounded by
    `N`, `N` rounds of fuel are enough, and the result is the heritage plus everything above
    the frontier (`b ≠ name` is the filter of the loop) -/
theorem ancLoop_spec (par : Name α → List (Name α)) (name : Name α) (μ : Name α → Nat) (N : Nat)
    (hμ : ∀ g p, g ∈ par p → μ p < μ g) (hN : ∀ x, μ x ≤ N) :
    ∀ fuel k heritage frontier, (∀ x, x ∈ frontier → k + 1 ≤ μ x) → N ≤ k + fuel →
      ∃ H, ancLoop par name fuel heritage frontier = some H ∧
        ∀ m, m ∈ H ↔ m ∈ heritage ∨
          ∃ p, p ∈ frontier ∧ TransGen (fun a b => a ∈ par b ∧ b ≠ name) m p := by
  intro fuel
  induction fuel with
  | zero =>
    intro k heritage frontier hf hk
    cases frontier with
    | nil =>
      refine ⟨heritage, by simp [ancLoop], ?_⟩
      intro m
      simp
    | cons p ps =>
      have := hf p List.mem_cons_self
      have := hN p
      omega
  | succ fuel ih =>
    intro k heritage frontier hf hk
    cases frontier with
    | nil =>
      refine ⟨heritage, by simp [ancLoop], ?_⟩
      intro m
      simp
    | cons p ps =>
      have hg : ∀ x, x ∈ dedup (((p :: ps).filter (fun q => decide (q ≠ name))).flatMap par) ↔
          ∃ q, q ∈ p :: ps ∧ q ≠ name ∧ x ∈ par q := by
        intro x
        rw [mem_dedup, List.mem_flatMap]
        constructor
        · rintro ⟨q, hq, hx⟩
          rw [List.mem_filter] at hq
          exact ⟨q, hq.1, by simpa using hq.2, hx⟩
        · rintro ⟨q, hq, hne, hx⟩
          exact ⟨q, List.mem_filter.2 ⟨hq, by simpa using hne⟩, hx⟩
      obtain ⟨H, hH, hmem⟩ := ih (k + 1) (union heritage
        (dedup (((p :: ps).filter (fun q => decide (q ≠ name))).flatMap par)))
        (dedup (((p :: ps).filter (fun q => decide (q ≠ name))).flatMap par))
        (by
          intro x hx
          obtain ⟨q, hq, _, hxq⟩ := (hg x).1 hx
          have := hf q hq
          have := hμ x q hxq
          omega)
        (by omega)
      refine ⟨H, by simpa [ancLoop] using hH, ?_⟩
      intro m
      rw [hmem, mem_union]
      constructor
      · rintro ((h | h) | ⟨g, hgm, ht⟩)
        · exact Or.inl h
        · obtain ⟨q, hq, hne, hx⟩ := (hg m).1 h
          exact Or.inr ⟨q, hq, TransGen.single ⟨hx, hne⟩⟩
        · obtain ⟨q, hq, hne, hx⟩ := (hg g).1 hgm
          exact Or.inr ⟨q, hq, TransGen.tail ht ⟨hx, hne⟩⟩
      · rintro (h | ⟨q, hq, ht⟩)
        · exact Or.inl (Or.inl h)
        · cases ht with
          | single h1 => exact Or.inl (Or.inr ((hg m).2 ⟨q, hq, h1.2, h1.1⟩))
          | tail ht' h1 => exact Or.inr ⟨_, (hg _).2 ⟨q, hq, h1.2, h1.1⟩, ht'⟩

/-- `_ancestry` of one node over an acyclic parent relation whose nodes all lie in `keys`:
    it terminates and yields exactly the strict ancestors -/
theorem ancestryOf_spec (par : Name α → List (Name α)) (keys : List (Name α)) (name : Name α)
    (hacyc : ∀ a, ¬ TransGen (fun a b => a ∈ par b) a a)
    (hdom : ∀ a b, a ∈ par b → b ∈ keys) :
    ∃ H, ancestryOf par keys name = some H ∧
      ∀ m, m ∈ H ↔ TransGen (fun a b => a ∈ par b) m name := by
  -- the measure: number of nodes strictly below
  let R : Name α → Name α → Prop := fun a b => b ∈ par a
  have hacycR : ∀ a, ¬ TransGen R a a := by
    intro a h
    exact hacyc a (transGen_swap.1 h)
  have hμ : ∀ g p, g ∈ par p → upRank keys R p < upRank keys R g :=
    fun g p h => upRank_lt keys R hacycR (fun p' q' h' => hdom q' p' h') (p := p) (q := g) h
  obtain ⟨H, hH, hmem⟩ := ancLoop_spec par name (upRank keys R) keys.length hμ
    (upRank_le keys R) keys.length 0 (par name) (par name)
    (by
      intro x hx
      have := hμ x name hx
      omega)
    (by omega)
  refine ⟨H, hH, ?_⟩
  intro m
  rw [hmem]
  have hmono : ∀ {a b}, TransGen (fun a b => a ∈ par b ∧ b ≠ name) a b →
      TransGen (fun a b => a ∈ par b) a b := by
    intro a b h
    induction h with
    | single h1 => exact TransGen.single h1.1
    | tail _ h1 ih => exact TransGen.tail ih h1.1
  have hfilt : ∀ {a b}, TransGen (fun a b => a ∈ par b) a b →
      TransGen (fun a b => a ∈ par b) b name →
      TransGen (fun a b => a ∈ par b ∧ b ≠ name) a b := by
    intro a b h
    induction h with
    | single h1 =>
      intro hb
      refine TransGen.single ⟨h1, ?_⟩
      rintro rfl
      exact hacyc _ hb
    | tail _ h1 ih =>
      intro hb
      refine TransGen.tail (ih (TransGen.head h1 hb)) ⟨h1, ?_⟩
      rintro rfl
      exact hacyc _ hb
  constructor
  · rintro (h | ⟨p, hp, ht⟩)
    · exact TransGen.single h
    · exact TransGen.tail (hmono ht) hp
  · intro h
    cases h with
    | single h1 => exact Or.inl h1
    | tail ht h1 => exact Or.inr ⟨_, h1, hfilt ht (TransGen.single h1)⟩

end Walk
end DawgieVerif.Dag
