/-
C17 — `_scrub` keeps the denoted set: sorting, merging and index pruning.
-/
import DawgieVerif.Proofs.Search

namespace DawgieVerif.Search

/-! ## divide -/

theorem mem_indicesOf (e : Expr) (j : Int) : j ∈ indicesOf e ↔ Item.idx j ∈ e := by
  induction e with
  | nil => simp [indicesOf]
  | cons it e ih =>
    unfold indicesOf at ih ⊢
    cases it with
    | idx i => simp [ih]
    | rng r => simp [ih]

theorem mem_rangesOf (e : Expr) (r : Range) : r ∈ rangesOf e ↔ Item.rng r ∈ e := by
  induction e with
  | nil => simp [rangesOf]
  | cons it e ih =>
    unfold rangesOf at ih ⊢
    cases it with
    | idx i => simp [ih]
    | rng r' => simp [ih]

/-! ## sort by start -/

theorem mem_insByStart (r x : Range) (l : List Range) : x ∈ insByStart r l ↔ x = r ∨ x ∈ l := by
  induction l with
  | nil => simp [insByStart]
  | cons y ys ih =>
    unfold insByStart
    by_cases h : r.start ≤ y.start
    · simp [h]
    · simp only [h, if_false, List.mem_cons, ih]
      constructor
      · rintro (h | h | h) <;> simp [h]
      · rintro (h | h | h) <;> simp [h]

def ByStart (l : List Range) : Prop := l.Pairwise (fun a b => a.start ≤ b.start)

theorem byStart_insByStart (r : Range) (l : List Range) (hl : ByStart l) :
    ByStart (insByStart r l) := by
  induction l with
  | nil => simp [insByStart, ByStart]
  | cons y ys ih =>
    unfold ByStart at hl ih ⊢
    rw [List.pairwise_cons] at hl
    unfold insByStart
    by_cases h : r.start ≤ y.start
    · simp only [h, if_true, List.pairwise_cons]
      refine ⟨?_, hl⟩
      intro a ha
      rcases List.mem_cons.1 ha with rfl | ha
      · exact h
      · exact Int.le_trans h (hl.1 a ha)
    · simp only [h, if_false, List.pairwise_cons]
      refine ⟨?_, ih hl.2⟩
      intro a ha
      rcases (mem_insByStart r a ys).1 ha with rfl | ha
      · omega
      · exact hl.1 a ha

theorem mem_sortByStart (x : Range) (l : List Range) : x ∈ sortByStart l ↔ x ∈ l := by
  induction l with
  | nil => simp [sortByStart]
  | cons y ys ih =>
    have : sortByStart (y :: ys) = insByStart y (sortByStart ys) := rfl
    rw [this, mem_insByStart, ih]; simp

theorem byStart_sortByStart (l : List Range) : ByStart (sortByStart l) := by
  induction l with
  | nil => simp [sortByStart, ByStart]
  | cons y ys ih =>
    have : sortByStart (y :: ys) = insByStart y (sortByStart ys) := rfl
    rw [this]; exact byStart_insByStart y _ ih

/-! ## merge -/

/-- `i` lies in one of the ranges -/
def RU (l : List Range) (i : Int) : Prop := ∃ r, r ∈ l ∧ r.Has i

theorem RU_nil (i : Int) : RU [] i ↔ False := by simp [RU]

theorem RU_cons (a : Range) (l : List Range) (i : Int) : RU (a :: l) i ↔ a.Has i ∨ RU l i := by
  simp [RU]

theorem RU_congr {l₁ l₂ : List Range} (h : ∀ x, x ∈ l₁ ↔ x ∈ l₂) (i : Int) : RU l₁ i ↔ RU l₂ i := by
  simp [RU, h]

theorem mergeStep_ne_nil (acc : List Range) (r : Range) : mergeStep acc r ≠ [] := by
  unfold mergeStep
  split
  · simp
  · split
    · simp
    · split
      · simp
      · split
        · simp
        · split <;> simp

/-- the head of the accumulator starts no later than the range just merged -/
theorem mergeStep_head (acc : List Range) (r : Range)
    (hs : ∀ m, acc.head? = some m → m.start ≤ r.start) :
    ∀ m', (mergeStep acc r).head? = some m' → m'.start ≤ r.start := by
  intro m'
  cases acc with
  | nil => simp [mergeStep]; rintro rfl; omega
  | cons m ms =>
    have hm : m.start ≤ r.start := hs m rfl
    unfold mergeStep
    simp only
    split
    · simp; rintro rfl; exact hm
    · split
      · simp; rintro rfl; omega
      · split
        · simp; rintro rfl; exact hm
        · split
          · simp; rintro rfl; exact hm
          · simp; rintro rfl; exact hm

theorem RU_keep (m r : Range) (ms : List Range) (i : Int) (key : r.Has i → m.Has i) :
    RU (m :: ms) i ↔ RU (m :: ms) i ∨ r.Has i := by
  constructor
  · intro h; exact Or.inl h
  · rintro (h | h)
    · exact h
    · exact (RU_cons _ _ _).2 (Or.inl (key h))

theorem RU_replace (n m r : Range) (ms : List Range) (i : Int)
    (key : n.Has i ↔ m.Has i ∨ r.Has i) :
    RU (n :: ms) i ↔ RU (m :: ms) i ∨ r.Has i := by
  rw [RU_cons, RU_cons, key]
  constructor
  · rintro ((h | h) | h) <;> simp [h]
  · rintro ((h | h) | h) <;> simp [h]

theorem mergeStep_RU (acc : List Range) (r : Range) (i : Int)
    (hs : ∀ m, acc.head? = some m → m.start ≤ r.start) :
    RU (mergeStep acc r) i ↔ RU acc i ∨ r.Has i := by
  cases acc with
  | nil => simp [mergeStep, RU]
  | cons m ms =>
    have hm : m.start ≤ r.start := hs m rfl
    obtain ⟨ms', me⟩ := m
    obtain ⟨rs', re⟩ := r
    simp only at hm
    unfold mergeStep
    simp only
    cases me with
    | none =>
      apply RU_keep
      cases re <;> simp only [Range.Has, and_true] <;> omega
    | some e =>
      simp only
      by_cases h1 : rs' > e
      · simp only [h1, if_true, RU_cons]
        constructor
        · rintro (h | h | h) <;> simp [h]
        · rintro ((h | h) | h) <;> simp [h]
      · simp only [h1, if_false]
        cases re with
        | none =>
          apply RU_replace
          simp only [Range.Has, and_true]; omega
        | some e' =>
          simp only
          by_cases h2 : e' > e
          · simp only [h2, if_true]
            apply RU_replace
            simp only [Range.Has]; omega
          · simp only [h2, if_false]
            apply RU_keep
            simp only [Range.Has]; omega

theorem foldl_mergeStep_RU (rs : List Range) (i : Int) : ∀ (acc : List Range), ByStart rs →
    (∀ m, acc.head? = some m → ∀ r, r ∈ rs → m.start ≤ r.start) →
    (RU (rs.foldl mergeStep acc) i ↔ RU acc i ∨ RU rs i) := by
  induction rs with
  | nil => intro acc _ _; simp [RU_nil]
  | cons r rs ih =>
    intro acc hsorted hhead
    unfold ByStart at hsorted
    rw [List.pairwise_cons] at hsorted
    have hs : ∀ m, acc.head? = some m → m.start ≤ r.start :=
      fun m hm => hhead m hm r (by simp)
    rw [List.foldl_cons, ih (mergeStep acc r) hsorted.2, mergeStep_RU acc r i hs, RU_cons]
    · constructor
      · rintro ((h | h) | h) <;> simp [h]
      · rintro (h | h | h) <;> simp [h]
    · intro m' hm' r' hr'
      exact Int.le_trans (mergeStep_head acc r hs m' hm') (hsorted.1 r' hr')

theorem foldl_mergeStep_ne_nil (rs : List Range) : ∀ (acc : List Range), acc ≠ [] →
    rs.foldl mergeStep acc ≠ [] := by
  induction rs with
  | nil => intro acc h; simpa using h
  | cons r rs ih => intro acc _; rw [List.foldl_cons]; exact ih _ (mergeStep_ne_nil acc r)

theorem mergeRanges_RU (rs : List Range) (i : Int) (hs : ByStart rs) :
    RU (mergeRanges rs) i ↔ RU rs i := by
  cases rs with
  | nil => simp [mergeRanges]
  | cons r rs =>
    unfold ByStart at hs
    rw [List.pairwise_cons] at hs
    unfold mergeRanges
    rw [RU_congr (l₂ := rs.foldl mergeStep [r]) (by intro x; simp)]
    rw [foldl_mergeStep_RU rs i [r] hs.2, RU_cons, RU_cons, RU_nil]
    · simp
    · intro m hm r' hr'
      simp at hm; subst hm
      exact hs.1 r' hr'

theorem mergeRanges_eq_nil (rs : List Range) : mergeRanges rs = [] ↔ rs = [] := by
  cases rs with
  | nil => simp [mergeRanges]
  | cons r rs =>
    simp only [mergeRanges, List.reverse_eq_nil_iff, reduceCtorEq, iff_false]
    exact foldl_mergeStep_ne_nil rs [r] (by simp)

/-! ## index pruning -/

theorem inScrub_iff (r : Range) (i : Int) : inScrub r i = true ↔ r.Has i := by
  obtain ⟨s, e⟩ := r
  cases e with
  | none => simp [inScrub, Range.Has]; omega
  | some e => simp [inScrub, Range.Has]

theorem any_inScrub_iff (l : List Range) (i : Int) :
    l.any (fun r => inScrub r i) = true ↔ RU l i := by
  simp [List.any_eq_true, RU, inScrub_iff]

end DawgieVerif.Search

namespace DawgieVerif.Search

/-! ## `scrub` -/

theorem justLatest_iff (ix : List Int) (rs : List Range) :
    (isJustLatest ix && rs.isEmpty) = true ↔ (ix ≠ [] ∧ ∀ j, j ∈ ix → j = -1) ∧ rs = [] := by
  simp [isJustLatest, List.all_eq_true, List.isEmpty_iff]

theorem sortByStart_eq_nil (rs : List Range) : sortByStart rs = [] ↔ rs = [] := by
  constructor
  · intro h
    cases rs with
    | nil => rfl
    | cons r rs =>
      have := (mem_sortByStart r (r :: rs)).2 (by simp)
      rw [h] at this; simp at this
  · rintro rfl; rfl

/-- the pruned, merged expression built by the `else` branch of `scrub` -/
def scrubbed (e : Expr) : Expr :=
  let merged := mergeRanges (sortByStart (rangesOf e))
  merged.map Item.rng ++
    (sortDedup intLt ((indicesOf e).filter (fun i => !(merged.any (fun r => inScrub r i))))).map Item.idx

theorem scrub_eq (e : Expr) : scrub e =
    if (isJustLatest (indicesOf e) && (rangesOf e).isEmpty) = true then [Item.idx (-1)]
    else scrubbed e := rfl

theorem exists_has_scrubbed (e : Expr) (i : Int) :
    (∃ it, it ∈ scrubbed e ∧ it.Has i) ↔ (∃ it, it ∈ e ∧ it.Has i) := by
  have hM : RU (mergeRanges (sortByStart (rangesOf e))) i ↔ RU (rangesOf e) i := by
    rw [mergeRanges_RU _ _ (byStart_sortByStart _)]
    exact RU_congr (fun x => mem_sortByStart x _) i
  have hL : (∃ it, it ∈ scrubbed e ∧ it.Has i) ↔
      RU (rangesOf e) i ∨ (i ∈ indicesOf e ∧ ¬ RU (rangesOf e) i) := by
    rw [← hM]
    unfold scrubbed
    simp only [List.mem_append, List.mem_map]
    constructor
    · rintro ⟨it, (⟨r, hr, rfl⟩ | ⟨j, hj, rfl⟩), hi⟩
      · exact Or.inl ⟨r, hr, hi⟩
      · rw [mem_sortDedup intLt_strict, List.mem_filter] at hj
        have hij : i = j := hi
        subst hij
        refine Or.inr ⟨hj.1, ?_⟩
        have := hj.2
        rw [← any_inScrub_iff]
        simpa using this
    · rintro (⟨r, hr, hi⟩ | ⟨hj, hn⟩)
      · exact ⟨Item.rng r, Or.inl ⟨r, hr, rfl⟩, hi⟩
      · refine ⟨Item.idx i, Or.inr ⟨i, ?_, rfl⟩, rfl⟩
        rw [mem_sortDedup intLt_strict, List.mem_filter]
        refine ⟨hj, ?_⟩
        rw [← any_inScrub_iff] at hn
        simpa using hn
  have hR : (∃ it, it ∈ e ∧ it.Has i) ↔ RU (rangesOf e) i ∨ i ∈ indicesOf e := by
    constructor
    · rintro ⟨it, hit, hi⟩
      cases it with
      | idx j =>
        have hij : i = j := hi
        subst hij
        exact Or.inr ((mem_indicesOf e i).2 hit)
      | rng r => exact Or.inl ⟨r, (mem_rangesOf e r).2 hit, hi⟩
    · rintro (⟨r, hr, hi⟩ | hj)
      · exact ⟨Item.rng r, (mem_rangesOf e r).1 hr, hi⟩
      · exact ⟨Item.idx i, (mem_indicesOf e i).1 hj, rfl⟩
  rw [hL, hR]
  by_cases h : RU (rangesOf e) i <;> simp [h]

theorem not_unconstrained_of_else (e : Expr) (he : e ≠ [])
    (hc : ¬ (isJustLatest (indicesOf e) && (rangesOf e).isEmpty) = true) : ¬ Unconstrained e := by
  intro hU
  apply hc
  rw [justLatest_iff]
  refine ⟨⟨?_, ?_⟩, ?_⟩
  · cases e with
    | nil => exact absurd rfl he
    | cons it e =>
      have h0 := hU it (by simp)
      subst h0
      intro h
      have := (mem_indicesOf (Item.idx (-1) :: e) (-1)).2 (by simp)
      rw [h] at this; simp at this
  · intro j hj
    have := hU _ ((mem_indicesOf e j).1 hj)
    injection this
  · cases hrs : rangesOf e with
    | nil => rfl
    | cons r rs =>
      have hr : r ∈ rangesOf e := by rw [hrs]; simp
      have := hU _ ((mem_rangesOf e r).1 hr)
      cases this

theorem not_unconstrained_scrubbed (e : Expr) (he : e ≠ [])
    (hc : ¬ (isJustLatest (indicesOf e) && (rangesOf e).isEmpty) = true) :
    ¬ Unconstrained (scrubbed e) := by
  intro hU
  have hmerged : mergeRanges (sortByStart (rangesOf e)) = [] := by
    cases hm : mergeRanges (sortByStart (rangesOf e)) with
    | nil => rfl
    | cons r rs =>
      have : Item.rng r ∈ scrubbed e := by
        unfold scrubbed; simp only [hm]; simp
      have := hU _ this
      cases this
  have hrs : rangesOf e = [] := (sortByStart_eq_nil _).1 ((mergeRanges_eq_nil _).1 hmerged)
  apply hc
  rw [justLatest_iff]
  refine ⟨⟨?_, ?_⟩, hrs⟩
  · cases e with
    | nil => exact absurd rfl he
    | cons it e =>
      cases it with
      | idx j =>
        intro h
        have := (mem_indicesOf (Item.idx j :: e) j).2 (by simp)
        rw [h] at this; simp at this
      | rng r =>
        have := (mem_rangesOf (Item.rng r :: e) r).2 (by simp)
        rw [hrs] at this; simp at this
  · intro j hj
    have : Item.idx j ∈ scrubbed e := by
      unfold scrubbed
      simp only [hmerged, List.mem_append, List.mem_map]
      refine Or.inr ⟨j, ?_, rfl⟩
      rw [mem_sortDedup intLt_strict, List.mem_filter]
      exact ⟨hj, by simp⟩
    have := hU _ this
    injection this

theorem scrub_denote (e : Expr) (i : Int) : denote (scrub e) i ↔ denote e i := by
  rw [scrub_eq]
  by_cases hc : (isJustLatest (indicesOf e) && (rangesOf e).isEmpty) = true
  · rw [if_pos hc]
    have h1 : denote [Item.idx (-1)] i := Or.inl (by intro it hit; simpa using hit)
    have h2 : denote e i := by
      left
      rw [justLatest_iff] at hc
      intro it hit
      cases it with
      | idx j => rw [hc.1.2 j ((mem_indicesOf e j).2 hit)]
      | rng r =>
        have := (mem_rangesOf e r).2 hit
        rw [hc.2] at this; simp at this
    exact ⟨fun _ => h2, fun _ => h1⟩
  · rw [if_neg hc]
    by_cases he : e = []
    · subst he; exact Iff.rfl
    · unfold denote
      rw [exists_has_scrubbed]
      have h1 := not_unconstrained_of_else e he hc
      have h2 := not_unconstrained_scrubbed e he hc
      simp [h1, h2]

end DawgieVerif.Search
