/-
C20 helper lemmas, part A: the accepted shape of a moment (from the regenerated rule_10 /
dawgie.schedule pieces) and the three timed branches of `_delay`: never an error, the designated
moment matches the specification, and it is the first occurrence on or after today.
-/
import DawgieVerif.Model.Delay
namespace DawgieVerif.Delay
open DawgieVerif.Cal
open DawgieVerif.Generated.Timer

/-! ### specification vocabulary -/

/-- invariant of `datetime.time` -/
def TimeOK (t : TimeOfDay) : Prop :=
  0 ≤ t.hour ∧ t.hour < 24 ∧ 0 ≤ t.minute ∧ t.minute < 60 ∧ 0 ≤ t.second ∧ t.second < 60

/-- invariant of `datetime.date` -/
def DateOK (d : Date) : Prop := 1 ≤ d.year ∧ d.year ≤ 9999 ∧ validDate d.year d.month d.day = true

/-- micro-seconds after midnight of a time of day -/
def TimeOfDay.us (t : TimeOfDay) : Int := (t.hour * 3600 + t.minute * 60 + t.second) * usPerSecond

/-- an event specification the compliance rules accept, inside the quantifier's ranges -/
structure Spec (m : Moment) : Prop where
  rule : rule10 m = true
  sched : scheduleOK m = true
  time : ∀ t, m.time = some t → TimeOK t
  day : ∀ d, m.day = some d → DateOK d
  dom : ∀ n, m.dom = some n → 1 ≤ n ∧ n ≤ 31
  dow : ∀ n, m.dow = some n → 0 ≤ n ∧ n ≤ 6

/-- the clock is at least two months / a week away from the end of `datetime`'s range -/
def NowOK (now : Int) : Prop :=
  1 ≤ (civilFromDays (dayOf now)).year ∧ (civilFromDays (dayOf now)).year ≤ 9998

/-- exactly one of the four fields is given, and a time comes with the three timed ones -/
theorem Spec.shape {m : Moment} (h : Spec m) :
    (∃ b, m.boot = some b ∧ m.day = none ∧ m.dom = none ∧ m.dow = none) ∨
    (∃ d t, m.boot = none ∧ m.day = some d ∧ m.dom = none ∧ m.dow = none ∧ m.time = some t) ∨
    (∃ n t, m.boot = none ∧ m.day = none ∧ m.dom = some n ∧ m.dow = none ∧ m.time = some t) ∨
    (∃ n t, m.boot = none ∧ m.day = none ∧ m.dom = none ∧ m.dow = some n ∧ m.time = some t) := by
  have hr := h.rule
  obtain ⟨boot, day, dom, dow, time⟩ := m
  cases boot <;> cases day <;> cases dom <;> cases dow <;> cases time <;>
    simp [rule10, rule10Count, noneCount, rule10Fields, rule10TimeGuard, fieldIsNone] at hr ⊢

/-! ### calendar facts used below -/

theorem year_le_of_lt {z y : Int} (h : z < daysBeforeYear (y + 1)) : (civilFromDays z).year ≤ y := by
  have ⟨a, _⟩ := yearOf_spec z
  show yearOf z ≤ y
  by_cases hc : yearOf z ≤ y
  · exact hc
  · have := daysBeforeYear_le (y := y + 1) (y' := yearOf z) (by omega); omega

theorem le_year_of_le {z y : Int} (h : daysBeforeYear y ≤ z) : y ≤ (civilFromDays z).year := by
  have ⟨_, b⟩ := yearOf_spec z
  show y ≤ yearOf z
  by_cases hc : y ≤ yearOf z
  · exact hc
  · have := daysBeforeYear_le (y := yearOf z + 1) (y' := y) (by omega); omega

/-- moving at most a year ahead changes the year by at most one -/
theorem year_add {z k : Int} (h0 : 0 ≤ k) (h1 : k ≤ 365) :
    (civilFromDays z).year ≤ (civilFromDays (z + k)).year ∧
    (civilFromDays (z + k)).year ≤ (civilFromDays z).year + 1 := by
  have ⟨a, b⟩ := yearOf_spec z
  have hy : (civilFromDays z).year = yearOf z := rfl
  constructor
  · exact le_year_of_le (by rw [hy]; omega)
  · apply year_le_of_lt
    rw [hy, daysBeforeYear_succ]
    have := yearLen_pos (yearOf z + 1)
    omega

theorem timeOfDay_instant {y m d hh mm ss : Int} (h0 : 0 ≤ hh * 3600 + mm * 60 + ss)
    (h1 : hh * 3600 + mm * 60 + ss < 86400) :
    timeOfDay (instant y m d hh mm ss) = (hh * 3600 + mm * 60 + ss) * usPerSecond := by
  unfold timeOfDay instant usPerDay usPerSecond; omega

theorem TimeOK.bounds {t : TimeOfDay} (h : TimeOK t) :
    0 ≤ t.hour * 3600 + t.minute * 60 + t.second ∧ t.hour * 3600 + t.minute * 60 + t.second < 86400 := by
  unfold TimeOK at h; omega

theorem mkDatetime_ok {y m d : Int} {t : TimeOfDay} (hy : 1 ≤ y ∧ y ≤ 9999)
    (hv : validDate y m d = true) (ht : TimeOK t) :
    mkDatetime y m d t.hour t.minute t.second = .ok (instant y m d t.hour t.minute t.second) := by
  unfold TimeOK at ht
  unfold mkDatetime
  rw [if_pos]
  exact ⟨hy.1, hy.2, hv, ht.1, ht.2.1, ht.2.2.1, ht.2.2.2.1, ht.2.2.2.2.1, ht.2.2.2.2.2⟩

theorem mkDatetime_inv {y m d hh mm ss t : Int} (h : mkDatetime y m d hh mm ss = .ok t) :
    t = instant y m d hh mm ss ∧ 1 ≤ y ∧ y ≤ 9999 ∧ validDate y m d = true ∧
      0 ≤ hh * 3600 + mm * 60 + ss ∧ hh * 3600 + mm * 60 + ss < 86400 := by
  unfold mkDatetime at h
  split at h
  · rename_i hc
    injection h with h
    refine ⟨h.symm, hc.1, hc.2.1, hc.2.2.1, ?_, ?_⟩ <;> omega
  · cases h

/-! ### the fixed-date branch -/

theorem designated_day {now : Int} {m : Moment} {d : Date} {t : TimeOfDay}
    (h1 : m.day = some d) (h2 : m.dom = none) (h3 : m.dow = none) (h4 : m.time = some t) :
    designated now m = mkDatetime d.year d.month d.day t.hour t.minute t.second := by
  simp [designated, h1, h2, h3, h4, timeOf, bind, Except.bind, pure, Except.pure]
  cases mkDatetime d.year d.month d.day t.hour t.minute t.second <;> rfl

/-! ### the day-of-week branch -/

theorem designated_dow {now : Int} {m : Moment} {w : Int} {t : TimeOfDay}
    (h1 : m.day = none) (h2 : m.dom = none) (h3 : m.dow = some w) (h4 : m.time = some t) :
    designated now m =
      (mkDatetime (civilFromDays (dayOf now)).year (civilFromDays (dayOf now)).month
        (civilFromDays (dayOf now)).day t.hour t.minute t.second).bind (fun base =>
          addDays base (if w < weekday (dayOf now) then 7 + w - weekday (dayOf now)
            else w - weekday (dayOf now))) := by
  simp [designated, h1, h2, h3, h4, timeOf, bind, Except.bind, pure, Except.pure]
  cases mkDatetime (civilFromDays (dayOf now)).year (civilFromDays (dayOf now)).month
        (civilFromDays (dayOf now)).day t.hour t.minute t.second with
  | error e => rfl
  | ok b => simp; cases addDays b _ <;> rfl

/-- the day-of-week branch never fails and lands on the wanted weekday at the wanted time,
    today or within the next six days -/
theorem dow_spec {now : Int} {m : Moment} {w : Int} {t : TimeOfDay}
    (h1 : m.day = none) (h2 : m.dom = none) (h3 : m.dow = some w) (h4 : m.time = some t)
    (ht : TimeOK t) (hw : 0 ≤ w ∧ w ≤ 6) (hn : NowOK now) :
    ∃ th, designated now m = .ok th ∧ weekday (dayOf th) = w ∧ timeOfDay th = t.us ∧
      dayOf now ≤ dayOf th ∧ dayOf th ≤ dayOf now + 6 ∧ th - now ≤ 7 * usPerDay := by
  rw [designated_dow h1 h2 h3 h4]
  have hv := civil_valid (dayOf now)
  have hz := daysFromCivil_civil (dayOf now)
  have hb := ht.bounds
  rw [mkDatetime_ok ⟨hn.1, by have := hn.2; omega⟩ hv ht]
  have hwd := weekday_range (dayOf now)
  generalize hdd : (if w < weekday (dayOf now) then 7 + w - weekday (dayOf now)
            else w - weekday (dayOf now)) = dd
  have hdd0 : 0 ≤ dd ∧ dd ≤ 6 ∧ (weekday (dayOf now) + dd) % 7 = w := by
    subst hdd; split <;> omega
  have hday : dayOf (instant (civilFromDays (dayOf now)).year (civilFromDays (dayOf now)).month
      (civilFromDays (dayOf now)).day t.hour t.minute t.second) = dayOf now := by
    rw [dayOf_instant hb.1 hb.2, hz]
  have htod := timeOfDay_instant (y := (civilFromDays (dayOf now)).year)
      (m := (civilFromDays (dayOf now)).month) (d := (civilFromDays (dayOf now)).day) hb.1 hb.2
  have hyr := year_add (z := dayOf now) (k := dd) hdd0.1 (by omega)
  simp only [Except.bind, addDays, hday]
  rw [if_pos ⟨by have := hn.1; omega, by have := hn.2; omega⟩]
  generalize instant (civilFromDays (dayOf now)).year (civilFromDays (dayOf now)).month
      (civilFromDays (dayOf now)).day t.hour t.minute t.second = B at hday htod
  have hsum : dayOf (B + dd * usPerDay) = dayOf now + dd := by
    rw [← hday]; unfold dayOf usPerDay; omega
  refine ⟨_, rfl, ?_, ?_, ?_, ?_, ?_⟩
  · rw [hsum, weekday_add]; exact hdd0.2.2
  · unfold TimeOfDay.us
    rw [← htod]; unfold timeOfDay usPerDay; omega
  · rw [hsum]; omega
  · rw [hsum]; omega
  · unfold dayOf timeOfDay usPerDay usPerSecond at *; omega

/-! ### the day-of-month branch -/

/-- a month shorter than 31 days is followed by a month of 31 days -/
theorem next_month_31 (y : Int) {m : Int} (h1 : 1 ≤ m) (h2 : m ≤ 12) (hlt : daysInMonth y m < 31) :
    daysInMonth (y + (m + 1 - 1) / 12) ((m + 1 - 1) % 12 + 1) = 31 := by
  rcases month_cases h1 h2 with e | e | e | e | e | e | e | e | e | e | e | e <;>
    rw [e] at hlt ⊢ <;> simp [daysInMonth] at hlt ⊢

/-- The month loop returns the FIRST month, counting from `(year, nm)`, that has day `dom`;
    it looks at most one month further. -/
theorem domLoop_spec (dom year nm : Int) (hd : dom ≤ 31) :
    1 ≤ (domLoop dom year nm).2 ∧ (domLoop dom year nm).2 ≤ 12 ∧
    dom ≤ daysInMonth (domLoop dom year nm).1 (domLoop dom year nm).2 ∧
    12 * year + nm ≤ 12 * (domLoop dom year nm).1 + (domLoop dom year nm).2 ∧
    12 * (domLoop dom year nm).1 + (domLoop dom year nm).2 ≤ 12 * year + nm + 1 ∧
    (∀ y' m', 1 ≤ m' → m' ≤ 12 → 12 * year + nm ≤ 12 * y' + m' → dom ≤ daysInMonth y' m' →
      12 * (domLoop dom year nm).1 + (domLoop dom year nm).2 ≤ 12 * y' + m') := by
  have hm1 : 1 ≤ (nm - 1) % 12 + 1 := by omega
  have hm2 : (nm - 1) % 12 + 1 ≤ 12 := by omega
  rw [domLoop]
  split
  · rename_i hc
    dsimp only
    refine ⟨hm1, hm2, by omega, by omega, by omega, ?_⟩
    intro y' m' _ _ h _; omega
  · rename_i hc
    have hlt : daysInMonth (year + (nm - 1) / 12) ((nm - 1) % 12 + 1) < dom := by omega
    have h31 := next_month_31 (year + (nm - 1) / 12) hm1 hm2 (by omega)
    rw [domLoop]
    rw [if_pos (Or.inl (by rw [h31]; exact hd))]
    dsimp only
    have hm1' : 1 ≤ ((nm - 1) % 12 + 1 + 1 - 1) % 12 + 1 := by omega
    have hm2' : ((nm - 1) % 12 + 1 + 1 - 1) % 12 + 1 ≤ 12 := by omega
    refine ⟨hm1', hm2', by rw [h31]; exact hd, by omega, by omega, ?_⟩
    intro y' m' h1' h2' hge hdim
    by_cases heq : 12 * y' + m' = 12 * year + nm
    · have hy : y' = year + (nm - 1) / 12 := by omega
      have hm : m' = (nm - 1) % 12 + 1 := by omega
      rw [hy, hm] at hdim; omega
    · omega

theorem designated_dom {now : Int} {m : Moment} {n : Int} {t : TimeOfDay}
    (h1 : m.day = none) (h2 : m.dom = some n) (h3 : m.dow = none) (h4 : m.time = some t) :
    designated now m =
      mkDatetime
        (domLoop n (civilFromDays (dayOf now)).year ((civilFromDays (dayOf now)).month +
          (if n < (civilFromDays (dayOf now)).day then 1 else 0))).1
        (domLoop n (civilFromDays (dayOf now)).year ((civilFromDays (dayOf now)).month +
          (if n < (civilFromDays (dayOf now)).day then 1 else 0))).2
        n t.hour t.minute t.second := by
  simp [designated, h1, h2, h3, h4, timeOf, bind, Except.bind, pure, Except.pure]
  cases mkDatetime _ _ n t.hour t.minute t.second <;> rfl

/-- the day-of-month branch never fails; the designated moment falls on day `n` of a month at the
    wanted time, not before today, and no other occurrence of day `n` lies between today and it -/
theorem dom_spec {now : Int} {m : Moment} {n : Int} {t : TimeOfDay}
    (h1 : m.day = none) (h2 : m.dom = some n) (h3 : m.dow = none) (h4 : m.time = some t)
    (ht : TimeOK t) (hr : 1 ≤ n ∧ n ≤ 31) (hn : NowOK now) :
    ∃ th, designated now m = .ok th ∧ (civilFromDays (dayOf th)).day = n ∧ timeOfDay th = t.us ∧
      dayOf now ≤ dayOf th ∧
      (∀ y' m', validDate y' m' n = true → dayOf now ≤ daysFromCivil y' m' n →
        dayOf th ≤ daysFromCivil y' m' n) := by
  rw [designated_dom h1 h2 h3 h4]
  have hv := civil_valid (dayOf now)
  rw [validDate_iff] at hv
  have hz := daysFromCivil_civil (dayOf now)
  have hb := ht.bounds
  generalize hc : civilFromDays (dayOf now) = c at *
  have hnm : 1 ≤ c.month + (if n < c.day then 1 else 0) ∧ c.month + (if n < c.day then 1 else 0) ≤ 13 := by
    split <;> omega
  have hs := domLoop_spec n c.year (c.month + (if n < c.day then 1 else 0)) hr.2
  generalize domLoop n c.year (c.month + (if n < c.day then 1 else 0)) = r at hs
  obtain ⟨r1, r2, r3, r4, r5, r6⟩ := hs
  have hvr : validDate r.1 r.2 n = true := by rw [validDate_iff]; exact ⟨r1, r2, hr.1, r3⟩
  have hyr : 1 ≤ r.1 ∧ r.1 ≤ 9999 := by
    have := hn.1; have := hn.2; rw [hc] at *
    constructor <;> omega
  rw [mkDatetime_ok hyr hvr ht]
  have hday := dayOf_instant (y := r.1) (m := r.2) (d := n) hb.1 hb.2
  have hciv := civil_daysFromCivil hvr
  -- today's date is valid, so the lexicographic order of dates is the order of day numbers
  have hvc : validDate c.year c.month c.day = true := by rw [validDate_iff]; exact hv
  refine ⟨_, rfl, ?_, ?_, ?_, ?_⟩
  · rw [hday, hciv]
  · unfold TimeOfDay.us; exact timeOfDay_instant hb.1 hb.2
  · rw [hday, ← hz]
    by_cases hlex : r.1 = c.year ∧ r.2 = c.month
    · have hnd : c.day ≤ n := by
        by_cases hlt : n < c.day
        · rw [if_pos hlt] at r4; omega
        · omega
      rw [hlex.1, hlex.2]; simp only [daysFromCivil]; omega
    · apply Int.le_of_lt
      apply daysFromCivil_lt hvc hvr
      by_cases hy : c.year < r.1
      · left; exact hy
      · right; refine ⟨by omega, ?_⟩
        left
        split at r4 <;> omega
  · intro y' m' hv' hge
    rw [hday]
    rw [validDate_iff] at hv'
    have hidx : 12 * c.year + (c.month + (if n < c.day then 1 else 0)) ≤ 12 * y' + m' := by
      -- a candidate not before today lies in this month (only if day n is still ahead) or later
      by_cases hlt : 12 * y' + m' < 12 * c.year + c.month
      · have : daysFromCivil y' m' n < daysFromCivil c.year c.month c.day := by
          apply daysFromCivil_lt (by rw [validDate_iff]; exact hv') hvc
          by_cases hy : y' < c.year
          · left; exact hy
          · right; refine ⟨by omega, ?_⟩; left; omega
        omega
      · by_cases heq : 12 * y' + m' = 12 * c.year + c.month
        · have hy : y' = c.year := by omega
          have hm : m' = c.month := by omega
          rw [hy, hm] at hge
          have : c.day ≤ n := by
            rw [← hz] at hge; simp only [daysFromCivil] at hge; omega
          rw [if_neg (by omega)]; omega
        · split <;> omega
    have hfirst := r6 y' m' hv'.1 hv'.2.1 hidx hv'.2.2.2
    by_cases hsame : 12 * r.1 + r.2 = 12 * y' + m'
    · have : r.1 = y' := by omega
      have : r.2 = m' := by omega
      subst_vars; exact Int.le_refl _
    · apply Int.le_of_lt
      apply daysFromCivil_lt hvr (by rw [validDate_iff]; exact hv')
      by_cases hy : r.1 < y'
      · left; exact hy
      · right; refine ⟨by omega, ?_⟩; left; omega

end DawgieVerif.Delay
