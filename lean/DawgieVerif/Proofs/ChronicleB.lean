/-
C18 helper lemmas, part B: what one day directory yields (`load`), the complete newest-first
collection of a window (`collect`), and the real day walk of `find` (`walk`) as a prefix of it.
-/
import DawgieVerif.Proofs.ChronicleA
namespace DawgieVerif.Chronicle
open DawgieVerif.Cal
open DawgieVerif.Generated.Chronicle (requiredKeys statusWord keep floorYear floorMonth floorDay oneUs onedayUs)

/-! ### `find`: what one day directory yields -/

/-- the generated keep-test of `_load` says: strictly inside the window, requested outcome -/
theorem keep_iff (a t u : Int) (es s : String) :
    keep a t u es s = true ↔ a < t ∧ t < u ∧ es = s := by
  simp [keep, and_assoc]

theorem entriesIn_eq {j : Journal} (hf : FilesOK j) (c : Civil) :
    (j.filter (fun f => decide (f.dir = c))).flatMap (·.entries)
      = (allEntries j).filter (fun e => decide (dirOf e = c)) := by
  induction j with
  | nil => simp [allEntries]
  | cons f fs ih =>
    have hfs : FilesOK fs := fun g hg => hf g (List.mem_cons_of_mem _ hg)
    have hfe := hf f List.mem_cons_self
    rw [allEntries_cons, List.filter_append, ← ih hfs]
    by_cases h : f.dir = c
    · have : f.entries.filter (fun e => decide (dirOf e = c)) = f.entries := by
        apply List.filter_eq_self.mpr
        intro e he; simp [(hfe e he).1, h]
      simp [h, this]
    · have : f.entries.filter (fun e => decide (dirOf e = c)) = [] := by
        apply List.filter_eq_nil_iff.mpr
        intro e he; simp [(hfe e he).1, h]
      simp [h, this]

theorem dirOf_eq_iff (e : Entry) (D : Int) : dirOf e = civilFromDays D ↔ dayOf e.completed = D := by
  constructor
  · intro h; exact civilFromDays_inj h
  · intro h; simp [dirOf, h]

theorem mem_load {j : Journal} (hf : FilesOK j) {a u : Int} {D : Int} {s : String} {e : Entry} :
    e ∈ load j a u (civilFromDays D) s ↔
      e ∈ allEntries j ∧ dayOf e.completed = D ∧ a < e.completed ∧ e.completed < u ∧ e.status = s := by
  unfold load
  rw [List.mem_mergeSort, entriesIn_eq hf, List.mem_filter, List.mem_filter, keep_iff]
  simp only [decide_eq_true_eq, dirOf_eq_iff]
  constructor
  · rintro ⟨⟨h1, h2⟩, h3, h4, h5⟩; exact ⟨h1, h2, h3, h4, h5⟩
  · rintro ⟨h1, h2, h3, h4, h5⟩; exact ⟨⟨h1, h2⟩, h3, h4, h5⟩

theorem load_sorted (j : Journal) (a u : Int) (c : Civil) (s : String) :
    (load j a u c s).Pairwise (fun x y => keyGe x y = true) := by
  unfold load
  exact List.pairwise_mergeSort keyGe_trans keyGe_total _

theorem load_perm {j : Journal} (hf : FilesOK j) (a u D : Int) (s : String) :
    (load j a u (civilFromDays D) s).Perm
      ((allEntries j).filter (fun e => decide (dayOf e.completed = D) && keep a e.completed u e.status s)) := by
  unfold load
  refine (List.mergeSort_perm _ _).trans ?_
  rw [entriesIn_eq hf, List.filter_filter]
  apply List.Perm.of_eq
  apply List.filter_congr
  intro e _
  by_cases h : dayOf e.completed = D <;> simp [dirOf_eq_iff, h, Bool.and_comm]

theorem load_nil_of_no_dir {j : Journal} {a u : Int} {c : Civil} {s : String}
    (h : ∀ f ∈ j, f.dir ≠ c) : load j a u c s = [] := by
  unfold load
  have : j.filter (fun f => decide (f.dir = c)) = [] := by
    apply List.filter_eq_nil_iff.mpr
    intro f hf; simp [h f hf]
  simp [this]

/-! ### the day walk without skipping and without limit -/

/-- all days from `D` down to `lo`, newest day first -/
def collect (j : Journal) (a u : Int) (s : String) (lo D : Int) : List Entry :=
  if D < lo then [] else load j a u (civilFromDays D) s ++ collect j a u s lo (D - 1)
termination_by (D - lo + 1).toNat
decreasing_by omega

theorem collect_lt {j : Journal} {a u : Int} {s : String} {lo D : Int} (h : D < lo) :
    collect j a u s lo D = [] := by
  rw [collect]; simp [h]

theorem collect_ge {j : Journal} {a u : Int} {s : String} {lo D : Int} (h : lo ≤ D) :
    collect j a u s lo D = load j a u (civilFromDays D) s ++ collect j a u s lo (D - 1) := by
  rw [collect]; simp [Int.not_lt.mpr h]

theorem mem_collect {j : Journal} (hf : FilesOK j) {a u : Int} {s : String} {lo D : Int} {e : Entry} :
    e ∈ collect j a u s lo D ↔
      e ∈ allEntries j ∧ (lo ≤ dayOf e.completed ∧ dayOf e.completed ≤ D) ∧
        a < e.completed ∧ e.completed < u ∧ e.status = s := by
  induction D using collect.induct lo with
  | case1 D h =>
    rw [collect_lt h]
    constructor
    · intro h'; cases h'
    · rintro ⟨_, ⟨h1, h2⟩, _⟩; omega
  | case2 D h ih =>
    rw [collect_ge (by omega), List.mem_append, mem_load hf, ih]
    constructor
    · rintro (⟨h1, h2, h3⟩ | ⟨h1, ⟨h2, h2'⟩, h3⟩)
      · exact ⟨h1, ⟨by omega, by omega⟩, h3⟩
      · exact ⟨h1, ⟨h2, by omega⟩, h3⟩
    · rintro ⟨h1, ⟨h2, h2'⟩, h3⟩
      by_cases hd : dayOf e.completed = D
      · left; exact ⟨h1, hd, h3⟩
      · right; exact ⟨h1, ⟨h2, by omega⟩, h3⟩

theorem collect_sorted {j : Journal} (hf : FilesOK j) (a u : Int) (s : String) (lo D : Int) :
    (collect j a u s lo D).Pairwise (fun x y => keyGe x y = true) := by
  induction D using collect.induct lo with
  | case1 D h => rw [collect_lt h]; exact List.Pairwise.nil
  | case2 D h ih =>
    rw [collect_ge (by omega)]
    refine List.pairwise_append.mpr ⟨load_sorted _ _ _ _ _, ih, ?_⟩
    intro x hx y hy
    have hx' := (mem_load hf).mp hx
    have hy' := (mem_collect hf).mp hy
    exact keyGe_of_lt (lt_of_dayOf_lt (by omega))

theorem filter_split_perm {α : Type} (p q r : α → Bool) (l : List α)
    (h : ∀ x ∈ l, p x = (q x || r x)) (hd : ∀ x ∈ l, ¬ (q x = true ∧ r x = true)) :
    (l.filter p).Perm (l.filter q ++ l.filter r) := by
  induction l with
  | nil => simp
  | cons x xs ih =>
    have ih' := ih (fun y hy => h y (List.mem_cons_of_mem _ hy)) (fun y hy => hd y (List.mem_cons_of_mem _ hy))
    have hx := h x List.mem_cons_self
    have hdx := hd x List.mem_cons_self
    cases hq : q x <;> cases hr : r x <;> simp only [hq, hr, Bool.or_self, Bool.or_false, Bool.or_true] at hx hdx
    · simp only [List.filter_cons, hx, hq, hr, Bool.false_eq_true, if_false]; exact ih'
    · simp only [List.filter_cons, hx, hq, hr, Bool.false_eq_true, if_false, if_true]
      exact (List.Perm.cons x ih').trans List.perm_middle.symm
    · simp only [List.filter_cons, hx, hq, hr, Bool.false_eq_true, if_false, if_true, List.cons_append]
      exact List.Perm.cons x ih'
    · exact absurd ⟨trivial, trivial⟩ hdx

theorem collect_perm {j : Journal} (hf : FilesOK j) (a u : Int) (s : String) (lo D : Int) :
    (collect j a u s lo D).Perm
      ((allEntries j).filter (fun e => (decide (lo ≤ dayOf e.completed) && decide (dayOf e.completed ≤ D))
          && keep a e.completed u e.status s)) := by
  induction D using collect.induct lo with
  | case1 D h =>
    rw [collect_lt h]
    apply List.Perm.of_eq
    symm
    apply List.filter_eq_nil_iff.mpr
    intro e _
    by_cases h1 : lo ≤ dayOf e.completed <;> by_cases h2 : dayOf e.completed ≤ D <;>
      first | (exfalso; omega) | simp [h1, h2]
  | case2 D h ih =>
    rw [collect_ge (by omega)]
    refine ((load_perm hf a u D s).append ih).trans ?_
    refine (filter_split_perm _ _ _ _ ?_ ?_).symm
    · intro e _
      by_cases h1 : dayOf e.completed = D
      · have e1 : decide (dayOf e.completed = D) = true := decide_eq_true h1
        have e2 : decide (lo ≤ dayOf e.completed) = true := decide_eq_true (by omega)
        have e3 : decide (dayOf e.completed ≤ D - 1) = false := decide_eq_false (by omega)
        have e4 : decide (dayOf e.completed ≤ D) = true := decide_eq_true (by omega)
        simp [e1, e2, e3, e4]
      · have e1 : decide (dayOf e.completed = D) = false := decide_eq_false h1
        have e4 : decide (dayOf e.completed ≤ D) = decide (dayOf e.completed ≤ D - 1) := by
          by_cases h3 : dayOf e.completed ≤ D - 1
          · rw [decide_eq_true h3, decide_eq_true (by omega : dayOf e.completed ≤ D)]
          · rw [decide_eq_false h3, decide_eq_false (by omega : ¬ dayOf e.completed ≤ D)]
        simp [e1, e4]
    · intro e _
      simp only [Bool.and_eq_true, decide_eq_true_eq]
      omega

theorem collect_skip {j : Journal} {a u : Int} {s : String} {lo : Int} (n : Nat) :
    ∀ D' D : Int, D' ≤ D → (D - D').toNat = n →
      (∀ z, D' < z → z ≤ D → load j a u (civilFromDays z) s = []) →
      collect j a u s lo D = collect j a u s lo D' := by
  induction n with
  | zero => intro D' D h1 h2 _; have : D = D' := by omega
            rw [this]
  | succ n ih =>
    intro D' D h1 h2 h3
    by_cases hlo : D < lo
    · rw [collect_lt hlo, collect_lt (by omega)]
    · rw [collect_ge (by omega), h3 D (by omega) (by omega), List.nil_append]
      exact ih D' (D - 1) (by omega) (by omega) (fun z hz1 hz2 => h3 z hz1 (by omega))

/-! ### the real walk: skipping missing years / months, stopping at the limit -/

theorem load_nil_of_not_hasDay {j : Journal} {a u : Int} {c : Civil} {s : String}
    (h : hasDay j c = false) : load j a u c s = [] := by
  apply load_nil_of_no_dir
  intro f hf hc
  have : hasDay j c = true := List.any_eq_true.mpr ⟨f, hf, by simp [hc]⟩
  rw [h] at this; exact Bool.noConfusion this

theorem load_nil_of_not_hasMonth {j : Journal} {a u : Int} {c : Civil} {s : String}
    (h : hasMonth j c.year c.month = false) : load j a u c s = [] := by
  apply load_nil_of_no_dir
  intro f hf hc
  have : hasMonth j c.year c.month = true := List.any_eq_true.mpr ⟨f, hf, by simp [hc]⟩
  rw [h] at this; exact Bool.noConfusion this

theorem load_nil_of_not_hasYear {j : Journal} {a u : Int} {c : Civil} {s : String}
    (h : hasYear j c.year = false) : load j a u c s = [] := by
  apply load_nil_of_no_dir
  intro f hf hc
  have : hasYear j c.year = true := List.any_eq_true.mpr ⟨f, hf, by simp [hc]⟩
  rw [h] at this; exact Bool.noConfusion this

theorem dayOf_sub_oneday (t : Int) : dayOf (t - onedayUs) = dayOf t - 1 := by
  unfold dayOf onedayUs usPerDay; omega

theorem dayOf_start_sub_one (z : Int) : dayOf (z * usPerDay - oneUs) = z - 1 := by
  unfold dayOf oneUs usPerDay; omega

/-- The loop of `find` returns `acc` followed by a prefix of the complete newest-first
    collection; the prefix is everything unless the limit stopped the walk. -/
theorem walk_spec (j : Journal) (a u lo : Int) (lim : Option Int) (s : String) (cur : Int)
    (acc : List Entry) :
    ∃ rest, walk j a u lo lim s cur acc = acc ++ rest ∧
      rest <+: collect j a u s lo (dayOf cur) ∧
      (wants lim (acc ++ rest) = true → rest = collect j a u s lo (dayOf cur)) := by
  induction cur, acc using walk.induct j a u lo lim s with
  | case1 cur acc hc c hy hm acc' ih =>
    -- year and month directories exist: visit the day, step back one day
    obtain ⟨rest, h1, h2, h3⟩ := ih
    have hL : acc' = acc ++ load j a u c s := by
      show (if h : hasDay j c = true then acc ++ load j a u c s else acc) = _
      cases hd : hasDay j c with
      | true => simp
      | false => simp [load_nil_of_not_hasDay hd]
    have hI : (if hasDay j c = true then acc ++ load j a u c s else acc) = acc ++ load j a u c s := by
      cases hd : hasDay j c with
      | true => simp
      | false => simp [load_nil_of_not_hasDay hd]
    have hcd : c = civilFromDays (dayOf cur) := rfl
    clear_value c acc'
    rw [walk, if_pos hc]
    simp only [← hcd, hy, hm, if_true]
    refine ⟨load j a u c s ++ rest, ?_, ?_, ?_⟩
    · rw [hI, ← hL, h1, hL, List.append_assoc]
    · rw [collect_ge hc.2, ← hcd]
      rw [dayOf_sub_oneday] at h2
      exact (List.prefix_append_right_inj _).mpr h2
    · intro hw
      rw [collect_ge hc.2, ← hcd]
      rw [dayOf_sub_oneday] at h3
      rw [hL, List.append_assoc] at h3
      rw [h3 hw]
  | case2 cur acc hc c hy hm ih =>
    -- month directory missing: jump to the last second of the previous month
    obtain ⟨rest, h1, h2, h3⟩ := ih
    have hcd : c = civilFromDays (dayOf cur) := rfl
    clear_value c
    rw [dayOf_start_sub_one] at h2 h3
    have hb := civil_bounds (dayOf cur)
    have hv := civil_valid (dayOf cur)
    rw [validDate_iff] at hv
    rw [← hcd] at hb hv
    have hskip : collect j a u s lo (dayOf cur)
        = collect j a u s lo (daysFromCivil c.year c.month 1 - 1) := by
      apply collect_skip _ _ _ (by show _ - 1 ≤ dayOf cur; have := hb.2.2.1; omega) rfl
      intro z hz1 hz2
      have := civil_month_of_between hv.1 hv.2.1 (z := z) (by show daysFromCivil c.year c.month 1 ≤ z; omega)
        (by have := hb.2.2.2; show z < daysFromCivil c.year c.month 1 + daysInMonth c.year c.month; omega)
      apply load_nil_of_not_hasMonth
      rw [this.1, this.2]
      simpa using hm
    rw [walk, if_pos hc]
    simp only [← hcd, hy, if_true]
    refine ⟨rest, ?_, ?_, ?_⟩
    · simp only [hm]; exact h1
    · rw [hskip]; exact h2
    · rw [hskip]; exact h3
  | case3 cur acc hc c hy ih =>
    -- year directory missing: jump to the last second of the previous year
    obtain ⟨rest, h1, h2, h3⟩ := ih
    have hcd : c = civilFromDays (dayOf cur) := rfl
    clear_value c
    rw [dayOf_start_sub_one] at h2 h3
    have hb := civil_bounds (dayOf cur)
    rw [← hcd] at hb
    have hskip : collect j a u s lo (dayOf cur)
        = collect j a u s lo (daysFromCivil c.year 1 1 - 1) := by
      apply collect_skip _ _ _ (by show _ - 1 ≤ dayOf cur; have := hb.1; omega) rfl
      intro z hz1 hz2
      have := civil_year_of_between (z := z) (y := c.year) (by omega)
        (by have := hb.2.1; show z < daysFromCivil (c.year + 1) 1 1; omega)
      apply load_nil_of_not_hasYear
      rw [this]
      simpa using hy
    rw [walk, if_pos hc]
    simp only [← hcd]
    refine ⟨rest, ?_, ?_, ?_⟩
    · simp only [hy]; exact h1
    · rw [hskip]; exact h2
    · rw [hskip]; exact h3
  | case4 cur acc hc =>
    rw [walk, if_neg hc]
    refine ⟨[], by simp, List.nil_prefix, ?_⟩
    intro hw
    rw [List.append_nil] at hw
    have : dayOf cur < lo := by
      by_cases h : lo ≤ dayOf cur
      · exact absurd ⟨hw, h⟩ hc
      · omega
    rw [collect_lt this]

theorem walk_of_not_wants {j : Journal} {a u : Int} {lim : Option Int} {s : String} {cur : Int}
    {acc : List Entry} {lo : Int} (h : wants lim acc = false) : walk j a u lo lim s cur acc = acc := by
  rw [walk, if_neg]
  intro hc; rw [h] at hc; exact Bool.noConfusion hc.1

/-! ### what `find` returns -/

/-- specification: the recorded entries of the requested outcome completed strictly inside
    the window `(a, u)` -/
def wanted (es : List Entry) (a u : Int) (succeeded : Bool) : List Entry :=
  es.filter (fun e => decide (a < e.completed) && decide (e.completed < u)
    && (e.status == statusWord succeeded))

/-- newest first: descending in the sort key of `_most_recent_first`, hence in completion time -/
def NewestFirst (l : List Entry) : Prop := l.Pairwise (fun x y => keyGe x y = true)

theorem NewestFirst.completed_desc {l : List Entry} (h : NewestFirst l) :
    l.Pairwise (fun x y => y.completed ≤ x.completed) :=
  List.Pairwise.imp (fun h => le_of_keyGe h) h

theorem keep_eq_spec (a u : Int) (succ : Bool) (e : Entry) :
    keep a e.completed u e.status (statusWord succ)
      = (decide (a < e.completed) && decide (e.completed < u) && (e.status == statusWord succ)) := by
  rw [Bool.eq_iff_iff, keep_iff]
  simp [and_assoc]

/-- the complete collection of the window, in terms of the appended messages -/
theorem collect_full (es : List Entry) (a u : Int) (succ : Bool) :
    (collect (journalOf es) a u (statusWord succ) (dayOf a) (dayOf u)).Perm (wanted es a u succ) ∧
    NewestFirst (collect (journalOf es) a u (statusWord succ) (dayOf a) (dayOf u)) := by
  obtain ⟨hf, _, hp⟩ := journalOf_ok es
  refine ⟨?_, collect_sorted hf _ _ _ _ _⟩
  refine (collect_perm hf a u (statusWord succ) (dayOf a) (dayOf u)).trans ?_
  unfold wanted
  refine List.Perm.trans (List.Perm.of_eq ?_) (hp.filter _)
  apply List.filter_congr
  intro e _
  rw [← keep_eq_spec]
  cases hk : keep a e.completed u e.status (statusWord succ) with
  | false => simp
  | true =>
    rw [keep_iff] at hk
    have h1 := dayOf_mono (Int.le_of_lt hk.1)
    have h2 := dayOf_mono (Int.le_of_lt hk.2.1)
    simp [h1, h2]

theorem take_of_prefix {l C : List Entry} (hp : l <+: C) {n : Nat} (hn : n ≤ l.length) :
    l.take n = C.take n := by
  rw [List.prefix_iff_eq_take.mp hp, List.take_take, Nat.min_eq_left hn]

/-- `entries[:n]` of the walk is the first `n` of the complete collection -/
theorem pyFirst_walk (j : Journal) (a u : Int) (n : Int) (s : String) :
    pyFirst (walk j a u (dayOf a) (some n) s u []) n
      = (collect j a u s (dayOf a) (dayOf u)).take n.toNat := by
  by_cases hn : 0 < n
  · obtain ⟨rest, h1, h2, h3⟩ := walk_spec j a u (dayOf a) (some n) s u []
    rw [h1, List.nil_append]
    rw [List.nil_append] at h3
    unfold pyFirst
    rw [if_pos (by omega)]
    by_cases hw : (rest.length : Int) < n
    · rw [h3 (by simp [wants, hw])]
    · exact take_of_prefix h2 (by omega)
  · have : wants (some n) ([] : List Entry) = false := by simp [wants]; omega
    rw [walk_of_not_wants this]
    have : n.toNat = 0 := by omega
    simp [pyFirst, this]

/-- `entries[-n:]` of the walk is a sublist of the complete collection, of length at most `n` -/
theorem pyLast_walk (j : Journal) (a u : Int) (n : Int) (s : String) :
    (pyLast (walk j a u (dayOf a) (some n) s u []) n).Sublist (collect j a u s (dayOf a) (dayOf u)) ∧
    (pyLast (walk j a u (dayOf a) (some n) s u []) n).length ≤ n.toNat := by
  by_cases hn : 0 < n
  · obtain ⟨rest, h1, h2, _⟩ := walk_spec j a u (dayOf a) (some n) s u []
    rw [h1, List.nil_append]
    unfold pyLast
    rw [if_pos hn]
    refine ⟨(List.drop_sublist _ _).trans h2.sublist, ?_⟩
    rw [List.length_drop]; omega
  · have : wants (some n) ([] : List Entry) = false := by simp [wants]; omega
    rw [walk_of_not_wants this]
    simp [pyLast]

@[simp] theorem Bound.wall_toUTC (b : Bound) : b.toUTC.wall = b.instant := by
  simp [Bound.wall, Bound.toUTC]

@[simp] theorem Bound.instant_toUTC (b : Bound) : b.toUTC.instant = b.instant := rfl

@[simp] theorem Bound.wall_zero (t : Int) : (⟨t, 0⟩ : Bound).wall = t := by simp [Bound.wall]

theorem walk_none (j : Journal) (a u : Int) (s : String) :
    walk j a u (dayOf a) none s u [] = collect j a u s (dayOf a) (dayOf u) := by
  obtain ⟨rest, h1, _, h3⟩ := walk_spec j a u (dayOf a) none s u []
  rw [h1, List.nil_append]
  exact h3 (by simp [wants])

end DawgieVerif.Chronicle
