/-
Helper lemmas for the task-graph model: sets as lists, association lists, the visited-set
depth-first walk.
-/
import DawgieVerif.Model.Dag

namespace DawgieVerif.Dag

section Sets
variable {κ : Type} [DecidableEq κ] {ν : Type}

theorem mem_addU {l : List κ} {x y : κ} : y ∈ addU l x ↔ y ∈ l ∨ y = x := by
  unfold addU
  split
  · constructor
    · exact Or.inl
    · rintro (h | rfl)
      · exact h
      · assumption
  · simp

theorem mem_union {a b : List κ} {y : κ} : y ∈ union a b ↔ y ∈ a ∨ y ∈ b := by
  unfold union
  induction b generalizing a with
  | nil => simp
  | cons x xs ih =>
    simp only [List.foldl_cons, ih, mem_addU, List.mem_cons]
    constructor
    · rintro ((h | h) | h)
      · exact Or.inl h
      · exact Or.inr (Or.inl h)
      · exact Or.inr (Or.inr h)
    · rintro (h | h | h)
      · exact Or.inl (Or.inl h)
      · exact Or.inl (Or.inr h)
      · exact Or.inr h

theorem mem_dedup {l : List κ} {y : κ} : y ∈ dedup l ↔ y ∈ l := by
  simp [dedup, mem_union]

theorem nodup_addU {l : List κ} {x : κ} (h : l.Nodup) : (addU l x).Nodup := by
  unfold addU
  split
  · exact h
  · rename_i hx
    rw [List.nodup_append]
    refine ⟨h, by simp, ?_⟩
    intro a ha b hb
    simp only [List.mem_singleton] at hb
    subst hb
    intro hab
    exact hx (hab ▸ ha)

theorem nodup_union {a b : List κ} (h : a.Nodup) : (union a b).Nodup := by
  unfold union
  induction b generalizing a with
  | nil => simpa using h
  | cons x xs ih => exact ih (nodup_addU h)

theorem nodup_dedup (l : List κ) : (dedup l).Nodup := nodup_union List.nodup_nil

/-! association lists -/

theorem Tbl.get?_isSome {t : Tbl κ ν} {k : κ} : (t.get? k).isSome = t.has k := by
  unfold Tbl.get? Tbl.has
  induction t with
  | nil => simp
  | cons p ps ih =>
    by_cases h : p.1 = k
    · simp [h]
    · rw [List.find?_cons_of_neg (by simpa using h), List.any_cons]
      simpa [h] using ih

theorem Tbl.has_iff {t : Tbl κ ν} {k : κ} : t.has k = true ↔ k ∈ t.keys := by
  unfold Tbl.has Tbl.keys
  simp only [List.any_eq_true, decide_eq_true_eq, List.mem_map]

theorem Tbl.get?_none {t : Tbl κ ν} {k : κ} (h : k ∉ t.keys) : t.get? k = none := by
  have := Tbl.get?_isSome (t := t) (k := k)
  cases hg : t.get? k with
  | none => rfl
  | some v =>
    rw [hg] at this
    exact absurd (Tbl.has_iff.1 this.symm) h

theorem Tbl.mem_keys_of_get? {t : Tbl κ ν} {k : κ} {v : ν} (h : t.get? k = some v) : k ∈ t.keys := by
  have := Tbl.get?_isSome (t := t) (k := k)
  rw [h] at this
  exact Tbl.has_iff.1 this.symm

theorem Tbl.keys_ensure {t : Tbl κ ν} {k : κ} {d : ν} {x : κ} :
    x ∈ (t.ensure k d).keys ↔ x ∈ t.keys ∨ x = k := by
  unfold Tbl.ensure
  split
  · rename_i h
    constructor
    · exact Or.inl
    · rintro (h' | rfl)
      · exact h'
      · exact Tbl.has_iff.1 h
  · simp [Tbl.keys]

theorem Tbl.get?_ensure {t : Tbl κ ν} {k k' : κ} {d : ν} :
    (t.ensure k d).get? k' = if k' = k then some ((t.get? k).getD d) else t.get? k' := by
  unfold Tbl.ensure
  split
  · rename_i h
    split
    · rename_i hk
      subst hk
      have := Tbl.get?_isSome (t := t) (k := k')
      rw [h] at this
      cases hg : t.get? k' with
      | none => simp [hg] at this
      | some v => simp
    · rfl
  · rename_i h
    have hnone : t.get? k = none := by
      apply Tbl.get?_none
      intro hk
      exact h (Tbl.has_iff.2 hk)
    unfold Tbl.get? at hnone ⊢
    rw [List.find?_append]
    by_cases hk : k' = k
    · subst hk
      simp only [Option.map_eq_none_iff] at hnone
      simp [hnone]
    · have : ¬ k = k' := fun h' => hk h'.symm
      simp [hk, this]

theorem Tbl.keys_mapval {t : Tbl κ ν} {k : κ} {f : ν → ν} :
    Tbl.keys (t.map (fun p => if p.1 = k then (p.1, f p.2) else p)) = t.keys := by
  unfold Tbl.keys
  rw [List.map_map]
  apply List.map_congr_left
  intro p _
  simp only [Function.comp]
  split <;> rfl

theorem Tbl.get?_mapval {t : Tbl κ ν} {k k' : κ} {f : ν → ν} :
    Tbl.get? (t.map (fun p => if p.1 = k then (p.1, f p.2) else p)) k' =
      (t.get? k').map (fun v => if k' = k then f v else v) := by
  unfold Tbl.get?
  induction t with
  | nil => simp
  | cons p ps ih =>
    have hg1 : (if p.1 = k then (p.1, f p.2) else p).1 = p.1 := by split <;> rfl
    rw [List.map_cons]
    by_cases hp : p.1 = k'
    · rw [List.find?_cons_of_pos (by simpa [hg1] using hp), List.find?_cons_of_pos (by simpa using hp)]
      by_cases hk : p.1 = k
      · have hkk : k' = k := hp ▸ hk
        simp [hk, hkk]
      · have hkk : ¬ k' = k := fun h => hk (hp.trans h)
        simp [hk, hkk]
    · rw [List.find?_cons_of_neg (by simpa [hg1] using hp), List.find?_cons_of_neg (by simpa using hp)]
      exact ih

theorem Tbl.keys_upd {t : Tbl κ ν} {k : κ} {d : ν} {f : ν → ν} {x : κ} :
    x ∈ (t.upd k d f).keys ↔ x ∈ t.keys ∨ x = k := by
  unfold Tbl.upd
  rw [Tbl.keys_mapval, Tbl.keys_ensure]

theorem Tbl.get?_upd {t : Tbl κ ν} {k k' : κ} {d : ν} {f : ν → ν} :
    (t.upd k d f).get? k' = if k' = k then some (f ((t.get? k).getD d)) else t.get? k' := by
  unfold Tbl.upd
  rw [Tbl.get?_mapval, Tbl.get?_ensure]
  by_cases hk : k' = k
  · simp [hk]
  · simp only [hk, if_false]
    cases t.get? k' <;> simp

theorem Tbl.get_upd {t : Tbl κ ν} {k k' : κ} {d : ν} {f : ν → ν} :
    (t.upd k d f).get k' d = if k' = k then f (t.get k d) else t.get k' d := by
  unfold Tbl.get
  rw [Tbl.get?_upd]
  split <;> simp

theorem Tbl.get_ensure {t : Tbl κ ν} {k k' : κ} {d : ν} :
    (t.ensure k d).get k' d = t.get k' d := by
  unfold Tbl.get
  rw [Tbl.get?_ensure]
  split
  · rename_i h
    subst h
    simp
  · rfl

omit [DecidableEq κ] in
theorem tabulate_keys {ks : List κ} {F : κ → ν} : Tbl.keys (tabulate ks F) = ks := by
  unfold Tbl.keys tabulate
  induction ks with
  | nil => rfl
  | cons x xs ih => simpa using ih

theorem tabulate_get? {ks : List κ} {F : κ → ν} {k : κ} :
    (tabulate ks F).get? k = if k ∈ ks then some (F k) else none := by
  unfold tabulate Tbl.get?
  induction ks with
  | nil => simp
  | cons x xs ih =>
    simp only [List.map_cons, List.find?_cons]
    by_cases hx : x = k
    · subst hx
      simp
    · have : ¬ k = x := fun h => hx h.symm
      simp only [hx, decide_false, List.mem_cons, this, false_or]
      exact ih

omit [DecidableEq κ] in
theorem inj_of_nodup_map {β : Type} {f : κ → β} {l : List κ} (h : (l.map f).Nodup) {a b : κ}
    (ha : a ∈ l) (hb : b ∈ l) (hab : f a = f b) : a = b := by
  induction l with
  | nil => cases ha
  | cons x xs ih =>
    simp only [List.map_cons, List.nodup_cons, List.mem_map, not_exists, not_and] at h
    rcases List.mem_cons.1 ha with rfl | ha'
    · rcases List.mem_cons.1 hb with rfl | hb'
      · rfl
      · exact absurd hab.symm (h.1 b hb')
    · rcases List.mem_cons.1 hb with rfl | hb'
      · exact absurd hab (h.1 a ha')
      · exact ih h.2 ha' hb'

end Sets

/-! the depth-first walk -/
section Dfs
variable {α : Type} [DecidableEq α]

theorem dfs_spec (succ : Name α → List (Name α)) (univ : List (Name α)) (todo vis : List (Name α)) :
    (∀ v, v ∈ vis → v ∈ dfs succ univ todo vis) ∧
    (∀ x, x ∈ todo → x ∈ univ → x ∈ dfs succ univ todo vis) ∧
    (∀ v, v ∈ dfs succ univ todo vis → v ∈ vis ∨ v ∈ univ) ∧
    ((∀ v, v ∈ vis → ∀ s, s ∈ succ v → s ∈ univ → s ∈ vis ∨ s ∈ todo) →
      ∀ v, v ∈ dfs succ univ todo vis → ∀ s, s ∈ succ v → s ∈ univ → s ∈ dfs succ univ todo vis) := by
  induction todo, vis using dfs.induct succ univ with
  | case1 vis =>
    rw [dfs]
    refine ⟨fun v h => h, fun x h => (by cases h), fun v h => Or.inl h, ?_⟩
    intro hinv v hv s hs hu
    rcases hinv v hv s hs hu with h | h
    · exact h
    · cases h
  | case2 x todo vis hx ih =>
    rw [dfs, if_pos hx]
    obtain ⟨ih1, ih2, ih3, ih4⟩ := ih
    refine ⟨ih1, ?_, ih3, ?_⟩
    · intro y hy hu
      rcases List.mem_cons.1 hy with rfl | hy'
      · exact ih1 _ hx
      · exact ih2 y hy' hu
    · intro hinv
      apply ih4
      intro v hv s hs hu
      rcases hinv v hv s hs hu with h | h
      · exact Or.inl h
      · rcases List.mem_cons.1 h with rfl | h'
        · exact Or.inl hx
        · exact Or.inr h'
  | case3 x todo vis hx hu ih =>
    rw [dfs, if_neg hx, if_pos hu]
    obtain ⟨ih1, ih2, ih3, ih4⟩ := ih
    refine ⟨?_, ?_, ?_, ?_⟩
    · intro v hv
      exact ih1 v (List.mem_append_left _ hv)
    · intro y hy hyu
      rcases List.mem_cons.1 hy with rfl | hy'
      · exact ih1 _ (List.mem_append_right _ (List.mem_singleton.2 rfl))
      · exact ih2 y (List.mem_append_right _ hy') hyu
    · intro v hv
      rcases ih3 v hv with h | h
      · rcases List.mem_append.1 h with h' | h'
        · exact Or.inl h'
        · rw [List.mem_singleton.1 h']
          exact Or.inr hu
      · exact Or.inr h
    · intro hinv
      apply ih4
      intro v hv s hs hsu
      rcases List.mem_append.1 hv with hv' | hv'
      · rcases hinv v hv' s hs hsu with h | h
        · exact Or.inl (List.mem_append_left _ h)
        · rcases List.mem_cons.1 h with rfl | h'
          · exact Or.inl (List.mem_append_right _ (List.mem_singleton.2 rfl))
          · exact Or.inr (List.mem_append_right _ h')
      · rw [List.mem_singleton.1 hv'] at hs
        exact Or.inr (List.mem_append_left _ hs)
  | case4 x todo vis hx hu ih =>
    rw [dfs, if_neg hx, if_neg hu]
    obtain ⟨ih1, ih2, ih3, ih4⟩ := ih
    refine ⟨ih1, ?_, ih3, ?_⟩
    · intro y hy hyu
      rcases List.mem_cons.1 hy with rfl | hy'
      · exact absurd hyu hu
      · exact ih2 y hy' hyu
    · intro hinv
      apply ih4
      intro v hv s hs hsu
      rcases hinv v hv s hs hsu with h | h
      · exact Or.inl h
      · rcases List.mem_cons.1 h with rfl | h'
        · exact absurd hsu hu
        · exact Or.inr h'

/-- a walk started with an empty visited set: contains the start nodes, stays inside `univ`,
    and is closed under successors -/
theorem dfs_start (succ : Name α → List (Name α)) (univ start : List (Name α)) :
    (∀ x, x ∈ start → x ∈ univ → x ∈ dfs succ univ start []) ∧
    (∀ v, v ∈ dfs succ univ start [] → v ∈ univ) ∧
    (∀ v, v ∈ dfs succ univ start [] → ∀ s, s ∈ succ v → s ∈ univ → s ∈ dfs succ univ start []) := by
  obtain ⟨_, h2, h3, h4⟩ := dfs_spec succ univ start []
  refine ⟨h2, ?_, ?_⟩
  · intro v hv
    rcases h3 v hv with h | h
    · cases h
    · exact h
  · apply h4
    intro v hv
    cases hv

end Dfs
end DawgieVerif.Dag
