/-
Helper lemmas for C13: the invariant of the lock model and its preservation by every event.
-/
import DawgieVerif.Model.Lock

namespace DawgieVerif.Lock
open DawgieVerif.Generated.Lock

/-! ### what the theorems need from the regenerated definitions -/

/-- a free lock is reported with the status on which `_do_acquire` grants -/
theorem status_free : statusOf false = grantOn := by decide
/-- a taken lock is reported with a status on which `_do_acquire` does not grant -/
theorem status_held : statusOf true ≠ grantOn := by decide
/-- the status sent with a grant is the one the blocking client waits for -/
theorem grant_is_yours : grantOn = clientWaitsFor := by decide
/-- a release request closes the connection when it comes over the wire; an acquire does not -/
theorem closes_release : closesAfter .release = true := by decide
theorem keeps_acquire : closesAfter .acquire = false := by decide
theorem reply_held : releaseReply true = true := by decide
theorem reply_free : releaseReply false = false := by decide

@[simp] theorem upd_same (f : Nat → Conn) (c : Nat) (k : Conn) : upd f c k c = k := by
  simp [upd]

theorem upd_other (f : Nat → Conn) {c d : Nat} (k : Conn) (h : d ≠ c) : upd f c k d = f d := by
  simp [upd, h]

@[simp] theorem grant_hasLock (k : Conn) : k.grant.hasLock = true := rfl
@[simp] theorem grant_running (k : Conn) : k.grant.running = k.running := rfl
@[simp] theorem grant_stopped (k : Conn) : k.grant.stopped = true := rfl
@[simp] theorem grant_lost (k : Conn) : k.grant.lost = k.lost := rfl
@[simp] theorem grant_pending (k : Conn) : k.grant.pending = k.pending + 1 := rfl

/-- the record of a connection after `connectionLost` -/
def lostConn (k : Conn) : Conn :=
  { hasLock := false, running := k.running, stopped := k.stopped || k.running, lost := true,
    pending := if k.running && !k.stopped then k.pending + 1 else k.pending }

/-- `connectionLost` in closed form: the lock bit is cleared exactly when the connection owned
    the lock; only the record of the connection changes -/
theorem connectionLost_eq (s : St) (c : Nat) :
    connectionLost s c =
      ⟨(if (s.conn c).hasLock then false else s.lock), upd s.conn c (lostConn (s.conn c))⟩ := by
  unfold connectionLost lostConn
  rcases s.conn c with ⟨hl, r, st, lo, p⟩
  cases hl <;> cases r <;> cases st <;> simp

/-! ### the invariant -/

structure Inv (s : St) : Prop where
  /-- at most one owner -/
  uniq : ∀ c d, (s.conn c).hasLock = true → (s.conn d).hasLock = true → c = d
  /-- the lock bit is set only when some connection owns the lock -/
  lockHolder : s.lock = true → ∃ c, (s.conn c).hasLock = true
  /-- an owner implies the lock bit -/
  holderLock : ∀ c, (s.conn c).hasLock = true → s.lock = true
  /-- an owner has been told to stop polling and its connection is up -/
  holderFlags : ∀ c, (s.conn c).hasLock = true →
    (s.conn c).stopped = true ∧ (s.conn c).lost = false
  /-- at most one delayed stop is outstanding, and only for a running, flagged poller -/
  pend : ∀ c, (s.conn c).pending ≤ 1 ∧
    ((s.conn c).pending = 1 → (s.conn c).running = true ∧ (s.conn c).stopped = true)

theorem inv_init : Inv init := by
  constructor <;> simp [init]

/-- replacing the record of one connection (and the lock bit) keeps the invariant when the new
    record is consistent with the rest of the state -/
theorem inv_upd {s : St} (h : Inv s) (c : Nat) (k : Conn) (l : Bool)
    (hk : k.hasLock = true → k.stopped = true ∧ k.lost = false ∧ l = true ∧
      ∀ d, d ≠ c → (s.conn d).hasLock = false)
    (hl : k.hasLock = false → (l = true ↔ ∃ d, d ≠ c ∧ (s.conn d).hasLock = true))
    (hp : k.pending ≤ 1 ∧ (k.pending = 1 → k.running = true ∧ k.stopped = true)) :
    Inv ⟨l, upd s.conn c k⟩ := by
  constructor
  · intro a b ha hb
    simp only at ha hb
    by_cases hac : a = c <;> by_cases hbc : b = c
    · rw [hac, hbc]
    · subst hac
      rw [upd_same] at ha
      rw [upd_other _ _ hbc] at hb
      have := (hk ha).2.2.2 b hbc
      rw [this] at hb; cases hb
    · subst hbc
      rw [upd_same] at hb
      rw [upd_other _ _ hac] at ha
      have := (hk hb).2.2.2 a hac
      rw [this] at ha; cases ha
    · rw [upd_other _ _ hac] at ha
      rw [upd_other _ _ hbc] at hb
      exact h.uniq a b ha hb
  · intro hlock
    simp only at hlock
    cases hkh : k.hasLock with
    | true => exact ⟨c, by simp [hkh]⟩
    | false =>
      obtain ⟨d, hd, hdl⟩ := (hl hkh).mp hlock
      exact ⟨d, by simp only; rw [upd_other _ _ hd]; exact hdl⟩
  · intro a ha
    simp only at ha ⊢
    by_cases hac : a = c
    · subst hac
      rw [upd_same] at ha
      exact (hk ha).2.2.1
    · rw [upd_other _ _ hac] at ha
      cases hkh : k.hasLock with
      | true => exact absurd ha (by rw [(hk hkh).2.2.2 a hac]; simp)
      | false => exact (hl hkh).mpr ⟨a, hac, ha⟩
  · intro a ha
    simp only at ha ⊢
    by_cases hac : a = c
    · subst hac
      rw [upd_same] at ha ⊢
      exact ⟨(hk ha).1, (hk ha).2.1⟩
    · rw [upd_other _ _ hac] at ha ⊢
      exact h.holderFlags a ha
  · intro a
    simp only
    by_cases hac : a = c
    · subst hac
      rw [upd_same]
      exact hp
    · rw [upd_other _ _ hac]
      exact h.pend a

/-- no other connection owns the lock when the lock bit is clear -/
theorem no_holder_of_free {s : St} (h : Inv s) (hf : s.lock = false) (d : Nat) :
    (s.conn d).hasLock = false := by
  cases hd : (s.conn d).hasLock with
  | false => rfl
  | true => have := h.holderLock d hd; rw [hf] at this; cases this

/-- when `c` owns the lock nobody else does -/
theorem others_of_holder {s : St} (h : Inv s) {c : Nat} (hc : (s.conn c).hasLock = true)
    (d : Nat) (hd : d ≠ c) : (s.conn d).hasLock = false := by
  cases hdl : (s.conn d).hasLock with
  | false => rfl
  | true => exact absurd (h.uniq d c hdl hc) hd

/-- when `c` does not own the lock, the lock bit says whether somebody else does -/
theorem lock_iff_other {s : St} (h : Inv s) {c : Nat} (hc : (s.conn c).hasLock = false) :
    s.lock = true ↔ ∃ d, d ≠ c ∧ (s.conn d).hasLock = true := by
  constructor
  · intro hl
    obtain ⟨d, hd⟩ := h.lockHolder hl
    refine ⟨d, ?_, hd⟩
    intro hdc; subst hdc; rw [hc] at hd; cases hd
  · rintro ⟨d, _, hd⟩
    exact h.holderLock d hd

/-- changing flags of one connection that do not touch ownership or the lock bit -/
theorem inv_flags {s : St} (h : Inv s) (c : Nat) (k : Conn)
    (hsame : k.hasLock = (s.conn c).hasLock)
    (hflags : k.hasLock = true → k.stopped = true ∧ k.lost = false)
    (hp : k.pending ≤ 1 ∧ (k.pending = 1 → k.running = true ∧ k.stopped = true)) :
    Inv ⟨s.lock, upd s.conn c k⟩ := by
  apply inv_upd h c k s.lock
  · intro hk
    have hc : (s.conn c).hasLock = true := by rw [← hsame]; exact hk
    exact ⟨(hflags hk).1, (hflags hk).2, h.holderLock c hc, others_of_holder h hc⟩
  · intro hk
    exact lock_iff_other h (by rw [← hsame]; exact hk)
  · exact hp

/-- a connection whose poller has not been told to stop has no delayed stop outstanding -/
theorem pending_zero {s : St} (h : Inv s) {c : Nat} (hs : (s.conn c).stopped = false) :
    (s.conn c).pending = 0 := by
  have := h.pend c
  rcases Nat.lt_or_ge (s.conn c).pending 1 with hlt | hge
  · omega
  · have h1 : (s.conn c).pending = 1 := by omega
    have := (this.2 h1).2
    rw [hs] at this; cases this

theorem inv_poll {s : St} (h : Inv s) (c : Nat) (hr : (s.conn c).running = true) :
    Inv (poll s c).1 := by
  unfold poll
  simp only
  split
  · exact h
  · split
    · exact h
    · rename_i hst hlo
      split
      · rename_i hg
        have hfree : s.lock = false := by
          cases hl : s.lock with
          | false => rfl
          | true => rw [hl] at hg; exact absurd hg status_held
        have hp0 := pending_zero h (c := c) (by simpa using hst)
        apply inv_upd h
        · intro _
          refine ⟨rfl, by simpa using hlo, rfl, fun d _ => no_holder_of_free h hfree d⟩
        · intro hk; simp at hk
        · simp only [grant_pending, grant_running, grant_stopped, hp0]
          exact ⟨by omega, fun _ => ⟨hr, trivial⟩⟩
      · exact h

theorem inv_release {s : St} (h : Inv s) (c : Nat) : Inv (doRelease s c).1 := by
  unfold doRelease
  simp only
  split
  · rename_i hh
    apply inv_upd h
    · intro hk; simp at hk
    · intro _
      constructor
      · intro hf; cases hf
      · rintro ⟨d, hd, hdl⟩
        rw [others_of_holder h hh d hd] at hdl; cases hdl
    · exact h.pend c
  · exact h

theorem inv_lost {s : St} (h : Inv s) (c : Nat) : Inv (connectionLost s c) := by
  rw [connectionLost_eq]
  have hp := h.pend c
  apply inv_upd h
  · intro hx; simp [lostConn] at hx
  · intro _
    cases hh : (s.conn c).hasLock with
    | true =>
      simp only [if_true]
      constructor
      · intro hx; cases hx
      · rintro ⟨d, hd, hdl⟩
        rw [others_of_holder h hh d hd] at hdl; cases hdl
    | false =>
      simp only [Bool.false_eq_true, if_false]
      exact lock_iff_other h hh
  · unfold lostConn
    cases hr : (s.conn c).running <;> cases hs : (s.conn c).stopped <;>
      simp only [Bool.not_true, Bool.not_false, Bool.and_false, Bool.and_true,
        Bool.or_true, Bool.or_false, Bool.false_eq_true, if_false, if_true]
    · exact ⟨hp.1, fun hx => by have := (hp.2 hx).1; rw [hr] at this; cases this⟩
    · exact ⟨hp.1, fun hx => by have := (hp.2 hx).1; rw [hr] at this; cases this⟩
    · have hp0 := pending_zero h hs
      rw [hp0]
      exact ⟨by simp, fun _ => ⟨trivial, trivial⟩⟩
    · exact ⟨hp.1, fun _ => ⟨trivial, trivial⟩⟩

theorem inv_step {s : St} (h : Inv s) (op : Op) : Inv (step s op).1 := by
  cases op with
  | acquire c w =>
    simp only [step]
    split
    · exact h
    · have h1 : Inv ⟨s.lock, upd s.conn c { s.conn c with running := true }⟩ := by
        apply inv_flags h
        · rfl
        · intro hk; exact h.holderFlags c hk
        · exact ⟨(h.pend c).1, fun hp => ⟨rfl, ((h.pend c).2 hp).2⟩⟩
      exact inv_poll h1 c (by simp)
  | tick c =>
    simp only [step]
    split
    · rename_i hr; exact inv_poll h c hr
    · exact h
  | release c w => simp only [step]; exact inv_release h c
  | disconnect c => simp only [step]; exact inv_lost h c
  | stopTimer c =>
    simp only [step]
    have hp := h.pend c
    split
    · exact h
    · rename_i hne
      have h1 : (s.conn c).pending = 1 := by omega
      split
      · apply inv_flags h
        · rfl
        · intro hk; exact h.holderFlags c hk
        · simp only [h1]; exact ⟨by omega, fun hx => by omega⟩
      · apply inv_flags h
        · rfl
        · intro hk; exact h.holderFlags c hk
        · simp only [h1]; exact ⟨by omega, fun hx => by omega⟩

theorem inv_run {s : St} (h : Inv s) (ops : List Op) : Inv (run s ops) := by
  induction ops generalizing s with
  | nil => exact h
  | cons op ops ih => exact ih (inv_step h op)

theorem inv_reachable {s : St} (h : Reachable s) : Inv s := by
  obtain ⟨ops, rfl⟩ := h
  exact inv_run inv_init ops

/-! ### what one poll does -/

theorem yours_eq : yours = .status grantOn := by
  unfold yours; rw [grant_is_yours]

theorem poll_silent {s : St} {c : Nat}
    (h : (s.conn c).stopped = true ∨ (s.conn c).lost = true) : poll s c = (s, []) := by
  unfold poll
  rcases h with h | h
  · simp [h]
  · cases hs : (s.conn c).stopped <;> simp [h]

theorem poll_grant {s : St} {c : Nat} (hs : (s.conn c).stopped = false)
    (hl : (s.conn c).lost = false) (hf : s.lock = false) :
    poll s c = (⟨true, upd s.conn c (s.conn c).grant⟩, [yours]) := by
  unfold poll
  simp [hs, hl, hf, status_free, yours_eq]

theorem poll_deny {s : St} {c : Nat} (hs : (s.conn c).stopped = false)
    (hl : (s.conn c).lost = false) (hf : s.lock = true) :
    poll s c = (s, [.status (statusOf true)]) := by
  unfold poll
  simp [hs, hl, hf, status_held]

theorem deny_ne_yours : Msg.status (statusOf true) ≠ yours := by
  rw [yours_eq]; intro h; injection h with h; exact status_held h

/-- the three outcomes of a poll -/
theorem poll_cases (s : St) (c : Nat) :
    (poll s c = (s, [])) ∨
    (s.lock = false ∧ (s.conn c).stopped = false ∧ (s.conn c).lost = false ∧
      poll s c = (⟨true, upd s.conn c (s.conn c).grant⟩, [yours])) ∨
    (s.lock = true ∧ poll s c = (s, [.status (statusOf true)])) := by
  cases hs : (s.conn c).stopped with
  | true => exact Or.inl (poll_silent (Or.inl hs))
  | false =>
    cases hl : (s.conn c).lost with
    | true => exact Or.inl (poll_silent (Or.inr hl))
    | false =>
      cases hf : s.lock with
      | false => exact Or.inr (Or.inl ⟨rfl, rfl, rfl, poll_grant hs hl hf⟩)
      | true => exact Or.inr (Or.inr ⟨rfl, poll_deny hs hl hf⟩)

/-- a poll that sends "yours" makes the connection owner -/
theorem poll_told {s : St} {c : Nat} (h : yours ∈ (poll s c).2) :
    ((poll s c).1.conn c).hasLock = true ∧ (poll s c).1.lock = true := by
  rcases poll_cases s c with h1 | ⟨_, _, _, h2⟩ | ⟨_, h3⟩
  · rw [h1] at h; simp at h
  · rw [h2]; simp
  · rw [h3] at h
    simp at h
    exact absurd h.symm deny_ne_yours

/-- a poll changes only the polled connection -/
theorem poll_other (s : St) {c d : Nat} (h : d ≠ c) : (poll s c).1.conn d = s.conn d := by
  rcases poll_cases s c with h1 | ⟨_, _, _, h2⟩ | ⟨_, h3⟩
  · rw [h1]
  · rw [h2]; exact upd_other _ _ h
  · rw [h3]

/-- ownership appears in a poll only together with "yours" -/
theorem poll_new_owner {s : St} {c : Nat} (h0 : (s.conn c).hasLock = false)
    (h1 : ((poll s c).1.conn c).hasLock = true) : yours ∈ (poll s c).2 := by
  rcases poll_cases s c with h | ⟨_, _, _, h⟩ | ⟨_, h⟩
  · rw [h] at h1; simp only at h1; rw [h0] at h1; cases h1
  · rw [h]; simp
  · rw [h] at h1; simp only at h1; rw [h0] at h1; cases h1

/-! ### frame: an event touches only its own connection -/

theorem step_other (s : St) (op : Op) {d : Nat} (h : d ≠ op.client) :
    (step s op).1.conn d = s.conn d := by
  cases op with
  | acquire c w =>
    simp only [Op.client] at h
    simp only [step]
    split
    · rfl
    · rw [poll_other _ h]; exact upd_other _ _ h
  | tick c =>
    simp only [Op.client] at h
    simp only [step]
    split
    · exact poll_other _ h
    · rfl
  | release c w =>
    simp only [Op.client] at h
    simp only [step, doRelease]
    split
    · exact upd_other _ _ h
    · rfl
  | disconnect c =>
    simp only [Op.client] at h
    simp only [step, connectionLost_eq]
    exact upd_other _ _ h
  | stopTimer c =>
    simp only [Op.client] at h
    simp only [step]
    split
    · rfl
    · split <;> exact upd_other _ _ h

/-! ### told ⇔ granted -/

theorem step_told {s : St} {op : Op} (h : yours ∈ (step s op).2.msgs) :
    ((step s op).1.conn op.client).hasLock = true ∧ (step s op).1.lock = true := by
  cases op with
  | acquire c w =>
    simp only [step, Op.client] at h ⊢
    split at h
    · simp at h
    · rename_i hr
      simp only [hr, Bool.false_eq_true, if_false]
      exact poll_told h
  | tick c =>
    simp only [step, Op.client] at h ⊢
    split at h
    · rename_i hr
      simp only [hr, if_true]
      exact poll_told h
    · simp at h
  | release c w =>
    simp only [step, doRelease] at h
    split at h <;> simp [yours] at h
  | disconnect c => simp [step] at h
  | stopTimer c =>
    simp only [step] at h
    split at h
    · simp at h
    · split at h <;> simp at h

theorem step_new_owner {s : St} {op : Op} {c : Nat} (h0 : (s.conn c).hasLock = false)
    (h1 : ((step s op).1.conn c).hasLock = true) :
    op.client = c ∧ yours ∈ (step s op).2.msgs := by
  by_cases hc : c = op.client
  · subst hc
    refine ⟨rfl, ?_⟩
    cases op with
    | acquire c w =>
      simp only [step, Op.client] at h0 h1 ⊢
      split
      · rename_i hr
        simp only [hr, if_true] at h1
        rw [h0] at h1; cases h1
      · rename_i hr
        simp only [hr, Bool.false_eq_true, if_false] at h1
        exact poll_new_owner (by simp [h0]) h1
    | tick c =>
      simp only [step, Op.client] at h0 h1 ⊢
      split
      · rename_i hr
        simp only [hr, if_true] at h1
        exact poll_new_owner h0 h1
      · rename_i hr
        simp only [hr, Bool.false_eq_true, if_false] at h1
        rw [h0] at h1; cases h1
    | release c w =>
      simp only [step, doRelease, Op.client] at h0 h1
      simp [h0] at h1
    | disconnect c =>
      simp only [step, connectionLost_eq, Op.client, upd_same, lostConn] at h0 h1
      cases h1
    | stopTimer c =>
      simp only [step, Op.client] at h0 h1
      split at h1
      · rw [h0] at h1; cases h1
      · split at h1 <;> simp [h0] at h1
  · rw [step_other s op hc, h0] at h1; cases h1

/-! ### a dropped connection stays dropped and is never granted -/

def Dead (s : St) (c : Nat) : Prop := (s.conn c).lost = true ∧ (s.conn c).hasLock = false

theorem dead_step {s : St} {c : Nat} (h : Dead s c) (op : Op) :
    Dead (step s op).1 c ∧ ¬ toldYours c (op, (step s op).2) := by
  obtain ⟨hl, hh⟩ := h
  by_cases hc : c = op.client
  · subst hc
    have key : Dead (step s op).1 op.client := by
      cases op with
      | acquire c w =>
        simp only [step, Op.client] at hl hh ⊢
        split
        · exact ⟨hl, hh⟩
        · rw [poll_silent (Or.inr (by simp [hl]))]
          exact ⟨by simp [hl], by simp [hh]⟩
      | tick c =>
        simp only [step, Op.client] at hl hh ⊢
        split
        · rw [poll_silent (Or.inr hl)]; exact ⟨hl, hh⟩
        · exact ⟨hl, hh⟩
      | release c w =>
        simp only [step, doRelease, Op.client] at hl hh ⊢
        simp only [hh, Bool.false_eq_true, if_false]
        exact ⟨hl, hh⟩
      | disconnect c =>
        simp only [step, connectionLost_eq, Op.client, Dead, upd_same, lostConn]
        exact ⟨trivial, trivial⟩
      | stopTimer c =>
        simp only [step, Op.client] at hl hh ⊢
        split
        · exact ⟨hl, hh⟩
        · split <;> exact ⟨by simp [hl], by simp [hh]⟩
    refine ⟨key, ?_⟩
    rintro ⟨_, hy⟩
    have := (step_told hy).1
    rw [key.2] at this; cases this
  · refine ⟨?_, fun ht => hc ht.1.symm⟩
    unfold Dead
    rw [step_other s op hc]
    exact ⟨hl, hh⟩

theorem dead_run {s : St} {c : Nat} (h : Dead s c) (ops : List Op) :
    Dead (run s ops) c ∧ ∀ e ∈ trace s ops, ¬ toldYours c e := by
  induction ops generalizing s with
  | nil => exact ⟨h, by simp [trace]⟩
  | cons op ops ih =>
    obtain ⟨hd, hn⟩ := dead_step h op
    obtain ⟨hd', hn'⟩ := ih hd
    refine ⟨hd', ?_⟩
    intro e he
    simp only [trace, List.mem_cons] at he
    rcases he with rfl | he
    · exact hn
    · exact hn' e he

theorem lost_dead (s : St) (c : Nat) : Dead (connectionLost s c) c := by
  rw [connectionLost_eq]
  simp [Dead, lostConn]

/-! ### events that cannot take the lock -/

/-- events that are neither a poll (`tick`, or the first poll inside `acquire`) nor the drop
    of connection `c` -/
def Quiet (c : Nat) : Op → Prop
  | .tick _ => False
  | .acquire _ _ => False
  | .disconnect d => d ≠ c
  | _ => True

instance (c : Nat) : DecidablePred (Quiet c) := fun op => by
  cases op <;> unfold Quiet <;> infer_instance

theorem stop_lock (s : St) (c : Nat) : (step s (.stopTimer c)).1.lock = s.lock := by
  simp only [step]
  split
  · rfl
  · split <;> rfl

theorem quiet_step {s : St} (h : Inv s) {c : Nat} (hf : s.lock = false) (hw : waiting s c)
    {op : Op} (hq : Quiet c op) :
    (step s op).1.lock = false ∧ waiting (step s op).1 c := by
  cases op with
  | tick d => exact absurd hq id
  | acquire d w => exact absurd hq id
  | release d w =>
    have : (s.conn d).hasLock = false := no_holder_of_free h hf d
    simp only [step, doRelease, this, Bool.false_eq_true, if_false]
    exact ⟨hf, hw⟩
  | disconnect d =>
    have hd : c ≠ d := fun hcd => hq hcd.symm
    simp only [step, connectionLost_eq]
    refine ⟨by simp [hf], ?_⟩
    unfold waiting
    simp only [upd_other _ _ hd]
    exact hw
  | stopTimer d =>
    refine ⟨by rw [stop_lock]; exact hf, ?_⟩
    by_cases hd : c = d
    · subst hd
      have hp0 := pending_zero h hw.2.1
      simp only [step, hp0, if_true]
      exact hw
    · unfold waiting
      rw [step_other s (.stopTimer d) (by simpa [Op.client] using hd)]
      exact hw

theorem quiet_run {s : St} (h : Inv s) {c : Nat} (hf : s.lock = false) (hw : waiting s c)
    (ops : List Op) (hq : ∀ op ∈ ops, Quiet c op) :
    (run s ops).lock = false ∧ waiting (run s ops) c := by
  induction ops generalizing s with
  | nil => exact ⟨hf, hw⟩
  | cons op ops ih =>
    obtain ⟨hf', hw'⟩ := quiet_step h hf hw (hq op (by simp))
    exact ih (inv_step h op) hf' hw' (fun o ho => hq o (by simp [ho]))

/-- the tick of a live waiter on a free lock is a grant -/
theorem tick_grants {s : St} {c : Nat} (hf : s.lock = false) (hw : waiting s c) :
    step s (.tick c) = (⟨true, upd s.conn c (s.conn c).grant⟩, { msgs := [yours] }) := by
  simp only [step, hw.1, if_true, poll_grant hw.2.1 hw.2.2 hf]

/-- the release or the drop of the owner frees the lock and leaves the others alone -/
theorem owner_leaves {s : St} {d : Nat} (hd : (s.conn d).hasLock = true) {op : Op}
    (hop : (∃ w, op = .release d w) ∨ op = .disconnect d) :
    (step s op).1.lock = false ∧ ∀ c, c ≠ d → (step s op).1.conn c = s.conn c := by
  rcases hop with ⟨w, rfl⟩ | rfl
  · refine ⟨?_, fun c hc => step_other s _ (by simpa [Op.client] using hc)⟩
    simp [step, doRelease, hd]
  · refine ⟨?_, fun c hc => step_other s _ (by simpa [Op.client] using hc)⟩
    simp [step, connectionLost_eq, hd]

/-! ### the client protocol -/

def isAcq (c : Nat) : Op → Bool
  | .acquire d _ => d == c
  | _ => false

/-- an event other than `acquire c` does not start the poller of `c` -/
theorem running_mono {s : St} {op : Op} {c : Nat} (hop : isAcq c op = false)
    (hr : (s.conn c).running = false) : ((step s op).1.conn c).running = false := by
  by_cases hc : c = op.client
  · subst hc
    cases op with
    | acquire d w => simp [isAcq, Op.client] at hop
    | tick d =>
      simp only [Op.client] at hr ⊢
      simp [step, hr]
    | release d w =>
      simp only [Op.client] at hr ⊢
      simp only [step, doRelease]
      split <;> simp [hr]
    | disconnect d =>
      simp only [Op.client] at hr ⊢
      simp [step, connectionLost_eq, lostConn, hr]
    | stopTimer d =>
      simp only [Op.client] at hr ⊢
      simp only [step]
      split
      · exact hr
      · split <;> simp [hr]
  · rw [step_other s op hc]; exact hr

end DawgieVerif.Lock
