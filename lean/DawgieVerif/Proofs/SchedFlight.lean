import DawgieVerif.Proofs.SchedInv

namespace DawgieVerif.Sched

/-! ### what is in flight: exactly the executing sets, without duplicates
(needs workers that follow the wire protocol: a reply only for a unit that is in flight) -/

structure Inv2 (g : Graph) (s : St) : Prop where
  /-- in flight ⇒ listed as executing -/
  fd : ∀ n t, (n, t) ∈ s.inflight → t ∈ (s.node n).doing
  /-- no unit is in flight twice -/
  nd : s.inflight.Nodup
  tn : ∀ n, (s.node n).todo.Nodup
  /-- analyses only ever carry the all-targets marker … -/
  ka : ∀ n, g.kind n = .analysis →
    (∀ t ∈ (s.node n).todo, t = ALL) ∧ (∀ t ∈ (s.node n).doing, t = ALL)
  /-- … and nothing else does -/
  kt : ∀ n, g.kind n ≠ .analysis → ALL ∉ (s.node n).todo ∧ ALL ∉ (s.node n).doing
  ta : ALL ∉ s.targets

theorem inv2_init (g : Graph) (ts : List Target) (h : ALL ∉ ts) : Inv2 g (St.init ts) := by
  constructor <;> simp [St.init, Node.empty, h]

theorem addU_nodup {xs : List Target} {t : Target} (h : xs.Nodup) : (addU xs t).Nodup := by
  unfold addU
  split
  · exact h
  · rename_i hn
    rw [List.nodup_append]
    refine ⟨h, by simp, ?_⟩
    intro a ha b hb
    simp at hb; subst hb
    intro c; subst c; exact hn ha

theorem updU_nodup {xs ys : List Target} (h : xs.Nodup) : (updU xs ys).Nodup := by
  unfold updU
  induction ys generalizing xs with
  | nil => exact h
  | cons y ys ih => simp only [List.foldl_cons]; exact ih (addU_nodup h)

theorem orgFold_todo_nodup (g : Graph) (all targets : List Target) (rid : Option Nat)
    (names : List Name) (f : Name → Node) (h : ∀ m, (f m).todo.Nodup) :
    ∀ m, (orgFold g all targets rid names f m).todo.Nodup := by
  induction names generalizing f with
  | nil => exact h
  | cons y ys ih =>
    unfold orgFold
    simp only [List.foldl_cons]
    apply ih
    intro m
    by_cases hm : m = y
    · subst hm; simp only [setNode_same, organizeNode]; exact updU_nodup (h m)
    · rw [setNode_other _ _ _ _ hm]; exact h m

theorem wanted_all (g : Graph) (all targets : List Target) (n : Name) (hall : ALL ∉ all) :
    (g.kind n = .analysis → ∀ t ∈ wanted g all targets n, t = ALL) ∧
    (g.kind n ≠ .analysis → ALL ∉ wanted g all targets n) := by
  unfold wanted
  constructor
  · intro hk; simp [hk]
  · intro hk
    simp only [hk, if_false]
    split
    · exact hall
    · assumption

theorem organize_inv2 (g : Graph) (s : St) (names : List Name) (rid : Option Nat)
    (targets : List Target) (h : Inv2 g s) : Inv2 g (organize g s names rid targets) := by
  have hspec := orgFold_spec g s.targets targets rid names s.node
  constructor
  · intro n t ht
    rw [organize_node, (hspec n).1]; exact h.fd n t ht
  · exact h.nd
  · rw [organize_node]; exact orgFold_todo_nodup g _ _ _ _ _ h.tn
  · intro n hk
    rw [organize_node, (hspec n).1]
    refine ⟨?_, (h.ka n hk).2⟩
    intro t ht
    rw [(hspec n).2.2.2.1] at ht
    rcases ht with c | c
    · exact (h.ka n hk).1 t c
    · exact (wanted_all g s.targets targets n h.ta).1 hk t c.2
  · intro n hk
    rw [organize_node, (hspec n).1]
    refine ⟨?_, (h.kt n hk).2⟩
    intro ht
    rw [(hspec n).2.2.2.1] at ht
    rcases ht with c | c
    · exact (h.kt n hk).1 c
    · exact (wanted_all g s.targets targets n h.ta).2 hk c.2
  · exact h.ta

theorem available_nodup (g : Graph) (s : St) (x : Name) (h : (s.node x).todo.Nodup) :
    (available g s x).Nodup := by
  unfold available
  split
  · simp
  · exact List.Nodup.sublist List.filter_sublist h

theorem releaseJob_inv2 (g : Graph) (s : St) (x : Name) (h : Inv2 g s) :
    Inv2 g (releaseJob g s x).1 := by
  have hav : ∀ t, t ∈ available g s x → t ∈ (s.node x).todo ∧ t ∉ (s.node x).doing := by
    intro t ht
    have := (mem_available g s x t).1 ht
    exact ⟨this.2.1, this.2.2.1⟩
  constructor
  · intro n t ht
    unfold releaseJob at ht ⊢
    dsimp only at ht ⊢
    rw [List.mem_append] at ht
    by_cases hn : n = x
    · subst hn
      simp only [setNode_same, mem_updU]
      rcases ht with c | c
      · exact Or.inl (h.fd n t c)
      · right; simp at c; exact c
    · rw [setNode_other _ _ _ _ hn]
      rcases ht with c | c
      · exact h.fd n t c
      · simp at c; exact absurd c.2.symm hn
  · unfold releaseJob
    dsimp only
    rw [List.nodup_append]
    refine ⟨h.nd, ?_, ?_⟩
    · exact List.Pairwise.map _ (fun a b hab => by simpa using hab) (available_nodup g s x (h.tn x))
    · intro a ha b hb
      simp at hb
      obtain ⟨t, ht, rfl⟩ := hb
      intro c; subst c
      exact (hav t ht).2 (h.fd x t ha)
  · intro n
    unfold releaseJob
    dsimp only
    by_cases hn : n = x
    · subst hn; simp only [setNode_same]; exact List.Nodup.sublist List.filter_sublist (h.tn n)
    · rw [setNode_other _ _ _ _ hn]; exact h.tn n
  · intro n hk
    unfold releaseJob
    dsimp only
    by_cases hn : n = x
    · subst hn
      simp only [setNode_same]
      refine ⟨?_, ?_⟩
      · intro t ht; simp at ht; exact (h.ka n hk).1 t ht.1
      · intro t ht
        rw [mem_updU] at ht
        rcases ht with c | c
        · exact (h.ka n hk).2 t c
        · exact (h.ka n hk).1 t (hav t c).1
    · rw [setNode_other _ _ _ _ hn]; exact h.ka n hk
  · intro n hk
    unfold releaseJob
    dsimp only
    by_cases hn : n = x
    · subst hn
      simp only [setNode_same]
      refine ⟨?_, ?_⟩
      · intro ht; simp at ht; exact (h.kt n hk).1 ht.1
      · intro ht
        rw [mem_updU] at ht
        rcases ht with c | c
        · exact (h.kt n hk).2 c
        · exact (h.kt n hk).1 (hav _ c).1
    · rw [setNode_other _ _ _ _ hn]; exact h.kt n hk
  · exact h.ta

theorem releaseAll_inv2 (g : Graph) (s : St) (q : List Name) (h : Inv2 g s) :
    Inv2 g (releaseAll g s q).1 := by
  induction q generalizing s with
  | nil => exact h
  | cons x xs ih => simp only [releaseAll]; exact ih _ (releaseJob_inv2 g s x h)

theorem foldl_putJob_targets (g : Graph) (js : List Name) (s : St) :
    (js.foldl (putJob g) s).targets = s.targets := by
  induction js generalizing s with
  | nil => rfl
  | cons x xs ih => simp only [List.foldl_cons]; rw [ih (putJob g s x)]; rfl

theorem foldl_putJob_inv2 (g : Graph) (js : List Name) (s : St) (h : Inv2 g s) :
    Inv2 g (js.foldl (putJob g) s) := by
  obtain ⟨_, p2, p3⟩ := foldl_putJob_spec g js s
  constructor
  · intro n t ht; rw [(p3 n).2.1]; rw [p2] at ht; exact h.fd n t ht
  · rw [p2]; exact h.nd
  · intro n; rw [(p3 n).1]; exact h.tn n
  · intro n hk; rw [(p3 n).1, (p3 n).2.1]; exact h.ka n hk
  · intro n hk; rw [(p3 n).1, (p3 n).2.1]; exact h.kt n hk
  · rw [foldl_putJob_targets]; exact h.ta

theorem dispatch_inv2 (g : Graph) (s : St) (h : Inv2 g s) : Inv2 g (dispatch g s).1 := by
  unfold dispatch
  split
  · exact h
  · exact foldl_putJob_inv2 g _ _ (releaseAll_inv2 g s s.que h)


/-! ### replies from workers that follow the protocol -/

theorem complete_inv2 (g : Graph) (s : St) (x : Name) (t : Target) (o : Outcome) (rid : Nat)
    (h : Inv2 g s) (hc : (x, t) ∈ s.inflight) :
    Inv2 g (complete { s with inflight := s.inflight.erase (x, t) } x t o rid) := by
  unfold complete
  constructor
  · intro n u hu
    dsimp only [prune_inflight, prune_node] at hu ⊢
    rw [List.Nodup.mem_erase_iff h.nd] at hu
    obtain ⟨hne, hmem⟩ := hu
    have hd := h.fd n u hmem
    by_cases hn : n = x
    · subst hn
      simp only [setNode_same, completeNode]
      have hut : u ≠ t := fun c => hne (by rw [c])
      split
      · rename_i htall
        -- an all-targets completion: the node is an analysis, so `u` is the marker too
        exfalso
        by_cases hk : g.kind n = .analysis
        · have := (h.ka n hk).2 u hd
          exact hut (this.trans htall.symm)
        · exact (h.kt n hk).2 (htall ▸ h.fd n t hc)
      · simp [hd, hut]
    · rw [setNode_other _ _ _ _ hn]; exact hd
  · exact List.Nodup.erase _ h.nd
  · intro n
    dsimp only [prune_node]
    by_cases hn : n = x
    · subst hn; simp only [setNode_same, completeNode_todo]; exact h.tn n
    · rw [setNode_other _ _ _ _ hn]; exact h.tn n
  · intro n hk
    dsimp only [prune_node]
    by_cases hn : n = x
    · subst hn
      simp only [setNode_same, completeNode_todo]
      exact ⟨(h.ka n hk).1, fun u hu => (h.ka n hk).2 u (mem_completeNode_doing hu).1⟩
    · rw [setNode_other _ _ _ _ hn]; exact h.ka n hk
  · intro n hk
    dsimp only [prune_node]
    by_cases hn : n = x
    · subst hn
      simp only [setNode_same, completeNode_todo]
      exact ⟨(h.kt n hk).1, fun hu => (h.kt n hk).2 (mem_completeNode_doing hu).1⟩
    · rw [setNode_other _ _ _ _ hn]; exact h.kt n hk
  · exact h.ta


theorem purge_inv2 (g : Graph) (s : St) (x : Name) (t : Target) (hi : Inv s) (h : Inv2 g s) :
    Inv2 g (purge g s x t) := by
  unfold purge
  have hd : ∀ n, (if n ∈ g.desc x then purgeNode t (s.node n) else s.node n).doing = (s.node n).doing := by
    intro n; split
    · exact purgeNode_doing t _ (hi.dr n)
    · rfl
  have ht : ∀ n, List.Sublist (if n ∈ g.desc x then purgeNode t (s.node n) else s.node n).todo (s.node n).todo := by
    intro n; split
    · simp [purgeNode]
    · exact List.Sublist.refl _
  constructor
  · intro n u hu
    dsimp only [prune_node, prune_inflight] at hu ⊢
    rw [hd n]; exact h.fd n u hu
  · exact h.nd
  · intro n
    dsimp only [prune_node]
    exact List.Nodup.sublist (ht n) (h.tn n)
  · intro n hk
    dsimp only [prune_node]
    rw [hd n]
    exact ⟨fun u hu => (h.ka n hk).1 u ((ht n).subset hu), (h.ka n hk).2⟩
  · intro n hk
    dsimp only [prune_node]
    rw [hd n]
    exact ⟨fun hu => (h.kt n hk).1 ((ht n).subset hu), (h.kt n hk).2⟩
  · exact h.ta

theorem update_inv2 (g : Graph) (s : St) (x : Name) (t : Target) (rid : Nat)
    (news : List Val) (ne : Bool) (h : Inv2 g s) : Inv2 g (update g s x t rid news ne) := by
  unfold update
  split
  · exact h
  · split <;> exact organize_inv2 g s _ _ _ h

/-- a reply for a unit in flight always finds its job -/
theorem inflight_queued {g : Graph} {s : St} (hi : Inv s) (h : Inv2 g s) {x : Name} {t : Target}
    (hc : (x, t) ∈ s.inflight) : x ∈ s.que :=
  hi.lq x (live_of_work (Or.inr (List.ne_nil_of_mem (h.fd x t hc))))

theorem reply_inv2 (g : Graph) (s : St) (x : Name) (t : Target) (o : Outcome) (rid : Nat)
    (news : List Val) (ne : Bool) (hi : Inv s) (h : Inv2 g s) (hc : (x, t) ∈ s.inflight) :
    Inv2 g (reply g s x t o rid news ne).1 := by
  have hx := inflight_queued hi h hc
  unfold reply
  simp only [hx, if_true]
  have h2 := complete_inv2 g s x t o rid h hc
  have h1 := complete_pre s x t o rid hi
  cases o
  · exact update_inv2 g _ x t rid news ne h2
  · exact purge_inv2 g _ x t h1 h2
  · exact purge_inv2 g _ x t h1 h2

theorem deferNode_inv2 (g : Graph) (s : St) (n : Name) (due : Nat) (h : Inv2 g s) :
    Inv2 g (deferNode g s n due) := by
  unfold deferNode
  by_cases h1 : (s.node n).status = .running ∨ (s.node n).status = .waiting
  · simp only [h1, if_true]; exact h
  · simp only [h1, if_false]
    by_cases h2 : due = 0
    · simp only [h2, if_true]
      constructor
      · intro m u hu
        dsimp only at hu ⊢
        by_cases hm : m = n
        · subst hm; simp only [setNode_same]; exact h.fd m u hu
        · rw [setNode_other _ _ _ _ hm]; exact h.fd m u hu
      · exact h.nd
      · intro m
        dsimp only
        by_cases hm : m = n
        · subst hm; simp only [setNode_same]; exact h.tn m
        · rw [setNode_other _ _ _ _ hm]; exact h.tn m
      · intro m hk
        dsimp only
        by_cases hm : m = n
        · subst hm; simp only [setNode_same]; exact h.ka m hk
        · rw [setNode_other _ _ _ _ hm]; exact h.ka m hk
      · intro m hk
        dsimp only
        by_cases hm : m = n
        · subst hm; simp only [setNode_same]; exact h.kt m hk
        · rw [setNode_other _ _ _ _ hm]; exact h.kt m hk
      · exact h.ta
    · simp only [h2, if_false]
      have hw := wanted_all g s.targets [ALL] n h.ta
      constructor
      · intro m u hu
        dsimp only at hu ⊢
        by_cases hm : m = n
        · subst hm; simp only [setNode_same]; exact h.fd m u hu
        · rw [setNode_other _ _ _ _ hm]; exact h.fd m u hu
      · exact h.nd
      · intro m
        dsimp only
        by_cases hm : m = n
        · subst hm; simp only [setNode_same]; exact updU_nodup (h.tn m)
        · rw [setNode_other _ _ _ _ hm]; exact h.tn m
      · intro m hk
        dsimp only
        by_cases hm : m = n
        · subst hm
          simp only [setNode_same]
          refine ⟨?_, (h.ka m hk).2⟩
          intro u hu
          rw [mem_updU] at hu
          rcases hu with c | c
          · exact (h.ka m hk).1 u c
          · exact hw.1 hk u c
        · rw [setNode_other _ _ _ _ hm]; exact h.ka m hk
      · intro m hk
        dsimp only
        by_cases hm : m = n
        · subst hm
          simp only [setNode_same]
          refine ⟨?_, (h.kt m hk).2⟩
          intro hu
          rw [mem_updU] at hu
          rcases hu with c | c
          · exact (h.kt m hk).1 c
          · exact hw.2 hk c
        · rw [setNode_other _ _ _ _ hm]; exact h.kt m hk
      · exact h.ta

theorem defer_inv2 (g : Graph) (s : St) (per : List (Name × Nat)) (h : Inv2 g s) :
    Inv2 g (defer g s per) := by
  unfold defer
  split
  · exact h
  · have : ∀ (s : St), Inv2 g s → Inv2 g (per.foldl (fun s p => deferNode g s p.1 p.2) s) := by
      induction per with
      | nil => intro s hs; exact hs
      | cons p ps ih => intro s hs; simp only [List.foldl_cons]; exact ih _ (deferNode_inv2 g s p.1 p.2 hs)
    have h' := this s h
    exact ⟨h'.fd, h'.nd, h'.tn, h'.ka, h'.kt, h'.ta⟩

/-- what the property assumes about the environment: a worker answers only for a unit it was
    given (one reply per task), and the all-targets marker is not a target name -/
def OpOk (s : St) : Op → Prop
  | .reply x t _ _ _ _ => (x, t) ∈ s.inflight
  | .addTarget t => t ≠ ALL
  | _ => True

def ValidRun (g : Graph) : St → List Op → Prop
  | _, [] => True
  | s, op :: ops => OpOk s op ∧ ValidRun g (step g s op) ops

theorem step_inv2 (g : Graph) (s : St) (op : Op) (hi : Inv s) (h : Inv2 g s) (hok : OpOk s op) :
    Inv2 g (step g s op) := by
  cases op with
  | organize names rid targets => exact organize_inv2 g s names rid targets h
  | dispatch => exact dispatch_inv2 g s h
  | reply x t o rid news ne => exact reply_inv2 g s x t o rid news ne hi h hok
  | defer per => exact defer_inv2 g s per h
  | pause b => exact ⟨h.fd, h.nd, h.tn, h.ka, h.kt, h.ta⟩
  | addTarget t =>
    refine ⟨h.fd, h.nd, h.tn, h.ka, h.kt, ?_⟩
    simp only [step, mem_addU, not_or]
    exact ⟨h.ta, fun c => hok c.symm⟩

theorem run_inv2 (g : Graph) (s : St) (ops : List Op) (hi : Inv s) (h : Inv2 g s)
    (hv : ValidRun g s ops) : Inv2 g (run g s ops) ∧ Inv (run g s ops) := by
  unfold run
  induction ops generalizing s with
  | nil => exact ⟨h, hi⟩
  | cons op ops ih =>
    simp only [List.foldl_cons]
    exact ih _ (step_inv g s op hi) (step_inv2 g s op hi h hv.1) hv.2

end DawgieVerif.Sched
