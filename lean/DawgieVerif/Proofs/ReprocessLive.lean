import DawgieVerif.Proofs.Reprocess
import DawgieVerif.Proofs.SchedQuiesce

/-! Liveness of the world of `Model/Reprocess.lean`: if every released unit is simply executed
(load the latest contents, store what the algorithm computes, report), the scheduler part of
the world behaves like the rounds of `Proofs/SchedQuiesce.lean` for SOME answers, so on an
acyclic feedback-free graph it is quiescent after depth+1 rounds. -/
namespace DawgieVerif.Reprocess
open DawgieVerif.Sched

/-- the three steps of one execution of `p` on the world `w`: load the latest contents, store
    what the algorithm computes from them, report -/
def unitOps (sem : Sem) (w : W) (p : Unit') : List WOp :=
  [ .read p.1 p.2 w.store,
    .write p.1 p.2 (fun v => sem.F p.1 p.2 (w.source p.1 p.2) w.store v),
    .reply p.1 p.2 0 ]

def answerUnit (g : Graph) (sem : Sem) (w : W) (p : Unit') : W := runW g sem.outs w (unitOps sem w p)

/-- every unit of `l`, one after the other -/
def unitsOps (g : Graph) (sem : Sem) : W → List Unit' → List WOp
  | _, [] => []
  | w, p :: ps => unitOps sem w p ++ unitsOps g sem (answerUnit g sem w p) ps

def tick (g : Graph) (w : W) : W := { w with s := (dispatch g w.s).1 }

/-- one round: a dispatch tick, then every unit in flight is executed and answered -/
def roundOps (g : Graph) (sem : Sem) (w : W) : List WOp :=
  .sched .dispatch :: unitsOps g sem (tick g w) (tick g w).s.inflight

def roundsOps (g : Graph) (sem : Sem) : Nat → W → List WOp
  | 0, _ => []
  | k + 1, w => roundOps g sem w ++ roundsOps g sem k (runW g sem.outs w (roundOps g sem w))

theorem runW_append (g : Graph) (outs : Name → List Val) (w : W) (a b : List WOp) :
    runW g outs w (a ++ b) = runW g outs (runW g outs w a) b := by
  simp [runW, List.foldl_append]

/-- the news the write of `p` computes on `w` -/
def newsAt (sem : Sem) (w : W) (p : Unit') : List Val :=
  (writeAll p.2 (fun v => sem.F p.1 p.2 (w.source p.1 p.2) w.store v) (sem.outs p.1)
    ⟨w.store, w.seen, []⟩).news

/-- the bookkeeping lists are empty between executions -/
def Tidy (w : W) : Prop := w.reading = [] ∧ w.done = []

theorem dropK_single {α : Type} (k : Unit') (a : α) : dropK k [(k, a)] = [] := by
  simp [dropK]

theorem answerUnit_spec (g : Graph) (sem : Sem) (w : W) (p : Unit') (ht : Tidy w) :
    (answerUnit g sem w p).s =
      (Sched.reply g w.s p.1 p.2 .success 0 (newsAt sem w p) (!(sem.outs p.1).isEmpty)).1 ∧
    Tidy (answerUnit g sem w p) ∧
    (answerUnit g sem w p).dirty = w.dirty.filter (fun k => decide (k ≠ (p.1, p.2))) ∧
    (answerUnit g sem w p).source = w.source := by
  obtain ⟨hr, hd⟩ := ht
  unfold answerUnit unitOps runW
  simp only [List.foldl_cons, List.foldl_nil, stepW]
  have hdone : (write sem.outs (read w p.1 p.2 w.store) p.1 p.2
      (fun v => sem.F p.1 p.2 (w.source p.1 p.2) w.store v)).done = [((p.1, p.2), newsAt sem w p)] := by
    simp [write, read, hd, newsAt]
  unfold reply
  rw [hdone]
  simp only [lookupK, if_true]
  refine ⟨rfl, ⟨?_, ?_⟩, rfl, rfl⟩
  · simp [write, read, hr, dropK]
  · exact dropK_single _ _

/-- the scheduler part of executing `l` in order is `answerAll` for any answers that give each
    unit the news its own write computed -/
theorem unitsOps_sched (g : Graph) (sem : Sem) (l : List Unit') (w : W) (ht : Tidy w)
    (hnd : l.Nodup) (ans : Name → Target → Answer) :
    (∀ (pre post : List Unit') (p : Unit'), l = pre ++ p :: post →
      ans p.1 p.2 = ⟨.success, newsAt sem (runW g sem.outs w (unitsOps g sem w pre)) p,
                     !(sem.outs p.1).isEmpty, 0⟩) →
    (runW g sem.outs w (unitsOps g sem w l)).s = answerAll g ans w.s l ∧
    Tidy (runW g sem.outs w (unitsOps g sem w l)) := by
  induction l generalizing w with
  | nil => intro _; exact ⟨rfl, ht⟩
  | cons p ps ih =>
    intro hans
    simp only [unitsOps]
    rw [runW_append]
    have hsp := answerUnit_spec g sem w p ht
    have hw' : runW g sem.outs w (unitOps sem w p) = answerUnit g sem w p := rfl
    rw [hw']
    have hp := hans [] ps p rfl
    simp only [unitsOps, runW, List.foldl_nil] at hp
    have hrest := ih (answerUnit g sem w p) hsp.2.1 (List.nodup_cons.1 hnd).2 ?_
    · refine ⟨?_, hrest.2⟩
      rw [hrest.1, hsp.1]
      simp only [answerAll, List.foldl_cons, answer, hp]
    · intro pre post q hq
      have := hans (p :: pre) post q (by rw [hq]; rfl)
      rw [this]
      simp only [unitsOps]
      rw [runW_append, hw']

/-- answers that reproduce a list of per-unit news -/
def ansOf (tr : List (Unit' × List Val)) (outs : Name → List Val) : Name → Target → Answer :=
  fun x t => ⟨.success, (lookupK (x, t) tr).getD [], !(outs x).isEmpty, 0⟩

/-- the news of every unit of `l`, in execution order -/
def traceOf (g : Graph) (sem : Sem) : W → List Unit' → List (Unit' × List Val)
  | _, [] => []
  | w, p :: ps => (p, newsAt sem w p) :: traceOf g sem (answerUnit g sem w p) ps

theorem lookupK_traceOf (g : Graph) (sem : Sem) (l : List Unit') (w : W) (hnd : l.Nodup)
    (pre post : List Unit') (p : Unit') (hl : l = pre ++ p :: post) :
    lookupK p (traceOf g sem w l) =
      some (newsAt sem (runW g sem.outs w (unitsOps g sem w pre)) p) := by
  induction pre generalizing l w with
  | nil =>
    subst hl
    simp [traceOf, lookupK, unitsOps, runW]
  | cons q qs ih =>
    subst hl
    have hne : q ≠ p := by
      intro e
      have := (List.nodup_cons.1 hnd).1
      apply this
      rw [e]
      simp
    simp only [List.cons_append, traceOf, lookupK, hne, if_false, unitsOps]
    rw [runW_append]
    exact ih (qs ++ p :: post) (answerUnit g sem w q) (List.nodup_cons.1 hnd).2 rfl

/-- one world round is one scheduler round for some answers -/
theorem round_sched (g : Graph) (sem : Sem) (w : W) (ht : Tidy w) (h2 : Inv2 g w.s) :
    ∃ ans, (runW g sem.outs w (roundOps g sem w)).s = round g ans w.s ∧
      Tidy (runW g sem.outs w (roundOps g sem w)) := by
  have hnd : (tick g w).s.inflight.Nodup := (dispatch_inv2 g w.s h2).nd
  refine ⟨ansOf (traceOf g sem (tick g w) (tick g w).s.inflight) sem.outs, ?_⟩
  have htt : Tidy (tick g w) := ht
  have key := unitsOps_sched g sem (tick g w).s.inflight (tick g w) htt hnd
    (ansOf (traceOf g sem (tick g w) (tick g w).s.inflight) sem.outs) ?_
  · unfold roundOps
    have hstep : runW g sem.outs w
        (.sched .dispatch :: unitsOps g sem (tick g w) (tick g w).s.inflight) =
        runW g sem.outs (tick g w) (unitsOps g sem (tick g w) (tick g w).s.inflight) := by
      simp [runW, stepW, step, tick]
    rw [hstep]
    exact ⟨key.1, key.2⟩
  · intro pre post p hl
    simp only [ansOf]
    rw [lookupK_traceOf g sem _ (tick g w) hnd pre post p hl]
    rfl

theorem validW_append (g : Graph) (sem : Sem) (T : List Target) (w : W) (a b : List WOp) :
    ValidW g sem T w (a ++ b) ↔ ValidW g sem T w a ∧ ValidW g sem T (runW g sem.outs w a) b := by
  induction a generalizing w with
  | nil => simp [ValidW, runW]
  | cons op ops ih =>
    simp only [List.cons_append, ValidW, ih, runW, List.foldl_cons, and_assoc]

/-- source data that changed belongs to a unit that will run: it is pending or in flight -/
def DirtyOk (w : W) : Prop := ∀ k ∈ w.dirty, k.2 ∈ (w.s.node k.1).todo ∨ k ∈ w.s.inflight

theorem answerUnit_dirtyOk (g : Graph) (sem : Sem) (w : W) (p : Unit') (ht : Tidy w)
    (hd : DirtyOk w) : DirtyOk (answerUnit g sem w p) := by
  obtain ⟨hs, _, hdirty, _⟩ := answerUnit_spec g sem w p ht
  intro k hk
  rw [hdirty] at hk
  obtain ⟨hk1, hk2⟩ := List.mem_filter.1 hk
  have hne : k ≠ (p.1, p.2) := by simpa using hk2
  rw [hs]
  rcases hd k hk1 with c | c
  · exact Or.inl (reply_success_todo_mono g w.s p.1 p.2 0 _ _ k.1 k.2 c)
  · right
    rw [Reprocess.reply_inflight]
    exact (List.mem_erase_of_ne hne).2 c

theorem unitsOps_dirtyOk (g : Graph) (sem : Sem) (l : List Unit') (w : W) (ht : Tidy w)
    (hd : DirtyOk w) :
    DirtyOk (runW g sem.outs w (unitsOps g sem w l)) ∧ Tidy (runW g sem.outs w (unitsOps g sem w l)) := by
  induction l generalizing w with
  | nil => exact ⟨hd, ht⟩
  | cons p ps ih =>
    simp only [unitsOps]
    rw [runW_append]
    exact ih (answerUnit g sem w p) (answerUnit_spec g sem w p ht).2.1 (answerUnit_dirtyOk g sem w p ht hd)

theorem tick_dirtyOk (g : Graph) (w : W) (hd : DirtyOk w) : DirtyOk (tick g w) := by
  intro k hk
  rcases hd k hk with c | c
  · rcases dispatch_keep g w.s k.1 k.2 c with c1 | c1
    · exact Or.inl c1
    · right
      simp only [tick]
      rw [dispatch_inflight]
      exact List.mem_append_right _ c1
  · right
    simp only [tick]
    rw [dispatch_inflight]
    exact List.mem_append_left _ c

theorem round_dirtyOk (g : Graph) (sem : Sem) (w : W) (ht : Tidy w) (hd : DirtyOk w) :
    DirtyOk (runW g sem.outs w (roundOps g sem w)) := by
  unfold roundOps
  have hstep : runW g sem.outs w
      (.sched .dispatch :: unitsOps g sem (tick g w) (tick g w).s.inflight) =
      runW g sem.outs (tick g w) (unitsOps g sem (tick g w) (tick g w).s.inflight) := by
    simp [runW, stepW, step, tick]
  rw [hstep]
  exact (unitsOps_dirtyOk g sem _ (tick g w) ht (tick_dirtyOk g w hd)).1

/-- progress of the world, round by round -/
theorem rounds_world (g : Graph) (sem : Sem) (T : List Target) (hs : SemOk g T sem)
    (rank : Name → Nat) (R : Nat) (hr : Ranked g rank R) (j k : Nat) (w : W)
    (h3 : Inv3 g sem T w) (hv : ValidW g sem T w (roundsOps g sem j w)) (ht : Tidy w)
    (hp : w.s.paused = false) (hfl : w.s.inflight = []) (hc : CleanBelow rank k w.s)
    (hd : DirtyOk w) :
    CleanBelow rank (k + j) (runW g sem.outs w (roundsOps g sem j w)).s ∧
    Inv3 g sem T (runW g sem.outs w (roundsOps g sem j w)) ∧
    (runW g sem.outs w (roundsOps g sem j w)).s.inflight = [] ∧
    DirtyOk (runW g sem.outs w (roundsOps g sem j w)) := by
  induction j generalizing k w with
  | zero => exact ⟨hc, h3, hfl, hd⟩
  | succ j ih =>
    simp only [roundsOps] at hv ⊢
    rw [runW_append]
    obtain ⟨hv1, hv2⟩ := (validW_append g sem T w _ _).1 hv
    have h3' := runW_inv3 g sem T w (roundOps g sem w) hs h3 hv1
    obtain ⟨ans, hsched, htidy⟩ := round_sched g sem w ht h3.h2
    obtain ⟨_, _, c, d⟩ := round_inv g ans w.s h3.hi h3.h2
    have hprog := round_progress g rank R hr ans k w.s h3.hi h3.h2 hp hfl hc
    have := ih (k + 1) (runW g sem.outs w (roundOps g sem w)) h3' hv2 htidy
      (by rw [hsched, d]; exact hp) (by rw [hsched]; exact c) (by rw [hsched]; exact hprog)
      (round_dirtyOk g sem w ht hd)
    have e : k + 1 + j = k + (j + 1) := by omega
    rw [e] at this
    exact this

/-- after depth+1 rounds the world is quiescent -/
theorem rounds_quiet (g : Graph) (sem : Sem) (T : List Target) (hs : SemOk g T sem)
    (rank : Name → Nat) (R : Nat) (hr : Ranked g rank R) (w : W)
    (h3 : Inv3 g sem T w) (hv : ValidW g sem T w (roundsOps g sem (R + 1) w)) (ht : Tidy w)
    (hp : w.s.paused = false) (hfl : w.s.inflight = []) (hd : DirtyOk w) :
    Quiet (runW g sem.outs w (roundsOps g sem (R + 1) w)) ∧
    Inv3 g sem T (runW g sem.outs w (roundsOps g sem (R + 1) w)) := by
  have hc0 : CleanBelow rank 0 w.s := fun n hn => by omega
  obtain ⟨hc, h3', hfl', hd'⟩ := rounds_world g sem T hs rank R hr (R + 1) 0 w h3 hv ht hp hfl hc0 hd
  generalize runW g sem.outs w (roundsOps g sem (R + 1) w) = w' at *
  have hall : ∀ n, (w'.s.node n).todo = [] ∧ (w'.s.node n).doing = [] := by
    intro n
    have := hr.bound n
    exact hc n (by omega)
  have hq : w'.s.que = [] := by
    rw [List.eq_nil_iff_forall_not_mem]
    intro n hn
    have hl := h3'.hi.ql n hn
    rw [live_iff, (hall n).1, (hall n).2] at hl
    rcases hl with c' | c' | c'
    · exact c' rfl
    · exact c' rfl
    · obtain ⟨t, ht'⟩ := h3'.hi.ri n c'
      rw [hfl'] at ht'; simp at ht'
  refine ⟨⟨hq, hfl', ?_⟩, h3'⟩
  rw [List.eq_nil_iff_forall_not_mem]
  intro k hk
  rcases hd' k hk with c | c
  · rw [(hall k.1).1] at c; simp at c
  · rw [hfl'] at c; simp at c

end DawgieVerif.Reprocess
