/-
Helper lemmas for C10 (and the life-cycle half of C12).

Every per-event fact is a decidable statement about `Core` (finite: 7 states × 3 statuses ×
8 priors × 2 × 2), closed by kernel evaluation over the enumeration `allCores` of ALL cores
against the regenerated transition table.  Histories (unbounded) are handled by induction over
the event list with the invariant `Inv`.
-/
import DawgieVerif.Model.Fsm

namespace DawgieVerif.Fsm
open DawgieVerif.Generated.Fsm

/-! ### finite enumeration of `Core` -/

def allStatus : List Status := [.active, .entering, .exiting]
def allPrior : List (Option State) := none :: State.all.map some
def allBool : List Bool := [false, true]

def allCores : List Core :=
  State.all.flatMap fun s => allStatus.flatMap fun t => allPrior.flatMap fun p =>
    allBool.flatMap fun oa => allBool.map fun a => ⟨s, t, p, oa, a⟩

theorem mem_State_all (s : State) : s ∈ State.all := by cases s <;> decide
theorem mem_Trigger_all (t : Trigger) : t ∈ Trigger.all := by cases t <;> decide
theorem mem_allStatus (s : Status) : s ∈ allStatus := by cases s <;> decide
theorem mem_allBool (b : Bool) : b ∈ allBool := by cases b <;> decide
theorem mem_allPrior (p : Option State) : p ∈ allPrior := by
  cases p with
  | none => simp [allPrior]
  | some s => simp [allPrior, mem_State_all]

theorem mem_allCores (c : Core) : c ∈ allCores := by
  obtain ⟨s, t, p, oa, a⟩ := c
  simp only [allCores, List.mem_flatMap, List.mem_map]
  exact ⟨s, mem_State_all s, t, mem_allStatus t, p, mem_allPrior p, oa, mem_allBool oa, a,
    mem_allBool a, rfl⟩

theorem forall_core {P : Core → Prop} [DecidablePred P]
    (h : (allCores.all fun c => decide (P c)) = true) : ∀ c, P c := by
  intro c
  have := List.all_eq_true.mp h c (mem_allCores c)
  simpa using this

theorem forall_trigger {P : Trigger → Prop} [DecidablePred P]
    (h : (Trigger.all.all fun c => decide (P c)) = true) : ∀ c, P c := by
  intro c
  have := List.all_eq_true.mp h c (mem_Trigger_all c)
  simpa using this

instance {P : Trigger → Prop} [DecidablePred P] : Decidable (∀ t, P t) :=
  decidable_of_iff (∀ t ∈ Trigger.all, P t)
    ⟨fun h t => h t (mem_Trigger_all t), fun h t _ => h t⟩

theorem outcome_rejected_iff (o : Out) :
    o.outcome = .rejected ↔ o.ok = false ∧ o.moves = [] := by
  unfold Out.outcome
  cases hok : o.ok <;> by_cases hm : o.moves = [] <;> simp [hm]

theorem outcome_ne_refused (o : Out) : o.outcome ≠ .refused := by
  unfold Out.outcome
  cases hok : o.ok <;> by_cases hm : o.moves = [] <;> simp [hm]

/-! ### facts about one call, for every core -/

/-- what is checked of the result `o` of a call started in core `c` -/
def outOK (c : Core) (o : Out) : Prop :=
  o.fuelOut = false ∧ MovesFrom c.state o.moves o.core.state ∧ (∀ m ∈ o.moves, IsEdge m) ∧
  (o.ok = false → o.moves = [] → o.core = c ∧ o.started = [] ∧ o.resets = 0)

instance (c : Core) (o : Out) : Decidable (outOK c o) := by unfold outOK; infer_instance

/-- after an event that began with `transitioning = active` (or a completion callback, which
    sets it first): either still active and nothing new was started, or not active and exactly
    one background step was started -/
def shapeOK (o : Out) : Prop :=
  (o.core.tr = .active ∧ o.started = []) ∨ (o.core.tr ≠ .active ∧ o.started.length = 1)

instance (o : Out) : Decidable (shapeOK o) := by unfold shapeOK; infer_instance

/-- a trigger fired from outside, in any core whatsoever -/
theorem fire_ok : ∀ c : Core, ∀ t : Trigger,
    outOK c (run (.fire t) c) ∧ (findEdge t c.state = none → (run (.fire t) c).outcome = .rejected) ∧
    (c.tr = .active → shapeOK (run (.fire t) c)) ∧
    (c.tr ≠ .active → (run (.fire t) c).core.tr = c.tr ∧ (run (.fire t) c).started = []) := by
  apply forall_core
  decide +kernel

def allSteps : List Step := [.load, .reload, .archive, .navelGaze]
theorem mem_allSteps (k : Step) : k ∈ allSteps := by cases k <;> decide

/-- the completion callback of a background step, in any core whatsoever: the state still only
    moves along edges (a refused nested trigger may leave `transitioning` changed, hence only the
    first three conjuncts) -/
theorem completion_ok : ∀ c : Core, ∀ k ∈ allSteps, ∀ b ∈ allBool,
    let o := completion k b c
    o.fuelOut = false ∧ MovesFrom c.state o.moves o.core.state ∧ (∀ m ∈ o.moves, IsEdge m) ∧
    shapeOK o := by
  apply forall_core
  decide +kernel

/-! ### the invariant of reachable states -/

/-- `transitioning` and the outstanding steps are determined by the state -/
def expect (s : State) : Status × List Step :=
  match s with
  | .starting => (.active, [])
  | .loading => (.entering, [.load])
  | .contemplation => (.entering, [.navelGaze])
  | .running => (.active, [])
  | .gitting => (.active, [])
  | .archiving => (.entering, [.archive])
  | .updating => (.exiting, [.reload])

def InvC (c : Core) : Prop :=
  c.tr = (expect c.state).1 ∧
  (c.state = .archiving → c.prior = some .running ∨ c.prior = some .updating)

instance (c : Core) : Decidable (InvC c) := by unfold InvC; infer_instance

def Inv (s : St) : Prop := InvC s.core ∧ s.outstanding = (expect s.core.state).2

instance (s : St) : Decidable (Inv s) := by unfold Inv; infer_instance

def mk (c : Core) : St := ⟨c, (expect c.state).2⟩

theorem inv_eq_mk {s : St} (h : Inv s) : s = mk s.core := by
  obtain ⟨c, o⟩ := s
  simp only [Inv] at h
  simp [mk, h.2]

/-- the events that can matter in an `Inv` state (`complete i` with `i ≥ 1` finds nothing) -/
def probeEvents : List Event :=
  [.boot, .submitBegin, .submitEnd, .dispatchArchive, .update, .flagArchive,
   .complete 0 false, .complete 0 true]

/-! origin of an archive excursion: where `archiving` was entered from -/

/-- `rto o ms`: every move of `ms` that leaves `archiving` goes to the recorded origin `o`
    (the source of the latest move into `archiving`) -/
def rto (origin : Option State) : List Move → Bool
  | [] => true
  | m :: ms =>
    (decide (m.src ≠ .archiving) || decide (origin = some m.dst)) &&
      rto (if m.dst = .archiving then some m.src else none) ms

def originAfter (origin : Option State) : List Move → Option State
  | [] => origin
  | m :: ms => originAfter (if m.dst = .archiving then some m.src else none) ms

theorem rto_append (o : Option State) (a b : List Move) :
    rto o (a ++ b) = (rto o a && rto (originAfter o a) b) := by
  induction a generalizing o with
  | nil => simp [rto, originAfter]
  | cons m ms ih => simp [rto, originAfter, ih, Bool.and_assoc]

theorem rto_pairs {o : Option State} {ms : List Move} (h : rto o ms = true) (i : Nat) (m1 m2 : Move)
    (h1 : ms[i]? = some m1) (h2 : ms[i + 1]? = some m2) (hs : m2.src = .archiving) :
    m1.dst = .archiving ∧ m2.dst = m1.src := by
  induction ms generalizing o i with
  | nil => simp at h1
  | cons a rest ih =>
    simp only [rto, Bool.and_eq_true] at h
    cases i with
    | zero =>
      simp only [List.getElem?_cons_zero, Option.some.injEq] at h1
      subst h1
      cases rest with
      | nil => simp at h2
      | cons b rest2 =>
        simp only [List.getElem?_cons_succ, List.getElem?_cons_zero, Option.some.injEq] at h2
        subst h2
        have hb := h.2
        simp only [rto, Bool.and_eq_true, Bool.or_eq_true, decide_eq_true_eq] at hb
        rcases hb.1 with hb1 | hb1
        · exact absurd hs hb1
        · by_cases hd : a.dst = .archiving
          · simp only [hd, if_true, Option.some.injEq] at hb1
            exact ⟨hd, hb1.symm⟩
          · simp [hd] at hb1
    | succ j =>
      simp only [List.getElem?_cons_succ] at h1 h2
      exact ih h.2 j h1 h2

theorem rto_head {ms : List Move} (h : rto none ms = true) (m : Move) (h0 : ms[0]? = some m) :
    m.src ≠ .archiving := by
  cases ms with
  | nil => simp at h0
  | cons a rest =>
    simp only [List.getElem?_cons_zero, Option.some.injEq] at h0
    subst h0
    simp only [rto, Bool.and_eq_true, Bool.or_eq_true, decide_eq_true_eq] at h
    rcases h.1 with h1 | h1
    · exact h1
    · cases h1

def originOf (c : Core) : Option State := if c.state = .archiving then c.prior else none

def _root_.DawgieVerif.Fsm.Event.isComplete : Event → Bool
  | .complete _ _ => true
  | _ => false

/-- everything the history theorems need of one step from an invariant state -/
def stepOK (c : Core) (e : Event) : Prop :=
  let r := step (mk c) e
  Inv r.1 ∧ r.2.2 ≠ .failed ∧
  (c.state ≠ .starting → r.1.core.state ≠ .starting) ∧
  (e.isComplete = true → (mk c).outstanding ≠ [] → r.2.2 = .ok ∧ mu r.1 < mu (mk c)) ∧
  rto (originOf c) r.2.1.moves = true ∧ originAfter (originOf c) r.2.1.moves = originOf r.1.core ∧
  (∀ g ∈ allBool, (g = true → c.state = .archiving ∧ c.prior = some .updating) →
    ghostStep g (mk c) e = true → r.1.core.state = .archiving ∧ r.1.core.prior = some .updating)

instance (c : Core) (e : Event) : Decidable (stepOK c e) := by
  unfold stepOK
  infer_instance

theorem step_ok_core : ∀ c : Core, InvC c → ∀ e ∈ probeEvents, stepOK c e := by
  apply forall_core
  decide +kernel

theorem inv_len {s : St} (h : Inv s) : s.outstanding.length ≤ 1 := by
  rw [h.2]
  cases s.core.state <;> simp [expect]

theorem step_complete_succ {s : St} (h : Inv s) (i : Nat) (b : Bool) :
    step s (.complete (i + 1) b) = noop s .idle := by
  have hl := inv_len h
  have : s.outstanding[i + 1]? = none := by
    apply List.getElem?_eq_none
    omega
  simp [step, this]

theorem step_ok {s : St} (h : Inv s) (e : Event) (hg : e ≠ .strayRun) :
    Inv (step s e).1 ∧ (step s e).2.2 ≠ .failed ∧
    (s.core.state ≠ .starting → (step s e).1.core.state ≠ .starting) ∧
    rto (originOf s.core) (step s e).2.1.moves = true ∧
    originAfter (originOf s.core) (step s e).2.1.moves = originOf (step s e).1.core := by
  have hs := inv_eq_mk h
  by_cases hm : e ∈ probeEvents
  · have := step_ok_core s.core h.1 e hm
    rw [stepOK, ← hs] at this
    exact ⟨this.1, this.2.1, this.2.2.1, this.2.2.2.2.1, this.2.2.2.2.2.1⟩
  · cases e with
    | complete i b =>
      cases i with
      | zero => cases b <;> simp [probeEvents] at hm
      | succ i =>
        rw [step_complete_succ h]
        simp [noop, h, Out.pure, rto, originAfter]
    | strayRun => exact absurd rfl hg
    | _ => simp [probeEvents] at hm

theorem complete_ok {s : St} (h : Inv s) (hne : s.outstanding ≠ []) (i : Nat) (b : Bool)
    (hi : i < s.outstanding.length) :
    (step s (.complete i b)).2.2 = .ok ∧ mu (next s (.complete i b)) < mu s := by
  have hs := inv_eq_mk h
  have hl := inv_len h
  have hi0 : i = 0 := by omega
  subst hi0
  have hm : Event.complete 0 b ∈ probeEvents := by cases b <;> simp [probeEvents]
  have := step_ok_core s.core h.1 _ hm
  rw [stepOK, ← hs] at this
  exact this.2.2.2.1 rfl hne

theorem inv_init (a : Bool) : Inv (init a) := by cases a <;> decide

theorem guarded_cons {e : Event} {es : List Event} (h : Guarded (e :: es)) :
    e ≠ .strayRun ∧ Guarded es := by
  unfold Guarded at *
  simp only [List.mem_cons, not_or] at h
  exact ⟨fun he => h.1 he.symm, h.2⟩

theorem inv_runEvents {s : St} (h : Inv s) (evs : List Event) (hg : Guarded evs) :
    Inv (runEvents s evs) := by
  induction evs generalizing s with
  | nil => exact h
  | cons e es ih =>
    have hc := guarded_cons hg
    exact ih (step_ok h e hc.1).1 hc.2

theorem inv_of_reach {s : St} (h : Reach s) : Inv s := by
  obtain ⟨a, evs, hg, rfl⟩ := h
  exact inv_runEvents (inv_init a) evs hg

theorem runEvents_snoc (s : St) (xs : List Event) (e : Event) :
    runEvents s (xs ++ [e]) = next (runEvents s xs) e := by
  induction xs generalizing s with
  | nil => rfl
  | cons x xs ih => exact ih (next s x)

theorem reach_next {s : St} (h : Reach s) (e : Event) (he : e ≠ .strayRun) : Reach (next s e) := by
  obtain ⟨a, evs, hg, rfl⟩ := h
  refine ⟨a, evs ++ [e], ?_, (runEvents_snoc _ _ _).symm⟩
  unfold Guarded at *
  simp only [List.mem_append, List.mem_singleton, not_or]
  exact ⟨hg, fun h => he h.symm⟩

/-- along a guarded history every move out of `archiving` returns to the recorded origin -/
theorem rto_trace {s : St} (h : Inv s) (evs : List Event) (hg : Guarded evs) :
    rto (originOf s.core) (trace s evs) = true := by
  induction evs generalizing s with
  | nil => simp [trace, rto]
  | cons e es ih =>
    have hc := guarded_cons hg
    have hk := step_ok h e hc.1
    simp only [trace, rto_append, Bool.and_eq_true]
    refine ⟨hk.2.2.2.1, ?_⟩
    rw [hk.2.2.2.2]
    exact ih hk.1 hc.2

theorem rest_core : ∀ c : Core, InvC c → c.state ≠ .starting → (mk c).outstanding = [] →
    (mk c).atRest = true := by
  apply forall_core
  decide +kernel

/-- an invariant state with nothing outstanding that has left `starting` is at rest -/
theorem rest_of_inv {s : St} (h : Inv s) (hb : s.core.state ≠ .starting)
    (ho : s.outstanding = []) : s.atRest = true := by
  have hs := inv_eq_mk h
  have := rest_core s.core h.1 hb
  rw [← hs] at this
  exact this ho

theorem drain_rest (pick : Nat → Nat × Bool) (n : Nat) (s : St) (h : Inv s)
    (hb : s.core.state ≠ .starting) (hn : mu s ≤ n) : (drain pick n s).atRest = true := by
  induction n generalizing s pick with
  | zero =>
    have hz : mu s = 0 := by omega
    by_cases ho : s.outstanding = []
    · unfold drain
      exact rest_of_inv h hb ho
    · exfalso
      have hl : 0 < s.outstanding.length := List.length_pos_iff.mpr ho
      have := (complete_ok h ho 0 false hl).2
      omega
  | succ n ih =>
    by_cases ho : s.outstanding = []
    · unfold drain
      rw [if_pos ho]
      exact rest_of_inv h hb ho
    · unfold drain
      rw [if_neg ho]
      have hl : 0 < s.outstanding.length := List.length_pos_iff.mpr ho
      have hi : (pick 0).1 % s.outstanding.length < s.outstanding.length := Nat.mod_lt _ hl
      have hc := complete_ok h ho _ (pick 0).2 hi
      have hk := step_ok h (.complete ((pick 0).1 % s.outstanding.length) (pick 0).2) (by simp)
      apply ih
      · exact hk.1
      · exact hk.2.2.1 hb
      · have := hc.2
        omega

/-- ghost of C11: while a completed reload has not been followed by a `load`, the life-cycle
    sits in `archiving` (the archive excursion of the reload cycle) -/
theorem ghost_step {s : St} (h : Inv s) (e : Event) (hg : e ≠ .strayRun) (g : Bool)
    (hgs : g = true → s.core.state = .archiving ∧ s.core.prior = some .updating) :
    ghostStep g s e = true →
      (next s e).core.state = .archiving ∧ (next s e).core.prior = some .updating := by
  have hs := inv_eq_mk h
  by_cases hm : e ∈ probeEvents
  · have := step_ok_core s.core h.1 e hm
    rw [stepOK, ← hs] at this
    exact this.2.2.2.2.2.2 g (mem_allBool g) hgs
  · cases e with
    | complete i b =>
      cases i with
      | zero => cases b <;> simp [probeEvents] at hm
      | succ i =>
        have hnone : s.outstanding[i + 1]? = none := by
          apply List.getElem?_eq_none
          have := inv_len h
          omega
        intro hgh
        simp only [ghostStep, step_complete_succ h, noop, Out.pure, List.not_mem_nil, if_false,
          isReloadCompletion, hnone, Bool.or_eq_true] at hgh
        rcases hgh with hgh | hgh
        · simpa [next, step_complete_succ h, noop] using hgs hgh
        · simp at hgh
    | strayRun => exact absurd rfl hg
    | _ => simp [probeEvents] at hm

theorem ghost_run {s : St} (h : Inv s) (evs : List Event) (hg : Guarded evs) (g : Bool)
    (hgs : g = true → s.core.state = .archiving ∧ s.core.prior = some .updating) :
    (ghostRun g s evs).1 = true → (ghostRun g s evs).2.core.state = .archiving ∧ Inv (ghostRun g s evs).2 := by
  induction evs generalizing s g with
  | nil => exact fun hh => ⟨(hgs hh).1, h⟩
  | cons e es ih =>
    have hc := guarded_cons hg
    exact ih (step_ok h e hc.1).1 hc.2 _ (ghost_step h e hc.1 g hgs)

/-! ### invariant of ALL histories (stray `running_trigger`s included) -/

/-- `transitioning = active` exactly when nothing is outstanding; never more than one step -/
def InvS (s : St) : Prop :=
  (s.core.tr = .active ∧ s.outstanding = []) ∨ (s.core.tr ≠ .active ∧ s.outstanding.length ≤ 1)

theorem invS_init (a : Bool) : InvS (init a) := by
  left
  exact ⟨rfl, rfl⟩

theorem invS_fire {s : St} (h : InvS s) (t : Trigger) : InvS (fireTop t s).1 := by
  have hf := fire_ok s.core t
  rcases h with ⟨ha, ho⟩ | ⟨hn, hl⟩
  · rcases hf.2.2.1 ha with ⟨h1, h2⟩ | ⟨h1, h2⟩
    · left
      simp [fireTop, h1, h2, ho]
    · right
      simp [fireTop, h1, ho, h2]
  · have := hf.2.2.2 hn
    right
    simp only [fireTop, this.1, this.2, List.append_nil]
    exact ⟨hn, hl⟩

theorem invS_step {s : St} (h : InvS s) (e : Event) : InvS (next s e) := by
  cases e with
  | boot => exact invS_fire h _
  | submitBegin =>
    by_cases hc : s.isActive = true
    · simpa [next, step, hc] using invS_fire h .gitting
    · simpa [next, step, hc, noop] using h
  | submitEnd =>
    by_cases hc : s.core.state = .gitting
    · simpa [next, step, hc] using invS_fire h .running
    · simpa [next, step, hc, noop] using h
  | dispatchArchive =>
    by_cases hc : s.isActive = true ∧ s.core.archive = true
    · simpa [next, step, hc] using invS_fire h .archiving
    · simpa [next, step, hc, noop] using h
  | update => exact invS_fire h _
  | strayRun => exact invS_fire h _
  | flagArchive => simpa [next, step, noop, InvS] using h
  | complete i b =>
    cases hk : s.outstanding[i]? with
    | none => simpa [next, step, hk, noop] using h
    | some k =>
      have hc := (completion_ok s.core k (mem_allSteps k) b (mem_allBool b)).2.2.2
      have hlen : s.outstanding.length = 1 ∧ i = 0 := by
        have hi : i < s.outstanding.length := by
          rcases Nat.lt_or_ge i s.outstanding.length with hlt | hge
          · exact hlt
          · rw [List.getElem?_eq_none hge] at hk
            cases hk
        rcases h with ⟨_, ho⟩ | ⟨_, hl⟩
        · simp [ho] at hi
        · omega
      have hnil : s.outstanding.eraseIdx i = [] := by
        obtain ⟨hl, hi⟩ := hlen
        subst hi
        match hs : s.outstanding, hl with
        | [x], _ => rfl
      simp only [next, step, hk, hnil, List.nil_append]
      rcases hc with ⟨h1, h2⟩ | ⟨h1, h2⟩
      · left
        exact ⟨h1, h2⟩
      · right
        exact ⟨h1, Nat.le_of_eq h2⟩

theorem invS_of_reachAny {s : St} (h : ReachAny s) : InvS s := by
  obtain ⟨a, evs, rfl⟩ := h
  have : ∀ (s : St) (evs : List Event), InvS s → InvS (runEvents s evs) := by
    intro s evs
    induction evs generalizing s with
    | nil => exact id
    | cons e es ih => exact fun h => ih _ (invS_step h e)
  exact this _ _ (invS_init a)

theorem drain_nil (pick : Nat → Nat × Bool) (n : Nat) (s : St) (h : s.outstanding = []) :
    drain pick n s = s := by
  cases n with
  | zero => rfl
  | succ n => simp [drain, h]

end DawgieVerif.Fsm
