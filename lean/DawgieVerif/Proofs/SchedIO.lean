import DawgieVerif.Model.SchedIO

namespace DawgieVerif.Sched

/-- the driver's re-tabulation of the node map does not change any node of the case -/
theorem retab_node (n : Nat) (s : St) (i : Nat) (h : i < n) : (retab n s).node i = s.node i := by
  simp [retab, Array.getD, h]

theorem retab_other (n : Nat) (s : St) :
    (retab n s).que = s.que ∧ (retab n s).inflight = s.inflight ∧ (retab n s).chron = s.chron ∧
    (retab n s).msgs = s.msgs ∧ (retab n s).targets = s.targets ∧ (retab n s).paused = s.paused ∧
    (retab n s).nextRun = s.nextRun := by
  simp [retab]

end DawgieVerif.Sched
