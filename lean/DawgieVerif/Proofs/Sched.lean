import DawgieVerif.Model.Sched

namespace DawgieVerif.Sched

/-! ### small facts about the set-like lists -/

theorem mem_addU {xs : List Target} {t u : Target} : u ∈ addU xs t ↔ u ∈ xs ∨ u = t := by
  unfold addU; split <;> simp_all

theorem mem_updU {xs ys : List Target} {u : Target} : u ∈ updU xs ys ↔ u ∈ xs ∨ u ∈ ys := by
  unfold updU
  induction ys generalizing xs with
  | nil => simp
  | cons y ys ih => simp [List.foldl_cons, ih, mem_addU]; grind

theorem mem_addQ {q : List Name} {n m : Name} : m ∈ addQ q n ↔ m ∈ q ∨ m = n := by
  unfold addQ; split <;> simp_all

theorem mem_foldl_addQ {q names : List Name} {m : Name} :
    m ∈ names.foldl addQ q ↔ m ∈ q ∨ m ∈ names := by
  induction names generalizing q with
  | nil => simp
  | cons y ys ih => simp [List.foldl_cons, ih, mem_addQ]; grind

theorem mem_insLevel {g : Graph} {n m : Name} {l : List Name} :
    m ∈ insLevel g n l ↔ m = n ∨ m ∈ l := by
  induction l with
  | nil => simp [insLevel]
  | cons y ys ih => unfold insLevel; split <;> simp [ih] <;> grind

theorem mem_foldl_insLevel {g : Graph} {q acc : List Name} {m : Name} :
    m ∈ q.foldl (fun acc n => insLevel g n acc) acc ↔ m ∈ acc ∨ m ∈ q := by
  induction q generalizing acc with
  | nil => simp
  | cons y ys ih => simp only [List.foldl_cons, ih, mem_insLevel, List.mem_cons]; grind

theorem mem_byLevel {g : Graph} {q : List Name} {m : Name} : m ∈ byLevel g q ↔ m ∈ q := by
  unfold byLevel; rw [mem_foldl_insLevel]; simp

@[simp] theorem setNode_same (f : Name → Node) (n : Name) (v : Node) : setNode f n v n = v := by
  simp [setNode]

theorem mem_insRank {g : Graph} {n m : Name} {l : List Name} :
    m ∈ insRank g n l ↔ m = n ∨ m ∈ l := by
  induction l with
  | nil => simp [insRank]
  | cons y ys ih =>
    unfold insRank
    split
    · rename_i h; subst h; simp
    · split
      · simp
      · simp only [List.mem_cons, ih]; grind

theorem mem_foldl_insRank {g : Graph} {q acc : List Name} {m : Name} :
    m ∈ q.foldl (fun acc n => insRank g n acc) acc ↔ m ∈ acc ∨ m ∈ q := by
  induction q generalizing acc with
  | nil => simp
  | cons y ys ih => simp only [List.foldl_cons, ih, mem_insRank, List.mem_cons]; grind

theorem mem_sortNames {g : Graph} {l : List Name} {m : Name} : m ∈ sortNames g l ↔ m ∈ l := by
  unfold sortNames; rw [mem_foldl_insRank]; simp

theorem mem_updNames {g : Graph} {x m : Name} {news : List Val} :
    m ∈ updNames g x news ↔ m ∈ fedBack g news ∨ m ∈ dependents g x news := by
  unfold updNames; rw [mem_sortNames, List.mem_append]

theorem setNode_other (f : Name → Node) (n m : Name) (v : Node) (h : m ≠ n) :
    setNode f n v m = f m := by
  simp [setNode, h]

theorem mem_prune {s : St} {n : Name} : n ∈ (prune s).que ↔ n ∈ s.que ∧ (s.node n).live = true := by
  simp [prune]

@[simp] theorem prune_node (s : St) : (prune s).node = s.node := rfl
@[simp] theorem prune_inflight (s : St) : (prune s).inflight = s.inflight := rfl
@[simp] theorem prune_targets (s : St) : (prune s).targets = s.targets := rfl
@[simp] theorem prune_paused (s : St) : (prune s).paused = s.paused := rfl
@[simp] theorem prune_chron (s : St) : (prune s).chron = s.chron := rfl

theorem live_of_work {nd : Node} (h : nd.todo ≠ [] ∨ nd.doing ≠ []) : nd.live = true := by
  unfold Node.live
  rcases h with h | h
  · cases hh : nd.todo <;> simp_all
  · cases hh : nd.doing <;> simp_all

/-! ### the invariants -/

/-- every node that has pending or executing work is in the queue -/
def QueCovers (s : St) : Prop :=
  ∀ n, ((s.node n).todo ≠ [] ∨ (s.node n).doing ≠ []) → n ∈ s.que

/-- every queue entry has work or is running (`_prune`) -/
def QueLive (s : St) : Prop := ∀ n, n ∈ s.que → (s.node n).live = true

/-- whatever a node lists as executing was released and has not been answered -/
def DoingInflight (s : St) : Prop := ∀ n t, t ∈ (s.node n).doing → (n, t) ∈ s.inflight

/-- a running node has something in flight -/
def RunningInflight (s : St) : Prop :=
  ∀ n, (s.node n).running = true → ∃ t, (n, t) ∈ s.inflight

theorem prune_queCovers {s : St} (h : QueCovers s) : QueCovers (prune s) := by
  intro n hn
  rw [mem_prune]
  exact ⟨h n hn, live_of_work hn⟩

theorem prune_queLive (s : St) : QueLive (prune s) := by
  intro n hn
  rw [mem_prune] at hn
  exact hn.2


/-! ### organize -/

def orgFold (g : Graph) (all targets : List Target) (rid : Option Nat) (names : List Name)
    (f : Name → Node) : Name → Node :=
  names.foldl (fun f n => setNode f n (organizeNode g all targets rid n (f n))) f

theorem organizeNode_running (g : Graph) (all targets : List Target) (rid : Option Nat) (n : Name)
    (nd : Node) : (organizeNode g all targets rid n nd).running = nd.running := by
  unfold organizeNode Node.running
  cases h : nd.status <;> simp [h] <;> decide

theorem orgFold_spec (g : Graph) (all targets : List Target) (rid : Option Nat) (names : List Name)
    (f : Name → Node) (m : Name) :
    (orgFold g all targets rid names f m).doing = (f m).doing ∧
    (orgFold g all targets rid names f m).do_ = (f m).do_ ∧
    (orgFold g all targets rid names f m).running = (f m).running ∧
    (∀ u, u ∈ (orgFold g all targets rid names f m).todo ↔
        u ∈ (f m).todo ∨ (m ∈ names ∧ u ∈ wanted g all targets m)) ∧
    (m ∉ names → orgFold g all targets rid names f m = f m) := by
  induction names generalizing f with
  | nil => simp [orgFold]
  | cons y ys ih =>
    have h := ih (setNode f y (organizeNode g all targets rid y (f y)))
    unfold orgFold at h ⊢
    simp only [List.foldl_cons]
    obtain ⟨h1, h2, h3, h4, h5⟩ := h
    by_cases hm : m = y
    · subst hm
      simp only [setNode_same] at h1 h2 h3 h4 h5
      refine ⟨by rw [h1]; rfl, by rw [h2]; rfl, by rw [h3, organizeNode_running], ?_, by simp⟩
      intro u; rw [h4]
      simp only [organizeNode, mem_updU]
      grind
    · rw [setNode_other _ _ _ _ hm] at h1 h2 h3 h4 h5
      refine ⟨h1, h2, h3, ?_, ?_⟩
      · intro u; rw [h4]; simp [hm]
      · intro hn; simp at hn; exact h5 hn.2

theorem organize_node (g : Graph) (s : St) (names : List Name) (rid : Option Nat)
    (targets : List Target) :
    (organize g s names rid targets).node = orgFold g s.targets targets rid names s.node := rfl

theorem mem_organize_que (g : Graph) (s : St) (names : List Name) (rid : Option Nat)
    (targets : List Target) (n : Name) :
    n ∈ (organize g s names rid targets).que ↔
      (n ∈ s.que ∨ n ∈ names) ∧ (orgFold g s.targets targets rid names s.node n).live = true := by
  unfold organize
  rw [mem_prune]
  simp only [mem_byLevel, mem_foldl_addQ]
  rfl

theorem organize_queCovers (g : Graph) (s : St) (names : List Name) (rid : Option Nat)
    (targets : List Target) (h : QueCovers s) : QueCovers (organize g s names rid targets) := by
  intro n hn
  rw [mem_organize_que]
  rw [organize_node] at hn
  refine ⟨?_, live_of_work hn⟩
  by_cases hm : n ∈ names
  · exact Or.inr hm
  · left
    have := (orgFold_spec g s.targets targets rid names s.node n).2.2.2.2 hm
    rw [this] at hn
    exact h n hn


/-! ### next_job_batch -/

/-- target `t` is pending or executing at node `a` -/
def busy (s : St) (a : Name) (t : Target) : Prop := t ∈ (s.node a).todo ∨ t ∈ (s.node a).doing

/-- two states with the same queue and the same pending-or-executing sets -/
def Same (s s' : St) : Prop := s'.que = s.que ∧ ∀ a t, busy s' a t ↔ busy s a t

theorem Same.refl (s : St) : Same s s := ⟨rfl, fun _ _ => Iff.rfl⟩

theorem Same.trans {s s' s'' : St} (h : Same s s') (h' : Same s' s'') : Same s s'' :=
  ⟨h'.1.trans h.1, fun a t => (h'.2 a t).trans (h.2 a t)⟩

theorem heldBy_iff (g : Graph) (s : St) (x : Name) (t : Target) :
    heldBy g s x t = true ↔ ∃ a ∈ g.ancestry x, a ∈ s.que ∧ busy s a t := by
  simp [heldBy, busy]

theorem blockedAll_iff (g : Graph) (s : St) (x : Name) :
    blockedAll g s x = true ↔
      ∃ a ∈ g.ancestry x, a ∈ s.que ∧ (ALL ∈ (s.node x).todo ∨ busy s a ALL) := by
  simp [blockedAll, busy, or_assoc]

theorem mem_available (g : Graph) (s : St) (x : Name) (t : Target) :
    t ∈ available g s x ↔
      blockedAll g s x = false ∧ t ∈ (s.node x).todo ∧ t ∉ (s.node x).doing ∧
        heldBy g s x t = false := by
  unfold available
  cases hb : blockedAll g s x <;> simp [hb]

theorem available_sub_todo (g : Graph) (s : St) (x : Name) (t : Target)
    (h : t ∈ available g s x) : t ∈ (s.node x).todo := ((mem_available g s x t).1 h).2.1

theorem releaseJob_que (g : Graph) (s : St) (x : Name) : (releaseJob g s x).1.que = s.que := rfl

theorem releaseJob_same (g : Graph) (s : St) (x : Name) : Same s (releaseJob g s x).1 := by
  refine ⟨rfl, ?_⟩
  intro a t
  unfold busy releaseJob
  by_cases ha : a = x
  · subst ha
    simp only [setNode_same, List.mem_filter, mem_updU, Bool.not_eq_eq_eq_not, Bool.not_true,
      decide_eq_false_iff_not]
    have := available_sub_todo g s a t
    grind
  · simp only [setNode_other _ _ _ _ ha]

theorem releaseAll_same (g : Graph) (s : St) (q : List Name) : Same s (releaseAll g s q).1 := by
  induction q generalizing s with
  | nil => exact Same.refl s
  | cons x xs ih =>
    simp only [releaseAll]
    exact (releaseJob_same g s x).trans (ih _)

theorem releaseJob_released (g : Graph) (s : St) (x : Name) (p : Name × Target) :
    p ∈ (releaseJob g s x).2 ↔ p.1 = x ∧ p.2 ∈ available g s x := by
  obtain ⟨y, t⟩ := p
  simp [releaseJob]
  grind

theorem releaseAll_released (g : Graph) (s : St) (q : List Name) (y : Name) (t : Target)
    (h : (y, t) ∈ (releaseAll g s q).2) :
    ∃ s', Same s s' ∧ t ∈ available g s' y ∧ y ∈ q := by
  induction q generalizing s with
  | nil => simp [releaseAll] at h
  | cons x xs ih =>
    simp only [releaseAll, List.mem_append] at h
    rcases h with h | h
    · rw [releaseJob_released] at h
      obtain ⟨h1, h2⟩ := h
      simp only at h1 h2
      subst h1
      exact ⟨s, Same.refl s, h2, by simp⟩
    · obtain ⟨s', hs, ht, hy⟩ := ih _ h
      exact ⟨s', (releaseJob_same g s x).trans hs, ht, by simp [hy]⟩

/-- The heart of C01: whatever `next_job_batch` takes out of `todo`, every ancestor is idle for it. -/
theorem available_idle (g : Graph) (s s' : St) (hq : QueCovers s) (hs : Same s s')
    (x : Name) (t : Target) (ht : t ∈ available g s' x) :
    ∀ a ∈ g.ancestry x,
      ¬ busy s a t ∧ ¬ busy s a ALL ∧
        (t = ALL → (s.node a).todo = [] ∧ (s.node a).doing = []) := by
  intro a ha
  obtain ⟨hb, htodo, _, hh⟩ := (mem_available g s' x t).1 ht
  have hb' : ¬ (blockedAll g s' x = true) := by simp [hb]
  have hh' : ¬ (heldBy g s' x t = true) := by simp [hh]
  rw [blockedAll_iff] at hb'
  rw [heldBy_iff] at hh'
  by_cases haq : a ∈ s.que
  · have haq' : a ∈ s'.que := by rw [hs.1]; exact haq
    refine ⟨?_, ?_, ?_⟩
    · intro hbz; exact hh' ⟨a, ha, haq', (hs.2 a t).2 hbz⟩
    · intro hbz; exact hb' ⟨a, ha, haq', Or.inr ((hs.2 a ALL).2 hbz)⟩
    · intro hall; subst hall
      exact absurd ⟨a, ha, haq', Or.inl htodo⟩ hb'
  · have hidle : (s.node a).todo = [] ∧ (s.node a).doing = [] := by
      by_cases h1 : (s.node a).todo = []
      · by_cases h2 : (s.node a).doing = []
        · exact ⟨h1, h2⟩
        · exact absurd (hq a (Or.inr h2)) haq
      · exact absurd (hq a (Or.inl h1)) haq
    refine ⟨?_, ?_, fun _ => hidle⟩ <;> simp [busy, hidle.1, hidle.2]


theorem work_iff_busy (s : St) (n : Name) :
    ((s.node n).todo ≠ [] ∨ (s.node n).doing ≠ []) ↔ ∃ t, busy s n t := by
  unfold busy
  constructor
  · rintro (h | h)
    · obtain ⟨t, ht⟩ := List.exists_mem_of_ne_nil _ h; exact ⟨t, Or.inl ht⟩
    · obtain ⟨t, ht⟩ := List.exists_mem_of_ne_nil _ h; exact ⟨t, Or.inr ht⟩
  · rintro ⟨t, ht | ht⟩
    · exact Or.inl (List.ne_nil_of_mem ht)
    · exact Or.inr (List.ne_nil_of_mem ht)

theorem queCovers_of_same {s s' : St} (hs : Same s s') (h : QueCovers s) : QueCovers s' := by
  intro n hn
  rw [work_iff_busy] at hn
  obtain ⟨t, ht⟩ := hn
  rw [hs.1]
  exact h n ((work_iff_busy s n).2 ⟨t, (hs.2 n t).1 ht⟩)

theorem putJob_same (g : Graph) (s : St) (x : Name) : Same s (putJob g s x) := by
  refine ⟨rfl, ?_⟩
  intro a t
  unfold busy putJob
  by_cases ha : a = x
  · subst ha; simp
  · simp [setNode_other _ _ _ _ ha]

theorem foldl_putJob_same (g : Graph) (s : St) (js : List Name) :
    Same s (js.foldl (putJob g) s) := by
  induction js generalizing s with
  | nil => exact Same.refl s
  | cons x xs ih => exact (putJob_same g s x).trans (ih _)

theorem dispatch_same (g : Graph) (s : St) : Same s (dispatch g s).1 := by
  unfold dispatch
  split
  · exact Same.refl s
  · exact (releaseAll_same g s s.que).trans (foldl_putJob_same g _ _)

theorem dispatch_queCovers (g : Graph) (s : St) (h : QueCovers s) : QueCovers (dispatch g s).1 :=
  queCovers_of_same (dispatch_same g s) h

/-! ### complete, purge, update, reply, defer -/

theorem mem_completeNode_doing {t u : Target} {nd : Node} (h : u ∈ (completeNode t nd).doing) :
    u ∈ nd.doing ∧ u ≠ t := by
  unfold completeNode at h
  simp only at h
  split at h
  · simp at h
  · simpa using h

@[simp] theorem completeNode_todo (t : Target) (nd : Node) : (completeNode t nd).todo = nd.todo := rfl
@[simp] theorem completeNode_do (t : Target) (nd : Node) : (completeNode t nd).do_ = nd.do_ := rfl

theorem completeNode_running {t : Target} {nd : Node} (h : (completeNode t nd).running = true) :
    nd.running = true ∧ (completeNode t nd).doing ≠ [] := by
  unfold Node.running completeNode at h ⊢
  simp only at h ⊢
  generalize (if t = ALL then [] else nd.doing.filter (fun u => u != t)) = d at h ⊢
  cases d with
  | nil => simp at h
  | cons a as => simpa using h

theorem completeNode_status_of_doing {t : Target} {nd : Node} (h : (completeNode t nd).doing ≠ []) :
    (completeNode t nd).status = nd.status := by
  unfold completeNode at h ⊢
  simp only at h ⊢
  generalize (if t = ALL then [] else nd.doing.filter (fun u => u != t)) = d at h ⊢
  cases d with
  | nil => simp at h
  | cons a as => simp

theorem complete_queCovers (s : St) (x : Name) (t : Target) (o : Outcome) (rid : Nat)
    (h : QueCovers s) : QueCovers (complete s x t o rid) := by
  unfold complete
  apply prune_queCovers
  intro n hn
  dsimp only at hn ⊢
  by_cases hx : n = x
  · subst hx
    simp only [setNode_same] at hn
    apply h
    rcases hn with hn | hn
    · exact Or.inl hn
    · right
      obtain ⟨u, hu⟩ := List.exists_mem_of_ne_nil _ hn
      exact List.ne_nil_of_mem (mem_completeNode_doing hu).1
  · rw [setNode_other _ _ _ _ hx] at hn
    exact h n hn

theorem purgeNode_work {t : Target} {nd : Node}
    (h : (purgeNode t nd).todo ≠ [] ∨ (purgeNode t nd).doing ≠ []) :
    nd.todo ≠ [] ∨ nd.doing ≠ [] := by
  unfold purgeNode at h
  rcases h with h | h
  · left; intro hd; apply h; simp [hd]
  · right; intro hd; apply h; simp [hd]

theorem purge_queCovers (g : Graph) (s : St) (x : Name) (t : Target) (h : QueCovers s) :
    QueCovers (purge g s x t) := by
  unfold purge
  apply prune_queCovers
  intro n hn
  simp only at hn ⊢
  split at hn
  · exact h n (purgeNode_work hn)
  · exact h n hn

theorem update_queCovers (g : Graph) (s : St) (x : Name) (t : Target) (rid : Nat)
    (news : List Val) (ne : Bool) (h : QueCovers s) : QueCovers (update g s x t rid news ne) := by
  unfold update
  split
  · exact h
  · split <;> exact organize_queCovers g s _ _ _ h

theorem erase_inflight_queCovers (s : St) (p : Name × Target) (h : QueCovers s) :
    QueCovers { s with inflight := s.inflight.erase p } := h

theorem reply_queCovers (g : Graph) (s : St) (x : Name) (t : Target) (o : Outcome) (rid : Nat)
    (news : List Val) (ne : Bool) (h : QueCovers s) :
    QueCovers (reply g s x t o rid news ne).1 := by
  unfold reply
  simp only
  split
  · have hc := complete_queCovers { s with inflight := s.inflight.erase (x, t) } x t o rid h
    cases o
    · exact update_queCovers g _ x t rid news ne hc
    · exact purge_queCovers g _ x t hc
    · exact purge_queCovers g _ x t hc
  · exact h

theorem deferNode_queCovers (g : Graph) (s : St) (n : Name) (due : Nat) (h : QueCovers s) :
    QueCovers (deferNode g s n due) := by
  unfold deferNode
  by_cases h1 : (s.node n).status = .running ∨ (s.node n).status = .waiting
  · simp only [h1, if_true]; exact h
  · simp only [h1, if_false]
    by_cases h2 : due = 0
    · simp only [h2, if_true]
      intro m hm
      simp only at hm ⊢
      by_cases hx : m = n
      · subst hx; simp only [setNode_same] at hm; exact h m hm
      · rw [setNode_other _ _ _ _ hx] at hm; exact h m hm
    · simp only [h2, if_false]
      intro m hm
      simp only at hm ⊢
      rw [mem_byLevel]
      by_cases hx : m = n
      · subst hx
        simp only [List.mem_append, List.mem_replicate]
        right; exact ⟨h2, trivial⟩
      · rw [setNode_other _ _ _ _ hx] at hm
        simp only [List.mem_append]
        exact Or.inl (h m hm)

theorem foldl_deferNode_queCovers (g : Graph) (s : St) (per : List (Name × Nat)) (h : QueCovers s) :
    QueCovers (per.foldl (fun s p => deferNode g s p.1 p.2) s) := by
  induction per generalizing s with
  | nil => exact h
  | cons p ps ih => simp only [List.foldl_cons]; exact ih _ (deferNode_queCovers g s p.1 p.2 h)

theorem defer_queCovers (g : Graph) (s : St) (per : List (Name × Nat)) (h : QueCovers s) :
    QueCovers (defer g s per) := by
  unfold defer
  split
  · exact h
  · exact prune_queCovers (foldl_deferNode_queCovers g s per h)

theorem step_queCovers (g : Graph) (s : St) (op : Op) (h : QueCovers s) : QueCovers (step g s op) := by
  cases op with
  | organize names rid targets => exact organize_queCovers g s names rid targets h
  | dispatch => exact dispatch_queCovers g s h
  | reply x t o rid news ne => exact reply_queCovers g s x t o rid news ne h
  | defer per => exact defer_queCovers g s per h
  | pause b => exact h
  | addTarget t => exact h

theorem init_queCovers (ts : List Target) : QueCovers (St.init ts) := by
  intro n hn; simp [St.init, Node.empty] at hn

theorem run_queCovers (g : Graph) (s : St) (ops : List Op) (h : QueCovers s) :
    QueCovers (run g s ops) := by
  unfold run
  induction ops generalizing s with
  | nil => exact h
  | cons op ops ih => simp only [List.foldl_cons]; exact ih _ (step_queCovers g s op h)

end DawgieVerif.Sched
