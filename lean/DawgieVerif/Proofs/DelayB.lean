/-
C20 helper lemmas, part B: the decision of `defer` — frame facts of one `_delay` evaluation, the
period loop of one node, the loop over `per`, and the resulting queuing theorem.
-/
import DawgieVerif.Proofs.DelayA
namespace DawgieVerif.Delay
open DawgieVerif.Cal
open DawgieVerif.Generated.Timer

/-! ### small facts about the containers -/

theorem mem_addAll_right {x : String} (xs todo : List String) (h : x ∈ xs) : x ∈ addAll todo xs := by
  unfold addAll
  induction xs generalizing todo with
  | nil => cases h
  | cons y ys ih =>
    simp only [List.foldl_cons]
    rcases List.mem_cons.mp h with rfl | h
    · have keep : ∀ (l : List String) (acc : List String), x ∈ acc →
          x ∈ l.foldl (fun acc x => if acc.contains x then acc else acc ++ [x]) acc := by
        intro l
        induction l with
        | nil => intro acc h; exact h
        | cons z zs ihz =>
          intro acc h
          simp only [List.foldl_cons]
          apply ihz
          split
          · exact h
          · exact List.mem_append_left _ h
      apply keep
      split
      · rename_i hc; simpa using hc
      · simp
    · exact ih _ h

theorem mem_addAll_left {x : String} (xs todo : List String) (h : x ∈ todo) : x ∈ addAll todo xs := by
  unfold addAll
  induction xs generalizing todo with
  | nil => exact h
  | cons y ys ih =>
    simp only [List.foldl_cons]
    apply ih
    split
    · exact h
    · exact List.mem_append_left _ h

theorem mem_insertByLevel (s : Sched) (x y : String) (l : List String) :
    y ∈ insertByLevel s x l ↔ y = x ∨ y ∈ l := by
  induction l with
  | nil => simp [insertByLevel]
  | cons z zs ih =>
    simp only [insertByLevel]
    split
    · simp
    · simp only [List.mem_cons, ih]
      constructor
      · rintro (h | h | h)
        · right; left; exact h
        · left; exact h
        · right; right; exact h
      · rintro (h | h | h)
        · right; left; exact h
        · left; exact h
        · right; right; exact h

theorem mem_sortByLevel (s : Sched) (y : String) (q : List String) :
    y ∈ sortByLevel s q ↔ y ∈ q := by
  unfold sortByLevel
  have gen : ∀ (q acc : List String),
      y ∈ q.foldl (fun acc x => insertByLevel s x acc) acc ↔ y ∈ acc ∨ y ∈ q := by
    intro q
    induction q with
    | nil => intro acc; simp
    | cons z zs ih =>
      intro acc
      simp only [List.foldl_cons, ih, mem_insertByLevel, List.mem_cons]
      constructor
      · rintro ((h | h) | h)
        · right; left; exact h
        · left; exact h
        · right; right; exact h
      · rintro (h | h | h)
        · left; right; exact h
        · left; left; exact h
        · right; exact h
  simpa using gen q []

theorem find_map_same (l : List Node) {g : String} {n0 n : Node}
    (h0 : l.find? (fun x => x.tag == g) = some n0) (hn : n.tag = g) :
    (l.map (fun x => if x.tag == n.tag then n else x)).find? (fun x => x.tag == g) = some n := by
  induction l with
  | nil => simp at h0
  | cons x xs ih =>
    simp only [List.map_cons, List.find?_cons] at h0 ⊢
    by_cases hx : x.tag = g
    · have h1 : (x.tag == n.tag) = true := by rw [hn]; simpa using hx
      have h2 : (n.tag == g) = true := by simpa using hn
      simp only [h1, if_true, h2]
    · have hx' : (x.tag == g) = false := by simpa using hx
      have h1 : (x.tag == n.tag) = false := by rw [hn]; exact hx'
      rw [hx'] at h0
      simp only [h1, Bool.false_eq_true, if_false, hx']
      exact ih h0

theorem find_map_other (l : List Node) {g : String} {n : Node} (hn : n.tag ≠ g) :
    (l.map (fun x => if x.tag == n.tag then n else x)).find? (fun x => x.tag == g)
      = l.find? (fun x => x.tag == g) := by
  induction l with
  | nil => rfl
  | cons x xs ih =>
    simp only [List.map_cons, List.find?_cons]
    by_cases hx : x.tag = n.tag
    · have h1 : (x.tag == n.tag) = true := by simpa using hx
      have h2 : (n.tag == g) = false := by simpa using hn
      have h3 : (x.tag == g) = false := by rw [hx]; exact h2
      simp only [h1, if_true, h2, h3]
      exact ih
    · have h1 : (x.tag == n.tag) = false := by simpa using hx
      simp only [h1, Bool.false_eq_true, if_false]
      cases hg : (x.tag == g) with
      | true => rfl
      | false => exact ih

theorem getNode_setNode_same {s : Sched} {g : String} {n0 n : Node} (h0 : getNode s g = some n0)
    (hn : n.tag = g) : getNode (setNode s n) g = some n :=
  find_map_same s.nodes h0 hn

theorem getNode_setNode_other {s : Sched} {g : String} {n : Node} (hn : n.tag ≠ g) :
    getNode (setNode s n) g = getNode s g :=
  find_map_other s.nodes hn

theorem getNode_tag {s : Sched} {g : String} {n : Node} (h : getNode s g = some n) : n.tag = g := by
  unfold getNode at h
  have := List.find?_some h
  simpa using this

/-! ### one event of one node inside `defer` -/

/-- `g` is queued for everything it must run on -/
def Queued (s : Sched) (g : String) (asp : Bool) (T : List String) : Prop :=
  ∃ n, getNode s g = some n ∧ n.status = Status.waiting ∧ g ∈ s.que ∧
    (if asp then allMarker ∈ n.todo else ∀ x ∈ T, x ∈ n.todo)

theorem delay_booted (now : Int) (b : List Event) (p : Event) :
    (delay now b p).2 = b ∨ ((delay now b p).2 = b ++ [p] ∧ p.moment.boot ≠ none ∧ p ∉ b) := by
  unfold delay
  cases hb : p.moment.boot with
  | none => simp only; split <;> (left; rfl)
  | some v =>
    simp only
    split
    · left; rfl
    · rename_i h; right; exact ⟨rfl, by simp, h⟩

/-- what one `_delay` evaluation inside `defer` does to the state: only the node itself, the
    queue (grows), `booted` (grows by this event at most) and the list of delays change; when the
    event is due the node ends up queued -/
theorem deferEvent_step {now : Int} {g : String} {st st' : DeferSt} {p : Event} {n : Node}
    (h : deferEvent now g st p = .ok st') (hg : getNode st.s g = some n) :
    st'.s.targets = st.s.targets ∧
    (∀ g', g' ≠ g → getNode st'.s g' = getNode st.s g') ∧
    (∀ x, x ∈ st.s.que → x ∈ st'.s.que) ∧
    (∀ e, e ∈ st.s.booted → e ∈ st'.s.booted) ∧
    (∀ e, e ∈ st'.s.booted → e ∈ st.s.booted ∨ e = p) ∧
    (∃ n', getNode st'.s g = some n' ∧ n'.isAsp = n.isAsp ∧ n'.period = n.period ∧
      (n.status = Status.waiting → n'.status = Status.waiting) ∧ (∀ x, x ∈ n.todo → x ∈ n'.todo)) ∧
    (∀ ts, (delay now st.s.booted p).1 = .ok ts → due ts = true →
      Queued st'.s g n.isAsp st.s.targets) := by
  have htag := getNode_tag hg
  unfold deferEvent at h
  have hb := delay_booted now st.s.booted p
  have hbsub : ∀ e, e ∈ st.s.booted → e ∈ (delay now st.s.booted p).2 := by
    intro e he; rcases hb with hb | ⟨hb, _⟩ <;> rw [hb]
    · exact he
    · exact List.mem_append_left _ he
  have hbnew : ∀ e, e ∈ (delay now st.s.booted p).2 → e ∈ st.s.booted ∨ e = p := by
    intro e he; rcases hb with hb | ⟨hb, _⟩ <;> rw [hb] at he
    · left; exact he
    · rcases List.mem_append.mp he with he | he
      · left; exact he
      · right; simpa using he
  simp only at h
  cases hd : (delay now st.s.booted p).1 with
  | error e =>
    rw [hd] at h
    cases e <;> simp only at h
    · injection h with h; subst h
      exact ⟨rfl, fun _ _ => rfl, fun _ hx => hx, hbsub, hbnew,
        ⟨n, hg, rfl, rfl, fun h => h, fun _ hx => hx⟩, fun ts hts => by cases hts⟩
    all_goals cases h
  | ok ts =>
    rw [hd] at h
    simp only at h
    by_cases hdue : due ts = true
    · rw [if_pos hdue] at h
      have hg' : getNode { st.s with booted := (delay now st.s.booted p).2 } g = some n := hg
      rw [hg'] at h
      simp only at h
      injection h with h; subst h
      refine ⟨rfl, ?_, ?_, hbsub, hbnew, ?_, ?_⟩
      · intro g' hne
        exact getNode_setNode_other (by simpa [htag] using Ne.symm hne)
      · intro x hx
        show x ∈ sortByLevel _ (st.s.que ++ [g])
        rw [mem_sortByLevel]; exact List.mem_append_left _ hx
      · refine ⟨_, getNode_setNode_same (n0 := n) hg htag, rfl, rfl, fun _ => rfl, ?_⟩
        intro x hx
        show x ∈ (if n.isAsp then addAll n.todo [allMarker] else addAll n.todo st.s.targets)
        split <;> exact mem_addAll_left _ _ hx
      · intro ts' _ _
        refine ⟨_, getNode_setNode_same (n0 := n) hg htag, rfl, ?_, ?_⟩
        · show g ∈ sortByLevel _ (st.s.que ++ [g])
          rw [mem_sortByLevel]; simp
        · show if n.isAsp then allMarker ∈ (if n.isAsp then addAll n.todo [allMarker] else addAll n.todo st.s.targets)
            else ∀ x ∈ st.s.targets, x ∈ (if n.isAsp then addAll n.todo [allMarker] else addAll n.todo st.s.targets)
          cases n.isAsp with
          | true => simp only [if_true]; exact mem_addAll_right _ _ (by simp)
          | false =>
            simp only [Bool.false_eq_true, if_false]
            intro x hx; exact mem_addAll_right _ _ hx
    · rw [if_neg hdue] at h
      injection h with h; subst h
      exact ⟨rfl, fun _ _ => rfl, fun _ hx => hx, hbsub, hbnew,
        ⟨n, hg, rfl, rfl, fun h => h, fun _ hx => hx⟩,
        fun ts' hts hd' => by injection hts with hts; subst hts; exact absurd hd' hdue⟩

/-- the event is found due when `_delay` is evaluated with `booted = b`: a timed event whose
    designated moment is at most the firing window ahead, or a boot event that has not fired -/
def Fires (now : Int) (b : List Event) (p : Event) : Prop :=
  (p.moment.boot = none ∧ ∃ t, designated now p.moment = .ok t ∧ due (t - now) = true) ∨
  (p.moment.boot ≠ none ∧ p ∉ b)

theorem Fires.delay {now : Int} {b : List Event} {p : Event} (h : Fires now b p) :
    ∃ ts, (delay now b p).1 = .ok ts ∧ due ts = true := by
  unfold Delay.delay
  rcases h with ⟨hb, t, ht, hd⟩ | ⟨hb, hn⟩
  · rw [hb]; simp only [ht]; exact ⟨_, rfl, hd⟩
  · cases hbo : p.moment.boot with
    | none => exact absurd hbo hb
    | some v => simp only [if_neg hn]; exact ⟨0, rfl, by decide⟩

theorem Fires.mono {now : Int} {b b' : List Event} {p q : Event} (h : Fires now b p)
    (hb : ∀ e, e ∈ b' → e ∈ b ∨ e = q) (hne : p ≠ q) : Fires now b' p := by
  rcases h with h | ⟨h1, h2⟩
  · left; exact h
  · right; refine ⟨h1, ?_⟩
    intro hm
    rcases hb p hm with h | h
    · exact h2 h
    · exact hne h

/-- the `for p in t.get('period')` loop for node `g` -/
theorem period_fold {now : Int} {g : String} (ps : List Event) :
    ∀ {st st' : DeferSt} {n : Node}, ps.foldlM (deferEvent now g) st = .ok st' →
      getNode st.s g = some n →
      st'.s.targets = st.s.targets ∧
      (∀ g', g' ≠ g → getNode st'.s g' = getNode st.s g') ∧
      (∀ x, x ∈ st.s.que → x ∈ st'.s.que) ∧
      (∀ e, e ∈ st.s.booted → e ∈ st'.s.booted) ∧
      (∀ e, e ∈ st'.s.booted → e ∈ st.s.booted ∨ e ∈ ps) ∧
      (∃ n', getNode st'.s g = some n' ∧ n'.isAsp = n.isAsp ∧ n'.period = n.period ∧
        (n.status = Status.waiting → n'.status = Status.waiting) ∧ (∀ x, x ∈ n.todo → x ∈ n'.todo)) ∧
      ((∃ p, p ∈ ps ∧ Fires now st.s.booted p) → Queued st'.s g n.isAsp st.s.targets) := by
  induction ps with
  | nil =>
    intro st st' n h hg
    simp only [List.foldlM_nil, pure, Except.pure] at h
    injection h with h; subst h
    exact ⟨rfl, fun _ _ => rfl, fun _ h => h, fun _ h => h, fun _ h => Or.inl h,
      ⟨n, hg, rfl, rfl, fun h => h, fun _ h => h⟩, fun ⟨p, hp, _⟩ => by cases hp⟩
  | cons q rest ih =>
    intro st st' n h hg
    simp only [List.foldlM_cons, bind, Except.bind] at h
    cases h1 : deferEvent now g st q with
    | error e => rw [h1] at h; cases h
    | ok st1 =>
      rw [h1] at h
      simp only at h
      obtain ⟨a1, a2, a3, a4, a5, ⟨n1, b1, b2, b3, b4, b5⟩, a7⟩ := deferEvent_step h1 hg
      obtain ⟨c1, c2, c3, c4, c5, ⟨n2, d1, d2, d3, d4, d5⟩, c7⟩ := ih h b1
      refine ⟨c1.trans a1, fun g' hne => (c2 g' hne).trans (a2 g' hne), fun x hx => c3 x (a3 x hx),
        fun e he => c4 e (a4 e he), ?_, ⟨n2, d1, d2.trans b2, d3.trans b3, fun hw => d4 (b4 hw),
          fun x hx => d5 x (b5 x hx)⟩, ?_⟩
      · intro e he
        rcases c5 e he with he | he
        · rcases a5 e he with he | he
          · left; exact he
          · right; rw [he]; exact List.mem_cons_self
        · right; exact List.mem_cons_of_mem _ he
      · rintro ⟨p, hp, hf⟩
        by_cases hpq : p = q
        · subst hpq
          obtain ⟨ts, hts, hdue⟩ := hf.delay
          obtain ⟨m, m1, m2, m3, m4⟩ := a7 ts hts hdue
          -- queued after this event; the remaining events keep it so
          rw [b1] at m1; injection m1 with m1; subst m1
          refine ⟨n2, d1, d4 m2, c3 _ m3, ?_⟩
          cases hasp : n.isAsp with
          | true => rw [hasp] at m4; simp only [if_true] at m4 ⊢; exact d5 _ m4
          | false =>
            rw [hasp] at m4; simp only [Bool.false_eq_true, if_false] at m4 ⊢
            intro x hx; exact d5 _ (m4 x hx)
        · have hp' : p ∈ rest := by
            rcases List.mem_cons.mp hp with h | h
            · exact absurd h hpq
            · exact h
          have := c7 ⟨p, hp', hf.mono a5 hpq⟩
          rw [b2, a1] at this; exact this

theorem waiting_skipped : deferSkips.contains Status.waiting.name = true := by decide

/-- one element of `per` -/
theorem deferNode_step {now : Int} {st st' : DeferSt} {tag : String}
    (h : deferNode now st tag = .ok st') :
    st'.s.targets = st.s.targets ∧
    (∀ g', g' ≠ tag → getNode st'.s g' = getNode st.s g') ∧
    (∀ x, x ∈ st.s.que → x ∈ st'.s.que) ∧
    (∀ e, e ∈ st.s.booted → e ∈ st'.s.booted) ∧
    (∀ e, e ∈ st'.s.booted → e ∈ st.s.booted ∨ ∃ n, getNode st.s tag = some n ∧ e ∈ n.period) ∧
    (∀ n, getNode st.s tag = some n → ∃ n', getNode st'.s tag = some n' ∧ n'.isAsp = n.isAsp ∧
      n'.period = n.period ∧ (n.status = Status.waiting → n'.status = Status.waiting) ∧
      (∀ x, x ∈ n.todo → x ∈ n'.todo)) ∧
    (∀ n, getNode st.s tag = some n → deferSkips.contains n.status.name = false →
      (∃ p, p ∈ n.period ∧ Fires now st.s.booted p) → Queued st'.s tag n.isAsp st.s.targets) := by
  unfold deferNode at h
  cases hg : getNode st.s tag with
  | none =>
    rw [hg] at h; simp only at h; injection h with h; subst h
    refine ⟨rfl, fun _ _ => rfl, fun _ h => h, fun _ h => h, fun _ h => Or.inl h, ?_, ?_⟩
    · intro n hn; cases hn
    · intro n hn; cases hn
  | some n =>
    rw [hg] at h; simp only at h
    have htag := getNode_tag hg
    by_cases hs : deferSkips.contains n.status.name = true
    · rw [if_pos hs] at h; injection h with h; subst h
      refine ⟨rfl, fun _ _ => rfl, fun _ h => h, fun _ h => h, fun _ h => Or.inl h, ?_, ?_⟩
      · intro n' hn'; injection hn' with hn'; subst hn'
        exact ⟨n, hg, rfl, rfl, fun h => h, fun _ h => h⟩
      · intro n' hn' hns; injection hn' with hn'; subst hn'
        rw [hs] at hns; cases hns
    · rw [if_neg hs] at h
      have hgd : getNode (setNode st.s { n with status := Status.delayed }) tag
          = some { n with status := Status.delayed } := getNode_setNode_same hg htag
      obtain ⟨c1, c2, c3, c4, c5, ⟨n2, d1, d2, d3, _, d5⟩, c7⟩ :=
        period_fold n.period (st := { st with s := setNode st.s { n with status := Status.delayed } }) h hgd
      refine ⟨c1, ?_, c3, c4, ?_, ?_, ?_⟩
      · intro g' hne
        rw [c2 g' hne]
        exact getNode_setNode_other (by simpa [htag] using Ne.symm hne)
      · intro e he
        rcases c5 e he with he | he
        · left; exact he
        · right; exact ⟨n, rfl, he⟩
      · intro n' hn'; injection hn' with hn'; subst hn'
        refine ⟨n2, d1, d2, d3, ?_, d5⟩
        intro hw
        rw [hw] at hs; exact absurd waiting_skipped hs
      · intro n' hn' _ hw; injection hn' with hn'; subst hn'
        exact c7 hw

theorem deferNode_absent {now : Int} {st st' : DeferSt} {tag : String}
    (h : deferNode now st tag = .ok st') (hg : getNode st.s tag = none) : st' = st := by
  unfold deferNode at h
  rw [hg] at h; simp only at h; injection h with h; exact h.symm

/-- the timed or boot event `p` belongs to node `g` only (an event carries the reference of its
    own algorithm) -/
def Owned (s : Sched) (g : String) (p : Event) : Prop :=
  ∀ g' n', g' ≠ g → getNode s g' = some n' → p ∉ n'.period

theorem Queued.step {now : Int} {st st' : DeferSt} {tag g : String} {asp : Bool} {T : List String}
    (h : deferNode now st tag = .ok st') (hq : Queued st.s g asp T) : Queued st'.s g asp T := by
  obtain ⟨_, a2, a3, _, _, a6, _⟩ := deferNode_step h
  obtain ⟨n, q1, q2, q3, q4⟩ := hq
  by_cases hg : g = tag
  · subst hg
    obtain ⟨n', b1, _, _, b4, b5⟩ := a6 n q1
    refine ⟨n', b1, b4 q2, a3 _ q3, ?_⟩
    cases asp with
    | true => simp only [if_true] at q4 ⊢; exact b5 _ q4
    | false => simp only [Bool.false_eq_true, if_false] at q4 ⊢; intro x hx; exact b5 _ (q4 x hx)
  · exact ⟨n, (a2 g hg).trans q1, q2, a3 _ q3, q4⟩

/-- the `for t in filter(..., per)` loop -/
theorem per_fold {now : Int} (tags : List String) :
    ∀ {st st' : DeferSt}, tags.foldlM (deferNode now) st = .ok st' →
      st'.s.targets = st.s.targets ∧
      (∀ g asp T, Queued st.s g asp T → Queued st'.s g asp T) ∧
      (∀ g n, g ∈ tags → getNode st.s g = some n → deferSkips.contains n.status.name = false →
        (∃ p, p ∈ n.period ∧ Fires now st.s.booted p ∧ (p.moment.boot ≠ none → Owned st.s g p)) →
        Queued st'.s g n.isAsp st.s.targets) := by
  induction tags with
  | nil =>
    intro st st' h
    simp only [List.foldlM_nil, pure, Except.pure] at h
    injection h with h; subst h
    exact ⟨rfl, fun _ _ _ h => h, fun g n hg => by cases hg⟩
  | cons t rest ih =>
    intro st st' h
    simp only [List.foldlM_cons, bind, Except.bind] at h
    cases h1 : deferNode now st t with
    | error e => rw [h1] at h; cases h
    | ok st1 =>
      rw [h1] at h
      simp only at h
      obtain ⟨a1, a2, a3, a4, a5, a6, a7⟩ := deferNode_step h1
      obtain ⟨c1, c2, c3⟩ := ih h
      refine ⟨c1.trans a1, fun g asp T hq => c2 g asp T (hq.step h1), ?_⟩
      intro g n hg hn hs ⟨p, hp, hf, hown⟩
      by_cases hgt : g = t
      · subst hgt
        have := a7 n hn hs ⟨p, hp, hf⟩
        exact c2 _ _ _ this
      · have hg' : g ∈ rest := by
          rcases List.mem_cons.mp hg with h | h
          · exact absurd h hgt
          · exact h
        have hn1 : getNode st1.s g = some n := (a2 g hgt).trans hn
        have hf1 : Fires now st1.s.booted p := by
          rcases hf with hf | ⟨hb, hnb⟩
          · left; exact hf
          · right; refine ⟨hb, ?_⟩
            intro hm
            rcases a5 p hm with hm | ⟨nt, hnt, hm⟩
            · exact hnb hm
            · exact hown hb t nt (Ne.symm hgt) hnt hm
        have hown1 : p.moment.boot ≠ none → Owned st1.s g p := by
          intro hb g' n' hne hn'
          by_cases hgt' : g' = t
          · subst hgt'
            cases hnt : getNode st.s g' with
            | none =>
              have := deferNode_absent h1 hnt
              rw [this] at hn'; rw [hnt] at hn'; cases hn'
            | some nt =>
              obtain ⟨nt', b1, _, b3, _, _⟩ := a6 nt hnt
              rw [b1] at hn'; injection hn' with hn'; subst hn'
              rw [b3]; exact hown hb g' nt hne hnt
          · exact hown hb g' n' hne ((a2 g' hgt').symm.trans hn')
        have := c3 g n hg' hn1 hs ⟨p, hp, hf1, hown1⟩
        rw [a1] at this; exact this

theorem getNode_prune (s : Sched) (g : String) : getNode (prune s) g = getNode s g := rfl

/-- `defer`: a due event of a node that is neither running nor waiting gets the node queued
    (status waiting; todo = all known targets, or the all-targets marker for an analysis), and the
    node is in the work queue unless there is nothing to run it on. -/
theorem defer_queues {now : Int} {s s' : Sched} {timer : Option Int} {g : String} {n : Node} {p : Event}
    (hp : s.paused = false) (h : defer now s = .ok (s', timer))
    (hg : g ∈ s.per) (hn : getNode s g = some n) (hs : deferSkips.contains n.status.name = false)
    (hpp : p ∈ n.period) (hf : Fires now s.booted p) (hown : p.moment.boot ≠ none → Owned s g p) :
    ∃ n', getNode s' g = some n' ∧ n'.status = Status.waiting ∧
      (if n.isAsp then allMarker ∈ n'.todo else ∀ x ∈ s.targets, x ∈ n'.todo) ∧
      (n'.todo ≠ [] → g ∈ s'.que) := by
  unfold defer at h
  simp only [hp, Bool.false_eq_true, if_false, bind, Except.bind] at h
  cases hfold : s.per.foldlM (deferNode now) { s := s, delays := [] } with
  | error e => rw [hfold] at h; cases h
  | ok st =>
    rw [hfold] at h
    simp only at h
    obtain ⟨_, _, c3⟩ := per_fold s.per hfold
    obtain ⟨n', q1, q2, q3, q4⟩ := c3 g n hg hn hs ⟨p, hpp, hf, hown⟩
    have hs' : s' = prune st.s := by
      cases hm : minOf st.delays with
      | none => rw [hm] at h; simp only [pure, Except.pure] at h; injection h with h; injection h with h1 h2; exact h1.symm
      | some w => rw [hm] at h; simp only [pure, Except.pure] at h; injection h with h; injection h with h1 h2; exact h1.symm
    subst hs'
    refine ⟨n', q1, q2, q4, ?_⟩
    intro hne
    show g ∈ st.s.que.filter _
    rw [List.mem_filter]
    refine ⟨q3, ?_⟩
    rw [q1]
    simp [hne]

theorem defer_paused {now : Int} {s : Sched} (hp : s.paused = true) :
    defer now s = .ok (s, some pausedRetry) := by
  simp [defer, hp]

end DawgieVerif.Delay
