/-
Assembly: what `construct e` contains for a well-formed acyclic engine.
-/
import DawgieVerif.Proofs.DagWalk

namespace DawgieVerif.Dag
open Relation
variable {α : Type} [DecidableEq α]

/-! ### names, lookups, expansion -/

omit [DecidableEq α] in
theorem mem_algValues {A : Alg α} {x : Name α} :
    x ∈ algValues A ↔ ∃ S, S ∈ A.svs ∧ ∃ v, v ∈ S.vals ∧ x = [A.task, A.name, S.name, v] := by
  unfold algValues svValues
  simp only [List.mem_flatMap, List.mem_map]
  constructor
  · rintro ⟨S, hS, v, hv, rfl⟩
    exact ⟨S, hS, v, hv, rfl⟩
  · rintro ⟨S, hS, v, hv, rfl⟩
    exact ⟨S, hS, v, hv, rfl⟩

omit [DecidableEq α] in
theorem trim2_value {A : Alg α} {x : Name α} (hx : x ∈ algValues A) : trim 2 x = A.id := by
  obtain ⟨S, _, v, _, rfl⟩ := mem_algValues.1 hx
  rfl

theorem lookup_mem {e : Engine α} {t a : α} {A : Alg α} (h : e.lookup t a = some A) :
    A ∈ e.algs ∧ A.task = t ∧ A.name = a := by
  unfold Engine.lookup at h
  have h1 := List.mem_of_find?_eq_some h
  have h2 := List.find?_some h
  simp only [decide_eq_true_eq] at h2
  exact ⟨h1, h2⟩

theorem lookup_of_mem {e : Engine α} (hwf : WF e) {A : Alg α} (hA : A ∈ e.algs) :
    e.lookup A.task A.name = some A := by
  cases h : e.lookup A.task A.name with
  | none =>
    unfold Engine.lookup at h
    rw [List.find?_eq_none] at h
    have := h A hA
    simp at this
  | some B =>
    obtain ⟨hB, ht, hn⟩ := lookup_mem h
    have : B = A := inj_of_nodup_map hwf.ids_nodup hB hA (by simp [Alg.id, ht, hn])
    rw [this]

theorem algOf_value {e : Engine α} (hwf : WF e) {A : Alg α} (hA : A ∈ e.algs) {x : Name α}
    (hx : x ∈ algValues A) : e.algOf x = some A := by
  obtain ⟨S, _, v, _, rfl⟩ := mem_algValues.1 hx
  simp only [Engine.algOf]
  exact lookup_of_mem hwf hA

omit [DecidableEq α] in
theorem algValues_nonempty {e : Engine α} (hwf : WF e) {A : Alg α} (hA : A ∈ e.algs) :
    ∃ x, x ∈ algValues A := by
  have h1 := hwf.has_sv A hA
  cases hs : A.svs with
  | nil => exact absurd hs h1
  | cons S rest =>
    have hS : S ∈ A.svs := by rw [hs]; exact List.mem_cons_self
    have h2 := hwf.has_val A hA S hS
    cases hv : S.vals with
    | nil => exact absurd hv h2
    | cons v vs =>
      exact ⟨[A.task, A.name, S.name, v],
        mem_algValues.2 ⟨S, hS, v, by rw [hv]; exact List.mem_cons_self, rfl⟩⟩

theorem expandRef_declared {e : Engine α} (hwf : WF e) {r : Ref α} (hr : r.Resolves e) :
    (∃ x, x ∈ expandRef e r) ∧ ∀ x, x ∈ expandRef e r → ∃ B, B ∈ e.algs ∧ x ∈ algValues B := by
  cases r with
  | val t a s v =>
    obtain ⟨B, hB, rfl, rfl, S, hS, rfl, hv⟩ := hr
    refine ⟨⟨[B.task, B.name, S.name, v], by simp [expandRef]⟩, ?_⟩
    intro x hx
    simp only [expandRef, List.mem_singleton] at hx
    subst hx
    exact ⟨B, hB, mem_algValues.2 ⟨S, hS, v, hv, rfl⟩⟩
  | sv t a s =>
    obtain ⟨B, hB, rfl, rfl, S, hS, rfl⟩ := hr
    have hl := lookup_of_mem hwf hB
    simp only [expandRef, hl]
    cases hf : B.svs.find? (fun S' => decide (S'.name = S.name)) with
    | none =>
      rw [List.find?_eq_none] at hf
      have := hf S hS
      simp at this
    | some S' =>
      have hS' := List.mem_of_find?_eq_some hf
      have hn := List.find?_some hf
      simp only [decide_eq_true_eq] at hn
      have h2 := hwf.has_val B hB S' hS'
      constructor
      · cases hv : S'.vals with
        | nil => exact absurd hv h2
        | cons v vs => exact ⟨[B.task, B.name, S'.name, v], by simp [svValues, hv]⟩
      · intro x hx
        simp only [svValues, List.mem_map] at hx
        obtain ⟨v, hv, rfl⟩ := hx
        exact ⟨B, hB, mem_algValues.2 ⟨S', hS', v, hv, rfl⟩⟩
  | alg t a =>
    obtain ⟨B, hB, rfl, rfl⟩ := hr
    have hl := lookup_of_mem hwf hB
    simp only [expandRef, hl]
    exact ⟨algValues_nonempty hwf hB, fun x hx => ⟨B, hB, hx⟩⟩

theorem expand_declared {e : Engine α} (hwf : WF e) {A : Alg α} (hA : A ∈ e.algs) {x : Name α}
    (hx : x ∈ expand e A.inputs ∨ x ∈ expand e A.feedback) : ∃ B, B ∈ e.algs ∧ x ∈ algValues B := by
  unfold expand at hx
  simp only [List.mem_flatMap] at hx
  rcases hx with ⟨r, hr, hx⟩ | ⟨r, hr, hx⟩
  · exact (expandRef_declared hwf (hwf.resolves A hA r (Or.inl hr))).2 x hx
  · exact (expandRef_declared hwf (hwf.resolves A hA r (Or.inr hr))).2 x hx

theorem expand_inputs_nonempty {e : Engine α} (hwf : WF e) {A : Alg α} (hA : A ∈ e.algs)
    (h : A.inputs ≠ []) : ∃ a, a ∈ expand e A.inputs := by
  cases hi : A.inputs with
  | nil => exact absurd hi h
  | cons r rs =>
    have hr : r ∈ A.inputs := by rw [hi]; exact List.mem_cons_self
    obtain ⟨x, hx⟩ := (expandRef_declared hwf (hwf.resolves A hA r (Or.inl hr))).1
    refine ⟨x, ?_⟩
    unfold expand
    rw [List.mem_flatMap]
    exact ⟨r, List.mem_cons_self, hx⟩

/-- for a well-formed engine `_flat` holds exactly the declared values -/
theorem keys_iff {e : Engine α} (hwf : WF e) (x : Name α) :
    x ∈ (buildFlat e).tbl.keys ↔ ∃ A, A ∈ e.algs ∧ x ∈ algValues A := by
  rw [flat_keys]
  constructor
  · rintro ⟨A, hA, fn, hfn, rfl | hx⟩
    · exact ⟨A, hA, hfn⟩
    · exact expand_declared hwf hA (Or.inl hx)
  · rintro ⟨A, hA, hx⟩
    exact ⟨A, hA, x, hx, Or.inl rfl⟩

/-- a node whose tag trims to an algorithm's name is one of that algorithm's values -/
theorem value_of_trim {e : Engine α} (hwf : WF e) {B : Alg α} (hB : B ∈ e.algs) {x : Name α}
    (hx : x ∈ (buildFlat e).tbl.keys) (ht : trim 2 x = B.id) : x ∈ algValues B := by
  obtain ⟨A, hA, hxA⟩ := (keys_iff hwf x).1 hx
  have : A = B := inj_of_nodup_map hwf.ids_nodup hA hB (by rw [← trim2_value hxA, ht])
  rw [← this]
  exact hxA

/-! ### declared dependencies -/

theorem declares_lift {e : Engine α} {a b : Name α} (h : TransGen (Declares e) a b) :
    TransGen (edgeAt e 2) (trim 2 a) (trim 2 b) := by
  induction h with
  | single h1 => exact TransGen.single ⟨_, _, rfl, rfl, h1⟩
  | tail _ h1 ih => exact TransGen.tail ih ⟨_, _, rfl, rfl, h1⟩

theorem declares_acyclic {e : Engine α} (hac : Acyclic e) (a : Name α) :
    ¬ TransGen (Declares e) a a := fun h => hac _ (declares_lift h)

theorem declares_cross {e : Engine α} (hac : Acyclic e) {a b : Name α} (h : Declares e a b) :
    trim 2 a ≠ trim 2 b := by
  intro heq
  have := declares_lift (TransGen.single h)
  rw [heq] at this
  exact hac _ this

/-! ### the graph built by `mkGraph` -/

section Graph
variable {e : Engine α} (st : FbSt α)

theorem known_all (hwf : WF e) (hac : Acyclic e) (succ : Name α → List (Name α))
    (hsucc : ∀ a b, Declares e a b → b ∈ succ a) :
    ∀ x, x ∈ (buildFlat e).tbl.keys → x ∈ dfs succ (buildFlat e).tbl.keys (buildFlat e).roots [] := by
  apply all_reached succ _ _ (Declares e) (declares_acyclic hac)
    (fun a b h => (declares_mem_keys h).1) hsucc
  intro x hx
  obtain ⟨A, hA, hxA⟩ := (keys_iff hwf x).1 hx
  by_cases hi : A.inputs = []
  · exact Or.inl ((flat_roots e x).2 ⟨A, hA, hi, hxA⟩)
  · obtain ⟨a, ha⟩ := expand_inputs_nonempty hwf hA hi
    exact Or.inr ⟨a, A, hA, hxA, ha⟩

theorem mem_crossKids {t : Tbl (Name α) (List (Name α))} {a b : Name α} :
    b ∈ crossKids t a ↔ b ∈ t.get a [] ∧ trim 2 b ≠ trim 2 a := by
  unfold crossKids
  have : Generated.Dag.crossLevel = 2 := rfl
  simp only [this, List.mem_filter, decide_eq_true_eq]

theorem mkGraph_known (hwf : WF e) (hac : Acyclic e) (x : Name α) :
    x ∈ (mkGraph (buildFlat e) st).known ↔ x ∈ (buildFlat e).tbl.keys := by
  constructor
  · exact (dfs_start _ _ _).2.1 x
  · apply known_all hwf hac
    intro a b h
    exact mem_crossKids.2 ⟨(flat_kids e a b).2 h, (declares_cross hac h).symm⟩

theorem mkGraph_visited (hwf : WF e) (hac : Acyclic e) (x : Name α) :
    x ∈ (mkGraph (buildFlat e) st).visited ↔ x ∈ (buildFlat e).tbl.keys := by
  constructor
  · exact (dfs_start _ _ _).2.1 x
  · apply known_all hwf hac
    intro a b h
    exact List.mem_append_right _ ((flat_kids e a b).2 h)

theorem mkGraph_kids (a b : Name α) :
    b ∈ (mkGraph (buildFlat e) st).kids a ↔ Declares e a b := flat_kids e a b

theorem mkGraph_parents (hwf : WF e) (hac : Acyclic e) (m c : Name α) :
    m ∈ (mkGraph (buildFlat e) st).parents c ↔ Declares e m c := by
  have hp : (mkGraph (buildFlat e) st).parents c =
      if c ∈ (buildFlat e).tbl.keys then
        (mkGraph (buildFlat e) st).known.filter
          (fun n => decide (c ∈ crossKids (buildFlat e).tbl n))
      else [] := by
    simp only [Graph.parents, mkGraph, Tbl.get, tabulate_get?]
    split <;> rfl
  rw [hp]
  constructor
  · intro h
    split at h
    · rw [List.mem_filter] at h
      simp only [decide_eq_true_eq] at h
      exact (flat_kids e m c).1 (mem_crossKids.1 h.2).1
    · cases h
  · intro h
    obtain ⟨hm, hc⟩ := declares_mem_keys h
    rw [if_pos hc, List.mem_filter]
    refine ⟨(mkGraph_known st hwf hac m).2 hm, ?_⟩
    simp only [decide_eq_true_eq]
    exact mem_crossKids.2 ⟨(flat_kids e m c).2 h, (declares_cross hac h).symm⟩

theorem parents_rel (hwf : WF e) (hac : Acyclic e) :
    (fun a b => a ∈ (mkGraph (buildFlat e) st).parents b) = Declares e := by
  funext a b
  exact propext (mkGraph_parents st hwf hac a b)

theorem mkGraph_ancestry (hwf : WF e) (hac : Acyclic e) (x : Name α) :
    (ancestryOf (mkGraph (buildFlat e) st).parents (mkGraph (buildFlat e) st).keys x).isSome ∧
    ∀ m, m ∈ (mkGraph (buildFlat e) st).ancV x ↔ TransGen (Declares e) m x := by
  obtain ⟨H, hH, hmem⟩ := ancestryOf_spec (mkGraph (buildFlat e) st).parents
    (mkGraph (buildFlat e) st).keys x
    (by rw [parents_rel st hwf hac]; exact declares_acyclic hac)
    (by
      intro a b h
      exact (declares_mem_keys ((mkGraph_parents st hwf hac a b).1 h)).2)
  rw [parents_rel st hwf hac] at hmem
  refine ⟨by rw [hH]; rfl, ?_⟩
  intro m
  simp only [Graph.ancV, hH]
  exact hmem m

end Graph

/-! ### `construct` -/

theorem construct_eq {e : Engine α} {g : Graph α} (h : construct e = .ok g) :
    ∃ st, feedbackPass e (buildFlat e).tbl.keys = .ok st ∧ g = mkGraph (buildFlat e) st := by
  unfold construct at h
  simp only at h
  split at h
  · cases h
  · rename_i st hst
    split at h
    · cases h
    · injection h with h
      exact ⟨st, hst, h.symm⟩

/-- the error branches of `construct`: a `KeyError` is raised exactly for a fed-back name that
    is not a node, `diverges` only for a node whose `_ancestry` loop runs out of rounds -/
theorem construct_error {e : Engine α} {err : Err α} (h : construct e = .error err) :
    (∃ k n, err = .keyError n ∧ k ∈ (buildFlat e).tbl.keys ∧ n ∈ e.feedbackOf k ∧
      n ∉ (buildFlat e).tbl.keys) ∨
    (∃ st k, err = .diverges k ∧ feedbackPass e (buildFlat e).tbl.keys = .ok st ∧
      ancestryOf (mkGraph (buildFlat e) st).parents (mkGraph (buildFlat e) st).keys k = none) := by
  unfold construct at h
  simp only at h
  split at h
  · rename_i err' herr
    injection h with h
    subst h
    obtain ⟨⟨k, n⟩, hev, h1, h2⟩ := fbFold_error _ _ _ _ herr
    obtain ⟨hk, hn⟩ := (mem_fbEvents e _ k n).1 hev
    exact Or.inl ⟨k, n, h1, hk, hn, h2⟩
  · rename_i st hst
    split at h
    · rename_i k hk
      injection h with h
      have := List.find?_some hk
      refine Or.inr ⟨st, k, h.symm, hst, ?_⟩
      cases hh : ancestryOf (mkGraph (buildFlat e) st).parents (mkGraph (buildFlat e) st).keys k with
      | none => rfl
      | some _ => rw [hh] at this; cases this
    · cases h

theorem feedbackOf_declared {e : Engine α} (hwf : WF e) {k f : Name α} (hf : f ∈ e.feedbackOf k) :
    f ∈ (buildFlat e).tbl.keys := by
  unfold Engine.feedbackOf at hf
  split at hf
  · rename_i A hA
    have hAm : A ∈ e.algs := by
      unfold Engine.algOf at hA
      split at hA
      · exact (lookup_mem hA).1
      · cases hA
    obtain ⟨B, hB, hfB⟩ := expand_declared hwf hAm (Or.inr hf)
    exact value_mem_keys hB hfB
  · cases hf

theorem construct_ok' {e : Engine α} (hwf : WF e) (hac : Acyclic e) : ∃ g, construct e = .ok g := by
  obtain ⟨st, hst⟩ := fbFold_ok (buildFlat e).tbl.keys (fbEvents e (buildFlat e).tbl.keys) ⟨[], []⟩
    (by
      rintro ⟨k, f⟩ hev
      exact feedbackOf_declared hwf ((mem_fbEvents e _ k f).1 hev).2)
  refine ⟨mkGraph (buildFlat e) st, ?_⟩
  unfold construct
  simp only
  have : feedbackPass e (buildFlat e).tbl.keys = .ok st := hst
  rw [this]
  simp only
  have hnone : (mkGraph (buildFlat e) st).keys.find?
      (fun k => (ancestryOf (mkGraph (buildFlat e) st).parents (mkGraph (buildFlat e) st).keys k).isNone)
      = none := by
    rw [List.find?_eq_none]
    intro k _
    have := (mkGraph_ancestry st hwf hac k).1
    cases h : ancestryOf (mkGraph (buildFlat e) st).parents (mkGraph (buildFlat e) st).keys k with
    | none => rw [h] at this; cases this
    | some _ => simp
  rw [hnone]

/-! ### the trees -/

section Trees
variable {e : Engine α} {g : Graph α}

theorem mem_members {l : Nat} {p x : Name α} : x ∈ g.members l p ↔ x ∈ g.visited ∧ trim l x = p := by
  unfold Graph.members
  simp only [List.mem_filter, decide_eq_true_eq]

theorem mem_children {l : Nat} {p c : Name α} :
    c ∈ g.children l p ↔ ∃ x, x ∈ g.visited ∧ trim l x = p ∧ ∃ y, y ∈ g.kids x ∧ trim l y = c := by
  unfold Graph.children
  simp only [mem_dedup, List.mem_flatMap, mem_members, List.mem_map]
  constructor
  · rintro ⟨x, ⟨hx, hp⟩, y, hy, hc⟩
    exact ⟨x, hx, hp, y, hy, hc⟩
  · rintro ⟨x, hx, hp, y, hy, hc⟩
    exact ⟨x, ⟨hx, hp⟩, y, hy, hc⟩

theorem mem_ancestryAt {p m : Name α} :
    m ∈ g.ancestryAt p ↔ ∃ x, x ∈ g.visited ∧ trim 2 x = p ∧ ∃ y, y ∈ g.ancV x ∧ trim 2 y = m := by
  unfold Graph.ancestryAt
  have : Generated.Dag.famLevel = 2 := rfl
  simp only [this, mem_dedup, List.mem_flatMap, mem_members, List.mem_map]
  constructor
  · rintro ⟨x, ⟨hx, hp⟩, y, hy, hc⟩
    exact ⟨x, hx, hp, y, hy, hc⟩
  · rintro ⟨x, hx, hp, y, hy, hc⟩
    exact ⟨x, ⟨hx, hp⟩, y, hy, hc⟩

theorem mem_parentsAt {p m : Name α} :
    m ∈ g.parentsAt p ↔ ∃ x, x ∈ g.visited ∧ trim 2 x = p ∧ ∃ y, y ∈ g.parents x ∧ trim 2 y = m := by
  unfold Graph.parentsAt
  have : Generated.Dag.famLevel = 2 := rfl
  simp only [this, mem_dedup, List.mem_flatMap, mem_members, List.mem_map]
  constructor
  · rintro ⟨x, ⟨hx, hp⟩, y, hy, hc⟩
    exact ⟨x, hx, hp, y, hy, hc⟩
  · rintro ⟨x, hx, hp, y, hy, hc⟩
    exact ⟨x, ⟨hx, hp⟩, y, hy, hc⟩

theorem mem_feedbackT {l : Nat} {p c : Name α} :
    c ∈ g.feedbackT l p ↔ ∃ x, x ∈ g.visited ∧ trim l x = p ∧ ∃ y, y ∈ g.fb x ∧ trim l y = c := by
  unfold Graph.feedbackT
  simp only [mem_dedup, List.mem_flatMap, mem_members, List.mem_map]
  constructor
  · rintro ⟨x, ⟨hx, hp⟩, y, hy, hc⟩
    exact ⟨x, hx, hp, y, hy, hc⟩
  · rintro ⟨x, hx, hp, y, hy, hc⟩
    exact ⟨x, ⟨hx, hp⟩, y, hy, hc⟩

theorem children_iff (hwf : WF e) (hac : Acyclic e) (h : construct e = .ok g) (l : Nat)
    (p c : Name α) : c ∈ g.children l p ↔ edgeAt e l p c := by
  obtain ⟨st, _, rfl⟩ := construct_eq h
  rw [mem_children]
  constructor
  · rintro ⟨x, _, hp, y, hy, hc⟩
    exact ⟨x, y, hp, hc, (mkGraph_kids st x y).1 hy⟩
  · rintro ⟨a, b, hp, hc, hd⟩
    exact ⟨a, (mkGraph_visited st hwf hac a).2 (declares_mem_keys hd).1, hp, b,
      (mkGraph_kids st a b).2 hd, hc⟩

theorem treeTags_iff (hwf : WF e) (hac : Acyclic e) (h : construct e = .ok g) (l : Nat)
    (p : Name α) : p ∈ g.treeTags l ↔ ∃ A, A ∈ e.algs ∧ ∃ x, x ∈ algValues A ∧ trim l x = p := by
  obtain ⟨st, _, rfl⟩ := construct_eq h
  unfold Graph.treeTags
  simp only [mem_dedup, List.mem_map, mkGraph_visited st hwf hac, keys_iff hwf]
  constructor
  · rintro ⟨x, ⟨A, hA, hx⟩, hp⟩
    exact ⟨A, hA, x, hx, hp⟩
  · rintro ⟨A, hA, x, hx, hp⟩
    exact ⟨x, ⟨A, hA, hx⟩, hp⟩

theorem atTags_iff (hwf : WF e) (hac : Acyclic e) (h : construct e = .ok g) (p : Name α) :
    p ∈ g.treeTags 2 ↔ p ∈ e.algs.map Alg.id := by
  rw [treeTags_iff hwf hac h, List.mem_map]
  constructor
  · rintro ⟨A, hA, x, hx, hp⟩
    exact ⟨A, hA, by rw [← hp, trim2_value hx]⟩
  · rintro ⟨A, hA, hp⟩
    obtain ⟨x, hx⟩ := algValues_nonempty hwf hA
    exact ⟨A, hA, x, hx, by rw [trim2_value hx, hp]⟩

theorem ancV_iff (hwf : WF e) (hac : Acyclic e) (h : construct e = .ok g) (m x : Name α) :
    m ∈ g.ancV x ↔ TransGen (Declares e) m x := by
  obtain ⟨st, _, rfl⟩ := construct_eq h
  exact (mkGraph_ancestry st hwf hac x).2 m

/-- every value of the algorithm `n` sees some value of `m` among its ancestors -/
theorem closure_down (hwf : WF e) {m n : Name α} (h : TransGen (edgeAt e 2) m n) :
    ∀ x, x ∈ (buildFlat e).tbl.keys → trim 2 x = n →
      ∃ y, trim 2 y = m ∧ TransGen (Declares e) y x := by
  induction h with
  | single h1 =>
    intro x hx hn
    obtain ⟨a, b, ha, hb, B, hB, hbB, haB⟩ := h1
    have hxB : x ∈ algValues B := value_of_trim hwf hB hx (by rw [hn, ← hb, trim2_value hbB])
    exact ⟨a, ha, TransGen.single ⟨B, hB, hxB, haB⟩⟩
  | tail _ h1 ih =>
    intro x hx hn
    obtain ⟨a, b, ha, hb, B, hB, hbB, haB⟩ := h1
    have hxB : x ∈ algValues B := value_of_trim hwf hB hx (by rw [hn, ← hb, trim2_value hbB])
    have hda : Declares e a x := ⟨B, hB, hxB, haB⟩
    obtain ⟨y, hy, hty⟩ := ih a (declares_mem_keys hda).1 ha
    exact ⟨y, hy, TransGen.tail hty hda⟩

theorem edge_target_value {l : Nat} {m n : Name α} (h : TransGen (edgeAt e l) m n) :
    ∃ b, trim l b = n ∧ ∃ B, B ∈ e.algs ∧ b ∈ algValues B := by
  cases h with
  | single h1 =>
    obtain ⟨a, b, _, hb, B, hB, hbB, _⟩ := h1
    exact ⟨b, hb, B, hB, hbB⟩
  | tail _ h1 =>
    obtain ⟨a, b, _, hb, B, hB, hbB, _⟩ := h1
    exact ⟨b, hb, B, hB, hbB⟩

theorem ancestryAt_iff (hwf : WF e) (hac : Acyclic e) (h : construct e = .ok g) (m n : Name α) :
    m ∈ g.ancestryAt n ↔ TransGen (edgeAt e 2) m n := by
  rw [mem_ancestryAt]
  constructor
  · rintro ⟨x, _, hn, y, hy, hm⟩
    rw [← hn, ← hm]
    exact declares_lift ((ancV_iff hwf hac h y x).1 hy)
  · intro ht
    obtain ⟨b, hb, B, hB, hbB⟩ := edge_target_value ht
    have hbk := value_mem_keys hB hbB
    obtain ⟨y, hy, hty⟩ := closure_down hwf ht b hbk hb
    obtain ⟨st, _, rfl⟩ := construct_eq h
    exact ⟨b, (mkGraph_visited st hwf hac b).2 hbk, hb, y,
      ((mkGraph_ancestry st hwf hac b).2 y).2 hty, hy⟩

theorem parentsAt_iff (hwf : WF e) (hac : Acyclic e) (h : construct e = .ok g) (m n : Name α) :
    m ∈ g.parentsAt n ↔ edgeAt e 2 m n := by
  obtain ⟨st, _, rfl⟩ := construct_eq h
  rw [mem_parentsAt]
  constructor
  · rintro ⟨x, _, hn, y, hy, hm⟩
    exact ⟨y, x, hm, hn, (mkGraph_parents st hwf hac y x).1 hy⟩
  · rintro ⟨a, b, hm, hn, hd⟩
    exact ⟨b, (mkGraph_visited st hwf hac b).2 (declares_mem_keys hd).2, hn, a,
      (mkGraph_parents st hwf hac a b).2 hd, hm⟩

end Trees

/-! ### feedback -/

section Feedback
variable {e : Engine α} {g : Graph α}

theorem feedbacks_spec (hwf : WF e) (h : construct e = .ok g) :
    (∀ v c, g.feedbacks.get? v = some c →
      ∃ C, C ∈ e.algs ∧ c ∈ algValues C ∧ v ∈ expand e C.feedback) ∧
    (∀ B, B ∈ e.algs → ∀ v, v ∈ expand e B.feedback → (g.feedbacks.get? v).isSome) ∧
    (∀ k f, f ∈ g.fb k ↔ k ∈ (buildFlat e).tbl.keys ∧ f ∈ e.feedbackOf k) := by
  obtain ⟨st, hst, rfl⟩ := construct_eq h
  obtain ⟨_, i2, i3, i4⟩ := fbFold_spec _ _ _ _ hst
  refine ⟨?_, ?_, ?_⟩
  · intro v c hvc
    rcases i3 v c hvc with h' | h'
    · simp [Tbl.get?] at h'
    · obtain ⟨hc, hf⟩ := (mem_fbEvents e _ c v).1 h'
      obtain ⟨C, hC, hcC⟩ := (keys_iff hwf c).1 hc
      have := algOf_value hwf hC hcC
      simp only [Engine.feedbackOf, this] at hf
      exact ⟨C, hC, hcC, hf⟩
  · intro B hB v hv
    apply i4
    right
    obtain ⟨b, hb⟩ := algValues_nonempty hwf hB
    refine ⟨b, (mem_fbEvents e _ b v).2 ⟨value_mem_keys hB hb, ?_⟩⟩
    simp only [Engine.feedbackOf, algOf_value hwf hB hb]
    exact hv
  · intro k f
    have := i2 k f
    simp only [Graph.fb, mkGraph]
    rw [this, mem_fbEvents]
    simp [Tbl.get, Tbl.get?]

end Feedback

/-! ### erasing the feedback declarations -/

section NoFeedback
variable {e : Engine α}

theorem lookup_noFeedback (t a : α) :
    e.noFeedback.lookup t a = (e.lookup t a).map (fun A => { A with feedback := [] }) := by
  unfold Engine.lookup Engine.noFeedback
  rw [List.find?_map]
  rfl

theorem expandRef_noFeedback (r : Ref α) : expandRef e.noFeedback r = expandRef e r := by
  cases r with
  | val t a s v => rfl
  | sv t a s =>
    simp only [expandRef, lookup_noFeedback]
    cases e.lookup t a <;> rfl
  | alg t a =>
    simp only [expandRef, lookup_noFeedback]
    cases e.lookup t a <;> rfl

theorem expand_noFeedback (refs : List (Ref α)) : expand e.noFeedback refs = expand e refs := by
  unfold expand
  have : expandRef e.noFeedback = expandRef e := funext expandRef_noFeedback
  rw [this]

theorem declares_noFeedback (a b : Name α) : Declares e.noFeedback a b ↔ Declares e a b := by
  unfold Declares
  constructor
  · rintro ⟨B, hB, hb, ha⟩
    rw [expand_noFeedback] at ha
    have hB' : B ∈ e.algs.map (fun A => { A with feedback := [] }) := hB
    obtain ⟨A, hA, rfl⟩ := List.mem_map.1 hB'
    exact ⟨A, hA, hb, ha⟩
  · rintro ⟨A, hA, hb, ha⟩
    refine ⟨{ A with feedback := [] }, ?_, hb, ?_⟩
    · exact List.mem_map.2 ⟨A, hA, rfl⟩
    · rw [expand_noFeedback]
      exact ha

theorem edgeAt_noFeedback (l : Nat) (p c : Name α) : edgeAt e.noFeedback l p c ↔ edgeAt e l p c := by
  unfold edgeAt
  simp only [declares_noFeedback]

theorem edgeAt_noFeedback_eq (l : Nat) : edgeAt e.noFeedback l = edgeAt e l := by
  funext p c
  exact propext (edgeAt_noFeedback l p c)

theorem acyclic_noFeedback (hac : Acyclic e) : Acyclic e.noFeedback := by
  unfold Acyclic
  rw [edgeAt_noFeedback_eq]
  exact hac

omit [DecidableEq α] in
theorem resolves_noFeedback {r : Ref α} (h : r.Resolves e) : r.Resolves e.noFeedback := by
  cases r with
  | alg t a =>
    obtain ⟨B, hB, ht, ha⟩ := h
    exact ⟨_, List.mem_map.2 ⟨B, hB, rfl⟩, ht, ha⟩
  | sv t a s =>
    obtain ⟨B, hB, ht, ha, hs⟩ := h
    exact ⟨_, List.mem_map.2 ⟨B, hB, rfl⟩, ht, ha, hs⟩
  | val t a s v =>
    obtain ⟨B, hB, ht, ha, hs⟩ := h
    exact ⟨_, List.mem_map.2 ⟨B, hB, rfl⟩, ht, ha, hs⟩

omit [DecidableEq α] in
theorem wf_noFeedback (hwf : WF e) : WF e.noFeedback := by
  constructor
  · have : e.noFeedback.algs.map Alg.id = e.algs.map Alg.id := by
      simp only [Engine.noFeedback, List.map_map]
      apply List.map_congr_left
      intro A _
      rfl
    rw [this]
    exact hwf.ids_nodup
  · intro A hA
    obtain ⟨B, hB, rfl⟩ := List.mem_map.1 hA
    exact hwf.has_sv B hB
  · intro A hA
    obtain ⟨B, hB, rfl⟩ := List.mem_map.1 hA
    exact hwf.has_val B hB
  · intro A hA r hr
    obtain ⟨B, hB, rfl⟩ := List.mem_map.1 hA
    rcases hr with hr | hr
    · exact resolves_noFeedback (hwf.resolves B hB r (Or.inl hr))
    · cases hr

end NoFeedback

/-! ### what the model takes from the regenerated constants of `pl/dag.py` -/

/-- every `_sub_*` expands the dependency method its tree is built for -/
theorem sub_consistent : subConsistent = true := by decide

/-- node names have four components (task, algorithm, state vector, value) -/
theorem nameArity_eq : Generated.Dag.nameArity = 4 := rfl

/-! ### deciding the hypotheses on a concrete engine -/

section Decide
variable {e : Engine α}

instance (r : Ref α) : Decidable (r.Resolves e) := by
  cases r <;> unfold Ref.Resolves <;> infer_instance

omit [DecidableEq α] in
theorem wf_iff : WF e ↔
    (e.algs.map Alg.id).Nodup ∧
    ∀ A, A ∈ e.algs → A.svs ≠ [] ∧ (∀ S, S ∈ A.svs → S.vals ≠ []) ∧
      ∀ r, r ∈ A.inputs ++ A.feedback → r.Resolves e := by
  constructor
  · intro h
    exact ⟨h.ids_nodup, fun A hA => ⟨h.has_sv A hA, h.has_val A hA,
      fun r hr => h.resolves A hA r (List.mem_append.1 hr)⟩⟩
  · rintro ⟨h1, h2⟩
    exact ⟨h1, fun A hA => (h2 A hA).1, fun A hA => (h2 A hA).2.1,
      fun A hA r hr => (h2 A hA).2.2 r (List.mem_append.2 hr)⟩

instance : Decidable (WF e) := decidable_of_iff _ wf_iff.symm

/-- a rank that increases along every declared input certifies acyclicity -/
theorem acyclic_of_rank (rk : Name α → Nat)
    (h : ∀ B, B ∈ e.algs → ∀ a, a ∈ expand e B.inputs → rk (trim 2 a) < rk B.id) : Acyclic e := by
  have hedge : ∀ p c, edgeAt e 2 p c → rk p < rk c := by
    rintro p c ⟨a, b, rfl, rfl, B, hB, hb, ha⟩
    rw [trim2_value hb]
    exact h B hB a ha
  have htrans : ∀ p c, TransGen (edgeAt e 2) p c → rk p < rk c := by
    intro p c ht
    induction ht with
    | single h1 => exact hedge _ _ h1
    | tail _ h1 ih => exact Nat.lt_trans ih (hedge _ _ h1)
  intro p hp
  exact Nat.lt_irrefl _ (htrans p p hp)

end Decide

end DawgieVerif.Dag
