/-
Helper lemmas for C15 (`Model/Build.lean`): `_diff`, `Unique`, owner prefix.
-/
import DawgieVerif.Model.Build

namespace DawgieVerif.Build
open DawgieVerif.Generated

/-- `db.versions()[table].get(k, [])` -/
def persisted (p : PTable) (k : Name) : List Ver := (p.lookup k).getD []

theorem mem_diff (curr : CTable) (prev : PTable) (k : Name) :
    k ∈ diff curr prev ↔ ∃ v, (k, v) ∈ curr ∧ v ∉ persisted prev k := by
  unfold diff persisted
  simp only [List.mem_map, List.mem_filter]
  constructor
  · rintro ⟨⟨k', v⟩, ⟨hm, hc⟩, rfl⟩
    refine ⟨v, hm, ?_⟩
    cases h : prev.lookup k' with
    | none => simp
    | some vs =>
      simp only [h, beq_iff_eq] at hc
      simpa [List.count_eq_zero] using hc
  · rintro ⟨v, hm, hv⟩
    refine ⟨(k, v), ⟨hm, ?_⟩, rfl⟩
    cases h : prev.lookup k with
    | none => rfl
    | some vs =>
      simp only [h, Option.getD_some] at hv
      simpa [List.count_eq_zero] using hv

theorem mem_uniqueAdd (u : List Target) (t x : Target) :
    x ∈ uniqueAdd u t ↔ x ∈ u ∨ x = t := by
  unfold uniqueAdd
  split
  · constructor
    · exact Or.inl
    · rintro (h | rfl) <;> assumption
  · simp

theorem nodup_uniqueAdd (u : List Target) (t : Target) (h : u.Nodup) :
    (uniqueAdd u t).Nodup := by
  unfold uniqueAdd
  split
  · exact h
  · rename_i hn
    rw [List.nodup_append]
    refine ⟨h, by simp, ?_⟩
    intro a ha b hb
    simp only [List.mem_singleton] at hb
    subst hb
    intro hab
    subst hab
    exact hn ha

theorem mem_uniqueUpdate (u ts : List Target) (x : Target) :
    x ∈ uniqueUpdate u ts ↔ x ∈ u ∨ x ∈ ts := by
  unfold uniqueUpdate
  induction ts generalizing u with
  | nil => simp
  | cons t ts ih =>
    simp only [List.foldl_cons, ih, mem_uniqueAdd, List.mem_cons]
    constructor
    · rintro ((h | h) | h)
      · exact Or.inl h
      · exact Or.inr (Or.inl h)
      · exact Or.inr (Or.inr h)
    · rintro (h | h | h)
      · exact Or.inl (Or.inl h)
      · exact Or.inl (Or.inr h)
      · exact Or.inr h

theorem nodup_uniqueUpdate (u ts : List Target) (h : u.Nodup) :
    (uniqueUpdate u ts).Nodup := by
  unfold uniqueUpdate
  induction ts generalizing u with
  | nil => simpa using h
  | cons t ts ih => exact ih _ (nodup_uniqueAdd u t h)

theorem mem_uniqueOf (ts : List Target) (x : Target) : x ∈ uniqueOf ts ↔ x ∈ ts := by
  simp [uniqueOf, mem_uniqueUpdate]

theorem nodup_uniqueOf (ts : List Target) : (uniqueOf ts).Nodup :=
  nodup_uniqueUpdate [] ts List.nodup_nil

theorem uniqueUpdate_nil (u : List Target) : uniqueUpdate u [] = u := rfl


/-! ### specification side and the membership lemma for `ans` -/

/-- the persisted tables lack the current version of the algorithm `n = [t, a]` itself, of one of
    its state vectors `[t, a, s]` or of one of its values `[t, a, s, x]` -/
def Changed (calg csv cv : CTable) (palg psv pv : PTable) (n : Name) : Prop :=
  (∃ v, (n, v) ∈ calg ∧ v ∉ persisted palg n) ∨
  (∃ s v, (n ++ [s], v) ∈ csv ∧ v ∉ persisted psv (n ++ [s])) ∨
  (∃ s x v, (n ++ [s, x], v) ∈ cv ∧ v ∉ persisted pv (n ++ [s, x]))

/-- shape of the names as `dag.Construct` / `pl.version.current` build them: node tags have two
    components, algorithm / state-vector / value keys two / three / four -/
structure WF (nodes : List Node) (calg csv cv : CTable) : Prop where
  nodes : ∀ nd ∈ nodes, nd.name.length = 2
  alg : ∀ kv ∈ calg, kv.1.length = 2
  sv : ∀ kv ∈ csv, kv.1.length = 3
  val : ∀ kv ∈ cv, kv.1.length = 4

theorem diffs_ok (i : Input) (calg csv cv : CTable) (ptask palg psv pv : PTable)
    (hl : i.latest = [calg, csv, cv]) (hp : i.previous = [ptask, palg, psv, pv]) :
    diffs i = .ok [diff calg palg, diff csv psv, diff cv pv] := by
  simp [diffs, BuildTable.diffTables, hl, hp, List.mapM_cons, List.mapM_nil, bind, Except.bind, pure, Except.pure]

theorem take2_len2 (k : Name) (h : k.length = 2) : k.take 2 = k := by
  rw [List.take_of_length_le]; omega

theorem take2_len3 (k n : Name) (hk : k.length = 3) (hn : n.length = 2) :
    k.take 2 = n ↔ ∃ s, k = n ++ [s] := by
  match k, hk with
  | [a, b, c], _ =>
    match n, hn with
    | [x, y], _ => simp

theorem take2_len4 (k n : Name) (hk : k.length = 4) (hn : n.length = 2) :
    k.take 2 = n ↔ ∃ s x, k = n ++ [s, x] := by
  match k, hk with
  | [a, b, c, d], _ =>
    match n, hn with
    | [x, y], _ => simp

theorem mem_ans (calg csv cv : CTable) (palg psv pv : PTable) (n : Name)
    (hn : n.length = 2)
    (halg : ∀ kv ∈ calg, kv.1.length = 2) (hsv : ∀ kv ∈ csv, kv.1.length = 3)
    (hv : ∀ kv ∈ cv, kv.1.length = 4) :
    n ∈ ansOf [diff calg palg, diff csv psv, diff cv pv] ↔ Changed calg csv cv palg psv pv n := by
  have ol : BuildTable.ownerLen = 2 := rfl
  simp only [ansOf, owner, ol, List.flatten_cons, List.flatten_nil, List.append_nil, List.mem_map,
    List.mem_append, mem_diff, Changed]
  constructor
  · rintro ⟨k, (⟨v, hm, hp⟩ | ⟨v, hm, hp⟩ | ⟨v, hm, hp⟩), hk⟩
    · have := take2_len2 k (halg _ hm)
      rw [this] at hk; subst hk
      exact Or.inl ⟨v, hm, hp⟩
    · obtain ⟨s, rfl⟩ := (take2_len3 k n (hsv _ hm) hn).1 hk
      exact Or.inr (Or.inl ⟨s, v, hm, hp⟩)
    · obtain ⟨s, x, rfl⟩ := (take2_len4 k n (hv _ hm) hn).1 hk
      exact Or.inr (Or.inr ⟨s, x, v, hm, hp⟩)
  · rintro (⟨v, hm, hp⟩ | ⟨s, v, hm, hp⟩ | ⟨s, x, v, hm, hp⟩)
    · exact ⟨n, Or.inl ⟨v, hm, hp⟩, take2_len2 n hn⟩
    · exact ⟨n ++ [s], Or.inr (Or.inl ⟨v, hm, hp⟩), (take2_len3 _ n (hsv _ hm) hn).2 ⟨s, rfl⟩⟩
    · exact ⟨n ++ [s, x], Or.inr (Or.inr ⟨v, hm, hp⟩), (take2_len4 _ n (hv _ hm) hn).2 ⟨s, x, rfl⟩⟩

set_option linter.unusedSimpArgs false in
theorem diffs_error_iff (i : Input) :
    diffs i = .error Err.index ↔ (i.latest.length < 3 ∨ i.previous.length < 4) := by
  obtain ⟨nodes, latest, previous, targets⟩ := i
  simp only [diffs, BuildTable.diffTables]
  match latest, previous with
  | [], _ => simp [List.mapM_cons, bind, Except.bind]
  | [_], [] => simp [List.mapM_cons, bind, Except.bind]
  | [_], [_] => simp [List.mapM_cons, bind, Except.bind]
  | [_], _ :: _ :: _ => simp [List.mapM_cons, bind, Except.bind, pure, Except.pure]
  | [_, _], [] => simp [List.mapM_cons, bind, Except.bind]
  | [_, _], [_] => simp [List.mapM_cons, bind, Except.bind]
  | [_, _], [_, _] => simp [List.mapM_cons, bind, Except.bind, pure, Except.pure]
  | [_, _], _ :: _ :: _ :: _ => simp [List.mapM_cons, bind, Except.bind, pure, Except.pure]
  | _ :: _ :: _ :: _, [] => simp [List.mapM_cons, bind, Except.bind]
  | _ :: _ :: _ :: _, [_] => simp [List.mapM_cons, bind, Except.bind]
  | _ :: _ :: _ :: _, [_, _] => simp [List.mapM_cons, bind, Except.bind, pure, Except.pure]
  | _ :: _ :: _ :: _, [_, _, _] => simp [List.mapM_cons, bind, Except.bind, pure, Except.pure]
  | _ :: _ :: _ :: _, _ :: _ :: _ :: _ :: _ =>
    simp [List.mapM_cons, List.mapM_nil, bind, Except.bind, pure, Except.pure]

/-- every current version is among the persisted ones -/
def AllPersisted (c : CTable) (p : PTable) : Prop := ∀ kv ∈ c, kv.2 ∈ persisted p kv.1

theorem not_changed_of_allPersisted (calg csv cv : CTable) (palg psv pv : PTable) (n : Name)
    (h1 : AllPersisted calg palg) (h2 : AllPersisted csv psv) (h3 : AllPersisted cv pv) :
    ¬ Changed calg csv cv palg psv pv n := by
  rintro (⟨v, hm, hp⟩ | ⟨s, v, hm, hp⟩ | ⟨s, x, v, hm, hp⟩)
  · exact hp (h1 _ hm)
  · exact hp (h2 _ hm)
  · exact hp (h3 _ hm)

/-- every entry of the table whose key is not `k0` is persisted -/
def PersistedExcept (k0 : Name) (c : CTable) (p : PTable) : Prop :=
  ∀ kv ∈ c, kv.1 ≠ k0 → kv.2 ∈ persisted p kv.1

/-- the item `k0` has a current version that is not persisted -/
def Bumped (k0 : Name) (c : CTable) (p : PTable) : Prop := ∃ v, (k0, v) ∈ c ∧ v ∉ persisted p k0

theorem changed_single (calg csv cv : CTable) (palg psv pv : PTable) (k0 n : Name)
    (hn : n.length = 2)
    (halg : ∀ kv ∈ calg, kv.1.length = 2) (hsv : ∀ kv ∈ csv, kv.1.length = 3)
    (hv : ∀ kv ∈ cv, kv.1.length = 4)
    (hb : Bumped k0 calg palg ∨ Bumped k0 csv psv ∨ Bumped k0 cv pv)
    (h1 : PersistedExcept k0 calg palg) (h2 : PersistedExcept k0 csv psv)
    (h3 : PersistedExcept k0 cv pv) :
    Changed calg csv cv palg psv pv n ↔ n = k0.take 2 := by
  constructor
  · rintro (⟨v, hm, hp⟩ | ⟨s, v, hm, hp⟩ | ⟨s, x, v, hm, hp⟩)
    · have : n = k0 := Classical.byContradiction fun hne => hp (h1 _ hm hne)
      subst this; exact (take2_len2 n hn).symm
    · have : n ++ [s] = k0 := Classical.byContradiction fun hne => hp (h2 _ hm hne)
      subst this; exact ((take2_len3 _ n (hsv _ hm) hn).2 ⟨s, rfl⟩).symm
    · have : n ++ [s, x] = k0 := Classical.byContradiction fun hne => hp (h3 _ hm hne)
      subst this; exact ((take2_len4 _ n (hv _ hm) hn).2 ⟨s, x, rfl⟩).symm
  · intro h
    rcases hb with ⟨v, hm, hp⟩ | ⟨v, hm, hp⟩ | ⟨v, hm, hp⟩
    · have := take2_len2 k0 (halg _ hm)
      rw [this] at h; subst h
      exact Or.inl ⟨v, hm, hp⟩
    · obtain ⟨s, rfl⟩ := (take2_len3 k0 n (hsv _ hm) hn).1 h.symm
      exact Or.inr (Or.inl ⟨s, v, hm, hp⟩)
    · obtain ⟨s, x, rfl⟩ := (take2_len4 k0 n (hv _ hm) hn).1 h.symm
      exact Or.inr (Or.inr ⟨s, x, v, hm, hp⟩)

/-! ### the todo of a node after `build` -/

theorem mem_todo (ans : List Name) (targets : List Target) (nd : Node) (ha : nd.name ∈ ans)
    (t : Target) :
    t ∈ todoOrganize ans (todoSet ans targets) nd ↔
      if nd.kind = "analysis" then t = "__all__" else t ∈ targets := by
  have hk : BuildTable.aspKind = "analysis" := rfl
  have hmk : BuildTable.allMarker = "__all__" := rfl
  simp only [todoOrganize, todoSet, ha, if_true, isAsp, hk, hmk, beq_iff_eq]
  by_cases hkind : nd.kind = "analysis"
  · simp [hkind, mem_uniqueAdd, mem_uniqueOf]
  · simp [hkind, uniqueUpdate_nil, mem_uniqueOf]

theorem todo_not_mem (ans : List Name) (targets : List Target) (nd : Node) (ha : nd.name ∉ ans) :
    todoOrganize ans (todoSet ans targets) nd = [] := by
  simp [todoOrganize, todoSet, ha]

theorem todo_nonempty (ans : List Name) (targets : List Target) (nd : Node) (ha : nd.name ∈ ans) :
    (!(todoOrganize ans (todoSet ans targets) nd).isEmpty) = true ↔
      (nd.kind = "analysis" ∨ targets ≠ []) := by
  constructor
  · intro h
    cases hl : todoOrganize ans (todoSet ans targets) nd with
    | nil => simp [hl] at h
    | cons t ts =>
      have ht : t ∈ todoOrganize ans (todoSet ans targets) nd := by rw [hl]; exact List.mem_cons_self
      have := (mem_todo ans targets nd ha t).1 ht
      by_cases hk : nd.kind = "analysis"
      · exact Or.inl hk
      · simp only [hk, if_false] at this
        exact Or.inr (List.ne_nil_of_mem this)
  · intro h
    have : ∃ t, t ∈ todoOrganize ans (todoSet ans targets) nd := by
      rcases h with hk | hne
      · exact ⟨"__all__", (mem_todo ans targets nd ha _).2 (by simp [hk])⟩
      · by_cases hk : nd.kind = "analysis"
        · exact ⟨"__all__", (mem_todo ans targets nd ha _).2 (by simp [hk])⟩
        · obtain ⟨t, ht⟩ := List.exists_mem_of_ne_nil _ hne
          exact ⟨t, (mem_todo ans targets nd ha t).2 (by simp [hk, ht])⟩
    obtain ⟨t, ht⟩ := this
    cases hl : todoOrganize ans (todoSet ans targets) nd with
    | nil => rw [hl] at ht; cases ht
    | cons _ _ => rfl

theorem todo_nodup (ans : List Name) (targets : List Target) (nd : Node) :
    (todoOrganize ans (todoSet ans targets) nd).Nodup := by
  simp only [todoOrganize, todoSet]
  split
  · split
    · exact nodup_uniqueAdd _ _ (nodup_uniqueOf _)
    · exact nodup_uniqueUpdate _ _ (nodup_uniqueOf _)
  · exact List.nodup_nil

/-! ### example engine for the non-vacuity examples of `Props/C15Build.lean` -/

/-- the engine used by the non-vacuity examples: task `t.a` (state vector `s` with values `x`,
    `y`), analysis `t.b`, regression `u.c`; persisted: everything at 1.0.0 -/
def exNodes : List Node := [⟨["t", "a"], "task"⟩, ⟨["t", "b"], "analysis"⟩, ⟨["u", "c"], "regress"⟩]
def exPrev : List PTable :=
  [ [(["t"], []), (["u"], [])],
    [(["t", "a"], ["1.0.0"]), (["t", "b"], ["1.0.0"]), (["u", "c"], ["1.0.0"])],
    [(["t", "a", "s"], ["1.0.0"]), (["t", "b", "s"], ["1.0.0"]), (["u", "c", "s"], ["1.0.0"])],
    [(["t", "a", "s", "x"], ["1.0.0"]), (["t", "a", "s", "y"], ["0.9.0", "1.0.0"]),
     (["t", "b", "s", "x"], ["1.0.0"]), (["u", "c", "s", "x"], ["1.0.0"])] ]
/-- current versions: value `t.a.s.y` and state vector `t.b.s` were bumped -/
def exLatest : List CTable :=
  [ [(["t", "a"], "1.0.0"), (["t", "b"], "1.0.0"), (["u", "c"], "1.0.0")],
    [(["t", "a", "s"], "1.0.0"), (["t", "b", "s"], "1.1.0"), (["u", "c", "s"], "1.0.0")],
    [(["t", "a", "s", "x"], "1.0.0"), (["t", "a", "s", "y"], "1.0.1"),
     (["t", "b", "s", "x"], "1.0.0"), (["u", "c", "s", "x"], "1.0.0")] ]
def exInput : Input := ⟨exNodes, exLatest, exPrev, ["T1", "T2", "T1"]⟩


end DawgieVerif.Build
