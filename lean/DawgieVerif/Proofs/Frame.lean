import DawgieVerif.Model.Frame

namespace DawgieVerif.Frame

theorem loop_none_ge (buf : Bytes) (h : W ≤ buf.length) :
    loop ⟨buf, none⟩ = loop ⟨buf.drop W, some (beNat (buf.take W))⟩ := by
  rw [loop]; simp [h]

theorem loop_none_lt (buf : Bytes) (h : ¬ W ≤ buf.length) :
    loop ⟨buf, none⟩ = (⟨buf, none⟩, []) := by
  rw [loop]; simp [h]

theorem loop_some_ge (buf : Bytes) (n : Nat) (h : n ≤ buf.length) :
    loop ⟨buf, some n⟩ = ((loop ⟨buf.drop n, none⟩).1, buf.take n :: (loop ⟨buf.drop n, none⟩).2) := by
  rw [loop]; simp [h]

theorem loop_some_lt (buf : Bytes) (n : Nat) (h : ¬ n ≤ buf.length) :
    loop ⟨buf, some n⟩ = (⟨buf, some n⟩, []) := by
  rw [loop]; simp [h]

/-- Feeding extra bytes after the loop has run equals running the loop on everything at once. -/
theorem loop_append (s : St) (x : Bytes) :
    loop ⟨s.buf ++ x, s.len⟩ =
      ((loop ⟨(loop s).1.buf ++ x, (loop s).1.len⟩).1,
       (loop s).2 ++ (loop ⟨(loop s).1.buf ++ x, (loop s).1.len⟩).2) := by
  induction s using loop.induct with
  | case1 s hlen hle ih =>
    obtain ⟨buf, len⟩ := s
    simp only at hlen hle ih ⊢
    subst hlen
    have hle' : W ≤ (buf ++ x).length := by simp; omega
    rw [loop_none_ge _ hle', loop_none_ge _ hle]
    have h1 : (buf ++ x).drop W = buf.drop W ++ x := by
      rw [List.drop_append_of_le_length hle]
    have h2 : (buf ++ x).take W = buf.take W := by
      rw [List.take_append_of_le_length hle]
    rw [h1, h2]
    exact ih
  | case2 s hlen hle =>
    obtain ⟨buf, len⟩ := s
    simp only at hlen hle ⊢
    subst hlen
    rw [loop_none_lt _ hle]
    simp
  | case3 s n hlen hle ih =>
    obtain ⟨buf, len⟩ := s
    simp only at hlen hle ih ⊢
    subst hlen
    have hle' : n ≤ (buf ++ x).length := by simp; omega
    rw [loop_some_ge _ _ hle', loop_some_ge _ _ hle]
    have h1 : (buf ++ x).drop n = buf.drop n ++ x := by
      rw [List.drop_append_of_le_length hle]
    have h2 : (buf ++ x).take n = buf.take n := by
      rw [List.take_append_of_le_length hle]
    rw [h1, h2]
    rw [ih]
    simp
  | case4 s n hlen hle =>
    obtain ⟨buf, len⟩ := s
    simp only at hlen hle ⊢
    subst hlen
    rw [loop_some_lt _ _ hle]
    simp

end DawgieVerif.Frame

namespace DawgieVerif.Frame

/-- the loop is idempotent: once it stops, running it again (no new bytes) changes nothing -/
theorem loop_stable (s : St) : loop ⟨s.buf ++ [], s.len⟩ = loop s := by
  simp

theorem beNat_be4 (n : Nat) (h : n < 4294967296) : beNat (be4 n) = n := by
  simp [beNat, be4, UInt8.toNat_ofNat']
  omega

theorem be4_length (n : Nat) : (be4 n).length = W := by
  simp [be4, W, Generated.prefixWidth]

theorem loop_frame_cons (m rest : Bytes) (hlen : m.length < 4294967296) :
    loop ⟨frame m ++ rest, none⟩ = ((loop ⟨rest, none⟩).1, m :: (loop ⟨rest, none⟩).2) := by
  have hW : W ≤ (frame m ++ rest).length := by
    simp [frame, be4_length]
  rw [loop_none_ge _ hW]
  have h1 : (frame m ++ rest).take W = be4 m.length := by
    simp [frame, be4_length]
  have h2 : (frame m ++ rest).drop W = m ++ rest := by
    unfold frame
    rw [List.append_assoc, List.drop_append_of_le_length (by simp [be4_length])]
    rw [← be4_length m.length]; simp
  rw [h1, h2, beNat_be4 _ hlen]
  rw [loop_some_ge _ _ (by simp)]
  simp

theorem loop_frames (ms : List Bytes) (hlen : ∀ m ∈ ms, m.length < 4294967296) :
    loop ⟨(ms.map frame).flatten, none⟩ = (init, ms) := by
  induction ms with
  | nil => rw [loop_none_lt]; · rfl
           · simp [W, Generated.prefixWidth]
  | cons m ms ih =>
    simp only [List.map_cons, List.flatten_cons]
    rw [loop_frame_cons m _ (hlen m (by simp))]
    rw [ih (fun x hx => hlen x (by simp [hx]))]

theorem recv1_frame (m rest : Bytes) (hlen : m.length < 4294967296) :
    recv1 (frame m ++ rest) = some (m, rest) := by
  have hW : W ≤ (frame m ++ rest).length := by
    simp [frame, be4_length]
  have h1 : (frame m ++ rest).take W = be4 m.length := by
    simp [frame, be4_length]
  have h2 : (frame m ++ rest).drop W = m ++ rest := by
    unfold frame
    rw [List.append_assoc, List.drop_append_of_le_length (by simp [be4_length])]
    rw [← be4_length m.length]; simp
  unfold recv1
  simp only [hW, if_true, h1, h2, beNat_be4 _ hlen]
  simp

end DawgieVerif.Frame

namespace DawgieVerif.Frame

/-- a state in which the loop has nothing left to do (every state between two
    `dataReceived` calls is of this kind) -/
def Stable (s : St) : Prop := loop s = (s, [])

theorem loop_result_stable (s : St) : Stable (loop s).1 := by
  unfold Stable
  induction s using loop.induct with
  | case1 s hlen hle ih =>
    obtain ⟨buf, len⟩ := s; simp only at hlen hle ih ⊢; subst hlen
    rw [loop_none_ge _ hle]; exact ih
  | case2 s hlen hle =>
    obtain ⟨buf, len⟩ := s; simp only at hlen hle ⊢; subst hlen
    rw [loop_none_lt _ hle]; simp [loop_none_lt _ hle]
  | case3 s n hlen hle ih =>
    obtain ⟨buf, len⟩ := s; simp only at hlen hle ih ⊢; subst hlen
    rw [loop_some_ge _ _ hle]; exact ih
  | case4 s n hlen hle =>
    obtain ⟨buf, len⟩ := s; simp only at hlen hle ⊢; subst hlen
    rw [loop_some_lt _ _ hle]; simp [loop_some_lt _ _ hle]

theorem feed_stable (s : St) (a : Bytes) : Stable (feed s a).1 := loop_result_stable _

theorem init_stable : Stable init := by
  unfold Stable init; rw [loop_none_lt]; simp [W, Generated.prefixWidth]

end DawgieVerif.Frame
