import DawgieVerif.Proofs.SchedFlight

namespace DawgieVerif.Sched

/-! ### one task message per released unit -/

def Msg.key (m : Msg) : Name × Target := (m.job, m.target)

/-- the (job, target) pairs of the messages `putJob` queues for `x` -/
def keysOf (g : Graph) (s : St) (x : Name) : List (Name × Target) :=
  match g.kind x with
  | .analysis => [(x, ALL)]
  | _ => (s.node x).do_.map fun t => (x, t)

theorem putMsgs_keys (g : Graph) (s : St) (x : Name) (rid : Nat) :
    (putMsgs g x (s.node x) rid).map Msg.key = keysOf g s x := by
  unfold putMsgs keysOf
  cases g.kind x <;> simp [Msg.key, List.map_map, Function.comp_def]

theorem dedupNames_nodup (l : List Name) : (dedupNames l).Nodup := by
  induction l with
  | nil => simp [dedupNames]
  | cons x xs ih =>
    unfold dedupNames
    split
    · exact ih
    · rename_i hx
      rw [List.nodup_cons]
      exact ⟨fun c => hx (mem_dedupNames.1 c), ih⟩

theorem insLevel_nodup (g : Graph) (n : Name) (l : List Name) (h : l.Nodup) (hn : n ∉ l) :
    (insLevel g n l).Nodup := by
  induction l with
  | nil => simp [insLevel]
  | cons y ys ih =>
    rw [List.nodup_cons] at h
    unfold insLevel
    split
    · rw [List.nodup_cons]
      refine ⟨?_, ih h.2 (fun c => hn (by simp [c]))⟩
      rw [mem_insLevel]
      intro c
      rcases c with c | c
      · exact hn (by simp [c])
      · exact h.1 c
    · rw [List.nodup_cons]
      exact ⟨hn, List.nodup_cons.2 h⟩

theorem byLevel_nodup (g : Graph) (l : List Name) (h : l.Nodup) : (byLevel g l).Nodup := by
  unfold byLevel
  have : ∀ (acc : List Name), acc.Nodup → (∀ a ∈ acc, a ∉ l) →
      (l.foldl (fun acc n => insLevel g n acc) acc).Nodup := by
    induction l with
    | nil => intro acc ha _; exact ha
    | cons y ys ih =>
      rw [List.nodup_cons] at h
      intro acc ha hd
      simp only [List.foldl_cons]
      apply ih h.2
      · exact insLevel_nodup g y acc ha (fun c => hd y c (by simp))
      · intro a ha'
        rw [mem_insLevel] at ha'
        rcases ha' with c | c
        · subst c; exact h.1
        · exact fun c' => hd a c (by simp [c'])
  exact this [] (by simp) (by simp)

theorem putJob_other (g : Graph) (s : St) (x y : Name) (h : y ≠ x) :
    (putJob g s x).node y = s.node y := by
  simp [putJob, setNode_other _ _ _ _ h]

theorem keysOf_congr (g : Graph) (s s' : St) (y : Name) (h : s'.node y = s.node y) :
    keysOf g s' y = keysOf g s y := by
  unfold keysOf; rw [h]

theorem flatMap_congr' {α β : Type} {l : List α} {f f' : α → List β} (h : ∀ a ∈ l, f a = f' a) :
    l.flatMap f = l.flatMap f' := by
  induction l with
  | nil => rfl
  | cons x xs ih =>
    simp only [List.flatMap_cons]
    rw [h x (by simp), ih (fun a ha => h a (by simp [ha]))]

theorem releaseAll_msgs (g : Graph) (q : List Name) (s : St) : (releaseAll g s q).1.msgs = s.msgs := by
  induction q generalizing s with
  | nil => rfl
  | cons x xs ih => simp only [releaseAll]; rw [ih]; rfl

/-- the keys of the messages queued by the `_jobs` loop, in order -/
theorem foldl_putJob_msgs (g : Graph) (js : List Name) (s : St) (hn : js.Nodup) :
    (js.foldl (putJob g) s).msgs.map Msg.key = s.msgs.map Msg.key ++ js.flatMap (keysOf g s) := by
  induction js generalizing s with
  | nil => simp
  | cons x xs ih =>
    rw [List.nodup_cons] at hn
    simp only [List.foldl_cons, List.flatMap_cons]
    rw [ih (putJob g s x) hn.2]
    have h1 : (putJob g s x).msgs.map Msg.key = s.msgs.map Msg.key ++ keysOf g s x := by
      simp only [putJob, List.map_append, putMsgs_keys]
    rw [h1, List.append_assoc]
    congr 2
    apply flatMap_congr'
    intro y hy
    exact keysOf_congr g s _ y (putJob_other g s x y (fun c => hn.1 (c ▸ hy)))

theorem releaseAll_do_nodup (g : Graph) (s : St) (q : List Name) (h : ∀ n, (s.node n).do_.Nodup) :
    ∀ n, ((releaseAll g s q).1.node n).do_.Nodup := by
  induction q generalizing s with
  | nil => exact h
  | cons x xs ih =>
    simp only [releaseAll]
    apply ih
    intro n
    unfold releaseJob
    dsimp only
    by_cases hx : n = x
    · subst hx; simp only [setNode_same]; exact updU_nodup (h n)
    · rw [setNode_other _ _ _ _ hx]; exact h n

theorem keysOf_fst (g : Graph) (s : St) (x : Name) (p : Name × Target) (h : p ∈ keysOf g s x) :
    p.1 = x := by
  unfold keysOf at h
  split at h
  · simp at h; rw [h]
  · simp at h; obtain ⟨_, _, h⟩ := h; rw [← h]

/-- **One message per released unit.**  In a state reached by a protocol-conforming history the
    task messages a dispatch queues are, by (job, target), exactly the released units, each once. -/
theorem dispatch_messages (g : Graph) (s : St) (hi : Inv s) (h2 : Inv2 g s) :
    ∃ keys : List (Name × Target),
      (dispatch g s).1.msgs.map Msg.key = s.msgs.map Msg.key ++ keys ∧
      (∀ p, p ∈ keys ↔ p ∈ (dispatch g s).2) ∧ keys.Nodup := by
  unfold dispatch
  split
  · exact ⟨[], by simp, by simp, by simp⟩
  · have hr := releaseAll_rel g s s.que
    have hdn := releaseAll_do_nodup g s s.que (fun n => by rw [hi.de n]; simp)
    have h2' := releaseAll_inv2 g s s.que h2
    have hm := releaseAll_msgs g s.que s
    generalize releaseAll g s s.que = r at hr hdn h2' hm
    obtain ⟨s1, rel⟩ := r
    dsimp only at hr hdn h2' hm ⊢
    have hjn : (byLevel g (dedupNames (rel.map (·.1)))).Nodup :=
      byLevel_nodup g _ (dedupNames_nodup _)
    have hjobs : ∀ n, n ∈ byLevel g (dedupNames (rel.map (·.1))) ↔ ∃ t, (n, t) ∈ rel := by
      intro n; rw [mem_byLevel, mem_dedupNames]; simp
    generalize byLevel g (dedupNames (rel.map (·.1))) = js at hjn hjobs
    have hkeys := foldl_putJob_msgs g js s1 hjn
    rw [hm] at hkeys
    -- what `do` holds after the releases: exactly the released targets
    have hdo : ∀ n t, t ∈ (s1.node n).do_ ↔ (n, t) ∈ rel := by
      intro n t; rw [hr.do_, hi.de n]; simp
    -- released units of an analysis carry the marker
    have hrelA : ∀ n t, (n, t) ∈ rel → g.kind n = .analysis → t = ALL := by
      intro n t hnt hk
      exact (h2'.ka n hk).2 t ((hr.doing n t).2 (Or.inr hnt))
    have hmemK : ∀ n t, (n, t) ∈ keysOf g s1 n ↔ (n ∈ js ∧ (n, t) ∈ rel) ∨
        (g.kind n = .analysis ∧ t = ALL) := by
      intro n t
      unfold keysOf
      cases hk : g.kind n
      · simp [hdo, hjobs]; intro h; exact ⟨t, h⟩
      · simp
        intro _ h
        exact hrelA n t h hk
      · simp [hdo, hjobs]; intro h; exact ⟨t, h⟩
    refine ⟨js.flatMap (keysOf g s1), hkeys, ?_, ?_⟩
    · intro p
      obtain ⟨n, t⟩ := p
      rw [List.mem_flatMap]
      constructor
      · rintro ⟨x, hx, hp⟩
        have hfst : n = x := keysOf_fst g s1 x (n, t) hp
        subst hfst
        rcases (hmemK n t).1 hp with ⟨_, h⟩ | ⟨hk, ht⟩
        · exact h
        · obtain ⟨u, hu⟩ := (hjobs n).1 hx
          have := hrelA n u hu hk
          rw [ht, ← this]; exact hu
      · intro hp
        have hx : n ∈ js := (hjobs n).2 ⟨t, hp⟩
        exact ⟨n, hx, (hmemK n t).2 (Or.inl ⟨hx, hp⟩)⟩
    · rw [List.Nodup, List.pairwise_flatMap]
      refine ⟨?_, ?_⟩
      · intro x _
        unfold keysOf
        cases g.kind x
        · exact List.Pairwise.map _ (fun a b hab => by simpa using hab) (hdn x)
        · simp
        · exact List.Pairwise.map _ (fun a b hab => by simpa using hab) (hdn x)
      · refine List.Pairwise.imp_of_mem ?_ hjn
        intro a b _ _ hab p hp q hq
        have h1 : p.1 = a := keysOf_fst g s1 a p hp
        have h2 : q.1 = b := keysOf_fst g s1 b q hq
        intro c
        rw [c] at h1
        exact hab (h1.symm.trans h2)


theorem dispatch_inflight (g : Graph) (s : St) :
    (dispatch g s).1.inflight = s.inflight ++ (dispatch g s).2 := by
  unfold dispatch
  split
  · simp
  · dsimp only
    rw [(foldl_putJob_spec g _ _).2.1, (releaseAll_rel g s s.que).inflight]

theorem update_chron (g : Graph) (s : St) (x : Name) (t : Target) (rid : Nat) (news : List Val)
    (ne : Bool) : (update g s x t rid news ne).chron = s.chron := by
  unfold update
  split
  · rfl
  · dsimp only; split <;> rfl

theorem update_inflight (g : Graph) (s : St) (x : Name) (t : Target) (rid : Nat) (news : List Val)
    (ne : Bool) : (update g s x t rid news ne).inflight = s.inflight := by
  unfold update
  split
  · rfl
  · dsimp only; split <;> rfl

end DawgieVerif.Sched
