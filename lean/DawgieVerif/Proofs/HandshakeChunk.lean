import DawgieVerif.Proofs.Handshake
import DawgieVerif.Props.C14

namespace DawgieVerif.Handshake
open DawgieVerif.Frame

/-- equal, or both closed with the same observable record (what was delivered, what was sent,
    whether the handshake had completed) -/
def Eqv (s t : St) : Prop :=
  s = t ∨ (s.closed = true ∧ t.closed = true ∧ s.restored = t.restored ∧ s.structErr = t.structErr ∧
           s.sent = t.sent ∧ s.delivered = t.delivered ∧ s.inner = t.inner)

theorem Eqv.refl (s : St) : Eqv s s := Or.inl rfl

theorem Eqv.trans {a b c : St} (h1 : Eqv a b) (h2 : Eqv b c) : Eqv a c := by
  rcases h1 with h1 | h1
  · subst h1; exact h2
  · rcases h2 with h2 | h2
    · subst h2; exact Or.inr h1
    · obtain ⟨a1, a2, a3, a4, a5, a6, a7⟩ := h1
      obtain ⟨b1, b2, b3, b4, b5, b6, b7⟩ := h2
      exact Or.inr ⟨a1, b2, a3.trans b3, a4.trans b4, a5.trans b5, a6.trans b6, a7.trans b7⟩

theorem feedT_eqv (e : Env) {s t : St} (h : Eqv s t) (x : Bytes) : Eqv (feedT e s x) (feedT e t x) := by
  rcases h with h | h
  · subst h; exact Eqv.refl _
  · have hs : feedT e s x = s := by simp [feedT, h.1]
    have ht : feedT e t x = t := by simp [feedT, h.2.1]
    rw [hs, ht]; exact Or.inr h

theorem feedAllT_eqv (e : Env) {s t : St} (h : Eqv s t) (cs : List Bytes) :
    Eqv (feedAllT e s cs) (feedAllT e t cs) := by
  induction cs generalizing s t with
  | nil => exact h
  | cons c cs ih => exact ih (feedT_eqv e h c)

theorem run_lt (e : Env) (s : St) (h : ¬ s.len ≤ s.buf.length) : run e s = s := by
  rw [run]; simp [h]

/-- in every phase but a successful phase 5 the buffer is passive: the phase method neither
    reads nor writes it -/
theorem phaseFn_buf (e : Env) (s : St) (d b : Bytes)
    (h : s.phase ≠ .p5 ∨ (phaseFn e s d).2 ≠ .ok) :
    phaseFn e { s with buf := b } d = ({ (phaseFn e s d).1 with buf := b }, (phaseFn e s d).2) := by
  obtain ⟨buf, len, phase, restored, closed, structErr, sent, inner, delivered⟩ := s
  cases phase <;> simp only [phaseFn] at h ⊢
  · split <;> rfl
  · split <;> rfl
  · split <;> rfl
  · split <;> rfl
  · split
    · rename_i hv
      simp [hv] at h
    · rfl


theorem run_ok (e : Env) (s s2 : St) (hle : s.len ≤ s.buf.length)
    (hp : phaseFn e { s with buf := s.buf.drop s.len } (s.buf.take s.len) = (s2, .ok)) :
    run e s = run e s2 := by
  rw [run]; simp only [hle, dite_true]; split
  next s2' heq => rw [hp] at heq; simp only [Prod.mk.injEq, and_true] at heq; subst heq; rfl
  next s2' heq => rw [hp] at heq; simp at heq
  next s2' heq => rw [hp] at heq; simp at heq

theorem run_fail (e : Env) (s s2 : St) (hle : s.len ≤ s.buf.length)
    (hp : phaseFn e { s with buf := s.buf.drop s.len } (s.buf.take s.len) = (s2, .fail)) :
    run e s = { s2 with closed := true, len := s2.buf.length + 1 } := by
  rw [run]; simp only [hle, dite_true]; split
  next s2' heq => rw [hp] at heq; simp at heq
  next s2' heq => rw [hp] at heq; simp only [Prod.mk.injEq, and_true] at heq; subst heq; rfl
  next s2' heq => rw [hp] at heq; simp at heq

theorem run_exc (e : Env) (s s2 : St) (hle : s.len ≤ s.buf.length)
    (hp : phaseFn e { s with buf := s.buf.drop s.len } (s.buf.take s.len) = (s2, .exc)) :
    run e s = { s2 with closed := true, structErr := true } := by
  rw [run]; simp only [hle, dite_true]; split
  next s2' heq => rw [hp] at heq; simp at heq
  next s2' heq => rw [hp] at heq; simp at heq
  next s2' heq => rw [hp] at heq; simp only [Prod.mk.injEq, and_true] at heq; subst heq; rfl

/-- what the phase methods leave alone -/
theorem phaseFn_keeps (e : Env) (s : St) (d : Bytes) :
    (phaseFn e s d).1.closed = s.closed ∧ (phaseFn e s d).1.structErr = s.structErr ∧
    (s.phase ≠ .p5 ∨ (phaseFn e s d).2 ≠ .ok →
      (phaseFn e s d).1.buf = s.buf ∧ (phaseFn e s d).1.restored = s.restored ∧
      (phaseFn e s d).1.inner = s.inner ∧ (phaseFn e s d).1.delivered = s.delivered) := by
  obtain ⟨buf, len, phase, restored, closed, structErr, sent, inner, delivered⟩ := s
  cases phase <;> simp only [phaseFn]
  · split <;> simp
  · split <;> simp
  · split <;> simp
  · split <;> simp
  · split
    · rename_i hv; simp [hv]
    · simp
  · simp

theorem phaseFn_sent_buf (e : Env) (s : St) (d b : Bytes) :
    (phaseFn e { s with buf := b } d).1.sent = (phaseFn e s d).1.sent ∧
    (phaseFn e { s with buf := b } d).2 = (phaseFn e s d).2 := by
  obtain ⟨buf, len, phase, restored, closed, structErr, sent, inner, delivered⟩ := s
  cases phase <;> simp only [phaseFn]
  · split <;> simp
  · split <;> simp
  · split <;> simp
  · split <;> simp
  · split <;> simp
  · simp


/-- Bytes that arrive after the loop has stopped give the same result as if they had been there
    from the start (up to what a closed connection still holds in its buffer). -/
theorem run_append (e : Env) (hnil : e.verify [] = false) (x : Bytes) (s : St)
    (hc : s.closed = false) (hr : s.restored = false) :
    Eqv (feedT e (run e s) x) (run e { s with buf := s.buf ++ x }) := by
  induction s using run.induct e with
  | case1 s hle s2 hph ih =>
    -- the phase method succeeded
    have hle' : s.len ≤ (s.buf ++ x).length := by simp; omega
    have htake : (s.buf ++ x).take s.len = s.buf.take s.len := List.take_append_of_le_length hle
    have hdrop : (s.buf ++ x).drop s.len = s.buf.drop s.len ++ x := List.drop_append_of_le_length hle
    rw [run_ok e s s2 hle hph]
    by_cases hp5 : s.phase = .p5
    · -- phase 5 succeeded: the tail goes to the wrapped protocol, in one piece or in two
      have hv : (e.verify (s.buf.take s.len) && (e.decrypt (s.buf.take s.len) == e.challenge)) = true := by
        unfold phaseFn at hph
        simp only [hp5] at hph
        split at hph
        · assumption
        · simp at hph
      have hlen : 1 ≤ s.len := by
        cases hl : s.len with
        | zero =>
          rw [hl] at hv
          simp [hnil] at hv
        | succ n => omega
      have hs2 : s2 = { s with buf := [], restored := true, phase := .p6, inner := (Frame.feed s.inner (s.buf.drop s.len)).1, delivered := s.delivered ++ (Frame.feed s.inner (s.buf.drop s.len)).2 } := by
        unfold phaseFn at hph
        simp only [hp5, hv, if_true, Prod.mk.injEq, and_true] at hph
        exact hph.symm
      have hstop : run e s2 = s2 := by
        apply run_lt; rw [hs2]; simp; omega
      rw [hstop]
      have hph' : phaseFn e { s with buf := s.buf.drop s.len ++ x } (s.buf.take s.len) =
          ({ s with buf := [], restored := true, phase := .p6, inner := (Frame.feed s.inner (s.buf.drop s.len ++ x)).1, delivered := s.delivered ++ (Frame.feed s.inner (s.buf.drop s.len ++ x)).2 }, .ok) := by
        unfold phaseFn
        simp only [hp5, hv, if_true]
      have hrhs : run e { s with buf := s.buf ++ x } =
          { s with buf := [], restored := true, phase := .p6, inner := (Frame.feed s.inner (s.buf.drop s.len ++ x)).1, delivered := s.delivered ++ (Frame.feed s.inner (s.buf.drop s.len ++ x)).2 } := by
        rw [run_ok e { s with buf := s.buf ++ x } _ hle' (by
          show phaseFn e { s with buf := (s.buf ++ x).drop s.len } ((s.buf ++ x).take s.len) = _
          rw [htake, hdrop]; exact hph')]
        apply run_lt; simp; omega
      rw [hrhs, hs2]
      left
      simp only [feedT, hc, Bool.false_eq_true, if_false, if_true]
      have := C14.feed_append s.inner (s.buf.drop s.len) x
      rw [this]
      simp [List.append_assoc]
    · -- any other phase: the buffer is passive
      have hk := (phaseFn_keeps e { s with buf := s.buf.drop s.len } (s.buf.take s.len)).2.2 (Or.inl hp5)
      have hkc := (phaseFn_keeps e { s with buf := s.buf.drop s.len } (s.buf.take s.len)).1
      rw [hph] at hk hkc
      simp only at hk hkc
      have hb := phaseFn_buf e { s with buf := s.buf.drop s.len } (s.buf.take s.len)
        (s.buf.drop s.len ++ x) (Or.inl hp5)
      rw [hph] at hb
      simp only at hb
      have hrhs : run e { s with buf := s.buf ++ x } = run e { s2 with buf := s2.buf ++ x } := by
        rw [run_ok e { s with buf := s.buf ++ x } { s2 with buf := s.buf.drop s.len ++ x } hle' (by
          show phaseFn e { s with buf := (s.buf ++ x).drop s.len } ((s.buf ++ x).take s.len) = _
          rw [htake, hdrop]; exact hb)]
        rw [hk.1]
      rw [hrhs]
      exact ih (by rw [hkc]; exact hc) (by rw [hk.2.1]; exact hr)
  | case2 s hle s2 hph =>
    -- the phase method failed: the connection is closed, later bytes are not looked at
    have hle' : s.len ≤ (s.buf ++ x).length := by simp; omega
    have htake : (s.buf ++ x).take s.len = s.buf.take s.len := List.take_append_of_le_length hle
    have hdrop : (s.buf ++ x).drop s.len = s.buf.drop s.len ++ x := List.drop_append_of_le_length hle
    have hne : (phaseFn e { s with buf := s.buf.drop s.len } (s.buf.take s.len)).2 ≠ .ok := by
      rw [hph]; simp
    have hb := phaseFn_buf e { s with buf := s.buf.drop s.len } (s.buf.take s.len)
      (s.buf.drop s.len ++ x) (Or.inr hne)
    rw [hph] at hb
    simp only at hb
    rw [run_fail e s s2 hle hph]
    rw [run_fail e { s with buf := s.buf ++ x } { s2 with buf := s.buf.drop s.len ++ x } hle' (by
      show phaseFn e { s with buf := (s.buf ++ x).drop s.len } ((s.buf ++ x).take s.len) = _
      rw [htake, hdrop]; exact hb)]
    right
    simp [feedT]
  | case3 s hle s2 hph =>
    have hle' : s.len ≤ (s.buf ++ x).length := by simp; omega
    have htake : (s.buf ++ x).take s.len = s.buf.take s.len := List.take_append_of_le_length hle
    have hdrop : (s.buf ++ x).drop s.len = s.buf.drop s.len ++ x := List.drop_append_of_le_length hle
    have hne : (phaseFn e { s with buf := s.buf.drop s.len } (s.buf.take s.len)).2 ≠ .ok := by
      rw [hph]; simp
    have hb := phaseFn_buf e { s with buf := s.buf.drop s.len } (s.buf.take s.len)
      (s.buf.drop s.len ++ x) (Or.inr hne)
    rw [hph] at hb
    simp only at hb
    rw [run_exc e s s2 hle hph]
    rw [run_exc e { s with buf := s.buf ++ x } { s2 with buf := s.buf.drop s.len ++ x } hle' (by
      show phaseFn e { s with buf := (s.buf ++ x).drop s.len } ((s.buf ++ x).take s.len) = _
      rw [htake, hdrop]; exact hb)]
    right
    simp [feedT]
  | case4 s hle =>
    rw [run_lt e s hle]
    left
    simp [feedT, hc, hr]


/-- a state between two `dataReceived` calls: closed, or handed over to a settled wrapped
    protocol, or waiting for more handshake bytes -/
def Settled (s : St) : Prop :=
  s.closed = true ∨ (s.restored = true ∧ Frame.Stable s.inner) ∨
    (s.restored = false ∧ s.closed = false ∧ ¬ s.len ≤ s.buf.length)

theorem settled_init : Settled init := by
  right; right; simp [init]

theorem run_settled (e : Env) (s : St) (hin : s.restored = true → Frame.Stable s.inner) :
    Settled (run e s) := by
  induction s using run.induct e with
  | case1 s hle s2 hph ih =>
    rw [run_ok e s s2 hle hph]
    apply ih
    intro hr2
    by_cases hp5 : s.phase = .p5
    · unfold phaseFn at hph
      simp only [hp5] at hph
      split at hph
      · simp only [Prod.mk.injEq, and_true] at hph
        rw [← hph]
        exact Frame.feed_stable _ _
      · simp at hph
    · have hk := (phaseFn_keeps e { s with buf := s.buf.drop s.len } (s.buf.take s.len)).2.2 (Or.inl hp5)
      rw [hph] at hk
      simp only at hk
      rw [hk.2.2.1]
      exact hin (by rw [← hk.2.1]; exact hr2)
  | case2 s hle s2 hph => rw [run_fail e s s2 hle hph]; left; rfl
  | case3 s hle s2 hph => rw [run_exc e s s2 hle hph]; left; rfl
  | case4 s hle =>
    rw [run_lt e s hle]
    cases hc : s.closed
    · cases hr : s.restored
      · right; right; exact ⟨hr, hc, hle⟩
      · right; left; exact ⟨hr, hin hr⟩
    · left; exact hc

theorem feedT_settled (e : Env) (s : St) (h : Settled s) (x : Bytes) : Settled (feedT e s x) := by
  unfold feedT
  split
  · exact h
  · rename_i hc
    split
    · right; left
      exact ⟨by assumption, Frame.feed_stable _ _⟩
    · rename_i hr
      apply run_settled
      intro hr'
      simp only at hr'
      exact absurd hr' hr

theorem feedT_nil (e : Env) (s : St) (h : Settled s) : feedT e s [] = s := by
  obtain ⟨buf, len, phase, restored, closed, structErr, sent, inner, delivered⟩ := s
  unfold feedT
  rcases h with h | ⟨h1, h2⟩ | ⟨h1, h2, h3⟩
  · simp only at h; subst h; simp
  · simp only at h1 h2
    subst h1
    cases closed
    · have : Frame.feed inner [] = (inner, []) := by
        unfold Frame.feed; simp; exact h2
      simp [this]
    · simp
  · simp only at h1 h2 h3
    subst h1; subst h2
    simp only [Bool.false_eq_true, if_false, List.append_nil]
    exact run_lt e _ h3

/-- two consecutive `dataReceived` calls behave like one call with the concatenation -/
theorem feedT_merge (e : Env) (hnil : e.verify [] = false) (s : St) (h : Settled s) (a b : Bytes) :
    Eqv (feedT e (feedT e s a) b) (feedT e s (a ++ b)) := by
  cases hc : s.closed
  · cases hr : s.restored
    · -- still shaking hands
      have h1 : feedT e s a = run e { s with buf := s.buf ++ a } := by simp [feedT, hc, hr]
      have h2 : feedT e s (a ++ b) = run e { s with buf := s.buf ++ a ++ b } := by
        simp [feedT, hc, hr, List.append_assoc]
      rw [h1, h2]
      exact run_append e hnil b { s with buf := s.buf ++ a } hc hr
    · -- handed over: the frame loop of the wrapped protocol
      left
      simp only [feedT, hc, hr, Bool.false_eq_true, if_false, if_true]
      rw [C14.feed_append s.inner a b]
      simp [List.append_assoc]
  · left; simp [feedT, hc]

theorem feedAllT_flatten (e : Env) (hnil : e.verify [] = false) (s : St) (h : Settled s)
    (chunks : List Bytes) : Eqv (feedAllT e s chunks) (feedT e s chunks.flatten) := by
  induction chunks generalizing s with
  | nil => simp only [feedAllT, List.flatten_nil]; rw [feedT_nil e s h]; exact Eqv.refl s
  | cons c cs ih =>
    simp only [feedAllT, List.flatten_cons]
    exact (ih (feedT e s c) (feedT_settled e s h c)).trans (feedT_merge e hnil s h c cs.flatten)

end DawgieVerif.Handshake
