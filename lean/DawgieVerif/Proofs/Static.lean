/-
Helper lemmas for C19 (static file service): what the root loop of `_static` establishes.
-/
import DawgieVerif.Model.Static

namespace DawgieVerif.Static

variable {Root Req Path : Type}

/-- The loop leaves with `valid = True` only on a candidate that passed the containment check
    of the very root it was resolved against, and was a file. -/
theorem scan_found (w : World Root Req Path) (fn : Req) (roots : List Root) (last : Option Path)
    (p : Path) (h : scan w fn roots last = .found p) :
    ∃ d ∈ roots, candidate w d fn = .ok p ∧ w.within p d = true ∧ w.isFile p = some true := by
  induction roots generalizing last with
  | nil => simp [scan] at h
  | cons d ds ih =>
    unfold scan at h
    cases hc : candidate w d fn with
    | raised => simp [hc] at h
    | failed =>
      simp only [hc] at h
      obtain ⟨d', hd', r⟩ := ih _ h
      exact ⟨d', List.mem_cons_of_mem _ hd', r⟩
    | ok ffn =>
      simp only [hc] at h
      by_cases hw : w.within ffn d = true
      · simp only [hw, if_true] at h
        cases hf : w.isFile ffn with
        | none => simp [hf] at h
        | some b =>
          cases b with
          | true =>
            simp only [hf] at h
            have hp : ffn = p := by injection h
            subst hp
            exact ⟨d, List.mem_cons_self, hc, hw, hf⟩
          | false =>
            simp only [hf] at h
            obtain ⟨d', hd', r⟩ := ih _ h
            exact ⟨d', List.mem_cons_of_mem _ hd', r⟩
      · simp only [hw] at h
        obtain ⟨d', hd', r⟩ := ih _ h
        exact ⟨d', List.mem_cons_of_mem _ hd', r⟩

/-- `static` serves exactly what the loop found, after a second `is_file`. -/
theorem static_served (w : World Root Req Path) (roots : List Root) (fn : Req) (p : Path)
    (h : static w roots fn = .served p) :
    scan w fn roots none = .found p ∧ w.isFileAgain p = some true := by
  unfold static at h
  cases hs : scan w fn roots none with
  | raised => simp [hs] at h
  | found q =>
    simp only [hs] at h
    cases hf : w.isFileAgain q with
    | none => simp [hf] at h
    | some b =>
      cases b with
      | true =>
        simp only [hf] at h
        have : q = p := by injection h
        subst this
        exact ⟨rfl, hf⟩
      | false => simp [hf] at h
  | exhausted last =>
    cases last with
    | none => simp [hs] at h
    | some q => simp [hs] at h

/-- When the first root already holds a file for the request it is the one served. -/
theorem scan_first_hit (w : World Root Req Path) (fn : Req) (d : Root) (ds : List Root)
    (last : Option Path) (p : Path) (hc : candidate w d fn = .ok p)
    (hw : w.within p d = true) (hf : w.isFile p = some true) :
    scan w fn (d :: ds) last = .found p := by
  simp [scan, hc, hw, hf]

/-- a candidate is something `resolve` or `resolveIndex` returned -/
theorem candidate_canonical (w : World Root Req Path) (t : Truth Root Path)
    (hc : ResolveCanonical w t) (d : Root) (fn : Req) (p : Path)
    (h : candidate w d fn = .ok p) : t.real p = p := by
  unfold candidate at h
  cases hr : w.resolve d fn with
  | failed => simp [hr] at h
  | raised => simp [hr] at h
  | ok ffn =>
    simp only [hr] at h
    cases hd : w.isDir ffn with
    | failed => simp [hd] at h
    | raised => simp [hd] at h
    | ok b =>
      cases b with
      | true =>
        simp only [hd] at h
        exact hc.2 ffn p h
      | false =>
        simp only [hd] at h
        have : ffn = p := by injection h
        subst this
        exact hc.1 d fn ffn hr

/-- World of the CPython 3.12 quirk with a NON-strict resolve:
    `(fe / 'loop/../out').resolve()` gives `fe/out` (path 0), still a symlink to `/SECRET`
    (path 1). -/
def quirk : World Nat Nat Nat where
  resolve _ _ := .ok 0
  isDir _ := .ok false
  resolveIndex _ := .failed
  join _ _ := 9
  within p _ := p == 0
  isFile _ := some true
  isFileAgain _ := some true

def quirkTruth : Truth Nat Nat where
  real _ := 1
  inside _ _ := false

/-- A small concrete world for the non-vacuity examples of `Props/C19.lean`.
Paths: 0 = fe/index.html, 1 = fe/sub (dir), 2 = /outside/secret, 3 = site/a.css; roots 0 = fe,
1 = site.  Requests: 0 = "/", 1 = "/sub", 2 = "/../secret", 3 = "/a.css", 4 = "/missing".
`fe/sub/index.html` is a symlink to `/outside/secret`. -/
def demo : World Nat Nat Nat where
  resolve d fn := match d, fn with
    | 0, 0 => .ok 0 | 0, 1 => .ok 1 | _, 2 => .ok 2 | 1, 3 => .ok 3 | _, _ => .failed
  isDir p := .ok (p == 1)
  resolveIndex p := if p == 1 then .ok 2 else .failed
  join d fn := 100 + 10 * d + fn
  within p d := (d == 0 && (p == 0 || p == 1)) || (d == 1 && p == 3)
  isFile p := some (p == 0 || p == 2 || p == 3)
  isFileAgain p := some (p == 0 || p == 2 || p == 3)

end DawgieVerif.Static
