/-
C20 helper lemmas, part C: the designated moment is stable while the clock approaches it, a
pipeline with a single timed event (first firing through its own timer), boot events, and the
full-strength recurrence statement with its counter-example.
-/
import DawgieVerif.Proofs.DelayB
namespace DawgieVerif.Delay
open DawgieVerif.Cal
open DawgieVerif.Generated.Timer

/-! ### the designated moment does not move while the clock approaches it -/

theorem year_mono {z z' : Int} (h : z ≤ z') : (civilFromDays z).year ≤ (civilFromDays z').year := by
  have ⟨a, _⟩ := yearOf_spec z
  exact le_year_of_le (z := z') (y := (civilFromDays z).year) (by show daysBeforeYear (yearOf z) ≤ z'; omega)

theorem instant_split (t : Int) : t = dayOf t * usPerDay + timeOfDay t := by
  unfold dayOf timeOfDay usPerDay; omega

theorem TimeOfDay.us_bounds {t : TimeOfDay} (h : TimeOK t) : 0 ≤ t.us ∧ t.us ≤ 86399 * usPerSecond := by
  have := h.bounds
  unfold TimeOfDay.us usPerSecond; omega

theorem dow_stable {now t1 : Int} {m : Moment} {w : Int} {t : TimeOfDay} {th : Int}
    (h1 : m.day = none) (h2 : m.dom = none) (h3 : m.dow = some w) (h4 : m.time = some t)
    (ht : TimeOK t) (hw : 0 ≤ w ∧ w ≤ 6) (hn : NowOK now) (hn1 : NowOK t1)
    (h : designated now m = .ok th) (hle : now ≤ t1) (hle' : t1 ≤ th + 500000) :
    designated t1 m = .ok th := by
  obtain ⟨th0, e0, a1, a2, a3, a4, _⟩ := dow_spec h1 h2 h3 h4 ht hw hn
  rw [h] at e0; injection e0 with e0; subst e0
  obtain ⟨th1, e1, b1, b2, b3, b4, _⟩ := dow_spec h1 h2 h3 h4 ht hw hn1
  rw [e1]
  have hu := TimeOfDay.us_bounds ht
  have hd1 : dayOf now ≤ dayOf t1 := dayOf_mono hle
  have hd2 : dayOf t1 ≤ dayOf th := by
    have := instant_split th
    unfold dayOf timeOfDay usPerDay usPerSecond at *; omega
  have hday : dayOf th1 = dayOf th := by
    unfold weekday at a1 b1; omega
  have s1 := instant_split th1
  have s2 := instant_split th
  rw [hday, b2] at s1; rw [a2] at s2
  rw [s1, ← s2]

theorem dom_stable {now t1 : Int} {m : Moment} {n : Int} {t : TimeOfDay} {th : Int}
    (h1 : m.day = none) (h2 : m.dom = some n) (h3 : m.dow = none) (h4 : m.time = some t)
    (ht : TimeOK t) (hr : 1 ≤ n ∧ n ≤ 31) (hn : NowOK now) (hn1 : NowOK t1)
    (h : designated now m = .ok th) (hle : now ≤ t1) (hle' : t1 ≤ th + 500000) :
    designated t1 m = .ok th := by
  obtain ⟨th0, e0, a1, a2, a3, a4⟩ := dom_spec h1 h2 h3 h4 ht hr hn
  rw [h] at e0; injection e0 with e0; subst e0
  obtain ⟨th1, e1, b1, b2, b3, b4⟩ := dom_spec h1 h2 h3 h4 ht hr hn1
  rw [e1]
  have hu := TimeOfDay.us_bounds ht
  have hd1 : dayOf now ≤ dayOf t1 := dayOf_mono hle
  have hd2 : dayOf t1 ≤ dayOf th := by
    have := instant_split th
    unfold dayOf timeOfDay usPerDay usPerSecond at *; omega
  -- both are occurrences of day n; each is the first one on or after a day not later than the other
  have occ : ∀ z, (civilFromDays z).day = n →
      validDate (civilFromDays z).year (civilFromDays z).month n = true ∧
      daysFromCivil (civilFromDays z).year (civilFromDays z).month n = z := by
    intro z hz
    have hv := civil_valid z
    have hc := daysFromCivil_civil z
    rw [hz] at hv hc
    exact ⟨hv, hc⟩
  have o0 := occ (dayOf th) a1
  have o1 := occ (dayOf th1) b1
  have le1 := b4 _ _ o0.1 (by rw [o0.2]; exact hd2)
  have le0 := a4 _ _ o1.1 (by rw [o1.2]; omega)
  rw [o0.2] at le1; rw [o1.2] at le0
  have hday : dayOf th1 = dayOf th := by omega
  have s1 := instant_split th1
  have s2 := instant_split th
  rw [hday, b2] at s1; rw [a2] at s2
  rw [s1, ← s2]

/-! ### a pipeline with one timed event -/

/-- one node `g` carrying the single event `ev`, nothing queued, nothing booted -/
def solo (g : String) (asp : Bool) (ev : Event) (T : List String) (st : Status) : Sched :=
  { nodes := [⟨g, asp, 0, st, [], [], [ev], none⟩], per := [g], que := [], booted := [],
    paused := false, targets := T }

theorem solo_wait {g : String} {asp : Bool} {ev : Event} {T : List String} {st : Status} {now th : Int}
    (hst : deferSkips.contains st.name = false) (hb : ev.moment.boot = none)
    (hd : designated now ev.moment = .ok th) (hdue : due (th - now) = false) :
    defer now (solo g asp ev T st) = .ok (solo g asp ev T Status.delayed, some (roundSeconds (th - now))) := by
  have hst' : ¬ st.name ∈ deferSkips := by simpa using hst
  simp [defer, hst', solo, deferNode, getNode, hst, setNode, deferEvent, delay, hb, hd, hdue, prune, minOf,
    bind, Except.bind, pure, Except.pure]

theorem solo_due {g : String} {asp : Bool} {ev : Event} {T : List String} {st : Status} {now th : Int}
    (hst : deferSkips.contains st.name = false) (hb : ev.moment.boot = none)
    (hd : designated now ev.moment = .ok th) (hdue : due (th - now) = true) (hT : asp = true ∨ T ≠ []) :
    ∃ s' timer, defer now (solo g asp ev T st) = .ok (s', timer) ∧ g ∈ s'.que := by
  have hst' : ¬ st.name ∈ deferSkips := by simpa using hst
  have hex : ∃ s' timer, defer now (solo g asp ev T st) = .ok (s', timer) := by
    simp [defer, hst', solo, deferNode, getNode, hst, setNode, deferEvent, delay, hb, hd, hdue, minOf,
      bind, Except.bind, pure, Except.pure]
  obtain ⟨s', timer, h⟩ := hex
  refine ⟨s', timer, h, ?_⟩
  have hn : getNode (solo g asp ev T st) g = some ⟨g, asp, 0, st, [], [], [ev], none⟩ := by
    simp [getNode, solo]
  obtain ⟨n', _, _, q3, q4⟩ := defer_queues (p := ev) rfl h (by simp [solo]) hn hst (by simp)
    (Or.inl ⟨hb, th, hd, hdue⟩) (fun hne => absurd hb hne)
  apply q4
  rcases hT with hT | hT
  · subst hT; simp only [if_true] at q3
    intro hnil; rw [hnil] at q3; cases q3
  · cases asp with
    | true =>
      simp only [if_true] at q3
      intro hnil; rw [hnil] at q3; cases q3
    | false =>
      simp only [Bool.false_eq_true, if_false] at q3
      cases hTT : T with
      | nil => exact absurd hTT hT
      | cons x xs =>
        have := q3 x (by show x ∈ (solo g false ev T st).targets; simp [solo, hTT])
        intro hnil; rw [hnil] at this; cases this

theorem roundSeconds_near (d : Int) :
    d - 500000 ≤ roundSeconds d * usPerSecond ∧ roundSeconds d * usPerSecond ≤ d + 500000 := by
  unfold roundSeconds usPerSecond
  simp only
  split
  · omega
  · split
    · omega
    · split <;> omega

theorem not_due_gt {x : Int} (h : due x = false) : 300000000 < x := by
  simp [due] at h; omega

theorem due_of_le {x : Int} (h : x ≤ 500000) : due x = true := by
  simp [due]; omega

theorem initial_not_skipped : deferSkips.contains Status.initial.name = false := by decide
theorem delayed_not_skipped : deferSkips.contains Status.delayed.name = false := by decide

theorem fired_solo {g : String} {asp : Bool} {ev : Event} {T : List String} {st : Status} {s' : Sched}
    (h : g ∈ s'.que) : (fired (solo g asp ev T st) s').contains g = true := by
  simp [fired, solo, h]

/-- A pipeline whose only timed event is not yet due follows its own timer and queues the
    algorithm when the clock reaches the designated moment (± half a second of rounding); an
    event that is already due is queued at once. -/
theorem first_firing {g : String} {asp : Bool} {ev : Event} {T : List String} {now th horizon : Int}
    (hb : ev.moment.boot = none) (hd : designated now ev.moment = .ok th) (hT : asp = true ∨ T ≠ [])
    (hstab : ∀ t1, now ≤ t1 → t1 ≤ th + 500000 → designated t1 ev.moment = .ok th)
    (hh : now ≤ horizon ∧ th + 500000 ≤ horizon) :
    ∃ t, t ∈ uptime g horizon now (solo g asp ev T Status.initial) ∧
      (t = now ∨ (now < t ∧ th - 500000 ≤ t ∧ t ≤ th + 500000)) := by
  by_cases hdue : due (th - now) = true
  · obtain ⟨s', timer, hdef, hq⟩ := solo_due (g := g) (st := Status.initial) initial_not_skipped hb hd hdue hT
    refine ⟨now, ?_, Or.inl rfl⟩
    rw [uptime, if_neg (by omega), hdef]
    simp only [fired_solo hq, if_true]
    cases timer with
    | none => simp
    | some w => simp only; split <;> simp
  · have hdue' : due (th - now) = false := by simpa using hdue
    have hgt := not_due_gt hdue'
    have hr := roundSeconds_near (th - now)
    have hw : 0 < roundSeconds (th - now) := by unfold usPerSecond at hr; omega
    have hdef := solo_wait (g := g) (asp := asp) (T := T) (st := Status.initial) initial_not_skipped hb hd hdue'
    have hfired : fired (solo g asp ev T Status.initial) (solo g asp ev T Status.delayed) = [] := by
      simp [fired, solo]
    have ht1 : now ≤ now + roundSeconds (th - now) * usPerSecond ∧
        now + roundSeconds (th - now) * usPerSecond ≤ th + 500000 := by
      unfold usPerSecond at *; omega
    have hd1 := hstab _ ht1.1 ht1.2
    have hdue1 : due (th - (now + roundSeconds (th - now) * usPerSecond)) = true :=
      due_of_le (by unfold usPerSecond at *; omega)
    obtain ⟨s', timer, hdef1, hq⟩ := solo_due (g := g) (st := Status.delayed) delayed_not_skipped hb hd1 hdue1 hT
    refine ⟨now + roundSeconds (th - now) * usPerSecond, ?_, Or.inr ⟨by unfold usPerSecond at *; omega,
      by unfold usPerSecond at *; omega, ht1.2⟩⟩
    rw [uptime, if_neg (by omega), hdef]
    simp only [hfired, List.contains_nil, Bool.false_eq_true, if_false, List.foldl_nil, if_pos hw, List.nil_append]
    rw [uptime, if_neg (by omega), hdef1]
    have hf : (fired (solo g asp ev T Status.delayed) s').contains g = true := fired_solo hq
    simp only [hf, if_true]
    cases timer with
    | none => simp
    | some w => simp only; split <;> simp

/-! ### boot events -/

/-- successive `_delay` evaluations of one event at the clock readings `ts`, threading `booted` -/
def evaluations (ev : Event) : List Int → List Event → List (Except Err Int)
  | [], _ => []
  | t :: ts, b => (delay t b ev).1 :: evaluations ev ts (delay t b ev).2

theorem evaluations_booted {ev : Event} (hb : ev.moment.boot ≠ none) (ts : List Int) :
    ∀ b, ev ∈ b → evaluations ev ts b = ts.map (fun _ => .error .notKnowable) := by
  induction ts with
  | nil => intro b _; rfl
  | cons t ts ih =>
    intro b hin
    cases hbo : ev.moment.boot with
    | none => exact absurd hbo hb
    | some v =>
      have h1 : delay t b ev = (.error .notKnowable, b) := by simp [delay, hbo, hin]
      simp only [evaluations, h1, List.map_cons]
      rw [ih b hin]

/-! ### recurrence -/

/-- FULL-STRENGTH recurrence clause (false on the current code, see `recurs_fails` in Props/C20):
    while the pipeline stays up, a weekly or monthly event whose units are all answered is queued
    a second time within one further period (63 days covers the longest gap between two
    occurrences of a day-of-month). -/
def Recurs : Prop :=
  ∀ (g : String) (asp : Bool) (ev : Event) (T : List String) (now th horizon : Int),
    Spec ev.moment → ev.moment.boot = none → ev.moment.day = none →
    (1 ≤ (civilFromDays (dayOf now)).year ∧ (civilFromDays (dayOf now)).year ≤ 9990) →
    (asp = true ∨ T ≠ []) → designated now ev.moment = .ok th →
    now ≤ horizon → th + 63 * usPerDay ≤ horizon →
    2 ≤ (uptime g horizon now (solo g asp ev T Status.initial)).length

/-- the witness: a weekly event, Monday 03:00, pipeline booted on Monday 2024-01-01 02:59:00 -/
def weekly : Event := ⟨1, ⟨none, none, none, some 0, some ⟨3, 0, 0⟩⟩⟩
def bootAt : Int := instant 2024 1 1 2 59 0

end DawgieVerif.Delay
