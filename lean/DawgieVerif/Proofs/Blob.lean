/-
Helper lemmas for C07 (content-addressed store).  The invariant `Inv` is shown to hold at
every micro-step boundary of the regenerated update program, by executing each crash prefix
`program.take k` symbolically, and then along every history by induction over the operation list.
-/
import DawgieVerif.Model.Blob
import DawgieVerif.Generated.Blob

namespace DawgieVerif.Blob
open DawgieVerif.Generated.Blob

set_option linter.unusedSectionVars false

variable {K N C : Type} [DecidableEq K] [DecidableEq N]

/-- The store invariant: file names are unique, every stored file is named by the digest of its
    content, every prime value names a stored file, staged names are below the `mkstemp` counter. -/
structure Inv (h : C → N) (s : St K N C) : Prop where
  nodup : (names s).Nodup
  digest : ∀ b ∈ s.store, b.1 = h b.2
  linked : ∀ p ∈ s.prime, p.2 ∈ names s
  below : ∀ f ∈ s.stage, f.1 < s.fresh

theorem inv_init (h : C → N) : Inv h (init : St K N C) := by
  constructor <;> simp [init, names]

/-! ### directory listings -/

theorem mem_rm {A B : Type} [DecidableEq A] {d : List (A × B)} {f : A} {p : A × B} :
    p ∈ rm d f ↔ p ∈ d ∧ p.1 ≠ f := by
  simp [rm]

theorem rm_of_fresh {B : Type} {d : List (Nat × B)} {f : Nat} (hb : ∀ p ∈ d, p.1 < f) :
    rm d f = d := by
  unfold rm
  apply List.filter_eq_self.mpr
  intro p hp
  have := hb p hp
  simp; omega

theorem lookup_put {A B : Type} [DecidableEq A] (d : List (A × B)) (f : A) (b : B) :
    (put d f b).lookup f = some b := by
  simp [put]

theorem map_fst_rm_nodup {A B : Type} [DecidableEq A] {d : List (A × B)} {f : A}
    (hn : (d.map Prod.fst).Nodup) : ((rm d f).map Prod.fst).Nodup := by
  unfold rm
  exact List.Nodup.sublist (List.Sublist.map _ List.filter_sublist) hn

theorem not_mem_fst_rm {A B : Type} [DecidableEq A] (d : List (A × B)) (f : A) :
    f ∉ (rm d f).map Prod.fst := by
  simp [rm]

theorem mem_fst_put {A B : Type} [DecidableEq A] {d : List (A × B)} {f g : A} {b : B}
    (hg : g ∈ d.map Prod.fst) : g ∈ (put d f b).map Prod.fst := by
  simp only [put, List.map_cons, List.mem_cons]
  by_cases hfg : g = f
  · exact Or.inl hfg
  · right
    obtain ⟨p, hp, rfl⟩ := List.mem_map.mp hg
    exact List.mem_map.mpr ⟨p, mem_rm.mpr ⟨hp, hfg⟩, rfl⟩

/-! ### the three disk-changing effects preserve the invariant -/

/-- writing a staged file (mkstemp / dump) below the counter -/
theorem inv_stage {h : C → N} {s : St K N C} (hs : Inv h s) (st : List (Nat × C)) (fr : Nat)
    (hb : ∀ f ∈ st, f.1 < fr) : Inv h { s with stage := st, fresh := fr } :=
  ⟨hs.nodup, hs.digest, hs.linked, hb⟩

/-- renaming a file whose content hashes to `n` into the store under the name `n` -/
theorem inv_rename {h : C → N} {s : St K N C} (hs : Inv h s) (n : N) (body : C) (hn : n = h body)
    (st : List (Nat × C)) (hb : ∀ f ∈ st, f.1 < s.fresh) :
    Inv h { s with stage := st, store := put s.store n body } := by
  refine ⟨?_, ?_, ?_, hb⟩
  · show ((put s.store n body).map Prod.fst).Nodup
    simp only [put, List.map_cons]
    exact List.nodup_cons.mpr ⟨not_mem_fst_rm _ _, map_fst_rm_nodup hs.nodup⟩
  · intro b hb'
    simp only [put, List.mem_cons] at hb'
    rcases hb' with rfl | hb'
    · exact hn
    · exact hs.digest b (mem_rm.mp hb').1
  · intro p hp
    exact mem_fst_put (hs.linked p hp)

/-- recording a prime entry whose value names a stored file -/
theorem inv_record {h : C → N} {s : St K N C} (hs : Inv h s) (key : K) (v : N)
    (hv : v ∈ names s) : Inv h { s with prime := put s.prime key v } := by
  refine ⟨hs.nodup, hs.digest, ?_, hs.below⟩
  intro p hp
  simp only [put, List.mem_cons] at hp
  rcases hp with rfl | hp
  · exact hv
  · exact hs.linked p (mem_rm.mp hp).1

theorem inv_del {h : C → N} {s : St K N C} (hs : Inv h s) (key : K) :
    Inv h { s with prime := rm s.prime key } :=
  ⟨hs.nodup, hs.digest, fun p hp => hs.linked p (mem_rm.mp hp).1, hs.below⟩

theorem inv_purge {h : C → N} {s : St K N C} (hs : Inv h s) (visit : List N) :
    Inv h (purge s visit) := by
  unfold purge
  split
  · exact hs
  · refine ⟨?_, ?_, ?_, hs.below⟩
    · exact List.Nodup.sublist (List.Sublist.map _ List.filter_sublist) hs.nodup
    · intro b hb
      exact hs.digest b (List.mem_filter.mp hb).1
    · intro p hp
      obtain ⟨b, hb, hbe⟩ := List.mem_map.mp (hs.linked p hp)
      refine List.mem_map.mpr ⟨b, List.mem_filter.mpr ⟨hb, ?_⟩, hbe⟩
      simp only [decide_eq_true_eq]
      left
      rw [hbe]
      exact List.mem_map.mpr ⟨p, hp, rfl⟩


/-! ### the regenerated update program, crash prefix by crash prefix -/

@[simp] theorem names_mk (a : List (Nat × C)) (b : List (N × C)) (c : List (K × N)) (d : Nat) :
    names (⟨a, b, c, d⟩ : St K N C) = b.map Prod.fst := rfl

/-- closed form of the disk state after the first `k` micro-steps of the update program
    (proved equal to the interpreter run on `Generated.Blob.program` in `runUpd_closed`) -/
def after (h : C → N) (e : C) (key : K) (c : C) (s : St K N C) (k : Nat) : St K N C :=
  let st1 := (s.fresh, e) :: s.stage
  let st2 := put st1 s.fresh c
  let store' := if h c ∈ names s then s.store else put s.store (h c) c
  match k with
  | 0 => s
  | 1 => ⟨st1, s.store, s.prime, s.fresh + 1⟩
  | 2 | 3 | 4 => ⟨st2, s.store, s.prime, s.fresh + 1⟩
  | 5 => ⟨rm st2 s.fresh, store', s.prime, s.fresh + 1⟩
  | _ => ⟨rm st2 s.fresh, store', put s.prime key (h c), s.fresh + 1⟩

/-- Symbolic execution of every crash prefix of the regenerated program. -/
theorem runUpd_closed (h : C → N) (e : C) (key : K) (c : C) (s : St K N C) (b : Nat) :
    runUpd h e program key c b s
      = (after h e key c s b, if 8 ≤ b then some (decide (h c ∉ names s)) else none) := by
  have hm' : names s = s.store.map Prod.fst := rfl
  rcases b with _|_|_|_|_|_|_|_|b
  all_goals by_cases hm : h c ∈ s.store.map Prod.fst
  all_goals simp [runUpd, program, List.take, runInstrs, exec, lookup_put, act, names_mk, hm, after, hm']

theorem program_length : program.length = 8 := rfl

theorem stage_rm_put {s : St K N C} {h : C → N} (hs : Inv h s) (e c : C) :
    rm (put ((s.fresh, e) :: s.stage) s.fresh c) s.fresh = s.stage := by
  have h1 : rm s.stage s.fresh = s.stage := rm_of_fresh hs.below
  have h2 : rm ((s.fresh, e) :: s.stage) s.fresh = s.stage := by
    rw [← h1]; simp [rm]
  simp only [put, h2]
  rw [← h1]; simp [rm]

theorem stage_put {s : St K N C} {h : C → N} (hs : Inv h s) (e c : C) :
    put ((s.fresh, e) :: s.stage) s.fresh c = (s.fresh, c) :: s.stage := by
  have h1 : rm s.stage s.fresh = s.stage := rm_of_fresh hs.below
  have h2 : rm ((s.fresh, e) :: s.stage) s.fresh = s.stage := by
    rw [← h1]; simp [rm]
  simp only [put, h2]

theorem below_succ {st : List (Nat × C)} {fr : Nat} (hb : ∀ f ∈ st, f.1 < fr) (x : C) :
    ∀ f ∈ (fr, x) :: st, f.1 < fr + 1 := by
  intro f hf
  rcases List.mem_cons.mp hf with rfl | hf
  · exact Nat.lt_succ_self _
  · exact Nat.lt_succ_of_lt (hb f hf)

theorem below_mono {st : List (Nat × C)} {fr : Nat} (hb : ∀ f ∈ st, f.1 < fr) :
    ∀ f ∈ st, f.1 < fr + 1 := fun f hf => Nat.lt_succ_of_lt (hb f hf)

/-- the store after the `place` micro-step: unchanged when the digest name was present,
    otherwise the staged bytes under the digest name -/
theorem inv_placed {h : C → N} {s : St K N C} (hs : Inv h s) (c : C) (st : List (Nat × C)) (fr : Nat)
    (hb : ∀ f ∈ st, f.1 < fr) :
    Inv h ⟨st, if h c ∈ names s then s.store else put s.store (h c) c, s.prime, fr⟩ ∧
      h c ∈ (if h c ∈ names s then s.store else put s.store (h c) c).map Prod.fst := by
  by_cases hm : h c ∈ names s
  · simp only [hm, if_true]
    exact ⟨inv_stage hs st fr hb, hm⟩
  · simp only [hm, if_false]
    have := inv_rename (inv_stage hs st fr hb) (h c) c rfl st hb
    exact ⟨this, by simp [put]⟩

/-- `Inv` holds at every micro-step boundary of an update (hence after a crash anywhere). -/
theorem inv_after {h : C → N} {s : St K N C} (hs : Inv h s) (e : C) (key : K) (c : C) (k : Nat) :
    Inv h (after h e key c s k) := by
  have hst := stage_rm_put hs e c
  have hp := stage_put hs e c
  rcases k with _|_|_|_|_|_|k
  · exact hs
  · exact inv_stage hs _ _ (below_succ hs.below e)
  · simp only [after, hp]; exact inv_stage hs _ _ (below_succ hs.below c)
  · simp only [after, hp]; exact inv_stage hs _ _ (below_succ hs.below c)
  · simp only [after, hp]; exact inv_stage hs _ _ (below_succ hs.below c)
  · simp only [after, hst]; exact (inv_placed hs c _ _ (below_mono hs.below)).1
  · simp only [after, hst]
    obtain ⟨h1, h2⟩ := inv_placed hs c s.stage (s.fresh + 1) (below_mono hs.below)
    exact inv_record h1 key (h c) h2

theorem inv_runUpd {h : C → N} {s : St K N C} (hs : Inv h s) (e : C) (key : K) (c : C) (b : Nat) :
    Inv h (runUpd h e program key c b s).1 := by
  rw [runUpd_closed]; exact inv_after hs e key c b

theorem inv_apply {h : C → N} {s : St K N C} (hs : Inv h s) (e : C) (op : Op K N C) :
    Inv h (apply h e program s op).1 := by
  cases op with
  | upd key c b => exact inv_runUpd hs e key c b
  | del key => exact inv_del hs key
  | purge visit => exact inv_purge hs visit

/-- induction over the operation list: the invariant holds after every history -/
theorem inv_run {h : C → N} (e : C) (ops : List (Op K N C)) :
    ∀ {s : St K N C}, Inv h s → Inv h (run h e program s ops).1 := by
  induction ops with
  | nil => intro s hs; exact hs
  | cons op ops ih => intro s hs; exact ih (inv_apply hs e op)

theorem run_append (h : C → N) (e : C) (prog : List Instr) (a b : List (Op K N C)) (s : St K N C) :
    run h e prog s (a ++ b) =
      ((run h e prog (run h e prog s a).1 b).1,
       (run h e prog s a).2 ++ (run h e prog (run h e prog s a).1 b).2) := by
  induction a generalizing s with
  | nil => simp [run]
  | cons op a ih => simp [run, ih]

theorem run_flags_length (h : C → N) (e : C) (prog : List Instr) (ops : List (Op K N C)) :
    ∀ s : St K N C, (run h e prog s ops).2.length = ops.length := by
  induction ops with
  | nil => intro s; rfl
  | cons op ops ih => intro s; simp [run, ih]

/-! ### staged leftovers -/

theorem stage_after {h : C → N} {s : St K N C} (hs : Inv h s) (e : C) (key : K) (c : C) (k : Nat) :
    (after h e key c s k).stage =
      if k = 0 ∨ 5 ≤ k then s.stage
      else (s.fresh, if k = 1 then e else c) :: s.stage := by
  have hst := stage_rm_put hs e c
  have hp := stage_put hs e c
  have hr : rm ((s.fresh, c) :: s.stage) s.fresh = s.stage := by rw [← hp]; exact hst
  rcases k with _|_|_|_|_|_|k <;> simp [after, hp, hr]

theorem stage_apply_le {h : C → N} {s : St K N C} (hs : Inv h s) (e : C) (op : Op K N C) :
    (apply h e program s op).1.stage.length ≤
      s.stage.length + (if op.crashed program then 1 else 0) := by
  cases op with
  | upd key c b =>
    simp only [apply, runUpd_closed, stage_after hs, Op.crashed, program_length]
    by_cases h0 : b = 0 ∨ 5 ≤ b
    · simp [h0]
    · have : b < 8 := by omega
      simp [h0, this]
  | del key => simp [apply, Op.crashed]
  | purge visit => simp only [apply, Op.crashed]; unfold purge; split <;> simp

theorem stage_run_le {h : C → N} (e : C) (ops : List (Op K N C)) :
    ∀ {s : St K N C}, Inv h s →
      (run h e program s ops).1.stage.length ≤
        s.stage.length + (ops.filter (Op.crashed program)).length := by
  induction ops with
  | nil => intro s _; simp [run]
  | cons op ops ih =>
    intro s hs
    have h1 := ih (inv_apply hs e op)
    have h2 := stage_apply_le hs e op
    simp only [run, List.filter_cons]
    by_cases hc : op.crashed program <;> simp [hc] at h2 ⊢ <;> omega

/-! ### the novelty flag -/

theorem mem_names_iff {h : C → N} (hinj : Function.Injective h) {s : St K N C} (hs : Inv h s) (c : C) :
    h c ∈ names s ↔ c ∈ contents s := by
  simp only [names, contents, List.mem_map]
  constructor
  · rintro ⟨b, hb, hbe⟩
    refine ⟨b, hb, hinj ?_⟩
    rw [← hbe]; exact (hs.digest b hb).symm
  · rintro ⟨b, hb, rfl⟩
    exact ⟨b, hb, hs.digest b hb⟩

end DawgieVerif.Blob
