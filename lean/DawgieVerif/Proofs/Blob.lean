/-
Helper lemmas for C07 (content-addressed store).  The invariant `Inv` is shown to hold at
every micro-step boundary of the regenerated update program in both configurations (staging on
the store's file system / on another one), by executing every crash budget symbolically
(`runUpd_closed`), and then along every history by induction over the operation list.
-/
import DawgieVerif.Model.Blob
import DawgieVerif.Generated.Blob

namespace DawgieVerif.Blob
open DawgieVerif.Generated.Blob

set_option linter.unusedSectionVars false
set_option linter.unusedSimpArgs false

variable {K N C : Type} [DecidableEq K] [DecidableEq N]

/-- The store invariant: file names are unique, every stored file is named by the digest of its
    content, every prime value names a stored file, staged and incoming names are below the
    `mkstemp` counter. -/
structure Inv (h : C → N) (s : St K N C) : Prop where
  nodup : (names s).Nodup
  digest : ∀ b ∈ s.store, b.1 = h b.2
  linked : ∀ p ∈ s.prime, p.2 ∈ names s
  below : ∀ f ∈ s.stage, f.1 < s.fresh
  belowInc : ∀ f ∈ s.incoming, f.1 < s.fresh

theorem inv_init (h : C → N) : Inv h (init : St K N C) := by
  constructor <;> simp [init, names]

/-! ### directory listings -/

theorem mem_rm {A B : Type} [DecidableEq A] {d : List (A × B)} {f : A} {p : A × B} :
    p ∈ rm d f ↔ p ∈ d ∧ p.1 ≠ f := by
  simp [rm]

theorem rm_of_fresh {B : Type} {d : List (Nat × B)} {f : Nat} (hb : ∀ p ∈ d, p.1 < f) :
    rm d f = d := by
  unfold rm
  apply List.filter_eq_self.mpr
  intro p hp
  have := hb p hp
  simp; omega

@[simp] theorem rm_cons_self {A B : Type} [DecidableEq A] (d : List (A × B)) (f : A) (b : B) :
    rm ((f, b) :: d) f = rm d f := by
  simp [rm]

theorem map_fst_rm_nodup {A B : Type} [DecidableEq A] {d : List (A × B)} {f : A}
    (hn : (d.map Prod.fst).Nodup) : ((rm d f).map Prod.fst).Nodup := by
  unfold rm
  exact List.Nodup.sublist (List.Sublist.map _ List.filter_sublist) hn

theorem not_mem_fst_rm {A B : Type} [DecidableEq A] (d : List (A × B)) (f : A) :
    f ∉ (rm d f).map Prod.fst := by
  simp [rm]

theorem mem_fst_put {A B : Type} [DecidableEq A] {d : List (A × B)} {f g : A} {b : B}
    (hg : g ∈ d.map Prod.fst) : g ∈ (put d f b).map Prod.fst := by
  simp only [put, List.map_cons, List.mem_cons]
  by_cases hfg : g = f
  · exact Or.inl hfg
  · right
    obtain ⟨p, hp, rfl⟩ := List.mem_map.mp hg
    exact List.mem_map.mpr ⟨p, mem_rm.mpr ⟨hp, hfg⟩, rfl⟩

/-! ### every boundary state has this shape -/

/-- A state that differs from an invariant state `s` by: staged / incoming files below a larger
    counter, possibly one more stored file named by the digest of its content, possibly one more
    prime entry whose value names a stored file. -/
theorem inv_shape {h : C → N} {s : St K N C} (hs : Inv h s) (c : C) (key : K)
    (st inc : List (Nat × C)) (sto : List (N × C)) (pr : List (K × N)) (fr : Nat) (dir : Bool)
    (h1 : ∀ f ∈ st, f.1 < fr) (h2 : ∀ f ∈ inc, f.1 < fr)
    (h3 : sto = s.store ∨ sto = put s.store (h c) c)
    (h4 : pr = s.prime ∨ (pr = put s.prime key (h c) ∧ h c ∈ sto.map Prod.fst)) :
    Inv h ⟨st, inc, sto, pr, fr, dir⟩ := by
  have hnames : ∀ g ∈ names s, g ∈ sto.map Prod.fst := by
    intro g hg
    rcases h3 with rfl | rfl
    · exact hg
    · exact mem_fst_put hg
  refine ⟨?_, ?_, ?_, h1, h2⟩
  · show (sto.map Prod.fst).Nodup
    rcases h3 with rfl | rfl
    · exact hs.nodup
    · simp only [put, List.map_cons]
      exact List.nodup_cons.mpr ⟨not_mem_fst_rm _ _, map_fst_rm_nodup hs.nodup⟩
  · intro b hb
    rcases h3 with rfl | rfl
    · exact hs.digest b hb
    · simp only [put, List.mem_cons] at hb
      rcases hb with rfl | hb
      · rfl
      · exact hs.digest b (mem_rm.mp hb).1
  · intro p hp
    show p.2 ∈ sto.map Prod.fst
    rcases h4 with rfl | ⟨rfl, hin⟩
    · exact hnames _ (hs.linked p hp)
    · simp only [put, List.mem_cons] at hp
      rcases hp with rfl | hp
      · exact hin
      · exact hnames _ (hs.linked p (mem_rm.mp hp).1)

theorem inv_del {h : C → N} {s : St K N C} (hs : Inv h s) (key : K) :
    Inv h { s with prime := rm s.prime key } :=
  ⟨hs.nodup, hs.digest, fun p hp => hs.linked p (mem_rm.mp hp).1, hs.below, hs.belowInc⟩

theorem inv_purge {h : C → N} {s : St K N C} (hs : Inv h s) (visit : List N) :
    Inv h (purge s visit) := by
  unfold purge
  split
  · exact hs
  · refine ⟨?_, ?_, ?_, hs.below, hs.belowInc⟩
    · exact List.Nodup.sublist (List.Sublist.map _ List.filter_sublist) hs.nodup
    · intro b hb
      exact hs.digest b (List.mem_filter.mp hb).1
    · intro p hp
      obtain ⟨b, hb, hbe⟩ := List.mem_map.mp (hs.linked p hp)
      refine List.mem_map.mpr ⟨b, List.mem_filter.mpr ⟨hb, ?_⟩, hbe⟩
      simp only [decide_eq_true_eq]
      left
      rw [hbe]
      exact List.mem_map.mpr ⟨p, hp, rfl⟩

/-! ### the regenerated update program, crash budget by crash budget -/

@[simp] theorem names_mk (a i : List (Nat × C)) (b : List (N × C)) (c : List (K × N)) (d : Nat) (e : Bool) :
    names (⟨a, i, b, c, d, e⟩ : St K N C) = b.map Prod.fst := rfl

/-- number of micro-steps of an update, by configuration and by whether the digest name exists -/
def steps (xfs ex : Bool) : Nat := if ex then 8 else if xfs then 13 else 10

/-- closed forms of the disk state after `b` micro-steps of the update program (proved equal to
    the interpreter run on `Generated.Blob.program` in `runUpd_closed`): the digest name exists -/
def afterEx (cfg : Cfg N C) (key : K) (c : C) (s : St K N C) : Nat → St K N C
  | 0 => s
  | 1 => ⟨(s.fresh, cfg.e) :: s.stage, s.incoming, s.store, s.prime, s.fresh + 1, s.dir⟩
  | 2 | 3 | 4 => ⟨(s.fresh, c) :: s.stage, s.incoming, s.store, s.prime, s.fresh + 1, s.dir⟩
  | 5 => ⟨s.stage, s.incoming, s.store, s.prime, s.fresh + 1, s.dir⟩
  | _ => ⟨s.stage, s.incoming, s.store, put s.prime key (cfg.h c), s.fresh + 1, s.dir⟩

/-- the digest name does not exist, staging on the store's file system -/
def afterSame (cfg : Cfg N C) (key : K) (c : C) (s : St K N C) : Nat → St K N C
  | 0 => s
  | 1 => ⟨(s.fresh, cfg.e) :: s.stage, s.incoming, s.store, s.prime, s.fresh + 1, s.dir⟩
  | 2 | 3 | 4 => ⟨(s.fresh, c) :: s.stage, s.incoming, s.store, s.prime, s.fresh + 1, s.dir⟩
  | 5 => ⟨(s.fresh, c) :: s.stage, s.incoming, s.store, s.prime, s.fresh + 1, true⟩
  | 6 => ⟨s.stage, (s.fresh, c) :: s.incoming, s.store, s.prime, s.fresh + 1, true⟩
  | 7 => ⟨s.stage, s.incoming, put s.store (cfg.h c) c, s.prime, s.fresh + 1, true⟩
  | _ => ⟨s.stage, s.incoming, put s.store (cfg.h c) c, put s.prime key (cfg.h c), s.fresh + 1, true⟩

/-- the digest name does not exist, staging on another file system -/
def afterXfs (cfg : Cfg N C) (key : K) (c : C) (s : St K N C) : Nat → St K N C
  | 0 => s
  | 1 => ⟨(s.fresh, cfg.e) :: s.stage, s.incoming, s.store, s.prime, s.fresh + 1, s.dir⟩
  | 2 | 3 | 4 => ⟨(s.fresh, c) :: s.stage, s.incoming, s.store, s.prime, s.fresh + 1, s.dir⟩
  | 5 => ⟨(s.fresh, c) :: s.stage, s.incoming, s.store, s.prime, s.fresh + 1, true⟩
  | 6 => ⟨(s.fresh, c) :: s.stage, (s.fresh, cfg.e) :: s.incoming, s.store, s.prime, s.fresh + 1, true⟩
  | 7 => ⟨(s.fresh, c) :: s.stage, (s.fresh, cfg.t c) :: s.incoming, s.store, s.prime, s.fresh + 1, true⟩
  | 8 => ⟨(s.fresh, c) :: s.stage, (s.fresh, c) :: s.incoming, s.store, s.prime, s.fresh + 1, true⟩
  | 9 => ⟨s.stage, (s.fresh, c) :: s.incoming, s.store, s.prime, s.fresh + 1, true⟩
  | 10 => ⟨s.stage, s.incoming, put s.store (cfg.h c) c, s.prime, s.fresh + 1, true⟩
  | _ => ⟨s.stage, s.incoming, put s.store (cfg.h c) c, put s.prime key (cfg.h c), s.fresh + 1, true⟩

def after (cfg : Cfg N C) (key : K) (c : C) (s : St K N C) (b : Nat) : St K N C :=
  if cfg.h c ∈ names s then afterEx cfg key c s b
  else if cfg.xfs then afterXfs cfg key c s b else afterSame cfg key c s b

theorem rm_stage {h : C → N} {s : St K N C} (hs : Inv h s) : rm s.stage s.fresh = s.stage :=
  rm_of_fresh hs.below

theorem rm_incoming {h : C → N} {s : St K N C} (hs : Inv h s) : rm s.incoming s.fresh = s.incoming :=
  rm_of_fresh hs.belowInc


/-- Symbolic execution of every crash budget of the regenerated program in both configurations. -/
theorem runUpd_closed (cfg : Cfg N C) (key : K) (c : C) (s : St K N C) (hs : Inv cfg.h s) (b : Nat) :
    runUpd cfg program key c b s
      = (after cfg key c s b,
         if steps cfg.xfs (decide (cfg.h c ∈ names s)) ≤ b then some (decide (cfg.h c ∉ names s)) else none) := by
  have hm' : names s = s.store.map Prod.fst := rfl
  have r1 := rm_stage hs
  have r2 := rm_incoming hs
  obtain ⟨h, e, t, xfs⟩ := cfg
  cases xfs
  all_goals by_cases hm : h c ∈ s.store.map Prod.fst
  all_goals rcases b with _|_|_|_|_|_|_|_|_|_|_|_|_|_|b
  all_goals simp [runUpd, program, expand, expandAct, runB, skips, exec, doAct, writeDst, put, names_mk, hm,
    after, afterEx, afterSame, afterXfs, hm', r1, r2, steps]

theorem below_succ {st : List (Nat × C)} {fr : Nat} (hb : ∀ f ∈ st, f.1 < fr) (x : C) :
    ∀ f ∈ (fr, x) :: st, f.1 < fr + 1 := by
  intro f hf
  rcases List.mem_cons.mp hf with rfl | hf
  · exact Nat.lt_succ_self _
  · exact Nat.lt_succ_of_lt (hb f hf)

theorem below_mono {st : List (Nat × C)} {fr : Nat} (hb : ∀ f ∈ st, f.1 < fr) :
    ∀ f ∈ st, f.1 < fr + 1 := fun f hf => Nat.lt_succ_of_lt (hb f hf)

/-- closes the side goals of `inv_shape` for the closed-form states -/
macro "shape_side" hs:ident hm:ident : tactic => `(tactic|
  first
    | exact below_mono ($hs).below | exact below_mono ($hs).belowInc
    | exact below_succ ($hs).below _ | exact below_succ ($hs).belowInc _
    | exact Or.inl rfl | exact Or.inr rfl
    | exact Or.inr ⟨rfl, $hm⟩
    | exact Or.inr ⟨rfl, by simp [put]⟩)

/-- `Inv` holds at every micro-step boundary of an update, in both configurations. -/
theorem inv_after (cfg : Cfg N C) {s : St K N C} (hs : Inv cfg.h s) (key : K) (c : C) (b : Nat) :
    Inv cfg.h (after cfg key c s b) := by
  unfold after
  by_cases hm : cfg.h c ∈ names s
  · simp only [hm, if_true]
    rcases b with _|_|_|_|_|_|b
    · exact hs
    all_goals (simp only [afterEx]; apply inv_shape hs c key <;> shape_side hs hm)
  · simp only [hm, if_false]
    have hm2 : cfg.h c ∈ (put s.store (cfg.h c) c).map Prod.fst := by simp [put]
    cases hx : cfg.xfs
    · simp only [Bool.false_eq_true, if_false]
      rcases b with _|_|_|_|_|_|_|_|b
      · exact hs
      all_goals (simp only [afterSame]; apply inv_shape hs c key <;> shape_side hs hm2)
    · simp only [if_true]
      rcases b with _|_|_|_|_|_|_|_|_|_|_|b
      · exact hs
      all_goals (simp only [afterXfs]; apply inv_shape hs c key <;> shape_side hs hm2)

theorem inv_runUpd (cfg : Cfg N C) {s : St K N C} (hs : Inv cfg.h s) (key : K) (c : C) (b : Nat) :
    Inv cfg.h (runUpd cfg program key c b s).1 := by
  rw [runUpd_closed cfg key c s hs]; exact inv_after cfg hs key c b

theorem inv_apply (cfg : Cfg N C) {s : St K N C} (hs : Inv cfg.h s) (op : Op K N C) :
    Inv cfg.h (apply cfg program s op).1 := by
  cases op with
  | upd key c b => exact inv_runUpd cfg hs key c b
  | del key => exact inv_del hs key
  | purge visit => exact inv_purge hs visit

/-- induction over the operation list: the invariant holds after every history -/
theorem inv_run (cfg : Cfg N C) (ops : List (Op K N C)) :
    ∀ {s : St K N C}, Inv cfg.h s → Inv cfg.h (run cfg program s ops).1 := by
  induction ops with
  | nil => intro s hs; exact hs
  | cons op ops ih => intro s hs; exact ih (inv_apply cfg hs op)

theorem run_append (cfg : Cfg N C) (prog : List Instr) (a b : List (Op K N C)) (s : St K N C) :
    run cfg prog s (a ++ b) =
      ((run cfg prog (run cfg prog s a).1 b).1,
       (run cfg prog s a).2 ++ (run cfg prog (run cfg prog s a).1 b).2) := by
  induction a generalizing s with
  | nil => simp [run]
  | cons op a ih => simp [run, ih]

theorem run_flags_length (cfg : Cfg N C) (prog : List Instr) (ops : List (Op K N C)) :
    ∀ s : St K N C, (run cfg prog s ops).2.length = ops.length := by
  induction ops with
  | nil => intro s; rfl
  | cons op ops ih => intro s; simp [run, ih]

/-! ### garbage: where it may live and how much -/

/-- After `b` micro-steps of an update at most one more file is staged and at most one more file lies
    in `incoming`, and none when the update ran to its end. -/
theorem garbage_after (cfg : Cfg N C) (key : K) (c : C) (s : St K N C) (b : Nat) :
    let g := if steps cfg.xfs (decide (cfg.h c ∈ names s)) ≤ b then 0 else 1
    (after cfg key c s b).stage.length ≤ s.stage.length + g ∧
      (after cfg key c s b).incoming.length ≤ s.incoming.length + g := by
  unfold after
  by_cases hm : cfg.h c ∈ names s
  · simp only [hm, if_true, decide_true, steps]
    rcases b with _|_|_|_|_|_|_|_|b <;> simp [afterEx]
  · simp only [hm, if_false, decide_false, steps]
    cases hx : cfg.xfs
    · simp only [Bool.false_eq_true, if_false]
      rcases b with _|_|_|_|_|_|_|_|_|_|b <;> simp [afterSame]
    · simp only [if_true]
      rcases b with _|_|_|_|_|_|_|_|_|_|_|_|_|b <;> simp [afterXfs]

theorem garbage_apply (cfg : Cfg N C) {s : St K N C} (hs : Inv cfg.h s) (op : Op K N C) :
    let r := apply cfg program s op
    r.1.stage.length ≤ s.stage.length + silent [op] [r.2] ∧
      r.1.incoming.length ≤ s.incoming.length + silent [op] [r.2] := by
  cases op with
  | upd key c b =>
    have := garbage_after cfg key c s b
    simp only [apply, runUpd_closed cfg key c s hs]
    by_cases hb : steps cfg.xfs (decide (cfg.h c ∈ names s)) ≤ b
    · simpa [hb, silent] using this
    · simpa [hb, silent] using this
  | del key => simp [apply, silent]
  | purge visit => simp only [apply, silent]; unfold purge; split <;> simp

theorem silent_cons (op : Op K N C) (o : Option Bool) (ops : List (Op K N C)) (fl : List (Option Bool)) :
    silent (op :: ops) (o :: fl) = silent [op] [o] + silent ops fl := by
  cases op <;> cases o <;> simp [silent] <;> omega

theorem garbage_run (cfg : Cfg N C) (ops : List (Op K N C)) :
    ∀ {s : St K N C}, Inv cfg.h s →
      (run cfg program s ops).1.stage.length ≤ s.stage.length + silent ops (run cfg program s ops).2 ∧
      (run cfg program s ops).1.incoming.length ≤ s.incoming.length + silent ops (run cfg program s ops).2 := by
  induction ops with
  | nil => intro s _; simp [run, silent]
  | cons op ops ih =>
    intro s hs
    have h1 := ih (inv_apply cfg hs op)
    have h2 := garbage_apply cfg hs op
    simp only [run]
    rw [silent_cons]
    constructor <;> omega

/-! ### the novelty flag -/

theorem mem_names_iff {h : C → N} (hinj : Function.Injective h) {s : St K N C} (hs : Inv h s) (c : C) :
    h c ∈ names s ↔ c ∈ contents s := by
  simp only [names, contents, List.mem_map]
  constructor
  · rintro ⟨b, hb, hbe⟩
    refine ⟨b, hb, hinj ?_⟩
    rw [← hbe]; exact (hs.digest b hb).symm
  · rintro ⟨b, hb, rfl⟩
    exact ⟨b, hb, hs.digest b hb⟩

end DawgieVerif.Blob
