/-
Helper lemmas for C12.  The life-cycle enters only through a small interface (`iface_core`,
closed by kernel evaluation over all invariant cores against the generated table); the rest is
case analysis over priorities, flags and slots, and induction over histories.
-/
import DawgieVerif.Proofs.Fsm
import DawgieVerif.Model.Submit

namespace DawgieVerif.Submit
open DawgieVerif.Generated.Prio (Priority)
open DawgieVerif.Generated.Fsm (State Trigger)
open DawgieVerif.Fsm (Inv InvC mk probeEvents forall_core inv_eq_mk)

/-! ### what C12 needs to know of the life-cycle -/

/-- interface facts of one life-cycle event from an invariant core -/
def ifaceOK (c : Fsm.Core) (e : Fsm.Event) : Prop :=
  let r := Fsm.step (mk c) e
  r.2.1.resets ≤ 1 ∧
  (r.2.1.resets = 1 → inReloadC c = true ∧ inReloadC r.1.core = false) ∧
  (r.2.1.resets = 0 → e ≠ .update → inReloadC r.1.core = inReloadC c) ∧
  (e = .update → r.2.1.resets = 0 ∧
     (c.isActive = true → r.2.2 = .ok ∧ inReloadC r.1.core = true) ∧
     (c.isActive = false → r.2.2 ≠ .ok ∧ r.1 = mk c)) ∧
  (e = .submitEnd → c.state = .gitting → r.2.2 = .ok ∧ r.1.isActive = true ∧ r.2.1.resets = 0) ∧
  (c.isActive = true → inReloadC c = false)

instance (c : Fsm.Core) (e : Fsm.Event) : Decidable (ifaceOK c e) := by
  unfold ifaceOK
  infer_instance

theorem iface_core : ∀ c : Fsm.Core, InvC c → ∀ e ∈ probeEvents, ifaceOK c e := by
  apply forall_core
  decide +kernel

theorem iface {f : Fsm.St} (h : Inv f) (e : Fsm.Event) (he : e ≠ .strayRun) :
    (Fsm.step f e).2.1.resets ≤ 1 ∧
    ((Fsm.step f e).2.1.resets = 1 → inReloadC f.core = true ∧ inReloadC (Fsm.step f e).1.core = false) ∧
    ((Fsm.step f e).2.1.resets = 0 → e ≠ .update →
      inReloadC (Fsm.step f e).1.core = inReloadC f.core) := by
  have hs := inv_eq_mk h
  by_cases hm : e ∈ probeEvents
  · have := iface_core f.core h.1 e hm
    rw [ifaceOK, ← hs] at this
    exact ⟨this.1, this.2.1, this.2.2.1⟩
  · cases e with
    | complete i b =>
      cases i with
      | zero => cases b <;> simp [probeEvents] at hm
      | succ i =>
        rw [Fsm.step_complete_succ h]
        simp [Fsm.noop, Fsm.Out.pure]
    | strayRun => exact absurd rfl he
    | _ => simp [probeEvents] at hm

theorem iface_update {f : Fsm.St} (h : Inv f) :
    (Fsm.step f .update).2.1.resets = 0 ∧
    (f.isActive = true → (Fsm.step f .update).2.2 = .ok ∧ inReloadC (Fsm.step f .update).1.core = true) ∧
    (f.isActive = false → (Fsm.step f .update).2.2 ≠ .ok ∧ (Fsm.step f .update).1 = f) := by
  have hs := inv_eq_mk h
  have := iface_core f.core h.1 .update (by simp [probeEvents])
  rw [ifaceOK, ← hs] at this
  exact this.2.2.2.1 rfl

theorem iface_submitEnd {f : Fsm.St} (h : Inv f) (hg : f.core.state = .gitting) :
    (Fsm.step f .submitEnd).2.2 = .ok ∧ (Fsm.step f .submitEnd).1.isActive = true ∧
    (Fsm.step f .submitEnd).2.1.resets = 0 := by
  have hs := inv_eq_mk h
  have := iface_core f.core h.1 .submitEnd (by simp [probeEvents])
  rw [ifaceOK, ← hs] at this
  exact this.2.2.2.2.1 rfl hg

theorem active_not_reload {f : Fsm.St} (h : Inv f) (ha : f.isActive = true) : inReloadC f.core = false := by
  have := iface_core f.core h.1 .boot (by simp [probeEvents])
  rw [ifaceOK] at this
  exact this.2.2.2.2.2 ha

theorem gitting_core : ∀ c : Fsm.Core, InvC c → c.isActive = true →
    (Fsm.step (mk c) .submitBegin).1.core.state = .gitting ∧
    (Fsm.step (mk c) .submitBegin).2.1.resets = 0 := by
  apply forall_core
  decide +kernel

theorem inv_step {f : Fsm.St} (h : Inv f) (e : Fsm.Event) (he : e ≠ .strayRun) : Inv (Fsm.step f e).1 :=
  (Fsm.step_ok h e he).1

/-! ### the translated `Priority.max` is the lattice maximum -/

theorem rank_maxStep (r a : Priority) :
    rank (Generated.Prio.maxStep r a) = Nat.max (rank r) (rank a) := by
  cases r <;> cases a <;> decide

theorem maxStep_mem (r a : Priority) :
    Generated.Prio.maxStep r a = r ∨ Generated.Prio.maxStep r a = a := by
  cases r <;> cases a <;> decide

theorem rank_foldl (xs : List Priority) (r : Priority) :
    rank (xs.foldl Generated.Prio.maxStep r) = xs.foldl (fun n a => Nat.max n (rank a)) (rank r) := by
  induction xs generalizing r with
  | nil => rfl
  | cons a as ih => simp only [List.foldl_cons, ih, rank_maxStep]

theorem foldl_mem (xs : List Priority) (r : Priority) :
    xs.foldl Generated.Prio.maxStep r = r ∨ xs.foldl Generated.Prio.maxStep r ∈ xs := by
  induction xs generalizing r with
  | nil => exact Or.inl rfl
  | cons a as ih =>
    simp only [List.foldl_cons, List.mem_cons]
    rcases ih (Generated.Prio.maxStep r a) with h | h
    · rcases maxStep_mem r a with h2 | h2
      · left; rw [h, h2]
      · right; left; rw [h, h2]
    · right; right; exact h

theorem foldl_max_ge (xs : List Priority) (n : Nat) :
    n ≤ xs.foldl (fun n a => Nat.max n (rank a)) n ∧
    ∀ a ∈ xs, rank a ≤ xs.foldl (fun n a => Nat.max n (rank a)) n := by
  induction xs generalizing n with
  | nil => simp
  | cons b bs ih =>
    simp only [List.foldl_cons, List.mem_cons]
    have h1 := ih (Nat.max n (rank b))
    refine ⟨Nat.le_trans (Nat.le_max_left _ _) h1.1, ?_⟩
    intro a ha
    rcases ha with rfl | ha
    · exact Nat.le_trans (Nat.le_max_right _ _) h1.1
    · exact h1.2 a ha

/-! ### the invariant of all histories -/

structure Good (s : St) : Prop where
  inv : Inv s.fsm
  fCrew : s.setCrew = false → s.priority = some .CREW
  fDoing : s.setDoing = false → s.priority = some .DOING
  fTodo : s.setTodo = false → s.priority = some .TODO
  sound : ∀ u ∈ s.log, u.sound
  cyc : ∀ u ∈ s.log, u.accepted = true →
    u.cycle < s.cycle ∨ (u.cycle = s.cycle ∧ inReloadC s.fsm.core = true)
  once : Once s.log

theorem good_init (a : Bool) (e : Env) : Good (init a e) where
  inv := Fsm.inv_init a
  fCrew := by simp [init]
  fDoing := by simp [init]
  fTodo := by simp [init]
  sound := by simp [init]
  cyc := by simp [init]
  once := by
    intro i j ui uj _ hi
    simp [init] at hi

theorem once_append {log : List Upd} {u : Upd} (h : Once log)
    (hn : ∀ v ∈ log, v.accepted = true → u.accepted = true → v.cycle < u.cycle) :
    Once (log ++ [u]) := by
  intro i j ui uj hij hi hj hai haj
  have hjl : j < (log ++ [u]).length := by
    rcases Nat.lt_or_ge j (log ++ [u]).length with h1 | h1
    · exact h1
    · rw [List.getElem?_eq_none h1] at hj
      cases hj
  simp only [List.length_append, List.length_singleton] at hjl
  by_cases hjlast : j = log.length
  · subst hjlast
    have hil : i < log.length := hij
    rw [List.getElem?_append_left hil] at hi
    rw [List.getElem?_append_right (Nat.le_refl _)] at hj
    simp only [Nat.sub_self, List.getElem?_cons_zero, Option.some.injEq] at hj
    subst hj
    exact hn ui (List.mem_of_getElem? hi) hai haj
  · have hj' : j < log.length := by omega
    have hi' : i < log.length := by omega
    rw [List.getElem?_append_left hj'] at hj
    rw [List.getElem?_append_left hi'] at hi
    exact h i j ui uj hij hi hj hai haj

theorem good_life {s : St} (h : Good s) (e : Fsm.Event) (he : e ≠ .strayRun) (hu : e ≠ .update) :
    Good (life s e).1 := by
  have hi := iface h.inv e he
  have hinv := inv_step h.inv e he
  unfold life applyResets
  by_cases h0 : (Fsm.step s.fsm e).2.1.resets = 0
  · simp only [h0, if_true]
    exact { inv := hinv, fCrew := h.fCrew, fDoing := h.fDoing, fTodo := h.fTodo, sound := h.sound,
            once := h.once,
            cyc := by
              intro u hu' ha
              have := h.cyc u hu' ha
              rw [hi.2.2 h0 hu]
              exact this }
  · have h1 : (Fsm.step s.fsm e).2.1.resets = 1 := by omega
    simp only [h1]
    exact { inv := hinv, fCrew := by simp, fDoing := by simp, fTodo := by simp, sound := h.sound,
            once := h.once,
            cyc := by
              intro u hu' ha
              left
              rcases h.cyc u hu' ha with hc | hc
              · show u.cycle < s.cycle + 1
                omega
              · show u.cycle < s.cycle + 1
                omega }

theorem good_fireUpdate {s : St} (h : Good s) (who : Option Waiter) (forced : Bool)
    (hs : (⟨who, forced, s.priority, s.env, s.fsm.isActive, true, s.cycle⟩ : Upd).sound) :
    Good (fireUpdate who forced s) := by
  have hi := iface_update h.inv
  have hinv := inv_step h.inv .update (by simp)
  unfold fireUpdate applyResets
  simp only [hi.1, if_true]
  have hsound : ∀ b, (⟨who, forced, s.priority, s.env, s.fsm.isActive, b, s.cycle⟩ : Upd).sound := by
    intro b
    unfold Upd.sound at hs ⊢
    exact hs
  by_cases ha : s.fsm.isActive = true
  · have hok := hi.2.1 ha
    have hnr := active_not_reload h.inv ha
    have hold : ∀ v ∈ s.log, v.accepted = true → v.cycle < s.cycle := by
      intro v hv hva
      rcases h.cyc v hv hva with hc | hc
      · exact hc
      · rw [hnr] at hc
        cases hc.2
    exact { inv := hinv, fCrew := h.fCrew, fDoing := h.fDoing, fTodo := h.fTodo,
            sound := by
              intro u hu
              simp only [List.mem_append, List.mem_singleton] at hu
              rcases hu with hu | hu
              · exact h.sound u hu
              · subst hu
                exact hsound _
            cyc := by
              intro u hu hua
              simp only [List.mem_append, List.mem_singleton] at hu
              rcases hu with hu | hu
              · left
                exact hold u hu hua
              · subst hu
                right
                exact ⟨rfl, hok.2⟩
            once := once_append h.once (fun v hv hva _ => hold v hv hva) }
  · have hf : s.fsm.isActive = false := by simpa using ha
    have hno := hi.2.2 hf
    have hacc : decide ((Fsm.step s.fsm .update).2.2 = .ok) = false := by simpa using hno.1
    exact { inv := hinv, fCrew := h.fCrew, fDoing := h.fDoing, fTodo := h.fTodo,
            sound := by
              intro u hu
              simp only [List.mem_append, List.mem_singleton] at hu
              rcases hu with hu | hu
              · exact h.sound u hu
              · subst hu
                exact hsound _
            cyc := by
              intro u hu hua
              simp only [List.mem_append, List.mem_singleton] at hu
              rcases hu with hu | hu
              · have := h.cyc u hu hua
                rw [hno.2]
                exact this
              · subst hu
                simp [hacc] at hua
            once := once_append h.once (fun v _ _ hn => by simp [hacc] at hn) }

theorem good_setThread {s : St} (h : Good s) (k : Waiter) (b : Bool) : Good (s.setThread k b) := by
  cases k <;> exact { inv := h.inv, fCrew := h.fCrew, fDoing := h.fDoing, fTodo := h.fTodo,
                      sound := h.sound, cyc := h.cyc, once := h.once }

theorem max_dominates (o : Option Priority) (p : Priority) :
    (o = some .CREW → Generated.Prio.max [o, some p] = .CREW ∨ Generated.Prio.max [o, some p] = .NOW) ∧
    (o = some .DOING → Generated.Prio.max [o, some p] = .DOING ∨ Generated.Prio.max [o, some p] = .CREW ∨
      Generated.Prio.max [o, some p] = .NOW) := by
  cases o with
  | none => simp
  | some q => cases q <;> cases p <;> decide

/-- entering a wait for `m`, where `m` dominates whatever is currently waited for -/
theorem good_waitFor {s : St} (h : Good s) (m : Priority)
    (hc : s.setCrew = false → m = .CREW ∨ m = .NOW)
    (hd : s.setDoing = false → m = .DOING ∨ m = .CREW ∨ m = .NOW) :
    Good (waitFor { s with priority := some m } false m) := by
  cases m with
  | NOW =>
    apply good_fireUpdate
    · exact { inv := h.inv, fCrew := by simp, fDoing := by simp, fTodo := by simp,
              sound := h.sound, cyc := h.cyc, once := h.once }
    · right
      exact ⟨.NOW, rfl, rfl, rfl⟩
  | CREW =>
    exact { inv := h.inv, sound := h.sound, cyc := h.cyc, once := h.once,
            fCrew := fun _ => rfl, fDoing := by simp [waitFor], fTodo := by simp [waitFor] }
  | DOING =>
    exact { inv := h.inv, sound := h.sound, cyc := h.cyc, once := h.once,
            fCrew := by
              intro hf
              have := hc hf
              simp at this
            fDoing := fun _ => rfl, fTodo := by simp [waitFor] }
  | TODO =>
    exact { inv := h.inv, sound := h.sound, cyc := h.cyc, once := h.once,
            fCrew := by
              intro hf
              have := hc hf
              simp at this
            fDoing := by
              intro hf
              have := hd hf
              simp at this
            fTodo := fun _ => rfl }

/-- `set_submit_info` then `submit_crossroads` with the pipeline active -/
theorem good_submit {s : St} (h : Good s) (ha : s.fsm.isActive = true) (p : Priority) :
    Good (crossroads (setSubmitInfo p s)) := by
  have hm := max_dominates s.priority p
  unfold crossroads setSubmitInfo
  simp only [ha, Bool.not_true, Bool.false_eq_true, if_false]
  exact good_waitFor h _ (fun hf => hm.1 (h.fCrew hf)) (fun hf => hm.2 (h.fDoing hf))

theorem life_flag_active (s : St) :
    (life s .flagArchive).1.fsm.isActive = s.fsm.isActive := by
  simp [life, Fsm.step, Fsm.noop, Fsm.Out.pure, applyResets, Fsm.St.isActive, Fsm.Core.isActive]

theorem good_step {s : St} (h : Good s) (e : Event) : Good (step s e) := by
  cases e with
  | boot => exact good_life h _ (by simp) (by simp)
  | submitBegin => exact good_life h _ (by simp) (by simp)
  | submitFail => exact good_life h _ (by simp) (by simp)
  | dispatchArchive =>
    by_cases hb : s.env.busy = true
    · simpa [step, hb] using h
    · simpa [step, hb] using good_life h .dispatchArchive (by simp) (by simp)
  | flagArchive => exact good_life h _ (by simp) (by simp)
  | complete i b => exact good_life h _ (by simp) (by simp)
  | env e =>
    exact { inv := h.inv, fCrew := h.fCrew, fDoing := h.fDoing, fTodo := h.fTodo,
            sound := h.sound, cyc := h.cyc, once := h.once }
  | submitDone p =>
    unfold step
    by_cases hg : s.fsm.core.state = .gitting
    · have hi := iface_submitEnd h.inv hg
      have hgl := good_life h .submitEnd (by simp) (by simp)
      have hok : (life s .submitEnd).2 = .ok := hi.1
      have hact : (life s .submitEnd).1.fsm.isActive = true := by
        simp only [life, applyResets, hi.2.2, if_true]
        exact hi.2.1
      simp only [hg, if_true, hok]
      exact good_submit hgl hact p
    · simp only [hg, if_false]
      exact h
  | resetNow a =>
    unfold step
    by_cases ha : s.fsm.isActive = true
    · simp only [ha, if_true, waitFor]
      apply good_fireUpdate
      · cases a
        · exact { inv := h.inv, fCrew := by simp, fDoing := by simp, fTodo := by simp,
                  sound := h.sound, cyc := h.cyc, once := h.once }
        · have hgl := good_life h .flagArchive (by simp) (by simp)
          exact { inv := hgl.inv, fCrew := by simp, fDoing := by simp, fTodo := by simp,
                  sound := hgl.sound, cyc := hgl.cyc, once := hgl.once }
      · left
        rfl
    · simp only [ha, Bool.false_eq_true, if_false]
      exact h
  | poll k =>
    unfold step
    by_cases ht : s.hasThread k = true
    · by_cases hb : (s.env.blocks k && !s.isSet k) = true
      · simp only [ht, Bool.not_true, Bool.false_eq_true, if_false, hb, if_true]
        exact h
      · simp only [ht, Bool.not_true, Bool.false_eq_true, if_false, hb]
        by_cases hset : s.isSet k = true
        · simp only [hset, Bool.not_true, Bool.false_eq_true, if_false]
          exact good_setThread h k false
        · have hset' : s.isSet k = false := by simpa using hset
          simp only [hset', Bool.not_false, if_true]
          apply good_fireUpdate (good_setThread h k false)
          right
          have hbl : s.env.blocks k = false := by
            simp only [hset', Bool.not_false, Bool.and_true] at hb
            simpa using hb
          refine ⟨k.prio, ?_, ?_, ?_⟩
          · cases k
            · simpa [St.setThread, Waiter.prio] using h.fCrew hset'
            · simpa [St.setThread, Waiter.prio] using h.fDoing hset'
            · simpa [St.setThread, Waiter.prio] using h.fTodo hset'
          · cases k <;> simp_all [St.setThread, Env.allows, Env.blocks, Waiter.prio]
          · rfl
    · have ht' : s.hasThread k = false := by simpa using ht
      simp only [ht', Bool.not_false, if_true]
      exact h

theorem good_run {s : St} (h : Good s) (evs : List Event) : Good (run s evs) := by
  induction evs generalizing s with
  | nil => exact h
  | cons e es ih => exact ih (good_step h e)

/-! ### liveness: what was requested is being served -/

theorem fireUpdate_active {s : St} (h : Good s) (ha : s.fsm.isActive = true) (who : Option Waiter)
    (forced : Bool) : (fireUpdate who forced s).inReload = true ∧
      ∃ u, (fireUpdate who forced s).log = s.log ++ [u] ∧ u.accepted = true ∧ u.who = who := by
  have hi := iface_update h.inv
  have hok := hi.2.1 ha
  unfold fireUpdate applyResets
  simp only [hi.1, if_true, St.inReload]
  refine ⟨hok.2, _, rfl, ?_, rfl⟩
  simp [hok.1]

theorem served_of_reload {s : St} (h : s.inReload = true) : s.served = true := by
  simp [St.served, h]

theorem served_life {s : St} (h : Good s) (hs : s.served = true) (e : Fsm.Event)
    (he : e ≠ .strayRun) (hu : e ≠ .update) : (life s e).1.served = true := by
  have hi := iface h.inv e he
  unfold life applyResets
  by_cases h0 : (Fsm.step s.fsm e).2.1.resets = 0
  · simp only [h0, if_true]
    have := hi.2.2 h0 hu
    simpa [St.served, St.inReload, St.armed, St.isSet, St.hasThread, this] using hs
  · simp only [h0, if_false]
    simp [St.served]

theorem served_step {s : St} (h : Good s) (hs : s.served = true) (e : Event)
    (hc : ∀ k, e = .poll k → s.hasThread k = true → s.isSet k = false → s.env.blocks k = false →
      s.fsm.isActive = true) : (step s e).served = true := by
  cases e with
  | boot => exact served_life h hs _ (by simp) (by simp)
  | submitBegin => exact served_life h hs _ (by simp) (by simp)
  | submitFail => exact served_life h hs _ (by simp) (by simp)
  | dispatchArchive =>
    by_cases hb : s.env.busy = true
    · simpa [step, hb] using hs
    · simpa [step, hb] using served_life h hs .dispatchArchive (by simp) (by simp)
  | flagArchive => exact served_life h hs _ (by simp) (by simp)
  | complete i b => exact served_life h hs _ (by simp) (by simp)
  | env e => simpa [step, St.served, St.inReload, St.armed, St.isSet, St.hasThread] using hs
  | submitDone p =>
    unfold step
    by_cases hg : s.fsm.core.state = .gitting
    · have hi := iface_submitEnd h.inv hg
      have hgl := good_life h .submitEnd (by simp) (by simp)
      have hok : (life s .submitEnd).2 = .ok := hi.1
      have hact : (life s .submitEnd).1.fsm.isActive = true := by
        simp only [life, applyResets, hi.2.2, if_true]
        exact hi.2.1
      simp only [hg, if_true, hok]
      unfold crossroads setSubmitInfo
      simp only [hact, Bool.not_true, Bool.false_eq_true, if_false]
      generalize Generated.Prio.max [(life s .submitEnd).1.priority, some p] = m
      cases m with
      | NOW =>
        apply served_of_reload
        exact (fireUpdate_active
          (s := { (life s .submitEnd).1 with priority := some .NOW, setTodo := true, setDoing := true,
                                             setCrew := true })
          { inv := hgl.inv, fCrew := by simp, fDoing := by simp, fTodo := by simp,
            sound := hgl.sound, cyc := hgl.cyc, once := hgl.once } hact none false).1
      | CREW => simp [waitFor, St.served, St.armed, St.isSet, St.hasThread]
      | DOING => simp [waitFor, St.served, St.armed, St.isSet, St.hasThread]
      | TODO => simp [waitFor, St.served, St.armed, St.isSet, St.hasThread]
    · simp only [hg, if_false]
      exact hs
  | resetNow a =>
    unfold step
    by_cases ha : s.fsm.isActive = true
    · simp only [ha, if_true, waitFor]
      apply served_of_reload
      cases a
      · exact (fireUpdate_active (s := { s with setTodo := true, setDoing := true, setCrew := true })
          { inv := h.inv, fCrew := by simp, fDoing := by simp, fTodo := by simp,
            sound := h.sound, cyc := h.cyc, once := h.once } ha none true).1
      · have hgl := good_life h .flagArchive (by simp) (by simp)
        have hact : (life s .flagArchive).1.fsm.isActive = true := by rw [life_flag_active]; exact ha
        exact (fireUpdate_active
          (s := { (life s .flagArchive).1 with setTodo := true, setDoing := true, setCrew := true })
          { inv := hgl.inv, fCrew := by simp, fDoing := by simp, fTodo := by simp,
            sound := hgl.sound, cyc := hgl.cyc, once := hgl.once } hact none true).1
    · simp only [ha, Bool.false_eq_true, if_false]
      exact hs
  | poll k =>
    unfold step
    by_cases ht : s.hasThread k = true
    · by_cases hb : (s.env.blocks k && !s.isSet k) = true
      · simp only [ht, Bool.not_true, Bool.false_eq_true, if_false, hb, if_true]
        exact hs
      · simp only [ht, Bool.not_true, Bool.false_eq_true, if_false, hb]
        by_cases hset : s.isSet k = true
        · simp only [hset, Bool.not_true, Bool.false_eq_true, if_false]
          -- a cancelled poller leaves; whatever is served does not depend on its slot
          have hC := h.fCrew
          have hD := h.fDoing
          have hT := h.fTodo
          cases k <;> cases hp : s.priority with
          | none => simp_all [St.served, St.inReload, St.isSet, St.hasThread, St.setThread]
          | some q =>
            cases q <;>
              simp_all [St.served, St.inReload, St.armed, St.isSet, St.hasThread, St.setThread]
        · have hset' : s.isSet k = false := by simpa using hset
          have hbl : s.env.blocks k = false := by
            simp only [hset', Bool.not_false, Bool.and_true] at hb
            simpa using hb
          have hact := hc k rfl ht hset' hbl
          simp only [hset', Bool.not_false, if_true]
          apply served_of_reload
          have hact' : (s.setThread k false).fsm.isActive = true := by cases k <;> exact hact
          exact (fireUpdate_active (good_setThread h k false) hact' (some k) false).1
    · have ht' : s.hasThread k = false := by simpa using ht
      simp only [ht', Bool.not_false, if_true]
      exact hs

theorem served_run {s : St} (h : Good s) (hs : s.served = true) (evs : List Event)
    (hc : Calm s evs) : (run s evs).served = true := by
  induction evs generalizing s with
  | nil => exact hs
  | cons e es ih =>
    obtain ⟨h1, h2⟩ := hc
    apply ih (good_step h e) _ h2
    apply served_step h hs e
    intro k hk
    subst hk
    exact h1

/-! ### one more submission after any history -/

theorem life_noreset (s : St) (e : Fsm.Event) (h0 : (Fsm.step s.fsm e).2.1.resets = 0) :
    (life s e).1 = { s with fsm := (Fsm.step s.fsm e).1 } ∧ (life s e).2 = (Fsm.step s.fsm e).2.2 := by
  simp [life, applyResets, h0]

/-- `step_1` then `step_3` of a submission accepted while the pipeline is active -/
theorem submit_pair {s : St} (h : Good s) (ha : s.fsm.isActive = true) (p : Priority) :
    ∃ f2 : Fsm.St, f2.isActive = true ∧ Inv f2 ∧
      run s [.submitBegin, .submitDone p] = crossroads (setSubmitInfo p { s with fsm := f2 }) := by
  have hs2 := inv_eq_mk h.inv
  have hcore := gitting_core s.fsm.core h.inv.1 ha
  rw [← hs2] at hcore
  have h1 := life_noreset s .submitBegin hcore.2
  have hinv1 : Inv (Fsm.step s.fsm .submitBegin).1 := inv_step h.inv _ (by simp)
  have hi := iface_submitEnd hinv1 hcore.1
  have h2 := life_noreset { s with fsm := (Fsm.step s.fsm .submitBegin).1 } .submitEnd hi.2.2
  refine ⟨(Fsm.step (Fsm.step s.fsm .submitBegin).1 .submitEnd).1, hi.2.1,
    inv_step hinv1 _ (by simp), ?_⟩
  simp only [run, step, h1.1, hcore.1, if_true, h2.1, h2.2, hi.1]

theorem crossroads_priority {s : St} (h : Good s) (ha : s.fsm.isActive = true) (p : Priority) :
    (crossroads (setSubmitInfo p s)).priority = some (Generated.Prio.max [s.priority, some p]) ∨
    (crossroads (setSubmitInfo p s)).inReload = true := by
  unfold crossroads setSubmitInfo
  simp only [ha, Bool.not_true, Bool.false_eq_true, if_false]
  generalize Generated.Prio.max [s.priority, some p] = m
  cases m with
  | NOW =>
    right
    exact (fireUpdate_active
      (s := { s with priority := some .NOW, setTodo := true, setDoing := true, setCrew := true })
      { inv := h.inv, fCrew := by simp, fDoing := by simp, fTodo := by simp,
        sound := h.sound, cyc := h.cyc, once := h.once } ha none false).1
  | CREW => left; rfl
  | DOING => left; rfl
  | TODO => left; rfl

end DawgieVerif.Submit
