/-
C16 — helper lemmas, part 1: what the generated `_walk` table checks, for ANY callback semantics
(`walk_iff`), and how the eight walking rules combine (`walkRules_iff`).
-/
import DawgieVerif.Model.CompliantSpec

set_option linter.unusedSimpArgs false

namespace DawgieVerif.Compliant
open DawgieVerif.Generated

theorem runPath_nil (sem : Obj → Bool) (d : Nat) (env : List Obj) :
    runPath sem (.bound d) [] env = (match env[d]? with | some o => sem o | none => false) := by
  simp only [runPath, lookup]
  cases env[d]? <;> rfl

theorem runPath_routines (sem : Obj → Bool) (arg : Recv) (rest : List Step) (k : Factory) (b : Bot) :
    runPath sem arg (⟨.routines, .bound 0⟩ :: rest) [.bot k b]
      = (b.listImpl && b.routines.all (fun r => runPath sem arg rest [.bot k b, .routine k r])) := by
  cases h : b.listImpl <;> simp [runPath, lookup, callMeth, h, List.all_map, Function.comp_def]

theorem runPath_feedback (sem : Obj → Bool) (arg : Recv) (rest : List Step) (e0 : Obj) (k : Factory)
    (r : Routine) :
    runPath sem arg (⟨.feedback, .bound 1⟩ :: rest) [e0, .routine k r]
      = (r.fbOk && r.feedback.all (fun x => runPath sem arg rest [e0, .routine k r, .ref x])) := by
  cases h : r.fbOk <;> simp [runPath, lookup, callMeth, h, List.all_map, Function.comp_def]

theorem runPath_previous (sem : Obj → Bool) (arg : Recv) (rest : List Step) (e0 : Obj) (r : Routine) :
    runPath sem arg (⟨.previous, .bound 1⟩ :: rest) [e0, .routine .task r]
      = (r.depsImpl && r.deps.all (fun x => runPath sem arg rest [e0, .routine .task r, .ref x])) := by
  cases h : r.depsImpl <;> simp [runPath, lookup, callMeth, h, List.all_map, Function.comp_def]

theorem runPath_traits (sem : Obj → Bool) (arg : Recv) (rest : List Step) (e0 : Obj) (r : Routine) :
    runPath sem arg (⟨.traits, .bound 1⟩ :: rest) [e0, .routine .analysis r]
      = (r.depsImpl && r.deps.all (fun x => runPath sem arg rest [e0, .routine .analysis r, .ref x])) := by
  cases h : r.depsImpl <;> simp [runPath, lookup, callMeth, h, List.all_map, Function.comp_def]

theorem runPath_variables (sem : Obj → Bool) (arg : Recv) (rest : List Step) (e0 : Obj) (r : Routine) :
    runPath sem arg (⟨.variables, .bound 1⟩ :: rest) [e0, .routine .regress r]
      = (r.depsImpl && r.deps.all (fun x => runPath sem arg rest [e0, .routine .regress r, .ref x])) := by
  cases h : r.depsImpl <;> simp [runPath, lookup, callMeth, h, List.all_map, Function.comp_def]

theorem runPath_stateVectors (sem : Obj → Bool) (arg : Recv) (rest : List Step) (e0 : Obj) (k : Factory)
    (r : Routine) :
    runPath sem arg (⟨.stateVectors, .bound 1⟩ :: rest) [e0, .routine k r]
      = (r.svsImpl && r.svs.all (fun s => runPath sem arg rest [e0, .routine k r, .sv s])) := by
  cases h : r.svsImpl <;> simp [runPath, lookup, callMeth, h, List.all_map, Function.comp_def]

theorem runPath_items (sem : Obj → Bool) (arg : Recv) (rest : List Step) (e0 e1 : Obj) (s : SV) :
    runPath sem arg (⟨.items, .bound 2⟩ :: rest) [e0, e1, .sv s]
      = s.values.all (fun v => runPath sem arg rest [e0, e1, .sv s, .item v]) := by
  simp [runPath, lookup, callMeth, List.all_map, Function.comp_def]

theorem runPath_iter (sem : Obj → Bool) (arg : Recv) (rest : List Step) (es : List Event) :
    runPath sem arg (⟨.iter, .bound 0⟩ :: rest) [.events es]
      = es.all (fun e => runPath sem arg rest [.events es, .event e]) := by
  simp [runPath, lookup, callMeth, List.all_map, Function.comp_def]

/-- the callback `_walk` is expected to fire on the bot / the routines of factory `k` -/
def botCb : Factory → Cb
  | .analysis => .ifanl | .regress => .ifret | _ => .ifbot

def routCb : Factory → Cb
  | .analysis => .ifanz | .regress => .ifrec | _ => .ifalg

/-- what a complete, well-scoped walk over one routine establishes -/
structure RoutineWalk (sem : Cb → Obj → Bool) (k : Factory) (r : Routine) : Prop where
  cb : sem (routCb k) (.routine k r) = true
  fb : r.fbOk = true
  fbRefs : ∀ x ∈ r.feedback, sem .ifref (.ref x) = true
  deps : r.depsImpl = true
  depRefs : ∀ x ∈ r.deps, sem .ifref (.ref x) = true
  svs : r.svsImpl = true
  svCb : ∀ s ∈ r.svs, sem .ifsv (.sv s) = true
  vCb : ∀ s ∈ r.svs, ∀ v ∈ s.values, sem .ifv (.item v) = true

structure BotWalk (sem : Cb → Obj → Bool) (k : Factory) (b : Bot) : Prop where
  cb : sem (botCb k) (.bot k b) = true
  list : b.listImpl = true
  routines : ∀ r ∈ b.routines, RoutineWalk sem k r

theorem botWalk_task (sem : Cb → Obj → Bool) (b : Bot) :
    (Rules.walk .task).all (fun g => runPath (sem g.cb) g.arg g.path [.bot .task b]) = true
      ↔ BotWalk sem .task b := by
  simp only [Rules.walk, List.all_cons, List.all_nil, runPath_routines, runPath_feedback, runPath_previous,
    runPath_stateVectors, runPath_items, runPath_nil]
  simp [List.all_eq_true]
  constructor
  · rintro ⟨⟨hl, h1⟩, h2, ⟨_, h3⟩, ⟨_, h4⟩, ⟨_, h5⟩, ⟨_, h6⟩⟩
    exact ⟨h2, hl, fun r hr => ⟨h1 r hr, (h3 r hr).1, (h3 r hr).2, (h4 r hr).1, (h4 r hr).2,
      (h5 r hr).1, (h5 r hr).2, (h6 r hr).2⟩⟩
  · intro h
    exact ⟨⟨h.list, fun r hr => (h.routines r hr).cb⟩, h.cb,
      ⟨h.list, fun r hr => ⟨(h.routines r hr).fb, (h.routines r hr).fbRefs⟩⟩,
      ⟨h.list, fun r hr => ⟨(h.routines r hr).deps, (h.routines r hr).depRefs⟩⟩,
      ⟨h.list, fun r hr => ⟨(h.routines r hr).svs, (h.routines r hr).svCb⟩⟩,
      ⟨h.list, fun r hr => ⟨(h.routines r hr).svs, (h.routines r hr).vCb⟩⟩⟩

theorem botWalk_analysis (sem : Cb → Obj → Bool) (b : Bot) :
    (Rules.walk .analysis).all (fun g => runPath (sem g.cb) g.arg g.path [.bot .analysis b]) = true
      ↔ BotWalk sem .analysis b := by
  simp only [Rules.walk, List.all_cons, List.all_nil, runPath_routines, runPath_feedback, runPath_traits,
    runPath_stateVectors, runPath_items, runPath_nil]
  simp [List.all_eq_true]
  constructor
  · rintro ⟨h2, ⟨hl, h1⟩, ⟨_, h3⟩, ⟨_, h4⟩, ⟨_, h5⟩, ⟨_, h6⟩⟩
    exact ⟨h2, hl, fun r hr => ⟨h1 r hr, (h3 r hr).1, (h3 r hr).2, (h4 r hr).1, (h4 r hr).2,
      (h5 r hr).1, (h5 r hr).2, (h6 r hr).2⟩⟩
  · intro h
    exact ⟨h.cb, ⟨h.list, fun r hr => (h.routines r hr).cb⟩,
      ⟨h.list, fun r hr => ⟨(h.routines r hr).fb, (h.routines r hr).fbRefs⟩⟩,
      ⟨h.list, fun r hr => ⟨(h.routines r hr).deps, (h.routines r hr).depRefs⟩⟩,
      ⟨h.list, fun r hr => ⟨(h.routines r hr).svs, (h.routines r hr).svCb⟩⟩,
      ⟨h.list, fun r hr => ⟨(h.routines r hr).svs, (h.routines r hr).vCb⟩⟩⟩

theorem botWalk_regress (sem : Cb → Obj → Bool) (b : Bot) :
    (Rules.walk .regress).all (fun g => runPath (sem g.cb) g.arg g.path [.bot .regress b]) = true
      ↔ BotWalk sem .regress b := by
  simp only [Rules.walk, List.all_cons, List.all_nil, runPath_routines, runPath_feedback, runPath_variables,
    runPath_stateVectors, runPath_items, runPath_nil]
  simp [List.all_eq_true]
  constructor
  · rintro ⟨⟨hl, h1⟩, ⟨_, h3⟩, ⟨_, h4⟩, h2, ⟨_, h5⟩, ⟨_, h6⟩⟩
    exact ⟨h2, hl, fun r hr => ⟨h1 r hr, (h3 r hr).1, (h3 r hr).2, (h4 r hr).1, (h4 r hr).2,
      (h5 r hr).1, (h5 r hr).2, (h6 r hr).2⟩⟩
  · intro h
    exact ⟨⟨h.list, fun r hr => (h.routines r hr).cb⟩,
      ⟨h.list, fun r hr => ⟨(h.routines r hr).fb, (h.routines r hr).fbRefs⟩⟩,
      ⟨h.list, fun r hr => ⟨(h.routines r hr).deps, (h.routines r hr).depRefs⟩⟩, h.cb,
      ⟨h.list, fun r hr => ⟨(h.routines r hr).svs, (h.routines r hr).svCb⟩⟩,
      ⟨h.list, fun r hr => ⟨(h.routines r hr).svs, (h.routines r hr).vCb⟩⟩⟩

theorem eventsWalk (sem : Cb → Obj → Bool) (es : List Event) :
    (Rules.walk .events).all (fun g => runPath (sem g.cb) g.arg g.path [.events es]) = true
      ↔ ∀ e ∈ es, sem .ifmom (.event e) = true := by
  simp only [Rules.walk, List.all_cons, List.all_nil, runPath_iter, runPath_nil]
  simp [List.all_eq_true]

/-- `f(*args)` returns -/
def Fac.callOk {α : Type} (f : Fac α) (n : Nat) : Prop :=
  f.raises = false ∧ nreq f.params ≤ n ∧ n ≤ f.params.length

theorem call_of_ok {α : Type} (f : Fac α) (n : Nat) (h : f.callOk n) : f.call n = some f.content := by
  unfold Fac.call; simp [h.1, h.2.1, h.2.2]

theorem call_of_not_ok {α : Type} (f : Fac α) (n : Nat) (h : ¬ f.callOk n) : f.call n = none := by
  unfold Fac.call Fac.callOk at *
  by_cases h1 : f.raises = true
  · simp [h1]
  · have h1' : f.raises = false := by simpa using h1
    simp only [h1', Bool.false_eq_true, if_false]
    rw [if_neg]; intro hc; exact h ⟨h1', hc⟩

/-- what `_walk` establishes for the whole package, for any callback semantics -/
structure WalkHolds (sem : Cb → Obj → Bool) (p : Pkg) : Prop where
  analysis : ∀ f, p.analysis = some f → f.callOk (Rules.walkArity .analysis) ∧ BotWalk sem .analysis f.content
  events : ∀ f, p.events = some f → f.callOk (Rules.walkArity .events) ∧ ∀ e ∈ f.content, sem .ifmom (.event e) = true
  regress : ∀ f, p.regress = some f → f.callOk (Rules.walkArity .regress) ∧ BotWalk sem .regress f.content
  task : ∀ f, p.task = some f → f.callOk (Rules.walkArity .task) ∧ BotWalk sem .task f.content

theorem facBot_iff (sem : Cb → Obj → Bool) (k : Factory) (f : Fac Bot) (n : Nat)
    (hw : ∀ b, (Rules.walk k).all (fun g => runPath (sem g.cb) g.arg g.path [.bot k b]) = true ↔ BotWalk sem k b) :
    (match (f.call n).map (Obj.bot k) with
      | some o => (Rules.walk k).all (fun g => runPath (sem g.cb) g.arg g.path [o])
      | none => false) = true ↔ (f.callOk n ∧ BotWalk sem k f.content) := by
  by_cases h : f.callOk n
  · simp [call_of_ok f n h, h, hw]
  · simp [call_of_not_ok f n h, h]

theorem facEvents_iff (sem : Cb → Obj → Bool) (f : Fac (List Event)) (n : Nat) :
    (match (f.call n).map Obj.events with
      | some o => (Rules.walk .events).all (fun g => runPath (sem g.cb) g.arg g.path [o])
      | none => false) = true ↔ (f.callOk n ∧ ∀ e ∈ f.content, sem .ifmom (.event e) = true) := by
  by_cases h : f.callOk n
  · simp only [call_of_ok f n h, Option.map_some]
    rw [eventsWalk]
    simp [h]
  · simp [call_of_not_ok f n h, h]

theorem walk_iff (sem : Cb → Obj → Bool) (p : Pkg) : walk sem p = true ↔ WalkHolds sem p := by
  obtain ⟨a, e, r, t⟩ := p
  have ha := fun f => facBot_iff sem .analysis f (Rules.walkArity .analysis) (botWalk_analysis sem)
  have hr := fun f => facBot_iff sem .regress f (Rules.walkArity .regress) (botWalk_regress sem)
  have ht := fun f => facBot_iff sem .task f (Rules.walkArity .task) (botWalk_task sem)
  have he := fun f => facEvents_iff sem f (Rules.walkArity .events)
  constructor
  · intro h
    unfold walk walkWith at h
    simp only [Rules.factoryOrder, List.all_eq_true, List.mem_filter] at h
    refine ⟨?_, ?_, ?_, ?_⟩
    · intro f hf; subst hf
      have := h .analysis (by simp [Pkg.has])
      simp only [Pkg.root, Option.map_some] at this
      exact (ha f).1 (by cases hc : f.call (Rules.walkArity .analysis) <;> simp_all)
    · intro f hf; subst hf
      have := h .events (by simp [Pkg.has])
      simp only [Pkg.root, Option.map_some] at this
      exact (he f).1 (by cases hc : f.call (Rules.walkArity .events) <;> simp_all)
    · intro f hf; subst hf
      have := h .regress (by simp [Pkg.has])
      simp only [Pkg.root, Option.map_some] at this
      exact (hr f).1 (by cases hc : f.call (Rules.walkArity .regress) <;> simp_all)
    · intro f hf; subst hf
      have := h .task (by simp [Pkg.has])
      simp only [Pkg.root, Option.map_some] at this
      exact (ht f).1 (by cases hc : f.call (Rules.walkArity .task) <;> simp_all)
  · intro h
    unfold walk walkWith
    simp only [List.all_eq_true, List.mem_filter]
    rintro k ⟨_, hk⟩
    cases k with
    | analysis =>
      cases a with
      | none => simp [Pkg.has] at hk
      | some f =>
        have := (ha f).2 (h.analysis f rfl)
        simp only [Pkg.root, Option.map_some]
        cases hc : f.call (Rules.walkArity .analysis) <;> simp_all
    | events =>
      cases e with
      | none => simp [Pkg.has] at hk
      | some f =>
        have := (he f).2 (h.events f rfl)
        simp only [Pkg.root, Option.map_some]
        cases hc : f.call (Rules.walkArity .events) <;> simp_all
    | regress =>
      cases r with
      | none => simp [Pkg.has] at hk
      | some f =>
        have := (hr f).2 (h.regress f rfl)
        simp only [Pkg.root, Option.map_some]
        cases hc : f.call (Rules.walkArity .regress) <;> simp_all
    | task =>
      cases t with
      | none => simp [Pkg.has] at hk
      | some f =>
        have := (ht f).2 (h.task f rfl)
        simp only [Pkg.root, Option.map_some]
        cases hc : f.call (Rules.walkArity .task) <;> simp_all

theorem walkHolds_and (s1 s2 : Cb → Obj → Bool) (p : Pkg) :
    (WalkHolds s1 p ∧ WalkHolds s2 p) ↔ WalkHolds (fun c o => s1 c o && s2 c o) p := by
  constructor
  · rintro ⟨h1, h2⟩
    have bw : ∀ k b, BotWalk s1 k b → BotWalk s2 k b → BotWalk (fun c o => s1 c o && s2 c o) k b := by
      intro k b a c
      refine ⟨by simp [a.cb, c.cb], a.list, fun r hr => ?_⟩
      have x := a.routines r hr
      have y := c.routines r hr
      exact ⟨by simp [x.cb, y.cb], x.fb, fun z hz => by simp [x.fbRefs z hz, y.fbRefs z hz], x.deps,
        fun z hz => by simp [x.depRefs z hz, y.depRefs z hz], x.svs,
        fun z hz => by simp [x.svCb z hz, y.svCb z hz],
        fun z hz v hv => by simp [x.vCb z hz v hv, y.vCb z hz v hv]⟩
    exact ⟨fun f hf => ⟨(h1.analysis f hf).1, bw _ _ (h1.analysis f hf).2 (h2.analysis f hf).2⟩,
      fun f hf => ⟨(h1.events f hf).1, fun e he => by simp [(h1.events f hf).2 e he, (h2.events f hf).2 e he]⟩,
      fun f hf => ⟨(h1.regress f hf).1, bw _ _ (h1.regress f hf).2 (h2.regress f hf).2⟩,
      fun f hf => ⟨(h1.task f hf).1, bw _ _ (h1.task f hf).2 (h2.task f hf).2⟩⟩
  · intro h
    have bw : ∀ k b, BotWalk (fun c o => s1 c o && s2 c o) k b → BotWalk s1 k b ∧ BotWalk s2 k b := by
      intro k b a
      have hcb := a.cb
      simp only [Bool.and_eq_true] at hcb
      have hr : ∀ r ∈ b.routines, RoutineWalk s1 k r ∧ RoutineWalk s2 k r := by
        intro r hr
        have x := a.routines r hr
        have c1 := x.cb; simp only [Bool.and_eq_true] at c1
        have c2 := x.fbRefs; simp only [Bool.and_eq_true] at c2
        have c3 := x.depRefs; simp only [Bool.and_eq_true] at c3
        have c4 := x.svCb; simp only [Bool.and_eq_true] at c4
        have c5 := x.vCb; simp only [Bool.and_eq_true] at c5
        exact ⟨⟨c1.1, x.fb, fun z hz => (c2 z hz).1, x.deps, fun z hz => (c3 z hz).1, x.svs,
          fun z hz => (c4 z hz).1, fun z hz v hv => (c5 z hz v hv).1⟩,
          ⟨c1.2, x.fb, fun z hz => (c2 z hz).2, x.deps, fun z hz => (c3 z hz).2, x.svs,
          fun z hz => (c4 z hz).2, fun z hz v hv => (c5 z hz v hv).2⟩⟩
      exact ⟨⟨hcb.1, a.list, fun r h' => (hr r h').1⟩, ⟨hcb.2, a.list, fun r h' => (hr r h').2⟩⟩
    have ev : ∀ f, p.events = some f → (∀ e ∈ f.content, s1 .ifmom (.event e) = true) ∧
        (∀ e ∈ f.content, s2 .ifmom (.event e) = true) := by
      intro f hf
      have x := (h.events f hf).2
      simp only [Bool.and_eq_true] at x
      exact ⟨fun e he => (x e he).1, fun e he => (x e he).2⟩
    exact ⟨⟨fun f hf => ⟨(h.analysis f hf).1, (bw _ _ (h.analysis f hf).2).1⟩,
        fun f hf => ⟨(h.events f hf).1, (ev f hf).1⟩,
        fun f hf => ⟨(h.regress f hf).1, (bw _ _ (h.regress f hf).2).1⟩,
        fun f hf => ⟨(h.task f hf).1, (bw _ _ (h.task f hf).2).1⟩⟩,
      ⟨fun f hf => ⟨(h.analysis f hf).1, (bw _ _ (h.analysis f hf).2).2⟩,
        fun f hf => ⟨(h.events f hf).1, (ev f hf).2⟩,
        fun f hf => ⟨(h.regress f hf).1, (bw _ _ (h.regress f hf).2).2⟩,
        fun f hf => ⟨(h.task f hf).1, (bw _ _ (h.task f hf).2).2⟩⟩⟩

/-- everything the eight walking rules ask at one callback call -/
def semAll (cb : Cb) (o : Obj) : Bool :=
  withCbs "rule_02" sem02 cb o && withCbs "rule_03" sem03 cb o && withCbs "rule_04" sem04 cb o
    && withCbs "rule_05" sem05 cb o && withCbs "rule_07" sem07 cb o && withCbs "rule_08" sem08 cb o
    && withCbs "rule_09" sem09 cb o && withCbs "rule_11" sem11 cb o

theorem walkRules_iff (p : Pkg) :
    (walk (withCbs "rule_02" sem02) p = true ∧ walk (withCbs "rule_03" sem03) p = true
      ∧ walk (withCbs "rule_04" sem04) p = true ∧ walk (withCbs "rule_05" sem05) p = true
      ∧ walk (withCbs "rule_07" sem07) p = true ∧ walk (withCbs "rule_08" sem08) p = true
      ∧ walk (withCbs "rule_09" sem09) p = true ∧ walk (withCbs "rule_11" sem11) p = true)
    ↔ WalkHolds semAll p := by
  simp only [walk_iff]
  unfold semAll
  rw [← walkHolds_and, ← walkHolds_and, ← walkHolds_and, ← walkHolds_and, ← walkHolds_and,
    ← walkHolds_and, ← walkHolds_and]
  simp only [and_assoc]

end DawgieVerif.Compliant
