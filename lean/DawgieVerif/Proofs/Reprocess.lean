import DawgieVerif.Model.Reprocess
import DawgieVerif.Model.ReprocessIO
import DawgieVerif.Proofs.SchedMsgs
import DawgieVerif.Proofs.SchedFlight

namespace DawgieVerif.Reprocess
open DawgieVerif.Sched

/-! ### A. pending work never disappears silently (scheduler side) -/

theorem organize_todo_mono (g : Graph) (s : St) (names : List Name) (rid : Option Nat)
    (targets : List Target) (n : Name) (u : Target) (h : u ∈ (s.node n).todo) :
    u ∈ ((organize g s names rid targets).node n).todo := by
  rw [organize_node, (orgFold_spec g s.targets targets rid names s.node n).2.2.2.1 u]
  exact Or.inl h

theorem deferNode_todo_mono (g : Graph) (s : St) (m : Name) (due : Nat) (n : Name) (u : Target)
    (h : u ∈ (s.node n).todo) : u ∈ ((deferNode g s m due).node n).todo := by
  unfold deferNode
  by_cases h1 : (s.node m).status = .running ∨ (s.node m).status = .waiting
  · simp only [h1, if_true]; exact h
  · simp only [h1, if_false]
    by_cases hn : n = m
    · subst hn
      split
      · simpa using h
      · simp only [setNode_same, mem_updU]; exact Or.inl h
    · split <;> (dsimp only; rw [setNode_other _ _ _ _ hn]; exact h)

theorem foldl_deferNode_todo_mono (g : Graph) (per : List (Name × Nat)) (s : St) (n : Name)
    (u : Target) (h : u ∈ (s.node n).todo) :
    u ∈ ((per.foldl (fun s p => deferNode g s p.1 p.2) s).node n).todo := by
  induction per generalizing s with
  | nil => exact h
  | cons p ps ih =>
    simp only [List.foldl_cons]
    exact ih _ (deferNode_todo_mono g s p.1 p.2 n u h)

theorem defer_todo_mono (g : Graph) (s : St) (per : List (Name × Nat)) (n : Name) (u : Target)
    (h : u ∈ (s.node n).todo) : u ∈ ((defer g s per).node n).todo := by
  unfold defer
  split
  · exact h
  · simp only [prune_node]
    exact foldl_deferNode_todo_mono g per s n u h

theorem releaseJob_keep (g : Graph) (s : St) (x : Name) (n : Name) (t : Target)
    (h : t ∈ (s.node n).todo) :
    t ∈ ((releaseJob g s x).1.node n).todo ∨ (n, t) ∈ (releaseJob g s x).2 := by
  unfold releaseJob
  by_cases hn : n = x
  · subst hn
    by_cases hav : t ∈ available g s n
    · right; simp only [List.mem_map]; exact ⟨t, hav, rfl⟩
    · left; simp only [setNode_same, List.mem_filter]; exact ⟨h, by simpa using hav⟩
  · left; dsimp only; rw [setNode_other _ _ _ _ hn]; exact h

theorem releaseAll_keep (g : Graph) (q : List Name) (s : St) (n : Name) (t : Target)
    (h : t ∈ (s.node n).todo) :
    t ∈ ((releaseAll g s q).1.node n).todo ∨ (n, t) ∈ (releaseAll g s q).2 := by
  induction q generalizing s with
  | nil => exact Or.inl h
  | cons x xs ih =>
    simp only [releaseAll]
    rcases releaseJob_keep g s x n t h with c | c
    · rcases ih _ c with c' | c'
      · exact Or.inl c'
      · exact Or.inr (List.mem_append_right _ c')
    · exact Or.inr (List.mem_append_left _ c)

theorem dispatch_keep (g : Graph) (s : St) (n : Name) (t : Target) (h : t ∈ (s.node n).todo) :
    t ∈ ((dispatch g s).1.node n).todo ∨ (n, t) ∈ (dispatch g s).2 := by
  unfold dispatch
  split
  · exact Or.inl h
  · dsimp only
    rw [((foldl_putJob_spec g _ _).2.2 n).1]
    exact releaseAll_keep g s.que s n t h

/-- a released unit was not in flight before -/
theorem dispatch_released_fresh (g : Graph) (s : St) (h2 : Inv2 g s) (n : Name) (t : Target)
    (h : (n, t) ∈ (dispatch g s).2) : (n, t) ∉ s.inflight := by
  have hnd := (dispatch_inv2 g s h2).nd
  rw [dispatch_inflight] at hnd
  intro c
  exact (List.nodup_append.1 hnd).2.2 _ c _ h rfl

theorem update_todo_mono (g : Graph) (s : St) (x : Name) (t : Target) (rid : Nat)
    (news : List Val) (ne : Bool) (n : Name) (u : Target) (h : u ∈ (s.node n).todo) :
    u ∈ ((update g s x t rid news ne).node n).todo := by
  unfold update
  split
  · exact h
  · dsimp only
    split <;> exact organize_todo_mono g s _ _ _ n u h

theorem reply_success_todo_mono (g : Graph) (s : St) (x : Name) (t : Target) (rid : Nat)
    (news : List Val) (ne : Bool) (n : Name) (u : Target) (h : u ∈ (s.node n).todo) :
    u ∈ ((Sched.reply g s x t .success rid news ne).1.node n).todo := by
  unfold Sched.reply
  split
  · dsimp only
    apply update_todo_mono
    rw [complete_todo]; exact h
  · exact h

theorem reply_inflight (g : Graph) (s : St) (x : Name) (t : Target) (rid : Nat)
    (news : List Val) (ne : Bool) :
    (Sched.reply g s x t .success rid news ne).1.inflight = s.inflight.erase (x, t) := by
  unfold Sched.reply
  split
  · dsimp only
    rw [update_inflight]
    rfl
  · rfl

/-! ### B. bookkeeping lists and the write loop -/

def keys {α : Type} (l : List (Unit' × α)) : List Unit' := l.map (·.1)

theorem lookupK_some_mem {α : Type} {k : Unit'} {l : List (Unit' × α)} {a : α}
    (h : lookupK k l = some a) : (k, a) ∈ l := by
  induction l with
  | nil => simp [lookupK] at h
  | cons e es ih =>
    unfold lookupK at h
    split at h
    · rename_i he
      cases h
      rw [← he]
      exact List.mem_cons_self
    · exact List.mem_cons_of_mem _ (ih h)

theorem lookupK_none {α : Type} {k : Unit'} {l : List (Unit' × α)} :
    lookupK k l = none ↔ k ∉ keys l := by
  induction l with
  | nil => simp [lookupK, keys]
  | cons e es ih =>
    unfold lookupK
    by_cases he : e.1 = k
    · simp [he, keys]
    · simp only [he, if_false, ih, keys, List.map_cons, List.mem_cons, not_or]
      exact ⟨fun h => ⟨fun c => he c.symm, h⟩, fun h => h.2⟩

theorem mem_dropK {α : Type} {k : Unit'} {l : List (Unit' × α)} {e : Unit' × α} :
    e ∈ dropK k l ↔ e ∈ l ∧ e.1 ≠ k := by
  simp [dropK]

theorem mem_keys {α : Type} {l : List (Unit' × α)} {k : Unit'} :
    k ∈ keys l ↔ ∃ a, (k, a) ∈ l := by
  simp only [keys, List.mem_map]
  constructor
  · rintro ⟨e, he, rfl⟩; exact ⟨e.2, he⟩
  · rintro ⟨a, ha⟩; exact ⟨(k, a), ha, rfl⟩

theorem mem_keys_dropK {α : Type} {k k' : Unit'} {l : List (Unit' × α)} :
    k' ∈ keys (dropK k l) ↔ k' ∈ keys l ∧ k' ≠ k := by
  simp only [mem_keys, mem_dropK]
  constructor
  · rintro ⟨a, ha, hne⟩; exact ⟨⟨a, ha⟩, hne⟩
  · rintro ⟨⟨a, ha⟩, hne⟩; exact ⟨a, ha, hne⟩

theorem keys_dropK_nodup {α : Type} {k : Unit'} {l : List (Unit' × α)} (h : (keys l).Nodup) :
    (keys (dropK k l)).Nodup := by
  unfold keys dropK at *
  exact h.sublist (List.Sublist.map _ List.filter_sublist)

theorem keys_unique {α : Type} {l : List (Unit' × α)} (h : (keys l).Nodup) {k : Unit'} {a b : α}
    (ha : (k, a) ∈ l) (hb : (k, b) ∈ l) : a = b := by
  induction l with
  | nil => simp at ha
  | cons e es ih =>
    simp only [keys, List.map_cons, List.nodup_cons] at h
    rcases List.mem_cons.1 ha with c | c <;> rcases List.mem_cons.1 hb with d | d
    · rw [← c] at d; exact (Prod.mk.inj d).2.symm
    · exfalso; apply h.1; rw [← c]; exact List.mem_map.2 ⟨(k, b), d, rfl⟩
    · exfalso; apply h.1; rw [← d]; exact List.mem_map.2 ⟨(k, a), c, rfl⟩
    · exact ih h.2 c d

theorem writeAll_store (t : Target) (outc : Val → Content) (vs : List Val) (a : Acc)
    (v' : Val) (t' : Target) :
    (writeAll t outc vs a).store v' t' = if v' ∈ vs ∧ t' = t then outc v' else a.store v' t' := by
  induction vs generalizing a with
  | nil => simp [writeAll]
  | cons v vs ih =>
    unfold writeAll at ih ⊢
    simp only [List.foldl_cons]
    rw [ih]
    simp only [writeVal, List.mem_cons]
    by_cases h1 : v' ∈ vs ∧ t' = t
    · simp [h1]
    · by_cases h2 : v' = v ∧ t' = t
      · simp [h2]
      · have : ¬((v' = v ∨ v' ∈ vs) ∧ t' = t) := by
          rintro ⟨c | c, ht⟩
          · exact h2 ⟨c, ht⟩
          · exact h1 ⟨c, ht⟩
        simp [h1, h2, this]

theorem writeAll_news_mono (t : Target) (outc : Val → Content) (vs : List Val) (a : Acc) (v : Val)
    (h : v ∈ a.news) : v ∈ (writeAll t outc vs a).news := by
  induction vs generalizing a with
  | nil => exact h
  | cons u vs ih =>
    unfold writeAll at ih ⊢
    simp only [List.foldl_cons]
    apply ih
    simp only [writeVal]
    split
    · exact h
    · exact List.mem_append_left _ h

theorem writeAll_news_sub (t : Target) (outc : Val → Content) (vs : List Val) (a : Acc) (v : Val)
    (h : v ∈ (writeAll t outc vs a).news) : v ∈ a.news ∨ v ∈ vs := by
  induction vs generalizing a with
  | nil => exact Or.inl h
  | cons u vs ih =>
    unfold writeAll at ih h
    simp only [List.foldl_cons] at h
    rcases ih _ h with c | c
    · simp only [writeVal] at c
      split at c
      · exact Or.inl c
      · rcases List.mem_append.1 c with c | c
        · exact Or.inl c
        · right; simp at c; simp [c]
    · exact Or.inr (List.mem_cons_of_mem _ c)

/-- a value whose content is in nobody's way is reported new -/
theorem writeAll_new (t : Target) (outc : Val → Content) (vs : List Val) (a : Acc) (v : Val)
    (hv : v ∈ vs) (hs : outc v ∉ a.seen) (hd : ∀ u ∈ vs, u ≠ v → outc u ≠ outc v) :
    v ∈ (writeAll t outc vs a).news := by
  induction vs generalizing a with
  | nil => simp at hv
  | cons u vs ih =>
    unfold writeAll at ih ⊢
    simp only [List.foldl_cons]
    by_cases huv : u = v
    · subst huv
      apply writeAll_news_mono
      simp only [writeVal, hs, if_false]
      simp
    · have hv' : v ∈ vs := by
        rcases List.mem_cons.1 hv with c | c
        · exact absurd c.symm huv
        · exact c
      apply ih _ hv'
      · simp only [writeVal]
        split
        · exact hs
        · intro c
          rcases List.mem_cons.1 c with c | c
          · exact hd u List.mem_cons_self huv c.symm
          · exact hs c
      · intro u' hu'; exact hd u' (List.mem_cons_of_mem _ hu')

/-! ### C. what the algorithms compute, and the invariant -/

/-- the user code: which values an algorithm writes, which values are written by analyses,
    and the (deterministic) function a unit computes from its source data and the contents
    found in the store -/
structure Sem where
  outs : Name → List Val
  prodA : Val → Bool
  F : Fun

structure SemOk (g : Graph) (T : List Target) (sem : Sem) : Prop where
  /-- a unit reads nothing but its declared inputs, at the targets it reads them -/
  loc : ∀ x u src r r', (∀ v ∈ g.consumes x, ∀ t ∈ readsT g sem.prodA T x u v, r v t = r' v t) →
    ∀ v, sem.F x u src r v = sem.F x u src r' v
  /-- every value has one author -/
  own : ∀ x y v, v ∈ sem.outs x → v ∈ sem.outs y → x = y
  /-- nobody declares an own output as input -/
  noself : ∀ x v, v ∈ sem.outs x → v ∉ g.consumes x
  /-- a declared input is an edge of the graph (`C09.edge_iff`) -/
  edge : ∀ x c v, v ∈ sem.outs x → v ∈ g.consumes c → c ∈ g.children x
  /-- `prodA` marks exactly the values written by analyses -/
  prod : ∀ x v, v ∈ sem.outs x → (sem.prodA v = true ↔ g.kind x = .analysis)

/-- the stored outputs of unit `(c, u)` are what `c` computes from what is stored now -/
def Fresh (sem : Sem) (w : W) (c : Name) (u : Target) : Prop :=
  ∀ v ∈ sem.outs c, w.store v u = sem.F c u (w.source c u) w.store v

/-- a report that will make `(c, u)` pending is on its way -/
def Caused (g : Graph) (w : W) (c : Name) (u : Target) : Prop :=
  ∃ p t news, ((p, t), news) ∈ w.done ∧ c ∈ dependents g p news ∧ u ∈ wanted g w.s.targets [t] c

def Pend (g : Graph) (w : W) (c : Name) (u : Target) : Prop :=
  u ∈ (w.s.node c).todo ∨ Caused g w c u

theorem causedB_iff (g : Graph) (w : W) (c : Name) (u : Target) :
    causedB g w c u = true ↔ Caused g w c u := by
  simp only [causedB, Caused, List.any_eq_true, Bool.and_eq_true, decide_eq_true_eq]
  constructor
  · rintro ⟨⟨⟨p, t⟩, news⟩, hm, hd, hw⟩
    exact ⟨p, t, news, hm, hd, hw⟩
  · rintro ⟨p, t, news, hm, hd, hw⟩
    exact ⟨((p, t), news), hm, hd, hw⟩

theorem pendB_iff (g : Graph) (w : W) (c : Name) (u : Target) :
    pendB g w c u = true ↔ Pend g w c u := by
  simp only [pendB, Pend, Bool.or_eq_true, decide_eq_true_eq, causedB_iff]

instance (g : Graph) (w : W) (c : Name) (u : Target) : Decidable (Pend g w c u) :=
  decidable_of_iff _ (pendB_iff g w c u)

structure Inv3 (g : Graph) (sem : Sem) (T : List Target) (w : W) : Prop where
  main : ∀ c u, u ∈ unitsOf g T c →
    Fresh sem w c u ∨ (c, u) ∈ w.dirty ∨ ((c, u) ∈ w.s.inflight ∧ (c, u) ∉ keys w.done) ∨ Pend g w c u
  snap : ∀ c u src sn, u ∈ unitsOf g T c → ((c, u), (src, sn)) ∈ w.reading →
    (src ≠ w.source c u → (c, u) ∈ w.dirty) ∧
    ∀ v ∈ g.consumes c, ∀ t' ∈ readsT g sem.prodA T c u v, sn v t' ≠ w.store v t' → Pend g w c u
  rk : ∀ k ∈ keys w.reading, k ∈ w.s.inflight
  dk : ∀ k ∈ keys w.done, k ∈ w.s.inflight
  rd : ∀ k ∈ keys w.reading, k ∉ keys w.done
  dn : (keys w.done).Nodup
  /-- a report names only values of its own algorithm -/
  ns : ∀ x t news, ((x, t), news) ∈ w.done → ∀ v ∈ news, v ∈ sem.outs x
  /-- the target set is fixed -/
  tg : w.s.targets = T
  hi : Inv w.s
  h2 : Inv2 g w.s

/-- the premise of the clause: a changed value has content never stored before (and differs
    from everything else the same run writes) -/
def Novel (outs : List Val) (w : W) (t : Target) (outc : Val → Content) : Prop :=
  ∀ v ∈ outs, outc v ≠ w.store v t → outc v ∉ w.seen ∧ ∀ u ∈ outs, u ≠ v → outc u ≠ outc v

/-- what the environment may do: requests, timers, source data changes at any time; a worker
    loads, stores and reports for a unit it was given, in this order, and stores what the
    algorithm computes from what it loaded; every run succeeds; the target set is fixed -/
def WOk (g : Graph) (sem : Sem) (T : List Target) (w : W) : WOp → Prop
  | .sched (.reply _ _ _ _ _ _) => False
  | .sched (.addTarget _) => False
  | .sched _ => True
  | .poke _ _ _ => True
  | .read x t sn => (x, t) ∈ w.s.inflight ∧ (x, t) ∉ keys w.reading ∧ (x, t) ∉ keys w.done ∧
      -- the load finds the latest stored content of everything it reads, or (a load by run id
      -- that found an older version) the unit has been made pending again in the meantime
      ∀ v ∈ g.consumes x, ∀ t' ∈ readsT g sem.prodA T x t v, sn v t' ≠ w.store v t' → Pend g w x t
  | .write x t outc =>
    match lookupK (x, t) w.reading with
    | none => False
    | some (src, sn) => (∀ v ∈ sem.outs x, outc v = sem.F x t src sn v) ∧ Novel (sem.outs x) w t outc
  | .reply x t _ => (x, t) ∈ keys w.done

instance (outs : List Val) (w : W) (t : Target) (outc : Val → Content) : Decidable (Novel outs w t outc) := by
  unfold Novel; infer_instance

instance (g : Graph) (sem : Sem) (T : List Target) (w : W) (op : WOp) : Decidable (WOk g sem T w op) := by
  cases op with
  | sched op => cases op <;> simp only [WOk] <;> infer_instance
  | poke x t c => simp only [WOk]; infer_instance
  | read x t sn => simp only [WOk]; infer_instance
  | write x t outc =>
    simp only [WOk]
    split <;> infer_instance
  | reply x t rid => simp only [WOk]; infer_instance

def ValidW (g : Graph) (sem : Sem) (T : List Target) : W → List WOp → Prop
  | _, [] => True
  | w, op :: ops => WOk g sem T w op ∧ ValidW g sem T (stepW g sem.outs w op) ops

def decValidW (g : Graph) (sem : Sem) (T : List Target) :
    (w : W) → (ops : List WOp) → Decidable (ValidW g sem T w ops)
  | _, [] => isTrue trivial
  | w, op :: ops =>
    match (inferInstance : Decidable (WOk g sem T w op)), decValidW g sem T (stepW g sem.outs w op) ops with
    | isTrue h1, isTrue h2 => isTrue ⟨h1, h2⟩
    | isFalse h1, _ => isFalse fun h => h1 h.1
    | _, isFalse h2 => isFalse fun h => h2 h.2

instance (g : Graph) (sem : Sem) (T : List Target) (w : W) (ops : List WOp) :
    Decidable (ValidW g sem T w ops) :=
  decValidW g sem T w ops

theorem pend_mono (g : Graph) (w w' : W) (c : Name) (t : Target)
    (hnode : ∀ u, u ∈ (w.s.node c).todo → u ∈ (w'.s.node c).todo)
    (htg : w'.s.targets = w.s.targets)
    (hd : ∀ e, e ∈ w.done → e ∈ w'.done) (h : Pend g w c t) : Pend g w' c t := by
  rcases h with h | ⟨p, u, news, hm, hdep, hw⟩
  · left; exact hnode _ h
  · right; exact ⟨p, u, news, hd _ hm, hdep, by rw [htg]; exact hw⟩

/-- any scheduler step that keeps pending work (or moves it into flight) keeps the invariant -/
theorem sched_step_inv3 (g : Graph) (sem : Sem) (T : List Target) (w : W) (s' : St)
    (h : Inv3 g sem T w)
    (htodo : ∀ c t, t ∈ (w.s.node c).todo →
      t ∈ (s'.node c).todo ∨ ((c, t) ∈ s'.inflight ∧ (c, t) ∉ w.s.inflight))
    (hinf : ∀ k, k ∈ w.s.inflight → k ∈ s'.inflight) (htg : s'.targets = w.s.targets)
    (hi' : Inv s') (h2' : Inv2 g s') : Inv3 g sem T { w with s := s' } := by
  have hpend : ∀ c t, Pend g w c t →
      Pend g { w with s := s' } c t ∨ ((c, t) ∈ s'.inflight ∧ (c, t) ∉ w.s.inflight) := by
    intro c t hp
    rcases hp with hp | ⟨p, u, news, hm, hdep, hw⟩
    · rcases htodo c t hp with c1 | c1
      · exact Or.inl (Or.inl c1)
      · exact Or.inr c1
    · exact Or.inl (Or.inr ⟨p, u, news, hm, hdep, by rw [htg]; exact hw⟩)
  refine ⟨?_, ?_, fun k hk => hinf k (h.rk k hk), fun k hk => hinf k (h.dk k hk), h.rd, h.dn, h.ns,
    htg.trans h.tg, hi', h2'⟩
  · intro c t ht
    rcases h.main c t ht with c1 | c1 | c1 | c1
    · exact Or.inl c1
    · exact Or.inr (Or.inl c1)
    · exact Or.inr (Or.inr (Or.inl ⟨hinf _ c1.1, c1.2⟩))
    · rcases hpend c t c1 with c2 | c2
      · exact Or.inr (Or.inr (Or.inr c2))
      · exact Or.inr (Or.inr (Or.inl ⟨c2.1, fun hk => c2.2 (h.dk _ hk)⟩))
  · intro c t src sn ht hmem
    obtain ⟨h1, h2⟩ := h.snap c t src sn ht hmem
    refine ⟨h1, ?_⟩
    intro v hv t' ht' hne
    rcases hpend c t (h2 v hv t' ht' hne) with c2 | c2
    · exact c2
    · exfalso
      exact c2.2 (h.rk _ (mem_keys.2 ⟨_, hmem⟩))

theorem deferNode_inflight (g : Graph) (s : St) (n : Name) (due : Nat) :
    (deferNode g s n due).inflight = s.inflight ∧ (deferNode g s n due).targets = s.targets := by
  unfold deferNode
  dsimp only
  split
  · exact ⟨rfl, rfl⟩
  · split <;> exact ⟨rfl, rfl⟩

theorem foldl_deferNode_inflight (g : Graph) (per : List (Name × Nat)) (s : St) :
    (per.foldl (fun s p => deferNode g s p.1 p.2) s).inflight = s.inflight ∧
    (per.foldl (fun s p => deferNode g s p.1 p.2) s).targets = s.targets := by
  induction per generalizing s with
  | nil => exact ⟨rfl, rfl⟩
  | cons p ps ih =>
    simp only [List.foldl_cons]
    rw [(ih _).1, (ih _).2, (deferNode_inflight g s p.1 p.2).1, (deferNode_inflight g s p.1 p.2).2]
    exact ⟨rfl, rfl⟩

theorem defer_inflight (g : Graph) (s : St) (per : List (Name × Nat)) :
    (defer g s per).inflight = s.inflight ∧ (defer g s per).targets = s.targets := by
  unfold defer
  split
  · exact ⟨rfl, rfl⟩
  · simp only [prune_inflight, prune_targets]
    exact foldl_deferNode_inflight g per s

theorem releaseAll_targets (g : Graph) (q : List Name) (s : St) :
    (releaseAll g s q).1.targets = s.targets := by
  induction q generalizing s with
  | nil => rfl
  | cons x xs ih => simp only [releaseAll]; rw [ih]; rfl

theorem dispatch_targets (g : Graph) (s : St) : (dispatch g s).1.targets = s.targets := by
  unfold dispatch
  split
  · rfl
  · dsimp only
    rw [foldl_putJob_targets, releaseAll_targets]

theorem update_targets (g : Graph) (s : St) (x : Name) (t : Target) (rid : Nat)
    (news : List Val) (ne : Bool) : (update g s x t rid news ne).targets = s.targets := by
  unfold update
  split
  · rfl
  · dsimp only; split <;> rfl

theorem reply_targets (g : Graph) (s : St) (x : Name) (t : Target) (rid : Nat)
    (news : List Val) (ne : Bool) :
    (Sched.reply g s x t .success rid news ne).1.targets = s.targets := by
  unfold Sched.reply
  split
  · dsimp only; rw [update_targets]; rfl
  · rfl

theorem sched_inv3 (g : Graph) (sem : Sem) (T : List Target) (w : W) (op : Op)
    (h : Inv3 g sem T w) (hok : WOk g sem T w (.sched op)) :
    Inv3 g sem T (stepW g sem.outs w (.sched op)) := by
  have hi' : Inv (step g w.s op) := step_inv g w.s op h.hi
  simp only [stepW]
  cases op with
  | organize names rid targets =>
    refine sched_step_inv3 g sem T w _ h ?_ ?_ rfl hi' (step_inv2 g w.s _ h.hi h.h2 trivial)
    · intro c t ht; exact Or.inl (organize_todo_mono g w.s names rid targets c t ht)
    · intro k hk; exact hk
  | dispatch =>
    refine sched_step_inv3 g sem T w _ h ?_ ?_ (dispatch_targets g w.s) hi'
      (step_inv2 g w.s _ h.hi h.h2 trivial)
    · intro c t ht
      simp only [step]
      rcases dispatch_keep g w.s c t ht with c1 | c1
      · exact Or.inl c1
      · right
        refine ⟨?_, dispatch_released_fresh g w.s h.h2 c t c1⟩
        rw [dispatch_inflight]; exact List.mem_append_right _ c1
    · intro k hk
      simp only [step]
      rw [dispatch_inflight]; exact List.mem_append_left _ hk
  | reply x t o rid news ne => exact absurd hok (by simp [WOk])
  | defer per =>
    refine sched_step_inv3 g sem T w _ h ?_ ?_ (defer_inflight g w.s per).2 hi'
      (step_inv2 g w.s _ h.hi h.h2 trivial)
    · intro c t ht; exact Or.inl (defer_todo_mono g w.s per c t ht)
    · intro k hk; simp only [step]; rw [(defer_inflight g w.s per).1]; exact hk
  | pause b =>
    refine sched_step_inv3 g sem T w _ h ?_ ?_ rfl hi' (step_inv2 g w.s _ h.hi h.h2 trivial)
    · intro c t ht; exact Or.inl ht
    · intro k hk; exact hk
  | addTarget t => exact absurd hok (by simp [WOk])

theorem poke_inv3 (g : Graph) (sem : Sem) (T : List Target) (w : W) (x : Name) (t : Target)
    (c : Content) (h : Inv3 g sem T w) : Inv3 g sem T (poke w x t c) := by
  have hsrc : ∀ y u, (y, u) ≠ (x, t) → (poke w x t c).source y u = w.source y u := by
    intro y u hne
    simp only [poke]
    split
    · rename_i hc; exact absurd (by rw [hc.1, hc.2]) hne
    · rfl
  refine ⟨?_, ?_, h.rk, h.dk, h.rd, h.dn, h.ns, h.tg, h.hi, h.h2⟩
  · intro y u hu
    by_cases hk : (y, u) = (x, t)
    · right; left; simp only [poke]; rw [hk]; exact List.mem_cons_self
    · rcases h.main y u hu with c1 | c1 | c1 | c1
      · left
        intro v hv
        have := c1 v hv
        simp only [Fresh] at *
        rw [hsrc y u hk]
        exact this
      · right; left; exact List.mem_cons_of_mem _ c1
      · right; right; left; exact c1
      · right; right; right; exact c1
  · intro y u src sn hu hmem
    obtain ⟨h1, h2⟩ := h.snap y u src sn hu hmem
    refine ⟨?_, h2⟩
    intro hne
    by_cases hk : (y, u) = (x, t)
    · simp only [poke]; rw [hk]; exact List.mem_cons_self
    · rw [hsrc y u hk] at hne
      exact List.mem_cons_of_mem _ (h1 hne)

theorem read_inv3 (g : Graph) (sem : Sem) (T : List Target) (w : W) (x : Name) (t : Target)
    (sn : Val → Target → Content) (h : Inv3 g sem T w) (hok : WOk g sem T w (.read x t sn)) :
    Inv3 g sem T (read w x t sn) := by
  obtain ⟨hinf, hnr, hnd, hload⟩ := hok
  have hdirty : ∀ k, k ≠ (x, t) → k ∈ w.dirty → k ∈ (read w x t sn).dirty := by
    intro k hk hm
    simp only [read, List.mem_filter]
    exact ⟨hm, by simpa using hk⟩
  refine ⟨?_, ?_, ?_, h.dk, ?_, h.dn, h.ns, h.tg, h.hi, h.h2⟩
  · intro y u hu
    rcases h.main y u hu with c1 | c1 | c1 | c1
    · exact Or.inl c1
    · by_cases hk : (y, u) = (x, t)
      · right; right; left; rw [hk]; exact ⟨hinf, hnd⟩
      · right; left; exact hdirty _ hk c1
    · right; right; left; exact c1
    · right; right; right; exact c1
  · intro y u src sn' hu hmem
    simp only [read, List.mem_append, List.mem_singleton] at hmem
    rcases hmem with hmem | hmem
    · obtain ⟨h1, h2⟩ := h.snap y u src sn' hu hmem
      refine ⟨?_, h2⟩
      intro hne
      apply hdirty _ _ (h1 hne)
      intro hk
      apply hnr
      rw [← hk]
      exact mem_keys.2 ⟨_, hmem⟩
    · simp only [Prod.mk.injEq] at hmem
      obtain ⟨⟨rfl, rfl⟩, rfl, rfl⟩ := hmem
      exact ⟨fun c => absurd rfl c, fun v hv t' ht' c => hload v hv t' ht' c⟩
  · intro k hk
    simp only [read, keys, List.map_append, List.mem_append, List.map_cons, List.map_nil,
      List.mem_singleton] at hk
    rcases hk with hk | hk
    · exact h.rk k hk
    · rw [hk]; exact hinf
  · intro k hk
    simp only [read, keys, List.map_append, List.mem_append, List.map_cons, List.map_nil,
      List.mem_singleton] at hk
    rcases hk with hk | hk
    · exact h.rd k hk
    · rw [hk]; exact hnd

theorem mem_dependents {g : Graph} {x c : Name} {news : List Val} :
    c ∈ dependents g x news ↔ c ∈ g.children x ∧ c ≠ x ∧ ∃ v ∈ g.consumes c, v ∈ news := by
  simp [dependents]

/-- a unit that reads cell `(v, t)` is among the units a new value `v` of `(x, t)` re-schedules -/
theorem reads_wanted (g : Graph) (sem : Sem) (T : List Target) (hs : SemOk g T sem) (s : St)
    (htg : s.targets = T) (h2 : Inv2 g s) (x : Name) (t : Target) (hx : (x, t) ∈ s.inflight)
    (v : Val) (hv : v ∈ sem.outs x) (c : Name) (u : Target) (hu : u ∈ unitsOf g T c)
    (ht : t ∈ readsT g sem.prodA T c u v) : u ∈ wanted g s.targets [t] c := by
  have hdo : t ∈ (s.node x).doing := h2.fd x t hx
  unfold readsT at ht
  unfold unitsOf at hu
  unfold wanted
  cases hp : sem.prodA v with
  | true =>
    -- written by an analysis: lives under ALL
    simp only [hp, if_true, List.mem_singleton] at ht
    subst ht
    by_cases hc : g.kind c = .analysis
    · simp only [hc, if_true] at hu ⊢; exact hu
    · simp only [hc, if_false] at hu ⊢
      have : ALL ∈ [ALL] := List.mem_singleton.2 rfl
      simp only [this, if_true]
      rw [htg]; exact hu
  | false =>
    have hkx : g.kind x ≠ .analysis := fun hk => by
      have := (hs.prod x v hv).2 hk; rw [hp] at this; exact Bool.noConfusion this
    have htA : t ≠ ALL := fun e => (h2.kt x hkx).2 (e ▸ hdo)
    simp only [hp, Bool.false_eq_true, if_false] at ht
    by_cases hc : g.kind c = .analysis
    · simp only [hc, if_true] at hu ⊢; exact hu
    · simp only [hc, if_false, List.mem_singleton] at hu ht
      simp only [hc, if_false]
      have : ALL ∉ [t] := by
        intro e; exact htA (List.mem_singleton.1 e).symm
      simp only [this, if_false, List.mem_singleton]
      exact ht.symm

theorem write_inv3 (g : Graph) (sem : Sem) (T : List Target) (w : W) (x : Name) (t : Target)
    (outc : Val → Content) (hs : SemOk g T sem) (h : Inv3 g sem T w)
    (hok : WOk g sem T w (.write x t outc)) : Inv3 g sem T (write sem.outs w x t outc) := by
  have hok' : ∃ src sn, lookupK (x, t) w.reading = some (src, sn) ∧
      (∀ v ∈ sem.outs x, outc v = sem.F x t src sn v) ∧ Novel (sem.outs x) w t outc := by
    simp only [WOk] at hok
    split at hok
    · exact hok.elim
    · rename_i src sn hl; exact ⟨src, sn, hl, hok⟩
  obtain ⟨src, sn, hlk, hout, hnov⟩ := hok'
  have hentry := lookupK_some_mem hlk
  have hxr : (x, t) ∈ keys w.reading := mem_keys.2 ⟨_, hentry⟩
  have hxd : (x, t) ∉ keys w.done := h.rd _ hxr
  have hxi : (x, t) ∈ w.s.inflight := h.rk _ hxr
  let news := (writeAll t outc (sem.outs x) ⟨w.store, w.seen, []⟩).news
  have hstore : ∀ v' t', (write sem.outs w x t outc).store v' t' =
      if v' ∈ sem.outs x ∧ t' = t then outc v' else w.store v' t' := by
    intro v' t'
    simp only [write]
    exact writeAll_store t outc (sem.outs x) ⟨w.store, w.seen, []⟩ v' t'
  have hdone : (write sem.outs w x t outc).done = w.done ++ [((x, t), news)] := rfl
  have hnews : ∀ v ∈ sem.outs x, outc v ≠ w.store v t → v ∈ news := by
    intro v hv hne
    obtain ⟨h1, h2⟩ := hnov v hv hne
    exact writeAll_new t outc (sem.outs x) ⟨w.store, w.seen, []⟩ v hv h1 h2
  have hmono : ∀ c u, Pend g w c u → Pend g (write sem.outs w x t outc) c u := by
    intro c u hp
    refine pend_mono g w _ c u (fun _ hh => hh) rfl ?_ hp
    intro e he; rw [hdone]; exact List.mem_append_left _ he
  -- a changed cell makes the re-run of every unit that reads it certain
  have hchange : ∀ c u v t', u ∈ unitsOf g T c → v ∈ g.consumes c →
      t' ∈ readsT g sem.prodA T c u v →
      (write sem.outs w x t outc).store v t' ≠ w.store v t' →
      Caused g (write sem.outs w x t outc) c u := by
    intro c u v t' hu hv ht' hne
    rw [hstore] at hne
    by_cases hcond : v ∈ sem.outs x ∧ t' = t
    · simp only [hcond, and_self, if_true] at hne
      obtain ⟨hvx, rfl⟩ := hcond
      have hcx : c ≠ x := by
        intro hc; subst hc; exact hs.noself _ _ hvx hv
      refine ⟨x, t', news, ?_, mem_dependents.2 ⟨hs.edge x c v hvx hv, hcx, v, hv, hnews v hvx hne⟩, ?_⟩
      · rw [hdone]; exact List.mem_append_right _ (List.mem_singleton.2 rfl)
      · exact reads_wanted g sem T hs w.s h.tg h.h2 x t' hxi v hvx c u hu ht'
    · simp only [hcond, if_false] at hne
      exact absurd rfl hne
  refine ⟨?_, ?_, ?_, ?_, ?_, ?_, ?_, h.tg, h.hi, h.h2⟩
  · intro c u hu
    by_cases hk : (c, u) = (x, t)
    · obtain ⟨rfl, rfl⟩ := Prod.mk.inj hk
      obtain ⟨hs1, hs2⟩ := h.snap c u src sn hu hentry
      by_cases hsrc : src = w.source c u
      · by_cases hin : ∀ v ∈ g.consumes c, ∀ t' ∈ readsT g sem.prodA T c u v, sn v t' = w.store v t'
        · left
          intro v hv
          rw [hstore]
          simp only [hv, and_self, if_true]
          rw [hout v hv, hsrc]
          apply hs.loc
          intro v' hv' t' ht'
          rw [hstore]
          have : v' ∉ sem.outs c := fun hc => hs.noself _ _ hc hv'
          simp only [this, false_and, if_false]
          exact hin v' hv' t' ht'
        · right; right; right
          have : ∃ v t', v ∈ g.consumes c ∧ t' ∈ readsT g sem.prodA T c u v ∧ sn v t' ≠ w.store v t' := by
            apply Classical.byContradiction
            intro hc
            apply hin
            intro v hv t' ht'
            apply Classical.byContradiction
            intro hne
            exact hc ⟨v, t', hv, ht', hne⟩
          obtain ⟨v, t', hv, ht', hne⟩ := this
          exact hmono _ _ (hs2 v hv t' ht' hne)
      · right; left; exact hs1 hsrc
    · rcases h.main c u hu with c1 | c1 | c1 | c1
      · by_cases hch : ∃ v t', v ∈ g.consumes c ∧ t' ∈ readsT g sem.prodA T c u v ∧
            (write sem.outs w x t outc).store v t' ≠ w.store v t'
        · obtain ⟨v, t', hv, ht', hne⟩ := hch
          right; right; right; right
          exact hchange c u v t' hu hv ht' hne
        · left
          intro v hv
          have hout' : (write sem.outs w x t outc).store v u = w.store v u := by
            rw [hstore]
            have : ¬(v ∈ sem.outs x ∧ u = t) := by
              rintro ⟨hvx, hut⟩
              exact hk (by rw [hs.own _ _ v hv hvx, hut])
            simp only [this, if_false]
          rw [hout', c1 v hv]
          apply hs.loc
          intro v' hv' t' ht'
          apply Classical.byContradiction
          intro hne
          exact hch ⟨v', t', hv', ht', fun hc => hne hc.symm⟩
      · right; left; exact c1
      · right; right; left
        refine ⟨c1.1, ?_⟩
        rw [hdone]
        simp only [keys, List.map_append, List.mem_append, List.map_cons, List.map_nil,
          List.mem_singleton, not_or]
        exact ⟨c1.2, hk⟩
      · right; right; right; exact hmono _ _ c1
  · intro c u src' sn' hu hmem
    have hmem' : ((c, u), (src', sn')) ∈ w.reading ∧ (c, u) ≠ (x, t) := by
      have := (mem_dropK (k := (x, t)) (l := w.reading)).1 hmem
      exact this
    obtain ⟨h1, h2⟩ := h.snap c u src' sn' hu hmem'.1
    refine ⟨h1, ?_⟩
    intro v hv t' ht' hne
    by_cases hsame : (write sem.outs w x t outc).store v t' = w.store v t'
    · rw [hsame] at hne
      exact hmono _ _ (h2 v hv t' ht' hne)
    · right
      exact hchange c u v t' hu hv ht' hsame
  · intro k hk
    exact h.rk k ((mem_keys_dropK (k := (x, t))).1 hk).1
  · intro k hk
    rw [hdone] at hk
    simp only [keys, List.map_append, List.mem_append, List.map_cons, List.map_nil,
      List.mem_singleton] at hk
    rcases hk with hk | hk
    · exact h.dk k hk
    · rw [hk]; exact hxi
  · intro k hk
    obtain ⟨hk1, hk2⟩ := (mem_keys_dropK (k := (x, t))).1 hk
    rw [hdone]
    simp only [keys, List.map_append, List.mem_append, List.map_cons, List.map_nil,
      List.mem_singleton, not_or]
    exact ⟨h.rd k hk1, hk2⟩
  · rw [hdone]
    simp only [keys, List.map_append, List.map_cons, List.map_nil]
    rw [List.nodup_append]
    refine ⟨h.dn, by simp, ?_⟩
    intro a ha b hb hab
    simp at hb
    rw [hab, hb] at ha
    exact hxd ha
  · intro y u nw hmem v hv
    rw [hdone] at hmem
    rcases List.mem_append.1 hmem with hmem | hmem
    · exact h.ns y u nw hmem v hv
    · simp only [List.mem_singleton, Prod.mk.injEq] at hmem
      obtain ⟨⟨rfl, rfl⟩, rfl⟩ := hmem
      rcases writeAll_news_sub u outc (sem.outs y) ⟨w.store, w.seen, []⟩ v hv with c | c
      · simp at c
      · exact c

/-- what the consumers of a new value must be scheduled for (as in `Props/C02`) -/
def affected' (g : Graph) (s : St) (t : Target) (d : Name) : List Target := wanted g s.targets [t] d

/-- `C02.update_complete`, todo part (proved here so that the proofs do not import a Props file) -/
theorem C02aux_update_complete (g : Graph) (s : St) (x : Name) (t : Target) (rid : Nat)
    (news : List Val) (hx : x ∈ s.que) (hnews : news ≠ [])
    (d : Name) (hd : d ∈ dependents g x news ∨ d ∈ fedBack g news) :
    ∀ u ∈ affected' g s t d, u ∈ ((Sched.reply g s x t .success rid news true).1.node d).todo := by
  have hrw : (Sched.reply g s x t .success rid news true).1 =
      update g (complete { s with inflight := s.inflight.erase (x, t) } x t .success rid) x t rid news true := by
    unfold Sched.reply
    simp only [hx, if_true]
  rw [hrw]
  unfold update
  have hne : news.isEmpty = false := by cases news <;> simp_all
  simp only [Bool.not_true, Bool.false_eq_true, if_false, hne]
  have hmem : d ∈ updNames g x news := mem_updNames.2 hd.symm
  generalize hsc : complete { s with inflight := s.inflight.erase (x, t) } x t .success rid = sc
  have htg : sc.targets = s.targets := by rw [← hsc]; rfl
  have hspec := (orgFold_spec g sc.targets [t]
    (if (fedBack g news).isEmpty then some rid else none)
    (updNames g x news) sc.node d).2.2.2.1
  intro u hu
  rw [organize_node, hspec u]
  right
  refine ⟨hmem, ?_⟩
  unfold affected' at hu
  rw [htg]; exact hu

theorem reply_inv3 (g : Graph) (sem : Sem) (T : List Target) (w : W) (x : Name) (t : Target)
    (rid : Nat) (h : Inv3 g sem T w)
    (hok : WOk g sem T w (.reply x t rid)) : Inv3 g sem T (reply g sem.outs w x t rid) := by
  have hok' : (x, t) ∈ keys w.done := hok
  obtain ⟨news, hentry⟩ := mem_keys.1 hok'
  have hlk : lookupK (x, t) w.done = some news := by
    cases hl : lookupK (x, t) w.done with
    | none => exact absurd hok' (lookupK_none.1 hl)
    | some n' => rw [keys_unique h.dn (lookupK_some_mem hl) hentry]
  have hxinf : (x, t) ∈ w.s.inflight := h.dk _ hok'
  have hxq : x ∈ w.s.que := inflight_queued h.hi h.h2 hxinf
  unfold reply
  rw [hlk]
  dsimp only
  generalize hne : (!(sem.outs x).isEmpty) = ne
  have htg' : (Sched.reply g w.s x t .success rid news ne).1.targets = w.s.targets :=
    reply_targets g w.s x t rid news ne
  have hinf' : ∀ k, k ∈ w.s.inflight → k ≠ (x, t) →
      k ∈ (Sched.reply g w.s x t .success rid news ne).1.inflight := by
    intro k hk hkne
    rw [reply_inflight]
    exact (List.mem_erase_of_ne hkne).2 hk
  -- whatever was pending stays pending
  have hpend : ∀ c u, Pend g w c u →
      Pend g { w with s := (Sched.reply g w.s x t .success rid news ne).1,
                      done := dropK (x, t) w.done } c u := by
    intro c u hp
    rcases hp with hp | ⟨p, t', nw, hm, hdep, hw⟩
    · left; exact reply_success_todo_mono g w.s x t rid news ne c u hp
    · by_cases hk : (p, t') = (x, t)
      · obtain ⟨rfl, rfl⟩ := Prod.mk.inj hk
        have hnw : nw = news := keys_unique h.dn hm hentry
        subst hnw
        left
        obtain ⟨_, _, v, _, hvn⟩ := mem_dependents.1 hdep
        have hnn : nw ≠ [] := List.ne_nil_of_mem hvn
        have hout : sem.outs p ≠ [] := List.ne_nil_of_mem (h.ns p t' nw hm v hvn)
        have hne' : ne = true := by
          rw [← hne]; cases ho : sem.outs p with
          | nil => exact absurd ho hout
          | cons _ _ => rfl
        rw [hne']
        exact C02aux_update_complete g w.s p t' rid nw hxq hnn c (Or.inl hdep) u hw
      · right
        exact ⟨p, t', nw, (mem_dropK).2 ⟨hm, hk⟩, hdep, by rw [htg']; exact hw⟩
  refine ⟨?_, ?_, ?_, ?_, ?_, keys_dropK_nodup h.dn, ?_, htg'.trans h.tg,
    reply_inv g w.s x t .success rid news ne h.hi,
    reply_inv2 g w.s x t .success rid news ne h.hi h.h2 hxinf⟩
  · intro c u hu
    rcases h.main c u hu with c1 | c1 | c1 | c1
    · exact Or.inl c1
    · exact Or.inr (Or.inl c1)
    · right; right; left
      have hk : (c, u) ≠ (x, t) := fun hc => c1.2 (hc ▸ hok')
      exact ⟨hinf' _ c1.1 hk, fun hc => c1.2 ((mem_keys_dropK (k := (x, t))).1 hc).1⟩
    · right; right; right; exact hpend c u c1
  · intro c u src sn hu hmem
    obtain ⟨h1, h2⟩ := h.snap c u src sn hu hmem
    exact ⟨h1, fun v hv t' ht' hne' => hpend c u (h2 v hv t' ht' hne')⟩
  · intro k hk
    exact hinf' k (h.rk k hk) (fun hc => h.rd k hk (hc ▸ hok'))
  · intro k hk
    obtain ⟨hk1, hk2⟩ := (mem_keys_dropK (k := (x, t))).1 hk
    exact hinf' k (h.dk k hk1) hk2
  · intro k hk hc
    exact h.rd k hk ((mem_keys_dropK (k := (x, t))).1 hc).1
  · intro y u nw hmem
    exact h.ns y u nw ((mem_dropK).1 hmem).1

/-! ### D. every history; quiescence; the from-scratch run -/

theorem stepW_inv3 (g : Graph) (sem : Sem) (T : List Target) (w : W) (op : WOp)
    (hs : SemOk g T sem) (h : Inv3 g sem T w) (hok : WOk g sem T w op) :
    Inv3 g sem T (stepW g sem.outs w op) := by
  cases op with
  | sched op => exact sched_inv3 g sem T w op h hok
  | poke x t c => exact poke_inv3 g sem T w x t c h
  | read x t sn => exact read_inv3 g sem T w x t sn h hok
  | write x t outc => exact write_inv3 g sem T w x t outc hs h hok
  | reply x t rid => exact reply_inv3 g sem T w x t rid h hok

theorem runW_inv3 (g : Graph) (sem : Sem) (T : List Target) (w : W) (ops : List WOp)
    (hs : SemOk g T sem) (h : Inv3 g sem T w) (hv : ValidW g sem T w ops) :
    Inv3 g sem T (runW g sem.outs w ops) := by
  unfold runW
  induction ops generalizing w with
  | nil => exact h
  | cons op ops ih =>
    simp only [List.foldl_cons]
    exact ih _ (stepW_inv3 g sem T w op hs h hv.1) hv.2

/-- nothing queued, nothing in flight, no source data waiting for its algorithm -/
def Quiet (w : W) : Prop := w.s.que = [] ∧ w.s.inflight = [] ∧ w.dirty = []

theorem quiet_fresh (g : Graph) (sem : Sem) (T : List Target) (w : W) (h : Inv3 g sem T w)
    (hq : Quiet w) : ∀ c u, u ∈ unitsOf g T c → Fresh sem w c u := by
  obtain ⟨hque, hinf, hdirty⟩ := hq
  intro c t ht
  rcases h.main c t ht with c1 | c1 | c1 | c1 | ⟨p, u, news, hm, _, _⟩
  · exact c1
  · rw [hdirty] at c1; simp at c1
  · rw [hinf] at c1; simp at c1
  · have := h.hi.lq c (live_of_work (Or.inl (List.ne_nil_of_mem c1)))
    rw [hque] at this; simp at this
  · have := h.dk _ (mem_keys.2 ⟨news, hm⟩)
    rw [hinf] at this; simp at this

/-- the stored outputs of unit `(c, u)`, as a property of a bare store -/
def FreshAt (sem : Sem) (source : Name → Target → Content) (st : Val → Target → Content)
    (c : Name) (u : Target) : Prop :=
  ∀ v ∈ sem.outs c, st v u = sem.F c u (source c u) st v

/-- dependency order: no algorithm twice, and every declared input of an algorithm is written
    by an algorithm listed before it -/
def TopoFrom (g : Graph) (sem : Sem) : List Name → List Name → Prop
  | _, [] => True
  | pre, x :: rest =>
    x ∉ pre ∧ (∀ v ∈ g.consumes x, ∃ y ∈ pre, v ∈ sem.outs y) ∧ TopoFrom g sem (pre ++ [x]) rest

def Topo (g : Graph) (sem : Sem) (order : List Name) : Prop := TopoFrom g sem [] order

/-- running every unit of `x` from scratch: cells of `x` are recomputed from `st` (nothing `x`
    reads is written by `x`), everything else is untouched -/
theorem scratchNode_spec (g : Graph) (T : List Target) (sem : Sem) (hs : SemOk g T sem)
    (source : Name → Target → Content) (x : Name) (us : List Target) (st : Val → Target → Content) :
    (∀ v t, v ∉ sem.outs x → (us.foldl (scratchUnit sem.outs sem.F source x) st) v t = st v t) ∧
    (∀ v t, t ∉ us → (us.foldl (scratchUnit sem.outs sem.F source x) st) v t = st v t) ∧
    (∀ v u, v ∈ sem.outs x → u ∈ us →
      (us.foldl (scratchUnit sem.outs sem.F source x) st) v u = sem.F x u (source x u) st v) := by
  induction us generalizing st with
  | nil => simp
  | cons u us ih =>
    simp only [List.foldl_cons]
    obtain ⟨i1, i2, i3⟩ := ih (scratchUnit sem.outs sem.F source x st u)
    have hoff : ∀ v t, v ∉ sem.outs x → scratchUnit sem.outs sem.F source x st u v t = st v t := by
      intro v t hv; simp [scratchUnit, hv]
    have hF : ∀ u' v, sem.F x u' (source x u') (scratchUnit sem.outs sem.F source x st u) v =
        sem.F x u' (source x u') st v := by
      intro u' v
      apply hs.loc
      intro v' hv' t' _
      exact hoff v' t' (fun e => hs.noself _ _ e hv')
    refine ⟨?_, ?_, ?_⟩
    · intro v t hv; rw [i1 v t hv, hoff v t hv]
    · intro v t ht
      simp only [List.mem_cons, not_or] at ht
      rw [i2 v t ht.2]
      simp [scratchUnit, ht.1]
    · intro v u' hv hu'
      by_cases hin : u' ∈ us
      · rw [i3 v u' hv hin, hF]
      · rw [i2 v u' hin]
        have : u' = u := by
          rcases List.mem_cons.1 hu' with c | c
          · exact c
          · exact absurd c hin
        subst this
        simp [scratchUnit, hv]

theorem scratch_aux (g : Graph) (T : List Target) (sem : Sem) (hs : SemOk g T sem)
    (source : Name → Target → Content)
    (rest pre : List Name) (st : Val → Target → Content) (ht : TopoFrom g sem pre rest)
    (hpre : ∀ c ∈ pre, (∀ u ∈ unitsOf g T c, FreshAt sem source st c u) ∧
      ∀ v ∈ g.consumes c, ∃ y ∈ pre, v ∈ sem.outs y) :
    ∀ c ∈ pre ++ rest, ∀ u ∈ unitsOf g T c,
      FreshAt sem source (scratch g T sem.outs sem.F source rest st) c u := by
  induction rest generalizing pre st with
  | nil =>
    intro c hc
    simp only [List.append_nil] at hc
    exact (hpre c hc).1
  | cons x rest ih =>
    obtain ⟨hx, hcons, htail⟩ := ht
    unfold scratch at ih ⊢
    simp only [List.foldl_cons]
    obtain ⟨s1, _, s3⟩ := scratchNode_spec g T sem hs source x (unitsOf g T x) st
    have key := ih (pre ++ [x]) (scratchNode g T sem.outs sem.F source st x) htail ?_
    · intro c hc
      apply key
      simp only [List.append_assoc, List.singleton_append]
      exact hc
    · intro c hc
      rcases List.mem_append.1 hc with hc | hc
      · obtain ⟨hf, hp⟩ := hpre c hc
        have hcx : c ≠ x := fun e => hx (e ▸ hc)
        refine ⟨?_, fun v hv => ?_⟩
        · intro u hu v hv
          have hvx : v ∉ sem.outs x := fun e => hcx (hs.own _ _ v hv e)
          unfold scratchNode
          rw [s1 v u hvx, hf u hu v hv]
          apply hs.loc
          intro v' hv' t' _
          obtain ⟨y, hy, hvy⟩ := hp v' hv'
          have hvx' : v' ∉ sem.outs x := fun e => hx ((hs.own _ _ v' hvy e) ▸ hy)
          exact (s1 v' t' hvx').symm
        · obtain ⟨y, hy, hvy⟩ := hp v hv
          exact ⟨y, List.mem_append_left _ hy, hvy⟩
      · simp only [List.mem_singleton] at hc
        subst hc
        refine ⟨?_, fun v hv => ?_⟩
        · intro u hu v hv
          unfold scratchNode
          rw [s3 v u hv hu]
          apply hs.loc
          intro v' hv' t' _
          exact (s1 v' t' (fun e => hs.noself _ _ e hv')).symm
        · obtain ⟨y, hy, hvy⟩ := hcons v hv
          exact ⟨y, List.mem_append_left _ hy, hvy⟩

/-- a from-scratch run in dependency order leaves every unit's outputs computed from what
    is stored -/
theorem scratch_fresh (g : Graph) (T : List Target) (sem : Sem) (hs : SemOk g T sem)
    (source : Name → Target → Content) (order : List Name) (st : Val → Target → Content)
    (ht : Topo g sem order) :
    ∀ c ∈ order, ∀ u ∈ unitsOf g T c,
      FreshAt sem source (scratch g T sem.outs sem.F source order st) c u := by
  have := scratch_aux g T sem hs source order [] st ht (by simp)
  simpa using this

/-- the targets a unit reads a value at are targets the value's author has a unit for -/
theorem reads_unit (g : Graph) (T : List Target) (sem : Sem) (hs : SemOk g T sem) (c : Name)
    (u : Target) (hu : u ∈ unitsOf g T c) (v : Val) (y : Name) (hvy : v ∈ sem.outs y) (t : Target)
    (ht : t ∈ readsT g sem.prodA T c u v) : t ∈ unitsOf g T y := by
  unfold readsT at ht
  unfold unitsOf at hu ⊢
  cases hp : sem.prodA v with
  | true =>
    have := (hs.prod y v hvy).1 hp
    simp only [hp, if_true] at ht
    simp only [this, if_true]; exact ht
  | false =>
    have hky : g.kind y ≠ .analysis := fun hk => by
      have := (hs.prod y v hvy).2 hk; rw [hp] at this; exact Bool.noConfusion this
    simp only [hp, Bool.false_eq_true, if_false] at ht
    simp only [hky, if_false]
    by_cases hc : g.kind c = .analysis
    · simp only [hc, if_true] at ht; exact ht
    · simp only [hc, if_false, List.mem_singleton] at ht hu
      rw [ht]; exact hu

theorem unique_aux (g : Graph) (T : List Target) (sem : Sem) (hs : SemOk g T sem)
    (source : Name → Target → Content)
    (A B : Val → Target → Content) (rest pre : List Name) (ht : TopoFrom g sem pre rest)
    (hpre : ∀ c ∈ pre, ∀ u ∈ unitsOf g T c, ∀ v ∈ sem.outs c, A v u = B v u)
    (hA : ∀ c ∈ rest, ∀ u ∈ unitsOf g T c, FreshAt sem source A c u)
    (hB : ∀ c ∈ rest, ∀ u ∈ unitsOf g T c, FreshAt sem source B c u) :
    ∀ c ∈ pre ++ rest, ∀ u ∈ unitsOf g T c, ∀ v ∈ sem.outs c, A v u = B v u := by
  induction rest generalizing pre with
  | nil => simpa using hpre
  | cons x rest ih =>
    obtain ⟨_, hcons, htail⟩ := ht
    have key := ih (pre ++ [x]) htail ?_ (fun c hc => hA c (List.mem_cons_of_mem _ hc))
      (fun c hc => hB c (List.mem_cons_of_mem _ hc))
    · intro c hc
      apply key
      simp only [List.append_assoc, List.singleton_append]
      exact hc
    · intro c hc u hu v hv
      rcases List.mem_append.1 hc with hc | hc
      · exact hpre c hc u hu v hv
      · simp only [List.mem_singleton] at hc
        subst hc
        rw [hA c List.mem_cons_self u hu v hv, hB c List.mem_cons_self u hu v hv]
        apply hs.loc
        intro v' hv' t' ht'
        obtain ⟨y, hy, hvy⟩ := hcons v' hv'
        exact hpre y hy t' (reads_unit g T sem hs c u hu v' y hvy t' ht') v' hvy

/-- two stores in which every unit's outputs are computed from what is stored agree on
    every produced cell: the from-scratch result is the only consistent store -/
theorem fresh_unique (g : Graph) (T : List Target) (sem : Sem) (hs : SemOk g T sem)
    (source : Name → Target → Content)
    (A B : Val → Target → Content) (order : List Name) (ht : Topo g sem order)
    (hA : ∀ c ∈ order, ∀ u ∈ unitsOf g T c, FreshAt sem source A c u)
    (hB : ∀ c ∈ order, ∀ u ∈ unitsOf g T c, FreshAt sem source B c u) :
    ∀ c ∈ order, ∀ u ∈ unitsOf g T c, ∀ v ∈ sem.outs c, A v u = B v u := by
  have := unique_aux g T sem hs source A B order [] ht (by simp) hA hB
  simpa using this

/-- the state right after everything was requested for every target on an idle scheduler -/
def requested (g : Graph) (T : List Target) (names : List Name)
    (source : Name → Target → Content) (store : Val → Target → Content) (seen : List Content) : W :=
  { s := organize g (St.init T) names none [ALL], source := source, store := store, seen := seen,
    reading := [], done := [], dirty := [] }

theorem requested_inv3 (g : Graph) (sem : Sem) (T : List Target)
    (names : List Name) (hT : ALL ∉ T) (hall : ∀ c, c ∉ names → sem.outs c = [])
    (source : Name → Target → Content) (store : Val → Target → Content) (seen : List Content) :
    Inv3 g sem T (requested g T names source store seen) := by
  refine ⟨?_, ?_, by simp [requested, keys], by simp [requested, keys], by simp [requested, keys],
    by simp [requested, keys], by simp [requested], rfl, ?_, ?_⟩
  · intro c t ht
    by_cases hc : c ∈ names
    · right; right; right; left
      simp only [requested]
      rw [organize_node, (orgFold_spec g (St.init T).targets [ALL] none names (St.init T).node c).2.2.2.1 t]
      right
      refine ⟨hc, ?_⟩
      unfold wanted
      unfold unitsOf at ht
      by_cases hk : g.kind c = .analysis
      · simp only [hk, if_true] at ht ⊢; exact ht
      · simp only [hk, if_false] at ht ⊢
        simpa [St.init] using ht
    · left
      intro v hv
      rw [hall c hc] at hv
      simp at hv
  · intro c t src sn _ hmem
    simp [requested] at hmem
  · exact organize_inv g _ names none [ALL] (inv_init T)
  · exact organize_inv2 g _ names none [ALL] (inv2_init g T hT)

/-! ### E. the Booleans the driver prints are the hypotheses of the theorems -/

theorem okRead_iff (g : Graph) (sem : Sem) (T : List Target) (w : W) (x : Name) (t : Target)
    (sn : Val → Target → Content) :
    okRead g sem.prodA T w x t sn = true ↔ WOk g sem T w (.read x t sn) := by
  simp only [okRead, WOk, Bool.and_eq_true, decide_eq_true_eq, Option.isNone_iff_eq_none,
    lookupK_none, and_assoc, List.all_eq_true, Bool.or_eq_true, beq_iff_eq, pendB_iff]
  constructor
  · rintro ⟨h1, h2, h3, h4⟩
    refine ⟨h1, h2, h3, fun v hv t' ht' hne => ?_⟩
    rcases h4 v hv t' ht' with c | c
    · exact absurd c hne
    · exact c
  · rintro ⟨h1, h2, h3, h4⟩
    refine ⟨h1, h2, h3, fun v hv t' ht' => ?_⟩
    by_cases hc : sn v t' = w.store v t'
    · exact Or.inl hc
    · exact Or.inr (h4 v hv t' ht' hc)

theorem okReply_iff (g : Graph) (sem : Sem) (T : List Target) (w : W) (x : Name) (t : Target)
    (rid : Nat) : okReply w x t = true ↔ WOk g sem T w (.reply x t rid) := by
  simp only [okReply, WOk]
  cases h : lookupK (x, t) w.done with
  | none => simp [lookupK_none.1 h]
  | some a => simp; exact mem_keys.2 ⟨a, lookupK_some_mem h⟩

theorem novelB_iff (outs : List Val) (w : W) (t : Target) (outc : Val → Content) :
    novelB outs w t outc = true ↔ Novel outs w t outc := by
  simp only [novelB, Novel, List.all_eq_true, Bool.or_eq_true, beq_iff_eq, Bool.and_eq_true,
    Bool.not_eq_true', decide_eq_false_iff_not, bne_iff_ne, ne_eq]
  constructor
  · intro h v hv hne
    rcases h v hv with c | c
    · exact absurd c hne
    · refine ⟨c.1, fun u hu huv => ?_⟩
      rcases c.2 u hu with d | d
      · exact absurd d huv
      · exact d
  · intro h v hv
    by_cases hc : outc v = w.store v t
    · exact Or.inl hc
    · right
      obtain ⟨h1, h2⟩ := h v hv hc
      refine ⟨h1, fun u hu => ?_⟩
      by_cases huv : u = v
      · exact Or.inl huv
      · exact Or.inr (h2 u hu huv)

theorem okWrite_of_wok (g : Graph) (sem : Sem) (T : List Target) (w : W) (x : Name) (t : Target)
    (outc : Val → Content) (h : WOk g sem T w (.write x t outc)) :
    okWrite w x t = true ∧ novelB (sem.outs x) w t outc = true := by
  simp only [WOk] at h
  simp only [okWrite]
  split at h
  · exact h.elim
  · rename_i src sn hl
    rw [hl]
    exact ⟨rfl, (novelB_iff _ _ _ _).2 h.2⟩

/-! ### F. run ids: pending work is never moved back to an older run -/

theorem updU_ne_nil {xs ys : List Target} (h : xs ≠ []) : updU xs ys ≠ [] := by
  obtain ⟨u, hu⟩ := List.exists_mem_of_ne_nil _ h
  exact List.ne_nil_of_mem (mem_updU.2 (Or.inl hu))

theorem orgFold_runid (g : Graph) (all targets : List Target) (a : Nat) (names : List Name)
    (f : Name → Node) (m : Name) (b : Nat) (hm : m ∈ names) (ht : (f m).todo ≠ [])
    (hb : (f m).runid = some b) :
    (orgFold g all targets (some a) names f m).runid = some (max a b) ∧
    (orgFold g all targets (some a) names f m).todo ≠ [] := by
  induction names generalizing f b with
  | nil => simp at hm
  | cons y ys ih =>
    unfold orgFold at ih ⊢
    simp only [List.foldl_cons]
    by_cases hy : y = m
    · subst hy
      have ht' : (setNode f y (organizeNode g all targets (some a) y (f y)) y).todo ≠ [] := by
        simp only [setNode_same, organizeNode]
        exact updU_ne_nil ht
      have hb' : (setNode f y (organizeNode g all targets (some a) y (f y)) y).runid = some (max a b) := by
        simp only [setNode_same, organizeNode, mergeRid, hb]
        have : (f y).todo.isEmpty = false := by
          cases h : (f y).todo with
          | nil => exact absurd h ht
          | cons _ _ => rfl
        simp [this]
      by_cases hys : y ∈ ys
      · have := ih _ (max a b) hys ht' hb'
        rw [Nat.max_eq_right (Nat.le_max_left a b)] at this
        · exact this
      · have h5 := (orgFold_spec g all targets (some a) ys
          (setNode f y (organizeNode g all targets (some a) y (f y))) y).2.2.2.2 hys
        unfold orgFold at h5
        rw [h5]
        exact ⟨hb', ht'⟩
    · have hm' : m ∈ ys := by
        rcases List.mem_cons.1 hm with c | c
        · exact absurd c.symm hy
        · exact c
      have hne : m ≠ y := fun c => hy c.symm
      apply ih _ b hm'
      · rw [setNode_other _ _ _ _ hne]; exact ht
      · rw [setNode_other _ _ _ _ hne]; exact hb

end DawgieVerif.Reprocess
