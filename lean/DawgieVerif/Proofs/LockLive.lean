/-
Helper lemmas for the liveness part of C13: infinite schedules, the number of live waiters as a
measure that every grant decreases.
-/
import DawgieVerif.Proofs.Lock

namespace DawgieVerif.Lock
open DawgieVerif.Generated.Lock

/-- state after the first `k` events of an infinite schedule -/
def runN (s : St) (σ : Nat → Op) : Nat → St
  | 0 => s
  | k + 1 => (step (runN s σ k) (σ k)).1

/-- the event is not a new lock request -/
def NoAcq (op : Op) : Prop := ∀ c w, op ≠ .acquire c w

def waitingB (s : St) (d : Nat) : Bool :=
  (s.conn d).running && !(s.conn d).stopped && !(s.conn d).lost

theorem waitingB_iff (s : St) (d : Nat) : waitingB s d = true ↔ waiting s d := by
  unfold waitingB waiting
  cases (s.conn d).running <;> cases (s.conn d).stopped <;> cases (s.conn d).lost <;> simp

/-- number of live waiters among `ws` -/
def mu (s : St) (ws : List Nat) : Nat := ws.countP (waitingB s)

/-! ### single events -/

/-- without a new request nobody starts waiting -/
theorem waiting_anti {s : St} {op : Op} {d : Nat} (hna : NoAcq op)
    (h : waiting (step s op).1 d) : waiting s d := by
  by_cases hd : d = op.client
  · subst hd
    cases op with
    | acquire c w => exact absurd rfl (hna c w)
    | tick c =>
      simp only [Op.client] at h ⊢
      simp only [step] at h
      split at h
      · rcases poll_cases s c with h1 | ⟨_, _, _, h2⟩ | ⟨_, h3⟩
        · rw [h1] at h; exact h
        · rw [h2] at h
          have := h.2.1
          simp at this
        · rw [h3] at h; exact h
      · exact h
    | release c w =>
      simp only [Op.client] at h ⊢
      simp only [step, doRelease] at h
      split at h
      · simpa [waiting] using h
      · exact h
    | disconnect c =>
      simp only [Op.client] at h ⊢
      simp only [step, connectionLost_eq] at h
      have := h.2.2
      simp [lostConn] at this
    | stopTimer c =>
      simp only [Op.client] at h ⊢
      simp only [step] at h
      split at h
      · exact h
      · split at h
        · have := h.1
          simp at this
        · simpa [waiting] using h
  · unfold waiting at h ⊢
    rw [step_other s op hd] at h
    exact h

/-- a live waiter stays a live waiter until its own poll finds the lock free -/
theorem waiting_persists {s : St} (hi : Inv s) {c : Nat} (hw : waiting s c) {op : Op}
    (hna : NoAcq op) (hnd : op ≠ .disconnect c) :
    waiting (step s op).1 c ∨ (op = .tick c ∧ s.lock = false) := by
  by_cases hc : c = op.client
  · subst hc
    cases op with
    | acquire c w => exact absurd rfl (hna c w)
    | tick c =>
      simp only [Op.client] at hw ⊢
      rcases poll_cases s c with h1 | ⟨hf, _, _, _⟩ | ⟨_, h3⟩
      · left; simp only [step, hw.1, if_true, h1]; exact hw
      · right; exact ⟨trivial, hf⟩
      · left; simp only [step, hw.1, if_true, h3]; exact hw
    | release c w =>
      simp only [Op.client] at hw ⊢
      left
      simp only [step, doRelease]
      split
      · simpa [waiting] using hw
      · exact hw
    | disconnect c => exact absurd rfl hnd
    | stopTimer c =>
      simp only [Op.client] at hw ⊢
      left
      have hp0 := pending_zero hi hw.2.1
      simp only [step, hp0, if_true]
      exact hw
  · left
    unfold waiting
    rw [step_other s op hc]
    exact hw

/-- an owner stays owner until an event that frees the lock -/
theorem owner_stays {s : St} (hi : Inv s) {d : Nat} (hd : holds s d) (op : Op) :
    holds (step s op).1 d ∨ (step s op).1.lock = false := by
  unfold holds at hd ⊢
  have hst := (hi.holderFlags d hd).1
  by_cases hc : d = op.client
  · subst hc
    cases op with
    | acquire c w =>
      simp only [Op.client] at hd hst ⊢
      left
      simp only [step]
      split
      · exact hd
      · rw [poll_silent (Or.inl (by simpa using hst))]
        simpa using hd
    | tick c =>
      simp only [Op.client] at hd hst ⊢
      left
      simp only [step]
      split
      · rw [poll_silent (Or.inl hst)]; exact hd
      · exact hd
    | release c w =>
      simp only [Op.client] at hd ⊢
      right
      simp [step, doRelease, hd]
    | disconnect c =>
      simp only [Op.client] at hd ⊢
      right
      simp [step, connectionLost_eq, hd]
    | stopTimer c =>
      simp only [Op.client] at hd ⊢
      left
      simp only [step]
      split
      · exact hd
      · split <;> simpa using hd
  · left
    rw [step_other s op hc]
    exact hd

/-- without a new request the lock is taken only by the poll of a live waiter -/
theorem lock_taken {s : St} {op : Op} (hna : NoAcq op) (hf : s.lock = false)
    (ht : (step s op).1.lock = true) : ∃ d, op = .tick d ∧ waiting s d := by
  cases op with
  | acquire c w => exact absurd rfl (hna c w)
  | tick c =>
    refine ⟨c, rfl, ?_⟩
    simp only [step] at ht
    split at ht
    · rename_i hr
      rcases poll_cases s c with h1 | ⟨_, hs, hl, _⟩ | ⟨hl, _⟩
      · rw [h1] at ht; simp only at ht; rw [hf] at ht; cases ht
      · exact ⟨hr, hs, hl⟩
      · rw [hf] at hl; cases hl
    · simp only at ht; rw [hf] at ht; cases ht
  | release c w =>
    simp only [step, doRelease] at ht
    split at ht
    · simp at ht
    · simp only at ht; rw [hf] at ht; cases ht
  | disconnect c =>
    simp only [step, connectionLost_eq] at ht
    split at ht
    · cases ht
    · rw [hf] at ht; cases ht
  | stopTimer c =>
    rw [stop_lock, hf] at ht; cases ht

/-! ### counting -/

theorem countP_lt_of {α : Type} {p q : α → Bool} :
    ∀ {l : List α}, (∀ x ∈ l, p x = true → q x = true) →
      ∀ {a : α}, a ∈ l → q a = true → p a = false → l.countP p < l.countP q
  | [], _, _, ha, _, _ => by cases ha
  | b :: l, himp, a, ha, hq, hp => by
    have himp' : ∀ x ∈ l, p x = true → q x = true :=
      fun x hx => himp x (List.mem_cons_of_mem _ hx)
    have hle : l.countP p ≤ l.countP q := List.countP_mono_left himp'
    rw [List.countP_cons, List.countP_cons]
    rcases List.mem_cons.mp ha with hab | ha'
    · subst hab
      rw [hq, hp]
      simp only [if_true, Bool.false_eq_true, if_false]
      omega
    · have hlt := countP_lt_of himp' ha' hq hp
      have hb := himp b (List.mem_cons_self ..)
      cases hpb : p b with
      | false =>
        simp only [Bool.false_eq_true, if_false]
        split <;> omega
      | true =>
        rw [hb hpb]
        simp only [if_true]
        omega

theorem mu_mono {s : St} {op : Op} (hna : NoAcq op) (ws : List Nat) :
    mu (step s op).1 ws ≤ mu s ws := by
  unfold mu
  apply List.countP_mono_left
  intro d _ hd
  exact (waitingB_iff _ _).mpr (waiting_anti hna ((waitingB_iff _ _).mp hd))

theorem mu_grant {s : St} {c : Nat} {ws : List Nat} (hc : c ∈ ws) (hf : s.lock = false)
    (hw : waiting s c) : mu (step s (.tick c)).1 ws < mu s ws := by
  unfold mu
  apply countP_lt_of (a := c)
  · intro d _ hd
    exact (waitingB_iff _ _).mpr
      (waiting_anti (fun _ _ h => by cases h) ((waitingB_iff _ _).mp hd))
  · exact hc
  · exact (waitingB_iff _ _).mpr hw
  · rw [tick_grants hf hw]
    simp [waitingB]

/-! ### infinite schedules -/

theorem inv_runN {s : St} (hi : Inv s) (σ : Nat → Op) : ∀ k, Inv (runN s σ k)
  | 0 => hi
  | k + 1 => inv_step (inv_runN hi σ k) (σ k)

theorem waiting_runN_anti {s : St} {σ : Nat → Op} (hna : ∀ k, NoAcq (σ k)) {d : Nat} :
    ∀ k, waiting (runN s σ k) d → waiting s d
  | 0, h => h
  | k + 1, h => waiting_runN_anti hna k (waiting_anti (hna k) h)

theorem mu_runN_mono {s : St} {σ : Nat → Op} (hna : ∀ k, NoAcq (σ k)) (ws : List Nat) (k : Nat) :
    ∀ m, mu (runN s σ (k + m)) ws ≤ mu (runN s σ k) ws
  | 0 => Nat.le_refl _
  | m + 1 => Nat.le_trans (mu_mono (hna (k + m)) ws) (mu_runN_mono hna ws k m)

/-- the moment at which `c` polls as a live waiter and finds the lock free -/
def GrantAt (s : St) (σ : Nat → Op) (c : Nat) (j : Nat) : Prop :=
  σ j = .tick c ∧ (runN s σ j).lock = false ∧ waiting (runN s σ j) c

theorem persist {s : St} (hi : Inv s) {σ : Nat → Op} {c : Nat} (hna : ∀ k, NoAcq (σ k))
    (halive : ∀ k, σ k ≠ .disconnect c) (k : Nat) (hw : waiting (runN s σ k) c) :
    ∀ m, waiting (runN s σ (k + m)) c ∨ ∃ j, k ≤ j ∧ GrantAt s σ c j
  | 0 => Or.inl hw
  | m + 1 => by
    rcases persist hi hna halive k hw m with h | h
    · rcases waiting_persists (inv_runN hi σ (k + m)) h (hna (k + m)) (halive (k + m)) with h' | h'
      · exact Or.inl h'
      · exact Or.inr ⟨k + m, Nat.le_add_right _ _, h'.1, h'.2, h⟩
    · exact Or.inr h

/-- an owner that stops being owner leaves the lock free at some moment in between -/
theorem first_free {s : St} (hi : Inv s) {σ : Nat → Op} {d : Nat} :
    ∀ m k, holds (runN s σ k) d → ¬ holds (runN s σ (k + m)) d →
      ∃ j, k ≤ j ∧ (runN s σ j).lock = false
  | 0, _, h, hn => absurd h hn
  | m + 1, k, h, hn => by
    rcases owner_stays (inv_runN hi σ k) h (σ k) with h' | h'
    · have hn' : ¬ holds (runN s σ (k + 1 + m)) d := by
        have : k + 1 + m = k + (m + 1) := by omega
        rw [this]; exact hn
      obtain ⟨j, hj, hf⟩ := first_free hi m (k + 1) h' hn'
      exact ⟨j, by omega, hf⟩
    · exact ⟨k + 1, by omega, h'⟩

/-- between a moment with the lock free and a later moment with the lock taken a waiter was
    granted: the number of waiters went down -/
theorem mu_drop {s : St} {σ : Nat → Op} (hna : ∀ k, NoAcq (σ k)) {ws : List Nat}
    (hws : ∀ d, waiting s d → d ∈ ws) :
    ∀ m k, (runN s σ k).lock = false → (runN s σ (k + m)).lock = true →
      mu (runN s σ (k + m)) ws < mu (runN s σ k) ws
  | 0, k, hf, ht => by simp only [Nat.add_zero] at ht; rw [hf] at ht; cases ht
  | m + 1, k, hf, ht => by
    have heq : k + (m + 1) = k + 1 + m := by omega
    rw [heq] at ht ⊢
    cases hl : (runN s σ (k + 1)).lock with
    | true =>
      obtain ⟨d, hop, hwd⟩ := lock_taken (hna k) hf hl
      have hd : d ∈ ws := hws d (waiting_runN_anti hna k hwd)
      have h1 : mu (runN s σ (k + 1)) ws < mu (runN s σ k) ws := by
        show mu (step (runN s σ k) (σ k)).1 ws < _
        rw [hop]; exact mu_grant hd hf hwd
      exact Nat.lt_of_le_of_lt (mu_runN_mono hna ws (k + 1) m) h1
    | false =>
      have h1 := mu_drop hna hws m (k + 1) hl ht
      have h2 : mu (runN s σ (k + 1)) ws ≤ mu (runN s σ k) ws := mu_mono (hna k) ws
      omega

/-- the measure argument: with `n` bounding the number of live waiters, a live waiter that keeps
    polling reaches a poll that finds the lock free -/
theorem grant_exists {s : St} (hi : Inv s) {σ : Nat → Op} {c : Nat} {ws : List Nat}
    (hws : ∀ d, waiting s d → d ∈ ws)
    (hna : ∀ k, NoAcq (σ k))
    (hfair : ∀ k, ∃ k', k ≤ k' ∧ σ k' = .tick c)
    (halive : ∀ k, σ k ≠ .disconnect c)
    (hrel : ∀ k d, d ≠ c → holds (runN s σ k) d → ∃ k', k ≤ k' ∧ ¬ holds (runN s σ k') d) :
    ∀ n k, mu (runN s σ k) ws ≤ n → waiting (runN s σ k) c → ∃ j, k ≤ j ∧ GrantAt s σ c j := by
  intro n
  induction n using Nat.strongRecOn with
  | ind n ih =>
    intro k hmu hw
    -- 1. a moment k1 ≥ k at which the lock is free
    have hfree : ∃ k1, k ≤ k1 ∧ (runN s σ k1).lock = false := by
      cases hl : (runN s σ k).lock with
      | false => exact ⟨k, Nat.le_refl _, hl⟩
      | true =>
        have hik := inv_runN hi σ k
        obtain ⟨d, hd⟩ := hik.lockHolder hl
        have hdc : d ≠ c := by
          intro hdc; subst hdc
          have := (hik.holderFlags d hd).1
          rw [hw.2.1] at this; cases this
        obtain ⟨k', hk', hn⟩ := hrel k d hdc hd
        obtain ⟨m, rfl⟩ := Nat.exists_eq_add_of_le hk'
        exact first_free hi m k hd hn
    obtain ⟨k1, hk1, hf1⟩ := hfree
    obtain ⟨m1, rfl⟩ := Nat.exists_eq_add_of_le hk1
    rcases persist hi hna halive k hw m1 with hw1 | ⟨j, hj, hg⟩
    · -- 2. the next poll of c
      obtain ⟨k2, hk2, htick⟩ := hfair (k + m1)
      obtain ⟨m2, rfl⟩ := Nat.exists_eq_add_of_le hk2
      rcases persist hi hna halive (k + m1) hw1 m2 with hw2 | ⟨j, hj, hg⟩
      · cases hl2 : (runN s σ (k + m1 + m2)).lock with
        | false => exact ⟨k + m1 + m2, by omega, htick, hl2, hw2⟩
        | true =>
          -- somebody else was granted in between: fewer waiters, start again
          have hlt := mu_drop hna hws m2 (k + m1) hf1 hl2
          have hle := mu_runN_mono (s := s) hna ws k m1
          obtain ⟨j, hj, hg⟩ :=
            ih (mu (runN s σ (k + m1 + m2)) ws) (by omega) (k + m1 + m2) (Nat.le_refl _) hw2
          exact ⟨j, by omega, hg⟩
      · exact ⟨j, by omega, hg⟩
    · exact ⟨j, hj, hg⟩

/-! ### finitely many connections have been used -/

theorem untouched {ops : List Op} {s : St} {d : Nat} (h : d ∉ ops.map Op.client) :
    (run s ops).conn d = s.conn d := by
  induction ops generalizing s with
  | nil => rfl
  | cons op ops ih =>
    simp only [List.map_cons, List.mem_cons, not_or] at h
    simp only [run]
    rw [ih h.2, step_other s op h.1]

theorem waiters_finite (pre : List Op) (d : Nat) (h : waiting (run init pre) d) :
    d ∈ pre.map Op.client := by
  apply Classical.byContradiction
  intro hn
  have := h.1
  rw [untouched hn] at this
  simp [init] at this

end DawgieVerif.Lock
