/-
C18 helper lemmas, part A: the sort key is a total pre-order; the read-modify-write of
`chronicle.append` keeps every earlier entry and adds exactly the new one.
-/
import DawgieVerif.Model.Chronicle
namespace DawgieVerif.Chronicle
open DawgieVerif.Cal
open DawgieVerif.Generated.Chronicle (requiredKeys statusWord keep floorYear floorMonth floorDay oneUs onedayUs)

/-! ### the sort key is a total pre-order -/

theorem keyGe_total (a b : Entry) : (keyGe a b || keyGe b a) = true := by
  simp only [keyGe, Bool.or_eq_true, Bool.and_eq_true, decide_eq_true_eq, beq_iff_eq]
  rcases Int.lt_trichotomy a.completed b.completed with h | h | h
  · right; left; exact h
  · rcases Int.lt_trichotomy a.runid b.runid with h' | h' | h'
    · right; right; exact ⟨h.symm, Or.inl h'⟩
    · by_cases ht : a.target = b.target
      · rcases String.le_total a.task b.task with h3 | h3
        · right; right; exact ⟨h.symm, Or.inr ⟨h'.symm, Or.inr ⟨ht.symm, h3⟩⟩⟩
        · left; right; exact ⟨h, Or.inr ⟨h', Or.inr ⟨ht, h3⟩⟩⟩
      · rcases String.le_total a.target b.target with h3 | h3
        · have : a.target < b.target := by
            rcases Std.le_iff_lt_or_eq.mp h3 with h | h
            · exact h
            · exact absurd h ht
          right; right; exact ⟨h.symm, Or.inr ⟨h'.symm, Or.inl this⟩⟩
        · have : b.target < a.target := by
            rcases Std.le_iff_lt_or_eq.mp h3 with h | h
            · exact h
            · exact absurd h.symm ht
          left; right; exact ⟨h, Or.inr ⟨h', Or.inl this⟩⟩
    · left; right; exact ⟨h, Or.inl h'⟩
  · left; left; exact h

theorem keyGe_trans (a b c : Entry) (h1 : keyGe a b = true) (h2 : keyGe b c = true) :
    keyGe a c = true := by
  simp only [keyGe, Bool.or_eq_true, Bool.and_eq_true, decide_eq_true_eq, beq_iff_eq] at *
  grind [String.lt_trans, String.le_trans, String.lt_irrefl, Std.lt_of_lt_of_le, Std.lt_of_le_of_lt]

theorem keyGe_of_lt {a b : Entry} (h : b.completed < a.completed) : keyGe a b = true := by
  simp [keyGe, h]

theorem le_of_keyGe {a b : Entry} (h : keyGe a b = true) : b.completed ≤ a.completed := by
  simp only [keyGe, Bool.or_eq_true, Bool.and_eq_true, decide_eq_true_eq, beq_iff_eq] at h
  omega

/-! ### store invariants -/

/-- every entry lies in the file its completion date and run id designate -/
def FilesOK (j : Journal) : Prop := ∀ f ∈ j, ∀ e ∈ f.entries, dirOf e = f.dir ∧ e.runid = f.runid

/-- at most one file per (directory, run id) -/
def Unique (j : Journal) : Prop := j.Pairwise (fun f g => ¬ (f.dir = g.dir ∧ f.runid = g.runid))

theorem sameFile_iff {d : Civil} {r : Int} {f : File} : sameFile d r f = true ↔ f.dir = d ∧ f.runid = r := by
  simp [sameFile]

theorem writeFile_cons_ne {f : File} {fs : Journal} {d : Civil} {r : Int} (es : List Entry)
    (h : sameFile d r f = false) : writeFile (f :: fs) d r es = f :: writeFile fs d r es := by
  unfold writeFile
  simp only [List.any_cons, h, Bool.false_or, List.map_cons, Bool.false_eq_true, if_false]
  split <;> simp

theorem map_noop {fs : Journal} {d : Civil} {r : Int} (es : List Entry)
    (h : ∀ g ∈ fs, sameFile d r g = false) :
    fs.map (fun f => if sameFile d r f then { f with entries := es } else f) = fs := by
  induction fs with
  | nil => rfl
  | cons g gs ih =>
    simp only [List.map_cons, h g (List.mem_cons_self), Bool.false_eq_true, if_false]
    rw [ih (fun x hx => h x (List.mem_cons_of_mem _ hx))]

theorem writeFile_cons_eq {f : File} {fs : Journal} {d : Civil} {r : Int} (es : List Entry)
    (h : sameFile d r f = true) (hu : ∀ g ∈ fs, sameFile d r g = false) :
    writeFile (f :: fs) d r es = { f with entries := es } :: fs := by
  unfold writeFile
  simp only [List.any_cons, h, Bool.true_or, if_true, List.map_cons]
  rw [map_noop es hu]

theorem readFile_cons_ne {f : File} {fs : Journal} {d : Civil} {r : Int}
    (h : sameFile d r f = false) : readFile (f :: fs) d r = readFile fs d r := by
  simp [readFile, h]

theorem readFile_cons_eq {f : File} {fs : Journal} {d : Civil} {r : Int}
    (h : sameFile d r f = true) : readFile (f :: fs) d r = f.entries := by
  simp [readFile, h]

theorem readFile_none {fs : Journal} {d : Civil} {r : Int}
    (h : ∀ g ∈ fs, sameFile d r g = false) : readFile fs d r = [] := by
  induction fs with
  | nil => rfl
  | cons g gs ih =>
    rw [readFile_cons_ne (h g List.mem_cons_self)]
    exact ih (fun x hx => h x (List.mem_cons_of_mem _ hx))

theorem unique_tail_ne {f : File} {fs : Journal} (hu : Unique (f :: fs)) {d : Civil} {r : Int}
    (h : sameFile d r f = true) : ∀ g ∈ fs, sameFile d r g = false := by
  intro g hg
  have := (List.pairwise_cons.mp hu).1 g hg
  rw [sameFile_iff] at h
  cases hs : sameFile d r g with
  | false => rfl
  | true =>
    rw [sameFile_iff] at hs
    exact absurd ⟨h.1.trans hs.1.symm, h.2.trans hs.2.symm⟩ this

/-- reading back what was written; other files are untouched -/
theorem readFile_writeFile_same {j : Journal} (hu : Unique j) (d : Civil) (r : Int) (es : List Entry) :
    readFile (writeFile j d r es) d r = es := by
  induction j with
  | nil => simp [writeFile, readFile, sameFile]
  | cons f fs ih =>
    cases h : sameFile d r f with
    | true =>
      rw [writeFile_cons_eq es h (unique_tail_ne hu h)]
      exact readFile_cons_eq (by simpa [sameFile] using h)
    | false =>
      rw [writeFile_cons_ne es h, readFile_cons_ne h]
      exact ih (List.pairwise_cons.mp hu).2

theorem readFile_writeFile_other {j : Journal} (d d' : Civil) (r r' : Int) (es : List Entry)
    (hne : ¬ (d' = d ∧ r' = r)) :
    readFile (writeFile j d r es) d' r' = readFile j d' r' := by
  induction j with
  | nil =>
    have : sameFile d' r' ⟨d, r, es⟩ = false := by
      cases hs : sameFile d' r' ⟨d, r, es⟩ with
      | false => rfl
      | true => rw [sameFile_iff] at hs; exact absurd ⟨hs.1.symm, hs.2.symm⟩ hne
    simp [writeFile, readFile, this]
  | cons f fs ih =>
    cases h : sameFile d r f with
    | true =>
      have hf : sameFile d' r' f = false := by
        cases hs : sameFile d' r' f with
        | false => rfl
        | true =>
          rw [sameFile_iff] at hs h
          exact absurd ⟨hs.1.symm.trans h.1, hs.2.symm.trans h.2⟩ hne
      unfold writeFile
      simp only [List.any_cons, h, Bool.true_or, if_true, List.map_cons]
      rw [readFile_cons_ne (by simpa [sameFile] using hf), readFile_cons_ne hf]
      have := ih
      unfold writeFile at this
      by_cases hany : fs.any (sameFile d r) = true
      · simpa [hany] using this
      · have hno : ∀ g ∈ fs, sameFile d r g = false := by
          intro g hg
          cases hs : sameFile d r g with
          | false => rfl
          | true => exact absurd (List.any_eq_true.mpr ⟨g, hg, hs⟩) hany
        rw [map_noop es hno]
    | false =>
      rw [writeFile_cons_ne es h]
      cases h' : sameFile d' r' f with
      | true => rw [readFile_cons_eq h', readFile_cons_eq h']
      | false => rw [readFile_cons_ne h', readFile_cons_ne h']; exact ih

/-! ### append keeps everything -/

theorem allEntries_cons (f : File) (fs : Journal) :
    allEntries (f :: fs) = f.entries ++ allEntries fs := by
  simp [allEntries]

/-- the read-modify-write of `append` adds exactly the new entry to the multiset of all entries -/
theorem allEntries_append_perm {j : Journal} (hu : Unique j) (e : Entry) :
    (allEntries (writeFile j (dirOf e) e.runid (readFile j (dirOf e) e.runid ++ [e]))).Perm
      (e :: allEntries j) := by
  induction j with
  | nil => simp [writeFile, readFile, allEntries]
  | cons f fs ih =>
    cases h : sameFile (dirOf e) e.runid f with
    | true =>
      rw [readFile_cons_eq h, writeFile_cons_eq _ h (unique_tail_ne hu h)]
      simp only [allEntries_cons]
      rw [List.append_assoc]
      exact (List.perm_middle (l₁ := f.entries) (a := e) (l₂ := allEntries fs))
    | false =>
      rw [readFile_cons_ne h, writeFile_cons_ne _ h]
      simp only [allEntries_cons]
      have := ih (List.pairwise_cons.mp hu).2
      exact (List.Perm.append_left f.entries this).trans List.perm_middle

theorem mem_writeFile {j : Journal} {d : Civil} {r : Int} {es : List Entry} {g : File}
    (hg : g ∈ writeFile j d r es) :
    (g ∈ j ∧ sameFile d r g = false) ∨ (g.dir = d ∧ g.runid = r ∧ g.entries = es) := by
  induction j with
  | nil =>
    simp only [writeFile, List.any_nil, Bool.false_eq_true, if_false, List.nil_append,
      List.mem_singleton] at hg
    subst hg; right; exact ⟨rfl, rfl, rfl⟩
  | cons f fs ih =>
    cases h : sameFile d r f with
    | true =>
      unfold writeFile at hg
      simp only [List.any_cons, h, Bool.true_or, if_true, List.mem_map] at hg
      obtain ⟨x, hx, rfl⟩ := hg
      cases hs : sameFile d r x with
      | true =>
        right; simp only [↓reduceIte]
        rw [sameFile_iff] at hs; exact ⟨hs.1, hs.2, by first | exact trivial | rfl⟩
      | false => left; simp only [Bool.false_eq_true, ↓reduceIte]; exact ⟨hx, hs⟩
    | false =>
      rw [writeFile_cons_ne es h] at hg
      rcases List.mem_cons.mp hg with rfl | hg
      · left; exact ⟨List.mem_cons_self, h⟩
      · rcases ih hg with ⟨a, b⟩ | c
        · left; exact ⟨List.mem_cons_of_mem _ a, b⟩
        · right; exact c

theorem readFile_mem {j : Journal} {d : Civil} {r : Int} {e : Entry} (he : e ∈ readFile j d r) :
    ∃ f ∈ j, sameFile d r f = true ∧ e ∈ f.entries := by
  induction j with
  | nil => simp [readFile] at he
  | cons f fs ih =>
    cases h : sameFile d r f with
    | true => rw [readFile_cons_eq h] at he; exact ⟨f, List.mem_cons_self, h, he⟩
    | false =>
      rw [readFile_cons_ne h] at he
      obtain ⟨g, hg, a, b⟩ := ih he
      exact ⟨g, List.mem_cons_of_mem _ hg, a, b⟩

theorem filesOK_append {j : Journal} (hf : FilesOK j) (e : Entry) :
    FilesOK (writeFile j (dirOf e) e.runid (readFile j (dirOf e) e.runid ++ [e])) := by
  intro g hg x hx
  rcases mem_writeFile hg with ⟨a, _⟩ | ⟨a, b, c⟩
  · exact hf g a x hx
  · rw [c] at hx
    rcases List.mem_append.mp hx with hx | hx
    · obtain ⟨f, hfj, hs, hxf⟩ := readFile_mem hx
      rw [sameFile_iff] at hs
      have := hf f hfj x hxf
      rw [a, b]; exact ⟨this.1.trans hs.1, this.2.trans hs.2⟩
    · simp only [List.mem_singleton] at hx
      subst hx; rw [a, b]; exact ⟨rfl, rfl⟩

theorem unique_writeFile {j : Journal} (hu : Unique j) (d : Civil) (r : Int) (es : List Entry) :
    Unique (writeFile j d r es) := by
  induction j with
  | nil => simp [writeFile, Unique]
  | cons f fs ih =>
    have hu' := List.pairwise_cons.mp hu
    cases h : sameFile d r f with
    | true =>
      rw [writeFile_cons_eq es h (unique_tail_ne hu h)]
      exact List.pairwise_cons.mpr ⟨fun g hg => hu'.1 g hg, hu'.2⟩
    | false =>
      rw [writeFile_cons_ne es h]
      refine List.pairwise_cons.mpr ⟨?_, ih hu'.2⟩
      intro g hg
      rcases mem_writeFile hg with ⟨a, _⟩ | ⟨a, b, _⟩
      · exact hu'.1 g a
      · intro hc
        have : sameFile d r f = true := by rw [sameFile_iff]; exact ⟨hc.1.trans a, hc.2.trans b⟩
        rw [h] at this; exact Bool.noConfusion this

theorem journalOf_inv (es : List Entry) (j : Journal) (hf : FilesOK j) (hu : Unique j) :
    let j' := es.foldl (fun j e => writeFile j (dirOf e) e.runid (readFile j (dirOf e) e.runid ++ [e])) j
    FilesOK j' ∧ Unique j' ∧ (allEntries j').Perm (allEntries j ++ es) := by
  induction es generalizing j with
  | nil => simp [hf, hu]
  | cons e es ih =>
    simp only [List.foldl_cons]
    have := ih _ (filesOK_append hf e) (unique_writeFile hu _ _ _)
    refine ⟨this.1, this.2.1, this.2.2.trans ?_⟩
    have hp := allEntries_append_perm hu e
    refine (List.Perm.append_right es hp).trans ?_
    simp only [List.cons_append]
    exact List.perm_middle.symm

theorem journalOf_ok (es : List Entry) :
    FilesOK (journalOf es) ∧ Unique (journalOf es) ∧ (allEntries (journalOf es)).Perm es := by
  have := journalOf_inv es [] (by intro f hf; cases hf) List.Pairwise.nil
  simpa [journalOf, allEntries] using this

end DawgieVerif.Chronicle
