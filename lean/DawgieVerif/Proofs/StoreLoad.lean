/-
C06: what is stored for whom.  `Stored` is a partial function of (target, identity, run); every
operation changes it as an abstract store would; `load` reads the requested run, else the highest.
-/
import DawgieVerif.Proofs.StoreExact

namespace DawgieVerif.Store
open DawgieVerif.Generated.Store

/-! ### reading identities back from the tables -/

theorem fullAt_eq {o : Bool} {t : Tbl} (h : TblOK o t) (i : Nat) : fullAt t.dict i = t.names[i]? := by
  unfold fullAt
  cases hf : t.dict.find? (fun e => e.2 == i) with
  | some e =>
    have hm := List.mem_of_find?_eq_some hf
    have hp := List.find?_some hf
    rw [h.zip, List.mem_zipIdx_iff_getElem?] at hm
    simp only [beq_iff_eq] at hp
    subst hp
    simp [hm]
  | none =>
    cases hn : t.names[i]? with
    | none => rfl
    | some f =>
      have : (f, i) ∈ t.dict := by rw [h.zip, List.mem_zipIdx_iff_getElem?]; exact hn
      have := List.find?_eq_none.mp hf _ this
      simp at this

theorem nameVerAt_of {o : Bool} {t : Tbl} (h : TblOK o t) {i : Nat} {n : Name} (hn : NameOK n)
    (p : Option Nat) (v : Ver) (hi : t.names[i]? = some (construct n p (some v))) :
    nameVerAt t.dict i = some (n, v) := by
  unfold nameVerAt
  rw [fullAt_eq h, hi]
  simp [dissect_construct hn]

theorem keyIdent_of_keyIs {s : St} (h : Inv s) {k : Key} {tn task : Name} {alg sv v : Name × Ver}
    (hk : KeyIs s k tn task alg sv v) (h3 : NameOK alg.1) (h4 : NameOK sv.1) (h5 : NameOK v.1) :
    keyIdent s k = some (tn, ⟨task, alg, sv, v⟩) := by
  have tT := h.tbls .target; have tK := h.tbls .task; have tA := h.tbls .alg
  have tS := h.tbls .state; have tV := h.tbls .value
  simp only [St.tbl] at tT tK tA tS tV
  obtain ⟨k1, k2, k3, k4, k5⟩ := hk
  unfold keyIdent
  rw [fullAt_eq tT, fullAt_eq tK, k1, k2, nameVerAt_of tA h3 _ _ k3, nameVerAt_of tS h4 _ _ k4,
    nameVerAt_of tV h5 _ _ k5]

/-- two keys built for the same target and identity have the same five ids -/
theorem keyIs_ids {s : St} (h : Inv s) {k k' : Key} {tn task : Name} {alg sv v : Name × Ver}
    (hk : KeyIs s k tn task alg sv v) (hk' : KeyIs s k' tn task alg sv v) :
    k.tg = k'.tg ∧ k.task = k'.task ∧ k.alg = k'.alg ∧ k.sv = k'.sv ∧ k.v = k'.v := by
  have tT := h.tbls .target; have tK := h.tbls .task; have tA := h.tbls .alg
  have tS := h.tbls .state; have tV := h.tbls .value
  simp only [St.tbl] at tT tK tA tS tV
  obtain ⟨a1, a2, a3, a4, a5⟩ := hk
  obtain ⟨b1, b2, b3, b4, b5⟩ := hk'
  have e1 : k.tg = k'.tg := (nodup_idx_iff tT.nodup a1 b1).mpr rfl
  have e2 : k.task = k'.task := (nodup_idx_iff tK.nodup a2 b2).mpr rfl
  have e3 : k.alg = k'.alg := (nodup_idx_iff tA.nodup a3 b3).mpr (by rw [e2])
  have e4 : k.sv = k'.sv := (nodup_idx_iff tS.nodup a4 b4).mpr (by rw [e3])
  have e5 : k.v = k'.v := (nodup_idx_iff tV.nodup a5 b5).mpr (by rw [e4])
  exact ⟨e1, e2, e3, e4, e5⟩

theorem key_ext {k k' : Key} (h0 : k.run = k'.run) (h1 : k.tg = k'.tg) (h2 : k.task = k'.task)
    (h3 : k.alg = k'.alg) (h4 : k.sv = k'.sv) (h5 : k.v = k'.v) : k = k' := by
  cases k; cases k'; simp_all

/-- `KeyIs` does not look at the run -/
theorem KeyIs.of_ids {s : St} {k k' : Key} {tn task : Name} {alg sv v : Name × Ver}
    (hk : KeyIs s k tn task alg sv v) (h1 : k.tg = k'.tg) (h2 : k.task = k'.task) (h3 : k.alg = k'.alg)
    (h4 : k.sv = k'.sv) (h5 : k.v = k'.v) : KeyIs s k' tn task alg sv v := by
  unfold KeyIs at hk ⊢
  rw [← h1, ← h2, ← h3, ← h4, ← h5]; exact hk

/-- `Stored` in terms of the chain: an entry of that run whose key was built for that identity -/
theorem stored_iff {s : St} (h : Inv s) (hc : ChainOK s) (tn : Name) (id : Ident) (run c : Nat) :
    Stored s tn id run c ↔
      ∃ e ∈ s.prime, e.1.run = run ∧ KeyIs s e.1 tn id.task id.alg id.sv id.v ∧
        NameOK tn ∧ NameOK id.task ∧ NameOK id.alg.1 ∧ NameOK id.sv.1 ∧ NameOK id.v.1 ∧
        s.blobs.lookup e.2 = some c := by
  constructor
  · rintro ⟨e, he, hr, hid, hb⟩
    obtain ⟨tn', task', alg', sv', v', hk, o1, o2, o3, o4, o5⟩ := hc e he
    rw [keyIdent_of_keyIs h hk o3 o4 o5] at hid
    cases hid
    exact ⟨e, he, hr, hk, o1, o2, o3, o4, o5, hb⟩
  · rintro ⟨e, he, hr, hk, _, _, o3, o4, o5, hb⟩
    exact ⟨e, he, hr, keyIdent_of_keyIs h hk o3 o4 o5, hb⟩

theorem eq_of_nodup_map {α β : Type} (f : α → β) : ∀ (l : List α), (l.map f).Nodup →
    ∀ a ∈ l, ∀ b ∈ l, f a = f b → a = b := by
  intro l
  induction l with
  | nil => intro _ a ha; cases ha
  | cons x xs ih =>
    intro hnd a ha b hb hab
    simp only [List.map_cons, List.nodup_cons] at hnd
    rcases List.mem_cons.mp ha with ha | ha <;> rcases List.mem_cons.mp hb with hb | hb
    · rw [ha, hb]
    · exact absurd (List.mem_map.mpr ⟨b, hb, by rw [← hab, ha]⟩) hnd.1
    · exact absurd (List.mem_map.mpr ⟨a, ha, by rw [hab, hb]⟩) hnd.1
    · exact ih hnd.2 a ha b hb hab

/-- at most one content per (target, identity, run) -/
theorem stored_unique {s : St} (h : Inv s) (hc : ChainOK s) {tn : Name} {id : Ident} {run c c' : Nat}
    (h1 : Stored s tn id run c) (h2 : Stored s tn id run c') : c = c' := by
  obtain ⟨e, he, hr, hk, _, _, _, _, _, hb⟩ := (stored_iff h hc tn id run c).mp h1
  obtain ⟨e', he', hr', hk', _, _, _, _, _, hb'⟩ := (stored_iff h hc tn id run c').mp h2
  obtain ⟨i1, i2, i3, i4, i5⟩ := keyIs_ids h hk hk'
  have hkk : e.1 = e'.1 := key_ext (hr.trans hr'.symm) i1 i2 i3 i4 i5
  -- keys are unique in the primary table
  have : e = e' := eq_of_nodup_map (·.1) s.prime h.pnodup e he e' he' hkk
  subst this
  rw [hb] at hb'
  exact Option.some.inj hb'

/-! ### operations that do not change what is stored -/

theorem stored_congr {s s' : St} (hp : s'.prime = s.prime) (hb : s'.blobs = s.blobs)
    (hk : ∀ e ∈ s.prime, keyIdent s' e.1 = keyIdent s e.1) (tn : Name) (id : Ident) (run c : Nat) :
    Stored s' tn id run c ↔ Stored s tn id run c := by
  unfold Stored
  rw [hp, hb]
  constructor
  · rintro ⟨e, he, hr, hid, hbl⟩; exact ⟨e, he, hr, by rw [← hk e he]; exact hid, hbl⟩
  · rintro ⟨e, he, hr, hid, hbl⟩; exact ⟨e, he, hr, by rw [hk e he]; exact hid, hbl⟩

theorem keyIdent_ext {s s' : St} (h : Inv s) (h' : Inv s') (hx : Ext s s') (hc : ChainOK s) :
    ∀ e ∈ s.prime, keyIdent s' e.1 = keyIdent s e.1 := by
  intro e he
  obtain ⟨tn', task', alg', sv', v', hk, _, _, o3, o4, o5⟩ := hc e he
  rw [keyIdent_of_keyIs h hk o3 o4 o5, keyIdent_of_keyIs h' (hk.mono hx) o3 o4 o5]

theorem stored_ext {s s' : St} (h : Inv s) (h' : Inv s') (hx : Ext s s') (hc : ChainOK s)
    (tn : Name) (id : Ident) (run c : Nat) : Stored s' tn id run c ↔ Stored s tn id run c :=
  stored_congr hx.prime hx.blobs (keyIdent_ext h h' hx hc) tn id run c

theorem keyIdent_openDb (s : St) (k : Key) : keyIdent (openDb s) k = keyIdent s k := by
  unfold keyIdent openDb; cases s.opened <;> rfl

theorem keyIdent_closeDb (s : St) (k : Key) : keyIdent (closeDb s) k = keyIdent s k := by
  unfold keyIdent closeDb; rfl

theorem stored_openDb (s : St) (tn : Name) (id : Ident) (run c : Nat) :
    Stored (openDb s) tn id run c ↔ Stored s tn id run c :=
  stored_congr (by unfold openDb; cases s.opened <;> rfl) (by unfold openDb; cases s.opened <;> rfl)
    (fun e _ => keyIdent_openDb s e.1) tn id run c

theorem stored_closeDb (s : St) (tn : Name) (id : Ident) (run c : Nat) :
    Stored (closeDb s) tn id run c ↔ Stored s tn id run c :=
  stored_congr rfl rfl (fun e _ => keyIdent_closeDb s e.1) tn id run c

/-! ### `store` -/

theorem lookup_iff_mem' {α β : Type} [DecidableEq α] (d : List (α × β)) (hd : (d.map (·.1)).Nodup)
    (n : α) (i : β) : d.lookup n = some i ↔ (n, i) ∈ d := by
  induction d with
  | nil => simp
  | cons x xs ih =>
    obtain ⟨k, w⟩ := x
    simp only [List.map_cons, List.nodup_cons] at hd
    by_cases hk : n = k
    · subst hk
      simp only [List.lookup_cons_self, Option.some.injEq, List.mem_cons, Prod.mk.injEq, true_and]
      constructor
      · intro h; exact Or.inl h.symm
      · rintro (h | h)
        · exact h.symm
        · exact absurd (List.mem_map.mpr ⟨(n, i), h, rfl⟩) hd.1
    · have : (n == k) = false := by simp [hk]
      simp only [List.lookup_cons, this, List.mem_cons, Prod.mk.injEq, hk, false_and, false_or]
      exact ih hd.2

theorem setPrime_blobs (s : St) (k : Key) (blob : Name) (c : Nat) (b : Name) (w : Nat)
    (hb : s.blobs.lookup b = some w) : (setPrime s k blob c).1.blobs.lookup b = some w := by
  simp only [setPrime]
  split
  · exact hb
  · rw [List.lookup_append, hb]; rfl

theorem setPrime_blob_new (s : St) (k : Key) (blob : Name) (c : Nat)
    (hblob : ∀ c0, s.blobs.lookup blob = some c0 → c0 = c) :
    (setPrime s k blob c).1.blobs.lookup blob = some c := by
  simp only [setPrime]
  cases hl : s.blobs.lookup blob with
  | some c0 => simp [hl, hblob c0 hl]
  | none => simp [List.lookup_append, hl]

theorem setPrime_blobs_back (s : St) (k : Key) (blob : Name) (c : Nat) (b : Name) (w : Nat)
    (hs : (s.blobs.lookup b).isSome = true) (hb : (setPrime s k blob c).1.blobs.lookup b = some w) :
    s.blobs.lookup b = some w := by
  cases hl : s.blobs.lookup b with
  | none => rw [hl] at hs; cases hs
  | some w' =>
    rw [setPrime_blobs s k blob c b w' hl] at hb
    rw [← hb]

theorem mem_setPrime_prime (s : St) (k : Key) (blob : Name) (c : Nat) :
    (k, blob) ∈ (setPrime s k blob c).1.prime ∧
    ∀ e ∈ s.prime, e.1 ≠ k → e ∈ (setPrime s k blob c).1.prime := by
  by_cases hany : (s.prime.any (fun e => e.1 == k)) = true
  · simp only [setPrime, hany, if_true]
    constructor
    · obtain ⟨x, hx, hxk⟩ := List.any_eq_true.mp hany
      exact List.mem_map.mpr ⟨x, hx, by simp [hxk]⟩
    · intro e he hne
      exact List.mem_map.mpr ⟨e, he, by simp [hne]⟩
  · simp only [setPrime, hany]
    constructor
    · simp
    · intro e he _; exact List.mem_append_left _ he

/-- one stored value: the abstract store is updated at exactly (target, identity, run) -/
theorem store_spec {s : St} (h : Inv s) (ho : s.opened = true) (hc : ChainOK s) (run : Nat)
    {tn task : Name} {alg sv v : Name × Ver} (blob : Name) (content : Nat)
    (o1 : NameOK tn) (o2 : NameOK task) (o3 : NameOK alg.1) (o4 : NameOK sv.1) (o5 : NameOK v.1)
    (hblob : ∀ c0, s.blobs.lookup blob = some c0 → c0 = content) :
    ∃ r, store s run tn task alg sv v blob content = .ok r ∧
      ∀ tn' id' run' c', Stored r.1 tn' id' run' c' ↔
        ((tn' = tn ∧ id' = ⟨task, alg, sv, v⟩ ∧ run' = run) ∧ c' = content) ∨
        (¬ (tn' = tn ∧ id' = ⟨task, alg, sv, v⟩ ∧ run' = run) ∧ Stored s tn' id' run' c') := by
  refine ⟨_, store_eq s ho run tn task alg sv v blob content, ?_⟩
  simp only
  obtain ⟨i1, hx, hk, hrun⟩ := toKey_spec h ho run tn task alg sv v
  have hc1 : ChainOK (toKey s run tn task alg sv v).1 := chainok_ext hx hc
  generalize hs1 : (toKey s run tn task alg sv v).1 = s1 at *
  generalize hpk : (toKey s run tn task alg sv v).2 = pk at *
  have i2 : Inv (setPrime s1 pk blob content).1 := inv_setPrime i1 pk ⟨_, _, _, _, _, hk⟩ blob content
  have hn : ∀ t, ((setPrime s1 pk blob content).1.tbl t).names = (s1.tbl t).names := by
    intro t; rw [setPrime_tbl]
  have hkid : ∀ k, keyIdent (setPrime s1 pk blob content).1 k = keyIdent s1 k := by
    intro k; unfold keyIdent setPrime; rfl
  have hpkid : keyIdent s1 pk = some (tn, ⟨task, alg, sv, v⟩) := keyIdent_of_keyIs i1 hk o3 o4 o5
  have hblob1 : ∀ c0, s1.blobs.lookup blob = some c0 → c0 = content := by
    intro c0; rw [hx.blobs]; exact hblob c0
  intro tn' id' run' c'
  rw [← stored_ext h i1 hx hc tn' id' run' c']
  constructor
  · rintro ⟨e, he, hr, hid, hb⟩
    rw [hkid] at hid
    rcases setPrime_prime_keys s1 pk blob content e he with rfl | ⟨he1, hne⟩
    · left
      simp only at hid hr hb
      rw [hpkid] at hid
      cases hid
      rw [setPrime_blob_new s1 pk blob content hblob1] at hb
      exact ⟨⟨rfl, rfl, by rw [← hr, hrun]⟩, (Option.some.inj hb).symm⟩
    · right
      have hb1 := setPrime_blobs_back s1 pk blob content e.2 c' (i1.blobs e he1) hb
      refine ⟨?_, e, he1, hr, hid, hb1⟩
      rintro ⟨rfl, rfl, rfl⟩
      -- then e.1 and pk were built for the same identity and run
      obtain ⟨tn0, task0, alg0, sv0, v0, hk0, _, _, p3, p4, p5⟩ := hc1 e he1
      rw [keyIdent_of_keyIs i1 hk0 p3 p4 p5] at hid
      cases hid
      obtain ⟨a1, a2, a3, a4, a5⟩ := keyIs_ids i1 hk0 hk
      exact hne (key_ext (hr.trans hrun.symm) a1 a2 a3 a4 a5)
  · rintro (⟨⟨rfl, rfl, rfl⟩, rfl⟩ | ⟨hne, e, he, hr, hid, hb⟩)
    · exact ⟨(pk, blob), (mem_setPrime_prime s1 pk blob c').1, hrun, by rw [hkid]; exact hpkid,
        setPrime_blob_new s1 pk blob c' hblob1⟩
    · have hek : e.1 ≠ pk := by
        intro e1
        apply hne
        rw [e1, hpkid] at hid
        cases hid
        exact ⟨rfl, rfl, by rw [← hr, e1, hrun]⟩
      exact ⟨e, (mem_setPrime_prime s1 pk blob content).2 e he hek, hr, by rw [hkid]; exact hid,
        setPrime_blobs s1 pk blob content e.2 c' hb⟩

/-! ### `remove` -/

theorem remove_stored {s s' : St} (h : Inv s) (ho : s.opened = true) (hc : ChainOK s) {rid : Nat}
    {tn taskn algn svn vn : Name} (h3 : NameOK algn) (h4 : NameOK svn) (h5 : NameOK vn)
    (hr : remove s rid tn taskn algn svn vn = .ok s') (tn' : Name) (id' : Ident) (run' c' : Nat) :
    Stored s' tn' id' run' c' ↔
      Stored s tn' id' run' c' ∧
        ¬ (run' = rid ∧ tn' = tn ∧ id'.task = taskn ∧ id'.alg.1 = algn ∧ id'.sv.1 = svn ∧ id'.v.1 = vn) := by
  obtain ⟨hp, ht, hb, _⟩ := (remove_spec h ho hc rid h3 h4 h5).1 s' hr
  have hkid : ∀ k, keyIdent s' k = keyIdent s k := by
    intro k
    have t1 := ht .target; have t2 := ht .task; have t3 := ht .alg; have t4 := ht .state
    have t5 := ht .value
    simp only [St.tbl] at t1 t2 t3 t4 t5
    unfold keyIdent; rw [t1, t2, t3, t4, t5]
  -- what `keyNamed` says about an entry with a known identity
  have named : ∀ e ∈ s.prime, keyIdent s e.1 = some (tn', id') → e.1.run = run' →
      (keyNamed s e.1 (rid, tn, taskn, algn, svn, vn) = true ↔
        (run' = rid ∧ tn' = tn ∧ id'.task = taskn ∧ id'.alg.1 = algn ∧ id'.sv.1 = svn ∧ id'.v.1 = vn)) := by
    intro e he hid hrun
    obtain ⟨tn0, task0, alg0, sv0, v0, hk0, p1, p2, p3, p4, p5⟩ := hc e he
    rw [keyIdent_of_keyIs h hk0 p3 p4 p5] at hid
    cases hid
    unfold keyNamed
    rw [keyNames_of_keyIs h ho hk0 p1 p2 p3 p4 p5, hrun]
    simp
  unfold Stored
  rw [hp, hb]
  constructor
  · rintro ⟨e, he, hr', hid, hbl⟩
    rw [hkid] at hid
    obtain ⟨he1, hf⟩ := List.mem_filter.mp he
    refine ⟨⟨e, he1, hr', hid, hbl⟩, ?_⟩
    intro hm
    have := (named e he1 hid hr').mpr hm
    simp [this] at hf
  · rintro ⟨⟨e, he, hr', hid, hbl⟩, hnm⟩
    refine ⟨e, List.mem_filter.mpr ⟨he, ?_⟩, hr', by rw [hkid]; exact hid, hbl⟩
    cases hkn : keyNamed s e.1 (rid, tn, taskn, algn, svn, vn) with
    | false => rfl
    | true => exact absurd ((named e he hid hr').mp hkn) hnm

/-! ### `load` -/

theorem col_zero (k : Key) : k.col 0 = k.run := by simp [Key.col, Key.toList]

theorem foldl_pick_max (l : List Key) (k : Key) :
    ∀ x ∈ k :: l, x.run ≤ (l.foldl (fun b x => if x.col 0 < b.col 0 then b else x) k).run := by
  induction l generalizing k with
  | nil => intro x hx; simp at hx; subst hx; exact Nat.le_refl _
  | cons y ys ih =>
    intro x hx
    simp only [List.foldl_cons]
    have hstart : k.run ≤ (if y.col 0 < k.col 0 then k else y).run ∧
        y.run ≤ (if y.col 0 < k.col 0 then k else y).run := by
      simp only [col_zero]
      split <;> constructor <;> omega
    have h0 := ih (if y.col 0 < k.col 0 then k else y)
    rcases List.mem_cons.mp hx with rfl | hx
    · exact Nat.le_trans hstart.1 (h0 _ (by simp))
    · rcases List.mem_cons.mp hx with rfl | hx
      · exact Nat.le_trans hstart.2 (h0 _ (by simp))
      · exact h0 x (List.mem_cons_of_mem _ hx)

/-- `sorted(spks, key=run)[-1]` (constants regenerated from `_load`): a highest-run element -/
theorem pickBy_spec (l : List Key) :
    (pickBy loadPickLast loadSortKey l = none ↔ l = []) ∧
    ∀ k, pickBy loadPickLast loadSortKey l = some k → k ∈ l ∧ ∀ x ∈ l, x.run ≤ k.run := by
  cases l with
  | nil => simp [pickBy]
  | cons y ys =>
    simp only [pickBy, loadPickLast, loadSortKey, if_true]
    refine ⟨by simp, ?_⟩
    intro k hk
    cases hk
    have hm := foldl_pick_mem (fun (x b : Key) => decide (x.col 0 < b.col 0)) ys y
    simp only [decide_eq_true_eq] at hm
    exact ⟨hm, foldl_pick_max ys y⟩

theorem tail_eq_iff (k pk : Key) :
    (k.toList.drop loadTailFrom == pk.toList.drop loadTailFrom) = true ↔
      k.tg = pk.tg ∧ k.task = pk.task ∧ k.alg = pk.alg ∧ k.sv = pk.sv ∧ k.v = pk.v := by
  simp [Key.toList, loadTailFrom]

theorem getPrime_of_mem {s : St} (h : Inv s) {e : Key × Name} (he : e ∈ s.prime) :
    ∃ c, s.blobs.lookup e.2 = some c ∧ getPrime s e.1 = .ok c := by
  have hl : s.prime.lookup e.1 = some e.2 := (lookup_iff_mem' s.prime h.pnodup e.1 e.2).mpr he
  have hb := h.blobs e he
  cases hc : s.blobs.lookup e.2 with
  | none => rw [hc] at hb; cases hb
  | some c => exact ⟨c, rfl, by simp [getPrime, hl, hc]⟩

/-- one loaded value on an open, well-formed catalogue -/
theorem load_spec {s : St} (h : Inv s) (ho : s.opened = true) (hc : ChainOK s) (run : Nat)
    {tn task : Name} {alg sv v : Name × Ver} (o3 : NameOK alg.1) (o4 : NameOK sv.1) (o5 : NameOK v.1) :
    ∃ res, load s run tn task alg sv v = .ok ((toKey s run tn task alg sv v).1, res) ∧
      (match res with
       | none => ∀ r c, ¬ Stored s tn ⟨task, alg, sv, v⟩ r c
       | some (k, c) =>
         Stored s tn ⟨task, alg, sv, v⟩ k.run c ∧
         (∃ e ∈ s.prime, e.1 = k ∧ keyIdent s k = some (tn, ⟨task, alg, sv, v⟩) ∧
            s.blobs.lookup e.2 = some c) ∧
         (k.run = run ∨ ((∀ c', ¬ Stored s tn ⟨task, alg, sv, v⟩ run c') ∧
            ∀ r' c', Stored s tn ⟨task, alg, sv, v⟩ r' c' → r' ≤ k.run))) := by
  obtain ⟨i1, hx, hk, hrun⟩ := toKey_spec h ho run tn task alg sv v
  have hc1 : ChainOK (toKey s run tn task alg sv v).1 := chainok_ext hx hc
  have hst : ∀ r c, Stored (toKey s run tn task alg sv v).1 tn ⟨task, alg, sv, v⟩ r c ↔
      Stored s tn ⟨task, alg, sv, v⟩ r c := fun r c => stored_ext h i1 hx hc tn _ r c
  unfold load
  simp only [ho, Bool.not_true, Bool.false_eq_true, if_false]
  generalize (toKey s run tn task alg sv v).1 = s1 at *
  generalize (toKey s run tn task alg sv v).2 = pk at *
  -- entries of the identity = entries whose ids equal those of the wanted key
  have ident_iff : ∀ e ∈ s1.prime, (keyIdent s1 e.1 = some (tn, ⟨task, alg, sv, v⟩) ↔
      (e.1.tg = pk.tg ∧ e.1.task = pk.task ∧ e.1.alg = pk.alg ∧ e.1.sv = pk.sv ∧ e.1.v = pk.v)) := by
    intro e he
    constructor
    · intro hid
      obtain ⟨tn0, task0, alg0, sv0, v0, hk0, _, _, p3, p4, p5⟩ := hc1 e he
      rw [keyIdent_of_keyIs i1 hk0 p3 p4 p5] at hid
      cases hid
      exact keyIs_ids i1 hk0 hk
    · rintro ⟨a1, a2, a3, a4, a5⟩
      exact keyIdent_of_keyIs i1 (hk.of_ids a1.symm a2.symm a3.symm a4.symm a5.symm) o3 o4 o5
  have hp : s1.prime = s.prime := hx.prime
  by_cases hany : (s1.prime.any (fun e => e.1 == pk)) = true
  · obtain ⟨e, he, hek⟩ := List.any_eq_true.mp hany
    simp only [beq_iff_eq] at hek
    obtain ⟨c, hbl, hg⟩ := getPrime_of_mem i1 he
    refine ⟨some (pk, c), ?_, ?_⟩
    · simp only [loadKey, hany, if_true]
      rw [← hek, hg]
    · simp only
      have hid1 : keyIdent s1 e.1 = some (tn, ⟨task, alg, sv, v⟩) := by
        rw [hek]; exact keyIdent_of_keyIs i1 hk o3 o4 o5
      have hid0 : keyIdent s e.1 = some (tn, ⟨task, alg, sv, v⟩) := by
        rw [← keyIdent_ext h i1 hx hc e (hp ▸ he)]; exact hid1
      refine ⟨(hst pk.run c).mp ⟨e, he, by rw [hek], hid1, hbl⟩,
        ⟨e, hp ▸ he, hek, hek ▸ hid0, by rw [← hx.blobs]; exact hbl⟩, Or.inl hrun⟩
  · have hnone : ∀ c', ¬ Stored s tn ⟨task, alg, sv, v⟩ run c' := by
      intro c' hs
      obtain ⟨e, he, hr, hid, _⟩ := (hst run c').mpr hs
      obtain ⟨a1, a2, a3, a4, a5⟩ := (ident_iff e he).mp hid
      exact hany (List.any_eq_true.mpr ⟨e, he, by simp [key_ext (hr.trans hrun.symm) a1 a2 a3 a4 a5]⟩)
    obtain ⟨pn, ps⟩ := pickBy_spec ((s1.prime.map (·.1)).filter (fun k =>
      k.toList.drop loadTailFrom == pk.toList.drop loadTailFrom))
    cases hpick : pickBy loadPickLast loadSortKey ((s1.prime.map (·.1)).filter (fun k =>
        k.toList.drop loadTailFrom == pk.toList.drop loadTailFrom)) with
    | none =>
      refine ⟨none, by simp [loadKey, hany, hpick], ?_⟩
      simp only
      intro r c hs
      obtain ⟨e, he, _, hid, _⟩ := (hst r c).mpr hs
      have hmem : e.1 ∈ (s1.prime.map (·.1)).filter (fun k =>
          k.toList.drop loadTailFrom == pk.toList.drop loadTailFrom) :=
        List.mem_filter.mpr ⟨List.mem_map.mpr ⟨e, he, rfl⟩, (tail_eq_iff _ _).mpr ((ident_iff e he).mp hid)⟩
      rw [pn.mp hpick] at hmem
      cases hmem
    | some k =>
      obtain ⟨hkm, hmax⟩ := ps k hpick
      obtain ⟨hkm1, hkt⟩ := List.mem_filter.mp hkm
      obtain ⟨e, he, hek⟩ := List.mem_map.mp hkm1
      obtain ⟨c, hbl, hg⟩ := getPrime_of_mem i1 he
      refine ⟨some (k, c), ?_, ?_⟩
      · simp only [loadKey, hany, hpick]
        rw [← hek]
        simp [hg]
      · simp only
        have hid : keyIdent s1 e.1 = some (tn, ⟨task, alg, sv, v⟩) :=
          (ident_iff e he).mpr ((tail_eq_iff _ _).mp (hek ▸ hkt))
        have hid0 : keyIdent s e.1 = some (tn, ⟨task, alg, sv, v⟩) := by
          rw [← keyIdent_ext h i1 hx hc e (hp ▸ he)]; exact hid
        refine ⟨(hst k.run c).mp ⟨e, he, by rw [hek], hid, hbl⟩,
          ⟨e, hp ▸ he, hek, hek ▸ hid0, by rw [← hx.blobs]; exact hbl⟩, Or.inr ⟨hnone, ?_⟩⟩
        intro r' c' hs
        obtain ⟨e', he', hr', hid', _⟩ := (hst r' c').mpr hs
        have : e'.1 ∈ (s1.prime.map (·.1)).filter (fun k =>
            k.toList.drop loadTailFrom == pk.toList.drop loadTailFrom) :=
          List.mem_filter.mpr ⟨List.mem_map.mpr ⟨e', he', rfl⟩,
            (tail_eq_iff _ _).mpr ((ident_iff e' he').mp hid')⟩
        rw [← hr']; exact hmax _ this

/-! ### every history refines the abstract store -/

/-- blob names determine contents (the digest is injective): `h` maps a name to its content -/
def Op.Hashed (h : Name → Nat) : Op → Prop
  | .store _ _ _ _ _ _ blob content => content = h blob
  | _ => True

def BlobInv (h : Name → Nat) (s : St) : Prop := ∀ b c, s.blobs.lookup b = some c → c = h b

theorem step_blobs (s : St) (op : Op) :
    (step s op).blobs = s.blobs ∨
    ∃ run tn task alg sv v blob content, op = .store run tn task alg sv v blob content ∧
      (step s op).blobs = (setPrime (toKey s run tn task alg sv v).1 (toKey s run tn task alg sv v).2
        blob content).1.blobs ∧ (toKey s run tn task alg sv v).1.blobs = s.blobs ∧ s.opened = true := by
  cases op with
  | openDb => left; unfold step openDb; cases s.opened <;> rfl
  | closeDb => left; rfl
  | add tn => left; simp only [step, add]; cases s.opened <;> simp [St.upd, setTbl_fields]
  | register task alg sv t v =>
    left; simp only [step, register]
    cases s.opened <;> simp [St.upd, setTbl_fields]
  | store run tn task alg sv v blob c =>
    cases ho : s.opened with
    | false => left; simp [step, store, ho]
    | true =>
      right
      refine ⟨run, tn, task, alg, sv, v, blob, c, rfl, by simp [step, store_eq s ho], ?_, rfl⟩
      rw [toKey_eq]; simp [St.upd, setTbl_fields]
  | load run tn task alg sv v =>
    left
    simp only [step]
    cases hl : load s run tn task alg sv v with
    | error e => rfl
    | ok r =>
      simp only
      rw [load_state s run tn task alg sv v hl, toKey_eq]; simp [St.upd, setTbl_fields]
  | remove run tn task alg sv v =>
    left
    simp only [step]
    cases hr : remove s run tn task alg sv v with
    | error e => rfl
    | ok s' => exact (remove_ok_prime hr).2.2.1

theorem blobinv_step {h : Name → Nat} {s : St} (hb : BlobInv h s) (op : Op) (hop : op.Hashed h) :
    BlobInv h (step s op) := by
  rcases step_blobs s op with e | ⟨run, tn, task, alg, sv, v, blob, content, rfl, e, e1, _⟩
  · intro b c; rw [e]; exact hb b c
  · intro b c
    rw [e]
    simp only [setPrime, e1]
    split
    · exact hb b c
    · rename_i hex
      rw [List.lookup_append]
      cases hl : s.blobs.lookup b with
      | some w => simp only [Option.some_or]; intro hc; rw [← Option.some.inj hc]; exact hb b w hl
      | none =>
        simp only [Option.none_or]
        intro hc
        by_cases hbb : b = blob
        · subst hbb; simp at hc; subst hc; exact hop
        · have : (b == blob) = false := by simp [hbb]
          simp [List.lookup, this] at hc

theorem absStep_opened (a : ASt) (op : Op) :
    (absStep a op).opened = (match op with | .openDb => true | .closeDb => false | _ => a.opened) := by
  cases op <;> simp only [absStep] <;> split <;> rfl

theorem step_opened {s : St} (hi : Inv s) (op : Op) :
    (step s op).opened = (match op with | .openDb => true | .closeDb => false | _ => s.opened) := by
  cases op with
  | openDb => simp only [step, openDb]; cases hso : s.opened <;> simp [hso]
  | closeDb => rfl
  | add tn0 =>
    simp only [step, add]
    cases hso : s.opened with
    | false => simp [hso]
    | true => simpa using (upd_spec hi hso .target tn0 none none).2.1.opened.trans hso
  | register task alg sv t v =>
    simp only [step]
    cases hso : s.opened with
    | false => simp [register, hso]
    | true =>
      obtain ⟨r, hr, _, hx⟩ := inv_register hi hso task alg sv t v
      rw [hr]; exact hx.opened.trans hso
  | store run tn0 task alg sv v blob content =>
    simp only [step]
    cases hso : s.opened with
    | false => simp [store, hso]
    | true =>
      rw [store_eq s hso]
      exact (toKey_spec hi hso run tn0 task alg sv v).2.1.opened.trans hso
  | load run tn0 task alg sv v =>
    simp only [step]
    cases hl : load s run tn0 task alg sv v with
    | error e => rfl
    | ok r =>
      simp only
      have hso : s.opened = true := by
        cases hso : s.opened with
        | true => rfl
        | false => simp [load, hso] at hl
      rw [load_state s run tn0 task alg sv v hl]
      exact (toKey_spec hi hso run tn0 task alg sv v).2.1.opened
  | remove rid tn0 task alg sv v =>
    simp only [step]
    cases hr : remove s rid tn0 task alg sv v with
    | error e => rfl
    | ok s' => exact (remove_ok_prime hr).2.1

/-- the operation-by-operation refinement -/
theorem refines_step {h : Name → Nat} {s : St} {a : ASt} (hi : Inv s) (hc : ChainOK s) (hb : BlobInv h s)
    (ho : a.opened = s.opened) (hm : ∀ tn id run c, Stored s tn id run c ↔ a.m tn id run = some c)
    (op : Op) (hop : op.OK) (hh : op.Hashed h) :
    (absStep a op).opened = (step s op).opened ∧
    ∀ tn id run c, Stored (step s op) tn id run c ↔ (absStep a op).m tn id run = some c := by
  refine ⟨by rw [step_opened hi, absStep_opened]; cases op <;> simp [ho], ?_⟩
  cases op with
  | openDb =>
    intro tn id run c
    simp only [step, absStep]; rw [stored_openDb]; exact hm tn id run c
  | closeDb =>
    intro tn id run c
    simp only [step, absStep]; rw [stored_closeDb]; exact hm tn id run c
  | add tn0 =>
    simp only [absStep, step, add]
    cases hso : s.opened with
    | false => simpa [hso] using hm
    | true =>
      obtain ⟨i1, hx, _⟩ := upd_spec hi hso .target tn0 none none
      simp only [Bool.not_true, Bool.false_eq_true, if_false]
      exact fun tn id run c => (stored_ext hi i1 hx hc tn id run c).trans (hm tn id run c)
  | register task alg sv t v =>
    simp only [absStep, step]
    cases hso : s.opened with
    | false =>
      have e : register s task alg sv t v = .error .closed := by simp [register, hso]
      rw [e]; exact hm
    | true =>
      obtain ⟨r, hr, i1, hx⟩ := inv_register hi hso task alg sv t v
      rw [hr]
      exact fun tn id run c => (stored_ext hi i1 hx hc tn id run c).trans (hm tn id run c)
  | load run tn0 task alg sv v =>
    simp only [absStep, step]
    cases hl : load s run tn0 task alg sv v with
    | error e => exact hm
    | ok r =>
      simp only
      have hso : s.opened = true := by
        cases hso : s.opened with
        | true => rfl
        | false => simp [load, hso] at hl
      rw [load_state s run tn0 task alg sv v hl]
      obtain ⟨i1, hx, _⟩ := toKey_spec hi hso run tn0 task alg sv v
      exact fun tn id run' c => (stored_ext hi i1 hx hc tn id run' c).trans (hm tn id run' c)
  | store run tn0 task alg sv v blob content =>
    simp only [absStep, step]
    cases hso : s.opened with
    | false =>
      have hao : a.opened = false := ho.trans hso
      have e : store s run tn0 task alg sv v blob content = .error .closed := by simp [store, hso]
      rw [e]
      simp only [hao, Bool.false_eq_true, if_false]
      exact hm
    | true =>
      have hao : a.opened = true := ho.trans hso
      have hop' : NameOK tn0 ∧ NameOK task ∧ NameOK alg.1 ∧ NameOK sv.1 ∧ NameOK v.1 := hop
      have hh' : content = h blob := hh
      obtain ⟨r, hr, hst⟩ := store_spec hi hso hc run blob content hop'.1 hop'.2.1 hop'.2.2.1
        hop'.2.2.2.1 hop'.2.2.2.2 (fun c0 hc0 => by rw [hh']; exact hb blob c0 hc0)
      rw [hr]
      simp only [hao, if_true]
      intro tn id run' c
      rw [hst tn id run' c]
      by_cases hcell : tn = tn0 ∧ id = ⟨task, alg, sv, v⟩ ∧ run' = run
      · simp only [hcell, and_self, true_and, not_true_eq_false, false_and, or_false, if_true,
          Option.some.injEq]
        exact eq_comm
      · simp only [hcell, false_and, not_false_eq_true, true_and, false_or, if_false]
        exact hm tn id run' c
  | remove rid tn0 task alg sv v =>
    simp only [absStep, step]
    have hop' : NameOK alg ∧ NameOK sv ∧ NameOK v := hop
    cases hso : s.opened with
    | false =>
      have hao : a.opened = false := ho.trans hso
      have e : remove s rid tn0 task alg sv v = .error .closed := by simp [remove, hso]
      rw [e]
      simp only [hao, Bool.false_eq_true, if_false]
      exact hm
    | true =>
      have hao : a.opened = true := ho.trans hso
      simp only [hao, if_true]
      cases hr : remove s rid tn0 task alg sv v with
      | ok s' =>
        simp only
        intro tn id run' c
        rw [remove_stored hi hso hc hop'.1 hop'.2.1 hop'.2.2 hr tn id run' c]
        by_cases hcell : run' = rid ∧ tn = tn0 ∧ id.task = task ∧ id.alg.1 = alg ∧ id.sv.1 = sv ∧ id.v.1 = v
        · simp [hcell]
        · simp only [hcell, not_false_eq_true, and_true, if_false]
          exact hm tn id run' c
      | error er =>
        simp only
        intro tn id run' c
        by_cases hcell : run' = rid ∧ tn = tn0 ∧ id.task = task ∧ id.alg.1 = alg ∧ id.sv.1 = sv ∧ id.v.1 = v
        · obtain ⟨c1, c2, c3, c4, c5, c6⟩ := hcell
          subst c1; subst c2
          simp only [c3, c4, c5, c6, and_self, if_true]
          constructor
          · intro hs
            exfalso
            obtain ⟨e, he, hre, hk, p1, p2, p3, p4, p5, _⟩ := (stored_iff hi hc _ _ _ c).mp hs
            have := (remove_spec hi hso hc run' hop'.1 hop'.2.1 hop'.2.2).2 er hr e he
            unfold keyNamed at this
            rw [keyNames_of_keyIs hi hso hk p1 p2 p3 p4 p5] at this
            simp [hre, c3, c4, c5, c6] at this
          · intro hn; cases hn
        · simp only [hcell, if_false]
          exact hm tn id run' c

theorem refines_run {h : Name → Nat} (ops : List Op) (hops : ∀ op ∈ ops, op.OK ∧ op.Hashed h) :
    ∀ (s : St) (a : ASt), Inv s → ChainOK s → BlobInv h s → a.opened = s.opened →
      (∀ tn id run c, Stored s tn id run c ↔ a.m tn id run = some c) →
      (ops.foldl absStep a).opened = (run s ops).opened ∧
      ∀ tn id rn c, Stored (run s ops) tn id rn c ↔ (ops.foldl absStep a).m tn id rn = some c := by
  induction ops with
  | nil => intro s a _ _ _ ho hm; exact ⟨ho, hm⟩
  | cons op ops ih =>
    intro s a hi hc hb ho hm
    have hop := hops op (by simp)
    obtain ⟨ho', hm'⟩ := refines_step hi hc hb ho hm op hop.1 hop.2
    exact ih (fun o hmem => hops o (by simp [hmem])) (step s op) (absStep a op) (inv_step hi op)
      (chainok_step hi hc op hop.1) (blobinv_step hb op hop.2) ho' hm'

end DawgieVerif.Store
