/-
C16 — helper lemmas, part 2: the rules position by position against the specification.
-/
import DawgieVerif.Proofs.Compliant

set_option linter.unusedSimpArgs false

namespace DawgieVerif.Compliant
open DawgieVerif.Generated

theorem noDot_iff (s : String) : hasDot s = false ↔ NoDot s := by
  simp [hasDot, NoDot]

theorem semAll_value (v : Value) : semAll .ifv (.item v) = true ↔ ValueOK v := by
  simp [semAll, withCbs, Rules.ruleCbs, sem02, sem03, sem04, sem05, sem07, sem08, sem09, sem11, noDot_iff]
  constructor
  · rintro ⟨⟨⟨a, b⟩, c⟩, d⟩; exact ⟨a, b, c, d⟩
  · intro h; exact ⟨⟨⟨h.base, h.version⟩, h.key⟩, h.pickles⟩

theorem semAll_sv (s : SV) : semAll .ifsv (.sv s) = true ↔
    (s.isSV = true ∧ s.nameImpl = true ∧ s.verOk = true ∧ NoDot s.name ∧ s.values ≠ []) := by
  simp [semAll, withCbs, Rules.ruleCbs, sem02, sem03, sem04, sem05, sem07, sem08, sem09, sem11, noDot_iff]
  constructor
  · rintro ⟨⟨⟨a, b, c⟩, _, d⟩, e⟩; exact ⟨a, b, c, d, e⟩
  · rintro ⟨a, b, c, d, e⟩; exact ⟨⟨⟨a, b, c⟩, b, d⟩, e⟩

theorem semAll_ref (x : Ref) : semAll .ifref (.ref x) = true ↔ RefOK x := by
  simp [semAll, withCbs, Rules.ruleCbs, sem02, sem03, sem04, sem05, sem07, sem08, sem09, sem11]
  constructor
  · rintro ⟨⟨a, ⟨⟨b, c⟩, d⟩, e⟩, ⟨f, g⟩, h⟩
    refine ⟨a, b, c, ?_, ?_, f, g, h⟩
    · intro hk
      rcases d with (d | d) | d
      · simp [a] at d
      · exact absurd d hk
      · exact d
    · intro hk
      rcases e with (e | e) | e
      · simp [a] at e
      · exact absurd hk e
      · exact e
  · intro h
    refine ⟨⟨h.isRef, ⟨⟨h.factory, h.impl⟩, ?_⟩, ?_⟩, ⟨h.lookup, h.alg⟩, h.values⟩
    · by_cases hk : x.kind = RefKind.alg
      · exact Or.inl (Or.inr hk)
      · exact Or.inr (h.item hk)
    · by_cases hk : x.kind = RefKind.v
      · exact Or.inr (h.feat hk)
      · exact Or.inl (Or.inr hk)

theorem semAll_routine (k : Factory) (hk : k ≠ .events) (r : Routine) :
    semAll (routCb k) (.routine k r) = true ↔
      (r.isBase = true ∧ r.nameImpl = true ∧ r.depsImpl = true
        ∧ (∀ x ∈ r.deps, x.isRef = true ∧ (k = .task ∨ x.kind ≠ .alg))
        ∧ r.svsImpl = true ∧ (∀ s ∈ r.svs, s.isSV = true) ∧ r.verOk = true ∧ r.depsList = true
        ∧ r.svsList = true ∧ NoDot r.name ∧ r.svs ≠ []) := by
  cases k with
  | events => exact absurd rfl hk
  | task =>
    simp [routCb, semAll, withCbs, Rules.ruleCbs, sem02, sem03, sem04, sem05, sem07, sem08, sem09, sem11,
      noDot_iff, routineAbstractOk, depTypeOk]
    grind
  | analysis =>
    simp [routCb, semAll, withCbs, Rules.ruleCbs, sem02, sem03, sem04, sem05, sem07, sem08, sem09, sem11,
      noDot_iff, routineAbstractOk, depTypeOk]
    grind
  | regress =>
    simp [routCb, semAll, withCbs, Rules.ruleCbs, sem02, sem03, sem04, sem05, sem07, sem08, sem09, sem11,
      noDot_iff, routineAbstractOk, depTypeOk]
    grind

theorem semAll_bot (k : Factory) (hk : k ≠ .events) (b : Bot) :
    semAll (botCb k) (.bot k b) = true ↔
      (b.isBase = true ∧ b.listImpl = true ∧ b.routines ≠ [] ∧ ∀ r ∈ b.routines, r.isBase = true) := by
  cases k with
  | events => exact absurd rfl hk
  | task =>
    simp [botCb, semAll, withCbs, Rules.ruleCbs, sem02, sem03, sem04, sem05, sem07, sem08, sem09, sem11,
      botAbstractOk]
    grind
  | analysis =>
    simp [botCb, semAll, withCbs, Rules.ruleCbs, sem02, sem03, sem04, sem05, sem07, sem08, sem09, sem11,
      botAbstractOk]
    grind
  | regress =>
    simp [botCb, semAll, withCbs, Rules.ruleCbs, sem02, sem03, sem04, sem05, sem07, sem08, sem09, sem11,
      botAbstractOk]
    grind

theorem semAll_event (e : Event) : semAll .ifmom (.event e) = true ↔ e.isEvent = true := by
  simp [semAll, withCbs, Rules.ruleCbs, sem02, sem03, sem04, sem05, sem07, sem08, sem09, sem11]

theorem svOK_iff (s : SV) :
    SVOK s ↔ (semAll .ifsv (.sv s) = true ∧ ∀ v ∈ s.values, semAll .ifv (.item v) = true) := by
  rw [semAll_sv]
  simp only [semAll_value]
  constructor
  · intro h; exact ⟨⟨h.base, h.nameImpl, h.version, h.name, h.keys⟩, h.values⟩
  · rintro ⟨⟨a, b, c, d, e⟩, f⟩; exact ⟨a, b, c, d, e, f⟩

theorem routineOK_iff (k : Factory) (hk : k ≠ .events) (r : Routine) :
    RoutineOK k r ↔ (RoutineWalk semAll k r ∧ (k = .task → ∀ x ∈ r.deps, x.underFactory = true)) := by
  constructor
  · intro h
    refine ⟨⟨?_, h.feedbackReturns, fun x hx => (semAll_ref x).2 (h.feedback x hx), h.depsImpl,
      fun x hx => (semAll_ref x).2 (h.deps x hx), h.svsImpl,
      fun s hs => ((svOK_iff s).1 (h.svs s hs)).1, fun s hs => ((svOK_iff s).1 (h.svs s hs)).2⟩,
      h.previousModule⟩
    rw [semAll_routine k hk]
    refine ⟨h.base, h.nameImpl, h.depsImpl, ?_, h.svsImpl, fun s hs => (h.svs s hs).base, h.version,
      h.depsList, h.svsList, h.name, h.hasSV⟩
    intro x hx
    refine ⟨(h.deps x hx).isRef, ?_⟩
    by_cases hkt : k = .task
    · exact Or.inl hkt
    · exact Or.inr (h.depKinds hkt x hx)
  · rintro ⟨w, m⟩
    have c := (semAll_routine k hk r).1 w.cb
    obtain ⟨c1, c2, c3, c4, c5, _, c7, c8, c9, c10, c11⟩ := c
    refine ⟨c1, c2, c3, c8, c5, c9, c7, w.fb, c10, c11,
      fun s hs => (svOK_iff s).2 ⟨w.svCb s hs, w.vCb s hs⟩,
      fun x hx => (semAll_ref x).1 (w.depRefs x hx), ?_, m,
      fun x hx => (semAll_ref x).1 (w.fbRefs x hx)⟩
    intro hkt x hx
    rcases (c4 x hx).2 with h | h
    · exact absurd h hkt
    · exact h

theorem botWalk_semAll (k : Factory) (hk : k ≠ .events) (b : Bot) :
    (BotWalk semAll k b ∧ (k = .task → ∀ r ∈ b.routines, ∀ x ∈ r.deps, x.underFactory = true))
      ↔ (b.isBase = true ∧ b.listImpl = true ∧ b.routines ≠ [] ∧ ∀ r ∈ b.routines, RoutineOK k r) := by
  constructor
  · rintro ⟨w, m⟩
    obtain ⟨a, l, n, _⟩ := (semAll_bot k hk b).1 w.cb
    exact ⟨a, l, n, fun r hr => (routineOK_iff k hk r).2 ⟨w.routines r hr, fun hkt => m hkt r hr⟩⟩
  · rintro ⟨a, l, n, h⟩
    refine ⟨⟨(semAll_bot k hk b).2 ⟨a, l, n, fun r hr => (h r hr).base⟩, l,
      fun r hr => ((routineOK_iff k hk r).1 (h r hr)).1⟩, fun hkt r hr => (h r hr).previousModule hkt⟩

theorem momentOk_iff (e : Event) : momentOk e = true ↔ MomentOK e := by
  obtain ⟨ie, b, d, m, w, t⟩ := e
  constructor
  · intro h
    cases b <;> cases d <;> cases m <;> cases w <;> cases t <;> simp [momentOk] at h <;>
      exact ⟨by simp, by simp, by simp, by simp, by simp⟩
  · intro h
    obtain ⟨h1, h2, h3, h4, h5⟩ := h
    cases b <;> cases d <;> cases m <;> cases w <;> cases t <;> simp_all [momentOk]

theorem sig_analysis (ps : List Param) :
    sigMatches (Rules.sigTable .analysis) ps = true ↔ ps = documentedSig .analysis := by
  rcases ps with _ | ⟨⟨d1, a1⟩, _ | ⟨⟨d2, a2⟩, _ | ⟨⟨d3, a3⟩, _ | ⟨p4, l⟩⟩⟩⟩ <;>
    simp [sigMatches, Rules.sigTable, documentedSig] <;> grind

theorem sig_regress (ps : List Param) :
    sigMatches (Rules.sigTable .regress) ps = true ↔ ps = documentedSig .regress := by
  rcases ps with _ | ⟨⟨d1, a1⟩, _ | ⟨⟨d2, a2⟩, _ | ⟨⟨d3, a3⟩, _ | ⟨p4, l⟩⟩⟩⟩ <;>
    simp [sigMatches, Rules.sigTable, documentedSig] <;> grind

theorem sig_task (ps : List Param) :
    sigMatches (Rules.sigTable .task) ps = true ↔ ps = documentedSig .task := by
  rcases ps with _ | ⟨⟨d1, a1⟩, _ | ⟨⟨d2, a2⟩, _ | ⟨⟨d3, a3⟩, _ | ⟨⟨d4, a4⟩, _ | ⟨p5, l⟩⟩⟩⟩⟩ <;>
    simp [sigMatches, Rules.sigTable, documentedSig] <;> grind

theorem sig_events (ps : List Param) :
    sigMatches (Rules.sigTable .events) ps = true ↔ ps = documentedSig .events := by
  rcases ps with _ | ⟨p, l⟩ <;> simp [sigMatches, Rules.sigTable, documentedSig]

theorem rule01_iff (p : Pkg) : rule01 p = true ↔
    ((p.analysis.isSome ∨ p.events.isSome ∨ p.regress.isSome ∨ p.task.isSome)
      ∧ (∀ f, p.analysis = some f → f.params = documentedSig .analysis)
      ∧ (∀ f, p.events = some f → f.params = documentedSig .events)
      ∧ (∀ f, p.regress = some f → f.params = documentedSig .regress)
      ∧ (∀ f, p.task = some f → f.params = documentedSig .task)) := by
  -- independent of the order in which `dawgie.Factories` lists its members
  have complete : ∀ k : Factory, k ∈ Rules.factoryOrder := by
    intro k; cases k <;> decide
  have anyk : Rules.factoryOrder.any p.has = true ↔ ∃ k, p.has k = true := by
    simp only [List.any_eq_true]
    exact ⟨fun ⟨k, _, h⟩ => ⟨k, h⟩, fun ⟨k, h⟩ => ⟨k, complete k, h⟩⟩
  have allk : ∀ q : Factory → Bool, Rules.factoryOrder.all q = true ↔ ∀ k, q k = true := by
    intro q
    simp only [List.all_eq_true]
    exact ⟨fun h k => h k (complete k), fun h k _ => h k⟩
  unfold rule01
  rw [Bool.and_eq_true, anyk, allk]
  obtain ⟨a, e, r, t⟩ := p
  constructor
  · rintro ⟨⟨k, hk⟩, h⟩
    have ha := h .analysis
    have he := h .events
    have hr := h .regress
    have ht := h .task
    refine ⟨?_, ?_, ?_, ?_, ?_⟩
    · cases k <;> simp_all [Pkg.has]
    · intro f hf; simp only at hf; subst hf; simpa [Pkg.params, sig_analysis] using ha
    · intro f hf; simp only at hf; subst hf; simpa [Pkg.params, sig_events] using he
    · intro f hf; simp only at hf; subst hf; simpa [Pkg.params, sig_regress] using hr
    · intro f hf; simp only at hf; subst hf; simpa [Pkg.params, sig_task] using ht
  · rintro ⟨ho, ha, he, hr, ht⟩
    refine ⟨?_, ?_⟩
    · rcases ho with ho | ho | ho | ho
      · exact ⟨.analysis, by simpa [Pkg.has] using ho⟩
      · exact ⟨.events, by simpa [Pkg.has] using ho⟩
      · exact ⟨.regress, by simpa [Pkg.has] using ho⟩
      · exact ⟨.task, by simpa [Pkg.has] using ho⟩
    · intro k
      cases k with
      | analysis => cases a with
        | none => simp [Pkg.params]
        | some f => simpa [Pkg.params, sig_analysis] using ha f rfl
      | events => cases e with
        | none => simp [Pkg.params]
        | some f => simpa [Pkg.params, sig_events] using he f rfl
      | regress => cases r with
        | none => simp [Pkg.params]
        | some f => simpa [Pkg.params, sig_regress] using hr f rfl
      | task => cases t with
        | none => simp [Pkg.params]
        | some f => simpa [Pkg.params, sig_task] using ht f rfl

theorem rule06_iff (p : Pkg) : rule06 p = true ↔
    ∀ f, p.task = some f → f.callOk Rules.rule06Arity ∧ f.content.listImpl = true
      ∧ ∀ r ∈ f.content.routines, r.depsImpl = true ∧ ∀ x ∈ r.deps, x.underFactory = true := by
  unfold rule06
  cases ht : p.task with
  | none => simp
  | some f =>
    by_cases h : f.callOk Rules.rule06Arity
    · simp [call_of_ok f _ h, h, List.all_eq_true]
    · simp [call_of_not_ok f _ h, h]

theorem rule10_iff (p : Pkg) : rule10 p = true ↔
    ∀ f, p.events = some f → f.callOk Rules.rule10Arity ∧ ∀ e ∈ f.content, MomentOK e := by
  unfold rule10
  cases ht : p.events with
  | none => simp
  | some f =>
    by_cases h : f.callOk Rules.rule10Arity
    · simp [call_of_ok f _ h, h, List.all_eq_true, momentOk_iff]
    · simp [call_of_not_ok f _ h, h]

theorem callOk_of_sig {α : Type} (k : Factory) (f : Fac α) (n : Nat) (hs : f.params = documentedSig k)
    (hr : f.raises = false) (hn : (if k = .events then 0 else 1) ≤ n ∧ n ≤ (documentedSig k).length) :
    f.callOk n := by
  refine ⟨hr, ?_, by rw [hs]; exact hn.2⟩
  rw [hs]
  cases k <;> simp [documentedSig, nreq] at hn ⊢ <;> omega

theorem verify_iff (p : Pkg) : verify p = true ↔
    (rule01 p = true ∧ WalkHolds semAll p ∧ rule06 p = true ∧ rule10 p = true) := by
  rw [← walkRules_iff]
  simp only [verify, Rules.ruleNames, List.all_cons, List.all_nil, runRule, Bool.and_true,
    Bool.and_eq_true]
  grind

theorem botOK_of_walk (k : Factory) (hk : k ≠ .events) (f : Fac Bot) (n : Nat)
    (hs : f.params = documentedSig k) (hc : f.callOk n) (hw : BotWalk semAll k f.content)
    (hm : k = .task → ∀ r ∈ f.content.routines, ∀ x ∈ r.deps, x.underFactory = true) : BotOK k f := by
  obtain ⟨a, l, ne, h⟩ := (botWalk_semAll k hk f.content).1 ⟨hw, hm⟩
  exact ⟨hs, hc.1, a, l, ne, h⟩

theorem gate_exact_aux (p : Pkg) : verify p = true ↔ Compliant p := by
  rw [verify_iff, rule01_iff, rule06_iff, rule10_iff]
  constructor
  · rintro ⟨⟨ho, sa, se, sr, st⟩, w, h6, h10⟩
    refine ⟨ho, ?_, ?_, ?_, ?_⟩
    · intro f hf
      exact botOK_of_walk .analysis (by decide) f _ (sa f hf) (w.analysis f hf).1 (w.analysis f hf).2
        (fun h => by cases h)
    · intro f hf
      exact ⟨se f hf, (w.events f hf).1.1, fun e he => (semAll_event e).1 ((w.events f hf).2 e he),
        (h10 f hf).2⟩
    · intro f hf
      exact botOK_of_walk .regress (by decide) f _ (sr f hf) (w.regress f hf).1 (w.regress f hf).2
        (fun h => by cases h)
    · intro f hf
      exact botOK_of_walk .task (by decide) f _ (st f hf) (w.task f hf).1 (w.task f hf).2
        (fun _ r hr => ((h6 f hf).2.2 r hr).2)
  · intro c
    have bw : ∀ k (hk : k ≠ .events) (f : Fac Bot), BotOK k f →
        BotWalk semAll k f.content ∧ (k = .task → ∀ r ∈ f.content.routines, ∀ x ∈ r.deps, x.underFactory = true) :=
      fun k hk f h => (botWalk_semAll k hk f.content).2 ⟨h.base, h.listImpl, h.routinesNonempty, h.routines⟩
    refine ⟨⟨c.offers, fun f hf => (c.analysis f hf).signature, fun f hf => (c.events f hf).signature,
      fun f hf => (c.regress f hf).signature, fun f hf => (c.task f hf).signature⟩, ⟨?_, ?_, ?_, ?_⟩, ?_, ?_⟩
    · intro f hf
      have h := c.analysis f hf
      exact ⟨callOk_of_sig .analysis f _ h.signature h.returns (by decide), (bw .analysis (by decide) f h).1⟩
    · intro f hf
      have h := c.events f hf
      exact ⟨callOk_of_sig .events f _ h.signature h.returns (by decide),
        fun e he => (semAll_event e).2 (h.types e he)⟩
    · intro f hf
      have h := c.regress f hf
      exact ⟨callOk_of_sig .regress f _ h.signature h.returns (by decide), (bw .regress (by decide) f h).1⟩
    · intro f hf
      have h := c.task f hf
      exact ⟨callOk_of_sig .task f _ h.signature h.returns (by decide), (bw .task (by decide) f h).1⟩
    · intro f hf
      have h := c.task f hf
      refine ⟨callOk_of_sig .task f _ h.signature h.returns (by decide), h.listImpl, fun r hr => ?_⟩
      exact ⟨(h.routines r hr).depsImpl, (h.routines r hr).previousModule rfl⟩
    · intro f hf
      have h := c.events f hf
      exact ⟨callOk_of_sig .events f _ h.signature h.returns (by decide), h.moments⟩

/-! ### positions of a compliant package are well-formed -/

theorem botOK_of (p : Pkg) (h : Compliant p) (k : Factory) (f : Fac Bot) (hf : botOf p k = some f) :
    BotOK k f := by
  cases k with
  | analysis => exact h.analysis f hf
  | regress => exact h.regress f hf
  | task => exact h.task f hf
  | events => simp [botOf] at hf

theorem routineOK_of (p : Pkg) (h : Compliant p) (k : Factory) (r : Routine) (hr : HasRoutine p k r) :
    RoutineOK k r := by
  obtain ⟨f, hf, hm⟩ := hr
  exact (botOK_of p h k f hf).routines r hm

theorem svOK_of (p : Pkg) (h : Compliant p) (s : SV) (hs : HasSV p s) : SVOK s := by
  obtain ⟨k, r, hr, hm⟩ := hs
  exact (routineOK_of p h k r hr).svs s hm

theorem valueOK_of (p : Pkg) (h : Compliant p) (v : Value) (hv : HasValue p v) : ValueOK v := by
  obtain ⟨s, hs, hm⟩ := hv
  exact (svOK_of p h s hs).values v hm

theorem refOK_of (p : Pkg) (h : Compliant p) (x : Ref) (hx : HasRef p x) : RefOK x := by
  obtain ⟨k, r, hr, hm⟩ := hx
  rcases hm with hm | hm
  · exact (routineOK_of p h k r hr).deps x hm
  · exact (routineOK_of p h k r hr).feedback x hm

theorem not_accepted (p : Pkg) (h : ¬ Compliant p) : verify p = false := by
  cases hv : verify p with
  | false => rfl
  | true => exact absurd ((gate_exact_aux p).1 hv) h

theorem buildBot_ok (k : Factory) (hk : k ≠ .events) (f : Fac Bot) (h : BotOK k f) :
    buildBot k f = .ok () := by
  have c2 : f.callOk 2 := callOk_of_sig k f 2 h.signature h.returns (by cases k <;> simp_all [documentedSig])
  have c1 : f.callOk 1 := callOk_of_sig k f 1 h.signature h.returns (by cases k <;> simp_all [documentedSig])
  unfold buildBot
  rw [call_of_ok f 2 c2, call_of_ok f 1 c1]
  have h1 : f.content.routines.all (fun r => r.nameImpl && r.svsImpl && r.depsImpl && r.fbOk
      && r.svs.all (·.nameImpl)) = true := by
    simp only [List.all_eq_true, Bool.and_eq_true]
    intro r hr
    have b := h.routines r hr
    exact ⟨⟨⟨⟨b.nameImpl, b.svsImpl⟩, b.depsImpl⟩, b.feedbackReturns⟩, fun s hs => (b.svs s hs).nameImpl⟩
  have h2 : f.content.routines.all (fun r => r.feedback.all refResolved) = true := by
    simp only [List.all_eq_true]
    intro r hr x hx
    have b := (h.routines r hr).feedback x hx
    simp only [refResolved, Bool.and_eq_true, List.all_eq_true, Bool.not_eq_true']
    exact ⟨⟨b.lookup, b.alg⟩, fun v hv => b.values v hv⟩
  simp [h.listImpl, h1, h2]

theorem buildEvents_ok (f : Fac (List Event)) (h : EventsOK f) : buildEvents f = .ok () := by
  have c0 : f.callOk 0 := callOk_of_sig .events f 0 h.signature h.returns (by simp [documentedSig])
  unfold buildEvents
  rw [call_of_ok f 0 c0]
  have : f.content.all momentBuilds = true := by
    simp only [List.all_eq_true]
    intro e he
    have m := (momentOk_iff e).2 (h.moments e he)
    obtain ⟨ie, b, d, mo, w, t⟩ := e
    cases b <;> cases d <;> cases mo <;> cases w <;> cases t <;> simp_all [momentOk, momentBuilds]
  simp [this]

end DawgieVerif.Compliant
