/-
String facts behind the catalogue names: decimal rendering, the reserved tokens,
`dissect ∘ construct`, exact-versus-prefix matching of `util.subset`, and the prefix match on
`str(tuple)` used by `shelve.reset`.
-/
import DawgieVerif.Model.Store

namespace DawgieVerif.Store
open DawgieVerif.Generated.Store

/-- names the theorems speak about: no colon (the only character both reserved tokens need) -/
def NameOK (n : Name) : Prop := ':' ∉ n

instance (n : Name) : Decidable (NameOK n) := by unfold NameOK; infer_instance

/-! ### digits -/

def IsDigit (c : Char) : Prop := 48 ≤ c.toNat ∧ c.toNat ≤ 57

theorem digitChar_toNat {d : Nat} (h : d < 10) : (digitChar d).toNat = 48 + d := by
  have : d = 0 ∨ d = 1 ∨ d = 2 ∨ d = 3 ∨ d = 4 ∨ d = 5 ∨ d = 6 ∨ d = 7 ∨ d = 8 ∨ d = 9 := by omega
  rcases this with h | h | h | h | h | h | h | h | h | h <;> subst h <;> decide

theorem digitChar_isDigit {d : Nat} (h : d < 10) : IsDigit (digitChar d) := by
  have := digitChar_toNat h
  unfold IsDigit; omega

theorem digitVal_digitChar {d : Nat} (h : d < 10) : digitVal? (digitChar d) = some d := by
  unfold digitVal?; rw [digitChar_toNat h]; simp; omega

theorem natStrAux_fuel (n : Nat) : ∀ f, n ≤ f → natStrAux f n = natStrAux n n := by
  induction n using Nat.strongRecOn with
  | _ n ih =>
    intro f hf
    cases f with
    | zero => have : n = 0 := by omega
              subst this; rfl
    | succ f' =>
      cases n with
      | zero => simp [natStrAux]
      | succ m =>
        by_cases h : m + 1 < 10
        · simp [natStrAux, h]
        · simp only [natStrAux, h, if_false]
          rw [ih ((m + 1) / 10) (by omega) f' (by omega), ih ((m + 1) / 10) (by omega) m (by omega)]

theorem natStr_lt {n : Nat} (h : n < 10) : natStr n = [digitChar n] := by
  unfold natStr
  cases n with
  | zero => rfl
  | succ m => simp [natStrAux, h]

theorem natStr_ge {n : Nat} (h : ¬ n < 10) : natStr n = natStr (n / 10) ++ [digitChar (n % 10)] := by
  unfold natStr
  cases n with
  | zero => omega
  | succ m =>
    simp only [natStrAux, h, if_false]
    rw [natStrAux_fuel ((m + 1) / 10) m (by omega)]

theorem natStr_digits (n : Nat) : ∀ c ∈ natStr n, IsDigit c := by
  induction n using Nat.strongRecOn with
  | _ n ih =>
    by_cases h : n < 10
    · rw [natStr_lt h]; intro c hc; simp at hc; subst hc; exact digitChar_isDigit h
    · rw [natStr_ge h]; intro c hc
      rcases List.mem_append.mp hc with hc | hc
      · exact ih (n / 10) (by omega) c hc
      · simp at hc; subst hc; exact digitChar_isDigit (by omega)

theorem natStr_ne_nil (n : Nat) : natStr n ≠ [] := by
  by_cases h : n < 10
  · rw [natStr_lt h]; simp
  · rw [natStr_ge h]; simp

theorem not_mem_natStr {c : Char} (hc : ¬ IsDigit c) (n : Nat) : c ∉ natStr n :=
  fun h => hc (natStr_digits n c h)

theorem colon_not_mem_natStr (n : Nat) : ':' ∉ natStr n := not_mem_natStr (by unfold IsDigit; decide) n
theorem comma_not_mem_natStr (n : Nat) : ',' ∉ natStr n := not_mem_natStr (by unfold IsDigit; decide) n
theorem dot_not_mem_natStr (n : Nat) : '.' ∉ natStr n := not_mem_natStr (by unfold IsDigit; decide) n

theorem parseNatAux_append (a b : List Char) (acc : Nat) :
    parseNatAux (a ++ b) acc = (parseNatAux a acc).bind (parseNatAux b) := by
  induction a generalizing acc with
  | nil => simp [parseNatAux]
  | cons c cs ih =>
    simp only [List.cons_append, parseNatAux]
    cases digitVal? c with
    | none => simp
    | some d => simp [ih]

theorem parseNatAux_natStr (n : Nat) : parseNatAux (natStr n) 0 = some n := by
  induction n using Nat.strongRecOn with
  | _ n ih =>
    by_cases h : n < 10
    · rw [natStr_lt h]; simp [parseNatAux, digitVal_digitChar h]
    · rw [natStr_ge h, parseNatAux_append, ih (n / 10) (by omega)]
      simp [parseNatAux, digitVal_digitChar (show n % 10 < 10 by omega)]
      omega

theorem parseNat_natStr (n : Nat) : parseNat (natStr n) = some n := by
  unfold parseNat
  have := natStr_ne_nil n
  cases h : natStr n with
  | nil => exact absurd h this
  | cons c cs => rw [← h]; simp [parseNatAux_natStr]; rw [h]; simp

theorem natStr_inj {a b : Nat} (h : natStr a = natStr b) : a = b := by
  have := parseNat_natStr a
  rw [h, parseNat_natStr] at this
  exact (Option.some.inj this).symm

/-! ### cutting at the first separator -/

theorem append_sep_inj {c : Char} {a a' b b' : List Char} (ha : c ∉ a) (ha' : c ∉ a')
    (h : a ++ c :: b = a' ++ c :: b') : a = a' ∧ b = b' := by
  induction a generalizing a' with
  | nil =>
    cases a' with
    | nil => simpa using h
    | cons x xs =>
      simp at h; exact absurd h.1.symm (by intro e; exact ha' (by simp [e]))
  | cons y ys ih =>
    cases a' with
    | nil =>
      simp at h; exact absurd h.1 (by intro e; exact ha (by simp [e]))
    | cons x xs =>
      simp only [List.cons_append, List.cons.injEq] at h
      have := ih (fun m => ha (List.mem_cons_of_mem _ m)) (fun m => ha' (List.mem_cons_of_mem _ m)) h.2
      exact ⟨by rw [h.1, this.1], this.2⟩

theorem prefix_sep {c : Char} {a a' b b' : List Char} (ha : c ∉ a) (ha' : c ∉ a')
    (h : a ++ c :: b <+: a' ++ c :: b') : a = a' ∧ b <+: b' := by
  obtain ⟨t, ht⟩ := h
  have : a ++ c :: (b ++ t) = a' ++ c :: b' := by simpa using ht
  obtain ⟨h1, h2⟩ := append_sep_inj ha ha' this
  exact ⟨h1, ⟨t, h2⟩⟩

theorem not_prefix_of_mem {c : Char} {a b : List Char} (hc : c ∈ a) (hb : c ∉ b) : ¬ a <+: b :=
  fun h => hb (List.IsPrefix.mem hc h)

/-! ### the two tokens -/

/-- `"parent___"` -/
def tokParentTail : List Char := ['p', 'a', 'r', 'e', 'n', 't', '_', '_', '_']
/-- `"___version"` -/
def tokVersionInit : List Char := ['_', '_', '_', 'v', 'e', 'r', 's', 'i', 'o', 'n']

/-- the shape every string lemma below relies on; re-checked against the regenerated tokens -/
theorem tokParent_eq : tokParent = ':' :: tokParentTail := by decide
theorem tokVersion_eq : tokVersion = tokVersionInit ++ [':'] := by decide
theorem colon_not_mem_parentTail : ':' ∉ tokParentTail := by decide
theorem colon_not_mem_versionInit : ':' ∉ tokVersionInit := by decide

theorem findTok_parent_skip {a : List Char} (ha : ':' ∉ a) (s : List Char) :
    findTok tokParent (a ++ s) = (findTok tokParent s).map (fun r => (a ++ r.1, r.2)) := by
  induction a with
  | nil => simp
  | cons c cs ih =>
    have hc : c ≠ ':' := fun e => ha (by simp [e])
    have hcs : ':' ∉ cs := fun m => ha (List.mem_cons_of_mem _ m)
    have hnp : tokParent.isPrefixOf (c :: (cs ++ s)) = false := by
      rw [tokParent_eq]; simp [List.isPrefixOf]; intro e; exact absurd e.symm hc
    simp only [List.cons_append, findTok, hnp, ih hcs]
    cases findTok tokParent s <;> simp

theorem findTok_parent_none {s : List Char} (hs : ':' ∉ s) : findTok tokParent s = none := by
  induction s with
  | nil => simp [findTok]
  | cons c cs ih =>
    have hc : c ≠ ':' := fun e => hs (by simp [e])
    have hnp : tokParent.isPrefixOf (c :: cs) = false := by
      rw [tokParent_eq]; simp [List.isPrefixOf]; intro e; exact absurd e.symm hc
    simp [findTok, hnp, ih (fun m => hs (List.mem_cons_of_mem _ m))]

theorem findTok_here (c : Char) (cs b : List Char) :
    findTok (c :: cs) ((c :: cs) ++ b) = some ([], b) := by
  have h : (c :: cs).isPrefixOf (c :: (cs ++ b)) = true := by
    rw [List.isPrefixOf_iff_prefix]; exact ⟨b, by simp⟩
  simp only [List.cons_append, findTok, h, if_true]
  simp

theorem findTok_parent_here (b : List Char) : findTok tokParent (tokParent ++ b) = some ([], b) := by
  rw [tokParent_eq]; exact findTok_here _ _ _

theorem findTok_parent_found {a : List Char} (ha : ':' ∉ a) (b : List Char) :
    findTok tokParent (a ++ tokParent ++ b) = some (a, b) := by
  rw [List.append_assoc, findTok_parent_skip ha, findTok_parent_here]; simp

/-- a colon that is not followed by `p` does not start the parent token -/
theorem findTok_parent_none' {a d : List Char} (ha : ':' ∉ a) (hd : ':' ∉ d)
    (hp : ∀ x ∈ d.head?, x ≠ 'p') : findTok tokParent (a ++ ':' :: d) = none := by
  rw [findTok_parent_skip ha]
  have hnp : tokParent.isPrefixOf (':' :: d) = false := by
    rw [tokParent_eq]
    cases d with
    | nil => simp [List.isPrefixOf, tokParentTail]
    | cons x xs =>
      have : x ≠ 'p' := hp x (by simp)
      simp [List.isPrefixOf, tokParentTail]; intro e; exact absurd e.symm this
  simp [findTok, hnp, findTok_parent_none hd]

theorem tokVersion_prefix_colon {s : List Char} (h : tokVersion.isPrefixOf s = true) : ':' ∈ s := by
  rw [List.isPrefixOf_iff_prefix] at h
  exact List.IsPrefix.mem (by decide) h

theorem findTok_version_none {s : List Char} (hs : ':' ∉ s) : findTok tokVersion s = none := by
  induction s with
  | nil => simp [findTok]
  | cons c cs ih =>
    have hnp : tokVersion.isPrefixOf (c :: cs) = false := by
      cases h : tokVersion.isPrefixOf (c :: cs) with
      | false => rfl
      | true => exact absurd (tokVersion_prefix_colon h) hs
    simp [findTok, hnp, ih (fun m => hs (List.mem_cons_of_mem _ m))]

theorem findTok_version_here (b : List Char) : findTok tokVersion (tokVersion ++ b) = some ([], b) := by
  have e : tokVersion = '_' :: ['_', '_', 'v', 'e', 'r', 's', 'i', 'o', 'n', ':'] := by decide
  rw [e]; exact findTok_here _ _ _

theorem findTok_version_found {a : List Char} (ha : ':' ∉ a) (b : List Char) :
    findTok tokVersion (a ++ tokVersion ++ b) = some (a, b) := by
  induction a with
  | nil => simpa using findTok_version_here b
  | cons c cs ih =>
    have hcs : ':' ∉ cs := fun m => ha (List.mem_cons_of_mem _ m)
    have hnp : tokVersion.isPrefixOf (c :: (cs ++ tokVersion ++ b)) = false := by
      cases h : tokVersion.isPrefixOf (c :: (cs ++ tokVersion ++ b)) with
      | false => rfl
      | true =>
        exfalso
        rw [List.isPrefixOf_iff_prefix, tokVersion_eq] at h
        have h' : tokVersionInit ++ ':' :: [] <+: (c :: cs ++ tokVersionInit) ++ ':' :: b := by
          simpa [List.append_assoc] using h
        have hmem : ':' ∉ c :: cs ++ tokVersionInit := by
          intro m; rcases List.mem_append.mp m with m | m
          · exact ha m
          · exact colon_not_mem_versionInit m
        have := (prefix_sep colon_not_mem_versionInit hmem h').1
        have hl := congrArg List.length this
        simp [tokVersionInit] at hl
    simp only [List.cons_append, findTok, List.append_assoc] at hnp ⊢
    rw [if_neg (by simp [hnp])]
    have := ih hcs
    simp only [List.append_assoc] at this
    simp [this]

/-! ### versions -/

theorem splitOnChar_of_not_mem {sep : Char} {a : List Char} (h : sep ∉ a) : splitOnChar sep a = [a] := by
  induction a with
  | nil => simp [splitOnChar]
  | cons c cs ih =>
    have hc : c ≠ sep := fun e => h (by simp [e])
    simp [splitOnChar, hc, ih (fun m => h (List.mem_cons_of_mem _ m))]

theorem splitOnChar_append_sep {sep : Char} {a : List Char} (h : sep ∉ a) (b : List Char) :
    splitOnChar sep (a ++ sep :: b) = a :: splitOnChar sep b := by
  induction a with
  | nil => simp [splitOnChar]
  | cons c cs ih =>
    have hc : c ≠ sep := fun e => h (by simp [e])
    simp [splitOnChar, hc, ih (fun m => h (List.mem_cons_of_mem _ m))]

theorem parseVer_verStr (v : Ver) : parseVer (verStr v) = some v := by
  unfold parseVer verStr
  rw [splitOnChar_append_sep (dot_not_mem_natStr _), splitOnChar_append_sep (dot_not_mem_natStr _),
    splitOnChar_of_not_mem (dot_not_mem_natStr _)]
  simp [List.mapM_cons, parseNat_natStr]

theorem colon_not_mem_verStr (v : Ver) : ':' ∉ verStr v := by
  unfold verStr
  have h1 := colon_not_mem_natStr v.d
  have h2 := colon_not_mem_natStr v.i
  have h3 := colon_not_mem_natStr v.b
  simp [h1, h2, h3]

theorem verStr_head (v : Ver) : ∀ x ∈ (verStr v).head?, x ≠ 'p' := by
  intro x hx
  have hne := natStr_ne_nil v.d
  unfold verStr at hx
  cases h : natStr v.d with
  | nil => exact absurd h hne
  | cons c cs =>
    rw [h] at hx; simp at hx; subst hx
    have : IsDigit c := natStr_digits v.d c (by rw [h]; simp)
    intro e; subst e; revert this; unfold IsDigit; decide

/-! ### `dissect (construct n p v)` -/

theorem dissectVer_none {n : Name} (hn : NameOK n) (p : Option Nat) :
    dissectVer p n = some (p, n, none) := by
  unfold dissectVer split2
  rw [findTok_version_none hn]

theorem dissectVer_some {n : Name} (hn : NameOK n) (p : Option Nat) (v : Ver) :
    dissectVer p (n ++ tokVersion ++ verStr v) = some (p, n, some v) := by
  unfold dissectVer split2
  rw [findTok_version_found hn]
  simp [findTok_version_none (colon_not_mem_verStr v), parseVer_verStr]

theorem dissectVer_construct {n : Name} (hn : NameOK n) (p : Option Nat) (v : Option Ver) :
    dissectVer p (match v with | some v => n ++ tokVersion ++ verStr v | none => n) = some (p, n, v) := by
  cases v with
  | none => exact dissectVer_none hn p
  | some v => exact dissectVer_some hn p v

theorem findTok_parent_rest_none {n : Name} (hn : NameOK n) (v : Option Ver) :
    findTok tokParent (match v with | some v => n ++ tokVersion ++ verStr v | none => n) = none := by
  cases v with
  | none => exact findTok_parent_none hn
  | some v =>
    have : n ++ tokVersion ++ verStr v = (n ++ tokVersionInit) ++ ':' :: verStr v := by
      rw [tokVersion_eq]; simp [List.append_assoc]
    simp only [this]
    apply findTok_parent_none' _ (colon_not_mem_verStr v) (verStr_head v)
    intro m; rcases List.mem_append.mp m with m | m
    · exact hn m
    · exact colon_not_mem_versionInit m

theorem construct_some (n : Name) (p : Nat) (v : Option Ver) :
    construct n (some p) v =
      natStr p ++ tokParent ++ (match v with | some v => n ++ tokVersion ++ verStr v | none => n) := by
  cases v <;> simp [construct, List.append_assoc]

theorem construct_none (n : Name) (v : Option Ver) :
    construct n none v = (match v with | some v => n ++ tokVersion ++ verStr v | none => n) := by
  cases v <;> simp [construct]

/-- `dissect` undoes `construct` on every colon-free name -/
theorem dissect_construct {n : Name} (hn : NameOK n) (p : Option Nat) (v : Option Ver) :
    dissect (construct n p v) = some (p, n, v) := by
  cases p with
  | none =>
    rw [construct_none]
    unfold dissect split2
    rw [findTok_parent_rest_none hn v]
    exact dissectVer_construct hn none v
  | some p =>
    rw [construct_some]
    unfold dissect split2
    rw [findTok_parent_found (colon_not_mem_natStr p)]
    simp only [findTok_parent_rest_none hn v, Option.isSome_none, Bool.false_eq_true, if_false,
      parseNat_natStr]
    exact dissectVer_construct hn (some p) v

/-- hence `construct` is injective on colon-free names -/
theorem construct_inj {n n' : Name} (hn : NameOK n) (hn' : NameOK n') {p p' : Option Nat}
    {v v' : Option Ver} (h : construct n p v = construct n' p' v') : n = n' ∧ p = p' ∧ v = v' := by
  have h1 := dissect_construct hn p v
  rw [h, dissect_construct hn' p' v'] at h1
  simp at h1
  exact ⟨h1.2.1.symm, h1.1.symm, h1.2.2.symm⟩

/-! ### `util.subset`, parents branch: exact name, any version -/

theorem colon_not_mem_body {n : Name} (hn : NameOK n) : ':' ∉ tokParentTail ++ n := by
  intro m; rcases List.mem_append.mp m with m | m
  · exact colon_not_mem_parentTail m
  · exact hn m

theorem colon_not_mem_mid {m : Name} (hm : NameOK m) : ':' ∉ tokParentTail ++ m ++ tokVersionInit := by
  intro x
  rcases List.mem_append.mp x with x | x
  · exact colon_not_mem_body hm x
  · exact colon_not_mem_versionInit x

theorem subsetParents_shape (t sn : List Char) :
    subsetParents t sn = true ↔ (t = sn ∨ sn ++ tokVersion <+: t) := by
  simp [subsetParents, tokVersion, List.isPrefixOf_iff_prefix]

theorem subsetParents_iff {n n' : Name} (hn : NameOK n) (hn' : NameOK n') (p p' : Nat)
    (v' : Option Ver) :
    subsetParents (construct n' (some p') v') (construct n (some p) none) = true ↔ p' = p ∧ n' = n := by
  rw [subsetParents_shape]
  constructor
  · intro h
    rcases h with h | h
    · have := construct_inj hn' hn h
      simp at this; exact ⟨this.2.1, this.1⟩
    · cases v' with
      | none =>
        exfalso
        have h' : natStr p ++ ':' :: ((tokParentTail ++ n ++ tokVersionInit) ++ ':' :: []) <+:
            natStr p' ++ ':' :: (tokParentTail ++ n') := by
          simpa [construct, tokParent_eq, tokVersion_eq, List.append_assoc] using h
        have hrest := (prefix_sep (colon_not_mem_natStr p) (colon_not_mem_natStr p') h').2
        exact not_prefix_of_mem (c := ':') (by simp) (colon_not_mem_body hn') hrest
      | some w =>
        have h' : natStr p ++ ':' :: ((tokParentTail ++ n ++ tokVersionInit) ++ ':' :: []) <+:
            natStr p' ++ ':' :: ((tokParentTail ++ n' ++ tokVersionInit) ++ ':' :: verStr w) := by
          simpa [construct, tokParent_eq, tokVersion_eq, List.append_assoc] using h
        obtain ⟨hp, hrest⟩ := prefix_sep (colon_not_mem_natStr p) (colon_not_mem_natStr p') h'
        refine ⟨(natStr_inj hp).symm, ?_⟩
        have := (prefix_sep (colon_not_mem_mid hn) (colon_not_mem_mid hn') hrest).1
        have := List.append_cancel_right this
        exact (List.append_cancel_left this).symm
  · rintro ⟨rfl, rfl⟩
    cases v' with
    | none => exact Or.inl rfl
    | some w =>
      right
      simp [construct, List.append_assoc]

/-! ### `str(tuple)` prefixes (`shelve.reset`) -/

/-- `'a, b, c'` -/
def sepNat : List Nat → List Char
  | [] => []
  | [x] => natStr x
  | x :: y :: r => natStr x ++ ',' :: ' ' :: sepNat (y :: r)

theorem intercalate_natStr (xs : List Nat) : [',', ' '].intercalate (xs.map natStr) = sepNat xs := by
  match xs with
  | [] => simp [sepNat, List.intercalate]
  | [x] => simp [sepNat, List.intercalate]
  | x :: y :: r =>
    have ih := intercalate_natStr (y :: r)
    simp only [List.intercalate, List.map_cons, List.intersperse_cons_cons, List.flatten_cons] at ih ⊢
    simp only [sepNat, ← ih]
    simp

theorem comma_not_mem_sepNat_single (x : Nat) : ',' ∉ natStr x ++ [')'] := by
  intro m; rcases List.mem_append.mp m with m | m
  · exact comma_not_mem_natStr x m
  · simp at m

theorem sepNat_prefix_iff : ∀ (xs ys : List Nat), xs ≠ [] →
    (sepNat xs ++ [','] <+: sepNat ys ++ [')'] ↔ xs <+: ys ∧ xs.length < ys.length)
  | [], _, h => absurd rfl h
  | [x], [], _ => by
    simp only [sepNat, List.nil_append, List.length_cons, List.length_nil]
    constructor
    · intro h; exact absurd h (not_prefix_of_mem (c := ',') (by simp) (by simp))
    · intro h; omega
  | [x], [y], _ => by
    simp only [sepNat, List.length_cons, List.length_nil]
    constructor
    · intro h; exact absurd h (not_prefix_of_mem (c := ',') (by simp) (comma_not_mem_sepNat_single y))
    · intro h; omega
  | [x], y :: y' :: r, _ => by
    simp only [sepNat, List.append_assoc, List.cons_append]
    constructor
    · intro h
      have := prefix_sep (comma_not_mem_natStr x) (comma_not_mem_natStr y) h
      have e := natStr_inj this.1
      subst e
      refine ⟨?_, ?_⟩ <;> simp
    · rintro ⟨h, _⟩
      have e : x = y := by simpa [List.cons_prefix_cons] using h
      subst e
      exact (List.prefix_append_right_inj _).mpr (by simp [List.cons_prefix_cons])
  | x :: x' :: r, [], _ => by
    simp only [sepNat, List.nil_append]
    constructor
    · intro h; exact absurd h (not_prefix_of_mem (c := ',') (by simp) (by simp))
    · intro h; simp at h
  | x :: x' :: r, [y], _ => by
    simp only [sepNat]
    constructor
    · intro h; exact absurd h (not_prefix_of_mem (c := ',') (by simp) (comma_not_mem_sepNat_single y))
    · intro h; simp at h
  | x :: x' :: r, y :: y' :: r', _ => by
    have ih := sepNat_prefix_iff (x' :: r) (y' :: r') (by simp)
    simp only [sepNat, List.append_assoc, List.cons_append] at ih ⊢
    constructor
    · intro h
      have := prefix_sep (comma_not_mem_natStr x) (comma_not_mem_natStr y) h
      have e := natStr_inj this.1
      subst e
      have h2 := (List.prefix_cons_inj ' ').mp this.2
      have := ih.mp h2
      exact ⟨(List.prefix_cons_inj x).mpr this.1, by simp at this ⊢; omega⟩
    · rintro ⟨h, hl⟩
      obtain ⟨e, h'⟩ := List.cons_prefix_cons.mp h
      subst e
      have := ih.mpr ⟨h', by simp at hl ⊢; omega⟩
      exact (List.prefix_append_right_inj _).mpr ((List.prefix_cons_inj _).mpr ((List.prefix_cons_inj _).mpr this))

/-- the prefix match of `reset` on `str(key)` selects exactly the keys that start with the given ids -/
theorem tuple_prefix_iff (xs ys : List Nat) (hx : xs ≠ []) :
    subsetPlain (tupleStr ys) (tuplePrefix xs) = true ↔ xs <+: ys ∧ xs.length < ys.length := by
  have hshape : ∀ (t sn : List Char), subsetPlain t sn = true ↔ sn <+: t := by
    intro t sn; simp [subsetPlain, List.isPrefixOf_iff_prefix]
  rw [hshape, tupleStr, tuplePrefix, intercalate_natStr, intercalate_natStr, List.prefix_cons_inj]
  exact sepNat_prefix_iff xs ys hx

end DawgieVerif.Store
