/-
What `_build_tree` / `_sub_*` leave in `_flat` and `_roots`, and what `_feedback` records.
-/
import DawgieVerif.Proofs.DagBasics

namespace DawgieVerif.Dag
variable {α : Type} [DecidableEq α]

/-! `_sub_*` -/

theorem subAlg_keys (pns : List (Name α)) (fn : Name α) (t : Tbl (Name α) (List (Name α))) (x : Name α) :
    x ∈ (subAlg pns fn t).keys ↔ x ∈ t.keys ∨ x ∈ pns := by
  unfold subAlg
  induction pns generalizing t with
  | nil => simp
  | cons p ps ih =>
    rw [List.foldl_cons, ih, Tbl.keys_upd, List.mem_cons]
    constructor
    · rintro ((h | h) | h)
      · exact Or.inl h
      · exact Or.inr (Or.inl h)
      · exact Or.inr (Or.inr h)
    · rintro (h | h | h)
      · exact Or.inl (Or.inl h)
      · exact Or.inl (Or.inr h)
      · exact Or.inr h

theorem subAlg_get (pns : List (Name α)) (fn : Name α) (t : Tbl (Name α) (List (Name α)))
    (a b : Name α) :
    b ∈ (subAlg pns fn t).get a [] ↔ b ∈ t.get a [] ∨ (a ∈ pns ∧ b = fn) := by
  unfold subAlg
  induction pns generalizing t with
  | nil => simp
  | cons p ps ih =>
    rw [List.foldl_cons, ih, Tbl.get_upd, List.mem_cons]
    by_cases hap : a = p
    · subst hap
      simp only [if_true, mem_addU, true_or, true_and]
      constructor
      · rintro ((h | h) | h)
        · exact Or.inl h
        · exact Or.inr h
        · exact Or.inr h.2
      · rintro (h | h)
        · exact Or.inl (Or.inl h)
        · exact Or.inl (Or.inr h)
    · simp only [hap, if_false, false_or]

/-! one step of `_build_tree` -/

theorem visitValue_keys (e : Engine α) (f : Flat α) (A : Alg α) (fn x : Name α) :
    x ∈ (visitValue e f (A, fn)).tbl.keys ↔ x ∈ f.tbl.keys ∨ x = fn ∨ x ∈ expand e A.inputs := by
  simp only [visitValue, subAlg_keys, Tbl.keys_ensure]
  constructor
  · rintro ((h | h) | h)
    · exact Or.inl h
    · exact Or.inr (Or.inl h)
    · exact Or.inr (Or.inr h)
  · rintro (h | h | h)
    · exact Or.inl (Or.inl h)
    · exact Or.inl (Or.inr h)
    · exact Or.inr h

theorem visitValue_get (e : Engine α) (f : Flat α) (A : Alg α) (fn a b : Name α) :
    b ∈ (visitValue e f (A, fn)).tbl.get a [] ↔
      b ∈ f.tbl.get a [] ∨ (a ∈ expand e A.inputs ∧ b = fn) := by
  simp only [visitValue, subAlg_get, Tbl.get_ensure]

theorem visitValue_roots (e : Engine α) (f : Flat α) (A : Alg α) (fn r : Name α) :
    r ∈ (visitValue e f (A, fn)).roots ↔ r ∈ f.roots ∨ (A.inputs = [] ∧ r = fn) := by
  simp only [visitValue]
  by_cases h : A.inputs = []
  · simp [h, mem_addU]
  · have : A.inputs.isEmpty = false := by
      cases hi : A.inputs with
      | nil => exact absurd hi h
      | cons _ _ => rfl
    simp [h, this]

/-! the whole loop nest -/

theorem fold_keys (e : Engine α) (evs : List (Alg α × Name α)) (f : Flat α) (x : Name α) :
    x ∈ (evs.foldl (visitValue e) f).tbl.keys ↔
      x ∈ f.tbl.keys ∨ ∃ ev, ev ∈ evs ∧ (x = ev.2 ∨ x ∈ expand e ev.1.inputs) := by
  induction evs generalizing f with
  | nil => simp
  | cons ev evs ih =>
    obtain ⟨A, fn⟩ := ev
    rw [List.foldl_cons, ih, visitValue_keys]
    constructor
    · rintro ((h | h) | ⟨ev, hev, h⟩)
      · exact Or.inl h
      · exact Or.inr ⟨(A, fn), List.mem_cons_self, h⟩
      · exact Or.inr ⟨ev, List.mem_cons_of_mem _ hev, h⟩
    · rintro (h | ⟨ev, hev, h⟩)
      · exact Or.inl (Or.inl h)
      · rcases List.mem_cons.1 hev with rfl | hev'
        · exact Or.inl (Or.inr h)
        · exact Or.inr ⟨ev, hev', h⟩

theorem fold_get (e : Engine α) (evs : List (Alg α × Name α)) (f : Flat α) (a b : Name α) :
    b ∈ (evs.foldl (visitValue e) f).tbl.get a [] ↔
      b ∈ f.tbl.get a [] ∨ ∃ ev, ev ∈ evs ∧ a ∈ expand e ev.1.inputs ∧ b = ev.2 := by
  induction evs generalizing f with
  | nil => simp
  | cons ev evs ih =>
    obtain ⟨A, fn⟩ := ev
    rw [List.foldl_cons, ih, visitValue_get]
    constructor
    · rintro ((h | h) | ⟨ev, hev, h⟩)
      · exact Or.inl h
      · exact Or.inr ⟨(A, fn), List.mem_cons_self, h⟩
      · exact Or.inr ⟨ev, List.mem_cons_of_mem _ hev, h⟩
    · rintro (h | ⟨ev, hev, h⟩)
      · exact Or.inl (Or.inl h)
      · rcases List.mem_cons.1 hev with rfl | hev'
        · exact Or.inl (Or.inr h)
        · exact Or.inr ⟨ev, hev', h⟩

theorem fold_roots (e : Engine α) (evs : List (Alg α × Name α)) (f : Flat α) (r : Name α) :
    r ∈ (evs.foldl (visitValue e) f).roots ↔
      r ∈ f.roots ∨ ∃ ev, ev ∈ evs ∧ ev.1.inputs = [] ∧ r = ev.2 := by
  induction evs generalizing f with
  | nil => simp
  | cons ev evs ih =>
    obtain ⟨A, fn⟩ := ev
    rw [List.foldl_cons, ih, visitValue_roots]
    constructor
    · rintro ((h | h) | ⟨ev, hev, h⟩)
      · exact Or.inl h
      · exact Or.inr ⟨(A, fn), List.mem_cons_self, h⟩
      · exact Or.inr ⟨ev, List.mem_cons_of_mem _ hev, h⟩
    · rintro (h | ⟨ev, hev, h⟩)
      · exact Or.inl (Or.inl h)
      · rcases List.mem_cons.1 hev with rfl | hev'
        · exact Or.inl (Or.inr h)
        · exact Or.inr ⟨ev, hev', h⟩

omit [DecidableEq α] in
theorem mem_order (e : Engine α) (A : Alg α) : A ∈ e.order ↔ A ∈ e.algs := by
  unfold Engine.order
  simp only [Generated.Dag.buildOrder, List.flatMap_cons, List.flatMap_nil, List.append_nil,
    List.mem_append, List.mem_filter, beq_iff_eq]
  constructor
  · rintro (h | h | h) <;> exact h.1
  · intro h
    cases hk : A.kind
    · exact Or.inr (Or.inr ⟨h, rfl⟩)
    · exact Or.inl ⟨h, rfl⟩
    · exact Or.inr (Or.inl ⟨h, rfl⟩)

omit [DecidableEq α] in
theorem mem_events (e : Engine α) (A : Alg α) (fn : Name α) :
    (A, fn) ∈ events e ↔ A ∈ e.algs ∧ fn ∈ algValues A := by
  unfold events
  simp only [List.mem_flatMap, List.mem_map, Prod.mk.injEq, mem_order]
  constructor
  · rintro ⟨B, hB, fn', hfn, rfl, rfl⟩
    exact ⟨hB, hfn⟩
  · rintro ⟨hA, hfn⟩
    exact ⟨A, hA, fn, hfn, rfl, rfl⟩

/-- the nodes of `_flat`: every value an algorithm produces and every expanded input of an
    algorithm that produces something -/
theorem flat_keys (e : Engine α) (x : Name α) :
    x ∈ (buildFlat e).tbl.keys ↔
      ∃ A, A ∈ e.algs ∧ ∃ fn, fn ∈ algValues A ∧ (x = fn ∨ x ∈ expand e A.inputs) := by
  unfold buildFlat
  rw [fold_keys]
  constructor
  · rintro (h | ⟨⟨A, fn⟩, hev, h⟩)
    · simp [Flat.empty, Tbl.keys] at h
    · obtain ⟨hA, hfn⟩ := (mem_events e A fn).1 hev
      exact ⟨A, hA, fn, hfn, h⟩
  · rintro ⟨A, hA, fn, hfn, h⟩
    exact Or.inr ⟨(A, fn), (mem_events e A fn).2 ⟨hA, hfn⟩, h⟩

/-- the value-level edges: exactly the declared inputs -/
theorem flat_kids (e : Engine α) (a b : Name α) :
    b ∈ (buildFlat e).tbl.get a [] ↔ Declares e a b := by
  unfold buildFlat Declares
  rw [fold_get]
  constructor
  · rintro (h | ⟨⟨A, fn⟩, hev, ha, rfl⟩)
    · simp [Flat.empty, Tbl.get, Tbl.get?] at h
    · obtain ⟨hA, hfn⟩ := (mem_events e A _).1 hev
      exact ⟨A, hA, hfn, ha⟩
  · rintro ⟨A, hA, hfn, ha⟩
    exact Or.inr ⟨(A, b), (mem_events e A b).2 ⟨hA, hfn⟩, ha, rfl⟩

theorem flat_roots (e : Engine α) (r : Name α) :
    r ∈ (buildFlat e).roots ↔ ∃ A, A ∈ e.algs ∧ A.inputs = [] ∧ r ∈ algValues A := by
  unfold buildFlat
  rw [fold_roots]
  constructor
  · rintro (h | ⟨⟨A, fn⟩, hev, hi, rfl⟩)
    · simp [Flat.empty] at h
    · obtain ⟨hA, hfn⟩ := (mem_events e A _).1 hev
      exact ⟨A, hA, hi, hfn⟩
  · rintro ⟨A, hA, hi, hfn⟩
    exact Or.inr ⟨(A, r), (mem_events e A r).2 ⟨hA, hfn⟩, hi, rfl⟩

theorem declares_mem_keys {e : Engine α} {a b : Name α} (h : Declares e a b) :
    a ∈ (buildFlat e).tbl.keys ∧ b ∈ (buildFlat e).tbl.keys := by
  obtain ⟨B, hB, hb, ha⟩ := h
  exact ⟨(flat_keys e a).2 ⟨B, hB, b, hb, Or.inr ha⟩, (flat_keys e b).2 ⟨B, hB, b, hb, Or.inl rfl⟩⟩

theorem value_mem_keys {e : Engine α} {A : Alg α} (hA : A ∈ e.algs) {x : Name α}
    (hx : x ∈ algValues A) : x ∈ (buildFlat e).tbl.keys :=
  (flat_keys e x).2 ⟨A, hA, x, hx, Or.inl rfl⟩

/-! `_feedback` -/

theorem fbFold_spec (keys : List (Name α)) (evs : List (Name α × Name α)) (st st' : FbSt α)
    (h : fbFold keys evs st = .ok st') :
    (∀ ev, ev ∈ evs → ev.2 ∈ keys) ∧
    (∀ k f, f ∈ st'.fb.get k [] ↔ f ∈ st.fb.get k [] ∨ (k, f) ∈ evs) ∧
    (∀ v c, st'.feedbacks.get? v = some c → st.feedbacks.get? v = some c ∨ (c, v) ∈ evs) ∧
    (∀ v, ((st.feedbacks.get? v).isSome ∨ ∃ c, (c, v) ∈ evs) → (st'.feedbacks.get? v).isSome) := by
  induction evs generalizing st with
  | nil =>
    simp only [fbFold, Except.ok.injEq] at h
    subst h
    simp
  | cons ev evs ih =>
    obtain ⟨k0, f0⟩ := ev
    simp only [fbFold] at h
    unfold fbStep at h
    by_cases hk : f0 ∈ keys
    · simp only [hk, if_true] at h
      obtain ⟨i1, i2, i3, i4⟩ := ih _ h
      refine ⟨?_, ?_, ?_, ?_⟩
      · intro ev hev
        rcases List.mem_cons.1 hev with rfl | hev'
        · exact hk
        · exact i1 ev hev'
      · intro k f
        rw [i2, Tbl.get_upd, List.mem_cons, Prod.mk.injEq]
        by_cases hkk : k = k0
        · subst hkk
          simp only [if_true, mem_addU, true_and]
          constructor
          · rintro ((h' | h') | h')
            · exact Or.inl h'
            · exact Or.inr (Or.inl h')
            · exact Or.inr (Or.inr h')
          · rintro (h' | h' | h')
            · exact Or.inl (Or.inl h')
            · exact Or.inl (Or.inr h')
            · exact Or.inr h'
        · simp only [hkk, if_false, false_and, false_or]
      · intro v c hvc
        rcases i3 v c hvc with h' | h'
        · rw [Tbl.get?_upd] at h'
          by_cases hv : v = f0
          · subst hv
            simp only [if_true, Option.some.injEq] at h'
            subst h'
            exact Or.inr List.mem_cons_self
          · simp only [hv, if_false] at h'
            exact Or.inl h'
        · exact Or.inr (List.mem_cons_of_mem _ h')
      · intro v hv
        apply i4
        rcases hv with hv | ⟨c, hc⟩
        · left
          rw [Tbl.get?_upd]
          split
          · rfl
          · exact hv
        · rcases List.mem_cons.1 hc with hc' | hc'
          · left
            simp only [Prod.mk.injEq] at hc'
            rw [Tbl.get?_upd, if_pos hc'.2]
            rfl
          · exact Or.inr ⟨c, hc'⟩
    · simp [hk] at h

theorem fbFold_ok (keys : List (Name α)) (evs : List (Name α × Name α)) (st : FbSt α)
    (h : ∀ ev, ev ∈ evs → ev.2 ∈ keys) : ∃ st', fbFold keys evs st = .ok st' := by
  induction evs generalizing st with
  | nil => exact ⟨st, rfl⟩
  | cons ev evs ih =>
    have hk : ev.2 ∈ keys := h ev List.mem_cons_self
    simp only [fbFold, fbStep, hk, if_true]
    exact ih _ (fun ev' hev' => h ev' (List.mem_cons_of_mem _ hev'))

/-- the only failure of `_feedback` is the `KeyError` for a fed-back name that is not a node -/
theorem fbFold_error (keys : List (Name α)) (evs : List (Name α × Name α)) (st : FbSt α)
    (err : Err α) (h : fbFold keys evs st = .error err) :
    ∃ ev, ev ∈ evs ∧ err = .keyError ev.2 ∧ ev.2 ∉ keys := by
  induction evs generalizing st with
  | nil => simp [fbFold] at h
  | cons ev evs ih =>
    simp only [fbFold, fbStep] at h
    by_cases hk : ev.2 ∈ keys
    · simp only [hk, if_true] at h
      obtain ⟨ev', hev', h1, h2⟩ := ih _ h
      exact ⟨ev', List.mem_cons_of_mem _ hev', h1, h2⟩
    · simp only [hk, if_false] at h
      injection h with h
      exact ⟨ev, List.mem_cons_self, h.symm, hk⟩

theorem mem_fbEvents (e : Engine α) (keys : List (Name α)) (k f : Name α) :
    (k, f) ∈ fbEvents e keys ↔ k ∈ keys ∧ f ∈ e.feedbackOf k := by
  unfold fbEvents
  simp only [List.mem_flatMap, List.mem_map, Prod.mk.injEq]
  constructor
  · rintro ⟨k', hk', f', hf', rfl, rfl⟩
    exact ⟨hk', hf'⟩
  · rintro ⟨hk, hf⟩
    exact ⟨k, hk, f, hf, rfl, rfl⟩

end DawgieVerif.Dag
