/-
Invariants of the catalogue model over all histories: every table is a gap-free bijection,
every primary key is chained, the persisted dictionaries re-index to the same lists, and
(for histories over colon-free names) every table key is a `construct` of a colon-free name.
-/
import DawgieVerif.Proofs.StoreStr

namespace DawgieVerif.Store
open DawgieVerif.Generated.Store

/-! ### association lists -/

theorem lookup_iff_mem {β : Type} (d : List (Name × β)) (hd : (d.map (·.1)).Nodup) (n : Name) (i : β) :
    d.lookup n = some i ↔ (n, i) ∈ d := by
  induction d with
  | nil => simp
  | cons x xs ih =>
    obtain ⟨k, w⟩ := x
    simp only [List.map_cons, List.nodup_cons] at hd
    by_cases hk : n = k
    · subst hk
      simp only [List.lookup_cons_self, Option.some.injEq, List.mem_cons, Prod.mk.injEq, true_and]
      constructor
      · intro h; exact Or.inl h.symm
      · rintro (h | h)
        · exact h.symm
        · exact absurd (List.mem_map.mpr ⟨(n, i), h, rfl⟩) hd.1
    · have : (n == k) = false := by simp [hk]
      simp only [List.lookup_cons, this, List.mem_cons, Prod.mk.injEq, hk, false_and, false_or]
      exact ih hd.2

theorem lookup_none_iff {β : Type} (d : List (Name × β)) (n : Name) :
    d.lookup n = none ↔ n ∉ d.map (·.1) := by
  induction d with
  | nil => simp
  | cons x xs ih =>
    obtain ⟨k, w⟩ := x
    by_cases hk : n = k
    · subst hk; simp
    · have : (n == k) = false := by simp [hk]
      simp [List.lookup_cons, this, hk, ih]

/-! ### one table -/

/-- the names of a table in id order, read from the persisted dictionary -/
def Tbl.names (t : Tbl) : List Name := t.dict.map (·.1)

structure TblOK (o : Bool) (t : Tbl) : Prop where
  zip : t.dict = t.names.zipIdx
  nodup : t.names.Nodup
  idx : t.index = if o then t.names else []

theorem TblOK.lookup_iff {o : Bool} {t : Tbl} (h : TblOK o t) (n : Name) (i : Nat) :
    t.dict.lookup n = some i ↔ t.names[i]? = some n := by
  rw [lookup_iff_mem t.dict h.nodup, h.zip, List.mem_zipIdx_iff_getElem?]

theorem TblOK.ids {o : Bool} {t : Tbl} (h : TblOK o t) : t.dict.map (·.2) = List.range t.dict.length := by
  have h2 : t.dict.map (·.2) = (t.names.zipIdx).map Prod.snd := by rw [← h.zip]
  rw [h2, List.zipIdx_map_snd, List.range_eq_range']
  simp [Tbl.names]

theorem tbl_append_spec {t : Tbl} (h : TblOK true t) (full : Name) :
    TblOK true (t.append full).1 ∧
    (t.names <+: (t.append full).1.names) ∧
    (t.append full).1.names[(t.append full).2]? = some full ∧
    (∀ f ∈ (t.append full).1.names, f ∈ t.names ∨ f = full) := by
  unfold Tbl.append
  cases hl : t.dict.lookup full with
  | some i =>
    simp only
    exact ⟨h, List.prefix_refl _, (h.lookup_iff full i).mp hl, fun f hf => Or.inl hf⟩
  | none =>
    have hnot : full ∉ t.names := (lookup_none_iff t.dict full).mp hl
    have hidx : t.index = t.names := by simpa using h.idx
    have hlen : t.index.length = t.names.length := by rw [hidx]
    -- whichever length the source uses for the new id, it is the number of names
    have hid : appendId t.index.length t.dict.length = t.names.length := by
      simp [appendId, hlen, Tbl.names]
    rw [hid]
    have hn : ({ dict := t.dict ++ [(full, t.names.length)], index := t.index ++ [full] } : Tbl).names
        = t.names ++ [full] := by simp [Tbl.names]
    refine ⟨⟨?_, ?_, ?_⟩, ?_, ?_, ?_⟩
    · rw [hn, List.zipIdx_append, ← h.zip]; simp
    · rw [hn]; exact List.nodup_append.mpr ⟨h.nodup, by simp, by
        intro a ha b hb; simp at hb; subst hb; intro e; subst e; exact hnot ha⟩
    · rw [hn]; simp [hidx]
    · rw [hn]; exact List.prefix_append _ _
    · rw [hn]; simp
    · rw [hn]; intro f hf; simpa using hf

/-! ### re-indexing the persisted dictionary -/

theorem insertById_perm (x : Name × Nat) (l : List (Name × Nat)) : (insertById x l).Perm (x :: l) := by
  induction l with
  | nil => simp [insertById]
  | cons y ys ih =>
    simp only [insertById]
    split
    · exact List.Perm.refl _
    · exact (List.Perm.cons y ih).trans (List.Perm.swap x y ys)

theorem sortById_perm (l : List (Name × Nat)) : (sortById l).Perm l := by
  induction l with
  | nil => simp [sortById]
  | cons x xs ih =>
    simp only [sortById, List.foldr_cons]
    exact (insertById_perm x _).trans (List.Perm.cons x ih)

theorem insertById_sorted (x : Name × Nat) (l : List (Name × Nat))
    (h : l.Pairwise (fun a b => a.2 ≤ b.2)) : (insertById x l).Pairwise (fun a b => a.2 ≤ b.2) := by
  induction l with
  | nil => simp [insertById]
  | cons y ys ih =>
    simp only [insertById]
    split
    · rename_i hle
      refine List.Pairwise.cons ?_ h
      intro b hb
      rcases List.mem_cons.mp hb with rfl | hb
      · exact hle
      · exact Nat.le_trans hle (List.rel_of_pairwise_cons h hb)
    · rename_i hle
      have hys := List.Pairwise.of_cons h
      refine List.Pairwise.cons ?_ (ih hys)
      intro b hb
      have := (insertById_perm x ys).mem_iff.mp hb
      rcases List.mem_cons.mp this with rfl | hb
      · omega
      · exact List.rel_of_pairwise_cons h hb

theorem sortById_sorted (l : List (Name × Nat)) : (sortById l).Pairwise (fun a b => a.2 ≤ b.2) := by
  induction l with
  | nil => simp [sortById]
  | cons x xs ih =>
    simp only [sortById, List.foldr_cons]
    exact insertById_sorted x _ ih

theorem zipIdx_sorted (l : List Name) (k : Nat) : (l.zipIdx k).Pairwise (fun a b => a.2 ≤ b.2) := by
  induction l generalizing k with
  | nil => simp
  | cons x xs ih =>
    simp only [List.zipIdx_cons]
    refine List.Pairwise.cons ?_ (ih (k + 1))
    intro b hb
    have := List.mem_zipIdx hb
    simp at this ⊢; omega

/-- any iteration order of the persisted dictionary sorts back to the id order -/
theorem sortById_of_perm (names : List Name) (d' : List (Name × Nat)) (h : d'.Perm names.zipIdx) :
    sortById d' = names.zipIdx := by
  apply List.Perm.eq_of_pairwise (le := fun a b => a.2 ≤ b.2) _ (sortById_sorted d') (zipIdx_sorted names 0)
    ((sortById_perm d').trans h)
  intro a b ha hb hab hba
  have ha' : a ∈ names.zipIdx := h.mem_iff.mp ((sortById_perm d').mem_iff.mp ha)
  have e : a.2 = b.2 := Nat.le_antisymm hab hba
  rw [List.mem_zipIdx_iff_getElem?] at ha' hb
  rw [e, hb] at ha'
  exact Prod.ext (Option.some.inj ha').symm e

theorem indexed_of_perm (names : List Name) (d' : List (Name × Nat)) (h : d'.Perm names.zipIdx) :
    indexed d' = names := by
  unfold indexed
  rw [sortById_of_perm names d' h, List.zipIdx_map_fst]

theorem TblOK.indexed {o : Bool} {t : Tbl} (h : TblOK o t) : indexed t.dict = t.names := by
  apply indexed_of_perm
  rw [← h.zip]

/-! ### the catalogue -/

/-- primary key `k` was built for exactly these author names and versions -/
def KeyIs (s : St) (k : Key) (tn task : Name) (alg sv v : Name × Ver) : Prop :=
  s.target.names[k.tg]? = some tn ∧ s.task.names[k.task]? = some task ∧
  s.alg.names[k.alg]? = some (construct alg.1 (some k.task) (some alg.2)) ∧
  s.state.names[k.sv]? = some (construct sv.1 (some k.alg) (some sv.2)) ∧
  s.value.names[k.v]? = some (construct v.1 (some k.sv) (some v.2))

def KeyOK (s : St) (k : Key) : Prop := ∃ tn task alg sv v, KeyIs s k tn task alg sv v

structure Inv (s : St) : Prop where
  tbls : ∀ t : Tab, TblOK s.opened (s.tbl t)
  chain : ∀ e ∈ s.prime, KeyOK s e.1
  pnodup : (s.prime.map (·.1)).Nodup
  blobs : ∀ e ∈ s.prime, (s.blobs.lookup e.2).isSome = true

/-- `s'` extends `s`: same primary table, every name keeps its id -/
structure Ext (s s' : St) : Prop where
  opened : s'.opened = s.opened
  prime : s'.prime = s.prime
  blobs : s'.blobs = s.blobs
  names : ∀ t : Tab, (s.tbl t).names <+: (s'.tbl t).names

theorem Ext.refl (s : St) : Ext s s := ⟨rfl, rfl, rfl, fun _ => List.prefix_refl _⟩

theorem Ext.trans {a b c : St} (h1 : Ext a b) (h2 : Ext b c) : Ext a c :=
  ⟨h2.opened.trans h1.opened, h2.prime.trans h1.prime, h2.blobs.trans h1.blobs,
   fun t => (h1.names t).trans (h2.names t)⟩

theorem prefix_getElem? {l l' : List Name} (h : l <+: l') {i : Nat} {x : Name} (hx : l[i]? = some x) :
    l'[i]? = some x := by
  obtain ⟨t, rfl⟩ := h
  have hi : i < l.length := by
    rcases Nat.lt_or_ge i l.length with h | h
    · exact h
    · rw [List.getElem?_eq_none h] at hx; cases hx
  rw [List.getElem?_append_left hi]; exact hx

theorem KeyIs.mono {s s' : St} (h : Ext s s') {k tn task alg sv v} (hk : KeyIs s k tn task alg sv v) :
    KeyIs s' k tn task alg sv v :=
  ⟨prefix_getElem? (h.names .target) hk.1, prefix_getElem? (h.names .task) hk.2.1,
   prefix_getElem? (h.names .alg) hk.2.2.1, prefix_getElem? (h.names .state) hk.2.2.2.1,
   prefix_getElem? (h.names .value) hk.2.2.2.2⟩

theorem KeyOK.mono {s s' : St} (h : Ext s s') {k} (hk : KeyOK s k) : KeyOK s' k := by
  obtain ⟨a, b, c, d, e, hk⟩ := hk; exact ⟨a, b, c, d, e, hk.mono h⟩

theorem tbl_setTbl_same (s : St) (t : Tab) (x : Tbl) : (s.setTbl t x).tbl t = x := by
  cases t <;> rfl

theorem tbl_setTbl_other (s : St) (t u : Tab) (x : Tbl) (h : u ≠ t) : (s.setTbl t x).tbl u = s.tbl u := by
  cases t <;> cases u <;> first | rfl | exact absurd rfl h

theorem setTbl_fields (s : St) (t : Tab) (x : Tbl) :
    (s.setTbl t x).opened = s.opened ∧ (s.setTbl t x).prime = s.prime ∧ (s.setTbl t x).blobs = s.blobs := by
  cases t <;> exact ⟨rfl, rfl, rfl⟩

/-- `util.append` on an open, well-formed catalogue -/
theorem upd_spec {s : St} (h : Inv s) (ho : s.opened = true) (t : Tab) (name : Name) (p : Option Nat)
    (v : Option Ver) :
    Inv (s.upd t name p v).1 ∧ Ext s (s.upd t name p v).1 ∧
    ((s.upd t name p v).1.tbl t).names[(s.upd t name p v).2]? = some (construct name p v) ∧
    (∀ f ∈ ((s.upd t name p v).1.tbl t).names, f ∈ (s.tbl t).names ∨ f = construct name p v) ∧
    (∀ u, u ≠ t → (s.upd t name p v).1.tbl u = s.tbl u) := by
  have hT : TblOK true (s.tbl t) := by have := h.tbls t; rwa [ho] at this
  obtain ⟨h1, h2, h3, h4⟩ := tbl_append_spec hT (construct name p v)
  unfold St.upd
  simp only
  obtain ⟨f1, f2, f3⟩ := setTbl_fields s t ((s.tbl t).append (construct name p v)).1
  have hext : Ext s (s.setTbl t ((s.tbl t).append (construct name p v)).1) := by
    refine ⟨f1, f2, f3, ?_⟩
    intro u
    by_cases hu : u = t
    · subst hu; rw [tbl_setTbl_same]; exact h2
    · rw [tbl_setTbl_other _ _ _ _ hu]; exact List.prefix_refl _
  refine ⟨⟨?_, ?_, ?_, ?_⟩, hext, ?_, ?_, ?_⟩
  · intro u
    rw [f1, ho]
    by_cases hu : u = t
    · subst hu; rw [tbl_setTbl_same]; exact h1
    · rw [tbl_setTbl_other _ _ _ _ hu]; have := h.tbls u; rwa [ho] at this
  · rw [f2]; intro e he; exact (h.chain e he).mono hext
  · rw [f2]; exact h.pnodup
  · rw [f2, f3]; exact h.blobs
  · rw [tbl_setTbl_same]; exact h3
  · rw [tbl_setTbl_same]; exact h4
  · intro u hu; exact tbl_setTbl_other _ _ _ _ hu

theorem toKey_eq (s : St) (run : Nat) (tn task : Name) (alg sv v : Name × Ver) :
    toKey s run tn task alg sv v =
      (let r1 := s.upd .target tn none none
       let r2 := r1.1.upd .task task none none
       let r3 := r2.1.upd .alg alg.1 (some r2.2) (some alg.2)
       let r4 := r3.1.upd .state sv.1 (some r3.2) (some sv.2)
       let r5 := r4.1.upd .value v.1 (some r4.2) (some v.2)
       (r5.1, ⟨run, r1.2, r2.2, r3.2, r4.2, r5.2⟩)) := rfl

/-- the call table extracted from `Interface.__to_key` is the one the model implements -/
theorem toKeyCalls_match : toKeyCalls = toKeyCallsModel ∧ toKeyResult = toKeyResultModel := by decide

/-- `Interface.__to_key` on an open, well-formed catalogue: the key it returns is the key of
    exactly the given names and versions -/
theorem toKey_spec {s : St} (h : Inv s) (ho : s.opened = true) (run : Nat) (tn task : Name)
    (alg sv v : Name × Ver) :
    Inv (toKey s run tn task alg sv v).1 ∧ Ext s (toKey s run tn task alg sv v).1 ∧
    KeyIs (toKey s run tn task alg sv v).1 (toKey s run tn task alg sv v).2 tn task alg sv v ∧
    (toKey s run tn task alg sv v).2.run = run := by
  rw [toKey_eq]
  simp only
  obtain ⟨i1, e1, n1, _, o1⟩ := upd_spec h ho .target tn none none
  have ho1 : (s.upd .target tn none none).1.opened = true := by rw [e1.opened]; exact ho
  obtain ⟨i2, e2, n2, _, o2⟩ := upd_spec i1 ho1 .task task none none
  have ho2 := e2.opened.trans ho1
  obtain ⟨i3, e3, n3, _, o3⟩ := upd_spec i2 ho2 .alg alg.1
    (some ((s.upd .target tn none none).1.upd .task task none none).2) (some alg.2)
  have ho3 := e3.opened.trans ho2
  obtain ⟨i4, e4, n4, _, o4⟩ := upd_spec i3 ho3 .state sv.1 (some (St.upd _ .alg alg.1 _ _).2) (some sv.2)
  have ho4 := e4.opened.trans ho3
  obtain ⟨i5, e5, n5, _, o5⟩ := upd_spec i4 ho4 .value v.1 (some (St.upd _ .state sv.1 _ _).2) (some v.2)
  refine ⟨i5, e1.trans (e2.trans (e3.trans (e4.trans e5))), ⟨?_, ?_, ?_, ?_, ?_⟩, trivial⟩
  · exact prefix_getElem? ((e2.trans (e3.trans (e4.trans e5))).names .target) n1
  · exact prefix_getElem? ((e3.trans (e4.trans e5)).names .task) n2
  · exact prefix_getElem? ((e4.trans e5).names .alg) n3
  · exact prefix_getElem? (e5.names .state) n4
  · exact n5

/-! ### every operation keeps the invariant -/

theorem inv_init : Inv init := by
  refine ⟨?_, ?_, ?_, ?_⟩
  · intro t; cases t <;> exact ⟨rfl, List.nodup_nil, rfl⟩
  · intro e he; cases he
  · exact List.nodup_nil
  · intro e he; cases he

theorem KeyIs.of_names {s s' : St} (h : ∀ t, (s'.tbl t).names = (s.tbl t).names) {k tn task alg sv v}
    (hk : KeyIs s k tn task alg sv v) : KeyIs s' k tn task alg sv v := by
  have h1 := h .target; have h2 := h .task; have h3 := h .alg; have h4 := h .state; have h5 := h .value
  simp only [St.tbl] at h1 h2 h3 h4 h5
  unfold KeyIs at hk ⊢
  rw [h1, h2, h3, h4, h5]; exact hk

theorem openDb_tbl (s : St) (ho : s.opened = false) (t : Tab) :
    (openDb s).tbl t = { (s.tbl t) with index := indexed (s.tbl t).dict } := by
  cases t <;> simp [openDb, St.tbl, ho]

theorem closeDb_tbl (s : St) (t : Tab) : (closeDb s).tbl t = { (s.tbl t) with index := [] } := by
  cases t <;> simp [closeDb, St.tbl]

theorem inv_openDb {s : St} (h : Inv s) : Inv (openDb s) := by
  cases ho : s.opened with
  | true => have : openDb s = s := by simp [Store.openDb, ho]
            rw [this]; exact h
  | false =>
    have hn : ∀ t, ((Store.openDb s).tbl t).names = (s.tbl t).names := by
      intro t; rw [openDb_tbl s ho]; rfl
    have hp : (Store.openDb s).prime = s.prime := by simp [Store.openDb, ho]
    have hb : (Store.openDb s).blobs = s.blobs := by simp [Store.openDb, ho]
    have hop : (Store.openDb s).opened = true := by simp [Store.openDb, ho]
    refine ⟨?_, ?_, ?_, ?_⟩
    · intro t
      have ht := h.tbls t
      rw [hop, openDb_tbl s ho]
      exact ⟨ht.zip, ht.nodup, by simpa [Tbl.names] using ht.indexed⟩
    · rw [hp]; intro e he
      obtain ⟨a, b, c, d, f, hk⟩ := h.chain e he
      exact ⟨a, b, c, d, f, hk.of_names hn⟩
    · rw [hp]; exact h.pnodup
    · rw [hp, hb]; exact h.blobs

theorem inv_closeDb {s : St} (h : Inv s) : Inv (closeDb s) := by
  have hn : ∀ t, ((Store.closeDb s).tbl t).names = (s.tbl t).names := by
    intro t; rw [closeDb_tbl]; rfl
  refine ⟨?_, ?_, ?_, ?_⟩
  · intro t
    have ht := h.tbls t
    rw [closeDb_tbl]
    exact ⟨ht.zip, ht.nodup, by simp [Store.closeDb]⟩
  · intro e he
    obtain ⟨a, b, c, d, f, hk⟩ := h.chain e (by simpa [Store.closeDb] using he)
    exact ⟨a, b, c, d, f, hk.of_names hn⟩
  · exact h.pnodup
  · exact h.blobs

theorem register_eq (s : St) (task : Name) (alg sv : Name × Ver) (t : Bool) (v : Name × Ver)
    (ho : s.opened = true) :
    register s task alg sv t v = .ok
      (let r1 := s.upd .task task none none
       let r2 := r1.1.upd .alg alg.1 (some r1.2) (some alg.2)
       let r3 := r2.1.upd .state sv.1 (some r2.2) (if t then some sv.2 else none)
       let r4 := r3.1.upd .value v.1 (some r3.2) (some v.2)
       (r4.1, [r1.2, r2.2, r3.2, r4.2])) := by
  simp [register, ho]

theorem inv_register {s : St} (h : Inv s) (ho : s.opened = true) (task : Name) (alg sv : Name × Ver)
    (t : Bool) (v : Name × Ver) :
    ∃ r, register s task alg sv t v = .ok r ∧ Inv r.1 ∧ Ext s r.1 := by
  refine ⟨_, register_eq s task alg sv t v ho, ?_⟩
  simp only
  obtain ⟨i1, e1, _⟩ := upd_spec h ho .task task none none
  have ho1 := e1.opened.trans ho
  obtain ⟨i2, e2, _⟩ := upd_spec i1 ho1 .alg alg.1 (some (s.upd .task task none none).2) (some alg.2)
  have ho2 := e2.opened.trans ho1
  obtain ⟨i3, e3, _⟩ := upd_spec i2 ho2 .state sv.1 (some (St.upd _ .alg alg.1 _ _).2)
    (if t then some sv.2 else none)
  have ho3 := e3.opened.trans ho2
  obtain ⟨i4, e4, _⟩ := upd_spec i3 ho3 .value v.1 (some (St.upd _ .state sv.1 _ _).2) (some v.2)
  exact ⟨i4, e1.trans (e2.trans (e3.trans e4))⟩

theorem setPrime_tbl (s : St) (k : Key) (blob : Name) (c : Nat) (t : Tab) :
    ((setPrime s k blob c).1).tbl t = s.tbl t := by
  cases t <;> rfl

theorem setPrime_prime_keys (s : St) (k : Key) (blob : Name) (c : Nat) :
    ∀ e ∈ (setPrime s k blob c).1.prime, e = (k, blob) ∨ (e ∈ s.prime ∧ e.1 ≠ k) := by
  intro e he
  by_cases hany : (s.prime.any (fun e => e.1 == k)) = true
  · simp only [setPrime, hany, if_true] at he
    rcases List.mem_map.mp he with ⟨x, hx, rfl⟩
    by_cases hxk : x.1 = k
    · left; simp [hxk]
    · right; simp [hxk]; exact hx
  · simp only [setPrime, hany] at he
    rcases List.mem_append.mp he with he | he
    · right
      refine ⟨he, ?_⟩
      intro hk
      exact hany (List.any_eq_true.mpr ⟨e, he, by simp [hk]⟩)
    · left; simpa using he

theorem map_fst_map_replace (l : List (Key × Name)) (k : Key) (blob : Name) :
    (l.map (fun e => if e.1 == k then (k, blob) else e)).map (·.1) = l.map (·.1) := by
  induction l with
  | nil => rfl
  | cons x xs ih =>
    simp only [List.map_cons, ih, List.cons.injEq, and_true]
    by_cases h : x.1 = k <;> simp [h]

theorem inv_setPrime {s : St} (h : Inv s) (k : Key) (hk : KeyOK s k) (blob : Name) (c : Nat) :
    Inv (setPrime s k blob c).1 := by
  have hn : ∀ t, ((Store.setPrime s k blob c).1.tbl t).names = (s.tbl t).names := by
    intro t; rw [setPrime_tbl]
  refine ⟨?_, ?_, ?_, ?_⟩
  · intro t; rw [setPrime_tbl]; exact h.tbls t
  · intro e he
    rcases setPrime_prime_keys s k blob c e he with rfl | ⟨he, _⟩
    · obtain ⟨a, b, c', d, f, hk⟩ := hk; exact ⟨a, b, c', d, f, hk.of_names hn⟩
    · obtain ⟨a, b, c', d, f, hk⟩ := h.chain e he; exact ⟨a, b, c', d, f, hk.of_names hn⟩
  · simp only [Store.setPrime]
    split
    · rw [map_fst_map_replace]; exact h.pnodup
    · rename_i hany
      rw [List.map_append]
      refine List.nodup_append.mpr ⟨h.pnodup, by simp, ?_⟩
      intro a ha b hb
      simp at hb; subst hb
      intro e; subst e
      rcases List.mem_map.mp ha with ⟨x, hx, rfl⟩
      exact hany (List.any_eq_true.mpr ⟨x, hx, by simp⟩)
  · intro e he
    have hb : ∀ b, (s.blobs.lookup b).isSome = true → ((Store.setPrime s k blob c).1.blobs.lookup b).isSome = true := by
      intro b hb
      simp only [Store.setPrime]
      split
      · exact hb
      · rename_i hex
        cases hl : s.blobs.lookup b with
        | none => rw [hl] at hb; cases hb
        | some w =>
          have : (s.blobs ++ [(blob, c)]).lookup b = some w := by
            rw [List.lookup_append, hl]; rfl
          rw [this]; rfl
    rcases setPrime_prime_keys s k blob c e he with rfl | ⟨he, _⟩
    · simp only [Store.setPrime]
      split
      · rename_i hex; exact hex
      · simp [List.lookup_append]
    · exact hb _ (h.blobs e he)

theorem store_eq (s : St) (ho : s.opened = true) (run : Nat) (tn task : Name) (alg sv v : Name × Ver)
    (blob : Name) (c : Nat) :
    store s run tn task alg sv v blob c = .ok
      ((setPrime (toKey s run tn task alg sv v).1 (toKey s run tn task alg sv v).2 blob c).1,
       (toKey s run tn task alg sv v).2,
       (setPrime (toKey s run tn task alg sv v).1 (toKey s run tn task alg sv v).2 blob c).2) := by
  simp [store, ho]

theorem inv_store {s : St} (h : Inv s) (ho : s.opened = true) (run : Nat) (tn task : Name)
    (alg sv v : Name × Ver) (blob : Name) (c : Nat) :
    ∃ r, store s run tn task alg sv v blob c = .ok r ∧ Inv r.1 := by
  refine ⟨_, store_eq s ho run tn task alg sv v blob c, ?_⟩
  obtain ⟨i, _, hk, _⟩ := toKey_spec h ho run tn task alg sv v
  exact inv_setPrime i _ ⟨_, _, _, _, _, hk⟩ blob c

theorem load_state (s : St) (run : Nat) (tn task : Name) (alg sv v : Name × Ver) {r}
    (h : load s run tn task alg sv v = .ok r) : r.1 = (toKey s run tn task alg sv v).1 := by
  unfold load at h
  split at h
  · cases h
  · simp only at h
    split at h
    · cases h; rfl
    · split at h
      · cases h
      · cases h; rfl

theorem remove_ok_prime {s s' : St} {run : Nat} {tn taskn algn svn vn : Name}
    (h : remove s run tn taskn algn svn vn = .ok s') :
    (∀ t, s'.tbl t = s.tbl t) ∧ s'.opened = s.opened ∧ s'.blobs = s.blobs ∧
    ∃ p : Key × Name → Bool, s'.prime = s.prime.filter p := by
  unfold remove at h
  split at h
  · cases h
  · split at h
    · cases h
    · split at h
      · cases h
      · cases h
        exact ⟨fun t => by cases t <;> rfl, rfl, rfl, _, rfl⟩

theorem inv_remove {s s' : St} (h : Inv s) {run : Nat} {tn taskn algn svn vn : Name}
    (hr : remove s run tn taskn algn svn vn = .ok s') : Inv s' := by
  obtain ⟨ht, ho, hb, p, hp⟩ := remove_ok_prime hr
  have hn : ∀ t, (s'.tbl t).names = (s.tbl t).names := fun t => by rw [ht]
  refine ⟨?_, ?_, ?_, ?_⟩
  · intro t; rw [ht, ho]; exact h.tbls t
  · intro e he
    rw [hp] at he
    obtain ⟨a, b, c, d, f, hk⟩ := h.chain e (List.mem_filter.mp he).1
    exact ⟨a, b, c, d, f, hk.of_names hn⟩
  · rw [hp]
    exact List.Nodup.sublist ((List.filter_sublist).map _) h.pnodup
  · intro e he
    rw [hp] at he
    rw [hb]; exact h.blobs e (List.mem_filter.mp he).1

theorem inv_step {s : St} (h : Inv s) (op : Op) : Inv (step s op) := by
  cases op with
  | openDb => exact inv_openDb h
  | closeDb => exact inv_closeDb h
  | add tn =>
    simp only [Store.step, add]
    cases ho : s.opened with
    | false => simpa using h
    | true => simpa using (upd_spec h ho .target tn none none).1
  | register task alg sv t v =>
    simp only [Store.step]
    cases ho : s.opened with
    | false => simp [Store.register, ho]; exact h
    | true =>
      obtain ⟨r, hr, hi, _⟩ := inv_register h ho task alg sv t v
      rw [hr]; exact hi
  | store run tn task alg sv v blob c =>
    simp only [Store.step]
    cases ho : s.opened with
    | false => simp [Store.store, ho]; exact h
    | true =>
      obtain ⟨r, hr, hi⟩ := inv_store h ho run tn task alg sv v blob c
      rw [hr]; exact hi
  | load run tn task alg sv v =>
    simp only [Store.step]
    cases hl : load s run tn task alg sv v with
    | error e => exact h
    | ok r =>
      simp only
      rw [load_state s run tn task alg sv v hl]
      have ho : s.opened = true := by
        cases ho : s.opened with
        | true => rfl
        | false => simp [Store.load, ho] at hl
      exact (toKey_spec h ho run tn task alg sv v).1
  | remove run tn task alg sv v =>
    simp only [Store.step]
    cases hr : remove s run tn task alg sv v with
    | error e => exact h
    | ok s' => exact inv_remove h hr

theorem inv_run {s : St} (h : Inv s) (ops : List Op) : Inv (run s ops) := by
  induction ops generalizing s with
  | nil => exact h
  | cons op ops ih => exact ih (inv_step h op)

/-- every state reachable from the empty catalogue satisfies the invariant -/
theorem reach_inv (ops : List Op) : Inv (run init ops) := inv_run inv_init ops

/-! ### histories over colon-free names: every table key is a `construct` of such a name -/

def Shape : Tab → Name → Prop
  | .target, f => NameOK f
  | .task, f => NameOK f
  | .alg, f => ∃ n p v, f = construct n (some p) (some v) ∧ NameOK n
  | .state, f => ∃ n p v, f = construct n (some p) v ∧ NameOK n
  | .value, f => ∃ n p v, f = construct n (some p) (some v) ∧ NameOK n

def Named (s : St) : Prop := ∀ t f, f ∈ (s.tbl t).names → Shape t f

/-- the names an operation introduces are colon-free -/
def Op.OK : Op → Prop
  | .add tn => NameOK tn
  | .register task alg sv _ v => NameOK task ∧ NameOK alg.1 ∧ NameOK sv.1 ∧ NameOK v.1
  | .store _ tn task alg sv v _ _ => NameOK tn ∧ NameOK task ∧ NameOK alg.1 ∧ NameOK sv.1 ∧ NameOK v.1
  | .load _ tn task alg sv v => NameOK tn ∧ NameOK task ∧ NameOK alg.1 ∧ NameOK sv.1 ∧ NameOK v.1
  | .remove _ _ _ alg sv v => NameOK alg ∧ NameOK sv ∧ NameOK v
  | _ => True

theorem named_of_names {s s' : St} (h : ∀ t, (s'.tbl t).names = (s.tbl t).names) (hn : Named s) :
    Named s' := fun t f hf => hn t f (by rw [← h t]; exact hf)

theorem upd_named {s : St} (h : Inv s) (ho : s.opened = true) (hn : Named s) (t : Tab) (name : Name)
    (p : Option Nat) (v : Option Ver) (hs : Shape t (construct name p v)) :
    Named (s.upd t name p v).1 := by
  obtain ⟨_, _, _, h4, h5⟩ := upd_spec h ho t name p v
  intro u f hf
  by_cases hu : u = t
  · subst hu
    rcases h4 f hf with hf | rfl
    · exact hn u f hf
    · exact hs
  · rw [h5 u hu] at hf; exact hn u f hf

/-- open, well-formed, colon-free -/
def Good (s : St) : Prop := Inv s ∧ s.opened = true ∧ Named s

theorem good_upd {s : St} (g : Good s) (t : Tab) (name : Name) (p : Option Nat) (v : Option Ver)
    (hs : Shape t (construct name p v)) : Good (s.upd t name p v).1 := by
  obtain ⟨h, ho, hn⟩ := g
  obtain ⟨i1, e1, _⟩ := upd_spec h ho t name p v
  exact ⟨i1, e1.opened.trans ho, upd_named h ho hn t name p v hs⟩

theorem named_toKey {s : St} (h : Inv s) (ho : s.opened = true) (hn : Named s) (run : Nat)
    {tn task : Name} {alg sv v : Name × Ver} (h1 : NameOK tn) (h2 : NameOK task) (h3 : NameOK alg.1)
    (h4 : NameOK sv.1) (h5 : NameOK v.1) : Named (toKey s run tn task alg sv v).1 := by
  rw [toKey_eq]
  let r1 := s.upd .target tn none none
  let r2 := r1.1.upd .task task none none
  let r3 := r2.1.upd .alg alg.1 (some r2.2) (some alg.2)
  let r4 := r3.1.upd .state sv.1 (some r3.2) (some sv.2)
  have g1 : Good r1.1 := good_upd ⟨h, ho, hn⟩ .target tn none none (by simpa [Shape, construct] using h1)
  have g2 : Good r2.1 := good_upd g1 .task task none none (by simpa [Shape, construct] using h2)
  have g3 : Good r3.1 := good_upd g2 .alg alg.1 (some r2.2) (some alg.2) ⟨_, _, _, rfl, h3⟩
  have g4 : Good r4.1 := good_upd g3 .state sv.1 (some r3.2) (some sv.2) ⟨_, _, _, rfl, h4⟩
  exact (good_upd g4 .value v.1 (some r4.2) (some v.2) ⟨_, _, _, rfl, h5⟩).2.2

theorem named_register {s : St} (h : Inv s) (ho : s.opened = true) (hn : Named s) {task : Name}
    {alg sv : Name × Ver} (t : Bool) {v : Name × Ver} (h2 : NameOK task) (h3 : NameOK alg.1)
    (h4 : NameOK sv.1) (h5 : NameOK v.1) {r} (hr : register s task alg sv t v = .ok r) : Named r.1 := by
  rw [register_eq s task alg sv t v ho] at hr
  cases hr
  let r1 := s.upd .task task none none
  let r2 := r1.1.upd .alg alg.1 (some r1.2) (some alg.2)
  let r3 := r2.1.upd .state sv.1 (some r2.2) (if t then some sv.2 else none)
  have g1 : Good r1.1 := good_upd ⟨h, ho, hn⟩ .task task none none (by simpa [Shape, construct] using h2)
  have g2 : Good r2.1 := good_upd g1 .alg alg.1 (some r1.2) (some alg.2) ⟨_, _, _, rfl, h3⟩
  have g3 : Good r3.1 := good_upd g2 .state sv.1 (some r2.2) (if t then some sv.2 else none)
    ⟨_, _, _, rfl, h4⟩
  exact (good_upd g3 .value v.1 (some r3.2) (some v.2) ⟨_, _, _, rfl, h5⟩).2.2

theorem named_step {s : St} (h : Inv s) (hn : Named s) (op : Op) (hop : op.OK) : Named (step s op) := by
  cases op with
  | openDb =>
    cases ho : s.opened with
    | true => have : openDb s = s := by simp [openDb, ho]
              simp only [Store.step, this]; exact hn
    | false => exact named_of_names (fun t => by simp only [Store.step]; rw [openDb_tbl s ho]; rfl) hn
  | closeDb => exact named_of_names (fun t => by simp only [Store.step]; rw [closeDb_tbl]; rfl) hn
  | add tn =>
    simp only [Store.step, add]
    cases ho : s.opened with
    | false => simpa using hn
    | true =>
      have hop' : NameOK tn := hop
      simpa using upd_named h ho hn .target tn none none (by simpa [Shape, construct] using hop')
  | register task alg sv t v =>
    simp only [Store.step]
    cases ho : s.opened with
    | false => simp [Store.register, ho]; exact hn
    | true =>
      obtain ⟨r, hr, _, _⟩ := inv_register h ho task alg sv t v
      rw [hr]; exact named_register h ho hn t hop.1 hop.2.1 hop.2.2.1 hop.2.2.2 hr
  | store run tn task alg sv v blob c =>
    simp only [Store.step]
    cases ho : s.opened with
    | false => simp [Store.store, ho]; exact hn
    | true =>
      rw [store_eq s ho]
      exact named_of_names (fun t => by rw [setPrime_tbl])
        (named_toKey h ho hn run hop.1 hop.2.1 hop.2.2.1 hop.2.2.2.1 hop.2.2.2.2)
  | load run tn task alg sv v =>
    simp only [Store.step]
    cases hl : load s run tn task alg sv v with
    | error e => exact hn
    | ok r =>
      simp only
      rw [load_state s run tn task alg sv v hl]
      have ho : s.opened = true := by
        cases ho : s.opened with
        | true => rfl
        | false => simp [Store.load, ho] at hl
      exact named_toKey h ho hn run hop.1 hop.2.1 hop.2.2.1 hop.2.2.2.1 hop.2.2.2.2
  | remove run tn task alg sv v =>
    simp only [Store.step]
    cases hr : remove s run tn task alg sv v with
    | error e => exact hn
    | ok s' => exact named_of_names (fun t => by rw [(remove_ok_prime hr).1 t]) hn

theorem named_run {s : St} (h : Inv s) (hn : Named s) (ops : List Op) (hops : ∀ op ∈ ops, op.OK) :
    Named (run s ops) := by
  induction ops generalizing s with
  | nil => exact hn
  | cons op ops ih =>
    exact ih (inv_step h op) (named_step h hn op (hops op (by simp))) (fun o ho => hops o (by simp [ho]))

theorem reach_named (ops : List Op) (hops : ∀ op ∈ ops, op.OK) : Named (run init ops) :=
  named_run inv_init (by intro t f hf; cases t <;> simp [init, St.tbl, Tbl.names] at hf) ops hops

end DawgieVerif.Store
