/-
C15 — specification side of the version order and the tactic that closes the operator
theorems over `Generated/Version.lean` (re-run against the regenerated text on every check).
-/
import DawgieVerif.Generated.Version

namespace DawgieVerif.Version
open DawgieVerif.Generated.Version

/-- lexicographic `≤` on (design, implementation, bug fix) -/
def lexLe (a b : V) : Prop :=
  a.1 < b.1 ∨ (a.1 = b.1 ∧ (a.2.1 < b.2.1 ∨ (a.2.1 = b.2.1 ∧ a.2.2 ≤ b.2.2)))

/-- lexicographic `<` on (design, implementation, bug fix) -/
def lexLt (a b : V) : Prop :=
  a.1 < b.1 ∨ (a.1 = b.1 ∧ (a.2.1 < b.2.1 ∨ (a.2.1 = b.2.1 ∧ a.2.2 < b.2.2)))

/-- unfold every generated operator (whatever way the Python expresses one through another) -/
macro "ver_unfold" : tactic =>
  `(tactic| simp only [veq, vge, vgt, vle, vlt, vne, newer, lexLe, lexLt, Prod.mk.injEq])

/-- boolean structure + linear integer arithmetic over the six components; no bound -/
macro "ver_decide" : tactic => `(tactic| (ver_unfold <;> grind))

end DawgieVerif.Version
