import DawgieVerif.Proofs.Sched

namespace DawgieVerif.Sched

/-! ### the full invariant of the scheduler state at op boundaries -/

structure Inv (s : St) : Prop where
  /-- a node that has work or is running is in the queue -/
  lq : ∀ n, (s.node n).live = true → n ∈ s.que
  /-- and nothing else is -/
  ql : ∀ n, n ∈ s.que → (s.node n).live = true
  /-- executing ⇒ in flight -/
  di : ∀ n t, t ∈ (s.node n).doing → (n, t) ∈ s.inflight
  /-- running ⇒ something in flight -/
  ri : ∀ n, (s.node n).running = true → ∃ t, (n, t) ∈ s.inflight
  /-- `do` is empty between dispatches -/
  de : ∀ n, (s.node n).do_ = []
  /-- executing ⇒ status running -/
  dr : ∀ n, (s.node n).doing ≠ [] → (s.node n).running = true

theorem Inv.queCovers {s : St} (h : Inv s) : QueCovers s :=
  fun n hn => h.lq n (live_of_work hn)

theorem inv_init (ts : List Target) : Inv (St.init ts) := by
  constructor <;> simp [St.init, Node.empty, Node.live, Node.running]

theorem live_iff (nd : Node) :
    nd.live = true ↔ nd.todo ≠ [] ∨ nd.doing ≠ [] ∨ nd.running = true := by
  unfold Node.live
  cases nd.todo <;> cases nd.doing <;> simp

/-- pruning a state whose live nodes are queued gives exactly the live nodes -/
theorem prune_lq {s : St} (h : ∀ n, (s.node n).live = true → n ∈ s.que) :
    ∀ n, ((prune s).node n).live = true → n ∈ (prune s).que := by
  intro n hn; rw [mem_prune]; exact ⟨h n hn, hn⟩

/-! ### organize -/

theorem orgFold_live (g : Graph) (all targets : List Target) (rid : Option Nat) (names : List Name)
    (f : Name → Node) (m : Name) (h : (f m).live = true) :
    (orgFold g all targets rid names f m).live = true := by
  obtain ⟨h1, _, h3, h4, _⟩ := orgFold_spec g all targets rid names f m
  rw [live_iff] at h ⊢
  rcases h with h | h | h
  · left
    obtain ⟨t, ht⟩ := List.exists_mem_of_ne_nil _ h
    exact List.ne_nil_of_mem ((h4 t).2 (Or.inl ht))
  · right; left; rw [h1]; exact h
  · right; right; rw [h3]; exact h

theorem organize_inv (g : Graph) (s : St) (names : List Name) (rid : Option Nat)
    (targets : List Target) (h : Inv s) : Inv (organize g s names rid targets) := by
  have hspec := orgFold_spec g s.targets targets rid names s.node
  constructor
  · intro n hn
    rw [mem_organize_que]
    rw [organize_node] at hn
    refine ⟨?_, hn⟩
    by_cases hm : n ∈ names
    · exact Or.inr hm
    · left
      rw [(hspec n).2.2.2.2 hm] at hn
      exact h.lq n hn
  · intro n hn
    rw [mem_organize_que] at hn
    rw [organize_node]; exact hn.2
  · intro n t ht
    rw [organize_node, (hspec n).1] at ht
    exact h.di n t ht
  · intro n hn
    rw [organize_node, (hspec n).2.2.1] at hn
    exact h.ri n hn
  · intro n
    rw [organize_node, (hspec n).2.1]; exact h.de n
  · intro n hn
    rw [organize_node, (hspec n).1] at hn
    rw [organize_node, (hspec n).2.2.1]
    exact h.dr n hn


/-! ### dispatch -/

/-- facts relating the state after some releases to the state before -/
structure Rel (s s' : St) (rel : List (Name × Target)) : Prop where
  que : s'.que = s.que
  status : ∀ n, (s'.node n).status = (s.node n).status
  inflight : s'.inflight = s.inflight ++ rel
  doing : ∀ n t, t ∈ (s'.node n).doing ↔ t ∈ (s.node n).doing ∨ (n, t) ∈ rel
  do_ : ∀ n t, t ∈ (s'.node n).do_ ↔ t ∈ (s.node n).do_ ∨ (n, t) ∈ rel
  todo : ∀ n t, t ∈ (s'.node n).todo → t ∈ (s.node n).todo
  work : ∀ n t, busy s' n t ↔ busy s n t
  gone : ∀ n t, (n, t) ∈ rel → t ∉ (s'.node n).todo

theorem releaseJob_rel (g : Graph) (s : St) (x : Name) :
    Rel s (releaseJob g s x).1 (releaseJob g s x).2 := by
  have hsame := releaseJob_same g s x
  constructor
  · rfl
  · intro n
    unfold releaseJob
    by_cases hn : n = x
    · subst hn; simp
    · simp [setNode_other _ _ _ _ hn]
  · rfl
  · intro n t
    unfold releaseJob
    by_cases hn : n = x
    · subst hn; simp [mem_updU]
    · simp [setNode_other _ _ _ _ hn]; intro _ hx; exact absurd hx.symm hn
  · intro n t
    unfold releaseJob
    by_cases hn : n = x
    · subst hn; simp [mem_updU]
    · simp [setNode_other _ _ _ _ hn]; intro _ hx; exact absurd hx.symm hn
  · intro n t
    unfold releaseJob
    by_cases hn : n = x
    · subst hn; simp; intro h _; exact h
    · simp [setNode_other _ _ _ _ hn]
  · exact hsame.2
  · intro n t hnt
    rw [releaseJob_released] at hnt
    obtain ⟨h1, h2⟩ := hnt
    simp only at h1 h2
    subst h1
    unfold releaseJob
    simp [h2]

theorem Rel.refl (s : St) : Rel s s [] := by
  constructor <;> simp

theorem Rel.trans {s s' s'' : St} {r r' : List (Name × Target)} (h : Rel s s' r)
    (h' : Rel s' s'' r') : Rel s s'' (r ++ r') := by
  constructor
  · rw [h'.que, h.que]
  · intro n; rw [h'.status, h.status]
  · rw [h'.inflight, h.inflight, List.append_assoc]
  · intro n t; rw [h'.doing, h.doing]; simp [or_assoc]
  · intro n t; rw [h'.do_, h.do_]; simp [or_assoc]
  · intro n t ht; exact h.todo n t (h'.todo n t ht)
  · intro n t; rw [h'.work, h.work]
  · intro n t hnt
    rw [List.mem_append] at hnt
    rcases hnt with c | c
    · exact fun hx => h.gone n t c (h'.todo n t hx)
    · exact h'.gone n t c

theorem releaseAll_rel (g : Graph) (s : St) (q : List Name) :
    Rel s (releaseAll g s q).1 (releaseAll g s q).2 := by
  induction q generalizing s with
  | nil => exact Rel.refl s
  | cons x xs ih =>
    simp only [releaseAll]
    exact (releaseJob_rel g s x).trans (ih _)

theorem mem_dedupNames {l : List Name} {n : Name} : n ∈ dedupNames l ↔ n ∈ l := by
  induction l with
  | nil => simp [dedupNames]
  | cons x xs ih =>
    unfold dedupNames
    split
    · rw [ih]; simp; intro h; subst h; assumption
    · simp [ih]

/-- the state after the `_jobs` loop over `js` -/
theorem foldl_putJob_spec (g : Graph) (js : List Name) (s : St) :
    (js.foldl (putJob g) s).que = s.que ∧ (js.foldl (putJob g) s).inflight = s.inflight ∧
    (∀ n, ((js.foldl (putJob g) s).node n).todo = (s.node n).todo ∧
          ((js.foldl (putJob g) s).node n).doing = (s.node n).doing ∧
          (n ∈ js → ((js.foldl (putJob g) s).node n).status = .running ∧
                    ((js.foldl (putJob g) s).node n).do_ = []) ∧
          (n ∉ js → (js.foldl (putJob g) s).node n = s.node n)) := by
  induction js generalizing s with
  | nil => simp
  | cons x xs ih =>
    simp only [List.foldl_cons]
    obtain ⟨h1, h2, h3⟩ := ih (putJob g s x)
    refine ⟨h1, h2, ?_⟩
    intro n
    obtain ⟨a, b, c, d⟩ := h3 n
    by_cases hn : n = x
    · subst hn
      refine ⟨by rw [a]; simp [putJob], by rw [b]; simp [putJob], ?_, by simp⟩
      intro _
      by_cases hx : n ∈ xs
      · exact c hx
      · rw [d hx]; simp [putJob]
    · refine ⟨by rw [a]; simp [putJob, setNode_other _ _ _ _ hn],
              by rw [b]; simp [putJob, setNode_other _ _ _ _ hn], ?_, ?_⟩
      · intro hm
        have : n ∈ xs := by simpa [hn] using hm
        exact c this
      · intro hm
        have : n ∉ xs := by intro c'; exact hm (by simp [c'])
        rw [d this]; simp [putJob, setNode_other _ _ _ _ hn]

theorem dispatch_inv (g : Graph) (s : St) (h : Inv s) : Inv (dispatch g s).1 := by
  unfold dispatch
  split
  · exact h
  · have hr := releaseAll_rel g s s.que
    have hrelq : ∀ n t, (n, t) ∈ (releaseAll g s s.que).2 → n ∈ s.que := fun n t hnt =>
      (releaseAll_released g s s.que n t hnt).choose_spec.2.2
    generalize releaseAll g s s.que = r at hr hrelq
    obtain ⟨s1, rel⟩ := r
    simp only at hr ⊢
    have hjobs : ∀ n, n ∈ byLevel g (dedupNames (rel.map (·.1))) ↔ ∃ t, (n, t) ∈ rel := by
      intro n; rw [mem_byLevel, mem_dedupNames]; simp
    generalize byLevel g (dedupNames (rel.map (·.1))) = js at hjobs
    obtain ⟨p1, p2, p3⟩ := foldl_putJob_spec g js s1
    -- status of a node in the final state
    have hstat : ∀ n, ((js.foldl (putJob g) s1).node n).running = true ↔
        (s.node n).running = true ∨ ∃ t, (n, t) ∈ rel := by
      intro n
      obtain ⟨_, _, c, d⟩ := p3 n
      by_cases hn : n ∈ js
      · have := (c hn).1
        simp [Node.running, this]; right; exact (hjobs n).1 hn
      · rw [d hn]
        have hno : ¬ ∃ t, (n, t) ∈ rel := fun hx => hn ((hjobs n).2 hx)
        simp [Node.running, hr.status n, hno]
    have hlive : ∀ n, ((js.foldl (putJob g) s1).node n).live = true ↔
        (s.node n).live = true ∨ ∃ t, (n, t) ∈ rel := by
      intro n
      rw [live_iff, live_iff, hstat n]
      obtain ⟨a, b, _, _⟩ := p3 n
      rw [a, b]
      have hw := hr.work n
      constructor
      · rintro (h1 | h1 | h1)
        · have := (work_iff_busy s1 n).1 (Or.inl h1)
          obtain ⟨t, ht⟩ := this
          have := (work_iff_busy s n).2 ⟨t, (hw t).1 ht⟩
          rcases this with c | c
          · exact Or.inl (Or.inl c)
          · exact Or.inl (Or.inr (Or.inl c))
        · have := (work_iff_busy s1 n).1 (Or.inr h1)
          obtain ⟨t, ht⟩ := this
          have := (work_iff_busy s n).2 ⟨t, (hw t).1 ht⟩
          rcases this with c | c
          · exact Or.inl (Or.inl c)
          · exact Or.inl (Or.inr (Or.inl c))
        · rcases h1 with h1 | h1
          · exact Or.inl (Or.inr (Or.inr h1))
          · exact Or.inr h1
      · rintro (h1 | h1)
        · rcases h1 with c | c | c
          · have := (work_iff_busy s n).1 (Or.inl c)
            obtain ⟨t, ht⟩ := this
            have := (work_iff_busy s1 n).2 ⟨t, (hw t).2 ht⟩
            rcases this with c | c
            · exact Or.inl c
            · exact Or.inr (Or.inl c)
          · have := (work_iff_busy s n).1 (Or.inr c)
            obtain ⟨t, ht⟩ := this
            have := (work_iff_busy s1 n).2 ⟨t, (hw t).2 ht⟩
            rcases this with c | c
            · exact Or.inl c
            · exact Or.inr (Or.inl c)
          · exact Or.inr (Or.inr (Or.inl c))
        · exact Or.inr (Or.inr (Or.inr h1))
    simp only at hrelq
    constructor
    · intro n hn
      rw [p1, hr.que]
      rcases (hlive n).1 hn with c | ⟨t, c⟩
      · exact h.lq n c
      · exact hrelq n t c
    · intro n hn
      rw [p1, hr.que] at hn
      exact (hlive n).2 (Or.inl (h.ql n hn))
    · intro n t ht
      rw [(p3 n).2.1, hr.doing] at ht
      rw [p2, hr.inflight, List.mem_append]
      rcases ht with c | c
      · exact Or.inl (h.di n t c)
      · exact Or.inr c
    · intro n hn
      rw [p2, hr.inflight]
      rcases (hstat n).1 hn with c | ⟨t, c⟩
      · obtain ⟨t, ht⟩ := h.ri n c
        exact ⟨t, List.mem_append.2 (Or.inl ht)⟩
      · exact ⟨t, List.mem_append.2 (Or.inr c)⟩
    · intro n
      by_cases hn : n ∈ js
      · exact ((p3 n).2.2.1 hn).2
      · rw [(p3 n).2.2.2 hn]
        rw [List.eq_nil_iff_forall_not_mem]
        intro t ht
        rw [hr.do_] at ht
        rcases ht with c | c
        · rw [h.de n] at c; simp at c
        · exact hn ((hjobs n).2 ⟨t, c⟩)
    · intro n hn
      rw [(p3 n).2.1] at hn
      obtain ⟨t, ht⟩ := List.exists_mem_of_ne_nil _ hn
      rw [hr.doing] at ht
      apply (hstat n).2
      rcases ht with c | c
      · exact Or.inl (h.dr n (List.ne_nil_of_mem c))
      · exact Or.inr ⟨t, c⟩


/-! ### replies -/

/-- `Inv` without the "queue holds only live nodes" part, which `_prune` re-establishes -/
structure PreInv (s : St) : Prop where
  lq : ∀ n, (s.node n).live = true → n ∈ s.que
  di : ∀ n t, t ∈ (s.node n).doing → (n, t) ∈ s.inflight
  ri : ∀ n, (s.node n).running = true → ∃ t, (n, t) ∈ s.inflight
  de : ∀ n, (s.node n).do_ = []
  dr : ∀ n, (s.node n).doing ≠ [] → (s.node n).running = true

theorem Inv.pre {s : St} (h : Inv s) : PreInv s := ⟨h.lq, h.di, h.ri, h.de, h.dr⟩

theorem prune_inv {s : St} (h : PreInv s) : Inv (prune s) :=
  ⟨prune_lq h.lq, prune_queLive s, h.di, h.ri, h.de, h.dr⟩

theorem mem_erase_pair {l : List (Name × Target)} {n x : Name} {u t : Target}
    (h : (n, u) ∈ l) (hne : n ≠ x ∨ u ≠ t) : (n, u) ∈ l.erase (x, t) := by
  apply (List.mem_erase_of_ne ?_).2 h
  intro c
  simp only [Prod.mk.injEq] at c
  rcases hne with c' | c'
  · exact c' c.1
  · exact c' c.2

theorem complete_pre (s : St) (x : Name) (t : Target) (o : Outcome) (rid : Nat) (h : Inv s) :
    Inv (complete { s with inflight := s.inflight.erase (x, t) } x t o rid) := by
  unfold complete
  apply prune_inv
  constructor
  · intro n hn
    dsimp only at hn ⊢
    apply h.lq
    by_cases hx : n = x
    · subst hx
      simp only [setNode_same] at hn
      rw [live_iff] at hn ⊢
      rcases hn with c | c | c
      · exact Or.inl c
      · obtain ⟨u, hu⟩ := List.exists_mem_of_ne_nil _ c
        exact Or.inr (Or.inl (List.ne_nil_of_mem (mem_completeNode_doing hu).1))
      · exact Or.inr (Or.inr (completeNode_running c).1)
    · rw [setNode_other _ _ _ _ hx] at hn; exact hn
  · intro n u hu
    dsimp only at hu ⊢
    by_cases hx : n = x
    · subst hx
      simp only [setNode_same] at hu
      obtain ⟨h1, h2⟩ := mem_completeNode_doing hu
      exact mem_erase_pair (h.di n u h1) (Or.inr h2)
    · rw [setNode_other _ _ _ _ hx] at hu
      exact mem_erase_pair (h.di n u hu) (Or.inl hx)
  · intro n hn
    dsimp only at hn ⊢
    by_cases hx : n = x
    · subst hx
      simp only [setNode_same] at hn
      obtain ⟨u, hu⟩ := List.exists_mem_of_ne_nil _ (completeNode_running hn).2
      obtain ⟨h1, h2⟩ := mem_completeNode_doing hu
      exact ⟨u, mem_erase_pair (h.di n u h1) (Or.inr h2)⟩
    · rw [setNode_other _ _ _ _ hx] at hn
      obtain ⟨u, hu⟩ := h.ri n hn
      exact ⟨u, mem_erase_pair hu (Or.inl hx)⟩
  · intro n
    dsimp only
    by_cases hx : n = x
    · subst hx; simp only [setNode_same, completeNode_do]; exact h.de n
    · rw [setNode_other _ _ _ _ hx]; exact h.de n
  · intro n hn
    dsimp only at hn ⊢
    by_cases hx : n = x
    · subst hx
      simp only [setNode_same] at hn ⊢
      obtain ⟨u, hu⟩ := List.exists_mem_of_ne_nil _ hn
      have := h.dr n (List.ne_nil_of_mem (mem_completeNode_doing hu).1)
      simp only [Node.running, completeNode_status_of_doing hn] at this ⊢
      exact this
    · rw [setNode_other _ _ _ _ hx] at hn ⊢; exact h.dr n hn

theorem purgeNode_doing (t : Target) (nd : Node) (h : nd.doing ≠ [] → nd.running = true) :
    (purgeNode t nd).doing = nd.doing := by
  unfold purgeNode
  simp only
  split
  · rfl
  · rename_i hr
    have : nd.doing = [] := by
      by_cases c : nd.doing = []
      · exact c
      · exact absurd (h c) hr
    simp [this]

theorem purge_inv (g : Graph) (s : St) (x : Name) (t : Target) (h : Inv s) :
    Inv (purge g s x t) := by
  unfold purge
  apply prune_inv
  have hnode : ∀ n, ((if n ∈ g.desc x then purgeNode t (s.node n) else s.node n).doing = (s.node n).doing) ∧
      ((if n ∈ g.desc x then purgeNode t (s.node n) else s.node n).status = (s.node n).status) ∧
      ((if n ∈ g.desc x then purgeNode t (s.node n) else s.node n).do_ = []) ∧
      (∀ u, u ∈ (if n ∈ g.desc x then purgeNode t (s.node n) else s.node n).todo → u ∈ (s.node n).todo) := by
    intro n
    split
    · refine ⟨purgeNode_doing t _ (h.dr n), rfl, ?_, ?_⟩
      · simp [purgeNode, h.de n]
      · intro u hu; simp [purgeNode] at hu; exact hu.1
    · exact ⟨rfl, rfl, h.de n, fun u hu => hu⟩
  constructor
  · intro n hn
    simp only at hn ⊢
    apply h.lq
    rw [live_iff] at hn ⊢
    obtain ⟨a, b, _, d⟩ := hnode n
    rcases hn with c | c | c
    · obtain ⟨u, hu⟩ := List.exists_mem_of_ne_nil _ c
      exact Or.inl (List.ne_nil_of_mem (d u hu))
    · rw [a] at c; exact Or.inr (Or.inl c)
    · simp only [Node.running, b] at c; exact Or.inr (Or.inr c)
  · intro n u hu
    simp only at hu ⊢
    rw [(hnode n).1] at hu; exact h.di n u hu
  · intro n hn
    simp only at hn ⊢
    simp only [Node.running, (hnode n).2.1] at hn
    exact h.ri n hn
  · intro n; exact (hnode n).2.2.1
  · intro n hn
    simp only at hn ⊢
    rw [(hnode n).1] at hn
    simp only [Node.running, (hnode n).2.1]
    exact h.dr n hn

theorem update_inv (g : Graph) (s : St) (x : Name) (t : Target) (rid : Nat)
    (news : List Val) (ne : Bool) (h : Inv s) : Inv (update g s x t rid news ne) := by
  unfold update
  split
  · exact h
  · split <;> exact organize_inv g s _ _ _ h

theorem reply_inv (g : Graph) (s : St) (x : Name) (t : Target) (o : Outcome) (rid : Nat)
    (news : List Val) (ne : Bool) (h : Inv s) : Inv (reply g s x t o rid news ne).1 := by
  unfold reply
  simp only
  split
  · have hc := complete_pre s x t o rid h
    cases o
    · exact update_inv g _ x t rid news ne hc
    · exact purge_inv g _ x t hc
    · exact purge_inv g _ x t hc
  · rename_i hx
    have hnl : (s.node x).live = false := by
      cases hl : (s.node x).live
      · rfl
      · exact absurd (h.lq x hl) hx
    rw [Bool.eq_false_iff, ne_eq, live_iff] at hnl
    constructor
    · exact h.lq
    · exact h.ql
    · intro n u hu
      dsimp only
      apply mem_erase_pair (h.di n u hu)
      left
      intro c1
      subst c1
      exact hnl (Or.inr (Or.inl (List.ne_nil_of_mem hu)))
    · intro n hn
      dsimp only at hn ⊢
      obtain ⟨u, hu⟩ := h.ri n hn
      refine ⟨u, mem_erase_pair hu (Or.inl ?_)⟩
      intro c1
      subst c1
      exact hnl (Or.inr (Or.inr hn))
    · exact h.de
    · exact h.dr


/-! ### defer -/

theorem deferNode_pre (g : Graph) (s : St) (n : Name) (due : Nat) (h : PreInv s) :
    PreInv (deferNode g s n due) := by
  unfold deferNode
  by_cases h1 : (s.node n).status = .running ∨ (s.node n).status = .waiting
  · simp only [h1, if_true]; exact h
  · simp only [h1, if_false]
    have hnr : (s.node n).running = false := by
      unfold Node.running
      cases hs : (s.node n).status <;> simp_all
    have hnd : (s.node n).doing = [] := by
      by_cases c : (s.node n).doing = []
      · exact c
      · have := h.dr n c; rw [hnr] at this; simp at this
    by_cases h2 : due = 0
    · simp only [h2, if_true]
      constructor
      · intro m hm
        dsimp only at hm ⊢
        apply h.lq
        by_cases hx : m = n
        · subst hx
          simp only [setNode_same] at hm
          rw [live_iff] at hm ⊢
          rcases hm with c | c | c
          · exact Or.inl c
          · exact Or.inr (Or.inl c)
          · simp [Node.running] at c
        · rw [setNode_other _ _ _ _ hx] at hm; exact hm
      · intro m u hu
        dsimp only at hu ⊢
        by_cases hx : m = n
        · subst hx; simp only [setNode_same] at hu; exact h.di m u hu
        · rw [setNode_other _ _ _ _ hx] at hu; exact h.di m u hu
      · intro m hm
        dsimp only at hm ⊢
        by_cases hx : m = n
        · subst hx; simp [Node.running] at hm
        · rw [setNode_other _ _ _ _ hx] at hm; exact h.ri m hm
      · intro m
        dsimp only
        by_cases hx : m = n
        · subst hx; simp only [setNode_same]; exact h.de m
        · rw [setNode_other _ _ _ _ hx]; exact h.de m
      · intro m hm
        dsimp only at hm ⊢
        by_cases hx : m = n
        · subst hx; simp only [setNode_same] at hm; exact absurd hnd hm
        · rw [setNode_other _ _ _ _ hx] at hm ⊢; exact h.dr m hm
    · simp only [h2, if_false]
      constructor
      · intro m hm
        dsimp only at hm ⊢
        rw [mem_byLevel, List.mem_append]
        by_cases hx : m = n
        · subst hx; right; simp [List.mem_replicate, h2]
        · rw [setNode_other _ _ _ _ hx] at hm; exact Or.inl (h.lq m hm)
      · intro m u hu
        dsimp only at hu ⊢
        by_cases hx : m = n
        · subst hx; simp only [setNode_same] at hu; exact h.di m u hu
        · rw [setNode_other _ _ _ _ hx] at hu; exact h.di m u hu
      · intro m hm
        dsimp only at hm ⊢
        by_cases hx : m = n
        · subst hx; simp [Node.running] at hm
        · rw [setNode_other _ _ _ _ hx] at hm; exact h.ri m hm
      · intro m
        dsimp only
        by_cases hx : m = n
        · subst hx; simp only [setNode_same]; exact h.de m
        · rw [setNode_other _ _ _ _ hx]; exact h.de m
      · intro m hm
        dsimp only at hm ⊢
        by_cases hx : m = n
        · subst hx; simp only [setNode_same] at hm; exact absurd hnd hm
        · rw [setNode_other _ _ _ _ hx] at hm ⊢; exact h.dr m hm

theorem defer_inv (g : Graph) (s : St) (per : List (Name × Nat)) (h : Inv s) :
    Inv (defer g s per) := by
  unfold defer
  split
  · exact h
  · apply prune_inv
    have : ∀ (s : St), PreInv s → PreInv (per.foldl (fun s p => deferNode g s p.1 p.2) s) := by
      induction per with
      | nil => intro s hs; exact hs
      | cons p ps ih => intro s hs; simp only [List.foldl_cons]; exact ih _ (deferNode_pre g s p.1 p.2 hs)
    exact this s h.pre

theorem step_inv (g : Graph) (s : St) (op : Op) (h : Inv s) : Inv (step g s op) := by
  cases op with
  | organize names rid targets => exact organize_inv g s names rid targets h
  | dispatch => exact dispatch_inv g s h
  | reply x t o rid news ne => exact reply_inv g s x t o rid news ne h
  | defer per => exact defer_inv g s per h
  | pause b => exact ⟨h.lq, h.ql, h.di, h.ri, h.de, h.dr⟩
  | addTarget t => exact ⟨h.lq, h.ql, h.di, h.ri, h.de, h.dr⟩

theorem run_inv (g : Graph) (s : St) (ops : List Op) (h : Inv s) : Inv (run g s ops) := by
  unfold run
  induction ops generalizing s with
  | nil => exact h
  | cons op ops ih => simp only [List.foldl_cons]; exact ih _ (step_inv g s op h)


/-! ### liveness of the release rule -/

theorem releaseJob_other (g : Graph) (s : St) (y x : Name) (h : x ≠ y) :
    (releaseJob g s y).1.node x = s.node x := by
  simp [releaseJob, setNode_other _ _ _ _ h]

/-- what it means for the unit `(x, t)` to be runnable in `s`: pending, not itself executing,
    and every ancestor idle for it -/
structure Runnable (g : Graph) (s : St) (x : Name) (t : Target) : Prop where
  pending : t ∈ (s.node x).todo
  notExecuting : t ∉ (s.node x).doing
  noMarker : t ≠ ALL → ALL ∉ (s.node x).todo
  upstream : ∀ a ∈ g.ancestry x, ¬ busy s a t ∧ ¬ busy s a ALL ∧ (t = ALL → a ∉ s.que)

theorem runnable_available (g : Graph) (s s' : St) (hs : Same s s') (x : Name) (t : Target)
    (hx : s'.node x = s.node x) (h : Runnable g s x t) : t ∈ available g s' x := by
  rw [mem_available]
  refine ⟨?_, by rw [hx]; exact h.pending, by rw [hx]; exact h.notExecuting, ?_⟩
  · cases hb : blockedAll g s' x
    · rfl
    · exfalso
      rw [blockedAll_iff] at hb
      obtain ⟨a, ha, haq, hc⟩ := hb
      obtain ⟨_, u2, u3⟩ := h.upstream a ha
      rw [hs.1] at haq
      rcases hc with hc | hc
      · rw [hx] at hc
        by_cases ht : t = ALL
        · exact u3 ht haq
        · exact h.noMarker ht hc
      · exact u2 ((hs.2 a ALL).1 hc)
  · cases hb : heldBy g s' x t
    · rfl
    · exfalso
      rw [heldBy_iff] at hb
      obtain ⟨a, ha, _, hc⟩ := hb
      exact (h.upstream a ha).1 ((hs.2 a t).1 hc)

theorem runnable_released_aux (g : Graph) (s : St) (x : Name) (t : Target) (h : Runnable g s x t)
    (q : List Name) (hq : x ∈ q) (s' : St) (hs : Same s s') (hx : s'.node x = s.node x) :
    (x, t) ∈ (releaseAll g s' q).2 := by
  induction q generalizing s' with
  | nil => simp at hq
  | cons y ys ih =>
    simp only [releaseAll, List.mem_append]
    by_cases hy : x = y
    · subst hy
      left
      rw [releaseJob_released]
      exact ⟨rfl, runnable_available g s s' hs x t hx h⟩
    · right
      have hq' : x ∈ ys := by
        rcases List.mem_cons.1 hq with c | c
        · exact absurd c hy
        · exact c
      exact ih hq' _ (hs.trans (releaseJob_same g s' y)) (by rw [releaseJob_other g s' y x hy, hx])


/-! ### where pending work can come from -/

theorem releaseAll_released_rel (g : Graph) (s : St) (q : List Name) (y : Name) (t : Target)
    (h : (y, t) ∈ (releaseAll g s q).2) :
    ∃ s' r, Rel s s' r ∧ t ∈ available g s' y := by
  induction q generalizing s with
  | nil => simp [releaseAll] at h
  | cons x xs ih =>
    simp only [releaseAll, List.mem_append] at h
    rcases h with h | h
    · rw [releaseJob_released] at h
      obtain ⟨h1, h2⟩ := h
      simp only at h1 h2
      subst h1
      exact ⟨s, [], Rel.refl s, h2⟩
    · obtain ⟨s', r, hs, ht⟩ := ih _ h
      exact ⟨s', _, (releaseJob_rel g s x).trans hs, ht⟩

theorem complete_todo (s : St) (x : Name) (t : Target) (o : Outcome) (rid : Nat) (n : Name) :
    ((complete s x t o rid).node n).todo = (s.node n).todo := by
  unfold complete
  by_cases hn : n = x
  · subst hn; simp
  · simp [setNode_other _ _ _ _ hn]

theorem purge_todo_sub (g : Graph) (s : St) (x : Name) (t : Target) (n : Name) (u : Target)
    (h : u ∈ ((purge g s x t).node n).todo) : u ∈ (s.node n).todo := by
  unfold purge at h
  simp only [prune_node] at h
  split at h
  · simp [purgeNode] at h; exact h.1
  · exact h

theorem deferNode_growth (g : Graph) (s : St) (m : Name) (due : Nat) (n : Name) (u : Target)
    (hnew : u ∈ ((deferNode g s m due).node n).todo) (hold : u ∉ (s.node n).todo) : n = m := by
  unfold deferNode at hnew
  by_cases h1 : (s.node m).status = .running ∨ (s.node m).status = .waiting
  · simp only [h1, if_true] at hnew; exact absurd hnew hold
  · simp only [h1, if_false] at hnew
    by_cases hn : n = m
    · exact hn
    · exfalso
      split at hnew <;> (dsimp only at hnew; rw [setNode_other _ _ _ _ hn] at hnew; exact hold hnew)

theorem defer_growth (g : Graph) (s : St) (per : List (Name × Nat)) (n : Name) (u : Target)
    (hnew : u ∈ ((defer g s per).node n).todo) (hold : u ∉ (s.node n).todo) :
    ∃ k, (n, k) ∈ per := by
  unfold defer at hnew
  split at hnew
  · exact absurd hnew hold
  · simp only [prune_node] at hnew
    induction per generalizing s with
    | nil => exact absurd hnew hold
    | cons p ps ih =>
      simp only [List.foldl_cons] at hnew
      by_cases hmid : u ∈ ((deferNode g s p.1 p.2).node n).todo
      · have := deferNode_growth g s p.1 p.2 n u hmid hold
        exact ⟨p.2, by rw [this]; simp⟩
      · have hp : (deferNode g s p.1 p.2).paused = s.paused := by
          unfold deferNode
          by_cases c1 : (s.node p.1).status = .running ∨ (s.node p.1).status = .waiting
          · simp only [c1, if_true]
          · by_cases c2 : p.2 = 0 <;> simp only [c1, c2, if_false, if_true]
        obtain ⟨k, hk⟩ := ih (deferNode g s p.1 p.2) hmid (by rw [hp]; assumption) hnew
        exact ⟨k, by simp [hk]⟩

end DawgieVerif.Sched
