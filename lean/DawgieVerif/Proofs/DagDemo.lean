/-
A concrete engine on which the hypotheses of the C09 theorems are shown to be satisfiable
(the non-vacuity `example`s of `Props/C09.lean`).
-/
import DawgieVerif.Proofs.Dag

namespace DawgieVerif.C09
open DawgieVerif.Dag Relation

/-! a concrete engine used to show that the hypotheses of every theorem are satisfiable:
    package 0 with algorithms 0 (two values, feeds back algorithm 2's value) and 1 (reads
    state vector 0 of algorithm 0), package 1 with an analyzer 2 reading algorithm 1 (whole)
    and one value of algorithm 0 — a diamond at value level with a feedback loop -/
def A0 : Alg Nat := ⟨0, 0, .task, [⟨0, [0, 1]⟩], [], [.val 1 2 0 0]⟩
def A1 : Alg Nat := ⟨0, 1, .task, [⟨0, [0]⟩], [.sv 0 0 0], []⟩
def A2 : Alg Nat := ⟨1, 2, .analysis, [⟨0, [0]⟩], [.alg 0 1, .val 0 0 0 1], []⟩
def demo : Engine Nat := ⟨[A0, A1, A2]⟩

theorem demo_wf : WF demo := by decide

theorem demo_acyclic : Acyclic demo :=
  acyclic_of_rank (fun n => n.getD 1 0) (by decide)

/-- an engine outside the hypotheses: algorithm 0 feeds back a value nobody declares -/
def bad : Engine Nat := ⟨[⟨0, 0, .task, [⟨0, [0]⟩], [], [.val 0 1 0 7]⟩, A1]⟩

end DawgieVerif.C09
