/-
Helper lemmas for C17 (search).  Property theorems: `Props/C17.lean`.
-/
import DawgieVerif.Model.SearchSpec

namespace DawgieVerif.Search
open DawgieVerif.Generated.Search

/-! ## strictly ascending, duplicate free lists -/

/-- a Boolean comparison that is a strict total order -/
structure StrictTotal {α : Type} (lt : α → α → Bool) : Prop where
  irrefl : ∀ a, lt a a = false
  trans : ∀ a b c, lt a b = true → lt b c = true → lt a c = true
  tri : ∀ a b, lt a b = false → lt b a = false → a = b

/-- strictly ascending with respect to `lt` -/
def Asc {α : Type} (lt : α → α → Bool) (l : List α) : Prop := l.Pairwise (fun a b => lt a b = true)

section sort
variable {α : Type} {lt : α → α → Bool}

theorem insertBy_lt (x y : α) (ys : List α) (h1 : lt x y = true) :
    insertBy lt x (y :: ys) = x :: y :: ys := by simp [insertBy, h1]

theorem insertBy_gt (x y : α) (ys : List α) (h1 : lt x y = false) (h2 : lt y x = true) :
    insertBy lt x (y :: ys) = y :: insertBy lt x ys := by simp [insertBy, h1, h2]

theorem insertBy_eq (x y : α) (ys : List α) (h1 : lt x y = false) (h2 : lt y x = false) :
    insertBy lt x (y :: ys) = y :: ys := by simp [insertBy, h1, h2]

theorem mem_insertBy (h : StrictTotal lt) (x z : α) (l : List α) :
    z ∈ insertBy lt x l ↔ z = x ∨ z ∈ l := by
  induction l with
  | nil => simp [insertBy]
  | cons y ys ih =>
    cases h1 : lt x y
    · cases h2 : lt y x
      · have hxy : x = y := h.tri x y h1 h2
        subst hxy
        rw [insertBy_eq _ _ _ h1 h2]; simp
      · rw [insertBy_gt _ _ _ h1 h2, List.mem_cons, ih, List.mem_cons]
        constructor
        · rintro (h | h | h) <;> simp [h]
        · rintro (h | h | h) <;> simp [h]
    · rw [insertBy_lt _ _ _ h1]; simp

theorem asc_insertBy (h : StrictTotal lt) (x : α) (l : List α) (hl : Asc lt l) :
    Asc lt (insertBy lt x l) := by
  induction l with
  | nil => simp [insertBy, Asc]
  | cons y ys ih =>
    unfold Asc at hl ih ⊢
    rw [List.pairwise_cons] at hl
    cases h1 : lt x y
    · cases h2 : lt y x
      · rw [insertBy_eq _ _ _ h1 h2, List.pairwise_cons]; exact hl
      · rw [insertBy_gt _ _ _ h1 h2, List.pairwise_cons]
        refine ⟨?_, ih hl.2⟩
        intro a ha
        rcases (mem_insertBy h x a ys).1 ha with rfl | ha
        · exact h2
        · exact hl.1 a ha
    · rw [insertBy_lt _ _ _ h1, List.pairwise_cons, List.pairwise_cons]
      refine ⟨?_, hl⟩
      intro a ha
      rcases List.mem_cons.1 ha with rfl | ha
      · exact h1
      · exact h.trans _ _ _ h1 (hl.1 a ha)

theorem mem_sortDedup (h : StrictTotal lt) (z : α) (l : List α) :
    z ∈ sortDedup lt l ↔ z ∈ l := by
  induction l with
  | nil => simp [sortDedup]
  | cons y ys ih =>
    have : sortDedup lt (y :: ys) = insertBy lt y (sortDedup lt ys) := rfl
    rw [this, mem_insertBy h, ih]; simp

theorem asc_sortDedup (h : StrictTotal lt) (l : List α) : Asc lt (sortDedup lt l) := by
  induction l with
  | nil => simp [sortDedup, Asc]
  | cons y ys ih =>
    have : sortDedup lt (y :: ys) = insertBy lt y (sortDedup lt ys) := rfl
    rw [this]; exact asc_insertBy h y _ ih

/-- a strictly ascending list is determined by its members -/
theorem asc_ext (h : StrictTotal lt) : ∀ (l₁ l₂ : List α), Asc lt l₁ → Asc lt l₂ →
    (∀ z, z ∈ l₁ ↔ z ∈ l₂) → l₁ = l₂
  | [], [], _, _, _ => rfl
  | [], b :: l₂, _, _, hm => by have := (hm b).2 (by simp); simp at this
  | a :: l₁, [], _, _, hm => by have := (hm a).1 (by simp); simp at this
  | a :: l₁, b :: l₂, h₁, h₂, hm => by
    unfold Asc at h₁ h₂
    rw [List.pairwise_cons] at h₁ h₂
    have hab : a = b := by
      have ha := (hm a).1 (by simp)
      have hb := (hm b).2 (by simp)
      rcases List.mem_cons.1 ha with rfl | ha
      · rfl
      rcases List.mem_cons.1 hb with rfl | hb
      · rfl
      have h1 := h₂.1 a ha
      have h2 := h₁.1 b hb
      have := h.trans _ _ _ h1 h2
      rw [h.irrefl] at this; cases this
    subst hab
    have : l₁ = l₂ := by
      apply asc_ext h l₁ l₂ h₁.2 h₂.2
      intro z
      constructor
      · intro hz
        have := (hm z).1 (List.mem_cons_of_mem _ hz)
        rcases List.mem_cons.1 this with rfl | hz'
        · have := h₁.1 _ hz; rw [h.irrefl] at this; cases this
        · exact hz'
      · intro hz
        have := (hm z).2 (List.mem_cons_of_mem _ hz)
        rcases List.mem_cons.1 this with rfl | hz'
        · have := h₂.1 _ hz; rw [h.irrefl] at this; cases this
        · exact hz'
    rw [this]

end sort

theorem intLt_strict : StrictTotal intLt where
  irrefl a := by simp [intLt]
  trans a b c := by simp only [intLt, decide_eq_true_eq]; omega
  tri a b := by simp only [intLt, decide_eq_false_iff_not]; omega

theorem strLt_strict : StrictTotal strLt where
  irrefl a := by simp [strLt]
  trans a b c := by
    simp only [strLt, decide_eq_true_eq]; exact String.lt_trans
  tri a b := by
    simp only [strLt, decide_eq_false_iff_not]
    intro h1 h2
    exact String.le_antisymm h2 h1

theorem key5_lt_iff (a b : Key5) : Key5.lt a b = true ↔
    a.run < b.run ∨ (a.run = b.run ∧ (a.tgt < b.tgt ∨ (a.tgt = b.tgt ∧
    (a.task < b.task ∨ (a.task = b.task ∧ (a.alg < b.alg ∨ (a.alg = b.alg ∧ a.sv < b.sv))))))) := by
  simp [Key5.lt]

theorem key5_strict : StrictTotal Key5.lt where
  irrefl a := by
    cases h : Key5.lt a a
    · rfl
    · rw [key5_lt_iff] at h; omega
  trans a b c := by
    simp only [key5_lt_iff]; omega
  tri a b := by
    intro h1 h2
    have h1' : ¬ (Key5.lt a b = true) := by simp [h1]
    have h2' : ¬ (Key5.lt b a = true) := by simp [h2]
    rw [key5_lt_iff] at h1' h2'
    cases a; cases b
    simp only [Key5.mk.injEq] at *
    omega

end DawgieVerif.Search
