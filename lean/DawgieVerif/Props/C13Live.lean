/-
C13, liveness over infinite schedules: no waiter starves once owners release or die.
-/
import DawgieVerif.Proofs.LockLive

namespace DawgieVerif.C13
open DawgieVerif.Lock
open DawgieVerif.Generated.Lock

/-- **Eventually granted.**  Start in any reachable state in which `c` is a live waiter and
    continue with any infinite schedule `σ` of events such that
    * no new lock request arrives (`hna`; with an unbounded supply of new requesters an
      adversarial schedule can let somebody else win every race, so this is needed),
    * `c` keeps polling (`hfair`) and its connection stays up (`halive`),
    * every other connection that owns the lock eventually stops owning it — releases or dies
      (`hrel`).
    Then at some moment `c` polls, is sent "yours" and owns the lock. -/
theorem eventually_granted (pre : List Op) (σ : Nat → Op) (c : Nat)
    (hw : waiting (run init pre) c)
    (hna : ∀ k d w, σ k ≠ .acquire d w)
    (hfair : ∀ k, ∃ k', k ≤ k' ∧ σ k' = .tick c)
    (halive : ∀ k, σ k ≠ .disconnect c)
    (hrel : ∀ k d, d ≠ c → holds (runN (run init pre) σ k) d →
      ∃ k', k ≤ k' ∧ ¬ holds (runN (run init pre) σ k') d) :
    ∃ j, σ j = .tick c ∧ holds (runN (run init pre) σ (j + 1)) c ∧
      (step (runN (run init pre) σ j) (σ j)).2.msgs = [yours] := by
  have hi := inv_run inv_init pre
  obtain ⟨j, _, htick, hf, hwj⟩ :=
    grant_exists hi (ws := pre.map Op.client) (waiters_finite pre) hna hfair halive hrel
      _ 0 (Nat.le_refl _) hw
  refine ⟨j, htick, ?_, ?_⟩
  · show holds (step (runN (run init pre) σ j) (σ j)).1 c
    rw [htick, tick_grants hf hwj]
    simp [holds]
  · rw [htick, tick_grants hf hwj]

/-- non-vacuity: connection 0 owns the lock, 1 waits; 0 releases, then 1 keeps polling -/
example :
    let pre := [Op.acquire 0 true, .acquire 1 true]
    let σ : Nat → Op := fun k => if k = 0 then .release 0 true else .tick 1
    waiting (run init pre) 1 ∧ (∀ k d w, σ k ≠ .acquire d w) ∧
    (∀ k, ∃ k', k ≤ k' ∧ σ k' = .tick 1) ∧ (∀ k, σ k ≠ .disconnect 1) ∧
    (∀ k d, d ≠ 1 → holds (runN (run init pre) σ k) d →
      ∃ k', k ≤ k' ∧ ¬ holds (runN (run init pre) σ k') d) := by
  intro pre σ
  have hσ : ∀ k, σ k = .release 0 true ∨ σ k = .tick 1 := by
    intro k; by_cases hk : k = 0 <;> simp [σ, hk]
  refine ⟨by decide, ?_, ?_, ?_, ?_⟩
  · intro k d w h; rcases hσ k with h' | h' <;> rw [h'] at h <;> cases h
  · intro k; exact ⟨k + 1, by omega, by simp [σ]⟩
  · intro k h; rcases hσ k with h' | h' <;> rw [h'] at h <;> cases h
  · -- the only owner other than 1 is 0, at moment 0; it has released at moment 1
    intro k d hd hh
    cases k with
    | zero =>
      refine ⟨1, by omega, ?_⟩
      have h0 : holds (runN (run init pre) σ 0) 0 := by decide
      have := (inv_runN (inv_run inv_init pre) σ 0).uniq d 0 hh h0
      subst this
      decide
    | succ k =>
      -- from moment 1 on the lock is free or owned by 1
      exfalso
      -- an owner d ≠ 1 at a later moment: became owner through an event of its own, but every
      -- event from moment 1 on is `tick 1`
      have key2 : ∀ k, ∀ d, d ≠ 1 → ¬ holds (runN (run init pre) σ (k + 1)) d := by
        intro k
        induction k with
        | zero =>
          intro d hd h
          have h1 : (runN (run init pre) σ 1).lock = false := by decide
          have := (inv_runN (inv_run inv_init pre) σ 1).holderLock d h
          rw [h1] at this; cases this
        | succ k ih =>
          intro d hd h
          have h0 : ((runN (run init pre) σ (k + 1)).conn d).hasLock = false := by
            cases hx : ((runN (run init pre) σ (k + 1)).conn d).hasLock with
            | false => rfl
            | true => exact absurd hx (ih d hd)
          have := step_new_owner (op := σ (k + 1)) h0 h
          have hs : σ (k + 1) = .tick 1 := by simp [σ]
          rw [hs] at this
          exact hd this.1.symm
      exact key2 k d hd hh

end DawgieVerif.C13
