/-
C05, worker side — "the outcome is recorded": whatever way a run ends, the worker sends an answer the
farm books, and the answer says failure / invalid data exactly as the ending demands.  `handlers` and
`bodyAnswer` are regenerated from the source of `pl.worker.cluster.execute` on every run
(`Generated/WorkerGen.lean`); `answer` is `Model/Worker.lean`.
-/
import DawgieVerif.Generated.WorkerGen

namespace DawgieVerif.C05
open DawgieVerif.Worker DawgieVerif.Generated.WorkerGen

/-- every ending is answered: nothing leaves the worker silently (so every unit handed out gets an
    outcome into the history and its failure reaches `schedule.purge`) -/
theorem worker_always_answers (e : Ending) : (answer bodyAnswer handlers e).isSome = true := by
  cases e <;> decide

/-- the answer is the one the ending demands -/
theorem worker_answer_table :
    answer bodyAnswer handlers .ok = some .success ∧
    answer bodyAnswer handlers .invalidIn = some .invalid ∧
    answer bodyAnswer handlers .invalidOut = some .invalid ∧
    answer bodyAnswer handlers .error = some .failure ∧
    answer bodyAnswer handlers .exit = some .failure ∧
    answer bodyAnswer handlers .interrupt = some .failure := by
  decide

/-- a run that did not return normally is never reported as a success (no dependent is triggered) -/
theorem worker_no_false_success (e : Ending) (h : e ≠ .ok) :
    answer bodyAnswer handlers e ≠ some .success := by
  cases e <;> first | exact absurd rfl h | decide

/-! the model distinguishes the clauses: with `except Exception:` in place of the bare clause the two
    endings that are not `Exception`s would go unanswered -/
example :
    answer .success [(.classes [.invalidIn, .invalidOut], .invalid), (.exceptions, .failure)] .exit = none ∧
    answer .success [(.classes [.invalidIn, .invalidOut], .invalid), (.exceptions, .failure)] .error = some .failure := by
  decide

end DawgieVerif.C05
