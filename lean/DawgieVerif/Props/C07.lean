/-
C07 — content-addressed store: novelty signal, single copy, no dangling reference.

All statements are about `Generated.Blob.program`, the statements of one update as regenerated
from `db/util/__init__.py`, `db/shelve/comms.py` and `db/shelve/model.py` on every run, in BOTH
configurations `cfg.xfs` (staging directory on the store's file system: `shutil.move` is one
atomic rename; on another file system: `shutil.move` creates, partially writes, completes the
destination and then unlinks the source — four separate crash points).  A history is any list of
  `upd key content budget` (one value written through `Interface._update`; the process dies
                            after `budget` micro-steps; `steps …` of them complete the update),
  `del key`                (`dawgie.db.remove`),
  `purge visit`            (`db/tools/purge.py`, interrupted after visiting `visit`),
started on the empty store; keys and contents are arbitrary and may repeat.  Because every
update carries its own crash budget, the set of final states of all histories is exactly the
set of disk states at all micro-step boundaries, with restarts in between.

`cfg.h` is the digest (md5sum, sha1sum of the staged file), `cfg.e` the bytes of an empty file,
`cfg.t body` what a partially written copy of `body` holds (arbitrary).
Collision freedom of `cfg.h` is needed by the `isnew` theorems only and is an explicit hypothesis there.
-/
import DawgieVerif.Proofs.Blob

namespace DawgieVerif.C07
open DawgieVerif.Blob DawgieVerif.Generated.Blob

variable {K N C : Type} [DecidableEq K] [DecidableEq N]

/-- disk state at the end of a history (crash budgets included) started on the empty store -/
abbrev final (cfg : Cfg N C) (ops : List (Op K N C)) : St K N C :=
  (run cfg program init ops).1

/-- the novelty flags reported during the history, one slot per operation -/
abbrev flags (cfg : Cfg N C) (ops : List (Op K N C)) : List (Option Bool) :=
  (run cfg program init ops).2

/-- micro-steps a complete update of `content` takes on the state `s` -/
abbrev needed (cfg : Cfg N C) (s : St K N C) (content : C) : Nat :=
  steps cfg.xfs (decide (cfg.h content ∈ names s))

/-- Every catalogue entry refers to an existing stored file — after every history, hence at
    every micro-step boundary and after a crash anywhere, in both configurations. -/
theorem no_dangling (cfg : Cfg N C) (ops : List (Op K N C)) :
    ∀ p ∈ (final cfg ops).prime, p.2 ∈ names (final cfg ops) :=
  (inv_run cfg ops (inv_init cfg.h)).linked

/-- Every file directly in the store directory is named by the digest of its (complete) content:
    partial content never appears under a digest name. -/
theorem name_is_digest (cfg : Cfg N C) (ops : List (Op K N C)) :
    ∀ b ∈ (final cfg ops).store, b.1 = cfg.h b.2 :=
  (inv_run cfg ops (inv_init cfg.h)).digest

/-- Identical content is kept once: no two stored files share a name, nor a content. -/
theorem single_copy (cfg : Cfg N C) (ops : List (Op K N C)) :
    (names (final cfg ops)).Nodup ∧ (contents (final cfg ops)).Nodup := by
  have hi := inv_run cfg ops (inv_init cfg.h)
  refine ⟨hi.nodup, ?_⟩
  have hmap : names (final cfg ops) = (contents (final cfg ops)).map cfg.h := by
    simp only [names, contents, List.map_map]
    exact List.map_congr_left (fun b hb => hi.digest b hb)
  have hn := hi.nodup
  rw [hmap] at hn
  exact List.Pairwise.of_map cfg.h (fun a b hab heq => hab (congrArg cfg.h heq)) hn

/-- A value is reported new exactly when no identical content was in the store before:
    after any history `pre`, an update of `content` that is given the micro-steps it needs reports
    `isnew = true ↔ no stored file holds content`. -/
theorem isnew_iff (cfg : Cfg N C) (hinj : Function.Injective cfg.h) (pre : List (Op K N C))
    (key : K) (content : C) (budget : Nat) (hb : needed cfg (final cfg pre) content ≤ budget) :
    ∃ isnew, (apply cfg program (final cfg pre) (.upd key content budget)).2 = some isnew ∧
      (isnew = true ↔ ∀ b ∈ (final cfg pre).store, b.2 ≠ content) := by
  have hi := inv_run cfg pre (inv_init cfg.h)
  refine ⟨decide (cfg.h content ∉ names (final cfg pre)), ?_, ?_⟩
  · simp only [apply, runUpd_closed cfg key content _ hi, needed] at hb ⊢
    simp [hb]
  · rw [decide_eq_true_eq, mem_names_iff hinj hi]
    simp only [contents, List.mem_map, not_exists, not_and]

/-- The same, read off the flag list of one history: slot `pre.length` of the flags of
    `pre ++ upd key content budget :: post` (crashed updates report nothing). -/
theorem isnew_in_history [DecidableEq C] (cfg : Cfg N C) (hinj : Function.Injective cfg.h)
    (pre post : List (Op K N C)) (key : K) (content : C) (budget : Nat) :
    (flags cfg (pre ++ .upd key content budget :: post))[pre.length]? =
      some (if needed cfg (final cfg pre) content ≤ budget
            then some (decide (∀ b ∈ (final cfg pre).store, b.2 ≠ content)) else none) := by
  have hi := inv_run cfg pre (inv_init cfg.h)
  have hiff := mem_names_iff hinj hi content
  have hlen := run_flags_length cfg program pre (init : St K N C)
  simp only [flags, run_append]
  rw [List.getElem?_append_right (by rw [hlen]; exact Nat.le_refl _), hlen, Nat.sub_self]
  simp only [run, apply, runUpd_closed cfg key content _ hi, List.getElem?_cons_zero, needed]
  congr 1
  by_cases hb : steps cfg.xfs (decide (cfg.h content ∈ names (run cfg program init pre).1)) ≤ budget
  · simp only [hb, if_true]
    congr 1
    apply decide_eq_decide.mpr
    rw [hiff]
    simp only [contents, List.mem_map, not_exists, not_and]
  · simp only [hb, if_false]

/-- An update cut short by a crash reports nothing (the flag is appended last). -/
theorem crashed_update_silent (cfg : Cfg N C) (pre : List (Op K N C)) (key : K) (content : C)
    (budget : Nat) (hb : budget < needed cfg (final cfg pre) content) :
    (apply cfg program (final cfg pre) (.upd key content budget)).2 = none := by
  have hi := inv_run cfg pre (inv_init cfg.h)
  simp only [apply, runUpd_closed cfg key content _ hi, needed] at hb ⊢
  simp; omega

/-- Where garbage may live and how much: only in the staging directory and in `<store>/incoming`
    (everything directly in the store is complete and named by its digest: `name_is_digest`), at
    most one file in each per update that was cut short, none after a crash-free history. -/
theorem staged_garbage (cfg : Cfg N C) (ops : List (Op K N C)) :
    (final cfg ops).stage.length ≤ silent ops (flags cfg ops) ∧
      (final cfg ops).incoming.length ≤ silent ops (flags cfg ops) := by
  have := garbage_run cfg ops (inv_init (K := K) cfg.h)
  simpa [final, flags, init] using this

/-- What a completed update leaves behind: the key is catalogued under the digest of the content,
    the content is stored, nothing that was stored or catalogued under another key is lost, the
    staging directory and `incoming` are as before. -/
theorem completed_update (cfg : Cfg N C) (pre : List (Op K N C)) (key : K) (content : C)
    (budget : Nat) (hb : needed cfg (final cfg pre) content ≤ budget) :
    let s := final cfg pre
    let s' := (apply cfg program s (.upd key content budget)).1
    (key, cfg.h content) ∈ s'.prime ∧ (∀ p ∈ s'.prime, p.1 = key → p.2 = cfg.h content) ∧
      cfg.h content ∈ names s' ∧
      (Function.Injective cfg.h → (cfg.h content, content) ∈ s'.store) ∧ (∀ b ∈ s.store, b ∈ s'.store) ∧
      (∀ p ∈ s.prime, p.1 ≠ key → p ∈ s'.prime) ∧ s'.stage = s.stage ∧ s'.incoming = s.incoming := by
  have hi := inv_run cfg pre (inv_init cfg.h)
  have hinv := inv_runUpd cfg hi key content budget
  simp only [needed] at hb
  simp only [apply] at hinv ⊢
  rw [runUpd_closed cfg key content _ hi] at hinv ⊢
  simp only [after] at hinv ⊢
  by_cases hm : cfg.h content ∈ names (final cfg pre)
  · simp only [hm, if_true, decide_true, steps] at hb hinv ⊢
    obtain ⟨k, rfl⟩ : ∃ k, budget = k + 8 := ⟨budget - 8, by omega⟩
    simp only [afterEx] at hinv ⊢
    refine ⟨by simp [put], ?_, hm, ?_, fun b hb' => hb', ?_, by first | rfl | trivial, by first | rfl | trivial⟩
    · intro p hp hk
      simp only [put, List.mem_cons] at hp
      rcases hp with rfl | hp
      · rfl
      · exact absurd hk (mem_rm.mp hp).2
    · intro hinj
      obtain ⟨b, hb', hbe⟩ := List.mem_map.mp hm
      have hd := hi.digest b hb'
      have hc : b.2 = content := hinj (by rw [← hd, hbe])
      have : b = (cfg.h content, content) := Prod.ext hbe hc
      rw [← this]; exact hb'
    · intro p hp hk
      simp only [put, List.mem_cons]
      exact Or.inr (mem_rm.mpr ⟨hp, hk⟩)
  · have fresh_side : (key, cfg.h content) ∈ put (final cfg pre).prime key (cfg.h content) ∧
        (∀ p ∈ put (final cfg pre).prime key (cfg.h content), p.1 = key → p.2 = cfg.h content) ∧
        cfg.h content ∈ (put (final cfg pre).store (cfg.h content) content).map Prod.fst ∧
        (Function.Injective cfg.h →
          (cfg.h content, content) ∈ put (final cfg pre).store (cfg.h content) content) ∧
        (∀ b ∈ (final cfg pre).store, b ∈ put (final cfg pre).store (cfg.h content) content) ∧
        (∀ p ∈ (final cfg pre).prime, p.1 ≠ key → p ∈ put (final cfg pre).prime key (cfg.h content)) := by
      refine ⟨by simp [put], ?_, by simp [put], fun _ => by simp [put], ?_, ?_⟩
      · intro p hp hk
        simp only [put, List.mem_cons] at hp
        rcases hp with rfl | hp
        · rfl
        · exact absurd hk (mem_rm.mp hp).2
      · intro b hb'
        simp only [put, List.mem_cons]
        right
        refine mem_rm.mpr ⟨hb', fun hbe => hm ?_⟩
        exact List.mem_map.mpr ⟨b, hb', hbe⟩
      · intro p hp hk
        simp only [put, List.mem_cons]
        exact Or.inr (mem_rm.mpr ⟨hp, hk⟩)
    obtain ⟨f1, f2, f3, f4, f5, f6⟩ := fresh_side
    simp only [hm, if_false, decide_false, steps] at hb ⊢
    cases hx : cfg.xfs
    · simp only [hx, Bool.false_eq_true, if_false] at hb ⊢
      obtain ⟨k, rfl⟩ : ∃ k, budget = k + 10 := ⟨budget - 10, by omega⟩
      simp only [afterSame]
      exact ⟨f1, f2, f3, f4, f5, f6, by first | rfl | trivial, by first | rfl | trivial⟩
    · simp only [hx, if_true, Bool.false_eq_true, if_false] at hb ⊢
      obtain ⟨k, rfl⟩ : ∃ k, budget = k + 13 := ⟨budget - 13, by omega⟩
      simp only [afterXfs]
      exact ⟨f1, f2, f3, f4, f5, f6, by first | rfl | trivial, by first | rfl | trivial⟩


/-! ### non-vacuity: a concrete history with repeats, two crashes, a removal and a purge, in both configurations -/
section examples
/-- digest `c ↦ c + 100`, empty file `0`, a partial copy holds `c / 2` -/
def cfgOf (x : Bool) : Cfg Nat Nat := ⟨(· + 100), 0, (· / 2), x⟩
/-- content 7 under keys 1 and 2; content 9 crashes after 7 micro-steps (same file system: stored, not
    catalogued; other file system: a partial copy in `incoming`, the staged file still there) and again after
    `digest` (staged garbage); key 1 removed; purge; 7 again (not new); 9 again (new). -/
def hist : List (Op Nat Nat Nat) :=
  [.upd 1 7 13, .upd 2 7 8, .upd 3 9 7, .upd 3 9 3, .del 1, .purge [107, 109], .upd 1 7 8, .upd 4 9 13]
example : flags (cfgOf false) hist = [some true, some false, none, none, none, none, some false, some true] := by decide
example : flags (cfgOf true) hist = [some true, some false, none, none, none, none, some false, some true] := by decide
example : (final (cfgOf false) hist).prime = [(4, 109), (1, 107), (2, 107)] ∧
    (final (cfgOf false) hist).store = [(109, 9), (107, 7)] ∧
    (final (cfgOf false) hist).stage = [(3, 9)] ∧ (final (cfgOf false) hist).incoming = [] := by decide
example : (final (cfgOf true) hist).prime = [(4, 109), (1, 107), (2, 107)] ∧
    (final (cfgOf true) hist).store = [(109, 9), (107, 7)] ∧
    (final (cfgOf true) hist).stage = [(3, 9), (2, 9)] ∧ (final (cfgOf true) hist).incoming = [(2, 4)] := by decide
/-- other file system, crash in the middle of the copy: the partial bytes are in `incoming`, nothing under a digest name -/
example : (final (cfgOf true) (hist.take 3)).store = [(107, 7)] ∧
    (final (cfgOf true) (hist.take 3)).incoming = [(2, 4)] ∧
    (final (cfgOf true) (hist.take 3)).stage = [(2, 9)] := by decide
example : silent hist (flags (cfgOf true) hist) = 2 := by decide
/-- the collision-freedom hypothesis of `isnew_iff` is satisfiable, and the theorem then pins the flag -/
example : Function.Injective (cfgOf true).h := fun _ _ hab => Nat.add_right_cancel hab
example : ∃ isnew, (apply (cfgOf true) program (final (cfgOf true) (hist.take 6)) (.upd 4 9 13)).2 = some isnew ∧
    (isnew = true ↔ ∀ b ∈ (final (cfgOf true) (hist.take 6)).store, b.2 ≠ 9) :=
  isnew_iff (cfgOf true) (fun _ _ hab => Nat.add_right_cancel hab) (hist.take 6) 4 9 13 (by decide)
/-- The theorems are not true of every program.  The code before the repair moved the staged file straight
    to its digest name; on another file system a crash in the middle of that copy leaves partial bytes under
    the digest name, and the retried update finds the name, reports "not new" and catalogues it. -/
example :
    let old : List Instr := [.mkstemp, .dump, .digest, .probe, .act (some true) .unlink,
                             .act (some false) (.move .store), .record .moved, .reply false, .flag true]
    (run (cfgOf true) old (init : St Nat Nat Nat) [.upd 1 8 6, .upd 1 8 99]).1.store = [(108, 4)] ∧
    (run (cfgOf true) old (init : St Nat Nat Nat) [.upd 1 8 6, .upd 1 8 99]).1.prime = [(1, 108)] ∧
    (run (cfgOf true) old (init : St Nat Nat Nat) [.upd 1 8 6, .upd 1 8 99]).2 = [none, some false] := by decide
/-- nor of a program that catalogues before the file is in place -/
example :
    let bad : List Instr := [.mkstemp, .dump, .digest, .probe, .record .requested, .act (some true) .unlink,
                             .act (some false) .mkdirs, .act (some false) (.move .incoming),
                             .act (some false) .replace, .reply false, .flag true]
    (run (cfgOf false) bad (init : St Nat Nat Nat) [.upd 1 7 6]).1.prime = [(1, 107)] ∧
    (run (cfgOf false) bad (init : St Nat Nat Nat) [.upd 1 7 6]).1.store = [] := by decide
end examples

end DawgieVerif.C07
