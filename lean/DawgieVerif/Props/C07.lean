/-
C07 — content-addressed store: novelty signal, single copy, no dangling reference.

All statements are about `Generated.Blob.program`, the micro-step program of one update as
regenerated from `db/util/__init__.py`, `db/shelve/comms.py` and `db/shelve/model.py` on
every run.  A history is any list of operations
  `upd key content budget` (one value written through `Interface._update`; the process dies
                            after `budget` micro-steps, `budget ≥ 8` = the update completes),
  `del key`                (`dawgie.db.remove`),
  `purge visit`            (`db/tools/purge.py`, interrupted after visiting `visit`),
started on the empty store; keys and contents are arbitrary and may repeat.  Because every
update carries its own crash budget, the set of final states of all histories is exactly the
set of disk states at all micro-step boundaries, with restarts in between.

`h` is the digest (md5sum, sha1sum of the staged file), `e` the bytes of an empty file.
Collision freedom of `h` is needed by `isnew_iff` only and is an explicit hypothesis there.
-/
import DawgieVerif.Proofs.Blob

namespace DawgieVerif.C07
open DawgieVerif.Blob DawgieVerif.Generated.Blob

variable {K N C : Type} [DecidableEq K] [DecidableEq N]

/-- disk state at the end of a history (crash budgets included) started on the empty store -/
abbrev final (h : C → N) (e : C) (ops : List (Op K N C)) : St K N C :=
  (run h e program init ops).1

/-- the novelty flags reported during the history, one slot per operation -/
abbrev flags (h : C → N) (e : C) (ops : List (Op K N C)) : List (Option Bool) :=
  (run h e program init ops).2

/-- Every catalogue entry refers to an existing stored file — after every history, hence at
    every micro-step boundary and after a crash anywhere. -/
theorem no_dangling (h : C → N) (e : C) (ops : List (Op K N C)) :
    ∀ p ∈ (final h e ops).prime, p.2 ∈ names (final h e ops) :=
  (inv_run e ops (inv_init h)).linked

/-- Every stored file is named by the digest of its content. -/
theorem name_is_digest (h : C → N) (e : C) (ops : List (Op K N C)) :
    ∀ b ∈ (final h e ops).store, b.1 = h b.2 :=
  (inv_run e ops (inv_init h)).digest

/-- Identical content is kept once: no two stored files share a name, nor a content. -/
theorem single_copy (h : C → N) (e : C) (ops : List (Op K N C)) :
    (names (final h e ops)).Nodup ∧ (contents (final h e ops)).Nodup := by
  have hi := inv_run e ops (inv_init h)
  refine ⟨hi.nodup, ?_⟩
  have hmap : names (final h e ops) = (contents (final h e ops)).map h := by
    simp only [names, contents, List.map_map]
    exact List.map_congr_left (fun b hb => hi.digest b hb)
  have hn := hi.nodup
  rw [hmap] at hn
  exact List.Pairwise.of_map h (fun a b hab heq => hab (congrArg h heq)) hn

/-- A value is reported new exactly when no identical content was in the store before:
    after any history `pre`, a completed update of `content` reports
    `isnew = true ↔ no stored file holds content`. -/
theorem isnew_iff (h : C → N) (hinj : Function.Injective h) (e : C) (pre : List (Op K N C))
    (key : K) (content : C) (budget : Nat) (hb : program.length ≤ budget) :
    ∃ isnew, (apply h e program (final h e pre) (.upd key content budget)).2 = some isnew ∧
      (isnew = true ↔ ∀ b ∈ (final h e pre).store, b.2 ≠ content) := by
  have hi := inv_run e pre (inv_init h)
  rw [program_length] at hb
  refine ⟨decide (h content ∉ names (final h e pre)), ?_, ?_⟩
  · simp [apply, runUpd_closed, hb]
  · rw [decide_eq_true_eq, mem_names_iff hinj hi]
    simp only [contents, List.mem_map, not_exists, not_and]

/-- The same, read off the flag list of one history: slot `pre.length` of the flags of
    `pre ++ upd key content budget :: post` (crashed updates report nothing). -/
theorem isnew_in_history [DecidableEq C] (h : C → N) (hinj : Function.Injective h) (e : C)
    (pre post : List (Op K N C)) (key : K) (content : C) (budget : Nat) :
    (flags h e (pre ++ .upd key content budget :: post))[pre.length]? =
      some (if program.length ≤ budget
            then some (decide (∀ b ∈ (final h e pre).store, b.2 ≠ content)) else none) := by
  have hi := inv_run e pre (inv_init h)
  have hiff := mem_names_iff hinj hi content
  have hlen := run_flags_length h e program pre (init : St K N C)
  simp only [flags, run_append]
  rw [List.getElem?_append_right (by rw [hlen]; exact Nat.le_refl _), hlen, Nat.sub_self]
  simp only [run, apply, runUpd_closed, program_length, List.getElem?_cons_zero]
  congr 1
  by_cases hb : 8 ≤ budget
  · simp only [hb, if_true]
    congr 1
    apply decide_eq_decide.mpr
    rw [hiff]
    simp only [contents, List.mem_map, not_exists, not_and]
  · simp only [hb, if_false]

/-- An update cut short by a crash reports nothing (the flag is appended last). -/
theorem crashed_update_silent (h : C → N) (e : C) (s : St K N C) (key : K) (content : C)
    (budget : Nat) (hb : budget < program.length) :
    (apply h e program s (.upd key content budget)).2 = none := by
  rw [program_length] at hb
  simp [apply, runUpd_closed]; omega

/-- Staged leftovers are the only garbage, and only crashes produce them: at most one staged
    file per crashed update, none in a crash-free history. -/
theorem staged_garbage (h : C → N) (e : C) (ops : List (Op K N C)) :
    (final h e ops).stage.length ≤ (ops.filter (Op.crashed program)).length := by
  have := stage_run_le (h := h) e ops (inv_init h)
  simpa [final, init] using this

/-- What a completed update leaves behind: the key is catalogued under the digest of the content,
    the content is stored, nothing that was stored or catalogued under another key is lost. -/
theorem completed_update (h : C → N) (e : C) (pre : List (Op K N C)) (key : K) (content : C)
    (budget : Nat) (hb : program.length ≤ budget) :
    let s := final h e pre
    let s' := (apply h e program s (.upd key content budget)).1
    (key, h content) ∈ s'.prime ∧ (∀ p ∈ s'.prime, p.1 = key → p.2 = h content) ∧
      (Function.Injective h → (h content, content) ∈ s'.store) ∧ (∀ b ∈ s.store, b ∈ s'.store) ∧
      (∀ p ∈ s.prime, p.1 ≠ key → p ∈ s'.prime) ∧ s'.stage = s.stage := by
  have hi := inv_run e pre (inv_init h)
  rw [program_length] at hb
  obtain ⟨k, rfl⟩ : ∃ k, budget = k + 8 := ⟨budget - 8, by omega⟩
  simp only [apply, runUpd_closed, after, stage_rm_put hi]
  refine ⟨by simp [put], ?_, ?_, ?_, ?_, trivial⟩
  · intro p hp hk
    simp only [put, List.mem_cons] at hp
    rcases hp with rfl | hp
    · rfl
    · exact absurd hk (mem_rm.mp hp).2
  · by_cases hm : h content ∈ names (final h e pre)
    · simp only [hm, if_true]
      intro hinj
      obtain ⟨b, hb', hbe⟩ := List.mem_map.mp hm
      have hd := hi.digest b hb'
      have hc : b.2 = content := hinj (by rw [← hd, hbe])
      have : b = (h content, content) := Prod.ext hbe hc
      rw [← this]; exact hb'
    · simp [hm, put]
  · intro b hb'
    by_cases hm : h content ∈ names (final h e pre)
    · simpa [hm] using hb'
    · simp only [hm, if_false, put, List.mem_cons]
      right
      refine mem_rm.mpr ⟨hb', fun hbe => hm ?_⟩
      exact List.mem_map.mpr ⟨b, hb', hbe⟩
  · intro p hp hk
    simp only [put, List.mem_cons]
    exact Or.inr (mem_rm.mpr ⟨hp, hk⟩)


/-! ### non-vacuity: a concrete history with repeats, two crashes, a removal and a purge -/
section examples
def hx : Nat → Nat := (· + 100)
/-- content 7 under keys 1 and 2; content 9 crashes after `place` (stored, not catalogued) and
    again after `digest` (staged garbage); key 1 removed; purge deletes the orphan 109; 7 again
    (not new), 9 again (new again: the purge removed it). -/
def hist : List (Op Nat Nat Nat) :=
  [.upd 1 7 8, .upd 2 7 8, .upd 3 9 5, .upd 3 9 3, .del 1, .purge [107, 109], .upd 1 7 8, .upd 4 9 8]
example : flags hx 0 hist = [some true, some false, none, none, none, none, some false, some true] := by decide
example : (final hx 0 hist).prime = [(4, 109), (1, 107), (2, 107)] := by decide
example : (final hx 0 hist).store = [(109, 9), (107, 7)] := by decide
example : (final hx 0 hist).stage = [(3, 9)] := by decide
example : (final hx 0 (hist.take 3)).store = [(109, 9), (107, 7)] ∧
    (final hx 0 (hist.take 3)).prime = [(2, 107), (1, 107)] := by decide
example : (hist.filter (Op.crashed program)).length = 2 := by decide
/-- the collision-freedom hypothesis of `isnew_iff` is satisfiable, and the theorem then pins the flag -/
example : Function.Injective hx := fun a b hab => Nat.add_right_cancel hab
example : ∃ isnew, (apply hx 0 program (final hx 0 (hist.take 6)) (.upd 4 9 8)).2 = some isnew ∧
    (isnew = true ↔ ∀ b ∈ (final hx 0 (hist.take 6)).store, b.2 ≠ 9) :=
  isnew_iff hx (fun a b hab => Nat.add_right_cancel hab) 0 (hist.take 6) 4 9 8 (by decide)
/-- the theorems are not true of every program: cataloguing before placing the file leaves a
    dangling entry when the process dies in between -/
example :
    let bad : List Instr := [.mkstemp, .dump, .digest, .probe, .record .requested,
                             .place .unlink .rename, .reply false, .flag true]
    (run hx 0 bad (init : St Nat Nat Nat) [.upd 1 7 5]).1.prime = [(1, 107)] ∧
    (run hx 0 bad (init : St Nat Nat Nat) [.upd 1 7 5]).1.store = [] := by decide
/-- nor of a program that moves even when the name exists while the probe is inverted -/
example :
    let bad : List Instr := [.mkstemp, .dump, .digest, .probe, .place .unlink .rename,
                             .record .moved, .reply true, .flag true]
    (run hx 0 bad (init : St Nat Nat Nat) [.upd 1 7 8]).2 = [some false] := by decide
end examples

end DawgieVerif.C07
