/-
C04 — idle means idle: runnable work is released.

`s.inflight` is the ghost list of units released and not yet answered ("executing");
`todo` is what is pending.  All statements hold after EVERY history `ops` (no assumption on the
order or outcome of replies, on worker behaviour, on the graph).

Not proved here (full statement kept for the record):
  quiesces : for a feedback-free graph, a finite list of external events and workers that
             always answer, a state with `que = []` is reached.
What is proved instead is its engine: `no_deadlock` (whenever something is pending and nothing
is executing, the next dispatch releases something) together with `idle_views` / `que_exact`
(when nothing is pending or executing every view is empty).  The harness drives every history
to quiescence on the real code with always-answering workers.
-/
import DawgieVerif.Proofs.SchedInv

namespace DawgieVerif.C04
open DawgieVerif.Sched

/-- The work queue holds exactly the nodes that have something pending, something executing,
    or are marked running. -/
theorem que_exact (g : Graph) (ts : List Target) (ops : List Op) (n : Name) :
    n ∈ (run g (St.init ts) ops).que ↔
      (((run g (St.init ts) ops).node n).todo ≠ [] ∨ ((run g (St.init ts) ops).node n).doing ≠ [] ∨
        ((run g (St.init ts) ops).node n).running = true) := by
  have h := run_inv g (St.init ts) ops (inv_init ts)
  rw [← live_iff]
  exact ⟨h.ql n, h.lq n⟩

/-- Whenever no unit of work is pending or executing, the pipeline reports an empty work queue
    (and empty todo / doing views): the condition every "queue empty" / "nothing executing"
    waiter polls. -/
theorem idle_views (g : Graph) (ts : List Target) (ops : List Op)
    (hidle : (run g (St.init ts) ops).inflight = [])
    (hpend : ∀ n, ((run g (St.init ts) ops).node n).todo = []) :
    (run g (St.init ts) ops).que = [] ∧ viewTodo (run g (St.init ts) ops) = [] ∧
      viewDoing (run g (St.init ts) ops) = [] := by
  have h := run_inv g (St.init ts) ops (inv_init ts)
  generalize run g (St.init ts) ops = s at h hidle hpend
  have hq : s.que = [] := by
    rw [List.eq_nil_iff_forall_not_mem]
    intro n hn
    have hl := h.ql n hn
    rw [live_iff] at hl
    rcases hl with c | c | c
    · exact c (hpend n)
    · obtain ⟨t, ht⟩ := List.exists_mem_of_ne_nil _ c
      have := h.di n t ht
      rw [hidle] at this; simp at this
    · obtain ⟨t, ht⟩ := h.ri n c
      rw [hidle] at ht; simp at ht
  simp [viewTodo, viewDoing, hq]

/-- What is listed as executing is in flight, a running node has something in flight, and
    `do` is empty between dispatches — the bookkeeping the views rely on. -/
theorem executing_is_inflight (g : Graph) (ts : List Target) (ops : List Op) (n : Name) (t : Target)
    (h : t ∈ ((run g (St.init ts) ops).node n).doing) : (n, t) ∈ (run g (St.init ts) ops).inflight :=
  (run_inv g (St.init ts) ops (inv_init ts)).di n t h

/-- A pending unit that is not itself executing and whose ancestors are all idle for its target
    (for an all-targets unit: not in the queue at all) is released by the next dispatch. -/
theorem runnable_released (g : Graph) (ts : List Target) (ops : List Op) (x : Name) (t : Target)
    (hp : (run g (St.init ts) ops).paused = false)
    (h : Runnable g (run g (St.init ts) ops) x t) :
    (x, t) ∈ (dispatch g (run g (St.init ts) ops)).2 := by
  have hinv := run_inv g (St.init ts) ops (inv_init ts)
  generalize run g (St.init ts) ops = s at h hp hinv
  have hxq : x ∈ s.que := hinv.lq x (live_of_work (Or.inl (List.ne_nil_of_mem h.pending)))
  unfold dispatch
  simp only [hp, Bool.false_eq_true, if_false]
  exact runnable_released_aux g s x t h s.que hxq s (Same.refl s) rfl

/-- No deadlock: in an acyclic graph (`rank` strictly decreases along `ancestry`), whenever
    something is pending, nothing is executing and the pipeline is not paused, the next dispatch
    releases at least one unit. -/
theorem no_deadlock (g : Graph) (rank : Name → Nat)
    (hacyc : ∀ x a, a ∈ g.ancestry x → rank a < rank x)
    (ts : List Target) (ops : List Op)
    (hp : (run g (St.init ts) ops).paused = false)
    (hidle : (run g (St.init ts) ops).inflight = [])
    (hpend : ∃ n, ((run g (St.init ts) ops).node n).todo ≠ []) :
    (dispatch g (run g (St.init ts) ops)).2 ≠ [] := by
  have hinv := run_inv g (St.init ts) ops (inv_init ts)
  have hrel := runnable_released g ts ops
  generalize run g (St.init ts) ops = s at hrel hp hinv hidle hpend
  -- a pending node none of whose ancestors is pending
  have hmin : ∀ k x, rank x ≤ k → (s.node x).todo ≠ [] →
      ∃ y, (s.node y).todo ≠ [] ∧ ∀ a ∈ g.ancestry y, (s.node a).todo = [] := by
    intro k
    induction k with
    | zero =>
      intro x hx hne
      refine ⟨x, hne, ?_⟩
      intro a ha
      have := hacyc x a ha
      omega
    | succ k ih =>
      intro x hx hne
      by_cases hall : ∀ a ∈ g.ancestry x, (s.node a).todo = []
      · exact ⟨x, hne, hall⟩
      · have hex : ∃ a, a ∈ g.ancestry x ∧ (s.node a).todo ≠ [] :=
          Classical.byContradiction fun hno =>
            hall fun a ha => Classical.byContradiction fun hne => hno ⟨a, ha, hne⟩
        obtain ⟨a, ha, hne'⟩ := hex
        have := hacyc x a ha
        exact ih a (by omega) hne'
  obtain ⟨n, hn⟩ := hpend
  obtain ⟨y, hy, hanc⟩ := hmin (rank n) n (Nat.le_refl _) hn
  have hdoing : ∀ m, (s.node m).doing = [] := by
    intro m
    rw [List.eq_nil_iff_forall_not_mem]
    intro t ht
    have := hinv.di m t ht
    rw [hidle] at this; simp at this
  have hnotrun : ∀ m, (s.node m).running = false := by
    intro m
    cases hr : (s.node m).running
    · rfl
    · obtain ⟨t, ht⟩ := hinv.ri m hr
      rw [hidle] at ht; simp at ht
  -- choose the unit: the all-targets marker if present, else any pending target
  have hunit : ∃ t, Runnable g s y t := by
    by_cases hall : ALL ∈ (s.node y).todo
    · refine ⟨ALL, hall, by rw [hdoing y]; simp, fun c => absurd rfl c, ?_⟩
      intro a ha
      refine ⟨by simp [busy, hanc a ha, hdoing a], by simp [busy, hanc a ha, hdoing a], ?_⟩
      intro _ haq
      have hl := hinv.ql a haq
      rw [live_iff, hanc a ha, hdoing a, hnotrun a] at hl
      simp at hl
    · obtain ⟨t, ht⟩ := List.exists_mem_of_ne_nil _ hy
      have htne : t ≠ ALL := fun c => hall (c ▸ ht)
      refine ⟨t, ht, by rw [hdoing y]; simp, fun _ => hall, ?_⟩
      intro a ha
      exact ⟨by simp [busy, hanc a ha, hdoing a], by simp [busy, hanc a ha, hdoing a],
             fun c => absurd c htne⟩
  obtain ⟨t, ht⟩ := hunit
  exact List.ne_nil_of_mem (hrel y t hp ht)

/-! non-vacuity on the chain 0 → 1 → 2 of `Props/C01` -/
def chain : Graph :=
  { kind := fun _ => .task
    children := fun n => if n = 0 then [1] else if n = 1 then [2] else []
    desc := fun n => if n = 0 then [0, 1, 2] else if n = 1 then [1, 2] else [n]
    ancestry := fun n => if n = 1 then [0] else if n = 2 then [0, 1] else []
    consumes := fun n => if n = 1 then [0] else if n = 2 then [1] else []
    feedbackTo := fun _ => none
    level := fun n => n }

/-- a failure of the root empties the queue although the leaf had been requested:
    the situation in which stale entries used to remain -/
example : (run chain (St.init [1])
    [.organize [0, 2] none [1], .dispatch, .reply 0 1 .failure 1 [] true]).que = [] := by
  decide +kernel

example : Runnable chain (run chain (St.init [1]) [.organize [0, 2] none [1]]) 0 1 := by
  refine ⟨by decide +kernel, by decide +kernel, fun _ => by decide +kernel, ?_⟩
  intro a ha; simp [chain] at ha

end DawgieVerif.C04
