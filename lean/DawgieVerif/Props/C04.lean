/-
C04 — idle means idle: runnable work is released.

`s.inflight` is the ghost list of units released and not yet answered ("executing");
`todo` is what is pending.  All statements hold after EVERY history `ops` (no assumption on the
order or outcome of replies, on worker behaviour, on the graph).

`quiesces` is the liveness clause: after any finite history of external events, with workers that
always answer (any outcome, any values reported new), an acyclic feedback-free pipeline is idle
after at most depth + 1 further dispatch rounds.  Feedback loops legitimately never quiesce (a
fed-back new value re-triggers its consumer), hence the hypothesis; with feedback the engine of
the argument still holds: `no_deadlock` + `idle_views` / `que_exact`.
-/
import DawgieVerif.Proofs.SchedQuiesce

namespace DawgieVerif.C04
open DawgieVerif.Sched

/-- The work queue holds exactly the nodes that have something pending, something executing,
    or are marked running. -/
theorem que_exact (g : Graph) (ts : List Target) (ops : List Op) (n : Name) :
    n ∈ (run g (St.init ts) ops).que ↔
      (((run g (St.init ts) ops).node n).todo ≠ [] ∨ ((run g (St.init ts) ops).node n).doing ≠ [] ∨
        ((run g (St.init ts) ops).node n).running = true) := by
  have h := run_inv g (St.init ts) ops (inv_init ts)
  rw [← live_iff]
  exact ⟨h.ql n, h.lq n⟩

/-- Whenever no unit of work is pending or executing, the pipeline reports an empty work queue
    (and empty todo / doing views): the condition every "queue empty" / "nothing executing"
    waiter polls. -/
theorem idle_views (g : Graph) (ts : List Target) (ops : List Op)
    (hidle : (run g (St.init ts) ops).inflight = [])
    (hpend : ∀ n, ((run g (St.init ts) ops).node n).todo = []) :
    (run g (St.init ts) ops).que = [] ∧ viewTodo (run g (St.init ts) ops) = [] ∧
      viewDoing (run g (St.init ts) ops) = [] := by
  have h := run_inv g (St.init ts) ops (inv_init ts)
  generalize run g (St.init ts) ops = s at h hidle hpend
  have hq : s.que = [] := by
    rw [List.eq_nil_iff_forall_not_mem]
    intro n hn
    have hl := h.ql n hn
    rw [live_iff] at hl
    rcases hl with c | c | c
    · exact c (hpend n)
    · obtain ⟨t, ht⟩ := List.exists_mem_of_ne_nil _ c
      have := h.di n t ht
      rw [hidle] at this; simp at this
    · obtain ⟨t, ht⟩ := h.ri n c
      rw [hidle] at ht; simp at ht
  simp [viewTodo, viewDoing, hq]

/-- What is listed as executing is in flight, a running node has something in flight, and
    `do` is empty between dispatches — the bookkeeping the views rely on. -/
theorem executing_is_inflight (g : Graph) (ts : List Target) (ops : List Op) (n : Name) (t : Target)
    (h : t ∈ ((run g (St.init ts) ops).node n).doing) : (n, t) ∈ (run g (St.init ts) ops).inflight :=
  (run_inv g (St.init ts) ops (inv_init ts)).di n t h

/-- A pending unit that is not itself executing and whose ancestors are all idle for its target
    (for an all-targets unit: not in the queue at all) is released by the next dispatch. -/
theorem runnable_released (g : Graph) (ts : List Target) (ops : List Op) (x : Name) (t : Target)
    (hp : (run g (St.init ts) ops).paused = false)
    (h : Runnable g (run g (St.init ts) ops) x t) :
    (x, t) ∈ (dispatch g (run g (St.init ts) ops)).2 := by
  have hinv := run_inv g (St.init ts) ops (inv_init ts)
  generalize run g (St.init ts) ops = s at h hp hinv
  have hxq : x ∈ s.que := hinv.lq x (live_of_work (Or.inl (List.ne_nil_of_mem h.pending)))
  unfold dispatch
  simp only [hp, Bool.false_eq_true, if_false]
  exact runnable_released_aux g s x t h s.que hxq s (Same.refl s) rfl

/-- No deadlock: in an acyclic graph (`rank` strictly decreases along `ancestry`), whenever
    something is pending, nothing is executing and the pipeline is not paused, the next dispatch
    releases at least one unit. -/
theorem no_deadlock (g : Graph) (rank : Name → Nat)
    (hacyc : ∀ x a, a ∈ g.ancestry x → rank a < rank x)
    (ts : List Target) (ops : List Op)
    (hp : (run g (St.init ts) ops).paused = false)
    (hidle : (run g (St.init ts) ops).inflight = [])
    (hpend : ∃ n, ((run g (St.init ts) ops).node n).todo ≠ []) :
    (dispatch g (run g (St.init ts) ops)).2 ≠ [] := by
  have hinv := run_inv g (St.init ts) ops (inv_init ts)
  have hrel := runnable_released g ts ops
  generalize run g (St.init ts) ops = s at hrel hp hinv hidle hpend
  -- a pending node none of whose ancestors is pending
  have hmin : ∀ k x, rank x ≤ k → (s.node x).todo ≠ [] →
      ∃ y, (s.node y).todo ≠ [] ∧ ∀ a ∈ g.ancestry y, (s.node a).todo = [] := by
    intro k
    induction k with
    | zero =>
      intro x hx hne
      refine ⟨x, hne, ?_⟩
      intro a ha
      have := hacyc x a ha
      omega
    | succ k ih =>
      intro x hx hne
      by_cases hall : ∀ a ∈ g.ancestry x, (s.node a).todo = []
      · exact ⟨x, hne, hall⟩
      · have hex : ∃ a, a ∈ g.ancestry x ∧ (s.node a).todo ≠ [] :=
          Classical.byContradiction fun hno =>
            hall fun a ha => Classical.byContradiction fun hne => hno ⟨a, ha, hne⟩
        obtain ⟨a, ha, hne'⟩ := hex
        have := hacyc x a ha
        exact ih a (by omega) hne'
  obtain ⟨n, hn⟩ := hpend
  obtain ⟨y, hy, hanc⟩ := hmin (rank n) n (Nat.le_refl _) hn
  have hdoing : ∀ m, (s.node m).doing = [] := by
    intro m
    rw [List.eq_nil_iff_forall_not_mem]
    intro t ht
    have := hinv.di m t ht
    rw [hidle] at this; simp at this
  have hnotrun : ∀ m, (s.node m).running = false := by
    intro m
    cases hr : (s.node m).running
    · rfl
    · obtain ⟨t, ht⟩ := hinv.ri m hr
      rw [hidle] at ht; simp at ht
  -- choose the unit: the all-targets marker if present, else any pending target
  have hunit : ∃ t, Runnable g s y t := by
    by_cases hall : ALL ∈ (s.node y).todo
    · refine ⟨ALL, hall, by rw [hdoing y]; simp, fun c => absurd rfl c, ?_⟩
      intro a ha
      refine ⟨by simp [busy, hanc a ha, hdoing a], by simp [busy, hanc a ha, hdoing a], ?_⟩
      intro _ haq
      have hl := hinv.ql a haq
      rw [live_iff, hanc a ha, hdoing a, hnotrun a] at hl
      simp at hl
    · obtain ⟨t, ht⟩ := List.exists_mem_of_ne_nil _ hy
      have htne : t ≠ ALL := fun c => hall (c ▸ ht)
      refine ⟨t, ht, by rw [hdoing y]; simp, fun _ => hall, ?_⟩
      intro a ha
      exact ⟨by simp [busy, hanc a ha, hdoing a], by simp [busy, hanc a ha, hdoing a],
             fun c => absurd c htne⟩
  obtain ⟨t, ht⟩ := hunit
  exact List.ne_nil_of_mem (hrel y t hp ht)

/-- **The pipeline quiesces.**  `g` acyclic and feedback-free (`rank` strictly grows along
    ancestry and along children, bounded by `R`); any protocol-conforming history `ops`; not
    paused.  Let the workers answer everything that is in flight (`answerAll`, with ANY outcomes
    and ANY subsets of values reported new: `ans` is arbitrary), and then run `R + 1` rounds of
    "dispatch tick, every unit in flight is answered".  Then nothing is pending, nothing is
    executing, nothing is in flight and the work queue is empty — so every waiter on "queue
    empty" or "nothing executing" is satisfied. -/
theorem quiesces (g : Graph) (rank : Name → Nat) (R : Nat) (hr : Ranked g rank R)
    (ts : List Target) (hts : ALL ∉ ts) (ops : List Op) (hv : ValidRun g (St.init ts) ops)
    (hp : (run g (St.init ts) ops).paused = false) (ans : Name → Target → Answer) :
    let s0 := answerAll g ans (run g (St.init ts) ops) (run g (St.init ts) ops).inflight
    let s := rounds g ans (R + 1) s0
    s.que = [] ∧ s.inflight = [] ∧ viewTodo s = [] ∧ viewDoing s = [] ∧
      ∀ n, (s.node n).todo = [] ∧ (s.node n).doing = [] := by
  obtain ⟨h2, h1⟩ := run_inv2 g (St.init ts) ops (inv_init ts) (inv2_init g ts hts) hv
  generalize run g (St.init ts) ops = st at h1 h2 hp
  obtain ⟨a, b, c, d⟩ := answerAll_inv g ans st.inflight st h1 h2 (fun p hp' => hp') h2.nd
  have hfl0 : (answerAll g ans st st.inflight).inflight = [] := by
    rw [List.eq_nil_iff_forall_not_mem]
    intro p hp'
    have := (c p).1 hp'
    exact this.2 this.1
  have hclean0 : CleanBelow rank 0 (answerAll g ans st st.inflight) := fun n hn => by omega
  obtain ⟨hc, hi, hfl⟩ := rounds_clean g rank R hr ans (R + 1) 0 _ a b (by rw [d]; exact hp) hfl0 hclean0
  intro s0 s
  have hall : ∀ n, (s.node n).todo = [] ∧ (s.node n).doing = [] := by
    intro n
    have := hr.bound n
    exact hc n (by omega)
  have hq : s.que = [] := by
    rw [List.eq_nil_iff_forall_not_mem]
    intro n hn
    have hl := hi.ql n hn
    rw [live_iff, (hall n).1, (hall n).2] at hl
    rcases hl with c' | c' | c'
    · exact c' rfl
    · exact c' rfl
    · obtain ⟨t, ht⟩ := hi.ri n c'
      rw [hfl] at ht; simp at ht
  exact ⟨hq, hfl, by simp [viewTodo, hq], by simp [viewDoing, hq], hall⟩

/-! non-vacuity on the chain 0 → 1 → 2 of `Props/C01` -/
def chain : Graph :=
  { kind := fun _ => .task
    children := fun n => if n = 0 then [1] else if n = 1 then [2] else []
    desc := fun n => if n = 0 then [0, 1, 2] else if n = 1 then [1, 2] else [n]
    ancestry := fun n => if n = 1 then [0] else if n = 2 then [0, 1] else []
    consumes := fun n => if n = 1 then [0] else if n = 2 then [1] else []
    feedbackTo := fun _ => none
    level := fun n => n }

/-- a failure of the root empties the queue although the leaf had been requested:
    the situation in which stale entries used to remain -/
example : (run chain (St.init [1])
    [.organize [0, 2] none [1], .dispatch, .reply 0 1 .failure 1 [] true]).que = [] := by
  decide +kernel

/-- the hypotheses of `quiesces` are satisfiable: the chain is ranked by `min n 2` -/
example : Ranked chain (fun n => min n 2) 2 := by
  constructor
  · intro x a ha
    simp only [chain] at ha
    split at ha
    · simp at ha; subst ha; simp_all
    · split at ha
      · simp at ha; rcases ha with h | h <;> subst h <;> simp_all
      · simp at ha
  · intro x c hc
    simp only [chain] at hc
    split at hc
    · simp at hc; subst hc; simp_all
    · split at hc
      · simp at hc; subst hc; simp_all
      · simp at hc
  · intro n; exact Nat.min_le_right n 2
  · intro v; rfl

/-- the chain is ranked by node number when restricted to its three nodes; the quiescence
    theorem applied to a concrete run: everything requested, root reports new values each time -/
example :
    let ans : Name → Target → Answer := fun _ _ => ⟨.success, [0, 1, 2], true, 1⟩
    (rounds chain ans 3 (St.init [1] |> fun s => run chain s [.organize [0, 1, 2] none [1]])).que = [] := by
  decide +kernel

example : Runnable chain (run chain (St.init [1]) [.organize [0, 2] none [1]]) 0 1 := by
  refine ⟨by decide +kernel, by decide +kernel, fun _ => by decide +kernel, ?_⟩
  intro a ha; simp [chain] at ha

end DawgieVerif.C04
