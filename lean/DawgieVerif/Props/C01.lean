/-
C01 — upstream work always finishes before dependent work is released.

`run g (St.init ts) ops` is the scheduler after an arbitrary history of run requests, dispatch
ticks, worker replies with any outcome, timer events, pauses and target additions (no hypothesis
on `ops`, not even that workers follow the protocol).  `(dispatch g s).2` are the units the
next dispatch moves `todo → doing` (`next_job_batch`), `g.ancestry x` the ancestor set the real
graph attaches to `x` (the transitive upstream closure: property C09).
-/
import DawgieVerif.Proofs.Sched

namespace DawgieVerif.C01
open DawgieVerif.Sched

/-- A unit `(x, t)` is released only when every ancestor of `x` has neither `t` nor an
    all-targets run pending (`todo`) or executing (`doing`); an all-targets unit only when its
    ancestors have nothing pending or executing at all. -/
theorem release_safe (g : Graph) (ts : List Target) (ops : List Op) (x : Name) (t : Target)
    (h : (x, t) ∈ (dispatch g (run g (St.init ts) ops)).2) :
    ∀ a ∈ g.ancestry x,
      t ∉ ((run g (St.init ts) ops).node a).todo ∧ t ∉ ((run g (St.init ts) ops).node a).doing ∧
      ALL ∉ ((run g (St.init ts) ops).node a).todo ∧ ALL ∉ ((run g (St.init ts) ops).node a).doing ∧
      (t = ALL → ((run g (St.init ts) ops).node a).todo = [] ∧
                 ((run g (St.init ts) ops).node a).doing = []) := by
  have hq := run_queCovers g (St.init ts) ops (init_queCovers ts)
  generalize run g (St.init ts) ops = s at h hq
  unfold dispatch at h
  split at h
  · simp at h
  · obtain ⟨s', hs, ht, _⟩ := releaseAll_released g s s.que x t h
    intro a ha
    obtain ⟨h1, h2, h3⟩ := available_idle g s s' hq hs x t ht a ha
    unfold busy at h1 h2
    exact ⟨fun c => h1 (Or.inl c), fun c => h1 (Or.inr c), fun c => h2 (Or.inl c),
           fun c => h2 (Or.inr c), h3⟩

/-- In terms of the declared dependencies: let `Up a x` be "algorithm `a` is transitively
    upstream of `x`" and suppose the graph's ancestor sets are complete for it (`C09.ancestry_closure`
    proves exactly this for the output of `dag.Construct`: `m ∈ ancestry n ↔ TransGen edge m n`).
    Then no unit is released while any transitive upstream algorithm has its target, or an
    all-targets run, pending or executing. -/
theorem release_safe_upstream (g : Graph) (Up : Name → Name → Prop)
    (hcomplete : ∀ x a, Up a x → a ∈ g.ancestry x)
    (ts : List Target) (ops : List Op) (x : Name) (t : Target)
    (h : (x, t) ∈ (dispatch g (run g (St.init ts) ops)).2) (a : Name) (ha : Up a x) :
    t ∉ ((run g (St.init ts) ops).node a).todo ∧ t ∉ ((run g (St.init ts) ops).node a).doing ∧
    ALL ∉ ((run g (St.init ts) ops).node a).todo ∧ ALL ∉ ((run g (St.init ts) ops).node a).doing ∧
    (t = ALL → ((run g (St.init ts) ops).node a).todo = [] ∧
               ((run g (St.init ts) ops).node a).doing = []) :=
  release_safe g ts ops x t h a (hcomplete x a ha)

/-- The same holds at the very moment of the release inside the batch: releases made earlier
    in the same batch do not make an ancestor look idle (they only move `todo → doing`). -/
theorem release_safe_within_batch (g : Graph) (s : St) (hq : QueCovers s) (x : Name) (t : Target)
    (h : (x, t) ∈ (releaseAll g s s.que).2) :
    ∀ a ∈ g.ancestry x, ¬ busy s a t ∧ ¬ busy s a ALL := by
  obtain ⟨s', hs, ht, _⟩ := releaseAll_released g s s.que x t h
  intro a ha
  obtain ⟨h1, h2, _⟩ := available_idle g s s' hq hs x t ht a ha
  exact ⟨h1, h2⟩

/-- Nothing is released while the pipeline is paused. -/
theorem paused_releases_nothing (g : Graph) (s : St) (h : s.paused = true) :
    (dispatch g s).2 = [] := by
  simp [dispatch, h]

/-- the invariant behind `release_safe`, for every history: a node with pending or executing
    work is in the queue, so the release filter (which only looks at queued ancestors) sees it -/
theorem busy_nodes_are_queued (g : Graph) (ts : List Target) (ops : List Op) (n : Name)
    (h : ((run g (St.init ts) ops).node n).todo ≠ [] ∨ ((run g (St.init ts) ops).node n).doing ≠ []) :
    n ∈ (run g (St.init ts) ops).que :=
  run_queCovers g (St.init ts) ops (init_queCovers ts) n h

/-! non-vacuity: chain 0 → 1 → 2; both ends requested for target 1: only the root is released,
    and after the root and the middle node reported, the leaf is. -/
def chain : Graph :=
  { kind := fun _ => .task
    children := fun n => if n = 0 then [1] else if n = 1 then [2] else []
    desc := fun n => if n = 0 then [0, 1, 2] else if n = 1 then [1, 2] else [n]
    ancestry := fun n => if n = 1 then [0] else if n = 2 then [0, 1] else []
    consumes := fun n => if n = 1 then [0] else if n = 2 then [1] else []
    feedbackTo := fun _ => none
    level := fun n => n }

example : (dispatch chain (run chain (St.init [1]) [.organize [0, 2] none [1]])).2 = [(0, 1)] := by
  decide +kernel

example : (dispatch chain (run chain (St.init [1])
    [.organize [0, 2] none [1], .dispatch, .reply 0 1 .success 1 [] true])).2 = [(2, 1)] := by
  decide +kernel

end DawgieVerif.C01
