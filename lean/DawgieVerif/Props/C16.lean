/-
C16 — the compliance gate accepts exactly the engines that follow the architecture.

`verify` (Model/Compliant.lean) mirrors `tools.compliant._verify/_walk/rule_01…rule_11` over an
abstract package `Pkg`, with `_walk` taken as data from `Generated/Rules.lean`;
`Compliant` (Model/CompliantSpec.lean) is the architecture stated position by position.
All theorems quantify over every `Pkg` (no size bound).
-/
import DawgieVerif.Proofs.CompliantRules

namespace DawgieVerif.C16
open DawgieVerif.Compliant DawgieVerif.Generated

/-! ### the gate is exact -/

/-- Clause 1+2 of the property: the gate accepts a package iff it follows the architecture —
whatever mix of factories it offers, wherever a rule is broken. -/
theorem gate_exact (p : Pkg) : verify p = true ↔ Compliant p := gate_exact_aux p

/-- … and an engine (several task packages) is accepted iff each package follows the architecture -/
theorem gate_exact_engine (ps : List Pkg) : verifyAll ps = true ↔ ∀ p ∈ ps, Compliant p := by
  simp [verifyAll, List.all_eq_true, gate_exact]

/-- every call `_walk` (as generated from the source) makes is made on the variable bound by the
innermost enclosing loop of the same branch, and every callback receives that loop's variable:
no stale or unbound variable is read (the repaired defect F-C16 was `a.feedback()` in the
regress branch) -/
theorem walk_well_scoped :
    ∀ k ∈ Rules.factoryOrder, ∀ f ∈ Rules.walk k,
      f.arg = .bound f.path.length ∧ ∀ i (h : i < f.path.length), (f.path[i]).recv = .bound i := by
  decide

/-! ### every single-rule violation is rejected -/

/-- rule 1: no factory at all -/
theorem rejects_no_factory (p : Pkg)
    (h : p.analysis = none ∧ p.events = none ∧ p.regress = none ∧ p.task = none) :
    verify p = false := by
  apply not_accepted; intro c
  have := c.offers
  simp [h.1, h.2.1, h.2.2.1, h.2.2.2] at this

/-- rule 1: a factory whose signature (count, defaults, annotations) is not the documented one -/
theorem rejects_bad_signature (p : Pkg) (k : Factory) (ps : List Param)
    (h : p.params k = some ps) (hne : ps ≠ documentedSig k) : verify p = false := by
  apply not_accepted; intro c
  cases k with
  | analysis =>
    cases ha : p.analysis with
    | none => simp [Pkg.params, ha] at h
    | some f => simp [Pkg.params, ha] at h; exact hne (h ▸ (c.analysis f ha).signature)
  | events =>
    cases ha : p.events with
    | none => simp [Pkg.params, ha] at h
    | some f => simp [Pkg.params, ha] at h; exact hne (h ▸ (c.events f ha).signature)
  | regress =>
    cases ha : p.regress with
    | none => simp [Pkg.params, ha] at h
    | some f => simp [Pkg.params, ha] at h; exact hne (h ▸ (c.regress f ha).signature)
  | task =>
    cases ha : p.task with
    | none => simp [Pkg.params, ha] at h
    | some f => simp [Pkg.params, ha] at h; exact hne (h ▸ (c.task f ha).signature)

/-- a factory that raises when called -/
theorem rejects_raising_factory (p : Pkg)
    (h : (∃ k f, botOf p k = some f ∧ f.raises = true) ∨ (∃ f, p.events = some f ∧ f.raises = true)) :
    verify p = false := by
  apply not_accepted; intro c
  rcases h with ⟨k, f, hf, hr⟩ | ⟨f, hf, hr⟩
  · have := (botOK_of p c k f hf).returns; simp [hr] at this
  · have := (c.events f hf).returns; simp [hr] at this

/-- rule 2: something is not of its dawgie base type -/
theorem rejects_wrong_base_type (p : Pkg)
    (h : (∃ k f, botOf p k = some f ∧ f.content.isBase = false)
      ∨ (∃ k r, HasRoutine p k r ∧ r.isBase = false)
      ∨ (∃ s, HasSV p s ∧ s.isSV = false)
      ∨ (∃ v, HasValue p v ∧ v.isValue = false)
      ∨ (∃ x, HasRef p x ∧ x.isRef = false)
      ∨ (∃ e, HasEvent p e ∧ e.isEvent = false)) : verify p = false := by
  apply not_accepted; intro c
  rcases h with ⟨k, f, hf, hb⟩ | ⟨k, r, hr, hb⟩ | ⟨s, hs, hb⟩ | ⟨v, hv, hb⟩ | ⟨x, hx, hb⟩ | ⟨e, ⟨f, hf, he⟩, hb⟩
  · have := (botOK_of p c k f hf).base; simp [hb] at this
  · have := (routineOK_of p c k r hr).base; simp [hb] at this
  · have := (svOK_of p c s hs).base; simp [hb] at this
  · have := (valueOK_of p c v hv).base; simp [hb] at this
  · have := (refOK_of p c x hx).isRef; simp [hb] at this
  · have := (c.events f hf).types e he; simp [hb] at this

/-- rule 3: an abstract method is not overridden, returns the wrong type, or a version is broken -/
theorem rejects_abstract_method (p : Pkg)
    (h : (∃ k f, botOf p k = some f ∧ (f.content.listImpl = false ∨ f.content.routines = []))
      ∨ (∃ k r, HasRoutine p k r ∧ (r.nameImpl = false ∨ r.depsImpl = false ∨ r.svsImpl = false
          ∨ r.depsList = false ∨ r.svsList = false ∨ r.verOk = false))
      ∨ (∃ k r x, HasRoutine p k r ∧ k ≠ .task ∧ x ∈ r.deps ∧ x.kind = .alg)
      ∨ (∃ s, HasSV p s ∧ (s.nameImpl = false ∨ s.verOk = false))
      ∨ (∃ v, HasValue p v ∧ v.verOk = false)) : verify p = false := by
  apply not_accepted; intro c
  rcases h with ⟨k, f, hf, hb⟩ | ⟨k, r, hr, hb⟩ | ⟨k, r, x, hr, hk, hx, hb⟩ | ⟨s, hs, hb⟩ | ⟨v, hv, hb⟩
  · have b := botOK_of p c k f hf
    rcases hb with hb | hb
    · have := b.listImpl; simp [hb] at this
    · exact b.routinesNonempty hb
  · have b := routineOK_of p c k r hr
    rcases hb with hb | hb | hb | hb | hb | hb
    · have := b.nameImpl; simp [hb] at this
    · have := b.depsImpl; simp [hb] at this
    · have := b.svsImpl; simp [hb] at this
    · have := b.depsList; simp [hb] at this
    · have := b.svsList; simp [hb] at this
    · have := b.version; simp [hb] at this
  · exact (routineOK_of p c k r hr).depKinds hk x hx hb
  · have b := svOK_of p c s hs
    rcases hb with hb | hb
    · have := b.nameImpl; simp [hb] at this
    · have := b.version; simp [hb] at this
  · have := (valueOK_of p c v hv).version; simp [hb] at this

/-- rule 4: a name or key contains "." -/
theorem rejects_dotted_name (p : Pkg)
    (h : (∃ k r, HasRoutine p k r ∧ '.' ∈ r.name.toList)
      ∨ (∃ s, HasSV p s ∧ '.' ∈ s.name.toList)
      ∨ (∃ v, HasValue p v ∧ '.' ∈ v.key.toList)) : verify p = false := by
  apply not_accepted; intro c
  rcases h with ⟨k, r, hr, hd⟩ | ⟨s, hs, hd⟩ | ⟨v, hv, hd⟩
  · exact (routineOK_of p c k r hr).name hd
  · exact (svOK_of p c s hs).name hd
  · exact (valueOK_of p c v hv).key hd

/-- rule 5: a state vector without keys -/
theorem rejects_empty_state_vector (p : Pkg) (s : SV) (hs : HasSV p s) (he : s.values = []) :
    verify p = false := by
  apply not_accepted; intro c
  exact (svOK_of p c s hs).keys he

/-- rule 6: a task's `previous()` names an implementation from outside its factory's module -/
theorem rejects_previous_from_other_module (p : Pkg) (r : Routine) (x : Ref)
    (hr : HasRoutine p .task r) (hx : x ∈ r.deps) (hu : x.underFactory = false) : verify p = false := by
  apply not_accepted; intro c
  have := (routineOK_of p c .task r hr).previousModule rfl x hx
  simp [hu] at this

/-- rule 7: a value that cannot be pickled -/
theorem rejects_unpicklable_value (p : Pkg) (v : Value) (hv : HasValue p v) (hp : v.picklable = false) :
    verify p = false := by
  apply not_accepted; intro c
  have := (valueOK_of p c v hv).pickles; simp [hp] at this

/-- rule 8: an element of a reference has the wrong type -/
theorem rejects_ill_typed_reference (p : Pkg) (x : Ref) (hx : HasRef p x)
    (h : x.factoryFunc = false ∨ x.implOk = false ∨ (x.kind ≠ .alg ∧ x.itemOk = false)
      ∨ (x.kind = .v ∧ x.featOk = false)) : verify p = false := by
  apply not_accepted; intro c
  have b := refOK_of p c x hx
  rcases h with h | h | ⟨hk, h⟩ | ⟨hk, h⟩
  · have := b.factory; simp [h] at this
  · have := b.impl; simp [h] at this
  · have := b.item hk; simp [h] at this
  · have := b.feat hk; simp [h] at this

/-- rule 9: an algorithm, analyzer or regression without state vectors -/
theorem rejects_missing_state_vectors (p : Pkg) (k : Factory) (r : Routine) (hr : HasRoutine p k r)
    (he : r.svs = []) : verify p = false := by
  apply not_accepted; intro c
  exact (routineOK_of p c k r hr).hasSV he

/-- rule 10: a malformed schedule moment -/
theorem rejects_malformed_moment (p : Pkg) (e : Event) (he : HasEvent p e) (hm : ¬ MomentOK e) :
    verify p = false := by
  apply not_accepted; intro c
  obtain ⟨f, hf, hmem⟩ := he
  exact hm ((c.events f hf).moments e hmem)

/-- rule 11: a reference that does not resolve (algorithm, state vector or feature unknown, or the
look-up itself fails) -/
theorem rejects_unresolvable_reference (p : Pkg) (x : Ref) (hx : HasRef p x)
    (h : x.resolveRaises = true ∨ x.algFound = false
      ∨ ∃ v ∈ x.vrefs, v.svFound = false ∨ v.featFound = false) : verify p = false := by
  apply not_accepted; intro c
  have b := refOK_of p c x hx
  rcases h with h | h | ⟨v, hv, h⟩
  · have := b.lookup; simp [h] at this
  · have := b.alg; simp [h] at this
  · have := b.values v hv
    rcases h with h | h
    · simp [h] at this
    · simp [h] at this

/-! ### accepted packages can be turned into a task graph and scheduled -/

/-- Clause 3 of the property, over this check's own minimal model of where `dag.Construct`,
`schedule.build` and `schedule.periodics` raise on what a package hands them: for an accepted
package none of these failure points is reachable.  (Acyclicity of the inputs is what the
termination of `Construct._ancestry` needs; that loop is C09's subject and is exercised, not
modelled, here — so no hypothesis about cycles is needed for this statement.) -/
theorem accepted_schedulable (p : Pkg) (h : verify p = true) : construct p = .ok () := by
  have c := (gate_exact p).1 h
  obtain ⟨a, e, r, t⟩ := p
  have ha : optBuild a (buildBot .analysis) = .ok () := by
    cases a with
    | none => rfl
    | some f => exact buildBot_ok .analysis (by decide) f (c.analysis f rfl)
  have hr : optBuild r (buildBot .regress) = .ok () := by
    cases r with
    | none => rfl
    | some f => exact buildBot_ok .regress (by decide) f (c.regress f rfl)
  have ht : optBuild t (buildBot .task) = .ok () := by
    cases t with
    | none => rfl
    | some f => exact buildBot_ok .task (by decide) f (c.task f rfl)
  have he : optBuild e buildEvents = .ok () := by
    cases e with
    | none => rfl
    | some f => exact buildEvents_ok f (c.events f rfl)
  simp only [construct, ha, hr, ht, he]
  rfl

/-! ### what the gate cannot see -/

/-- The gate never calls `run()`: a package whose regression does not override `run` is accepted
(rule_03's docstring promises "all of the methods that raise NotImplementedError"; `run`, `view`
and `features` cannot be called by a static gate).  `Compliant` therefore does not mention them. -/
theorem gate_blind_to_run :
    ∃ p k r, HasRoutine p k r ∧ r.runImpl = false ∧ verify p = true := by
  refine ⟨⟨none, none, some ⟨documentedSig .regress, false, ⟨true, true,
    [⟨"reg0", true, true, true, false, true, true, true, true, true, [], [], [⟨"sv0", true, true, true,
      [⟨"k0", true, true, true⟩]⟩]⟩]⟩⟩, none⟩, .regress, _, ⟨_, rfl, List.mem_singleton.2 rfl⟩, rfl, ?_⟩
  decide +kernel

/-! ### non-vacuity: concrete packages -/

def okVal : Value := ⟨"k0", true, true, true⟩
def okSV : SV := ⟨"sv0", true, true, true, [okVal]⟩
def okRef : Ref := ⟨.v, true, true, true, true, true, true, false, true, [⟨true, true⟩]⟩
def okReg : Routine :=
  ⟨"reg0", true, true, true, true, true, true, true, true, true, [okRef], [okRef], [okSV]⟩
def okAlg : Routine :=
  ⟨"alg0", true, true, true, true, true, true, true, true, true, [{ okRef with kind := .alg }], [], [okSV]⟩
def okAnz : Routine := { okReg with name := "anz0" }
def okBoot : Event := ⟨true, .t, .none, .none, .none, .none⟩
def okWeekly : Event := ⟨true, .none, .none, .none, .ok, .ok⟩

/-- a package that offers only a regression, whose regression has feedback of its own (rejected
with `UnboundLocalError` before the repair of F-C16) -/
def regressOnly : Pkg :=
  ⟨none, none, some ⟨documentedSig .regress, false, ⟨true, true, [okReg]⟩⟩, none⟩

/-- all four factories -/
def full : Pkg :=
  ⟨some ⟨documentedSig .analysis, false, ⟨true, true, [okAnz]⟩⟩,
   some ⟨[], false, [okBoot, okWeekly]⟩,
   some ⟨documentedSig .regress, false, ⟨true, true, [okReg]⟩⟩,
   some ⟨documentedSig .task, false, ⟨true, true, [okAlg, { okAlg with name := "alg1" }]⟩⟩⟩

/-- events only -/
def eventsOnly : Pkg := ⟨none, some ⟨[], false, []⟩, none, none⟩

example : verify regressOnly = true := by decide +kernel
example : Compliant regressOnly := (gate_exact _).1 (by decide +kernel)
example : verify full = true ∧ construct full = .ok () :=
  ⟨by decide +kernel, accepted_schedulable _ (by decide +kernel)⟩
example : verifyAll [regressOnly, full, eventsOnly] = true := by decide +kernel
-- one violation each, at a position deep inside `full`
example : verify { full with task := full.task.map fun f =>
    { f with params := f.params ++ [⟨.other, .none⟩] } } = false := by decide +kernel
example : verify { regressOnly with regress := some ⟨documentedSig .regress, false,
    ⟨true, true, [{ okReg with feedback := [{ okRef with isRef := false }] }]⟩⟩ } = false := by
  decide +kernel
example : verify { regressOnly with regress := some ⟨documentedSig .regress, false,
    ⟨true, true, [{ okReg with name := "reg.0" }]⟩⟩ } = false := by decide +kernel
example : verify { regressOnly with regress := some ⟨documentedSig .regress, false,
    ⟨true, true, [{ okReg with svs := [{ okSV with values := [] }] }]⟩⟩ } = false := by decide +kernel
example : verify { regressOnly with regress := some ⟨documentedSig .regress, false,
    ⟨true, true, [{ okReg with feedback := [{ okRef with vrefs := [⟨true, false⟩] }] }]⟩⟩ } = false := by
  decide +kernel
example : verify { eventsOnly with events := some ⟨[], false,
    [⟨true, .none, .none, .none, .ok, .none⟩]⟩ } = false := by decide +kernel
example : ¬ MomentOK ⟨true, .t, .none, .ok, .none, .ok⟩ := fun h => by
  have := h.one; simp at this
example : HasRoutine full .task okAlg := ⟨_, rfl, by simp⟩

end DawgieVerif.C16
