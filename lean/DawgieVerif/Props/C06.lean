/-
C06 — stored values come back intact, and only to their own author, version, target
(shelve backend; the PostgreSQL backend is not modelled).

`Stored s tn id run c` (Model/Store.lean) reads the catalogue the way the code does: a primary
entry of that run whose five ids resolve, through the tables and `dissect`, to target `tn` and
identity `id` = task, algorithm, state vector and value names with their versions, and whose blob
holds content `c`.  The abstract specification is `ASt` / `absStep`: a map
(target, identity) → run → content that a store writes at one cell and a removal clears for the
named author; `LoadSpec` says what a load must return.  Contents are opaque (`Nat`); the pickle
round trip is a parameter of `load_value`.  Blob names determine contents (`Op.Hashed`, digest
injectivity — the subject of C07).
-/
import DawgieVerif.Proofs.StoreLoad

namespace DawgieVerif.C06
open DawgieVerif.Store DawgieVerif.Generated.Store

/-- What is stored is a partial function of (target, identity, run): never two contents. -/
theorem stored_functional (ops : List Op) (hops : ∀ op ∈ ops, op.OK) (tn : Name) (id : Ident)
    (rn c c' : Nat) (h1 : Stored (run init ops) tn id rn c) (h2 : Stored (run init ops) tn id rn c') :
    c = c' :=
  stored_unique (reach_inv ops) (reach_chainok ops hops) h1 h2

/-- Refinement, for every history of opens, closes, target additions, registrations, stores
    (version bumps included: a version is part of the identity), loads and removals over
    colon-free names: the catalogue holds exactly what the abstract store holds. -/
theorem history_refines (h : Name → Nat) (ops : List Op) (hops : ∀ op ∈ ops, op.OK ∧ op.Hashed h) :
    (absRun ops).opened = (run init ops).opened ∧
    ∀ tn id rn c, Stored (run init ops) tn id rn c ↔ (absRun ops).m tn id rn = some c := by
  apply refines_run ops hops init ASt.init inv_init (by intro e he; cases he)
    (by intro b c hb; simp [init] at hb) rfl
  intro tn id rn c
  constructor
  · rintro ⟨e, he, _⟩; cases he
  · intro hm; simp [ASt.init] at hm

/-- One store (the body of `_update` for one value) on a reachable open catalogue: exactly the
    cell (target, identity, run) is (over)written with the new content; every other cell — other
    targets, other authors, other versions of any element, other runs — keeps what it had. -/
theorem store_refines (ops : List Op) (hops : ∀ op ∈ ops, op.OK) (ho : (run init ops).opened = true)
    (rn : Nat) (tn task : Name) (alg sv v : Name × Ver) (blob : Name) (content : Nat)
    (o1 : NameOK tn) (o2 : NameOK task) (o3 : NameOK alg.1) (o4 : NameOK sv.1) (o5 : NameOK v.1)
    (hblob : ∀ c0, (run init ops).blobs.lookup blob = some c0 → c0 = content) :
    ∃ r, store (run init ops) rn tn task alg sv v blob content = .ok r ∧
      ∀ tn' id' rn' c', Stored r.1 tn' id' rn' c' ↔
        ((tn' = tn ∧ id' = ⟨task, alg, sv, v⟩ ∧ rn' = rn) ∧ c' = content) ∨
        (¬ (tn' = tn ∧ id' = ⟨task, alg, sv, v⟩ ∧ rn' = rn) ∧ Stored (run init ops) tn' id' rn' c') :=
  store_spec (reach_inv ops) ho (reach_chainok ops hops) rn blob content o1 o2 o3 o4 o5 hblob

/-- A removal clears exactly the cells of that run whose target, task, algorithm, state-vector and
    value *names* equal the request (all versions), nothing else. -/
theorem remove_refines (ops : List Op) (hops : ∀ op ∈ ops, op.OK) (rid : Nat)
    (tn taskn algn svn vn : Name) (h3 : NameOK algn) (h4 : NameOK svn) (h5 : NameOK vn) (s' : St)
    (hr : remove (run init ops) rid tn taskn algn svn vn = .ok s') (tn' : Name) (id' : Ident) (rn' c' : Nat) :
    Stored s' tn' id' rn' c' ↔
      Stored (run init ops) tn' id' rn' c' ∧
        ¬ (rn' = rid ∧ tn' = tn ∧ id'.task = taskn ∧ id'.alg.1 = algn ∧ id'.sv.1 = svn ∧ id'.v.1 = vn) := by
  have ho : (run init ops).opened = true := by
    cases ho : (run init ops).opened with
    | true => rfl
    | false => simp [remove, ho] at hr
  exact remove_stored (reach_inv ops) ho (reach_chainok ops hops) h3 h4 h5 hr tn' id' rn' c'

/-- `load` (one value of `_load`) on a reachable open catalogue never raises, and what it reads is
    described by the cells of its own (target, identity) only: the entry of the requested run when
    there is one; otherwise the entry of the highest stored run; and nothing (`none`: the value
    object is left untouched) when no run is stored for that identity on that target. -/
theorem load_reads (ops : List Op) (hops : ∀ op ∈ ops, op.OK) (ho : (run init ops).opened = true)
    (rn : Nat) (tn task : Name) (alg sv v : Name × Ver) (o3 : NameOK alg.1) (o4 : NameOK sv.1)
    (o5 : NameOK v.1) :
    ∃ s' res, load (run init ops) rn tn task alg sv v = .ok (s', res) ∧
      (match res with
       | none => ∀ r c, ¬ Stored (run init ops) tn ⟨task, alg, sv, v⟩ r c
       | some (k, c) =>
         Stored (run init ops) tn ⟨task, alg, sv, v⟩ k.run c ∧
         (k.run = rn ∨ ((∀ c', ¬ Stored (run init ops) tn ⟨task, alg, sv, v⟩ rn c') ∧
            ∀ r' c', Stored (run init ops) tn ⟨task, alg, sv, v⟩ r' c' → r' ≤ k.run))) := by
  obtain ⟨res, hl, hres⟩ := load_spec (reach_inv ops) ho (reach_chainok ops hops) rn (tn := tn)
    (task := task) o3 o4 o5
  refine ⟨_, res, hl, ?_⟩
  cases res with
  | none => exact hres
  | some kc => exact ⟨hres.1, hres.2.2⟩

/-- Isolation: the primary entry a load reads is an entry of the catalogue whose ids resolve to
    exactly the requested target and identity — never another target, another author or another
    version of any element — and the content returned is the content of that entry's blob. -/
theorem load_isolated (ops : List Op) (hops : ∀ op ∈ ops, op.OK) (ho : (run init ops).opened = true)
    (rn : Nat) (tn task : Name) (alg sv v : Name × Ver) (o3 : NameOK alg.1) (o4 : NameOK sv.1)
    (o5 : NameOK v.1) (s' : St) (k : Key) (c : Nat)
    (hl : load (run init ops) rn tn task alg sv v = .ok (s', some (k, c))) :
    ∃ e ∈ (run init ops).prime, e.1 = k ∧
      keyIdent (run init ops) k = some (tn, ⟨task, alg, sv, v⟩) ∧
      (run init ops).blobs.lookup e.2 = some c := by
  obtain ⟨res, hl', hres⟩ := load_spec (reach_inv ops) ho (reach_chainok ops hops) rn (tn := tn)
    (task := task) o3 o4 o5
  rw [hl] at hl'
  cases hl'
  exact hres.2.1

/-- `load` against the abstract store: it returns what `LoadSpec` prescribes for the cell map of
    its own (target, identity) in the abstract store reached by the same history. -/
theorem load_returns (h : Name → Nat) (ops : List Op) (hops : ∀ op ∈ ops, op.OK ∧ op.Hashed h)
    (ho : (run init ops).opened = true) (rn : Nat) (tn task : Name) (alg sv v : Name × Ver)
    (o3 : NameOK alg.1) (o4 : NameOK sv.1) (o5 : NameOK v.1) :
    ∃ s' res, load (run init ops) rn tn task alg sv v = .ok (s', res) ∧
      LoadSpec (fun r => (absRun ops).m tn ⟨task, alg, sv, v⟩ r) rn (res.map (fun kc => (kc.1.run, kc.2))) := by
  have hok : ∀ op ∈ ops, op.OK := fun op hm => (hops op hm).1
  obtain ⟨_, href⟩ := history_refines h ops hops
  obtain ⟨s', res, hl, hres⟩ := load_reads ops hok ho rn tn task alg sv v o3 o4 o5
  refine ⟨s', res, hl, ?_⟩
  cases res with
  | none =>
    simp only [Option.map_none, LoadSpec]
    intro r
    cases hm : (absRun ops).m tn ⟨task, alg, sv, v⟩ r with
    | none => rfl
    | some c => exact absurd ((href _ _ _ _).mpr hm) (hres r c)
  | some kc =>
    obtain ⟨k, c⟩ := kc
    simp only [Option.map_some, LoadSpec]
    obtain ⟨hs, hrun⟩ := hres
    refine ⟨(href _ _ _ _).mp hs, ?_⟩
    rcases hrun with hrun | ⟨hno, hmax⟩
    · exact Or.inl hrun
    · right
      constructor
      · cases hm : (absRun ops).m tn ⟨task, alg, sv, v⟩ rn with
        | none => rfl
        | some c' => exact absurd ((href _ _ _ _).mpr hm) (hno c')
      · intro r' hne
        cases hm : (absRun ops).m tn ⟨task, alg, sv, v⟩ r' with
        | none => exact absurd hm hne
        | some c' => exact hmax r' c' ((href _ _ _ _).mpr hm)

/-- Values: with a serialisation that round-trips (`dec (enc x) = x`, the pickle law), loading the
    run at which `x` was last stored for this identity on this target gives back `x` unaltered. -/
theorem load_value {V : Type} (enc : V → Nat) (dec : Nat → V) (hrt : ∀ x, dec (enc x) = x)
    (h : Name → Nat) (ops : List Op) (hops : ∀ op ∈ ops, op.OK ∧ op.Hashed h)
    (ho : (run init ops).opened = true) (rn : Nat) (tn task : Name) (alg sv v : Name × Ver)
    (o3 : NameOK alg.1) (o4 : NameOK sv.1) (o5 : NameOK v.1) (x : V)
    (hx : (absRun ops).m tn ⟨task, alg, sv, v⟩ rn = some (enc x)) :
    ∃ s' k c, load (run init ops) rn tn task alg sv v = .ok (s', some (k, c)) ∧ k.run = rn ∧ dec c = x := by
  obtain ⟨s', res, hl, hspec⟩ := load_returns h ops hops ho rn tn task alg sv v o3 o4 o5
  cases res with
  | none =>
    simp only [Option.map_none, LoadSpec] at hspec
    rw [hspec rn] at hx; cases hx
  | some kc =>
    obtain ⟨k, c⟩ := kc
    simp only [Option.map_some, LoadSpec] at hspec
    obtain ⟨hm, hrun | ⟨hno, _⟩⟩ := hspec
    · refine ⟨s', k, c, hl, hrun, ?_⟩
      rw [hrun, hx] at hm
      rw [← Option.some.inj hm, hrt]
    · rw [hno] at hx; cases hx

/-! ### non-vacuity -/

def v1 : Ver := ⟨1, 0, 0⟩
def v2 : Ver := ⟨2, 0, 0⟩
def hx : Name → Nat := fun b => b.length

/-- two runs of one identity, the same names under another algorithm version and another target,
    a removal, a close/reopen -/
def exOps : List Op :=
  [.openDb,
   .store 2 ['X'] ['t'] (['A'], v1) (['s'], v1) (['v'], v1) ['b'] 1,
   .store 9 ['X'] ['t'] (['A'], v1) (['s'], v1) (['v'], v1) ['b', 'b'] 2,
   .store 9 ['X'] ['t'] (['A'], v2) (['s'], v1) (['v'], v1) ['b', 'b', 'b'] 3,
   .store 9 ['Y'] ['t'] (['A'], v1) (['s'], v1) (['v'], v1) ['b', 'b', 'b', 'b'] 4,
   .closeDb, .openDb,
   .remove 9 ['Y'] ['t'] ['A'] ['s'] ['v']]

instance : DecidablePred Op.OK := fun op => by
  cases op <;> unfold Op.OK <;> infer_instance
instance : DecidablePred (Op.Hashed hx) := fun op => by
  cases op <;> unfold Op.Hashed <;> infer_instance

example : ∀ op ∈ exOps, op.OK ∧ op.Hashed hx := by decide
example : (run init exOps).opened = true := by decide
/-- run 5 is not stored: the highest run (9) of version 1 comes back, not version 2, not target Y -/
example : (match load (run init exOps) 5 ['X'] ['t'] (['A'], v1) (['s'], v1) (['v'], v1) with
    | .ok (_, some (k, c)) => (k.run, c) | _ => (0, 0)) = (9, 2) := by decide
example : (match load (run init exOps) 2 ['X'] ['t'] (['A'], v1) (['s'], v1) (['v'], v1) with
    | .ok (_, some (k, c)) => (k.run, c) | _ => (0, 0)) = (2, 1) := by decide
/-- after the removal nothing is left for target Y: the value stays untouched -/
example : (match load (run init exOps) 9 ['Y'] ['t'] (['A'], v1) (['s'], v1) (['v'], v1) with
    | .ok (_, none) => true | _ => false) = true := by decide
example : (absRun exOps).m ['X'] ⟨['t'], (['A'], v1), (['s'], v1), (['v'], v1)⟩ 9 = some 2 := by decide

end DawgieVerif.C06
