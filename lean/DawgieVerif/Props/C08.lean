/-
C08 — catalogue integrity and exact addressing (shelve backend).

Histories are lists of `Op` (open, close, target addition, registration, store = the five
appends of `Interface.__to_key` + the primary entry, load, remove) run from the empty, closed
catalogue by `run init ops`; a version bump is the same operation with another version.
`Op.OK` says that the names an operation introduces contain no colon (`NameOK`); the catalogue's
own encoding `parent:parent___name___version:d.i.b` cannot be undone on arbitrary names (see the
examples at the end), and DESIGN §5.1 places such names outside the theorems.
-/
import DawgieVerif.Proofs.StoreExact

namespace DawgieVerif.C08
open DawgieVerif.Store DawgieVerif.Generated.Store

instance : DecidablePred Op.OK := fun op => by
  cases op <;> unfold Op.OK <;> infer_instance

/-- For every history (any names), in every table: the persisted dictionary has no duplicate
    name and its ids are exactly `0 … len-1`; while the catalogue is open the index is its inverse:
    `table[name] = i ↔ index[i] = name` — no gaps, no duplicates. -/
theorem table_bij (ops : List Op) (t : Tab) :
    (((run init ops).tbl t).dict.map (·.1)).Nodup ∧
    ((run init ops).tbl t).dict.map (·.2) = List.range ((run init ops).tbl t).dict.length ∧
    ((run init ops).opened = true →
      ((run init ops).tbl t).index.length = ((run init ops).tbl t).dict.length ∧
      ((run init ops).tbl t).index.Nodup ∧
      ∀ n i, ((run init ops).tbl t).dict.lookup n = some i ↔ ((run init ops).tbl t).index[i]? = some n) := by
  have h := reach_inv ops
  have ht := h.tbls t
  refine ⟨ht.nodup, ht.ids, ?_⟩
  intro ho
  have hi := index_eq_names h ho t
  rw [hi]
  exact ⟨by simp [Tbl.names], ht.nodup, ht.lookup_iff⟩

/-- Reopening: whatever order the persisted dictionary is iterated in (`d'` is any permutation of
    it), `util.indexed` rebuilds the same id → name list, which is the index in use while open. -/
theorem reopen_same (ops : List Op) (t : Tab) (d' : List (Name × Nat))
    (hperm : d'.Perm ((run init ops).tbl t).dict) :
    indexed d' = ((run init ops).tbl t).dict.map (·.1) ∧
    ((run init ops).opened = true → indexed d' = ((run init ops).tbl t).index) := by
  have h := reach_inv ops
  have ht := h.tbls t
  have e : indexed d' = ((run init ops).tbl t).names := indexed_of_perm _ _ (by rw [← ht.zip]; exact hperm)
  exact ⟨e, fun ho => by rw [e, index_eq_names h ho t]⟩

/-- … and a close followed by an open gives back the very same catalogue (tables, indices,
    primary table, blobs). -/
theorem reopen_roundtrip (ops : List Op) (ho : (run init ops).opened = true) :
    openDb (closeDb (run init ops)) = run init ops := by
  have h := reach_inv ops
  have key : ∀ t, indexed ((run init ops).tbl t).dict = ((run init ops).tbl t).index := by
    intro t; rw [(h.tbls t).indexed, index_eq_names h ho t]
  have k1 := key .target; have k2 := key .task; have k3 := key .alg
  have k4 := key .state; have k5 := key .value
  simp only [St.tbl] at k1 k2 k3 k4 k5
  generalize run init ops = s at *
  obtain ⟨o, tg, tk, al, st, vl, pr, bl⟩ := s
  simp only at ho k1 k2 k3 k4 k5
  subst ho
  simp [openDb, closeDb, k1, k2, k3, k4, k5]

/-- Chain, for every history (any names): every primary key refers to existing rows, and the
    algorithm row was registered under the key's task id, the state-vector row under the key's
    algorithm id, the value row under the key's state-vector id. -/
theorem chain_ids (ops : List Op) : ∀ e ∈ (run init ops).prime,
    ∃ tn tk an av sn sv vn vv,
      (tn, e.1.tg) ∈ (run init ops).target.dict ∧ (tk, e.1.task) ∈ (run init ops).task.dict ∧
      (construct an (some e.1.task) (some av), e.1.alg) ∈ (run init ops).alg.dict ∧
      (construct sn (some e.1.alg) (some sv), e.1.sv) ∈ (run init ops).state.dict ∧
      (construct vn (some e.1.sv) (some vv), e.1.v) ∈ (run init ops).value.dict := by
  intro e he
  have h := reach_inv ops
  obtain ⟨tn, tk, a, s, v, k1, k2, k3, k4, k5⟩ := h.chain e he
  have m : ∀ (t : Tab) (f : Name) (i : Nat), ((run init ops).tbl t).names[i]? = some f →
      (f, i) ∈ ((run init ops).tbl t).dict := by
    intro t f i hf
    rw [(h.tbls t).zip, List.mem_zipIdx_iff_getElem?]; exact hf
  exact ⟨tn, tk, a.1, a.2, s.1, s.2, v.1, v.2, m .target _ _ k1, m .task _ _ k2, m .alg _ _ k3,
    m .state _ _ k4, m .value _ _ k5⟩

/-- Chain as the code resolves it (`_prime_keys`, `versions`): for every history over colon-free
    names, every primary key resolves through the open indices with `dissect`: value → its parent
    is the key's state vector → its parent is the key's algorithm → its parent is the key's task;
    all ids are in range and `keyNames` (the body of `_prime_keys`) succeeds. -/
theorem chain (ops : List Op) (hops : ∀ op ∈ ops, op.OK) (ho : (run init ops).opened = true) :
    ∀ e ∈ (run init ops).prime,
    ∃ tn tk an av sn sv vn vv fa fs fv,
      (run init ops).target.index[e.1.tg]? = some tn ∧ (run init ops).task.index[e.1.task]? = some tk ∧
      (run init ops).alg.index[e.1.alg]? = some fa ∧ dissect fa = some (some e.1.task, an, some av) ∧
      (run init ops).state.index[e.1.sv]? = some fs ∧ dissect fs = some (some e.1.alg, sn, some sv) ∧
      (run init ops).value.index[e.1.v]? = some fv ∧ dissect fv = some (some e.1.sv, vn, some vv) ∧
      keyNames (run init ops) e.1 = .ok (e.1.run, tn, tk, an, sn, vn) := by
  intro e he
  have h := reach_inv ops
  obtain ⟨tn, tk, a, s, v, hk, o1, o2, o3, o4, o5⟩ := reach_chainok ops hops e he
  have hkn := keyNames_of_keyIs h ho hk o1 o2 o3 o4 o5
  obtain ⟨k1, k2, k3, k4, k5⟩ := hk
  have i1 := index_eq_names h ho .target; have i2 := index_eq_names h ho .task
  have i3 := index_eq_names h ho .alg; have i4 := index_eq_names h ho .state
  have i5 := index_eq_names h ho .value
  simp only [St.tbl] at i1 i2 i3 i4 i5
  exact ⟨tn, tk, a.1, a.2, s.1, s.2, v.1, v.2, _, _, _, by rw [i1]; exact k1, by rw [i2]; exact k2,
    by rw [i3]; exact k3, dissect_construct o3 _ _, by rw [i4]; exact k4, dissect_construct o4 _ _,
    by rw [i5]; exact k5, dissect_construct o5 _ _, hkn⟩

/-- The next run id is strictly greater than every stored run id, for every history.
    (`nextRun` is regenerated from the source of `shelve.next`.) -/
theorem next_gt (ops : List Op) (n : Nat) (h : next (run init ops) = .ok n) :
    ∀ e ∈ (run init ops).prime, e.1.run < n := next_spec h

/-- `remove` removes exactly the primary entries whose dissected names equal the request — in
    particular not those of `Alg2` when `Alg` is addressed — keeps every other entry with its
    blob, and touches no table.  When it raises (unknown target or task) no entry has those names. -/
theorem remove_exact (ops : List Op) (hops : ∀ op ∈ ops, op.OK) (rid : Nat)
    (tn taskn algn svn vn : Name) (h3 : NameOK algn) (h4 : NameOK svn) (h5 : NameOK vn) :
    (∀ s', remove (run init ops) rid tn taskn algn svn vn = .ok s' →
      s'.prime = (run init ops).prime.filter
        (fun e => !keyNamed (run init ops) e.1 (rid, tn, taskn, algn, svn, vn)) ∧
      (∀ t, s'.tbl t = (run init ops).tbl t) ∧ s'.blobs = (run init ops).blobs) ∧
    (∀ er, remove (run init ops) rid tn taskn algn svn vn = .error er → (run init ops).opened = true →
      ∀ e ∈ (run init ops).prime, keyNamed (run init ops) e.1 (rid, tn, taskn, algn, svn, vn) = false) := by
  have h := reach_inv ops
  have hc := reach_chainok ops hops
  constructor
  · intro s' hr
    have ho : (run init ops).opened = true := by
      cases ho : (run init ops).opened with
      | true => rfl
      | false => simp [remove, ho] at hr
    have := (remove_spec h ho hc rid h3 h4 h5).1 s' hr
    exact ⟨this.1, this.2.1, this.2.2.1⟩
  · intro er hr ho
    exact (remove_spec h ho hc rid h3 h4 h5).2 er hr

/-- `trace` reports, for a target, only runs of primary entries whose task and algorithm names
    are exactly the requested ones (the target being that target or `__all__`), and the reported
    run is the highest one stored under that algorithm entry. -/
theorem trace_exact (ops : List Op) (hops : ∀ op ∈ ops, op.OK) (tans : List (Name × Name))
    (htans : ∀ tan ∈ tans, NameOK tan.2) (res : List (Name × List (Name × Name × Nat)))
    (h : trace (run init ops) tans = .ok res) :
    ∀ row ∈ res, ∀ cell ∈ row.2, (cell.1, cell.2.1) ∈ tans ∧
      ∃ e ∈ (run init ops).prime, e.1.run = cell.2.2 ∧
        (∃ tn' sv v, keyNames (run init ops) e.1 = .ok (cell.2.2, tn', cell.1, cell.2.1, sv, v) ∧
          (tn' = row.1 ∨ tn' = allName)) ∧
        (∀ e' ∈ (run init ops).prime, e'.1.tg = e.1.tg → e'.1.task = e.1.task → e'.1.alg = e.1.alg →
          e'.1.run ≤ cell.2.2) := by
  have hi := reach_inv ops
  have hc := reach_chainok ops hops
  obtain ⟨ho, hrows⟩ := trace_rows h
  intro row hrow cell hcell
  obtain ⟨t, ht, hname, hcells⟩ := hrows row hrow
  obtain ⟨hcell', hmem⟩ := hcells cell hcell
  refine ⟨hmem, ?_⟩
  have htid : (run init ops).target.names[t.2]? = some row.1 := by
    have tT := hi.tbls .target
    simp only [St.tbl] at tT
    rw [tT.zip, List.mem_zipIdx_iff_getElem?] at ht
    rw [hname]; exact ht
  exact traceCell_spec hi ho hc htid (htans _ hmem) hcell'

/-- … and a cell stays empty only when nothing is stored under the selected algorithm entry, for
    the target and for `__all__`. -/
theorem trace_silent (ops : List Op) (tid : Nat) (taskn algn : Name)
    (h : traceCell (run init ops) tid (taskn, algn) = .ok none) :
    ∃ tskid algid, (run init ops).task.dict.lookup taskn = some tskid ∧
      latestAlg (run init ops) algn tskid = .ok algid ∧
      (∀ e ∈ (run init ops).prime, ¬ (e.1.tg = tid ∧ e.1.task = tskid ∧ e.1.alg = algid)) ∧
      (∀ allid, (run init ops).target.dict.lookup allName = some allid →
        ∀ e ∈ (run init ops).prime, ¬ (e.1.tg = allid ∧ e.1.task = tskid ∧ e.1.alg = algid)) :=
  traceCell_none h

/-- `reset` reads versions only from primary entries of the requested run, target and task; when
    an entry with exactly the requested algorithm name exists there, every entry it reads has
    exactly that algorithm name (never one that merely shares a prefix).  Each step's versions are
    the ones recorded in the rows the key points to.
    (When no such entry exists the code falls back to every entry of (run, target, task) whatever
    its algorithm: the first clause is all that holds then.) -/
theorem reset_exact (ops : List Op) (hops : ∀ op ∈ ops, op.OK) (rid : Nat) (tn taskn algn : Name)
    (svNames : List Name) (h3 : NameOK algn) (steps : List ResetStep)
    (h : reset (run init ops) rid tn taskn algn svNames = .ok steps) :
    (∀ st ∈ steps, (∃ e ∈ (run init ops).prime, e.1 = st.key) ∧
      ∃ an sn sver vn, keyNames (run init ops) st.key = .ok (rid, tn, taskn, an, sn, vn) ∧
        (∃ fa, (run init ops).alg.index[st.key.alg]? = some fa ∧
          dissect fa = some (some st.key.task, an, some st.algVer)) ∧
        (∃ fs, (run init ops).state.index[st.key.sv]? = some fs ∧
          dissect fs = some (some st.key.alg, sn, some sver)) ∧
        st.svName = sn ∧ st.svVer = (if svNames.contains sn then some sver else none)) ∧
    ((∃ e0 ∈ (run init ops).prime, ∃ sv v,
        keyNames (run init ops) e0.1 = .ok (rid, tn, taskn, algn, sv, v)) →
      ∀ st ∈ steps, ∃ sv v, keyNames (run init ops) st.key = .ok (rid, tn, taskn, algn, sv, v)) := by
  have hi := reach_inv ops
  have hc := reach_chainok ops hops
  have ho : (run init ops).opened = true := by
    cases ho : (run init ops).opened with
    | true => rfl
    | false => simp [reset, ho] at h
  obtain ⟨p1, p2⟩ := reset_spec hi ho hc h3 h
  have i3 := index_eq_names hi ho .alg; have i4 := index_eq_names hi ho .state
  simp only [St.tbl] at i3 i4
  constructor
  · intro st hst
    obtain ⟨he, alg, sv, v, hk, o1, o2, o3, o4, o5, r1, r2, r3, r4⟩ := p1 st hst
    refine ⟨he, alg.1, sv.1, sv.2, v.1, ?_, ?_, ?_, r3, r4⟩
    · rw [keyNames_of_keyIs hi ho hk o1 o2 o3 o4 o5, r1]
    · exact ⟨_, by rw [i3]; exact hk.2.2.1, by rw [r2]; exact dissect_construct o3 _ _⟩
    · exact ⟨_, by rw [i4]; exact hk.2.2.2.1, dissect_construct o4 _ _⟩
  · intro hex st hst
    obtain ⟨alg, sv, v, hk, ha⟩ := p2 hex st hst
    obtain ⟨_, alg', sv', v', hk', o1, o2, o3, o4, o5, r1, _⟩ := p1 st hst
    refine ⟨sv'.1, v'.1, ?_⟩
    rw [keyNames_of_keyIs hi ho hk' o1 o2 o3 o4 o5, r1]
    -- the two decompositions of the algorithm row agree on the name
    have e := hk.2.2.1.symm.trans hk'.2.2.1
    have e := Option.some.inj e
    have hn : NameOK alg.1 := by rw [ha]; exact h3
    rw [← (construct_inj hn o3 e).1, ha]

/-- `dissect` undoes `construct` on colon-free names, so that names, parents and versions can be
    read back from the tables; used by every theorem above. -/
theorem names_roundtrip (n : Name) (hn : NameOK n) (p : Option Nat) (v : Option Ver) :
    dissect (construct n p v) = some (p, n, v) := dissect_construct hn p v

/-- the filter of `util.subset` (parents branch, regenerated from the source) accepts a table key
    exactly when it carries the requested name under the requested parent — any version, never a
    longer name -/
theorem subset_exact (n n' : Name) (hn : NameOK n) (hn' : NameOK n') (p p' : Nat) (v' : Option Ver) :
    subsetParents (construct n' (some p') v') (construct n (some p) none) = true ↔ p' = p ∧ n' = n :=
  subsetParents_iff hn hn' p p' v'

/-! ### non-vacuity: a concrete history with names that are prefixes of one another -/

def v1 : Ver := ⟨1, 0, 0⟩
def v2 : Ver := ⟨2, 0, 0⟩

/-- `A` and `A2` under one task, two versions of `A`, a close/reopen in the middle -/
def exOps : List Op :=
  [.openDb,
   .store 3 ['X'] ['t'] (['A'], v1) (['s', 'v'], v1) (['v'], v1) ['b', '1'] 1,
   .store 3 ['X'] ['t'] (['A', '2'], v2) (['s', 'v'], v1) (['v'], v1) ['b', '2'] 2,
   .closeDb, .openDb,
   .store 7 ['X'] ['t'] (['A'], v2) (['s', 'v', '_'], v1) (['v'], v1) ['b', '3'] 3]

example : ∀ op ∈ exOps, op.OK := by decide
example : (run init exOps).opened = true := by decide
example : (run init exOps).prime.map (·.1) = [⟨3, 0, 0, 0, 0, 0⟩, ⟨3, 0, 0, 1, 1, 1⟩, ⟨7, 0, 0, 2, 2, 2⟩] := by
  decide
example : (run init exOps).alg.index.length = 3 := by decide
example : (match next (run init exOps) with | .ok n => n | .error _ => 0) = 8 := by decide
/-- removing `A` at run 3 leaves `A2` (and the other run of `A`) -/
example : (match remove (run init exOps) 3 ['X'] ['t'] ['A'] ['s', 'v'] ['v'] with
    | .ok s' => s'.prime.map (·.1) | .error _ => []) = [⟨3, 0, 0, 1, 1, 1⟩, ⟨7, 0, 0, 2, 2, 2⟩] := by decide
/-- `trace t.A` reports run 7 (latest version of `A`), `t.A2` run 3 -/
example : (match trace (run init exOps) [(['t'], ['A']), (['t'], ['A', '2'])] with
    | .ok r => r | .error _ => []) = [(['X'], [(['t'], ['A'], 7), (['t'], ['A', '2'], 3)])] := by decide
example : (match reset (run init exOps) 3 ['X'] ['t'] ['A'] [['s', 'v']] with
    | .ok st => st.map (fun x => (x.key, x.algVer)) | .error _ => []) = [(⟨3, 0, 0, 0, 0, 0⟩, v1)] := by decide

/-- why `NameOK` cannot be "does not contain a reserved token": `x:parent` contains neither token,
    yet its table key cannot be dissected (the real `dissect` raises "too many values to unpack") -/
example : dissect (construct ['x', ':', 'p', 'a', 'r', 'e', 'n', 't'] (some 3) (some v1)) = none := by decide
/-- a prefix filter (the repaired defect F-C08) would accept `A2` for `A`; the regenerated one does not -/
example : subsetParents (construct ['A', '2'] (some 0) (some v1)) (construct ['A'] (some 0) none) = false := by
  decide

end DawgieVerif.C08
