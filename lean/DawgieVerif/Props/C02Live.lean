/-
C02 + C04 — the pipeline gets there: on an acyclic, feedback-free engine, from any reachable
state of the world of `Model/Reprocess.lean` in which nothing is in flight, if from then on
every released unit is simply executed (load the latest contents, store what the algorithm
computes, report) round after round — a dispatch tick, then every unit in flight —, then after
depth + 1 rounds the pipeline is quiescent AND the store holds the results of a from-scratch
run in dependency order.

`roundsOps` is the op list of those rounds (it depends on the evolving world); `ValidW` of it
contributes the novelty premise of every store ("changed values have content never stored
before") — the worker protocol and the load hypothesis hold by construction.  `DirtyOk`: every
algorithm whose source data changed is pending (its re-run was requested).
-/
import DawgieVerif.Proofs.ReprocessLive
import DawgieVerif.Props.C02Fresh

namespace DawgieVerif.C02
open DawgieVerif.Sched DawgieVerif.Reprocess

theorem eventually_fresh (g : Graph) (sem : Sem) (T : List Target) (order : List Name)
    (hs : SemOk g T sem) (htopo : Topo g sem order)
    (rank : Name → Nat) (R : Nat) (hr : Ranked g rank R)
    (w : W) (h3 : Inv3 g sem T w) (ht : Tidy w) (hp : w.s.paused = false)
    (hfl : w.s.inflight = []) (hd : DirtyOk w)
    (hv : ValidW g sem T w (roundsOps g sem (R + 1) w)) (st0 : Val → Target → Content) :
    let w' := runW g sem.outs w (roundsOps g sem (R + 1) w)
    Quiet w' ∧
    ∀ c ∈ order, ∀ u ∈ unitsOf g T c, ∀ v ∈ sem.outs c,
      w'.store v u = scratch g T sem.outs sem.F w'.source order st0 v u := by
  obtain ⟨hq, _⟩ := rounds_quiet g sem T hs rank R hr w h3 hv ht hp hfl hd
  exact ⟨hq, quiescent_fresh_from g sem T order hs htopo w h3 _ hv hq st0⟩

/-- the source data never changes during the rounds: the from-scratch run is the one for the
    source data the rounds started with -/
theorem rounds_keep_source (g : Graph) (sem : Sem) (j : Nat) (w : W) (ht : Tidy w) :
    (runW g sem.outs w (roundsOps g sem j w)).source = w.source ∧
    Tidy (runW g sem.outs w (roundsOps g sem j w)) := by
  induction j generalizing w with
  | zero => exact ⟨rfl, ht⟩
  | succ j ih =>
    simp only [roundsOps]
    rw [runW_append]
    have hstep : runW g sem.outs w (roundOps g sem w) =
        runW g sem.outs (tick g w) (unitsOps g sem (tick g w) (tick g w).s.inflight) := by
      simp [roundOps, runW, stepW, step, tick]
    have key : ∀ (l : List Unit') (w1 : W), Tidy w1 →
        (runW g sem.outs w1 (unitsOps g sem w1 l)).source = w1.source ∧
        Tidy (runW g sem.outs w1 (unitsOps g sem w1 l)) := by
      intro l
      induction l with
      | nil => intro w1 h1; exact ⟨rfl, h1⟩
      | cons p ps ihl =>
        intro w1 h1
        simp only [unitsOps]
        rw [runW_append]
        obtain ⟨_, h2, _, h4⟩ := answerUnit_spec g sem w1 p h1
        have := ihl (answerUnit g sem w1 p) h2
        exact ⟨this.1.trans h4, this.2⟩
    obtain ⟨k1, k2⟩ := key (tick g w).s.inflight (tick g w) ht
    rw [hstep]
    obtain ⟨i1, i2⟩ := ih _ k2
    exact ⟨i1.trans k1, i2⟩

/-! non-vacuity: the chain of `Props/C02Fresh` right after the full request: two rounds -/
def rank2 : Name → Nat := fun n => if n = 1 then 1 else 0

theorem ranked2 : Ranked g2 rank2 1 := by
  refine ⟨?_, ?_, ?_, fun _ => rfl⟩
  · intro x a ha
    simp only [g2] at ha
    by_cases hx : x = 1
    · simp [hx] at ha; simp [rank2, hx, ha]
    · simp [hx] at ha
  · intro x c hc
    simp only [g2] at hc
    by_cases hx : x = 0
    · simp [hx] at hc; simp [rank2, hx, hc]
    · simp [hx] at hc
  · intro n; simp only [rank2]; split <;> omega

example : ValidW g2 sem2 [1] w2 (roundsOps g2 sem2 2 w2) := by decide +kernel

example : Tidy w2 ∧ w2.s.paused = false ∧ w2.s.inflight = [] ∧ DirtyOk w2 := by
  refine ⟨⟨rfl, rfl⟩, rfl, rfl, ?_⟩
  intro k hk; simp [w2, requested] at hk

example :
    let w := runW g2 sem2.outs w2 (roundsOps g2 sem2 2 w2)
    w.s.que = [] ∧ w.s.inflight = [] ∧ w.store 10 1 = 6 ∧ w.store 11 1 = 13 := by
  decide +kernel

end DawgieVerif.C02
