/-
C04, tie by translation: the filter condition of `schedule._prune`, regenerated from its source on
every run (`Generated/SchedGen.lean`), IS `Node.live` of the hand-written scheduler model, so the
queue the idle/quiescence theorems talk about is pruned exactly as the source prunes it.
-/
import DawgieVerif.Generated.SchedGen

namespace DawgieVerif.C04
open DawgieVerif.Sched DawgieVerif.Generated

/-- the regenerated keep-condition of `_prune` is the model's `Node.live`, for every node -/
theorem prune_keep_is_live (nd : Node) : SchedGen.keep nd = nd.live := by
  cases nd with
  | mk todo doing do_ status runid =>
    cases todo <;> cases doing <;> cases status <;> simp [SchedGen.keep, Node.live, Node.running]

/-- hence `_prune` as regenerated is the model's `prune`, in every state -/
theorem prune_is_model (s : St) :
    { s with que := s.que.filter (fun n => SchedGen.keep (s.node n)) } = prune s := by
  simp only [prune, prune_keep_is_live]

/-! the translation distinguishes the disjuncts: a `_prune` that forgot running nodes would drop
    one the model keeps -/
example : (⟨[], [], [], .running, none⟩ : Node).live = true ∧
    ((!([] : List Target).isEmpty) || (!([] : List Target).isEmpty)) = false := by decide

end DawgieVerif.C04
