/-
C19 (second half) — with client certificates configured, a request without one can invoke only
the read-only public endpoints, never run / reset / submit / snapshot, and an error inside the
access hook denies access.

`allAccess`, `isSanctioned`, `wrapperOnRaise`, `renderSteps` and `registered` are regenerated
from `/repo/Python/dawgie` on every run (`tools/gen_c19.py`); the theorems are re-checked
against what the source says now.  "Read-only public endpoint" = registered endpoint whose
handler reaches no mutator in the front end's call graph (DESIGN §5.1).
-/
import DawgieVerif.Proofs.Sanction

namespace DawgieVerif.C19
open DawgieVerif.Generated.Endpoints DawgieVerif.Sanction

/-- Clients configured and no certificate: sanctioned iff the endpoint is on the allow-list. -/
theorem anon_allowlist (e : String) :
    isSanctioned true false e = allAccess.contains e := by
  rw [ladder]; simp

/-- No registered command is on the anonymous allow-list (finite generated table). -/
theorem no_command_anonymous :
    ∀ e ∈ registered, mutating e = true → e.uri ∉ allAccess := by
  decide

/-- Hence every registered command is refused to a caller without certificate. -/
theorem commands_denied_to_strangers :
    ∀ e ∈ registered, mutating e = true → isSanctioned true false e.uri = false := by
  intro e he hm
  rw [anon_allowlist]
  have := no_command_anonymous e he hm
  simpa using this

/-- The handler is invoked only after `security.sanctioned` returned true for this request:
    in every run of `__render` that calls the handler the check result was true and the
    successful check stands earlier in the trace. -/
theorem check_before_handler (ok methodOk : Bool) (h : Ev.handler ∈ render ok methodOk) :
    ok = true ∧ ∃ pre post, render ok methodOk = pre ++ Ev.handler :: post
      ∧ Ev.checked true ∈ pre := by
  constructor
  · cases ok with
    | true => rfl
    | false => exact absurd h (run_denied_no_handler renderSteps methodOk guardFirst_renderSteps)
  · exact run_handler_after_check renderSteps ok methodOk guardFirst_renderSteps h

/-- End to end: clients configured, no certificate, default hook — no HTTP method makes the
    handler of a registered command run. -/
theorem stranger_cannot_command :
    ∀ e ∈ registered, mutating e = true → ∀ method : String,
      Ev.handler ∉ request e method (defaultHook true false e.uri) := by
  intro e he hm method h
  have hden := commands_denied_to_strangers e he hm
  have := (check_before_handler _ _ h).1
  simp [defaultHook, sanctioned, hden] at this

/-- End to end: whatever the endpoint, method, certificate and client list, a raising hook
    lets no handler run. -/
theorem raising_hook_runs_nothing (e : Endpoint) (method : String) :
    Ev.handler ∉ request e method Hook.raised := by
  intro h
  have := (check_before_handler _ _ h).1
  simp [sanctioned_raised] at this

/-! The three statements below are read off the generated definitions directly
(`Proofs/Sanction.lean`: `ladder`, `guardFirst_renderSteps`, `sanctioned_raised`); the theorems
above are derived from them. -/

/-- The whole decision ladder of `security.is_sanctioned`, for every endpoint string, client
    list and certificate: open when no client certificates are configured, open to any
    certificate holder, otherwise exactly the allow-list. -/
theorem sanction_table (clients cert : Bool) (e : String) :
    isSanctioned clients cert e = (!clients || cert || allAccess.contains e) :=
  ladder clients cert e

/-- The statement order of `DynamicContent.__render` puts the guard before any handler call. -/
theorem guard_first : GuardFirst renderSteps = true :=
  guardFirst_renderSteps

/-- An exception inside the hook, or while looking it up, denies access. -/
theorem hook_fail_closed : sanctioned Hook.raised = false :=
  sanctioned_raised

/-! non-vacuity -/

/-- the table has commands, and read-only endpoints that are public -/
example : (registered.filter mutating).length ≥ 4
    ∧ (registered.filter fun e => !mutating e && allAccess.contains e.uri).length ≥ 10 := by
  decide

/-- the handler does run for a sanctioned request with a registered method (so
    `check_before_handler` is not about an empty trace) -/
example : render true true = [Ev.checked true, Ev.handler] := by decide
example : render false true = [Ev.checked false, Ev.denied] := by decide

/-- a public endpoint is reachable anonymously, a command is not, a certificate opens both -/
example : isSanctioned true false "/api/ae/name" = true
    ∧ isSanctioned true false "/api/cmd/run" = false
    ∧ isSanctioned true true "/api/cmd/run" = true := by decide

end DawgieVerif.C19
